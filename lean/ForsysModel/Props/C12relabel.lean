/-
  Property C12 (and C03 / C13), numbering part — the TRACKING step does not depend on how either frame numbers its
  vertices: `create_mapping` run on renumbered frames PRODUCES the renumbered step map.

  Model: ForsysModel/Model/TimeSeries.lean (`findBest` = find_best, `assignAll` = the loop of create_mapping,
  `createMapping` = create_mapping, `calculateVelocity` = calculate_velocity).
  Props/C13relabel.lean proves that velocities are invariant when the step maps are renamed consistently
  (`relabelMaps`), taking the renamed maps as GIVEN; this file closes the gap: the renamed maps are what the code builds.

  Vocabulary (Proofs/C12relabel.lean, Proofs/C13relabel.lean):
    `TVert.mapV g v`              the vertex `v` with its id renamed by `g`, position kept
    `pool.map (TVert.mapV g)`     a pool (dictionary of interface end points) renamed element by element, storage order kept
    `StepMap.mapV g h m`          step map with keys renamed by `g` (frame `t`), values by `h` (frame `t+1`), None kept
    `relabelPools σ pools`        pool of frame `t` renamed by `σ t`
    `relabelGuesses σ guesses`    the user's `initial_guess[t]` renamed by `(σ t, σ (t+1))`
    `mapsOf s0 cutoff maxDiff pools guesses`
                                  the step maps `TimeSeries.__post_init__` builds:
                                  `mapping[t] = create_mapping(frame t, frame t+1, initial_guess[t])`, `t = 0 … n-2`
    `poolsOf frames junctions`    pool of frame `t` = the vertices of the frame whose id is in `junctions[t]`, in the order
                                  of the vertices dictionary (`{key: value for … in t.vertices.items() if key in real_ids}`)

  The code only tests ids for equality / membership (`v0.id not in mapping.keys()`, `v1.id not in found`); everything else
  reads positions.  So the renaming must not merge two ids that the code compares:
    `g` (frame `t`)    must be injective on  ids of pool0 ∪ KEYS OF THE GUESS,
    `h` (frame `t+1`)  must be injective on  ids of pool1 ∪ REAL VALUES OF THE GUESS.

  FINDINGS (statements false as asked for, true versions kept as `…_partial`, counterexamples as `…_witness`):
   * `findBest_mapV` "for h injective on the ids of pool1" is FALSE: `found` may hold an id that is not in the pool
     (a value of the user's guess); if `h` sends it onto a pool id, that pool vertex is wrongly treated as taken
     (`findBest_mapV_witness`).  True: `findBest_mapV_partial` (h never identifies a pool id with a different taken id;
     injectivity inside the pool is NOT needed at this level) and `findBest_mapV_of_injOn`, `findBest_mapV`.
   * `assignAll_mapV` / `createMapping_mapV` "for g injective on pool0's ids" is FALSE: a key of the guess that is not an
     id of pool0 may be sent onto an id of pool0, which is then skipped (`assignAll_mapV_witness`).  True:
     `assignAll_mapV_partial`, `createMapping_mapV_of_injOn` (g injective on pool0's ids ∪ guess keys) and the
     versions for globally injective renumberings `assignAll_mapV`, `createMapping_mapV`.
  Neither is a defect of the code: a renumbering of a frame is injective on all the ids of the frame.
-/
import ForsysModel.Proofs.C12relabel
import ForsysModel.Props.C12
import ForsysModel.Props.C13relabel

namespace Forsys

/-- pool of frame `t`: the vertices of the frame whose id is listed in `junctions[t]`, in dictionary order -/
def poolsOf (frames : List TFrame) (junctions : List (List Id)) : List (List TVert) :=
  frames.mapIdx fun t f => f.verts.filter fun v => (junctions.getD t []).contains v.id

/-- the junction ids of frame `t` renamed by `σ t` -/
def relabelIds (σ : Nat → Id → Id) (junctions : List (List Id)) : List (List Id) :=
  junctions.mapIdx fun t l => l.map (σ t)

/-! ### A. `find_best` under renaming -/

/-- the candidates inside a radius: only positions and membership of ids in `found` are used -/
theorem within_mapV (h : Id → Id) (hh : Function.Injective h) (v0 : Pt) (ms : Rat) (found : List (Option Id))
    (pool : List TVert) :
    within v0 ms (found.map (Option.map h)) (pool.map (TVert.mapV h))
      = (within v0 ms found pool).map (TVert.mapV h) :=
  C12r.within_mapV h v0 ms found pool (fun _ _ _ _ e => hh e)

/-- first loop of `find_best`: same candidates (renamed), same unconsumed radii, same stale radius -/
theorem loopObverse_mapV (h : Id → Id) (hh : Function.Injective h) (maxcoord : Rat) (v0 : Pt)
    (found : List (Option Id)) (pool : List TVert) (sp : List Rat) (c : List TVert) (ms : Rat) :
    loopObverse maxcoord v0 (found.map (Option.map h)) (pool.map (TVert.mapV h)) sp (c.map (TVert.mapV h)) ms
      = ((loopObverse maxcoord v0 found pool sp c ms).1.map (TVert.mapV h),
         (loopObverse maxcoord v0 found pool sp c ms).2.1, (loopObverse maxcoord v0 found pool sp c ms).2.2) :=
  C12r.loopObverse_mapV h maxcoord v0 found pool (fun _ _ _ _ e => hh e) sp c ms

/-- second loop (reversed pool, stale radius) -/
theorem loopInverse_mapV (h : Id → Id) (hh : Function.Injective h) (v0 : Pt) (found : List (Option Id))
    (pool : List TVert) (ms : Rat) (sp : List Rat) (c : List TVert) :
    loopInverse v0 (found.map (Option.map h)) (pool.map (TVert.mapV h)) ms sp (c.map (TVert.mapV h))
      = (loopInverse v0 found pool ms sp c).map (TVert.mapV h) :=
  C12r.loopInverse_mapV h v0 found pool ms (fun _ _ _ _ e => hh e) sp c

/-- `distances.index(min(distances))` reads positions only — no hypothesis on `h` at all -/
theorem nearest_mapV (h : Id → Id) (v0 : Pt) (l : List TVert) :
    nearest v0 (l.map (TVert.mapV h)) = (nearest v0 l).map (TVert.mapV h) :=
  C12r.nearest_mapV h v0 l

/- Statement 1 as asked for — FALSE (`findBest_mapV_witness`):
     theorem findBest_mapV (h) (hh : ∀ a ∈ pool.map (·.id), ∀ b ∈ pool.map (·.id), h a = h b → a = b) … :
       findBest s0 cutoff maxcoord v0 (pool.map (TVert.mapV h)) (found.map (Option.map h))
         = (findBest s0 cutoff maxcoord v0 pool found).map (TVert.mapV h)                                        -/

/-- `find_best` on the renamed pool returns the renamed vertex, PROVIDED `h` never sends a taken id (`found`) onto the
    id of a different pool vertex.  (Injectivity of `h` inside the pool is not needed here: two pool vertices that
    receive the same id remain two candidates with their own positions.) -/
theorem findBest_mapV_partial (h : Id → Id) (s0 cutoff maxcoord : Rat) (v0 : Pt) (pool : List TVert)
    (found : List (Option Id))
    (hh : ∀ v ∈ pool, ∀ x, some x ∈ found → h x = h v.id → x = v.id) :
    findBest s0 cutoff maxcoord v0 (pool.map (TVert.mapV h)) (found.map (Option.map h))
      = (findBest s0 cutoff maxcoord v0 pool found).map (TVert.mapV h) :=
  C12r.findBest_mapV h s0 cutoff maxcoord v0 pool found hh

/-- … in particular for `h` injective on the ids of the pool and the real values of `found` together -/
theorem findBest_mapV_of_injOn (h : Id → Id) (s0 cutoff maxcoord : Rat) (v0 : Pt) (pool : List TVert)
    (found : List (Option Id))
    (hh : ∀ a ∈ pool.map (·.id) ++ found.filterMap id, ∀ b ∈ pool.map (·.id) ++ found.filterMap id,
      h a = h b → a = b) :
    findBest s0 cutoff maxcoord v0 (pool.map (TVert.mapV h)) (found.map (Option.map h))
      = (findBest s0 cutoff maxcoord v0 pool found).map (TVert.mapV h) := by
  apply findBest_mapV_partial
  intro v hv x hx e
  apply hh _ _ _ _ e
  · exact List.mem_append_right _ (List.mem_filterMap.2 ⟨some x, hx, rfl⟩)
  · exact List.mem_append_left _ (List.mem_map.2 ⟨v, hv, rfl⟩)

/-- … and for every injective renumbering -/
theorem findBest_mapV (h : Id → Id) (hh : Function.Injective h) (s0 cutoff maxcoord : Rat) (v0 : Pt)
    (pool : List TVert) (found : List (Option Id)) :
    findBest s0 cutoff maxcoord v0 (pool.map (TVert.mapV h)) (found.map (Option.map h))
      = (findBest s0 cutoff maxcoord v0 pool found).map (TVert.mapV h) :=
  findBest_mapV_partial h s0 cutoff maxcoord v0 pool found (fun _ _ _ _ e => hh e)

/-- the renumbering that sends the id 5 onto the id 1 and keeps everything else -/
def merge5to1 (a : Id) : Id := if a = 5 then 1 else a

/-- FINDING.  `h` injective on the ids of the pool is not enough for statement 1: the taken list holds the id 5 (not a
    pool id; e.g. a value of the user's guess), `merge5to1` is injective on the pool ids {1, 2} but sends 5 onto 1.
    The original search returns vertex 1 (the nearest); in the renamed frame vertex 1 looks taken and vertex 2 is
    returned. -/
theorem findBest_mapV_witness :
    let pool : List TVert := [⟨1, ⟨1/100, 0⟩⟩, ⟨2, ⟨1/2, 0⟩⟩]
    (∀ a ∈ pool.map (·.id), ∀ b ∈ pool.map (·.id), merge5to1 a = merge5to1 b → a = b) ∧
    findBest (5/1000) (1/10) 10 ⟨0, 0⟩ pool [some 5] = some ⟨1, ⟨1/100, 0⟩⟩ ∧
    findBest (5/1000) (1/10) 10 ⟨0, 0⟩ (pool.map (TVert.mapV merge5to1)) ([some 5].map (Option.map merge5to1))
      = some ⟨2, ⟨1/2, 0⟩⟩ ∧
    findBest (5/1000) (1/10) 10 ⟨0, 0⟩ (pool.map (TVert.mapV merge5to1)) ([some 5].map (Option.map merge5to1))
      ≠ (findBest (5/1000) (1/10) 10 ⟨0, 0⟩ pool [some 5]).map (TVert.mapV merge5to1) := by
  decide +kernel

/-! ### B. the assignment loop of `create_mapping` -/

/- Statement 2 as asked for (g injective on pool0's ids, h on pool1's ids ∪ guess values) — FALSE
   (`assignAll_mapV_witness`): the keys of the guess are compared with the ids of pool0 too.                       -/

/-- the loop run on the renamed pools with the renamed guess builds the renamed map, entry by entry in the same
    insertion order, for `g` injective on pool0's ids ∪ the keys of the guess and `h` injective on pool1's ids ∪ the
    real values of the guess -/
theorem assignAll_mapV_partial (g h : Id → Id) (s0 cutoff maxcoord : Rat) (pool1 pool0 : List TVert)
    (guess : StepMap)
    (hg : ∀ a ∈ pool0.map (·.id) ++ guess.map (·.1), ∀ b ∈ pool0.map (·.id) ++ guess.map (·.1), g a = g b → a = b)
    (hh : ∀ a ∈ pool1.map (·.id) ++ StepMap.someValues guess,
      ∀ b ∈ pool1.map (·.id) ++ StepMap.someValues guess, h a = h b → a = b) :
    assignAll s0 cutoff maxcoord (pool1.map (TVert.mapV h)) (pool0.map (TVert.mapV g)) (guess.mapV g h)
      = (assignAll s0 cutoff maxcoord pool1 pool0 guess).mapV g h := by
  refine C12r.assignAll_mapV g h (· ∈ pool0.map (·.id) ++ guess.map (·.1))
    (· ∈ pool1.map (·.id) ++ StepMap.someValues guess) (fun a b ha hb e => hg a ha b hb e)
    (fun a b ha hb e => hh a ha b hb e) s0 cutoff maxcoord pool1 ?_ pool0 guess ?_ ?_ ?_
  · intro v hv; exact List.mem_append_left _ (List.mem_map.2 ⟨v, hv, rfl⟩)
  · intro v hv; exact List.mem_append_left _ (List.mem_map.2 ⟨v, hv, rfl⟩)
  · intro e he; exact List.mem_append_right _ (List.mem_map.2 ⟨e, he, rfl⟩)
  · intro e he x hx
    refine List.mem_append_right _ ?_
    simp only [StepMap.someValues, StepMap.values, List.mem_filterMap, List.mem_map, id]
    exact ⟨some x, ⟨e, he, hx⟩, rfl⟩

/-- … in particular for injective renumberings of the two frames -/
theorem assignAll_mapV (g h : Id → Id) (hg : Function.Injective g) (hh : Function.Injective h)
    (s0 cutoff maxcoord : Rat) (pool1 pool0 : List TVert) (guess : StepMap) :
    assignAll s0 cutoff maxcoord (pool1.map (TVert.mapV h)) (pool0.map (TVert.mapV g)) (guess.mapV g h)
      = (assignAll s0 cutoff maxcoord pool1 pool0 guess).mapV g h :=
  assignAll_mapV_partial g h s0 cutoff maxcoord pool1 pool0 guess (fun _ _ _ _ e => hg e) (fun _ _ _ _ e => hh e)

/-- the code runs the loop twice on the same dictionary — interface end points first (`rvertices`), then the border
    vertices (`evertices`, not modelled by `createMapping`): `assignAll_mapV` holds for every starting map, so the two
    loops in sequence commute with the renumbering as well -/
theorem assignAll_twice_mapV (g h : Id → Id) (hg : Function.Injective g) (hh : Function.Injective h)
    (s0 cutoff maxcoord : Rat) (pool1 pool0 epool1 epool0 : List TVert) (guess : StepMap) :
    assignAll s0 cutoff maxcoord (epool1.map (TVert.mapV h)) (epool0.map (TVert.mapV g))
        (assignAll s0 cutoff maxcoord (pool1.map (TVert.mapV h)) (pool0.map (TVert.mapV g)) (guess.mapV g h))
      = (assignAll s0 cutoff maxcoord epool1 epool0 (assignAll s0 cutoff maxcoord pool1 pool0 guess)).mapV g h := by
  rw [assignAll_mapV g h hg hh, assignAll_mapV g h hg hh]

/-- FINDING.  `g` injective on the ids of pool0 is not enough: the guess has the key 5 (not an end point of frame 0)
    and `merge5to1` sends it onto the id of the only end point, vertex 1, which is then never searched for. -/
theorem assignAll_mapV_witness :
    let pool0 : List TVert := [⟨1, ⟨0, 0⟩⟩]
    let pool1 : List TVert := [⟨7, ⟨1/100, 0⟩⟩]
    let guess : StepMap := [(5, none)]
    (∀ a ∈ pool0.map (·.id), ∀ b ∈ pool0.map (·.id), merge5to1 a = merge5to1 b → a = b) ∧
    assignAll (5/1000) (1/10) 10 pool1 pool0 guess = [(5, none), (1, some 7)] ∧
    assignAll (5/1000) (1/10) 10 (pool1.map (TVert.mapV id)) (pool0.map (TVert.mapV merge5to1))
        (guess.mapV merge5to1 id) = [(1, none)] ∧
    assignAll (5/1000) (1/10) 10 (pool1.map (TVert.mapV id)) (pool0.map (TVert.mapV merge5to1))
        (guess.mapV merge5to1 id) ≠ (assignAll (5/1000) (1/10) 10 pool1 pool0 guess).mapV merge5to1 id := by
  decide +kernel

/-! ### C. `create_mapping` -/

/-- `self.maxcoord` reads positions only -/
theorem maxCoord_mapV (g h : Id → Id) (pool0 pool1 : List TVert) :
    maxCoord (pool0.map (TVert.mapV g)) (pool1.map (TVert.mapV h)) = maxCoord pool0 pool1 :=
  C12r.maxCoord_mapV g h pool0 pool1

/-- the DifferentTissueException test reads positions only -/
theorem tooDifferent_mapV (g h : Id → Id) (maxDiff : Rat) (pool0 pool1 : List TVert) :
    tooDifferent maxDiff (pool0.map (TVert.mapV g)) (pool1.map (TVert.mapV h)) = tooDifferent maxDiff pool0 pool1 :=
  C12r.tooDifferent_mapV g h maxDiff pool0 pool1

/-- `create_mapping` run on the renamed frames with the renamed guess returns the renamed map (or raises
    DifferentTissueException exactly when the original call does); injectivity only where ids are compared -/
theorem createMapping_mapV_of_injOn (g h : Id → Id) (s0 cutoff maxDiff : Rat) (pool0 pool1 : List TVert)
    (guess : StepMap)
    (hg : ∀ a ∈ pool0.map (·.id) ++ guess.map (·.1), ∀ b ∈ pool0.map (·.id) ++ guess.map (·.1), g a = g b → a = b)
    (hh : ∀ a ∈ pool1.map (·.id) ++ StepMap.someValues guess,
      ∀ b ∈ pool1.map (·.id) ++ StepMap.someValues guess, h a = h b → a = b) :
    createMapping s0 cutoff maxDiff (pool0.map (TVert.mapV g)) (pool1.map (TVert.mapV h)) (guess.mapV g h)
      = (createMapping s0 cutoff maxDiff pool0 pool1 guess).map (StepMap.mapV g h) := by
  unfold createMapping
  rw [tooDifferent_mapV, maxCoord_mapV, List.isEmpty_map]
  split
  · rfl
  · rw [assignAll_mapV_partial g h s0 cutoff _ pool1 pool0 guess hg hh]
    rfl

/-- THE TRACKING STEP IS NUMBERING-INDEPENDENT: for injective renumberings `g` of frame `t` and `h` of frame `t+1`,
    `create_mapping` applied to the renumbered frames (and the renumbered guess) produces the renumbered step map -/
theorem createMapping_mapV (g h : Id → Id) (hg : Function.Injective g) (hh : Function.Injective h)
    (s0 cutoff maxDiff : Rat) (pool0 pool1 : List TVert) (guess : StepMap) :
    createMapping s0 cutoff maxDiff (pool0.map (TVert.mapV g)) (pool1.map (TVert.mapV h)) (guess.mapV g h)
      = (createMapping s0 cutoff maxDiff pool0 pool1 guess).map (StepMap.mapV g h) :=
  createMapping_mapV_of_injOn g h s0 cutoff maxDiff pool0 pool1 guess (fun _ _ _ _ e => hg e) (fun _ _ _ _ e => hh e)

/-- consequently every junction is mapped to the renamed target of its original: look-up form -/
theorem createMapping_mapV_get? (g h : Id → Id) (hg : Function.Injective g) (hh : Function.Injective h)
    (s0 cutoff maxDiff : Rat) (pool0 pool1 : List TVert) (guess m : StepMap)
    (hm : createMapping s0 cutoff maxDiff pool0 pool1 guess = some m) (k : Id) :
    ∃ m', createMapping s0 cutoff maxDiff (pool0.map (TVert.mapV g)) (pool1.map (TVert.mapV h)) (guess.mapV g h)
        = some m' ∧ m'.get? (g k) = (m.get? k).map (Option.map h) := by
  refine ⟨m.mapV g h, ?_, StepMap.get?_mapV g h hg m k⟩
  rw [createMapping_mapV g h hg hh, hm]; rfl

/-! ### D. the whole series: tracking, then velocities -/

/-- the step maps built from the renumbered frames are the renumbered step maps -/
theorem mapsOf_relabel (σ : Nat → Id → Id) (hσ : ∀ s, Function.Injective (σ s)) (s0 cutoff maxDiff : Rat)
    (pools : List (List TVert)) (guesses : List StepMap) :
    mapsOf s0 cutoff maxDiff (relabelPools σ pools) (relabelGuesses σ guesses)
      = relabelMaps σ (mapsOf s0 cutoff maxDiff pools guesses) := by
  apply List.ext_getElem?
  intro t
  simp only [mapsOf, relabelMaps, List.getElem?_mapIdx, List.getElem?_map, C12r.length_relabelPools,
    C12r.getD_relabelPools, C12r.getD_relabelGuesses]
  cases hr : (List.range (pools.length - 1))[t]? with
  | none => rfl
  | some i =>
    have hi : i = t := by
      rw [List.getElem?_eq_some_iff] at hr
      obtain ⟨_, e⟩ := hr
      simpa using e.symm
    subst hi
    simp only [Option.map_some, Option.some.injEq]
    rw [createMapping_mapV _ _ (hσ _) (hσ _)]

/-- TRACKING, THEN VELOCITY: renumber every frame of the series independently (`σ s` for frame `s`: frames, pools of
    interface end points and user guesses renamed), let the code build ITS OWN step maps from the renumbered frames, and
    compute the velocity of the renamed vertex: it is the velocity (or the exception) of the original vertex in the
    original series with its own maps -/
theorem tracking_then_velocity_relabel (σ : Nat → Id → Id) (hσ : ∀ s, Function.Injective (σ s))
    (s0 cutoff maxDiff : Rat) (frames : List TFrame) (pools : List (List TVert)) (guesses : List StepMap)
    (p : Id) (t : Nat) :
    calculateVelocity (relabelFrames σ frames)
        (mapsOf s0 cutoff maxDiff (relabelPools σ pools) (relabelGuesses σ guesses)) (σ t p) t
      = calculateVelocity frames (mapsOf s0 cutoff maxDiff pools guesses) p t := by
  rw [mapsOf_relabel σ hσ]
  exact calculateVelocity_relabel σ hσ frames _ p t

/-- selecting the interface end points of every frame by their ids commutes with the renumbering: the pools of the
    renumbered frames (selected by the renumbered junction ids) are the renumbered pools, in the same storage order -/
theorem poolsOf_relabel (σ : Nat → Id → Id) (hσ : ∀ s, Function.Injective (σ s)) (frames : List TFrame)
    (junctions : List (List Id)) :
    poolsOf (relabelFrames σ frames) (relabelIds σ junctions) = relabelPools σ (poolsOf frames junctions) := by
  apply List.ext_getElem?
  intro t
  simp only [poolsOf, relabelPools, relabelFrames, List.getElem?_mapIdx]
  cases frames[t]? with
  | none => rfl
  | some f =>
    have hJ : (relabelIds σ junctions).getD t [] = (junctions.getD t []).map (σ t) := by
      simp only [relabelIds, List.getD_eq_getElem?_getD, List.getElem?_mapIdx]
      cases junctions[t]? <;> rfl
    simp only [Option.map_some, Option.some.injEq, hJ]
    show List.filter _ (f.verts.map (TVert.mapV (σ t))) = _
    rw [List.filter_map]
    congr 1
    apply List.filter_congr
    intro v _
    exact C12r.contains_map_inj (σ t) (hσ t) _ v.id

/-- the same with the pools READ OFF THE FRAMES (`rvertices = {k: v for k, v in t.vertices.items() if k in real_ids}`):
    everything on the left is computed from the renumbered series alone -/
theorem tracking_then_velocity_relabel_frames (σ : Nat → Id → Id) (hσ : ∀ s, Function.Injective (σ s))
    (s0 cutoff maxDiff : Rat) (frames : List TFrame) (junctions : List (List Id)) (guesses : List StepMap)
    (p : Id) (t : Nat) :
    calculateVelocity (relabelFrames σ frames)
        (mapsOf s0 cutoff maxDiff (poolsOf (relabelFrames σ frames) (relabelIds σ junctions))
          (relabelGuesses σ guesses)) (σ t p) t
      = calculateVelocity frames (mapsOf s0 cutoff maxDiff (poolsOf frames junctions) guesses) p t := by
  rw [poolsOf_relabel σ hσ]
  exact tracking_then_velocity_relabel σ hσ s0 cutoff maxDiff frames _ guesses p t

/-- single step `t ↦ t+1`, for readers who prefer it without the series-level definitions: the step map number `t`
    built from the renumbered frames is the renumbered step map number `t` -/
theorem mapsOf_relabel_step (σ : Nat → Id → Id) (hσ : ∀ s, Function.Injective (σ s)) (s0 cutoff maxDiff : Rat)
    (pools : List (List TVert)) (guesses : List StepMap) (t : Nat) :
    (mapsOf s0 cutoff maxDiff (relabelPools σ pools) (relabelGuesses σ guesses)).getD t none
      = ((mapsOf s0 cutoff maxDiff pools guesses).getD t none).map (StepMap.mapV (σ t) (σ (t + 1))) := by
  rw [mapsOf_relabel σ hσ, C13r.getD_relabelMaps]

/-! ### E. storage order (under the small-motion premises) -/

/-- under the premises of `assignAll_small_motion` the result does not depend on the ORDER in which either frame stores
    its end points: for any permutations `pool0'` of `pool0` and `pool1'` of `pool1`, every end point of frame 0 has
    the same entry in both maps — its true successor -/
theorem assignAll_small_motion_perm (s0 cutoff maxcoord : Rat) (pool1 pool0 pool1' pool0' : List TVert)
    (succ : Id → Id) (hp0 : pool0'.Perm pool0) (hp1 : pool1'.Perm pool1)
    (hs0 : 0 < s0) (hcut : s0 < cutoff) (hmc : 0 < maxcoord)
    (hnd0 : (pool0.map (·.id)).Nodup) (hnd1 : (pool1.map (·.id)).Nodup)
    (hinj : ∀ a ∈ pool0, ∀ b ∈ pool0, succ a.id = succ b.id → a.id = b.id)
    (hsucc : ∀ a ∈ pool0, ∃ w ∈ pool1, w.id = succ a.id ∧
        (∀ u ∈ pool1, u.id ≠ w.id → distSq w.p a.p < distSq u.p a.p) ∧
        (∃ s ∈ spreads s0 cutoff 64, distSq w.p a.p < (s * maxcoord) * (s * maxcoord))) :
    ∀ a ∈ pool0,
      (assignAll s0 cutoff maxcoord pool1' pool0' []).get? a.id
        = (assignAll s0 cutoff maxcoord pool1 pool0 []).get? a.id ∧
      (assignAll s0 cutoff maxcoord pool1' pool0' []).get? a.id = some (some (succ a.id)) := by
  intro a ha
  have h1 := assignAll_small_motion s0 cutoff maxcoord pool1 pool0 succ hs0 hcut hmc hnd0 hnd1 hinj hsucc a ha
  have h2 := assignAll_small_motion s0 cutoff maxcoord pool1' pool0' succ hs0 hcut hmc
    ((hp0.map _).nodup_iff.2 hnd0) ((hp1.map _).nodup_iff.2 hnd1)
    (fun a ha b hb => hinj a (hp0.mem_iff.1 ha) b (hp0.mem_iff.1 hb))
    (fun a ha => by
      obtain ⟨w, hw, hid, hnear, hrad⟩ := hsucc a (hp0.mem_iff.1 ha)
      exact ⟨w, hp1.mem_iff.2 hw, hid, fun u hu => hnear u (hp1.mem_iff.1 hu), hrad⟩)
    a (hp0.mem_iff.2 ha)
  exact ⟨by rw [h1, h2], h2⟩

/-- C12 IN FULL: under the small-motion premises (stated once, for the original numbering and storage order), every end
    point of frame 0 is mapped to its true successor HOWEVER EITHER FRAME IS NUMBERED (`g`, `h` injective) AND STORED
    (`pool0'`, `pool1'` any permutations): the renumbered, reordered run maps `g a` to `h (succ a)` -/
theorem assignAll_small_motion_relabel_perm (g h : Id → Id) (hg : Function.Injective g) (hh : Function.Injective h)
    (s0 cutoff maxcoord : Rat) (pool1 pool0 pool1' pool0' : List TVert)
    (succ : Id → Id) (hp0 : pool0'.Perm pool0) (hp1 : pool1'.Perm pool1)
    (hs0 : 0 < s0) (hcut : s0 < cutoff) (hmc : 0 < maxcoord)
    (hnd0 : (pool0.map (·.id)).Nodup) (hnd1 : (pool1.map (·.id)).Nodup)
    (hinj : ∀ a ∈ pool0, ∀ b ∈ pool0, succ a.id = succ b.id → a.id = b.id)
    (hsucc : ∀ a ∈ pool0, ∃ w ∈ pool1, w.id = succ a.id ∧
        (∀ u ∈ pool1, u.id ≠ w.id → distSq w.p a.p < distSq u.p a.p) ∧
        (∃ s ∈ spreads s0 cutoff 64, distSq w.p a.p < (s * maxcoord) * (s * maxcoord))) :
    ∀ a ∈ pool0,
      (assignAll s0 cutoff maxcoord (pool1'.map (TVert.mapV h)) (pool0'.map (TVert.mapV g)) []).get? (g a.id)
        = some (some (h (succ a.id))) := by
  intro a ha
  have h1 := (assignAll_small_motion_perm s0 cutoff maxcoord pool1 pool0 pool1' pool0' succ hp0 hp1 hs0 hcut hmc
    hnd0 hnd1 hinj hsucc a ha).2
  have h2 := assignAll_mapV g h hg hh s0 cutoff maxcoord pool1' pool0' []
  rw [show StepMap.mapV g h [] = [] from rfl] at h2
  rw [h2, StepMap.get?_mapV g h hg, h1]
  rfl

/-- the premises are satisfiable and the permuted run differs as a LIST (insertion order) while agreeing on every key:
    the example of Props/C12.lean with both pools reversed -/
example :
    let pool0 : List TVert := [⟨1, ⟨0, 0⟩⟩, ⟨2, ⟨10, 0⟩⟩, ⟨3, ⟨0, 10⟩⟩]
    let pool1 : List TVert := [⟨7, ⟨10, 1/10⟩⟩, ⟨8, ⟨1/10, 10⟩⟩, ⟨9, ⟨1/10, 0⟩⟩]
    pool0.reverse.Perm pool0 ∧ pool1.reverse.Perm pool1 ∧
    assignAll (5/1000) (1/10) 10 pool1 pool0 [] = [(1, some 9), (2, some 7), (3, some 8)] ∧
    assignAll (5/1000) (1/10) 10 pool1.reverse pool0.reverse [] = [(3, some 8), (2, some 7), (1, some 9)] :=
  ⟨List.reverse_perm _, List.reverse_perm _, by decide +kernel, by decide +kernel⟩

/-! ### F. injectivity is necessary -/

/-- the renumbering of frame 1 that gives the vertex 8 the id 7 as well -/
def merge8to7 (a : Id) : Id := if a = 8 then 7 else a

/-- a non-injective `h` that merges two candidates changes the result: vertices 1, 2 of frame 0 go to 7, 8 of frame 1;
    when frame 1 calls both of them "7", vertex 1 takes "7" and BOTH vertices of frame 1 then look taken, so vertex 2 is
    left untracked (`None`) — the renamed original map would say `2 ↦ 7` -/
theorem createMapping_mapV_noninjective_witness :
    let pool0 : List TVert := [⟨1, ⟨0, 0⟩⟩, ⟨2, ⟨1, 0⟩⟩]
    let pool1 : List TVert := [⟨7, ⟨1/100, 0⟩⟩, ⟨8, ⟨101/100, 0⟩⟩]
    createMapping (5/1000) (1/10) (1/10) pool0 pool1 [] = some [(1, some 7), (2, some 8)] ∧
    createMapping (5/1000) (1/10) (1/10) (pool0.map (TVert.mapV id)) (pool1.map (TVert.mapV merge8to7))
        (StepMap.mapV id merge8to7 []) = some [(1, some 7), (2, none)] ∧
    (createMapping (5/1000) (1/10) (1/10) pool0 pool1 []).map (StepMap.mapV id merge8to7)
      = some [(1, some 7), (2, some 7)] ∧
    createMapping (5/1000) (1/10) (1/10) (pool0.map (TVert.mapV id)) (pool1.map (TVert.mapV merge8to7))
        (StepMap.mapV id merge8to7 [])
      ≠ (createMapping (5/1000) (1/10) (1/10) pool0 pool1 []).map (StepMap.mapV id merge8to7) := by
  decide +kernel

/-! ### G. non-vacuity -/

def times3p1 (a : Id) : Id := a * 3 + 1
def times5p2 (a : Id) : Id := a * 5 + 2

theorem times3p1_injective : Function.Injective times3p1 := by
  intro (a : Int) (b : Int) (h : a * 3 + 1 = b * 3 + 1)
  show a = b
  omega

theorem times5p2_injective : Function.Injective times5p2 := by
  intro (a : Int) (b : Int) (h : a * 5 + 2 = b * 5 + 2)
  show a = b
  omega

/-- two frames of four end points, code constants; the user pairs 1 with 5; vertex 4 has nothing within the largest
    radius (0.8) and stays untracked.  Frame 0 renamed by `· * 3 + 1`, frame 1 by `· * 5 + 2`: computed on both sides. -/
theorem createMapping_mapV_example :
    let pool0 : List TVert := [⟨1, ⟨0, 0⟩⟩, ⟨2, ⟨10, 0⟩⟩, ⟨3, ⟨0, 10⟩⟩, ⟨4, ⟨10, 10⟩⟩]
    let pool1 : List TVert := [⟨5, ⟨1/10, 0⟩⟩, ⟨6, ⟨10, 1/10⟩⟩, ⟨7, ⟨1/10, 10⟩⟩, ⟨8, ⟨5, 5⟩⟩]
    let guess : StepMap := [(1, some 5)]
    createMapping (5/1000) (1/10) (1/10) pool0 pool1 guess
      = some [(1, some 5), (2, some 6), (3, some 7), (4, none)] ∧
    pool0.map (TVert.mapV times3p1) = [⟨4, ⟨0, 0⟩⟩, ⟨7, ⟨10, 0⟩⟩, ⟨10, ⟨0, 10⟩⟩, ⟨13, ⟨10, 10⟩⟩] ∧
    pool1.map (TVert.mapV times5p2) = [⟨27, ⟨1/10, 0⟩⟩, ⟨32, ⟨10, 1/10⟩⟩, ⟨37, ⟨1/10, 10⟩⟩, ⟨42, ⟨5, 5⟩⟩] ∧
    guess.mapV times3p1 times5p2 = [(4, some 27)] ∧
    createMapping (5/1000) (1/10) (1/10) (pool0.map (TVert.mapV times3p1)) (pool1.map (TVert.mapV times5p2))
        (guess.mapV times3p1 times5p2)
      = some [(4, some 27), (7, some 32), (10, some 37), (13, none)] ∧
    (createMapping (5/1000) (1/10) (1/10) pool0 pool1 guess).map (StepMap.mapV times3p1 times5p2)
      = some [(4, some 27), (7, some 32), (10, some 37), (13, none)] := by
  decide +kernel

/-- a guess that contradicts proximity is honoured on both sides, and displaces the neighbour: the user pairs 2 with 7 -/
example :
    let pool0 : List TVert := [⟨1, ⟨0, 0⟩⟩, ⟨2, ⟨10, 0⟩⟩, ⟨3, ⟨0, 10⟩⟩, ⟨4, ⟨10, 10⟩⟩]
    let pool1 : List TVert := [⟨5, ⟨1/10, 0⟩⟩, ⟨6, ⟨10, 1/10⟩⟩, ⟨7, ⟨1/10, 10⟩⟩, ⟨8, ⟨5, 5⟩⟩]
    createMapping (5/1000) (1/10) (1/10) pool0 pool1 [(2, some 7)]
      = some [(2, some 7), (1, some 5), (3, none), (4, none)] ∧
    createMapping (5/1000) (1/10) (1/10) (pool0.map (TVert.mapV times3p1)) (pool1.map (TVert.mapV times5p2))
        (StepMap.mapV times3p1 times5p2 [(2, some 7)])
      = some [(7, some 37), (4, some 27), (10, none), (13, none)] := by
  decide +kernel

/-- DifferentTissueException travels too -/
example :
    let pool0 : List TVert := [⟨1, ⟨0, 0⟩⟩, ⟨2, ⟨10, 0⟩⟩, ⟨3, ⟨0, 10⟩⟩]
    let pool1 : List TVert := [⟨5, ⟨0, 0⟩⟩, ⟨6, ⟨20, 0⟩⟩, ⟨7, ⟨0, 10⟩⟩]
    createMapping (5/1000) (1/10) (1/10) pool0 pool1 [] = none ∧
    createMapping (5/1000) (1/10) (1/10) (pool0.map (TVert.mapV times3p1)) (pool1.map (TVert.mapV times5p2)) []
      = none := by
  decide +kernel

/-- a three-frame series (times 0, 1, 3), four vertices per frame of which the first three are junctions
    (`exJunctions`); the fourth is not tracked at all.  Numbering `mulAdd t a = a (t + 2) + t` (Props/C13relabel.lean). -/
def exFrames12 : List TFrame :=
  [⟨0, [⟨1, ⟨0, 0⟩⟩, ⟨2, ⟨10, 0⟩⟩, ⟨3, ⟨0, 10⟩⟩, ⟨4, ⟨5, 5⟩⟩]⟩,
   ⟨1, [⟨5, ⟨1/10, 0⟩⟩, ⟨6, ⟨10, 1/10⟩⟩, ⟨7, ⟨1/10, 10⟩⟩, ⟨8, ⟨5, 6⟩⟩]⟩,
   ⟨3, [⟨9, ⟨2/10, 0⟩⟩, ⟨10, ⟨10, 2/10⟩⟩, ⟨11, ⟨1/10, 51/5⟩⟩, ⟨12, ⟨5, 7⟩⟩]⟩]

def exJunctions : List (List Id) := [[1, 2, 3], [5, 6, 7], [9, 10, 11]]

example :
    mapsOf (5/1000) (1/10) (1/10) (poolsOf exFrames12 exJunctions) []
      = [some [(1, some 5), (2, some 6), (3, some 7)], some [(5, some 9), (6, some 10), (7, some 11)]] ∧
    mapsOf (5/1000) (1/10) (1/10) (poolsOf (relabelFrames mulAdd exFrames12) (relabelIds mulAdd exJunctions))
        (relabelGuesses mulAdd [])
      = [some [(2, some 16), (4, some 19), (6, some 22)], some [(16, some 38), (19, some 42), (22, some 46)]] ∧
    calculateVelocity exFrames12 (mapsOf (5/1000) (1/10) (1/10) (poolsOf exFrames12 exJunctions) []) 1 0
      = .ok ⟨1/10, 0⟩ ∧
    calculateVelocity (relabelFrames mulAdd exFrames12)
        (mapsOf (5/1000) (1/10) (1/10) (poolsOf (relabelFrames mulAdd exFrames12) (relabelIds mulAdd exJunctions))
          (relabelGuesses mulAdd [])) (mulAdd 0 1) 0 = .ok ⟨1/10, 0⟩ ∧
    -- backward difference at the last frame: vertex 11 comes from vertex 7
    calculateVelocity exFrames12 (mapsOf (5/1000) (1/10) (1/10) (poolsOf exFrames12 exJunctions) []) 11 2
      = .ok ⟨0, 1/10⟩ ∧
    calculateVelocity (relabelFrames mulAdd exFrames12)
        (mapsOf (5/1000) (1/10) (1/10) (poolsOf (relabelFrames mulAdd exFrames12) (relabelIds mulAdd exJunctions))
          (relabelGuesses mulAdd [])) (mulAdd 2 11) 2 = .ok ⟨0, 1/10⟩ ∧
    -- the vertex that is not a junction has no entry in the step map: KeyError inside, velocity zero on both sides
    calculateVelocity exFrames12 (mapsOf (5/1000) (1/10) (1/10) (poolsOf exFrames12 exJunctions) []) 4 0
      = .ok ⟨0, 0⟩ ∧
    calculateVelocity (relabelFrames mulAdd exFrames12)
        (mapsOf (5/1000) (1/10) (1/10) (poolsOf (relabelFrames mulAdd exFrames12) (relabelIds mulAdd exJunctions))
          (relabelGuesses mulAdd [])) (mulAdd 0 4) 0 = .ok ⟨0, 0⟩ := by
  decide +kernel

/-- the series theorem instantiated on the example (hypotheses satisfiable), every vertex, every frame -/
example (p : Id) (t : Nat) :
    calculateVelocity (relabelFrames mulAdd exFrames12)
        (mapsOf (5/1000) (1/10) (1/10) (poolsOf (relabelFrames mulAdd exFrames12) (relabelIds mulAdd exJunctions))
          (relabelGuesses mulAdd [])) (mulAdd t p) t
      = calculateVelocity exFrames12 (mapsOf (5/1000) (1/10) (1/10) (poolsOf exFrames12 exJunctions) []) p t :=
  tracking_then_velocity_relabel_frames mulAdd mulAdd_injective _ _ _ exFrames12 exJunctions [] p t

/-- `createMapping_mapV` instantiated with the two numberings of the example -/
example (pool0 pool1 : List TVert) (guess : StepMap) :
    createMapping (5/1000) (1/10) (1/10) (pool0.map (TVert.mapV times3p1)) (pool1.map (TVert.mapV times5p2))
        (guess.mapV times3p1 times5p2)
      = (createMapping (5/1000) (1/10) (1/10) pool0 pool1 guess).map (StepMap.mapV times3p1 times5p2) :=
  createMapping_mapV _ _ times3p1_injective times5p2_injective _ _ _ pool0 pool1 guess

end Forsys
