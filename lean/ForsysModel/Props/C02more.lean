/-
  Property C02, additions — what Props/C02.lean and Props/C02matrix.lean leave open:

  * the quantifier "every rotation angle …, whole tissues and sub-tissues (anywhere in the plane, any size)":
    behaviour of the tangent rule under translation, positive scaling, rotation and reflection of the input, and
    under moving the neighbouring interface point along the chord (2..17 points per interface);
  * "the coded rule is the true tangent" as an `↔` (the existing theorem is one direction only);
  * "axis-aligned lattices whose tangents have exactly vanishing components": where the `0 ↦ +1` sign rule breaks
    the symmetries (witnesses);
  * `get_vector_from_vertex` answers exactly at the two end vertices, with the closed form of the whole function
    for arcs of three and more points;
  * "exactly one x- and one y-equation per junction": no junction is listed twice; the `ignore_four` option only
    removes equations.

  Vocabulary (Proofs/C02more.lean): `c02_shiftP t p` translation, `c02_scaleP k p` scaling, `c02_rotP a b` / `c02_rotV a b` rotation
  with cosine `a` and sine `b`, `c02_flipP` / `c02_flipV` mirror image in the x-axis.
-/
import ForsysModel.Props.C02
import ForsysModel.Props.C02matrix
import ForsysModel.Proofs.C02more

set_option linter.unnecessarySeqFocus false

namespace Forsys
open FMInput

/-! ### translation, scaling, re-sampling of the chord -/

/-- the coded tangent does not depend on where the tissue sits in the plane -/
theorem c02_tangentVec_translate (p c : Pt) (t ch : Vec) :
    tangentVec (c02_shiftP t p) (c02_shiftP t c) ch = tangentVec p c ch := by
  rw [tangentVec_eq, tangentVec_eq]
  have h1 : (c02_shiftP t p).y - (c02_shiftP t c).y = p.y - c.y := by simp only [c02_shiftP]; ring
  have h2 : (c02_shiftP t p).x - (c02_shiftP t c).x = p.x - c.x := by simp only [c02_shiftP]; ring
  rw [h1, h2]

/-- … nor does the reference tangent -/
theorem c02_tangentVecDot_translate (p c : Pt) (t ch : Vec) :
    tangentVecDot (c02_shiftP t p) (c02_shiftP t c) ch = tangentVecDot p c ch := by
  unfold tangentVecDot
  have h1 : (c02_shiftP t p).y - (c02_shiftP t c).y = p.y - c.y := by simp only [c02_shiftP]; ring
  have h2 : (c02_shiftP t p).x - (c02_shiftP t c).x = p.x - c.x := by simp only [c02_shiftP]; ring
  simp only [h1, h2]

/-- the coded tangent uses the chord only through the forced signs of its two components … -/
theorem tangentVec_chord_signs (p c : Pt) (ch ch' : Vec) (hx : forcedSign ch.x = forcedSign ch'.x)
    (hy : forcedSign ch.y = forcedSign ch'.y) : tangentVec p c ch = tangentVec p c ch' := by
  exact tangentVec_congr_sign p c ch ch' hx hy

/-- … so moving the neighbouring interface point along the chord (denser or sparser sampling of a straight piece)
    changes nothing -/
theorem tangentVec_chord_scale (p c : Pt) (ch : Vec) (k : Rat) (hk : 0 < k) :
    tangentVec p c (Vec.smul k ch) = tangentVec p c ch := by
  apply tangentVec_congr_sign <;> simp only [Vec.smul] <;> exact forcedSign_pos_mul k _ hk

theorem tangentVecDot_chord_scale (p c : Pt) (ch : Vec) (k : Rat) (hk : 0 < k) :
    tangentVecDot p c (Vec.smul k ch) = tangentVecDot p c ch := by
  unfold tangentVecDot
  simp only []
  have hd : Vec.dot ⟨-(p.y - c.y), p.x - c.x⟩ (Vec.smul k ch) = k * Vec.dot ⟨-(p.y - c.y), p.x - c.x⟩ ch := by
    simp only [Vec.dot, Vec.smul]; ring
  rw [hd]
  by_cases h : Vec.dot ⟨-(p.y - c.y), p.x - c.x⟩ ch < 0
  · rw [if_pos h, if_pos (mul_neg_of_pos_of_neg hk h)]
  · rw [if_neg h, if_neg (not_lt.mpr (mul_nonneg hk.le (not_lt.mp h)))]

/-- magnifying the tissue by `k > 0` magnifies the (un-normalised) tangent by `k`: the unit tangent is unchanged -/
theorem c02_tangentVec_scale (p c : Pt) (ch : Vec) (k : Rat) (hk : 0 < k) :
    tangentVec (c02_scaleP k p) (c02_scaleP k c) (Vec.smul k ch) = Vec.smul k (tangentVec p c ch) := by
  rw [tangentVec_chord_scale _ _ _ _ hk, tangentVec_abs', tangentVec_abs']
  have h1 : (c02_scaleP k p).y - (c02_scaleP k c).y = k * (p.y - c.y) := by simp only [c02_scaleP]; ring
  have h2 : (c02_scaleP k p).x - (c02_scaleP k c).x = k * (p.x - c.x) := by simp only [c02_scaleP]; ring
  rw [h1, h2, ratAbs_pos_mul _ _ hk, ratAbs_pos_mul _ _ hk]
  apply Vec.ext' <;> simp only [Vec.smul] <;> ring

theorem c02_tangentVecDot_scale (p c : Pt) (ch : Vec) (k : Rat) (hk : 0 < k) :
    tangentVecDot (c02_scaleP k p) (c02_scaleP k c) (Vec.smul k ch) = Vec.smul k (tangentVecDot p c ch) := by
  rw [tangentVecDot_chord_scale _ _ _ _ hk]
  unfold tangentVecDot
  simp only []
  have h1 : (c02_scaleP k p).y - (c02_scaleP k c).y = k * (p.y - c.y) := by simp only [c02_scaleP]; ring
  have h2 : (c02_scaleP k p).x - (c02_scaleP k c).x = k * (p.x - c.x) := by simp only [c02_scaleP]; ring
  rw [h1, h2]
  have hd : Vec.dot ⟨-(k * (p.y - c.y)), k * (p.x - c.x)⟩ ch = k * Vec.dot ⟨-(p.y - c.y), p.x - c.x⟩ ch := by
    simp only [Vec.dot]; ring
  rw [hd]
  by_cases h : Vec.dot ⟨-(p.y - c.y), p.x - c.x⟩ ch < 0
  · rw [if_pos h, if_pos (mul_neg_of_pos_of_neg hk h)]
    apply Vec.ext' <;> simp only [Vec.smul, Vec.neg] <;> ring
  · rw [if_neg h, if_neg (not_lt.mpr (mul_nonneg hk.le (not_lt.mp h)))]
    apply Vec.ext' <;> simp only [Vec.smul] <;> ring

/-! ### rotation and reflection -/

/-- the reference tangent turns with the tissue, for every rotation (cosine `a`, sine `b`) -/
theorem c02_tangentVecDot_rotate (p c : Pt) (ch : Vec) (a b : Rat) (hab : a * a + b * b = 1) :
    tangentVecDot (c02_rotP a b p) (c02_rotP a b c) (c02_rotV a b ch) = c02_rotV a b (tangentVecDot p c ch) := by
  unfold tangentVecDot
  simp only []
  have hd : Vec.dot ⟨-((c02_rotP a b p).y - (c02_rotP a b c).y), (c02_rotP a b p).x - (c02_rotP a b c).x⟩ (c02_rotV a b ch)
      = Vec.dot ⟨-(p.y - c.y), p.x - c.x⟩ ch := by
    simp only [Vec.dot, c02_rotP, c02_rotV]
    have : ∀ u v w z : Rat, -(b * u + a * v - (b * w + a * z)) * (a * ch.x - b * ch.y) +
        (a * u - b * v - (a * w - b * z)) * (b * ch.x + a * ch.y)
        = (a * a + b * b) * (-(v - z) * ch.x + (u - w) * ch.y) := by intros; ring
    rw [this, hab, one_mul]
  rw [hd]
  split
  · apply Vec.ext' <;> simp only [Vec.neg, c02_rotP, c02_rotV] <;> ring
  · apply Vec.ext' <;> simp only [c02_rotP, c02_rotV] <;> ring

/-- the coded rule does not turn with the tissue — already a quarter turn of a junction whose first chord is
    horizontal goes wrong (`0 ↦ +1` in `get_versor_sign`): `p = (4,3)` on the circle about the origin, chord `(1,0)`;
    the full statement `tangentVec (rot p) (rot c) (rot ch) = rot (tangentVec p c ch)` is false -/
theorem tangentVec_quarter_turn_witness :
    tangentVec ⟨4, 3⟩ ⟨0, 0⟩ ⟨1, 0⟩ = ⟨3, 4⟩ ∧
    tangentVec (c02_rotP 0 1 ⟨4, 3⟩) (c02_rotP 0 1 ⟨0, 0⟩) (c02_rotV 0 1 ⟨1, 0⟩) = ⟨4, 3⟩ ∧
    c02_rotV 0 1 ⟨3, 4⟩ = ⟨-4, 3⟩ := by
  decide +kernel

/-- … it does for a quarter turn when the chord's y-component does not vanish -/
theorem tangentVec_quarter_turn_partial (p c : Pt) (ch : Vec) (hy : ch.y ≠ 0) :
    tangentVec (c02_rotP 0 1 p) (c02_rotP 0 1 c) (c02_rotV 0 1 ch) = c02_rotV 0 1 (tangentVec p c ch) := by
  rw [tangentVec_abs', tangentVec_abs']
  have h1 : (c02_rotP 0 1 p).y - (c02_rotP 0 1 c).y = p.x - c.x := by simp only [c02_rotP]; ring
  have h2 : (c02_rotP 0 1 p).x - (c02_rotP 0 1 c).x = -(p.y - c.y) := by simp only [c02_rotP]; ring
  have h3 : (c02_rotV 0 1 ch).x = -ch.y := by simp only [c02_rotV]; ring
  have h4 : (c02_rotV 0 1 ch).y = ch.x := by simp only [c02_rotV]; ring
  rw [h1, h2, h3, h4, ratAbs_neg', forcedSign_neg _ hy]
  apply Vec.ext' <;> simp only [c02_rotV, Int.cast_neg] <;> ring

/-- mirror image: the reference tangent is mirrored too, provided the chord is not radial (not perpendicular to the
    tangent line); for a radial chord the tie `dot = 0` is broken the same way on both sides and the results differ
    (witness below) -/
theorem tangentVecDot_reflect_partial (p c : Pt) (ch : Vec)
    (h : Vec.dot (Vec.perp (Vec.sub p c)) ch ≠ 0) :
    tangentVecDot (c02_flipP p) (c02_flipP c) (c02_flipV ch) = c02_flipV (tangentVecDot p c ch) := by
  unfold tangentVecDot
  simp only []
  have hd : Vec.dot ⟨-((c02_flipP p).y - (c02_flipP c).y), (c02_flipP p).x - (c02_flipP c).x⟩ (c02_flipV ch)
      = - Vec.dot ⟨-(p.y - c.y), p.x - c.x⟩ ch := by
    simp only [Vec.dot, c02_flipP, c02_flipV]; ring
  have h' : Vec.dot ⟨-(p.y - c.y), p.x - c.x⟩ ch ≠ 0 := h
  rw [hd]
  rcases lt_or_gt_of_ne h' with hlt | hgt
  · rw [if_pos hlt, if_neg (by linarith)]
    apply Vec.ext' <;> simp only [Vec.neg, c02_flipP, c02_flipV] <;> ring
  · rw [if_neg (not_lt.mpr hgt.le), if_pos (by linarith)]
    apply Vec.ext' <;> simp only [Vec.neg, c02_flipP, c02_flipV] <;> ring

theorem tangentVecDot_reflect_witness :
    Vec.dot (Vec.perp (Vec.sub ⟨4, 3⟩ ⟨0, 0⟩)) ⟨4, 3⟩ = 0 ∧
    tangentVecDot (c02_flipP ⟨4, 3⟩) (c02_flipP ⟨0, 0⟩) (c02_flipV ⟨4, 3⟩) = ⟨3, 4⟩ ∧
    c02_flipV (tangentVecDot ⟨4, 3⟩ ⟨0, 0⟩ ⟨4, 3⟩) = ⟨-3, -4⟩ := by
  decide +kernel

/-- the tangent at the other end of the chord direction: reversing the chord reverses the coded tangent when no
    chord component vanishes … -/
theorem tangentVec_chord_neg_partial (p c : Pt) (ch : Vec) (hx : ch.x ≠ 0) (hy : ch.y ≠ 0) :
    tangentVec p c ch.neg = (tangentVec p c ch).neg := by
  rw [tangentVec_abs', tangentVec_abs']
  simp only [Vec.neg]
  rw [forcedSign_neg _ hx, forcedSign_neg _ hy]
  apply Vec.ext' <;> simp only [Int.cast_neg] <;> ring

/-- … and not for an axis-parallel chord: both orientations of a horizontal chord give the same y-component -/
theorem tangentVec_chord_neg_witness :
    tangentVec ⟨4, 3⟩ ⟨0, 0⟩ ⟨1, 0⟩ = ⟨3, 4⟩ ∧ tangentVec ⟨4, 3⟩ ⟨0, 0⟩ (Vec.neg ⟨1, 0⟩) = ⟨-3, 4⟩ := by
  decide +kernel

/-- reversing a non-radial chord reverses the reference tangent -/
theorem tangentVecDot_chord_neg_partial (p c : Pt) (ch : Vec)
    (h : Vec.dot (Vec.perp (Vec.sub p c)) ch ≠ 0) :
    tangentVecDot p c ch.neg = (tangentVecDot p c ch).neg := by
  unfold tangentVecDot
  simp only []
  have hd : Vec.dot ⟨-(p.y - c.y), p.x - c.x⟩ ch.neg = - Vec.dot ⟨-(p.y - c.y), p.x - c.x⟩ ch := by
    simp only [Vec.dot, Vec.neg]; ring
  have h' : Vec.dot ⟨-(p.y - c.y), p.x - c.x⟩ ch ≠ 0 := h
  rw [hd]
  rcases lt_or_gt_of_ne h' with hlt | hgt
  · rw [if_pos hlt, if_neg (by linarith)]
    apply Vec.ext' <;> simp only [Vec.neg] <;> ring
  · rw [if_neg (not_lt.mpr hgt.le), if_pos (by linarith)]

/-! ### the coded rule is the true tangent — characterisation -/

/-- the coded rule returns the true tangent IF AND ONLY IF each non-zero component of the true tangent has the
    forced sign of the corresponding chord component (`tangentVec_eq_dot_partial` is the direction `←`) -/
theorem tangentVec_eq_dot_iff (p c : Pt) (ch : Vec) :
    tangentVec p c ch = tangentVecDot p c ch ↔
      ((tangentVecDot p c ch).x = 0 ∨ ratSign (tangentVecDot p c ch).x = forcedSign ch.x) ∧
      ((tangentVecDot p c ch).y = 0 ∨ ratSign (tangentVecDot p c ch).y = forcedSign ch.y) := by
  constructor
  · intro h
    rw [← h, tangentVec_abs']
    exact ⟨sign_of_abs_mul _ _ (ratAbs_nonneg' _) (forcedSign_pm _),
      sign_of_abs_mul _ _ (ratAbs_nonneg' _) (forcedSign_pm _)⟩
  · rintro ⟨hx, hy⟩
    exact tangentVec_eq_dot_partial' p c ch hx hy

/-- whenever the coded rule differs from the true tangent it is its mirror image in a coordinate axis or its
    opposite: each component agrees up to sign -/
theorem tangentVec_components_up_to_sign (p c : Pt) (ch : Vec) :
    ((tangentVec p c ch).x = (tangentVecDot p c ch).x ∨ (tangentVec p c ch).x = -(tangentVecDot p c ch).x) ∧
    ((tangentVec p c ch).y = (tangentVecDot p c ch).y ∨ (tangentVec p c ch).y = -(tangentVecDot p c ch).y) := by
  rw [tangentVec_abs']
  simp only []
  constructor
  · rcases tangentVecDot_x_cases p c ch with e | e <;> rw [e] <;>
      rcases forcedSign_pm ch.x with s | s <;> rw [s] <;> unfold ratAbsC02 <;> split <;> simp
  · rcases tangentVecDot_y_cases p c ch with e | e <;> rw [e] <;>
      rcases forcedSign_pm ch.y with s | s <;> rw [s] <;> unfold ratAbsC02 <;> split <;> simp

/-! ### `get_vector_from_vertex` as a whole -/

/-- `get_vector_from_vertex(vid)` answers exactly when `vid` is the first or the last vertex of the interface
    (otherwise the code raises) -/
theorem vectorFromVertex_isSome_iff (ids : List Id) (pts : List Pt) (c : Pt) (vid : Id)
    (hlen : ids.length = pts.length) (h2 : 2 ≤ ids.length) :
    (vectorFromVertex ids pts c vid).isSome = true ↔ endsAt ids vid = true := by
  constructor
  · intro h
    by_contra hn
    rw [vectorFromVertex_none_of_not_end ids pts c vid (by simpa using hn)] at h
    exact absurd h (by simp)
  · intro h
    unfold vectorFromVertex
    rw [Option.isSome_map]
    exact chordAt_some_of_end ids pts vid hlen h2 h

/-- closed form for an arc of three or more points at its first vertex: the coded tangent at the first point,
    oriented by the chord to the second point … -/
theorem vectorFromVertex_arc_first (i0 i1 i2 : Id) (ir : List Id) (p0 p1 p2 : Pt) (pr : List Pt) (c : Pt) :
    vectorFromVertex (i0 :: i1 :: i2 :: ir) (p0 :: p1 :: p2 :: pr) c i0 =
      some (tangentVec p0 c (Vec.sub p1 p0)) := by
  simp [vectorFromVertex, chordAt]

/-- … and at its last vertex: the coded tangent at the last point, oriented by the chord to the last but one -/
theorem vectorFromVertex_arc_last (ids : List Id) (pts : List Pt) (c : Pt) (a b : Id) (pa pb : Pt)
    (hlen : ids.length = pts.length) (h1 : 1 ≤ ids.length) (hne : (ids ++ [a, b]).head? ≠ some b) :
    vectorFromVertex (ids ++ [a, b]) (pts ++ [pa, pb]) c b = some (tangentVec pb c (Vec.sub pa pb)) := by
  obtain ⟨i0, i1, ir, hi⟩ := exists_two (ids ++ [a, b]) (by simp)
  obtain ⟨p0, p1, pr, hp⟩ := exists_two (pts ++ [pa, pb]) (by simp)
  have hj : (ids ++ [a, b]).reverse = b :: a :: ids.reverse := by simp
  have hq : (pts ++ [pa, pb]).reverse = pb :: pa :: pts.reverse := by simp
  unfold vectorFromVertex
  rw [chordAt_eq b hi hp hj hq]
  have h0 : ¬ i0 = b := by
    intro e; apply hne; rw [hi, e]; rfl
  rw [if_neg h0, if_pos rfl]
  have hl : ¬ (ids ++ [a, b]).length = 2 := by
    rw [List.length_append]; simp only [List.length_cons, List.length_nil]; omega
  rw [Option.map_some]
  simp only [if_neg hl]

/-- necessity of `head? ≠ getLast?` in `vectorFromVertex_reverse`: for an interface that closes on itself (a cell
    touching the rest of the tissue in one junction) the vertex is found at the front in either storage direction,
    and the two directions give opposite tangents -/
theorem vectorFromVertex_reverse_loop_witness :
    vectorFromVertex [1, 2, 3, 4, 1] [⟨5, 0⟩, ⟨0, 5⟩, ⟨-5, 0⟩, ⟨0, -5⟩, ⟨5, 0⟩] ⟨0, 0⟩ 1 = some ⟨0, 5⟩ ∧
    vectorFromVertex ([1, 2, 3, 4, 1] : List Id).reverse
      ([⟨5, 0⟩, ⟨0, 5⟩, ⟨-5, 0⟩, ⟨0, -5⟩, ⟨5, 0⟩] : List Pt).reverse ⟨0, 0⟩ 1 = some ⟨0, -5⟩ := by
  decide +kernel

/-! ### one pair of equations per junction -/

/-- no vertex is listed twice among the candidate rows … -/
theorem build_rows_vids_nodup (inp : FMInput) : (inp.build.rows.map (·.1)).Nodup := by
  rw [build_rows_map_fst]
  exact nodup_eraseDupsC02 _

/-- … hence a junction has EXACTLY one pair of equations: two rows for the same vertex are the same row -/
theorem build_row_unique (inp : FMInput) (r r' : Id × Bool × List (Option Vec))
    (hr : r ∈ inp.build.rows) (hr' : r' ∈ inp.build.rows) (h : r.1 = r'.1) : r = r' := by
  exact List.inj_on_of_nodup_map (build_rows_vids_nodup inp) hr hr' h

/-- the number of candidate rows is the number of distinct end points of the used interfaces -/
theorem build_rows_length (inp : FMInput) : inp.build.rows.length = (endsOf inp.build.used).length := by
  rw [← build_rows_map_fst, List.length_map]

/-! ### the `ignore_four` option -/

/-- the option does not touch the unknowns … -/
theorem used_ignoreFour (inp : FMInput) (b : Bool) :
    ({ inp with ignoreFour := b } : FMInput).build.used = inp.build.used := rfl

/-- … nor any coefficient: the candidate rows are the same up to the keep flag -/
theorem rows_ignoreFour (inp : FMInput) (b : Bool) :
    ({ inp with ignoreFour := b } : FMInput).build.rows.map (fun r => (r.1, r.2.2)) =
      inp.build.rows.map (fun r => (r.1, r.2.2)) := by
  simp only [build, List.map_map]
  rfl

/-- with `ignore_four` a vertex gets its equations iff it gets them without the option and fewer than four
    interfaces are placed there: the option only removes the junctions of four and more -/
theorem hasRow_ignoreFour_iff (inp : FMInput) (v : Id) :
    hasRow ({ inp with ignoreFour := true } : FMInput).build v ↔
      hasRow ({ inp with ignoreFour := false } : FMInput).build v ∧
        inp.placedEnds inp.earr inp.build.used v < 4 := by
  rw [row_rule_spec, row_rule_spec]
  show _ ∧ _ ∧ _ ∧ (true = true → inp.placedEnds inp.earr inp.build.used v < 4) ↔
    (_ ∧ _ ∧ _ ∧ ((false : Bool) = true → inp.placedEnds inp.earr inp.build.used v < 4)) ∧ _
  constructor
  · rintro ⟨h1, h2, h3, h4⟩
    exact ⟨⟨h1, h2, h3, fun h => absurd h (by simp)⟩, h4 rfl⟩
  · rintro ⟨⟨h1, h2, h3, _⟩, h4⟩
    exact ⟨h1, h2, h3, fun _ => h4⟩

/-! ### the unknowns, the columns, and the two stages composed -/

/-- with or without an angle limit the unknowns are internal interfaces, in the order of `internal_big_edges`, none
    twice (`used_nodup`): at most one unknown per internal interface (exactly one without a limit: `unknowns_spec`) -/
theorem used_sublist_internal (inp : FMInput) :
    inp.build.used.Sublist ((inp.mesh.internalIdx inp.earr).map fun i => inp.earr.getD i []) := by
  show (inp.used inp.earr).Sublist _
  unfold FMInput.used
  exact List.filter_sublist

/-- every candidate row, kept or not: a coefficient pair that was written at all belongs to an interface ending at
    the row's vertex — every other coefficient is the untouched zero -/
theorem entry_some_imp_endsAt (inp : FMInput) (r : Id × Bool × List (Option Vec)) (hr : r ∈ inp.build.rows)
    (c : Nat) (hc : c < inp.build.used.length) (h : (r.2.2.getD c none).isSome = true) :
    endsAt (inp.build.used.getD c []) r.1 = true := by
  have hp := coefficient_placement_all inp r hr c hc
  rw [List.getD_eq_getElem?_getD, hp, Option.getD_some] at h
  unfold coefAt at h
  split at h
  · next hcond =>
    simp only [Bool.and_eq_true] at hcond
    exact hcond.1.1
  · exact absurd h (by simp)

/-- column view: the unknown of an interface enters the equations of at most two vertices (its two ends) -/
theorem column_at_most_two (inp : FMInput) (c : Nat) (hc : c < inp.build.used.length) :
    (inp.build.rows.filter fun r => (r.2.2.getD c none).isSome).length ≤ 2 := by
  have hnd : ((inp.build.rows.filter fun r => (r.2.2.getD c none).isSome).map (·.1)).Nodup :=
    (build_rows_vids_nodup inp).sublist (List.filter_sublist.map _)
  have hsub : ((inp.build.rows.filter fun r => (r.2.2.getD c none).isSome).map (·.1)) ⊆
      (inp.build.used.getD c []).head?.toList ++ (inp.build.used.getD c []).getLast?.toList := by
    intro v hv
    rw [List.mem_map] at hv
    obtain ⟨r, hr, rfl⟩ := hv
    rw [List.mem_filter] at hr
    have he := entry_some_imp_endsAt inp r hr.1 c hc hr.2
    unfold endsAt at he
    simp only [Bool.or_eq_true, beq_iff_eq] at he
    simp only [List.mem_append, Option.mem_toList]
    exact he
  have hlen := (List.subperm_of_subset hnd hsub).length_le
  rw [List.length_map] at hlen
  refine le_trans hlen ?_
  cases (inp.build.used.getD c []).head? <;> cases (inp.build.used.getD c []).getLast? <;> simp

/-- the two stages composed: in a junction's pair of equations, the column of an arc of three or more points that
    starts at the junction holds the coded tangent at the junction's position about the fitted centre, oriented by
    the chord to the arc's second point -/
theorem coefficient_arc_first (inp : FMInput)
    (r : Id × Bool × List (Option Vec)) (hr : r ∈ inp.build.rows) (hk : r.2.1 = true)
    (c : Nat) (hc : c < inp.build.used.length) (i1 i2 : Id) (ir : List Id)
    (he : inp.build.used.getD c [] = r.1 :: i1 :: i2 :: ir) :
    r.2.2[c]? = some (some (tangentVec (inp.mesh.pt r.1)
      (inp.centers.getD ((inp.usedIdx inp.earr).getD c 0) default)
      (Vec.sub (inp.mesh.pt i1) (inp.mesh.pt r.1)))) := by
  rw [coefficient_placement inp r hr hk c hc, he]
  have h1 : endsAt (r.1 :: i1 :: i2 :: ir) r.1 = true := by simp [endsAt]
  rw [if_pos h1]
  simp only [List.map_cons]
  rw [vectorFromVertex_arc_first]

/-- … whose length is the distance from the junction to the fitted centre (the arc's radius): what the code stores
    after normalisation is a unit vector -/
theorem coefficient_arc_first_normSq (inp : FMInput)
    (r : Id × Bool × List (Option Vec)) (hr : r ∈ inp.build.rows) (hk : r.2.1 = true)
    (c : Nat) (hc : c < inp.build.used.length) (i1 i2 : Id) (ir : List Id)
    (he : inp.build.used.getD c [] = r.1 :: i1 :: i2 :: ir) :
    ∃ v, r.2.2[c]? = some (some v) ∧
      v.normSq = distSq (inp.mesh.pt r.1) (inp.centers.getD ((inp.usedIdx inp.earr).getD c 0) default) :=
  ⟨_, coefficient_arc_first inp r hr hk c hc i1 i2 ir he, tangentVec_normSq _ _ _⟩

/-- a straight two-point interface pulls on its two junctions with opposite vectors -/
theorem vectorFromVertex_two_points_opposite (a b : Id) (pa pb c : Pt) (hab : a ≠ b) :
    ∃ u w, vectorFromVertex [a, b] [pa, pb] c a = some u ∧ vectorFromVertex [a, b] [pa, pb] c b = some w ∧
      w = u.neg := by
  obtain ⟨h1, h2⟩ := vectorFromVertex_two_points a b pa pb c hab
  refine ⟨_, _, h1, h2, ?_⟩
  apply Vec.ext' <;> simp only [Vec.neg, Vec.sub] <;> ring

/-! non-vacuity -/

/-- `c02_tangentVecDot_rotate`: a rational rotation that is not a quarter turn (3-4-5), on a non-degenerate arc point -/
example : (3/5 : Rat) * (3/5) + (4/5) * (4/5) = 1 ∧
    tangentVecDot (c02_rotP (3/5) (4/5) ⟨4, 3⟩) (c02_rotP (3/5) (4/5) ⟨0, 0⟩) (c02_rotV (3/5) (4/5) ⟨-1, 1⟩) = ⟨-5, 0⟩ := by
  decide +kernel
/-- `tangentVec_chord_scale` / `c02_tangentVec_scale` / `…Dot_scale` -/
example : (0 : Rat) < 3 ∧ tangentVec (c02_scaleP 3 ⟨4, 3⟩) (c02_scaleP 3 ⟨0, 0⟩) (Vec.smul 3 ⟨-1, 1⟩) = ⟨-9, 12⟩ := by
  decide +kernel
/-- `tangentVec_chord_signs` with two different chords -/
example : forcedSign (⟨-1, 1⟩ : Vec).x = forcedSign (⟨-7, 0⟩ : Vec).x ∧
    forcedSign (⟨-1, 1⟩ : Vec).y = forcedSign (⟨-7, 0⟩ : Vec).y := by decide +kernel
/-- `tangentVec_quarter_turn_partial`, `tangentVec_chord_neg_partial` -/
example : (⟨-1, 1⟩ : Vec).x ≠ 0 ∧ (⟨-1, 1⟩ : Vec).y ≠ 0 ∧
    tangentVec (c02_rotP 0 1 ⟨4, 3⟩) (c02_rotP 0 1 ⟨0, 0⟩) (c02_rotV 0 1 ⟨-1, 1⟩) = ⟨-4, -3⟩ := by decide +kernel
/-- `tangentVecDot_reflect_partial`, `tangentVecDot_chord_neg_partial` -/
example : Vec.dot (Vec.perp (Vec.sub ⟨4, 3⟩ ⟨0, 0⟩)) ⟨-1, 1⟩ ≠ 0 := by decide +kernel
/-- `tangentVec_eq_dot_iff`: both sides true at `(4,3)`, both false at the D2 point -/
example : tangentVec ⟨4, 3⟩ ⟨0, 0⟩ ⟨-1, 1⟩ = tangentVecDot ⟨4, 3⟩ ⟨0, 0⟩ ⟨-1, 1⟩ ∧
    tangentVec ⟨63, -16⟩ ⟨0, 0⟩ ⟨-3, 41⟩ ≠ tangentVecDot ⟨63, -16⟩ ⟨0, 0⟩ ⟨-3, 41⟩ := by decide +kernel
/-- `vectorFromVertex_isSome_iff`: a three-point arc; both ends answer, the middle vertex does not -/
example : ([1, 2, 3] : List Id).length = ([⟨5, 0⟩, ⟨4, 3⟩, ⟨3, 4⟩] : List Pt).length ∧ 2 ≤ ([1, 2, 3] : List Id).length ∧
    endsAt [1, 2, 3] 3 = true ∧ endsAt [1, 2, 3] 2 = false ∧
    vectorFromVertex [1, 2, 3] [⟨5, 0⟩, ⟨4, 3⟩, ⟨3, 4⟩] ⟨0, 0⟩ 3 = some ⟨4, -3⟩ := by decide +kernel
/-- `vectorFromVertex_arc_last` -/
example : ([1] : List Id).length = ([⟨5, 0⟩] : List Pt).length ∧ 1 ≤ ([1] : List Id).length ∧
    (([1] : List Id) ++ [2, 3]).head? ≠ some 3 := by decide +kernel
/-- `build_row_unique`, `hasRow_ignoreFour_iff` on the three-cell tissue of Props/C02matrix.lean -/
example : triInp.build.rows.length = 4 ∧
    hasRow ({ triInp with ignoreFour := true } : FMInput).build 0 := by
  refine ⟨by decide +kernel, ?_⟩
  rw [row_rule_spec]; decide +kernel

/-- `coefficient_arc_first`: column 0 of the kept row of junction 0 in the three-cell tissue -/
example : (0, true, [some ⟨5,0⟩, some ⟨0,5⟩, some ⟨0,-5⟩]) ∈ triInp.build.rows ∧
    triInp.build.used.getD 0 [] = (0 : Id) :: 1 :: 2 :: [] := by decide +kernel
/-- `column_at_most_two`, `entry_some_imp_endsAt`: column 0 is written in one candidate row of four -/
example : (triInp.build.rows.filter fun r => (r.2.2.getD 0 none).isSome).length = 1 := by decide +kernel

end Forsys
