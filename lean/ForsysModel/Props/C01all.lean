/-
  Umbrella of property C01: the ground-truth balance theorems and the abstract recovery theorem (Props/C01.lean) and the
  link to the assembled matrix — the model's normalised matrix annihilates the true tensions, end-to-end recovery
  (Props/C01matrix.lean), and the tissue-level theorems that discharge its hypotheses hnorm/htrue for tissues of exact
  arcs and two-point segments (Props/C01tissue.lean); the quantitative bounds for a vector that passed the per-run KKT
  certificate (Props/C05bound.lean: static_certified_recovery).
  lean/props.json names this module for C01, so that `./check C01` builds and audits both.
-/
import ForsysModel.Props.C01
import ForsysModel.Props.C01matrix
import ForsysModel.Props.C01tissue
import ForsysModel.Props.C05bound
import ForsysModel.Props.C01more
