/-
  Property C18 — umbrella module: the original property theorems (Props/C18.lean) together with the covariance
  widening (Props/C18covar.lean: row order, translation, scaling, rotation, reflection, real principal stresses,
  additivity, trace formula).
-/
import ForsysModel.Props.C18
import ForsysModel.Props.C18covar
