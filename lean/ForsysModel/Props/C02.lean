/-
  Property C02 — force-balance equations use outward unit tangents at the right junctions.
  Model: ForsysModel/Model/Tangent.lean (get_vector_from_vertex, get_versor_sign,
  get_straight_edge_versor_from_vid) and ForsysModel/Model/FMatrix.lean (_build_matrix,
  get_vertex_equation, eid_from_vertex).  The circle centre is an input (contract of the external fit).
-/
import ForsysModel.Model.FMatrix
import ForsysModel.Proofs.C02

namespace Forsys

def ratAbs (q : Rat) : Rat := if q < 0 then -q else q

/-! ### the tangent rule -/

/-- closed form of the per-component sign forcing: magnitudes of the perpendicular to the radius,
    signs of the chord (zero chord components count as positive) -/
theorem tangentVec_abs (p c : Pt) (ch : Vec) :
    tangentVec p c ch = ⟨ratAbs (p.y - c.y) * (forcedSign ch.x : Int), ratAbs (p.x - c.x) * (forcedSign ch.y : Int)⟩ := by
  exact tangentVec_abs' p c ch

/-- the sign forcing never changes the length: the normalised vector is always a unit vector -/
theorem tangentVec_normSq (p c : Pt) (ch : Vec) : (tangentVec p c ch).normSq = distSq p c := by
  exact tangentVec_normSq' p c ch

/-- reference rule (orientation by the dot product): tangent to the circle about `c` through `p` … -/
theorem tangentVecDot_perp (p c : Pt) (ch : Vec) : Vec.dot (tangentVecDot p c ch) (Vec.sub p c) = 0 := by
  exact tangentVecDot_perp' p c ch

theorem tangentVecDot_normSq (p c : Pt) (ch : Vec) : (tangentVecDot p c ch).normSq = distSq p c := by
  exact tangentVecDot_normSq' p c ch

/-- … pointing from the junction along the interface (non-negative projection on the first chord) -/
theorem tangentVecDot_along (p c : Pt) (ch : Vec) : 0 ≤ Vec.dot (tangentVecDot p c ch) ch := by
  exact tangentVecDot_along' p c ch

theorem tangentVecDot_along_strict (p c : Pt) (ch : Vec)
    (h : Vec.dot (Vec.perp (Vec.sub p c)) ch ≠ 0) : 0 < Vec.dot (tangentVecDot p c ch) ch := by
  exact tangentVecDot_along_strict' p c ch h

/-- it is *the* tangent: any vector perpendicular to the radius, as long as the radius and with positive
    projection on the chord equals it -/
theorem tangentVecDot_unique (p c : Pt) (ch w : Vec) (hpc : p ≠ c)
    (h1 : Vec.dot w (Vec.sub p c) = 0) (h2 : w.normSq = distSq p c) (h3 : 0 < Vec.dot w ch) :
    w = tangentVecDot p c ch := by
  exact tangentVecDot_unique' p c ch w hpc h1 h2 h3

/-- for a second point `q ≠ p` on the same circle, not antipodal to `p`, the tangent has strictly positive
    projection on the chord `q − p` -/
theorem tangentVecDot_circle (p q c : Pt) (hq : distSq q c = distSq p c) (hne : q ≠ p)
    (hanti : Vec.dot (Vec.perp (Vec.sub p c)) (Vec.sub q p) ≠ 0) :
    0 < Vec.dot (tangentVecDot p c (Vec.sub q p)) (Vec.sub q p) := by
  exact tangentVecDot_circle' p q c hq hne hanti

/-- the coded rule coincides with the true tangent whenever each non-zero component of the true tangent has
    the sign of the corresponding chord component.  (Full statement — `tangentVec p c ch = tangentVecDot p c ch`
    for every arc — is false for the code as it stands: finding D2, witness below.) -/
theorem tangentVec_eq_dot_partial (p c : Pt) (ch : Vec)
    (hx : (tangentVecDot p c ch).x = 0 ∨ ratSign (tangentVecDot p c ch).x = forcedSign ch.x)
    (hy : (tangentVecDot p c ch).y = 0 ∨ ratSign (tangentVecDot p c ch).y = forcedSign ch.y) :
    tangentVec p c ch = tangentVecDot p c ch := by
  exact tangentVec_eq_dot_partial' p c ch hx hy

/-- D2: circle of radius 65 about the origin, junction (63,−16), next point (60,25): the true tangent is (16,63),
    the code returns its mirror image (−16,63) -/
theorem tangentVec_mirror_witness :
    tangentVec ⟨63, -16⟩ ⟨0, 0⟩ ⟨-3, 41⟩ = ⟨-16, 63⟩ ∧ tangentVecDot ⟨63, -16⟩ ⟨0, 0⟩ ⟨-3, 41⟩ = ⟨16, 63⟩ := by
  decide +kernel

/-- the same vector whether the interface is stored forwards or backwards -/
theorem vectorFromVertex_reverse (ids : List Id) (pts : List Pt) (c : Pt) (vid : Id)
    (hlen : ids.length = pts.length) (h2 : 2 ≤ ids.length) (hends : ids.head? ≠ ids.getLast?) :
    vectorFromVertex ids.reverse pts.reverse c vid = vectorFromVertex ids pts c vid := by
  exact vectorFromVertex_reverse' ids pts c vid hlen h2 hends

/-- two-point interfaces: the direction is the chord (after the repair of finding D1) -/
theorem vectorFromVertex_two_points (a b : Id) (pa pb c : Pt) (hab : a ≠ b) :
    vectorFromVertex [a, b] [pa, pb] c a = some (Vec.sub pb pa) ∧
    vectorFromVertex [a, b] [pa, pb] c b = some (Vec.sub pa pb) := by
  exact vectorFromVertex_two_points' a b pa pb c hab

/-! ### the matrix -/

theorem setAt_length {α : Type} (l : List α) (i : Nat) (a : α) : (FMInput.setAt l i a).length = l.length := by
  exact FMInput.setAt_length' l i a

theorem setAt_getElem {α : Type} (l : List α) (i j : Nat) (a : α) (hj : j < l.length) :
    (FMInput.setAt l i a)[j]? = if j = i then some a else l[j]? := by
  exact FMInput.setAt_getElem' l i j a hj

/-- one column per used interface in every row -/
theorem vertexEquation_length (inp : FMInput) (earr used : List (List Id)) (vid : Id) :
    (inp.vertexEquation earr used vid).length = used.length := by
  exact FMInput.vertexEquation_length' inp earr used vid

/-- a vertex that is not shared by at least three cells gets no coefficient at all -/
theorem vertexEquation_few_cells (inp : FMInput) (earr used : List (List Id)) (vid : Id)
    (h : (inp.mesh.ownCells vid).length ≤ 2) :
    inp.vertexEquation earr used vid = used.map fun _ => none := by
  exact FMInput.vertexEquation_few_cells' inp earr used vid h

/-- … hence no equation -/
theorem not_kept_few_cells (inp : FMInput) (earr used : List (List Id)) (vid : Id) (ig : Bool)
    (h : (inp.mesh.ownCells vid).length ≤ 2) :
    FMInput.keepRow ig (inp.vertexEquation earr used vid) = false := by
  exact FMInput.not_kept_few_cells' inp earr used vid ig h

/-- a junction's two equations are kept iff at least three interfaces were placed (and fewer than four with ignore_four) -/
theorem keepRow_iff (ig : Bool) (row : List (Option Vec)) :
    FMInput.keepRow ig row = true ↔ 3 ≤ FMInput.placed row ∧ (ig = true → FMInput.placed row < 4) := by
  exact FMInput.keepRow_iff' ig row

/-- D8 (repaired): the upstream filter dropped an axis-aligned T-junction, the current one keeps it -/
theorem keepRow_T_witness :
    FMInput.keepRowUpstream false [some ⟨1, 0⟩, some ⟨-1, 0⟩, some ⟨0, 1⟩] = false ∧
    FMInput.keepRow false [some ⟨1, 0⟩, some ⟨-1, 0⟩, some ⟨0, 1⟩] = true := by
  decide +kernel

/-- without an angle limit the unknowns are exactly the internal interfaces, in order -/
theorem used_no_limit (inp : FMInput) (earr : List (List Id)) (h : inp.cosLimit = none) :
    inp.used earr = (inp.mesh.internalIdx earr).map fun i => earr.getD i [] := by
  exact FMInput.used_no_limit' inp earr h

/-- the output has one candidate row per end point of a used interface, each of the right width -/
theorem build_rows_width (inp : FMInput) :
    ∀ r ∈ inp.build.rows, r.2.2.length = inp.build.used.length := by
  exact FMInput.build_rows_width' inp

/-! non-vacuity -/
example : (tangentVecDot ⟨63, -16⟩ ⟨0, 0⟩ ⟨-3, 41⟩).x ≠ 0 ∧
    ratSign (tangentVecDot ⟨63, -16⟩ ⟨0, 0⟩ ⟨-3, 41⟩).x ≠ forcedSign (-3) := by decide +kernel
example : tangentVec ⟨4, 3⟩ ⟨0, 0⟩ ⟨-1, 1⟩ = tangentVecDot ⟨4, 3⟩ ⟨0, 0⟩ ⟨-1, 1⟩ := by decide +kernel

/-- hypotheses of `tangentVecDot_along_strict` / `tangentVecDot_circle` / `tangentVecDot_unique`:
    circle of radius 5 about the origin, `p = (4,3)`, `q = (3,4)`, `w = (-3,4)` -/
example : Vec.dot (Vec.perp (Vec.sub ⟨4, 3⟩ ⟨0, 0⟩)) (Vec.sub ⟨3, 4⟩ ⟨4, 3⟩) ≠ 0 := by decide +kernel
example : distSq ⟨3, 4⟩ ⟨0, 0⟩ = distSq ⟨4, 3⟩ ⟨0, 0⟩ ∧ (⟨3, 4⟩ : Pt) ≠ ⟨4, 3⟩ := by decide +kernel
example : (⟨4, 3⟩ : Pt) ≠ ⟨0, 0⟩ ∧ Vec.dot ⟨-3, 4⟩ (Vec.sub ⟨4, 3⟩ ⟨0, 0⟩) = 0 ∧
    (⟨-3, 4⟩ : Vec).normSq = distSq ⟨4, 3⟩ ⟨0, 0⟩ ∧ 0 < Vec.dot ⟨-3, 4⟩ ⟨-1, 1⟩ := by decide +kernel
/-- hypotheses of `vectorFromVertex_reverse` (and the two sides are `some _`, not both `none`) -/
example : ([1, 2, 3] : List Id).length = ([⟨0, 0⟩, ⟨1, 0⟩, ⟨2, 1⟩] : List Pt).length ∧ 2 ≤ ([1, 2, 3] : List Id).length ∧
    ([1, 2, 3] : List Id).head? ≠ ([1, 2, 3] : List Id).getLast? ∧
    (vectorFromVertex [1, 2, 3] [⟨0, 0⟩, ⟨1, 0⟩, ⟨2, 1⟩] ⟨1, 5⟩ 3).isSome = true := by decide +kernel
/-- hypothesis of `vertexEquation_few_cells` / `not_kept_few_cells`: a vertex unknown to the mesh has no cells -/
example : ((default : Mesh).ownCells 0).length ≤ 2 := by decide +kernel

end Forsys
