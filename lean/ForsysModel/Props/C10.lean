/-
  Property C10 — results are a pure function of frame data and the last call's arguments.
  Model: ForsysModel/Model/Session.lean (the ForSys object as a state machine; the numeric kernels are abstract
  pure parameters `Kernels`).  Theorems are for every operation sequence, every kernel and every frame data
  satisfying `WF` (the partition facts of C08: interfaces own disjoint, non-empty sets of mesh edges).
-/
import ForsysModel.Model.Session
import ForsysModel.Proofs.C10

namespace Forsys

variable {B O P : Type}

/-- well-formed frame data (facts provided by C08) -/
structure WFFrame (fr : SFrame) : Prop where
  internal_nodup : fr.internal.Nodup
  internal_lt : ∀ i ∈ fr.internal, i < fr.edgesOf.length
  edges_lt : ∀ es ∈ fr.edgesOf, ∀ e ∈ es, e < fr.nEdges
  nonempty : ∀ es ∈ fr.edgesOf, es ≠ []
  disjoint : ∀ i j, i < fr.edgesOf.length → j < fr.edgesOf.length → i ≠ j →
      ∀ e ∈ fr.edgesOf.getD i [], e ∉ fr.edgesOf.getD j []
  /-- every mesh edge belongs to some interface (C08's partition theorem); needed for `solveStress_pure`: `FInv` says
      nothing about mesh edges owned by no interface, so two states could differ there -/
  covered : ∀ e, e < fr.nEdges → ∃ i, i < fr.edgesOf.length ∧ e ∈ fr.edgesOf.getD i []

/-- well-formed kernels: a build keeps a duplicate-free sub-list of the internal interfaces and the solver returns one
    value per kept interface -/
structure WFKernels (K : Kernels B O P) (frs : List SFrame) : Prop where
  used_sub : ∀ (t : Nat) (fr : SFrame), frs[t]? = some fr → ∀ b, (K.usedOf t b).Sublist fr.internal
  solve_len : ∀ t b o, (K.solveF t b o).length = (K.usedOf t b).length

/-- shape invariant of a frame state; `extZero`: mesh edges of external interfaces carry tension 0 -/
structure FInv (fr : SFrame) (f : FState B) : Prop where
  lenE : f.edgeT.length = fr.nEdges
  lenB : f.beT.length = fr.edgesOf.length
  extZero : ∀ i, i < fr.edgesOf.length → i ∉ fr.internal → ∀ e ∈ fr.edgesOf.getD i [], f.edgeT.getD e 0 = 0

def SInv (frs : List SFrame) (st : SState B) : Prop :=
  st.frames.length = frs.length ∧ st.storeForces.length = frs.length ∧ st.storePress.length = frs.length ∧
  ∀ (t : Nat) (fr : SFrame) (f : FState B), frs[t]? = some fr → st.frames[t]? = some f → FInv fr f

/-! conversions to the mirrored structures of `ForsysModel/Proofs/C10.lean` (that file cannot see the ones above) -/
theorem WFFrame.toC10 {fr : SFrame} (h : WFFrame fr) : C10.WF fr := ⟨h.1, h.2, h.3, h.4, h.5, h.6⟩
theorem WFKernels.toC10 {K : Kernels B O P} {frs : List SFrame} (h : WFKernels K frs) : C10.WFK K frs := ⟨h.1, h.2⟩
theorem FInv.toC10 {fr : SFrame} {f : FState B} (h : FInv fr f) : C10.FI fr f := ⟨h.1, h.2, h.3⟩
theorem FInv.ofC10 {fr : SFrame} {f : FState B} (h : C10.FI fr f) : FInv fr f := ⟨h.1, h.2, h.3⟩
theorem SInv.toC10 {frs : List SFrame} {st : SState B} (h : SInv frs st) : C10.SI frs st :=
  ⟨h.1, h.2.1, h.2.2.1, fun t fr f h1 h2 => (h.2.2.2 t fr f h1 h2).toC10⟩
theorem SInv.ofC10 {frs : List SFrame} {st : SState B} (h : C10.SI frs st) : SInv frs st :=
  ⟨h.1, h.2.1, h.2.2.1, fun t fr f h1 h2 => FInv.ofC10 (h.2.2.2 t fr f h1 h2)⟩

theorem init_inv (frs : List SFrame) (h : ∀ fr ∈ frs, WFFrame fr) : SInv frs (SState.init frs : SState B) := by
  have _ := h   -- (well-formedness of the frames is not needed for the initial state)
  exact SInv.ofC10 (C10.init_inv' frs)

theorem step_inv (K : Kernels B O P) (frs : List SFrame) (hw : ∀ fr ∈ frs, WFFrame fr) (hk : WFKernels K frs)
    (st : SState B) (op : Op B O P) (h : SInv frs st) : SInv frs (step K frs st op) := by
  exact SInv.ofC10 (C10.step_inv' K frs (fun fr hfr => (hw fr hfr).toC10) hk.toC10 st op h.toC10)

/-! ### frame locality -/

/-- an operation on frame `s` leaves every other frame, and the other frames' result stores, untouched -/
theorem step_other_frame (K : Kernels B O P) (frs : List SFrame) (st : SState B) (op : Op B O P) (s t : Nat)
    (hs : op.frame = some s) (hst : s ≠ t) :
    (step K frs st op).frames[t]? = st.frames[t]? ∧ (step K frs st op).storeForces[t]? = st.storeForces[t]? ∧
    (step K frs st op).storePress[t]? = st.storePress[t]? := by
  exact C10.step_other_frame' K frs st op s t hs hst

/-- `get_system_velocity_per_frame` only replaces build options -/
theorem sysVelocity_fields (K : Kernels B O P) (frs : List SFrame) (st : SState B) (ts : List Nat) (t : Nat) (f : FState B)
    (hf : st.frames[t]? = some f) :
    ∃ f', (step K frs st (.sysVelocity ts)).frames[t]? = some f' ∧ f'.edgeT = f.edgeT ∧ f'.beT = f.beT ∧
      f'.forces = f.forces ∧ f'.pbuild = f.pbuild ∧ f'.cellP = f.cellP ∧
      (step K frs st (.sysVelocity ts)).storeForces = st.storeForces ∧ (step K frs st (.sysVelocity ts)).storePress = st.storePress := by
  exact C10.sysVelocity_fields' K frs st ts t f hf

/-! ### what one solve reports -/

/-- the i-th reported value belongs to the i-th internal interface: the solver's k-th value if it is the k-th kept
    interface, −1 if it was excluded -/
theorem reportForces_spec (internal used : List Nat) (x : List Rat) (hu : used.Nodup) (hx : x.length = used.length) :
    (reportForces internal used x).length = internal.length ∧
    (∀ (n i : Nat), internal[n]? = some i → ∀ (k : Nat), used[k]? = some i → (reportForces internal used x)[n]? = some (x.getD k 0)) ∧
    (∀ (n i : Nat), internal[n]? = some i → i ∉ used → (reportForces internal used x)[n]? = some (-1)) := by
  have _ := hx   -- (the length of `x` is not needed: `getD` pads)
  exact C10.reportForces_spec' internal used x hu

/-- after `solve_stress(t)`: stores, reported list, and — for every kept interface — the value stored on the interface
    and on each of its mesh edges; excluded interfaces carry 0; external interfaces are not touched -/
theorem solveStress_report (K : Kernels B O P) (frs : List SFrame) (st : SState B) (t : Nat) (o : O) (b : B)
    (fr : SFrame) (f : FState B) (hfr : frs[t]? = some fr) (hf : st.frames[t]? = some f) (hb : f.build = some b)
    (hw : WFFrame fr) (hk : WFKernels K frs) (hinv : SInv frs st) :
    ∃ f', (step K frs st (.solveStress t o)).frames[t]? = some f' ∧
      f'.forces = some (reportForces fr.internal (K.usedOf t b) (K.solveF t b o)) ∧
      (step K frs st (.solveStress t o)).storeForces[t]? = some f'.forces ∧
      (∀ (k i : Nat), (K.usedOf t b)[k]? = some i →
          f'.beT.getD i 0 = (K.solveF t b o).getD k 0 ∧ ∀ e ∈ fr.edgesOf.getD i [], f'.edgeT.getD e 0 = (K.solveF t b o).getD k 0) ∧
      (∀ i ∈ fr.internal, i ∉ K.usedOf t b → f'.beT.getD i 1 = 0) ∧
      (∀ i, i < fr.edgesOf.length → i ∉ fr.internal → f'.beT.getD i 1 = 0) := by
  exact C10.solveStress_report' K frs st t o b fr f hfr hf hb hw.toC10 hk.toC10 hinv.toC10

/-- history independence of one solve: whatever was stored before, the frame's tensions and reported forces after
    `solve_stress(t)` are determined by the build options and the solve options alone -/
theorem solveStress_pure (K : Kernels B O P) (frs : List SFrame) (st1 st2 : SState B) (t : Nat) (o : O) (b : B)
    (fr : SFrame) (f1 f2 : FState B) (hfr : frs[t]? = some fr) (hw : WFFrame fr) (hk : WFKernels K frs)
    (h1 : SInv frs st1) (h2 : SInv frs st2) (hf1 : st1.frames[t]? = some f1) (hf2 : st2.frames[t]? = some f2)
    (hb1 : f1.build = some b) (hb2 : f2.build = some b) :
    ∃ g1 g2, (step K frs st1 (.solveStress t o)).frames[t]? = some g1 ∧ (step K frs st2 (.solveStress t o)).frames[t]? = some g2 ∧
      g1.edgeT = g2.edgeT ∧ g1.beT = g2.beT ∧ g1.forces = g2.forces := by
  have _ := hk   -- (not needed: `writeBack` is history independent for every `used`/`x`)
  exact C10.solveStress_pure' K frs st1 st2 t o b fr f1 f2 hfr hw.toC10 h1.toC10 h2.toC10 hf1 hf2 hb1 hb2

/-! ### whole histories -/

def noSolveStress (t : Nat) : Op B O P → Bool
  | .solveStress s _ => s != t
  | _ => true

def noSolvePressure (t : Nat) : Op B O P → Bool
  | .solvePressure s _ => s != t
  | _ => true

theorem noSolveStress_eq (t : Nat) : (noSolveStress t : Op B O P → Bool) = C10.noSS t := by
  funext op; cases op <;> rfl
theorem noSolvePressure_eq (t : Nat) : (noSolvePressure t : Op B O P → Bool) = C10.noSP t := by
  funext op; cases op <;> rfl

/-- whatever happened before and after (other frames, re-builds, pressure steps, earlier solves of the same frame with other
    options): what is reported for frame `t` is what the last `solve_stress(t)` produced from the build options in force
    at that moment -/
theorem run_last_solve (K : Kernels B O P) (frs : List SFrame) (hw : ∀ fr ∈ frs, WFFrame fr) (hk : WFKernels K frs)
    (pre post : List (Op B O P)) (t : Nat) (o : O) (b : B) (fr : SFrame) (f : FState B)
    (hfr : frs[t]? = some fr) (hf : (run K frs (SState.init frs) pre).frames[t]? = some f) (hb : f.build = some b)
    (hpost : post.all (noSolveStress t) = true) :
    ∃ g, (run K frs (SState.init frs) (pre ++ [.solveStress t o] ++ post)).frames[t]? = some g ∧
      g.forces = some (reportForces fr.internal (K.usedOf t b) (K.solveF t b o)) ∧
      (run K frs (SState.init frs) (pre ++ [.solveStress t o] ++ post)).storeForces[t]? = some g.forces := by
  rw [noSolveStress_eq] at hpost
  exact C10.run_last_solve' K frs (fun fr hfr => (hw fr hfr).toC10) hk.toC10 pre post t o b fr f hfr hf hb hpost

/-- … and the frame's stored tensions equal those of a fresh object on which only `build(t, b)` and `solve_stress(t, o)` were called -/
theorem run_fresh_equiv (K : Kernels B O P) (frs : List SFrame) (hw : ∀ fr ∈ frs, WFFrame fr) (hk : WFKernels K frs)
    (pre post : List (Op B O P)) (t : Nat) (o : O) (b : B) (fr : SFrame) (f : FState B)
    (hfr : frs[t]? = some fr) (hf : (run K frs (SState.init frs) pre).frames[t]? = some f) (hb : f.build = some b)
    (hpost : post.all (noSolveStress t) = true) :
    ∃ g h, (run K frs (SState.init frs) (pre ++ [.solveStress t o] ++ post)).frames[t]? = some g ∧
      (run K frs (SState.init frs) [.buildForce t b, .solveStress t o]).frames[t]? = some h ∧
      g.edgeT = h.edgeT ∧ g.beT = h.beT ∧ g.forces = h.forces := by
  rw [noSolveStress_eq] at hpost
  exact C10.run_fresh_equiv' K frs (fun fr hfr => (hw fr hfr).toC10) hk.toC10 pre post t o b fr f hfr hf hb hpost

/-- pressures: what each cell carries and what the per-frame store holds is what the last `solve_pressure(t)` produced from
    the interface tensions captured by the pressure matrix in force at that moment -/
theorem run_last_pressure (K : Kernels B O P) (frs : List SFrame) (pre post : List (Op B O P)) (t : Nat) (p : P)
    (f : FState B) (ts : List Rat) (hlen : (run K frs (SState.init frs) pre).storePress.length = frs.length) (ht : t < frs.length)
    (hf : (run K frs (SState.init frs) pre).frames[t]? = some f) (hp : f.pbuild = some ts)
    (hpost : post.all (noSolvePressure t) = true) :
    ∃ g, (run K frs (SState.init frs) (pre ++ [.solvePressure t p] ++ post)).frames[t]? = some g ∧
      g.cellP = some (K.pressF t ts p) ∧
      (run K frs (SState.init frs) (pre ++ [.solvePressure t p] ++ post)).storePress[t]? = some (some (K.pressF t ts p)) := by
  rw [noSolvePressure_eq] at hpost
  exact C10.run_last_pressure' K frs pre post t p f ts hlen ht hf hp hpost

/-! non-vacuity: one frame, three interfaces (0 and 1 internal, 2 external), five mesh edges -/
def exFrame : SFrame := { edgesOf := [[0, 1], [2], [3, 4]], internal := [0, 1], nEdges := 5, nCells := 3 }
example : WFFrame exFrame := by
  refine ⟨by decide, by decide, by decide, by decide, ?_, ?_⟩
  · intro i j hi hj hij e he
    simp [exFrame] at hi hj
    have hi' : i = 0 ∨ i = 1 ∨ i = 2 := by omega
    have hj' : j = 0 ∨ j = 1 ∨ j = 2 := by omega
    rcases hi' with rfl | rfl | rfl <;> rcases hj' with rfl | rfl | rfl <;> simp_all [exFrame] <;> omega
  · intro e he
    simp [exFrame] at he
    have he' : e = 0 ∨ e = 1 ∨ e = 2 ∨ e = 3 ∨ e = 4 := by omega
    rcases he' with rfl | rfl | rfl | rfl | rfl
    · exact ⟨0, by decide, by decide⟩
    · exact ⟨0, by decide, by decide⟩
    · exact ⟨1, by decide, by decide⟩
    · exact ⟨2, by decide, by decide⟩
    · exact ⟨2, by decide, by decide⟩

/-- kernels for the example: every build keeps interface 0 only, the solver returns the value 2 -/
def exKernels : Kernels Unit Unit Unit :=
  { usedOf := fun _ _ => [0], solveF := fun _ _ _ => [2], pressF := fun _ ts _ => ts, defaultBuild := () }

example : WFKernels exKernels [exFrame] := by
  refine ⟨?_, fun _ _ _ => rfl⟩
  intro t fr h b
  cases t with
  | zero => simp at h; subst h; show [0].Sublist [0, 1]; decide
  | succ n => simp at h

/-- the hypotheses of `run_last_solve` / `run_fresh_equiv` are satisfiable (after a build) -/
example : ∃ f, (run exKernels [exFrame] (SState.init [exFrame]) [.buildForce 0 ()]).frames[0]? = some f ∧ f.build = some () :=
  ⟨_, rfl, rfl⟩

/-- the hypotheses of `run_last_pressure` are satisfiable (after a pressure build) -/
example : ∃ f ts, (run exKernels [exFrame] (SState.init [exFrame]) [.buildPressure 0]).frames[0]? = some f ∧ f.pbuild = some ts ∧
    (run exKernels [exFrame] (SState.init [exFrame]) [.buildPressure 0]).storePress.length = [exFrame].length :=
  ⟨_, _, rfl, rfl, rfl⟩

/-- the model on the example: interface 0 and its mesh edges get the solver value, the excluded internal interface 1 and
    the external interface 2 carry 0, the excluded interface is reported as −1 -/
example : (run exKernels [exFrame] (SState.init [exFrame]) [.buildForce 0 (), .solveStress 0 ()]).frames.map
      (fun f => (f.edgeT, f.beT, f.forces)) = [([2, 2, 0, 0, 0], [2, 0, 0], some [2, -1])] := by
  decide +kernel

end Forsys
