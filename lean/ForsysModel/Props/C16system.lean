/-
  Property C16, end to end in the model — "When an opening-angle limit is given, an internal interface is excluded from
  the inference exactly when at each of its two end junctions some pair of interface directions opens by at least the
  limit; excluded interfaces are reported as -1 at their own position in the result, every other position holds the
  solution of the system restricted to the remaining interfaces, and with the default limit nothing is excluded."

  Model: Model/FMatrix.lean — `exceeds`, `deletes`, `bothDeleted`, `used` (get_angle_limited_edges), `build`
  (_build_matrix on the remaining interfaces), `addMeanOne` (add_mean_one), `realign` (get_solution_no_discarded as
  `solve` calls it: on `xres[:-1]`, the solution without its Lagrange multiplier).

  Vocabulary (Proofs/C16system.lean):
    `FMInput.internal inp earr`     `Frame.internal_big_edges_vertices`: the internal interfaces in the order of the
                                    interface list (the list `used` filters; `used_eq_filter` of Props/C16.lean)
    `keptBefore internal del i`     number of NOT excluded interfaces among the first `i` internal ones: the index, in the
                                    solution vector, of the value reported at position `i`
    `C16s.PosMatch`                 (storage part) position-wise matching of two interface lists with their centres
  The cosine of the limit is `inp.cosLimit` (`none` = `np.inf`); "opens by at least the limit" is
  `cos ∠(a, b) ≤ cos(limit)`, decided without square roots by `cosLe` (`cosLe_spec` of Props/C16.lean over ℚ,
  `cosLe_spec_real` below with the real norms).
-/
import ForsysModel.Proofs.C16system

namespace Forsys
open FMInput

/-! ### 1. when is a junction flagged -/

/-- the test is symmetric in the two directions -/
theorem cosLe_comm (a b : Vec) (c : Rat) : cosLe a b c = cosLe b a c := by
  exact C16s.cosLe_comm a b c

/-- the square-root-free test IS `a·b ≤ c ‖a‖ ‖b‖` with the real norms, i.e. (for `a, b ≠ 0`) `cos ∠(a, b) ≤ c`:
    the pair opens by at least the angle whose cosine is `c` -/
theorem cosLe_spec_real (a b : Vec) (c : Rat) :
    cosLe a b c = true ↔
      ((Vec.dot a b : Rat) : ℝ) ≤ (c : ℝ) * (Real.sqrt ((a.normSq : Rat) : ℝ) * Real.sqrt ((b.normSq : Rat) : ℝ)) := by
  exact C16s.cosLe_real a b c

/-- what the model does with an interface that has no direction at `v`: `vecAt` is `none` — and the interface is
    skipped by the `filterMap` of `exceeds` — exactly when the interface has fewer than two vertices or `v` is neither
    its first nor its last vertex (the code's `get_versor_from_vertex` raises there; for the junctions
    `get_angle_limited_edges` visits every incident interface ends at the junction) -/
theorem vecAt_isSome_iff (inp : FMInput) (earr : List (List Id)) (i : Nat) (v : Id) :
    (inp.vecAt earr i v).isSome = true ↔
      2 ≤ (earr.getD i []).length ∧ ((earr.getD i []).head? = some v ∨ (earr.getD i []).getLast? = some v) := by
  exact C16s.vecAt_isSome_iff inp earr i v

/-- without a limit no junction is flagged -/
theorem exceeds_no_limit (inp : FMInput) (earr : List (List Id)) (v : Id) (h : inp.cosLimit = none) :
    inp.exceeds earr v = false := by
  unfold exceeds; rw [h]

/-- `exceeds` spelled out: a junction `v` is flagged iff two DISTINCT interfaces `i ≠ j` of the interface list contain
    `v`, both have a direction there (`a`, `b`: `get_vector_from_vertex`), and the pair passes the test `cosLe a b c`
    (`c` the cosine of the limit).  Interfaces without a direction at `v` (`vecAt … = none`) take part in no pair. -/
theorem exceeds_iff (inp : FMInput) (earr : List (List Id)) (v : Id) (c : Rat) (hc : inp.cosLimit = some c) :
    inp.exceeds earr v = true ↔
      ∃ i j a b, i ≠ j ∧ i < earr.length ∧ j < earr.length ∧
        (earr.getD i []).contains v = true ∧ (earr.getD j []).contains v = true ∧
        inp.vecAt earr i v = some a ∧ inp.vecAt earr j v = some b ∧ cosLe a b c = true := by
  exact C16s.exceeds_iff_ne inp earr v c hc

/-- the same with the positions in the order `itertools.combinations` produces them -/
theorem exceeds_iff_lt (inp : FMInput) (earr : List (List Id)) (v : Id) (c : Rat) (hc : inp.cosLimit = some c) :
    inp.exceeds earr v = true ↔
      ∃ i j a b, i < j ∧ j < earr.length ∧
        (earr.getD i []).contains v = true ∧ (earr.getD j []).contains v = true ∧
        inp.vecAt earr i v = some a ∧ inp.vecAt earr j v = some b ∧ cosLe a b c = true := by
  exact C16s.exceeds_iff_lt inp earr v c hc

/-- … and in words of the property: some pair of interface directions at `v` opens by at least the limit,
    `cos ∠(a, b) ≤ cos(limit)` -/
theorem exceeds_iff_angle (inp : FMInput) (earr : List (List Id)) (v : Id) (c : Rat) (hc : inp.cosLimit = some c) :
    inp.exceeds earr v = true ↔
      ∃ i j a b, i ≠ j ∧ i < earr.length ∧ j < earr.length ∧
        (earr.getD i []).contains v = true ∧ (earr.getD j []).contains v = true ∧
        inp.vecAt earr i v = some a ∧ inp.vecAt earr j v = some b ∧
        ((Vec.dot a b : Rat) : ℝ) ≤
          (c : ℝ) * (Real.sqrt ((a.normSq : Rat) : ℝ) * Real.sqrt ((b.normSq : Rat) : ℝ)) := by
  rw [exceeds_iff inp earr v c hc]
  constructor
  · rintro ⟨i, j, a, b, h1, h2, h3, h4, h5, h6, h7, h8⟩
    exact ⟨i, j, a, b, h1, h2, h3, h4, h5, h6, h7, (cosLe_spec_real a b c).1 h8⟩
  · rintro ⟨i, j, a, b, h1, h2, h3, h4, h5, h6, h7, h8⟩
    exact ⟨i, j, a, b, h1, h2, h3, h4, h5, h6, h7, (cosLe_spec_real a b c).2 h8⟩

/-! ### 2. which interfaces are excluded -/

/-- an internal interface is absent from the unknowns iff both of its end junctions are in `deletes` iff at each of
    its two ends some pair of directions reaches the limit -/
theorem excluded_iff (inp : FMInput) (earr : List (List Id)) (e : List Id) (he : e ∈ inp.internal earr) :
    (e ∉ inp.used earr ↔ bothDeleted (inp.deletes earr) e = true) ∧
    (bothDeleted (inp.deletes earr) e = true ↔
      ∃ a b, e.head? = some a ∧ e.getLast? = some b ∧ a ∈ inp.deletes earr ∧ b ∈ inp.deletes earr) ∧
    (bothDeleted (inp.deletes earr) e = true ↔
      ∃ a b, e.head? = some a ∧ e.getLast? = some b ∧ inp.exceeds earr a = true ∧ inp.exceeds earr b = true) :=
  ⟨C16s.not_mem_used_iff inp earr e he, C16s.bothDeleted_iff _ e, C16s.excluded_iff_exceeds inp earr e he⟩

/-- every internal interface has two ends (so the `∃ a b` above is about THE first and THE last vertex) -/
theorem internal_ends (inp : FMInput) (earr : List (List Id)) (e : List Id) (he : e ∈ inp.internal earr) :
    ∃ a b, e.head? = some a ∧ e.getLast? = some b := by
  exact C16s.internal_ends inp earr e he

/-- THE RULE in one statement: the unknowns are the internal interfaces in their original relative order, minus
    exactly those at each of whose two end junctions some pair of interface directions reaches the limit -/
theorem angle_limit_rule (inp : FMInput) (earr : List (List Id)) :
    (inp.used earr).Sublist (inp.internal earr) ∧
    (inp.used earr = (inp.internal earr).filter fun e => !(bothDeleted (inp.deletes earr) e)) ∧
    ∀ e ∈ inp.internal earr,
      (e ∉ inp.used earr ↔
        ∃ a b, e.head? = some a ∧ e.getLast? = some b ∧ inp.exceeds earr a = true ∧ inp.exceeds earr b = true) := by
  refine ⟨used_sublist inp earr, rfl, ?_⟩
  intro e he
  rw [C16s.not_mem_used_iff inp earr e he]
  exact C16s.excluded_iff_exceeds inp earr e he

/-! ### 3. the default limit, and the limit π -/

/-- the code's default `angle_limit = np.inf` (`cosLimit = none`): no junction is flagged, the unknowns are ALL internal
    interfaces, the result is the solution itself -/
theorem default_limit_nothing_excluded (inp : FMInput) (earr : List (List Id)) (h : inp.cosLimit = none)
    (x : List Rat) (hx : x.length = (inp.used earr).length) :
    inp.deletes earr = [] ∧ inp.used earr = inp.internal earr ∧
    realign (inp.internal earr) (inp.deletes earr) x = x := by
  refine ⟨deletes_no_limit inp earr h, C16s.used_no_limit inp earr h, ?_⟩
  rw [deletes_no_limit inp earr h]
  apply realign_no_exclusion
  rw [hx, C16s.used_no_limit inp earr h]

/-- the limit π (`cos = −1`): a junction is flagged iff it is an end of an internal interface and two of the directions
    there are EXACTLY antiparallel (`a·b ≤ 0` and `a × b = 0`).  So with the limit π — the default before the repair
    of finding D15; the default is now `np.inf` — something CAN be excluded, namely between straight-through junctions
    (`pi_limit_brick_witness`); only with `np.inf` nothing ever is (`default_limit_nothing_excluded`) -/
theorem deletes_pi_iff (inp : FMInput) (earr : List (List Id)) (v : Id) (h : inp.cosLimit = some (-1)) :
    v ∈ inp.deletes earr ↔
      v ∈ endsOf (inp.internal earr) ∧
      ∃ i j a b, i ≠ j ∧ i < earr.length ∧ j < earr.length ∧
        (earr.getD i []).contains v = true ∧ (earr.getD j []).contains v = true ∧
        inp.vecAt earr i v = some a ∧ inp.vecAt earr j v = some b ∧
        Vec.dot a b ≤ 0 ∧ a.x * b.y - a.y * b.x = 0 := by
  rw [C16s.mem_deletes_iff, exceeds_iff inp earr v (-1) h]
  simp only [cosLe_neg_one_iff]

/-! ### 4. the report -/

/-- the last entry of the augmented right-hand side is the number of columns of the restricted matrix: the number of
    REMAINING interfaces (not of all internal ones), whenever some junction row is kept -/
theorem addMeanOne_last_rhs (inp : FMInput) (len : Id → Nat → Rat) (b : List Rat)
    (hk : ∃ r ∈ inp.build.rows, r.2.1 = true) :
    (addMeanOne (normalisedMatrix inp len) b).2 = b ++ [(inp.build.used.length : Rat)] ∧
    (addMeanOne (normalisedMatrix inp len) b).2.getLast? = some (inp.build.used.length : Rat) := by
  have h : (addMeanOne (normalisedMatrix inp len) b).2 = b ++ [(inp.build.used.length : Rat)] := by
    rw [C16s.addMeanOne_rhs, C16s.normalisedMatrix_cols inp len hk]
  exact ⟨h, by rw [h]; simp⟩

/-- without a kept junction row the MODEL's matrix is the empty list, which has no column count: the model writes 0
    where the code (`mprime.shape[1]` of a `0 × n` array) writes `n`.  `hk` above excludes this case. -/
theorem addMeanOne_last_rhs_empty_witness : (addMeanOne [] []).2 = [0] := by decide +kernel

/-- `solve` reports `get_solution_no_discarded(xres[:-1])`.  Let `y` be ANY vector with one entry per remaining
    interface plus the multiplier (in particular the minimiser of the augmented restricted system).  Then the report
    has one entry per internal interface; at the position of an excluded interface it holds −1; at the position `i` of a
    remaining interface it holds `y[k]`, `k = keptBefore … i` being the column of that interface in the restricted
    system (`used[k]` IS `internal[i]`); and the remaining positions, read in order, are the solution without its
    multiplier.  `realign` decides by POSITION (by the interface standing there), never by the value of `y`. -/
theorem report_spec (inp : FMInput) (earr : List (List Id)) (y : List Rat)
    (hy : y.length = (inp.used earr).length + 1) :
    (realign (inp.internal earr) (inp.deletes earr) y.dropLast).length = (inp.internal earr).length ∧
    (∀ i < (inp.internal earr).length, (inp.internal earr).getD i [] ∉ inp.used earr →
      (realign (inp.internal earr) (inp.deletes earr) y.dropLast).getD i 0 = -1) ∧
    (∀ i < (inp.internal earr).length, (inp.internal earr).getD i [] ∈ inp.used earr →
      keptBefore (inp.internal earr) (inp.deletes earr) i < (inp.used earr).length ∧
      (inp.used earr).getD (keptBefore (inp.internal earr) (inp.deletes earr) i) [] = (inp.internal earr).getD i [] ∧
      (realign (inp.internal earr) (inp.deletes earr) y.dropLast).getD i 0
        = y.getD (keptBefore (inp.internal earr) (inp.deletes earr) i) 0) ∧
    ((List.zip (inp.internal earr) (realign (inp.internal earr) (inp.deletes earr) y.dropLast)).filter
      fun p => !(bothDeleted (inp.deletes earr) p.1)).map (·.2) = y.dropLast := by
  have hx : y.dropLast.length + excludedCount (inp.internal earr) (inp.deletes earr) = (inp.internal earr).length := by
    rw [List.length_dropLast, hy, Nat.add_sub_cancel, C16s.used_eq]
    exact C16s.excluded_add_kept _ _
  refine ⟨realign_length _ _ _ hx, ?_, ?_, realign_kept _ _ _ hx⟩
  · intro i hi hn
    apply realign_excluded _ _ _ hx i hi
    exact (C16s.not_mem_used_iff inp earr _ (C16s.getD_mem _ i hi)).1 hn
  · intro i hi hm
    have hk := ((C16s.mem_used_iff inp earr _).1 hm).2
    have hlt := C16s.keptBefore_lt _ _ i hi hk
    refine ⟨hlt, C16s.filter_getD_keptBefore _ _ i hi hk, ?_⟩
    rw [C16s.realign_kept_at _ _ _ hx i hi hk]
    rw [← C16s.used_eq] at hlt
    simp only [List.getD_eq_getElem?_getD, List.getElem?_dropLast]
    rw [if_pos (by omega)]

/-- "−1 EXACTLY at the excluded positions" needs that the solver returns no −1 itself (true for the non-negative
    solvers nnls / lsq_linear; the plain inversion path may return negative values) -/
theorem report_neg_one_iff_partial (inp : FMInput) (earr : List (List Id)) (y : List Rat)
    (hy : y.length = (inp.used earr).length + 1) (hne : ∀ v ∈ y.dropLast, v ≠ -1)
    (i : Nat) (hi : i < (inp.internal earr).length) :
    (realign (inp.internal earr) (inp.deletes earr) y.dropLast).getD i 0 = -1 ↔
      (inp.internal earr).getD i [] ∉ inp.used earr := by
  obtain ⟨_, hex, hkept, _⟩ := report_spec inp earr y hy
  constructor
  · intro h hm
    obtain ⟨hlt, _, hval⟩ := hkept i hi hm
    rw [hval] at h
    apply hne (y.getD (keptBefore (inp.internal earr) (inp.deletes earr) i) 0) _ h
    have hl : keptBefore (inp.internal earr) (inp.deletes earr) i < y.dropLast.length := by
      rw [List.length_dropLast, hy]; omega
    have : y.getD (keptBefore (inp.internal earr) (inp.deletes earr) i) 0
        = y.dropLast[keptBefore (inp.internal earr) (inp.deletes earr) i] := by
      simp only [List.getD_eq_getElem?_getD, List.getElem_dropLast]
      rw [List.getElem?_eq_getElem (by omega)]; rfl
    rw [this]; exact List.getElem_mem _
  · exact hex i hi

/-- the full statement without `hne` is false: a solver value −1 at a remaining position is indistinguishable from
    "excluded" in the report -/
theorem report_neg_one_iff_witness :
    realign [[1, 2], [2, 3], [3, 1]] [2, 3] [-1, 7] = [-1, -1, 7] ∧
    bothDeleted [2, 3] [1, 2] = false ∧ bothDeleted [2, 3] [2, 3] = true := by
  decide +kernel

/-- for a consistent restricted system (zero residual of the augmented system) the values of the remaining interfaces
    sum to their number — they average to one; the excluded positions (−1) are not part of that mean -/
theorem report_mean_one (inp : FMInput) (len : Id → Nat → Rat) (b x : List Rat) (lam : Rat)
    (hk : ∃ r ∈ inp.build.rows, r.2.1 = true)
    (hb : b.length = (normalisedMatrix inp len).length) (hx : x.length = inp.build.used.length)
    (h : residSq (addMeanOne (normalisedMatrix inp len) b).1 (addMeanOne (normalisedMatrix inp len) b).2
      (x ++ [lam]) = 0) :
    x.sum = (inp.build.used.length : Rat) ∧
    (((List.zip (inp.internal inp.earr)
        (realign (inp.internal inp.earr) inp.build.deletes (x ++ [lam]).dropLast)).filter
      fun p => !(bothDeleted inp.build.deletes p.1)).map (·.2)).sum = (inp.build.used.length : Rat) := by
  have hs : x.sum = (inp.build.used.length : Rat) :=
    mean_one_of_consistent (normalisedMatrix inp len) b x lam _ _ (normalisedMatrix_pos inp len hk)
      ⟨rfl, hb, normalisedMatrix_width inp len⟩ hx h
  refine ⟨hs, ?_⟩
  have hy : (x ++ [lam]).length = (inp.used inp.earr).length + 1 := by
    rw [List.length_append, hx]; rfl
  have := (report_spec inp inp.earr (x ++ [lam]) hy).2.2.2
  rw [show inp.build.deletes = inp.deletes inp.earr from rfl, this, List.dropLast_concat]
  exact hs

/-! ### 5. storage order and direction WITH an angle limit

  `inp'` is a variant input as in Props/C07order.lean: the same vertex dictionary, the same angle limit, an interface
  list holding the same interfaces up to direction (`hS`; for a rotated / reversed cell cycle or a re-ordered cell
  dictionary: `bigEdgesList_rotateCell / _reverseCell / _permuteCells`), and (interface, centre) pairs that are those of
  `inp` up to order and direction (`ρ`, `hρ`, `hρR`).  New hypothesis `hloop`: no interface is a closed loop — the
  direction of a closed loop at its base vertex depends on the stored direction (`entry_loop_witness` of
  Props/C07order.lean), and `get_angle_limited_edges` reads the directions of ALL interfaces at a junction, external
  ones included. -/

/-- the variant flags the same junctions -/
theorem exceeds_storage (inp inp' : FMInput)
    (hv : inp'.mesh.vertices = inp.mesh.vertices) (hcl : inp'.cosLimit = inp.cosLimit)
    (hS : SameInterfaces inp'.earr inp.earr) (hc : inp.centers.length = inp.earr.length)
    (ρ : List (List Id × Pt)) (hρ : ρ.Perm (List.zip inp'.earr inp'.centers))
    (hρR : List.Forall₂ (fun a b => (a.1 = b.1 ∨ a.1 = b.1.reverse) ∧ a.2 = b.2) ρ (List.zip inp.earr inp.centers))
    (hloop : ∀ e ∈ inp.earr, e.head? ≠ e.getLast?) (v : Id) :
    inp'.exceeds inp'.earr v = inp.exceeds inp.earr v := by
  exact C16s.exceeds_storage inp inp' hv hcl hS hc ρ hρ hρR hloop v

/-- the same set of flagged junctions (as lists: a permutation) -/
theorem deletes_storage (inp inp' : FMInput)
    (hv : inp'.mesh.vertices = inp.mesh.vertices) (hcl : inp'.cosLimit = inp.cosLimit)
    (hS : SameInterfaces inp'.earr inp.earr) (hc : inp.centers.length = inp.earr.length)
    (ρ : List (List Id × Pt)) (hρ : ρ.Perm (List.zip inp'.earr inp'.centers))
    (hρR : List.Forall₂ (fun a b => (a.1 = b.1 ∨ a.1 = b.1.reverse) ∧ a.2 = b.2) ρ (List.zip inp.earr inp.centers))
    (hloop : ∀ e ∈ inp.earr, e.head? ≠ e.getLast?) :
    inp'.build.deletes.Perm inp.build.deletes ∧ ∀ v, v ∈ inp'.build.deletes ↔ v ∈ inp.build.deletes := by
  have h := C16s.deletes_storage inp inp' hv hcl hS hc ρ hρ hρR hloop
  exact ⟨h, fun v => h.mem_iff⟩

/-- the same remaining interfaces up to direction -/
theorem used_storage (inp inp' : FMInput)
    (hv : inp'.mesh.vertices = inp.mesh.vertices) (hcl : inp'.cosLimit = inp.cosLimit)
    (hS : SameInterfaces inp'.earr inp.earr) (hc : inp.centers.length = inp.earr.length)
    (ρ : List (List Id × Pt)) (hρ : ρ.Perm (List.zip inp'.earr inp'.centers))
    (hρR : List.Forall₂ (fun a b => (a.1 = b.1 ∨ a.1 = b.1.reverse) ∧ a.2 = b.2) ρ (List.zip inp.earr inp.centers))
    (hloop : ∀ e ∈ inp.earr, e.head? ≠ e.getLast?) :
    SameInterfaces inp'.build.used inp.build.used := by
  exact C16s.used_storage inp inp' hv hcl hS hc ρ hρ hρR hloop

/-- `residSq_storage_model` of Props/C07order.lean WITHOUT its restriction "no angle limit": the remaining interfaces
    of the variant are those of the original up to order and direction, its junction list is a permutation, and the
    least-squares objective of the restricted augmented system, as a function of the tension per interface, is the
    same -/
theorem residSq_storage_model_limit (inp inp' : FMInput)
    (hv : inp'.mesh.vertices = inp.mesh.vertices) (hig : inp'.ignoreFour = inp.ignoreFour)
    (hcl : inp'.cosLimit = inp.cosLimit)
    (hS : SameInterfaces inp'.earr inp.earr) (hc : inp.centers.length = inp.earr.length)
    (ρ : List (List Id × Pt)) (hρ : ρ.Perm (List.zip inp'.earr inp'.centers))
    (hρR : List.Forall₂ (fun a b => (a.1 = b.1 ∨ a.1 = b.1.reverse) ∧ a.2 = b.2) ρ (List.zip inp.earr inp.centers))
    (hloop : ∀ e ∈ inp.earr, e.head? ≠ e.getLast?)
    (len : Id → List Id → Rat) (τ : List Id → Rat) (μ : Rat)
    (hτ : ∀ e, τ e.reverse = τ e) (hlen : ∀ v e, len v e.reverse = len v e) :
    (∃ σ : List (List Id), σ.Perm inp'.build.used ∧
      List.Forall₂ (fun s u => s = u ∨ s = u.reverse) σ inp.build.used) ∧
    (endsOf inp'.build.used).Perm (endsOf inp.build.used) ∧
    residSq (augmented (normalisedMatrix inp' (fun v c => len v (inp'.build.used.getD c [])))).1
        (augmented (normalisedMatrix inp' (fun v c => len v (inp'.build.used.getD c [])))).2
        (inp'.build.used.map τ ++ [μ])
      = residSq (augmented (normalisedMatrix inp (fun v c => len v (inp.build.used.getD c [])))).1
        (augmented (normalisedMatrix inp (fun v c => len v (inp.build.used.getD c [])))).2
        (inp.build.used.map τ ++ [μ]) := by
  have hends : ∀ u ∈ inp.build.used, u.head? ≠ u.getLast? :=
    fun u hu => hloop u ((C07o.used_sublist inp inp.earr).subset hu)
  exact C16s.residSq_storage_model_limit inp inp' hv hcl hS hc ρ hρ hρR hloop hig hends len τ μ hτ hlen

/-- the three storage variants of the mesh in one statement, with an angle limit -/
theorem storage_variants_limit (inp : FMInput) (m' : Mesh) (centers' : List Pt)
    (hm : (∃ cid k, m' = inp.mesh.rotateCell cid k) ∨ (∃ cid, m' = inp.mesh.reverseCell cid) ∨
      (∃ cells', cells'.Perm inp.mesh.cells ∧ m' = inp.mesh.permuteCells cells'))
    (hc : inp.centers.length = inp.earr.length)
    (ρ : List (List Id × Pt)) (hρ : ρ.Perm (List.zip m'.bigEdgesList centers'))
    (hρR : List.Forall₂ (fun a b => (a.1 = b.1 ∨ a.1 = b.1.reverse) ∧ a.2 = b.2) ρ (List.zip inp.earr inp.centers))
    (hloop : ∀ e ∈ inp.earr, e.head? ≠ e.getLast?) :
    let inp' : FMInput := { inp with mesh := m', centers := centers' }
    (∀ v, v ∈ inp'.build.deletes ↔ v ∈ inp.build.deletes) ∧
    SameInterfaces inp'.build.used inp.build.used := by
  intro inp'
  have hv : inp'.mesh.vertices = inp.mesh.vertices := by
    rcases hm with ⟨cid, k, rfl⟩ | ⟨cid, rfl⟩ | ⟨cells', _, rfl⟩ <;> rfl
  have hS : SameInterfaces inp'.earr inp.earr := by
    rcases hm with ⟨cid, k, rfl⟩ | ⟨cid, rfl⟩ | ⟨cells', hp, rfl⟩
    · exact (bigEdgesList_rotateCell cid k inp.mesh).1
    · exact (bigEdgesList_reverseCell cid inp.mesh).1
    · exact (bigEdgesList_permuteCells cells' inp.mesh hp).1
  exact ⟨(deletes_storage inp inp' hv rfl hS hc ρ hρ hρR hloop).2,
    used_storage inp inp' hv rfl hS hc ρ hρ hρR hloop⟩

/-! ### 6. non-vacuity and witnesses -/

/-- the lens tissue of Props/C01matrix.lean with the limit 60° (`cos = 1/2`): all four candidate junctions are
    flagged, every internal interface is excluded, the report is −1 everywhere -/
theorem lens_limit_60_witness :
    let inp : FMInput := { balInp with cosLimit := some (1/2) }
    inp.internal inp.earr = [[0, 2, 1], [1, 0], [3, 0], [1, 4]] ∧
    inp.build.deletes = [0, 1, 3, 4] ∧ inp.build.used = [] ∧
    realign (inp.internal inp.earr) inp.build.deletes ([5] : List Rat).dropLast = [-1, -1, -1, -1] := by
  decide +kernel

/-- the same tissue with `cos(limit) = −9/10` (about 154°): the two three-fold junctions are flagged (the arc and the
    left spoke open by `cos = −24/25`), the arc and the chord — both ends flagged — are excluded, the two spokes
    remain; the solution (5, 7) of the restricted system with multiplier 0 is reported as (−1, −1, 5, 7) -/
theorem lens_limit_154_witness :
    let inp : FMInput := { balInp with cosLimit := some (-9/10) }
    inp.build.deletes = [0, 1] ∧ inp.build.used = [[3, 0], [1, 4]] ∧
    inp.exceeds inp.earr 0 = true ∧ inp.exceeds inp.earr 3 = false ∧
    inp.vecAt inp.earr 0 0 = some ⟨3/2, 2⟩ ∧ inp.vecAt inp.earr 2 0 = some ⟨-4, -3⟩ ∧
    cosLe ⟨3/2, 2⟩ ⟨-4, -3⟩ (-9/10) = true ∧
    realign (inp.internal inp.earr) inp.build.deletes ([5, 7, 0] : List Rat).dropLast = [-1, -1, 5, 7] ∧
    keptBefore (inp.internal inp.earr) inp.build.deletes 2 = 0 ∧
    keptBefore (inp.internal inp.earr) inp.build.deletes 3 = 1 := by
  decide +kernel

/-- with the default limit nothing is excluded on the lens, and neither with the limit π (no exactly antiparallel pair) -/
theorem lens_default_witness :
    balInp.cosLimit = none ∧ balInp.build.deletes = [] ∧ balInp.build.used = balInp.internal balInp.earr ∧
    ({ balInp with cosLimit := some (-1) } : FMInput).build.deletes = [] := by
  decide +kernel

/-- a brick-lattice patch: three cells below the line `y = 1`, one above; the T-junctions 5 = (1,1) and 6 = (2,1) lie
    on the straight line from 4 = (0,1) to 7 = (3,1).  Interface list:
    `[[1,5],[5,4],[4,0,1],[1,2],[2,6],[6,5],[2,3,7],[7,6],[7,9,8,4]]`; the centres of the three corner interfaces are
    the centres of the circles through their points. -/
def brickMesh : Mesh := Mesh.ofLists
  [(0,0,0),(1,1,0),(2,2,0),(3,3,0),(4,0,1),(5,1,1),(6,2,1),(7,3,1),(8,0,2),(9,3,2)]
  [(0,0,1),(1,1,2),(2,2,3),(3,4,5),(4,5,6),(5,6,7),(6,0,4),(7,1,5),(8,2,6),(9,3,7),(10,4,8),(11,8,9),(12,9,7)]
  [(0,[0,1,5,4]),(1,[1,2,6,5]),(2,[2,3,7,6]),(3,[4,5,6,7,9,8])]

/-- … with the limit π -/
def brickInp : FMInput :=
  { mesh := brickMesh, centers := [⟨0,0⟩,⟨0,0⟩,⟨1/2,1/2⟩,⟨0,0⟩,⟨0,0⟩,⟨0,0⟩,⟨5/2,1/2⟩,⟨0,0⟩,⟨3/2,3/2⟩],
    cosLimit := some (-1), ignoreFour := false }

/-- THE LIMIT π EXCLUDES SOMETHING (finding D15, the former default): at the T-junctions 5 and 6 the directions (−1,0) and (1,0) are
    exactly antiparallel, both are flagged, and EXACTLY ONE interface — `[6,5]`, whose two ends they are — is excluded;
    the other four internal interfaces remain in their order, and the solution (11, 12, 13, 14) with multiplier 0 is
    reported as (11, 12, 13, −1, 14).  With the default limit nothing is excluded on the same tissue. -/
theorem pi_limit_brick_witness :
    brickMesh.Consistent = true ∧
    brickInp.earr = [[1,5],[5,4],[4,0,1],[1,2],[2,6],[6,5],[2,3,7],[7,6],[7,9,8,4]] ∧
    brickInp.internal brickInp.earr = [[1,5],[5,4],[2,6],[6,5],[7,6]] ∧
    (Mesh.ownBigEdges brickInp.earr 5).map (fun i => brickInp.vecAt brickInp.earr i 5)
      = [some ⟨0,-1⟩, some ⟨-1,0⟩, some ⟨1,0⟩] ∧
    cosLe ⟨-1,0⟩ ⟨1,0⟩ (-1) = true ∧ cosLe ⟨0,-1⟩ ⟨1,0⟩ (-1) = false ∧
    brickInp.build.deletes = [5, 6] ∧
    brickInp.build.used = [[1,5],[5,4],[2,6],[7,6]] ∧
    realign (brickInp.internal brickInp.earr) brickInp.build.deletes ([11, 12, 13, 14, 0] : List Rat).dropLast
      = [11, 12, 13, -1, 14] ∧
    (List.range 5).map (keptBefore (brickInp.internal brickInp.earr) brickInp.build.deletes) = [0, 1, 2, 3, 3] ∧
    ({ brickInp with cosLimit := none } : FMInput).build.deletes = [] ∧
    ({ brickInp with cosLimit := none } : FMInput).build.used = [[1,5],[5,4],[2,6],[6,5],[7,6]] := by
  decide +kernel

/-- a 2 × 2 square lattice: the four-fold junction 4 = (1,1) has two exactly antiparallel pairs and is flagged under the
    limit π, but no interface has BOTH ends flagged (the outer junctions 1, 3, 5, 7 carry a corner interface on either
    side), so nothing is excluded: flagging one end is not enough -/
def squareMesh : Mesh := Mesh.ofLists
  [(0,0,0),(1,1,0),(2,2,0),(3,0,1),(4,1,1),(5,2,1),(6,0,2),(7,1,2),(8,2,2)]
  [(0,0,1),(1,1,2),(2,3,4),(3,4,5),(4,6,7),(5,7,8),(6,0,3),(7,3,6),(8,1,4),(9,4,7),(10,2,5),(11,5,8)]
  [(0,[0,1,4,3]),(1,[1,2,5,4]),(2,[3,4,7,6]),(3,[4,5,8,7])]

def squareInp : FMInput :=
  { mesh := squareMesh,
    centers := [⟨0,0⟩,⟨0,0⟩,⟨1/2,1/2⟩,⟨3/2,1/2⟩,⟨0,0⟩,⟨0,0⟩,⟨1/2,3/2⟩,⟨3/2,3/2⟩],
    cosLimit := some (-1), ignoreFour := false }

theorem pi_limit_square_witness :
    squareMesh.Consistent = true ∧
    squareInp.earr = [[1,4],[4,3],[3,0,1],[1,2,5],[5,4],[4,7],[7,6,3],[5,8,7]] ∧
    (Mesh.ownBigEdges squareInp.earr 4).map (fun i => squareInp.vecAt squareInp.earr i 4)
      = [some ⟨0,-1⟩, some ⟨-1,0⟩, some ⟨1,0⟩, some ⟨0,1⟩] ∧
    squareInp.exceeds squareInp.earr 4 = true ∧
    squareInp.build.deletes = [4] ∧
    squareInp.build.used = squareInp.internal squareInp.earr ∧
    squareInp.build.used = [[1,4],[4,3],[5,4],[4,7]] := by
  decide +kernel

/-- the model's treatment of an interface without a direction at the asked vertex: vertex 2 is an interior point of the
    arc `[0,2,1]` of the lens; `vecAt` is `none`, and even with the weakest possible limit (`cos = 1`: EVERY pair of
    directions reaches it) vertex 2 is not flagged — one direction-less interface makes no pair -/
theorem exceeds_interior_witness :
    let inp : FMInput := { balInp with cosLimit := some 1 }
    Mesh.ownBigEdges inp.earr 2 = [0] ∧ inp.vecAt inp.earr 0 2 = none ∧ inp.exceeds inp.earr 2 = false ∧
    inp.exceeds inp.earr 0 = true := by
  decide +kernel

/-- hypotheses of `exceeds_iff` … (`cosLimit = some c`) and of `excluded_iff` (`e ∈ internal`), `report_spec`
    (`y.length = #used + 1`), `report_neg_one_iff_partial` (`hne`) on the brick patch -/
example : brickInp.cosLimit = some (-1) ∧ [6, 5] ∈ brickInp.internal brickInp.earr ∧
    ([11, 12, 13, 14, 0] : List Rat).length = (brickInp.used brickInp.earr).length + 1 ∧
    (∀ v ∈ ([11, 12, 13, 14, 0] : List Rat).dropLast, v ≠ -1) := by
  decide +kernel

/-- hypotheses of `addMeanOne_last_rhs` / `report_mean_one` on the lens with the default limit: a kept row exists, the
    true normalised tensions solve the augmented system exactly, and they sum to the number of remaining interfaces -/
example : (∃ r ∈ balInp.build.rows, r.2.1 = true) ∧
    (List.replicate (normalisedMatrix balInp balLen).length (0 : Rat)).length = (normalisedMatrix balInp balLen).length ∧
    ([30/31, 14/31, 40/31, 40/31] : List Rat).length = balInp.build.used.length ∧
    residSq (addMeanOne (normalisedMatrix balInp balLen) (List.replicate (normalisedMatrix balInp balLen).length 0)).1
      (addMeanOne (normalisedMatrix balInp balLen) (List.replicate (normalisedMatrix balInp balLen).length 0)).2
      ([30/31, 14/31, 40/31, 40/31] ++ [0]) = 0 ∧
    (addMeanOne (normalisedMatrix balInp balLen) (List.replicate (normalisedMatrix balInp balLen).length 0)).2
      = [0, 0, 0, 0, 4] := by
  decide +kernel

/-- the storage hypotheses hold WITH an angle limit for the lens and its re-ordered cell dictionary (`balInpRev` of
    Props/C07order.lean, both with `cos(limit) = −9/10`): the theorems apply, and the model computes what they say — the
    same flagged junctions, the remaining interfaces `[4,1]`, `[0,3]` against `[3,0]`, `[1,4]` -/
example :
    let inp : FMInput := { balInp with cosLimit := some (-9/10) }
    let inp' : FMInput := { balInpRev with cosLimit := some (-9/10) }
    (∀ v, v ∈ inp'.build.deletes ↔ v ∈ inp.build.deletes) ∧ SameInterfaces inp'.build.used inp.build.used ∧
    inp'.build.deletes = [1, 0] ∧ inp.build.deletes = [0, 1] ∧
    inp'.build.used = [[4, 1], [0, 3]] ∧ inp.build.used = [[3, 0], [1, 4]] := by
  intro inp inp'
  have h1 : List.zip inp'.earr inp'.centers
      = [([3, 6, 4], ⟨0,0⟩), ([4, 1], ⟨0,0⟩), ([1, 0], ⟨0,0⟩), ([0, 3], ⟨0,0⟩), ([0, 2, 1], ⟨2,-3/2⟩),
         ([4, 5, 3], ⟨0,0⟩)] := by decide +kernel
  have h2 : List.zip inp.earr inp.centers
      = [([0, 2, 1], ⟨2,-3/2⟩), ([1, 0], ⟨0,0⟩), ([3, 0], ⟨0,0⟩), ([1, 4], ⟨0,0⟩), ([4, 5, 3], ⟨0,0⟩),
         ([3, 6, 4], ⟨0,0⟩)] := by decide +kernel
  have hS : SameInterfaces inp'.earr inp.earr := (bigEdgesList_permuteCells _ balMesh (List.reverse_perm _)).1
  have hρ : ([([0, 2, 1], ⟨2,-3/2⟩), ([1, 0], ⟨0,0⟩), ([0, 3], ⟨0,0⟩), ([4, 1], ⟨0,0⟩), ([4, 5, 3], ⟨0,0⟩),
      ([3, 6, 4], ⟨0,0⟩)] : List (List Id × Pt)).Perm (List.zip inp'.earr inp'.centers) := by
    rw [h1]; decide +kernel
  have hρR : List.Forall₂ (fun a b : List Id × Pt => (a.1 = b.1 ∨ a.1 = b.1.reverse) ∧ a.2 = b.2)
      [([0, 2, 1], ⟨2,-3/2⟩), ([1, 0], ⟨0,0⟩), ([0, 3], ⟨0,0⟩), ([4, 1], ⟨0,0⟩), ([4, 5, 3], ⟨0,0⟩),
        ([3, 6, 4], ⟨0,0⟩)] (List.zip inp.earr inp.centers) := by
    rw [h2]
    exact .cons ⟨.inl rfl, rfl⟩ (.cons ⟨.inl rfl, rfl⟩ (.cons ⟨.inr rfl, rfl⟩ (.cons ⟨.inr rfl, rfl⟩
      (.cons ⟨.inl rfl, rfl⟩ (.cons ⟨.inl rfl, rfl⟩ .nil)))))
  have hloop : ∀ e ∈ inp.earr, e.head? ≠ e.getLast? := by decide +kernel
  have hc : inp.centers.length = inp.earr.length := by decide +kernel
  refine ⟨(deletes_storage inp inp' rfl rfl hS hc _ hρ hρR hloop).2,
    used_storage inp inp' rfl rfl hS hc _ hρ hρR hloop, ?_⟩
  decide +kernel

/- PENDING (not proved here):
   * that the minimiser `y` of the augmented restricted system exists and is what nnls / lsq_linear / the inversion
     return: external kernels, certified per run (C05 `kkt_sound`, `stationary_min`, `exact_solution_minimises`);
     `report_spec` holds for EVERY `y` of the right length, in particular for that minimiser;
   * `np.arccos(np.clip(dot, −1, 1)) >= angle_limit` against `cosLe`: the floating-point comparison of angles is the
     exact comparison of cosines only up to rounding (a pair within rounding of the limit can go either way); compared
     per run by the harness;
   * the storage theorems for tissues WITH a closed-loop interface (`hloop` fails): open — the direction of a loop at
     its base vertex depends on the stored direction (`entry_loop_witness`), so the flagged set may really differ.
-/

end Forsys
