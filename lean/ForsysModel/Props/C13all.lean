/-
  Umbrella of property C13: the finite-difference velocity theorems and the row placement of the right-hand side
  (Props/C13.lean) and the independence of the numbering — the velocity of a vertex, hence the dynamic right-hand side,
  does not depend on how each frame numbers its vertices (Props/C13relabel.lean).
  lean/props.json names this module for C13, so that `./check C13` builds and audits both.
-/
import ForsysModel.Props.C13
import ForsysModel.Props.C13relabel
import ForsysModel.Props.C12relabel
import ForsysModel.Props.C13more
