/-
  Property C03, matrix part — the dynamic analogue of Props/C01matrix.lean: the link between the assembled matrix
  (C02), the velocity right-hand side (C13) and the recovery theorems of Props/C03.lean.

  "The tensions recovered for a frame of a time series are the tensions that, with the junction velocities as
  resultants, balance every junction; they do not depend on numbering or the time steps."

  Model: `FMInput.build` (ForsysModel/Model/FMatrix.lean = ForceMatrix._build_matrix), `normalisedMatrix`
  (Proofs/C01matrix.lean = `ForceMatrix.matrix`, x-row then y-row per kept junction), `placeVelocities`
  (= the row placement of `set_velocity_matrix`), `addMeanOne`, `mulVec`, `residSq`, and `exact_rhs_solves`,
  `exact_rhs_unique` of Props/C03.lean.

  Vocabulary added here (defined in Proofs/C03matrix.lean, namespace `Forsys.FMInput`):
    `keptRows inp`        `inp.build.rows.filter fun r => r.2.1` — the kept junctions in the order of `tj_vertices`,
                          which is the insertion order of `map_vid_to_row` (`map_vid_to_row[vid] = position_index`,
                          `position_index += 2`)
    `placeRows vs`        `[(2 i, vs[i]) | i < |vs|]` — `map_vid_to_row` paired with one vector per kept junction
    `velocityRhs inp vel` `placeVelocities (2 k) (placeRows [vel v | v kept])`, `k` = number of kept junctions: the vector
                          `b` of `set_velocity_matrix` (`b[j] = value[0]; b[j+1] = value[1]`, `j = map_vid_to_row[vid]`),
                          before the optional adimensional scaling (that step is `placeVelocities_div_mul`, C13)

  The friction coefficient is 1: the code solves `A τ = v` with `v` the junction velocity as is.

  Hypotheses, for the junction rows `r ∈ inp.build.rows` with keep flag `r.2.1 = true`:
    `hnorm`, `htrue`  as in Props/C01matrix.lean: the vector the model places at `(r.1, c)` is `len r.1 c • dir r.1 c`
                      with `len` its norm and `dir` the TRUE direction of interface `c` at the junction;
    `hdyn`            dynamic balance: `Σ_{c ends at v} tau c • dir v c = vel v`, both components — the net pull of the
                      interfaces is the junction's velocity;
    `hsum`            `Σ_c tau c = n`: the true tensions have mean one.  In the static case (C01) the system is
                      homogeneous and the mean-one row only fixes the free scale, so the answer is `tau / mean tau`
                      for ANY scale of `tau`.  In the dynamic case the scale is fixed by the velocities; the mean-one
                      row is then an additional equation, and the truth solves the augmented system exactly only if
                      it is already normalised (otherwise the Lagrange multiplier absorbs part of the mismatch and the
                      answer is not the truth) — so `hsum` is a genuine hypothesis, not a normalisation convention;
    `hnn`             the true tensions are non-negative (the candidates of nnls / lsq_linear are);
    `hinj`            (d) the augmented matrix is injective.
-/
import ForsysModel.Proofs.C03matrix
import ForsysModel.Props.C01matrix
import ForsysModel.Props.C03
import ForsysModel.Props.C13

namespace Forsys
open FMInput

/-! ### the right-hand side of the dynamic system -/

/-- the right-hand side is the interleaving of the velocity components of the kept junctions, in the row order of
    `normalisedMatrix` (x entry then y entry per kept junction) -/
theorem velocityRhs_eq_flatMap (inp : FMInput) (vel : Id → Vec) :
    velocityRhs inp vel = (inp.build.rows.filter fun r => r.2.1).flatMap fun r => [(vel r.1).x, (vel r.1).y] :=
  velocityRhs_flatMap inp vel

/-- one entry per row of the matrix -/
theorem velocityRhs_length (inp : FMInput) (len : Id → Nat → Rat) (vel : Id → Vec) :
    (velocityRhs inp vel).length = 2 * (inp.build.rows.filter fun r => r.2.1).length ∧
    (velocityRhs inp vel).length = (normalisedMatrix inp len).length :=
  ⟨velocityRhs_len inp vel, velocityRhs_len_matrix inp len vel⟩

/-- entry by entry: rows `2 i` and `2 i + 1` — the rows `normalisedMatrix` gives to the `i`-th kept junction — hold
    the x- and the y-component of that junction's velocity -/
theorem velocityRhs_entries (inp : FMInput) (vel : Id → Vec) (i : Nat) :
    (velocityRhs inp vel)[2 * i]? = ((inp.build.rows.filter fun r => r.2.1)[i]?).map (fun r => (vel r.1).x) ∧
    (velocityRhs inp vel)[2 * i + 1]? = ((inp.build.rows.filter fun r => r.2.1)[i]?).map (fun r => (vel r.1).y) := by
  rw [velocityRhs_flatMap]
  exact ⟨flatMap_pair_getElem?_even _ _ _ i, flatMap_pair_getElem?_odd _ _ _ i⟩

/-- static mode is the case of vanishing velocities: the right-hand side is the zero vector of C01 -/
theorem velocityRhs_zero (inp : FMInput) (len : Id → Nat → Rat) :
    velocityRhs inp (fun _ => ⟨0, 0⟩) = List.replicate (normalisedMatrix inp len).length 0 :=
  velocityRhs_zero' inp len

/-- only the velocities of the kept junctions enter -/
theorem velocityRhs_congr (inp : FMInput) (vel vel' : Id → Vec)
    (h : ∀ r ∈ inp.build.rows, r.2.1 = true → vel r.1 = vel' r.1) :
    velocityRhs inp vel = velocityRhs inp vel' :=
  velocityRhs_congr' inp vel vel' h

/-- scaling all velocities scales the right-hand side (`placeVelocities_smul`, C13, on the junction placement) -/
theorem velocityRhs_smul (inp : FMInput) (vel : Id → Vec) (c : Rat) :
    velocityRhs inp (fun v => Vec.smul c (vel v)) = (velocityRhs inp vel).map (c * ·) :=
  velocityRhs_smul' inp vel c

/-! ### dynamic balance -/

/-- THE LINK, dynamic case.  If at every kept junction the model's placed vectors are positive multiples (`len`) of the
    true directions (`htrue`) and the net pull of the true tensions `tau` along the true directions is the junction's
    velocity (`hdyn`), then the normalised assembled matrix maps the tension vector to the velocity right-hand side:
    `A τ = b`, every x- and y-equation holds exactly. -/
theorem assembled_dynamic_balance (inp : FMInput) (len : Id → Nat → Rat) (dir : Id → Nat → Vec) (tau : Nat → Rat)
    (vel : Id → Vec)
    (hnorm : ∀ r ∈ inp.build.rows, r.2.1 = true → ∀ c < inp.build.used.length,
      endsAt (inp.build.used.getD c []) r.1 = true →
        0 < len r.1 c ∧ (inp.tangentAt c r.1).map Vec.normSq = some ((len r.1 c) ^ 2))
    (htrue : ∀ r ∈ inp.build.rows, r.2.1 = true → ∀ c < inp.build.used.length,
      endsAt (inp.build.used.getD c []) r.1 = true →
        inp.tangentAt c r.1 = some (Vec.smul (len r.1 c) (dir r.1 c)))
    (hdyn : ∀ r ∈ inp.build.rows, r.2.1 = true →
      ((inp.endCols r.1).map fun c => tau c * (dir r.1 c).x).sum = (vel r.1).x ∧
      ((inp.endCols r.1).map fun c => tau c * (dir r.1 c).y).sum = (vel r.1).y) :
    mulVec (normalisedMatrix inp len) (tauVec inp.build.used.length tau) = velocityRhs inp vel := by
  rw [mulVec_normalised, velocityRhs_flatMap]
  apply flatMap_congr_mem
  intro r hr
  obtain ⟨hr, hk⟩ := List.mem_filter.mp hr
  obtain ⟨hx, hy⟩ := row_dot inp len dir tau r hr hk (fun c hc he => (hnorm r hr hk c hc he).1)
    (fun c hc he => htrue r hr hk c hc he)
  rw [hx, hy, (hdyn r hr hk).1, (hdyn r hr hk).2]

/-- `assembled_balance` (C01) is the special case of vanishing velocities: the dynamic statement is a generalisation
    of the static one -/
theorem assembled_balance_of_dynamic (inp : FMInput) (len : Id → Nat → Rat) (dir : Id → Nat → Vec) (tau : Nat → Rat)
    (hnorm : ∀ r ∈ inp.build.rows, r.2.1 = true → ∀ c < inp.build.used.length,
      endsAt (inp.build.used.getD c []) r.1 = true →
        0 < len r.1 c ∧ (inp.tangentAt c r.1).map Vec.normSq = some ((len r.1 c) ^ 2))
    (htrue : ∀ r ∈ inp.build.rows, r.2.1 = true → ∀ c < inp.build.used.length,
      endsAt (inp.build.used.getD c []) r.1 = true →
        inp.tangentAt c r.1 = some (Vec.smul (len r.1 c) (dir r.1 c)))
    (hbal : ∀ r ∈ inp.build.rows, r.2.1 = true →
      ((inp.endCols r.1).map fun c => tau c * (dir r.1 c).x).sum = 0 ∧
      ((inp.endCols r.1).map fun c => tau c * (dir r.1 c).y).sum = 0) :
    mulVec (normalisedMatrix inp len) (tauVec inp.build.used.length tau)
      = List.replicate (normalisedMatrix inp len).length 0 := by
  rw [← velocityRhs_zero inp len]
  exact assembled_dynamic_balance inp len dir tau (fun _ => ⟨0, 0⟩) hnorm htrue hbal

/-- the same, row by row: at `tau` the x-equation of the `i`-th kept junction evaluates to the x-component of its
    velocity, the y-equation to the y-component -/
theorem assembled_dynamic_balance_rows (inp : FMInput) (len : Id → Nat → Rat) (dir : Id → Nat → Vec)
    (tau : Nat → Rat) (vel : Id → Vec)
    (hnorm : ∀ r ∈ inp.build.rows, r.2.1 = true → ∀ c < inp.build.used.length,
      endsAt (inp.build.used.getD c []) r.1 = true →
        0 < len r.1 c ∧ (inp.tangentAt c r.1).map Vec.normSq = some ((len r.1 c) ^ 2))
    (htrue : ∀ r ∈ inp.build.rows, r.2.1 = true → ∀ c < inp.build.used.length,
      endsAt (inp.build.used.getD c []) r.1 = true →
        inp.tangentAt c r.1 = some (Vec.smul (len r.1 c) (dir r.1 c)))
    (hdyn : ∀ r ∈ inp.build.rows, r.2.1 = true →
      ((inp.endCols r.1).map fun c => tau c * (dir r.1 c).x).sum = (vel r.1).x ∧
      ((inp.endCols r.1).map fun c => tau c * (dir r.1 c).y).sum = (vel r.1).y) :
    ∀ r ∈ inp.build.rows, r.2.1 = true →
      dot (rowX inp len r) (tauVec inp.build.used.length tau) = (vel r.1).x ∧
      dot (rowY inp len r) (tauVec inp.build.used.length tau) = (vel r.1).y := by
  intro r hr hk
  obtain ⟨hx, hy⟩ := row_dot inp len dir tau r hr hk (fun c hc he => (hnorm r hr hk c hc he).1)
    (fun c hc he => htrue r hr hk c hc he)
  rw [hx, hy]
  exact hdyn r hr hk

/-! ### the true tensions solve the assembled augmented system -/

/-- the vector (true tensions, multiplier 0) solves the augmented system `add_mean_one` builds from the normalised
    assembled matrix and the velocity right-hand side exactly: residual zero.  Unlike the static case
    (`assembled_truth_solves`, where the system is homogeneous and the answer is `tau / mean tau` for any scale of
    `tau`), the scale is fixed by the velocities here, so the truth must already have mean one (`hsum`):
    `add_mean_one` appends the equation `Σ x = n`, which the truth satisfies only if `Σ tau = n`.
    (`exact_rhs_solves` of Props/C03.lean applied to `assembled_dynamic_balance`.) -/
theorem assembled_dynamic_truth_solves (inp : FMInput) (len : Id → Nat → Rat) (dir : Id → Nat → Vec)
    (tau : Nat → Rat) (vel : Id → Vec)
    (hk : ∃ r ∈ inp.build.rows, r.2.1 = true)
    (hnorm : ∀ r ∈ inp.build.rows, r.2.1 = true → ∀ c < inp.build.used.length,
      endsAt (inp.build.used.getD c []) r.1 = true →
        0 < len r.1 c ∧ (inp.tangentAt c r.1).map Vec.normSq = some ((len r.1 c) ^ 2))
    (htrue : ∀ r ∈ inp.build.rows, r.2.1 = true → ∀ c < inp.build.used.length,
      endsAt (inp.build.used.getD c []) r.1 = true →
        inp.tangentAt c r.1 = some (Vec.smul (len r.1 c) (dir r.1 c)))
    (hdyn : ∀ r ∈ inp.build.rows, r.2.1 = true →
      ((inp.endCols r.1).map fun c => tau c * (dir r.1 c).x).sum = (vel r.1).x ∧
      ((inp.endCols r.1).map fun c => tau c * (dir r.1 c).y).sum = (vel r.1).y)
    (hsum : (tauVec inp.build.used.length tau).sum = (inp.build.used.length : Rat)) :
    residSq (addMeanOne (normalisedMatrix inp len) (velocityRhs inp vel)).1
      (addMeanOne (normalisedMatrix inp len) (velocityRhs inp vel)).2
      (tauVec inp.build.used.length tau ++ [0]) = 0 := by
  have hb := assembled_dynamic_balance inp len dir tau vel hnorm htrue hdyn
  have h := exact_rhs_solves (normalisedMatrix inp len) (tauVec inp.build.used.length tau)
    (normalisedMatrix inp len).length inp.build.used.length (normalisedMatrix_pos inp len hk)
    ⟨rfl, by simp [mulVec], normalisedMatrix_width inp len⟩ (tauVec_length _ _) hsum
  rwa [hb] at h

/-- C03 at model level, end to end.  Let the tissue `inp` have at least one kept junction and let
    (a) `hnorm`, `htrue`: at every kept junction the vectors the model places are the true directions `dir` of the
        interfaces times their norm `len` (exact arcs / straight lines with agreeing sign rule, C02),
    (b) `hdyn`: the net pull of the true tensions `tau` at every kept junction is its velocity `vel` (friction 1),
    (c) `hnn`, `hsum`: the true tensions are non-negative and have mean one,
    (d) `hinj`: the augmented matrix `[[A, 1], [1ᵀ, 0]]` of the normalised assembled matrix `A` is injective.
    Then every vector `y` that minimises the augmented squared residual, with the velocity right-hand side, over the
    non-negative candidates (what nnls / lsq_linear return, C05) is: the true tension of every inferred interface,
    followed by the Lagrange multiplier zero. -/
theorem dynamic_inference_recovers_tensions (inp : FMInput) (len : Id → Nat → Rat) (dir : Id → Nat → Vec)
    (tau : Nat → Rat) (vel : Id → Vec) (y : List Rat)
    (hk : ∃ r ∈ inp.build.rows, r.2.1 = true)
    (hnorm : ∀ r ∈ inp.build.rows, r.2.1 = true → ∀ c < inp.build.used.length,
      endsAt (inp.build.used.getD c []) r.1 = true →
        0 < len r.1 c ∧ (inp.tangentAt c r.1).map Vec.normSq = some ((len r.1 c) ^ 2))
    (htrue : ∀ r ∈ inp.build.rows, r.2.1 = true → ∀ c < inp.build.used.length,
      endsAt (inp.build.used.getD c []) r.1 = true →
        inp.tangentAt c r.1 = some (Vec.smul (len r.1 c) (dir r.1 c)))
    (hdyn : ∀ r ∈ inp.build.rows, r.2.1 = true →
      ((inp.endCols r.1).map fun c => tau c * (dir r.1 c).x).sum = (vel r.1).x ∧
      ((inp.endCols r.1).map fun c => tau c * (dir r.1 c).y).sum = (vel r.1).y)
    (hnn : ∀ c < inp.build.used.length, 0 ≤ tau c)
    (hsum : (tauVec inp.build.used.length tau).sum = (inp.build.used.length : Rat))
    (hy : y.length = inp.build.used.length + 1)
    (hinj : ∀ x x' : List Rat, x.length = inp.build.used.length + 1 → x'.length = inp.build.used.length + 1 →
      mulVec (addMeanOne (normalisedMatrix inp len) (velocityRhs inp vel)).1 x
        = mulVec (addMeanOne (normalisedMatrix inp len) (velocityRhs inp vel)).1 x' →
      x = x')
    (hmin : ∀ x : List Rat, x.length = inp.build.used.length + 1 → (∀ v ∈ x, 0 ≤ v) →
      residSq (addMeanOne (normalisedMatrix inp len) (velocityRhs inp vel)).1
          (addMeanOne (normalisedMatrix inp len) (velocityRhs inp vel)).2 y
        ≤ residSq (addMeanOne (normalisedMatrix inp len) (velocityRhs inp vel)).1
          (addMeanOne (normalisedMatrix inp len) (velocityRhs inp vel)).2 x) :
    y = tauVec inp.build.used.length tau ++ [0] := by
  have hb := assembled_dynamic_balance inp len dir tau vel hnorm htrue hdyn
  rw [← hb] at hinj hmin
  refine exact_rhs_unique (normalisedMatrix inp len) (tauVec inp.build.used.length tau) y
    (normalisedMatrix inp len).length inp.build.used.length (normalisedMatrix_pos inp len hk)
    ⟨rfl, by simp [mulVec], normalisedMatrix_width inp len⟩ (tauVec_length _ _) ?_ hsum hy hinj hmin
  intro v hv
  simp only [tauVec, List.mem_map, List.mem_range] at hv
  obtain ⟨c, hc, rfl⟩ := hv
  exact hnn c hc

/-- in words of the property: entry `c` of the solver's answer is the true tension `tau c`, and the multiplier is `0` -/
theorem dynamic_inference_recovers_tensions_entry (inp : FMInput) (len : Id → Nat → Rat) (dir : Id → Nat → Vec)
    (tau : Nat → Rat) (vel : Id → Vec) (y : List Rat)
    (hk : ∃ r ∈ inp.build.rows, r.2.1 = true)
    (hnorm : ∀ r ∈ inp.build.rows, r.2.1 = true → ∀ c < inp.build.used.length,
      endsAt (inp.build.used.getD c []) r.1 = true →
        0 < len r.1 c ∧ (inp.tangentAt c r.1).map Vec.normSq = some ((len r.1 c) ^ 2))
    (htrue : ∀ r ∈ inp.build.rows, r.2.1 = true → ∀ c < inp.build.used.length,
      endsAt (inp.build.used.getD c []) r.1 = true →
        inp.tangentAt c r.1 = some (Vec.smul (len r.1 c) (dir r.1 c)))
    (hdyn : ∀ r ∈ inp.build.rows, r.2.1 = true →
      ((inp.endCols r.1).map fun c => tau c * (dir r.1 c).x).sum = (vel r.1).x ∧
      ((inp.endCols r.1).map fun c => tau c * (dir r.1 c).y).sum = (vel r.1).y)
    (hnn : ∀ c < inp.build.used.length, 0 ≤ tau c)
    (hsum : (tauVec inp.build.used.length tau).sum = (inp.build.used.length : Rat))
    (hy : y.length = inp.build.used.length + 1)
    (hinj : ∀ x x' : List Rat, x.length = inp.build.used.length + 1 → x'.length = inp.build.used.length + 1 →
      mulVec (addMeanOne (normalisedMatrix inp len) (velocityRhs inp vel)).1 x
        = mulVec (addMeanOne (normalisedMatrix inp len) (velocityRhs inp vel)).1 x' →
      x = x')
    (hmin : ∀ x : List Rat, x.length = inp.build.used.length + 1 → (∀ v ∈ x, 0 ≤ v) →
      residSq (addMeanOne (normalisedMatrix inp len) (velocityRhs inp vel)).1
          (addMeanOne (normalisedMatrix inp len) (velocityRhs inp vel)).2 y
        ≤ residSq (addMeanOne (normalisedMatrix inp len) (velocityRhs inp vel)).1
          (addMeanOne (normalisedMatrix inp len) (velocityRhs inp vel)).2 x) :
    (∀ c < inp.build.used.length, y[c]? = some (tau c)) ∧ y[inp.build.used.length]? = some 0 := by
  rw [dynamic_inference_recovers_tensions inp len dir tau vel y hk hnorm htrue hdyn hnn hsum hy hinj hmin]
  constructor
  · intro c hc
    rw [List.getElem?_append_left (by simp [tauVec, hc])]
    simp [tauVec, List.getElem?_range hc]
  · rw [List.getElem?_append_right (by simp [tauVec])]
    simp [tauVec]

/-- the injectivity hypothesis (d) is the one of the static case: the augmented matrix does not depend on the
    right-hand side -/
theorem dynamic_injective_iff_static (inp : FMInput) (len : Id → Nat → Rat) (vel : Id → Vec) :
    (addMeanOne (normalisedMatrix inp len) (velocityRhs inp vel)).1
      = (addMeanOne (normalisedMatrix inp len) (List.replicate (normalisedMatrix inp len).length 0)).1 :=
  addMeanOne_fst _ _ _

/-! ### time-step independence -/

/-- Time-step independence in the model.  Let the kept junctions move by the displacement `d v = Δt • vel v` over a
    step of length `Δt > 0` (what a series sampled every `Δt` records for junctions moving with velocity `vel`).  Then
    the finite-difference velocities `(1/Δt) • d v` give the right-hand side of `vel`, whatever `Δt` is; and dividing the
    placed displacements by `Δt` afterwards is the same (`placeVelocities_smul`, C13). -/
theorem dynamic_rhs_scaling (inp : FMInput) (vel d : Id → Vec) (Δt : Rat) (hΔ : 0 < Δt)
    (hd : ∀ r ∈ inp.build.rows, r.2.1 = true → d r.1 = Vec.smul Δt (vel r.1)) :
    velocityRhs inp (fun v => Vec.smul (1 / Δt) (d v)) = velocityRhs inp vel ∧
    (velocityRhs inp d).map ((1 / Δt) * ·) = velocityRhs inp vel := by
  have hne : Δt ≠ 0 := ne_of_gt hΔ
  have h1 : velocityRhs inp (fun v => Vec.smul (1 / Δt) (d v)) = velocityRhs inp vel := by
    apply velocityRhs_congr
    intro r hr hk
    rw [hd r hr hk]
    simp only [Vec.smul]
    congr 1 <;> field_simp
  exact ⟨h1, by rw [← velocityRhs_smul, h1]⟩

/-- two series of the same motion sampled with different step lengths give the same right-hand side, hence (the matrix
    does not depend on the series at all) the same system and the same recovered tensions -/
theorem dynamic_rhs_step_independent (inp : FMInput) (vel d₁ d₂ : Id → Vec) (Δt₁ Δt₂ : Rat)
    (h₁ : 0 < Δt₁) (h₂ : 0 < Δt₂)
    (hd₁ : ∀ r ∈ inp.build.rows, r.2.1 = true → d₁ r.1 = Vec.smul Δt₁ (vel r.1))
    (hd₂ : ∀ r ∈ inp.build.rows, r.2.1 = true → d₂ r.1 = Vec.smul Δt₂ (vel r.1)) :
    velocityRhs inp (fun v => Vec.smul (1 / Δt₁) (d₁ v)) = velocityRhs inp (fun v => Vec.smul (1 / Δt₂) (d₂ v)) := by
  rw [(dynamic_rhs_scaling inp vel d₁ Δt₁ h₁ hd₁).1, (dynamic_rhs_scaling inp vel d₂ Δt₂ h₂ hd₂).1]

/-! ### non-vacuity: the lens tissue of Props/C01matrix.lean, out of static balance

  Same tissue `balInp`, norms `balLen`, true unit directions `balDir`.  Tensions (1, 1, 1, 1) (sum 4 = number of
  unknowns, mean one) do NOT balance the junctions: the net pull at junction 0 is
  (3/5, 4/5) + (1, 0) + (−4/5, −3/5) = (4/5, 1/5), at junction 1 it is (−3/5, 4/5) + (−1, 0) + (4/5, −3/5) = (−4/5, 1/5).
  These are the junction velocities. -/

/-- true tensions, mean one -/
def dynTau : Nat → Rat := fun _ => 1

/-- junction velocities = net pulls -/
def dynVel : Id → Vec := fun v => if v = 0 then ⟨4/5, 1/5⟩ else ⟨-4/5, 1/5⟩

/-- what the model computes: the right-hand side of the lens, which is not zero, and the product `A τ` -/
example : velocityRhs balInp dynVel = [4/5, 1/5, -4/5, 1/5] ∧
    mulVec (normalisedMatrix balInp balLen) [1, 1, 1, 1] = [4/5, 1/5, -4/5, 1/5] ∧
    tauVec balInp.build.used.length dynTau = [1, 1, 1, 1] := by
  decide +kernel

/-- the tensions (1, 1, 1, 1) are not in static balance on the lens -/
example : ¬ (∀ r ∈ balInp.build.rows, r.2.1 = true →
      ((balInp.endCols r.1).map fun c => dynTau c * (balDir r.1 c).x).sum = 0 ∧
      ((balInp.endCols r.1).map fun c => dynTau c * (balDir r.1 c).y).sum = 0) := by
  decide +kernel

/-- hypotheses (b) `hdyn`, (c) `hnn`, `hsum` hold on the lens with non-zero velocities ((a) is `bal_hypotheses`) -/
theorem dyn_hypotheses :
    (∀ r ∈ balInp.build.rows, r.2.1 = true →
      ((balInp.endCols r.1).map fun c => dynTau c * (balDir r.1 c).x).sum = (dynVel r.1).x ∧
      ((balInp.endCols r.1).map fun c => dynTau c * (balDir r.1 c).y).sum = (dynVel r.1).y) ∧
    (∀ c < balInp.build.used.length, 0 ≤ dynTau c) ∧
    (tauVec balInp.build.used.length dynTau).sum = (balInp.build.used.length : Rat) ∧
    (∃ r ∈ balInp.build.rows, r.2.1 = true ∧ dynVel r.1 ≠ ⟨0, 0⟩) := by
  decide +kernel

/-- hypothesis (d) for the dynamic system of the lens: `bal_injective`, the matrix being the same -/
theorem dyn_injective : ∀ x x' : List Rat, x.length = balInp.build.used.length + 1 →
    x'.length = balInp.build.used.length + 1 →
    mulVec (addMeanOne (normalisedMatrix balInp balLen) (velocityRhs balInp dynVel)).1 x
      = mulVec (addMeanOne (normalisedMatrix balInp balLen) (velocityRhs balInp dynVel)).1 x' → x = x' := by
  rw [dynamic_injective_iff_static]
  exact bal_injective

/-- `assembled_dynamic_balance` instantiated: the assembled system of the lens maps (1, 1, 1, 1) to the velocities -/
example : mulVec (normalisedMatrix balInp balLen) (tauVec balInp.build.used.length dynTau)
    = velocityRhs balInp dynVel :=
  assembled_dynamic_balance balInp balLen balDir dynTau dynVel bal_hypotheses.2.1 bal_hypotheses.2.2.1
    dyn_hypotheses.1

/-- all hypotheses of `dynamic_inference_recovers_tensions` hold together on the lens with `y` = (1, 1, 1, 1, 0) as a
    minimiser -/
example :
    tauVec balInp.build.used.length dynTau ++ [0] = [1, 1, 1, 1, 0] ∧
    (∀ x : List Rat, x.length = balInp.build.used.length + 1 → (∀ v ∈ x, 0 ≤ v) →
      residSq (addMeanOne (normalisedMatrix balInp balLen) (velocityRhs balInp dynVel)).1
          (addMeanOne (normalisedMatrix balInp balLen) (velocityRhs balInp dynVel)).2 [1, 1, 1, 1, 0]
        ≤ residSq (addMeanOne (normalisedMatrix balInp balLen) (velocityRhs balInp dynVel)).1
          (addMeanOne (normalisedMatrix balInp balLen) (velocityRhs balInp dynVel)).2 x) := by
  have h0 : tauVec balInp.build.used.length dynTau ++ [0] = [1, 1, 1, 1, 0] := by decide +kernel
  refine ⟨h0, ?_⟩
  intro x _ _
  have := assembled_dynamic_truth_solves balInp balLen balDir dynTau dynVel bal_hypotheses.1 bal_hypotheses.2.1
    bal_hypotheses.2.2.1 dyn_hypotheses.1 dyn_hypotheses.2.2.1
  rw [h0] at this
  rw [this]
  exact residSq_nonneg _ _ _

/-- `dynamic_inference_recovers_tensions` applied on the lens: whatever the solver returns as a non-negative
    least-squares minimiser is (1, 1, 1, 1, 0) -/
example (y : List Rat) (hy : y.length = balInp.build.used.length + 1)
    (hmin : ∀ x : List Rat, x.length = balInp.build.used.length + 1 → (∀ v ∈ x, 0 ≤ v) →
      residSq (addMeanOne (normalisedMatrix balInp balLen) (velocityRhs balInp dynVel)).1
          (addMeanOne (normalisedMatrix balInp balLen) (velocityRhs balInp dynVel)).2 y
        ≤ residSq (addMeanOne (normalisedMatrix balInp balLen) (velocityRhs balInp dynVel)).1
          (addMeanOne (normalisedMatrix balInp balLen) (velocityRhs balInp dynVel)).2 x) :
    y = tauVec balInp.build.used.length dynTau ++ [0] :=
  dynamic_inference_recovers_tensions balInp balLen balDir dynTau dynVel y bal_hypotheses.1 bal_hypotheses.2.1
    bal_hypotheses.2.2.1 dyn_hypotheses.1 dyn_hypotheses.2.1 dyn_hypotheses.2.2.1 hy dyn_injective hmin

/-- the mean-one hypothesis `hsum` cannot be dropped: the tensions (2, 2, 2, 2) with the doubled velocities satisfy
    (a), (b), (d) and non-negativity on the lens, but (2, 2, 2, 2, 0) does not solve the augmented system (its last
    equation reads 8 = 4) -/
theorem dynamic_truth_needs_mean_one_witness :
    (∀ r ∈ balInp.build.rows, r.2.1 = true →
      ((balInp.endCols r.1).map fun c => (2 : Rat) * (balDir r.1 c).x).sum = (Vec.smul 2 (dynVel r.1)).x ∧
      ((balInp.endCols r.1).map fun c => (2 : Rat) * (balDir r.1 c).y).sum = (Vec.smul 2 (dynVel r.1)).y) ∧
    residSq (addMeanOne (normalisedMatrix balInp balLen) (velocityRhs balInp fun v => Vec.smul 2 (dynVel v))).1
      (addMeanOne (normalisedMatrix balInp balLen) (velocityRhs balInp fun v => Vec.smul 2 (dynVel v))).2
      [2, 2, 2, 2, 0] = 16 := by
  decide +kernel

/-- `dynamic_rhs_scaling` on the lens: the displacements over a step of length 1/2 and over a step of length 3 -/
example : velocityRhs balInp (fun v => Vec.smul (1 / (1/2)) (Vec.smul (1/2) (dynVel v))) = velocityRhs balInp dynVel ∧
    velocityRhs balInp (fun v => Vec.smul (1 / 3) (Vec.smul 3 (dynVel v))) = velocityRhs balInp dynVel :=
  ⟨(dynamic_rhs_scaling balInp dynVel (fun v => Vec.smul (1/2) (dynVel v)) (1/2) (by decide +kernel)
      (fun _ _ _ => rfl)).1,
   (dynamic_rhs_scaling balInp dynVel (fun v => Vec.smul 3 (dynVel v)) 3 (by decide +kernel) (fun _ _ _ => rfl)).1⟩

/-- … and what the model computes from the displacements directly -/
example : velocityRhs balInp (fun v => Vec.smul (1/2) (dynVel v)) = [2/5, 1/10, -2/5, 1/10] ∧
    (velocityRhs balInp (fun v => Vec.smul (1/2) (dynVel v))).map ((1 / (1/2) : Rat) * ·) = [4/5, 1/5, -4/5, 1/5] := by
  decide +kernel

/- PENDING (not proved here; hypotheses of the theorems above):
   * `hnorm`/`htrue` for all kept junctions of a tissue of exact arcs / lines (as in Props/C01matrix.lean);
   * a criterion for hypothesis (d) (`hinj`) in terms of the tissue graph;
   * that the solver delivers a non-negative least-squares minimiser (`hmin`; certified per run by the KKT checker, C05);
   * floating point: the code rounds the right-hand side to three decimals (`nnls_nonexpansive`, `rounding_bound` of
     Props/C03.lean bound the effect on the fit, not on `y` itself) and stores IEEE doubles;
   * `hdyn` with `vel` the TRUE junction velocity: the code uses the finite difference of C13
     (`velocity_forward`/`velocity_backward`), which equals the true velocity only for motion that is uniform over the
     step (`dynamic_rhs_scaling` is that case); the discretisation error for other motions is not bounded here;
   * the independence of the numbering is the subject of the harness (metamorphic relabelling, props/c03.py) and, for
     the assembly, of C02/C11; no model theorem "relabelling the mesh permutes `y`" is proved here.
-/

end Forsys
