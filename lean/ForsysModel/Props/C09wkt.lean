/-
  Property C09, WKT parser — `wkt.create_lattice` (model: ForsysModel/Model/Wkt.lean) yields a consistent
  vertex–edge–cell mesh.

  All theorems are stated for an arbitrary flip function `flip : Rat → Rat` in the place of the floating
  `1024 - y` (so they cover the rounded subtraction); `lattice = latticeWith (1024 - ·)` is the exact case.

    for all rows (no hypothesis), whenever the run completes (`= .ok m`):
      wkt_keys                vertices, mesh edges and cells are numbered 0, 1, 2, … in creation order, one cell per row
      wkt_vertices_injective  no two vertices have the same stored position (vertex identification works, id 0 included)
      wkt_edges_proper        no mesh edge joins a vertex to itself
      wkt_edges_unique        no two mesh edges join the same pair of vertices (in either direction)
      wkt_cell_cycles         every cell's cycle, read back as positions, is its row with y flipped
    consistency:
      wkt_ok_of_wf            well-formed rows (≥ 2 pairs, no repeated position): neither assertion fires
      wkt_consistent          rows without repeated position, run completes ⇒ `Consistent`
      wkt_consistent_iff      … and that hypothesis is necessary: `Consistent` ⇔ no row repeats a position
      wkt_wf_consistent       well-formed rows ⇒ completes with a consistent mesh
      wkt_consistent_exact    the same for the exact flip, hypothesis on the raw coordinates
      wkt_consistent_witness  a ring touching itself (repeated coordinate) completes with a cell repeating a vertex
      wkt_error_witness       both exceptions of the implementation are reachable outside `WF` (one pair / no pair in a row)
-/
import ForsysModel.Model.Wkt
import ForsysModel.Props.C09
import ForsysModel.Proofs.C09wktShape
import ForsysModel.Proofs.C09wktCons
import ForsysModel.Proofs.C09wktIff

namespace Forsys.Wkt
open Mesh

/-- numbering: `vertices`, `edges`, `cells` are keyed 0, 1, 2, … in insertion order; every vertex is stored
    under its own id; there is exactly one cell per row -/
theorem wkt_keys (flip : Rat → Rat) (rs : List (List Pt)) (m : Mesh) (h : latticeWith flip rs = .ok m) :
    m.vertices.map (·.1) = (List.range m.vertices.length).map (fun (i : Nat) => (i : Int)) ∧
    (∀ p ∈ m.vertices, p.2.id = p.1) ∧
    m.edges.map (·.1) = (List.range m.edges.length).map (fun (i : Nat) => (i : Int)) ∧
    m.cells.map (·.1) = (List.range rs.length).map (fun (i : Nat) => (i : Int)) :=
  wkt_keys' flip rs m h

/-- vertex identification: two stored vertices with the same position are the same vertex -/
theorem wkt_vertices_injective (flip : Rat → Rat) (rs : List (List Pt)) (m : Mesh)
    (h : latticeWith flip rs = .ok m) :
    ∀ p ∈ m.vertices, ∀ q ∈ m.vertices, p.2.x = q.2.x → p.2.y = q.2.y → p.1 = q.1 :=
  wkt_vertices_injective' flip rs m h

theorem wkt_edges_proper (flip : Rat → Rat) (rs : List (List Pt)) (m : Mesh)
    (h : latticeWith flip rs = .ok m) :
    ∀ e ∈ m.edges, e.2.v1 ≠ e.2.v2 :=
  wkt_edges_proper' flip rs m h

/-- the `edArr` test: no two mesh edges join the same pair of vertices, in either direction -/
theorem wkt_edges_unique (flip : Rat → Rat) (rs : List (List Pt)) (m : Mesh)
    (h : latticeWith flip rs = .ok m) :
    ∀ e ∈ m.edges, ∀ f ∈ m.edges,
      ((e.2.v1 = f.2.v1 ∧ e.2.v2 = f.2.v2) ∨ (e.2.v1 = f.2.v2 ∧ e.2.v2 = f.2.v1)) → e.1 = f.1 :=
  wkt_edges_unique' flip rs m h

/-- every cell's vertex cycle is its row mapped through the interning: read back as positions it is the row's
    coordinate list with y flipped, in the row's order -/
theorem wkt_cell_cycles (flip : Rat → Rat) (rs : List (List Pt)) (m : Mesh)
    (h : latticeWith flip rs = .ok m) :
    m.cells.map (fun c => c.2.verts.map m.pt) = rs.map (fun r => r.map (flipPt flip)) :=
  wkt_cell_cycles' flip rs m h

/-- well-formed rows: `create_lattice` completes (neither `SmallEdge`'s assertion nor the empty cell) -/
theorem wkt_ok_of_wf (flip : Rat → Rat) (rs : List (List Pt)) (h : WF flip rs) :
    ∃ m, latticeWith flip rs = .ok m :=
  wkt_ok_of_wf' flip rs h

/-- if no row repeats a stored position and the run completes, the lattice is a consistent mesh -/
theorem wkt_consistent (flip : Rat → Rat) (rs : List (List Pt)) (m : Mesh)
    (hnd : ∀ r ∈ rs, (r.map (flipPt flip)).Nodup) (h : latticeWith flip rs = .ok m) :
    m.Consistent = true :=
  (consistent_iff m).mpr (wkt_consP' flip rs m hnd h)

theorem wkt_wf_consistent (flip : Rat → Rat) (rs : List (List Pt)) (h : WF flip rs) :
    ∃ m, latticeWith flip rs = .ok m ∧ m.Consistent = true := by
  obtain ⟨m, hm⟩ := wkt_ok_of_wf flip rs h
  exact ⟨m, hm, wkt_consistent flip rs m (fun r hr => (h r hr).2) hm⟩

/-- the hypothesis of `wkt_consistent` is necessary: a completed lattice is consistent exactly when no row repeats a
    stored position.  (The unconditional statement `latticeWith flip rs = .ok m → m.Consistent = true` is false:
    `wkt_consistent_witness`.) -/
theorem wkt_consistent_iff (flip : Rat → Rat) (rs : List (List Pt)) (m : Mesh)
    (h : latticeWith flip rs = .ok m) :
    m.Consistent = true ↔ ∀ r ∈ rs, (r.map (flipPt flip)).Nodup :=
  wkt_consistent_iff' flip rs m h

/-- the exact flip `1024 - y`: rows with at least two pairs and no repeated coordinate pair give a consistent mesh -/
theorem wkt_consistent_exact (rs : List (List Pt)) (h : ∀ r ∈ rs, 2 ≤ r.length ∧ r.Nodup) :
    ∃ m, lattice rs = .ok m ∧ m.Consistent = true :=
  wkt_wf_consistent flip1024 rs (fun r hr => ⟨(h r hr).1, nodup_map_of_inj_on _ _ (fun _ _ _ _ e => flipPt_exact_inj e) (h r hr).2⟩)

/-- Boolean view of a result, for closed examples (`Mesh` has no decidable equality) -/
def okAnd (r : Except Err Mesh) (p : Mesh → Bool) : Bool :=
  match r with
  | .ok m => p m
  | .error _ => false

def errIs (r : Except Err Mesh) (e : Err) : Bool :=
  match r with
  | .ok _ => false
  | .error e' => e' == e

theorem okAnd_spec {r : Except Err Mesh} {p : Mesh → Bool} (h : okAnd r p = true) : ∃ m, r = .ok m ∧ p m = true := by
  cases r with
  | ok m => exact ⟨m, rfl, h⟩
  | error e => simp [okAnd] at h

theorem errIs_spec {r : Except Err Mesh} {e : Err} (h : errIs r e = true) : r = .error e := by
  cases r with
  | ok m => simp [errIs] at h
  | error e' => simp only [errIs, beq_iff_eq] at h; rw [h]

/-- a ring that touches itself — `POLYGON ((0 0, 10 0, 10 10, 0 0, -5 5, 0 0))`, replayed on the real code by
    corpus/C09/wkt_pinched_ring.json — completes, and its cell repeats vertex 0: clause (4) of C09 fails -/
theorem wkt_consistent_witness :
    ∃ m, lattice [[⟨0, 0⟩, ⟨10, 0⟩, ⟨10, 10⟩, ⟨0, 0⟩, ⟨-5, 5⟩]] = .ok m ∧ m.Consistent = false ∧
      m.cells.map (·.2.verts) = [[0, 1, 2, 0, 3]] ∧ m.failing = ["cellsNodup"] := by
  obtain ⟨m, hm, hp⟩ := okAnd_spec (p := fun m => !m.Consistent && m.cells.map (·.2.verts) == [[0, 1, 2, 0, 3]]
      && m.failing == ["cellsNodup"]) (r := lattice [[⟨0, 0⟩, ⟨10, 0⟩, ⟨10, 10⟩, ⟨0, 0⟩, ⟨-5, 5⟩]]) (by decide +kernel)
  simp only [Bool.and_eq_true, Bool.not_eq_true', beq_iff_eq] at hp
  exact ⟨m, hm, hp.1.1, hp.1.2, hp.2⟩

/-- both assertions of the implementation are reachable outside `WF`: one coordinate pair, no coordinate pair -/
theorem wkt_error_witness :
    lattice [[⟨1, 2⟩]] = .error (.sameVertexTwice 0) ∧ lattice [[]] = .error (.emptyCell 0) :=
  ⟨errIs_spec (by decide +kernel), errIs_spec (by decide +kernel)⟩

/-! non-vacuity: two triangles sharing an edge, the second starting at the vertex with id 0; the hypotheses of
    `wkt_wf_consistent` / `wkt_consistent_exact` hold and the lattice has 4 vertices, 5 mesh edges, 2 cells -/
example : WF flip1024 [[⟨0, 0⟩, ⟨10, 0⟩, ⟨10, 10⟩], [⟨0, 0⟩, ⟨10, 10⟩, ⟨0, 10⟩]] := by decide +kernel

example : ∀ r ∈ ([[⟨0, 0⟩, ⟨10, 0⟩, ⟨10, 10⟩], [⟨0, 0⟩, ⟨10, 10⟩, ⟨0, 10⟩]] : List (List Pt)), 2 ≤ r.length ∧ r.Nodup := by
  decide +kernel

example : okAnd (lattice [[⟨0, 0⟩, ⟨10, 0⟩, ⟨10, 10⟩], [⟨0, 0⟩, ⟨10, 10⟩, ⟨0, 10⟩]]) (fun m =>
    m.vertices.length == 4 && m.edges.length == 5 && m.cells.map (·.2.verts) == [[0, 1, 2], [0, 2, 3]] && m.Consistent) = true := by
  decide +kernel

end Forsys.Wkt
