/-
  Property C16 — angle-limit exclusion drops exactly the flagged interfaces and solves the rest.
  Model: ForsysModel/Model/FMatrix.lean (get_angle_limited_edges → `deletes`, `used`;
  get_solution_no_discarded → `realign`; the opening-angle test `cosLe`).
-/
import ForsysModel.Model.FMatrix
import ForsysModel.Proofs.C16

namespace Forsys

/-- Lagrange's identity in the plane -/
theorem dot_sq_add_cross_sq (a b : Vec) :
    Vec.dot a b * Vec.dot a b + (a.x * b.y - a.y * b.x) * (a.x * b.y - a.y * b.x) = a.normSq * b.normSq := by
  exact C16.lagrange a b

/-- the square-root-free test decides `cos ∠(a,b) ≤ c`, i.e. `a·b ≤ c·‖a‖‖b‖` (`s` is any non-negative number
    with `s² = ‖a‖²‖b‖²`, i.e. `s = ‖a‖‖b‖`) -/
theorem cosLe_spec (a b : Vec) (c s : Rat) (hs : 0 ≤ s) (hss : s * s = a.normSq * b.normSq) :
    cosLe a b c = true ↔ Vec.dot a b ≤ c * s := by
  exact C16.spec a b c s hs hss

/-- with the default limit π (`cos = −1`) a pair reaches the limit iff it is exactly antiparallel (finding D15:
    "nothing is excluded with the default limit" fails exactly for such pairs) -/
theorem cosLe_neg_one_iff (a b : Vec) :
    cosLe a b (-1) = true ↔ Vec.dot a b ≤ 0 ∧ a.x * b.y - a.y * b.x = 0 := by
  exact C16.neg_one a b

theorem cosLe_antiparallel_witness : cosLe ⟨1, 0⟩ ⟨-2, 0⟩ (-1) = true ∧ cosLe ⟨1, 0⟩ ⟨-2, 1⟩ (-1) = false := by
  constructor <;> decide +kernel

/-- monotone in the limit: a pair that reaches a limit also reaches every smaller limit (larger cosine) -/
theorem cosLe_mono (a b : Vec) (c c' : Rat) (h : c ≤ c') (hc : cosLe a b c = true) : cosLe a b c' = true := by
  exact C16.mono a b c c' h hc

/-- without a limit (`np.inf`) no junction is flagged and nothing is excluded -/
theorem deletes_no_limit (inp : FMInput) (earr : List (List Id)) (h : inp.cosLimit = none) :
    inp.deletes earr = [] := by
  simp [FMInput.deletes, FMInput.exceeds, h]

/-- an internal interface is excluded exactly when both of its end junctions are flagged; the others keep their order -/
theorem used_eq_filter (inp : FMInput) (earr : List (List Id)) :
    inp.used earr = ((inp.mesh.internalIdx earr).map fun i => earr.getD i []).filter
      fun e => !(FMInput.bothDeleted (inp.deletes earr) e) := by
  rfl

theorem used_sublist (inp : FMInput) (earr : List (List Id)) :
    (inp.used earr).Sublist ((inp.mesh.internalIdx earr).map fun i => earr.getD i []) := by
  rw [used_eq_filter]; exact List.filter_sublist

/-- a junction is flagged iff it is an end of an internal interface and some pair of directions there reaches the limit -/
theorem mem_deletes (inp : FMInput) (earr : List (List Id)) (v : Id) :
    v ∈ inp.deletes earr ↔
      v ∈ FMInput.endsOf ((inp.mesh.internalIdx earr).map fun i => earr.getD i []) ∧ inp.exceeds earr v = true := by
  simp [FMInput.deletes, List.mem_filter]

/-! ### re-alignment of the solution with the full list of internal interfaces -/

def excludedCount (internal : List (List Id)) (del : List Id) : Nat :=
  (internal.filter fun e => FMInput.bothDeleted del e).length

theorem realign_length (internal : List (List Id)) (del : List Id) (x : List Rat)
    (h : x.length + excludedCount internal del = internal.length) :
    (realign internal del x).length = internal.length := by
  unfold realign
  split
  · omega
  · exact C16.go_length del internal x

/-- excluded interfaces are reported as −1 at their own position … -/
theorem realign_excluded (internal : List (List Id)) (del : List Id) (x : List Rat)
    (h : x.length + excludedCount internal del = internal.length) (i : Nat) (hi : i < internal.length)
    (hex : FMInput.bothDeleted del (internal.getD i []) = true) :
    (realign internal del x).getD i 0 = -1 := by
  unfold realign
  split
  · rename_i hl
    exfalso
    have h0 : excludedCount internal del = 0 := by omega
    have hnil := List.eq_nil_of_length_eq_zero h0
    rw [List.filter_eq_nil_iff] at hnil
    have hm : internal.getD i [] ∈ internal := by
      have : internal.getD i [] = internal[i] := by simp [hi]
      rw [this]; exact List.getElem_mem hi
    exact hnil _ hm hex
  · exact C16.go_excluded del internal x i hi hex

/-- … and the remaining positions hold the solution of the restricted system, in order -/
theorem realign_kept (internal : List (List Id)) (del : List Id) (x : List Rat)
    (h : x.length + excludedCount internal del = internal.length) :
    ((List.zip internal (realign internal del x)).filter fun p => !(FMInput.bothDeleted del p.1)).map (·.2) = x := by
  unfold realign
  split
  · rename_i hl
    exact C16.zip_filter_all del internal x hl.symm (by unfold excludedCount at h; omega)
  · exact C16.go_kept del internal x h

theorem realign_no_exclusion (internal : List (List Id)) (x : List Rat) (h : x.length = internal.length) :
    realign internal [] x = x := by
  simp [realign, h]

/-! non-vacuity -/
-- hypotheses of `cosLe_spec` (`s = ‖a‖‖b‖ = 5`) and of `cosLe_mono`
example : (0 : Rat) ≤ 5 ∧ (5 : Rat) * 5 = (Vec.normSq ⟨3, 4⟩) * (Vec.normSq ⟨1, 0⟩) := by decide +kernel
example : (-1 : Rat) ≤ 0 ∧ cosLe ⟨1, 0⟩ ⟨-2, 0⟩ (-1) = true := by decide +kernel
-- hypotheses of `realign_length` / `realign_excluded` / `realign_kept` (two solved values, one excluded interface)
example : ([5, 7] : List Rat).length + excludedCount [[1, 2], [2, 3], [3, 1]] [2, 3] = [[1, 2], [2, 3], [3, 1]].length ∧
    FMInput.bothDeleted [2, 3] (([[1, 2], [2, 3], [3, 1]] : List (List Id)).getD 1 []) = true := by decide +kernel
example : realign [[1, 2], [2, 3], [3, 1]] [2, 3] [5, 7] = [5, -1, 7] := by decide +kernel
example : excludedCount [[1, 2], [2, 3], [3, 1]] [2, 3] = 1 := by decide

end Forsys
