/-
  Property C01, matrix part — the link between the assembled matrix (C02) and the recovery theorem (Props/C01.lean):
  the system the MODEL assembles, evaluated at the true tensions of a tissue in force balance, is in balance, and
  therefore static inference reports true tension / mean true tension.

  Model: `FMInput.build` (ForsysModel/Model/FMatrix.lean = ForceMatrix._build_matrix / get_vertex_equation), whose
  entries are identified by `coefficient_placement` (Props/C02matrix.lean) as the un-normalised vectors
  `get_vector_from_vertex` (`vectorFromVertex`, Model/Tangent.lean); `addMeanOne`, `mulVec`, `residSq`
  (Model/FMatrix.lean, Model/Solve.lean) and the theorems `truth_solves`, `recover` of Props/C01.lean.

  Square roots.  The code stores `w / np.linalg.norm(w)` for a placed vector `w`; the model has no square root.
  The norm enters as a parameter `len : Id → Nat → Rat` (junction, column) with the hypothesis `hnorm`:
  `0 < len v c` and `(len v c)² = ‖w‖²` for the vector `w` the model places at `(v, c)`.  The stored coefficient is then
  `w / len v c`.  That the real code's `np.linalg.norm` returns this number (up to rounding) is the trusted IEEE
  step, compared per run by the harness (props/c02.py `compare`: `|v/√(v·v) − M[r, col]| ≤ 1e-9`).
  The hypothesis also says that no placed vector vanishes (the code would divide by zero).

  Vocabulary (defined in Proofs/C01matrix.lean, namespace `Forsys.FMInput`):
    `tangentAt inp c v`        the model's `get_vector_from_vertex` of the interface of column `c` at junction `v`
                               (`vectorFromVertex` on the interface's ids, points and fitted centre — the expression of
                               `coefficient_placement`)
    `endCols inp v`            the columns whose interface ends at `v` (first or last vertex), in column order
    `unitX ℓ o`, `unitY ℓ o`   stored coefficient of an entry pair `o`: `some w ↦ w.x / ℓ` (`w.y / ℓ`), `none ↦ 0`
    `rowX inp len r`, `rowY …` x-row / y-row of the candidate junction row `r` of `inp.build.rows`
    `normalisedMatrix inp len` `ForceMatrix.matrix`: for every kept junction, in the order of `tj_vertices`
                               (= `inp.build.rows` filtered by the keep flag), the x-row then the y-row
                               (`mat[position_index] = row_x; mat[position_index + 1] = row_y`)
    `tauVec n tau`             `[tau 0, …, tau (n-1)]`
    `meanTension n tau`        `(Σ_{c<n} tau c) / n`
    `normalisedTensions n tau` `[tau c / meanTension n tau | c < n]`

  Hypotheses used below, for the junction rows `r ∈ inp.build.rows` with keep flag `r.2.1 = true`, the columns
  `c < inp.build.used.length` and only where interface `c` ends at the junction `r.1`:
    `hnorm`  `len` is the norm of the placed vector (see above);
    `htrue`  the placed vector is `len r.1 c • dir r.1 c` for the TRUE direction `dir v c` of interface `c` at `v`.
             For exact arcs/lines this is what Props/C02.lean provides: `tangentVecDot_perp/_normSq/_along/_unique`
             (the reference tangent is the tangent of the circle, as long as the radius, pointing along the interface),
             `tangentVec_eq_dot_partial` (the coded sign rule agrees with it under the sign-agreement hypothesis —
             finding D2 is the case where it does not), `vectorFromVertex_two_points` (chord of a two-point interface);
    `hbal`   force balance at the junction: `Σ_{c ends at v} tau c • dir v c = 0`, both components.
-/
import ForsysModel.Proofs.C01matrix
import ForsysModel.Props.C02

namespace Forsys
open FMInput

/-! ### the normalised assembled matrix -/

/-- two rows per kept junction, one column per used interface: `A` is `m × n` with `m = 2·#kept junctions`,
    `n = #unknowns` -/
theorem assembled_shape (inp : FMInput) (len : Id → Nat → Rat) :
    (normalisedMatrix inp len).length = 2 * (inp.build.rows.filter fun r => r.2.1).length ∧
    Shaped (normalisedMatrix inp len) (List.replicate (normalisedMatrix inp len).length 0)
      (normalisedMatrix inp len).length inp.build.used.length :=
  ⟨normalisedMatrix_length inp len, normalisedMatrix_shaped inp len⟩

/-- every row of the matrix is the x-row or the y-row of a kept junction, and every kept junction contributes both -/
theorem assembled_rows (inp : FMInput) (len : Id → Nat → Rat) (row : List Rat) :
    row ∈ normalisedMatrix inp len ↔
      ∃ r ∈ inp.build.rows, r.2.1 = true ∧ (row = rowX inp len r ∨ row = rowY inp len r) := by
  simp only [normalisedMatrix, List.mem_flatMap, List.mem_filter, List.mem_cons, List.not_mem_nil, or_false]
  constructor
  · rintro ⟨r, ⟨hr, hk⟩, h⟩; exact ⟨r, hr, hk, h⟩
  · rintro ⟨r, hr, hk, h⟩; exact ⟨r, ⟨hr, hk⟩, h⟩

/-- the stored coefficients: in column `c` of the row pair of a kept junction stands the model tangent of interface `c`
    divided by `len` when the interface ends at the junction, and zero otherwise -/
theorem assembled_entries (inp : FMInput) (len : Id → Nat → Rat)
    (r : Id × Bool × List (Option Vec)) (hr : r ∈ inp.build.rows) (hk : r.2.1 = true)
    (c : Nat) (hc : c < inp.build.used.length) :
    (rowX inp len r)[c]? = some (if endsAt (inp.build.used.getD c []) r.1 = true
      then unitX (len r.1 c) (inp.tangentAt c r.1) else 0) ∧
    (rowY inp len r)[c]? = some (if endsAt (inp.build.used.getD c []) r.1 = true
      then unitY (len r.1 c) (inp.tangentAt c r.1) else 0) := by
  simp only [rowX, rowY, List.getElem?_map, List.getElem?_range hc, Option.map_some,
    kept_entry inp r hr hk c hc]
  constructor <;> split <;> rfl

/-- with `len` the norm (`hnorm`) and the placed vector a positive multiple of the true direction (`htrue`), the true
    direction is a unit vector and the stored coefficients ARE its components: the normalised assembled matrix holds the
    true unit tangents -/
theorem assembled_unit_directions (inp : FMInput) (len : Id → Nat → Rat) (dir : Id → Nat → Vec)
    (r : Id × Bool × List (Option Vec)) (hr : r ∈ inp.build.rows) (hk : r.2.1 = true)
    (c : Nat) (hc : c < inp.build.used.length) (he : endsAt (inp.build.used.getD c []) r.1 = true)
    (hnorm : 0 < len r.1 c ∧ (inp.tangentAt c r.1).map Vec.normSq = some ((len r.1 c) ^ 2))
    (htrue : inp.tangentAt c r.1 = some (Vec.smul (len r.1 c) (dir r.1 c))) :
    (dir r.1 c).normSq = 1 ∧
    (rowX inp len r)[c]? = some (dir r.1 c).x ∧ (rowY inp len r)[c]? = some (dir r.1 c).y := by
  obtain ⟨hpos, hn⟩ := hnorm
  refine ⟨?_, ?_, ?_⟩
  · rw [htrue] at hn
    simp only [Option.map_some, Option.some.injEq, Vec.normSq, Vec.smul] at hn
    have hl : (len r.1 c) ^ 2 ≠ 0 := pow_ne_zero 2 (ne_of_gt hpos)
    have : (len r.1 c) ^ 2 * (dir r.1 c).normSq = (len r.1 c) ^ 2 * 1 := by
      simp only [Vec.normSq]; linear_combination hn
    exact mul_left_cancel₀ hl this
  · have := (unit_entry inp len dir r hr hk c hc (fun _ => hpos) (fun _ => htrue)).1
    simp only [rowX, List.getElem?_map, List.getElem?_range hc, Option.map_some, this, if_pos he]
  · have := (unit_entry inp len dir r hr hk c hc (fun _ => hpos) (fun _ => htrue)).2
    simp only [rowY, List.getElem?_map, List.getElem?_range hc, Option.map_some, this, if_pos he]

/-- where `hnorm` and `htrue` come from for an arc (three or more points): if the junction is the point `p` of the
    interface, `ch` the chord to the neighbouring point, `ρ > 0` the radius (`ρ² = |p − centre|²`) and the coded sign rule
    agrees with the true tangent (`tangentVec_eq_dot_partial`; finding D2 otherwise), then the model places the true
    tangent `tangentVecDot p centre ch` — perpendicular to the radius, pointing along the interface
    (`tangentVecDot_perp`, `tangentVecDot_along`, `tangentVecDot_unique`) —, its norm is `ρ`, and it is `ρ` times the
    true unit direction `(1/ρ) • tangentVecDot p centre ch` -/
theorem tangentAt_arc (inp : FMInput) (c : Nat) (v : Id) (p : Pt) (ch : Vec) (ρ : Rat)
    (hch : chordAt (inp.build.used.getD c []) ((inp.build.used.getD c []).map inp.mesh.pt) v = some (p, ch))
    (h3 : (inp.build.used.getD c []).length ≠ 2)
    (hρ : 0 < ρ ∧ ρ ^ 2 = distSq p (inp.centers.getD ((inp.usedIdx inp.earr).getD c 0) default))
    (hx : (tangentVecDot p (inp.centers.getD ((inp.usedIdx inp.earr).getD c 0) default) ch).x = 0 ∨
      ratSign (tangentVecDot p (inp.centers.getD ((inp.usedIdx inp.earr).getD c 0) default) ch).x = forcedSign ch.x)
    (hy : (tangentVecDot p (inp.centers.getD ((inp.usedIdx inp.earr).getD c 0) default) ch).y = 0 ∨
      ratSign (tangentVecDot p (inp.centers.getD ((inp.usedIdx inp.earr).getD c 0) default) ch).y = forcedSign ch.y) :
    inp.tangentAt c v = some (tangentVecDot p (inp.centers.getD ((inp.usedIdx inp.earr).getD c 0) default) ch) ∧
    (inp.tangentAt c v).map Vec.normSq = some (ρ ^ 2) ∧
    inp.tangentAt c v = some (Vec.smul ρ
      (Vec.smul (1 / ρ) (tangentVecDot p (inp.centers.getD ((inp.usedIdx inp.earr).getD c 0) default) ch))) := by
  have h1 : inp.tangentAt c v
      = some (tangentVecDot p (inp.centers.getD ((inp.usedIdx inp.earr).getD c 0) default) ch) := by
    unfold tangentAt vectorFromVertex
    rw [hch]
    simp only [Option.map_some, if_neg h3]
    rw [tangentVec_eq_dot_partial p _ ch hx hy]
  refine ⟨h1, ?_, ?_⟩
  · rw [h1, Option.map_some, tangentVecDot_normSq, hρ.2]
  · rw [h1]
    have hne : ρ ≠ 0 := ne_of_gt hρ.1
    simp only [Vec.smul, Option.some.injEq]
    field_simp

/-! ### balance -/

/-- THE LINK.  If at every kept junction the model's placed vectors are positive multiples (`len`) of the true
    directions (`htrue`) and the true tensions `tau` are in force balance along the true directions (`hbal`), then the
    normalised assembled matrix annihilates the tension vector: `A τ = 0`, every x- and y-equation holds exactly. -/
theorem assembled_balance (inp : FMInput) (len : Id → Nat → Rat) (dir : Id → Nat → Vec) (tau : Nat → Rat)
    (hnorm : ∀ r ∈ inp.build.rows, r.2.1 = true → ∀ c < inp.build.used.length,
      endsAt (inp.build.used.getD c []) r.1 = true →
        0 < len r.1 c ∧ (inp.tangentAt c r.1).map Vec.normSq = some ((len r.1 c) ^ 2))
    (htrue : ∀ r ∈ inp.build.rows, r.2.1 = true → ∀ c < inp.build.used.length,
      endsAt (inp.build.used.getD c []) r.1 = true →
        inp.tangentAt c r.1 = some (Vec.smul (len r.1 c) (dir r.1 c)))
    (hbal : ∀ r ∈ inp.build.rows, r.2.1 = true →
      ((inp.endCols r.1).map fun c => tau c * (dir r.1 c).x).sum = 0 ∧
      ((inp.endCols r.1).map fun c => tau c * (dir r.1 c).y).sum = 0) :
    mulVec (normalisedMatrix inp len) (tauVec inp.build.used.length tau)
      = List.replicate (normalisedMatrix inp len).length 0 := by
  apply mulVec_normalised_zero
  intro r hr hk
  exact row_balance inp len dir tau r hr hk (fun c hc he => (hnorm r hr hk c hc he).1)
    (fun c hc he => htrue r hr hk c hc he) (hbal r hr hk).1 (hbal r hr hk).2

/-- the same, row by row: the x-equation and the y-equation of every kept junction hold at `tau` -/
theorem assembled_balance_rows (inp : FMInput) (len : Id → Nat → Rat) (dir : Id → Nat → Vec) (tau : Nat → Rat)
    (hnorm : ∀ r ∈ inp.build.rows, r.2.1 = true → ∀ c < inp.build.used.length,
      endsAt (inp.build.used.getD c []) r.1 = true →
        0 < len r.1 c ∧ (inp.tangentAt c r.1).map Vec.normSq = some ((len r.1 c) ^ 2))
    (htrue : ∀ r ∈ inp.build.rows, r.2.1 = true → ∀ c < inp.build.used.length,
      endsAt (inp.build.used.getD c []) r.1 = true →
        inp.tangentAt c r.1 = some (Vec.smul (len r.1 c) (dir r.1 c)))
    (hbal : ∀ r ∈ inp.build.rows, r.2.1 = true →
      ((inp.endCols r.1).map fun c => tau c * (dir r.1 c).x).sum = 0 ∧
      ((inp.endCols r.1).map fun c => tau c * (dir r.1 c).y).sum = 0) :
    ∀ row ∈ normalisedMatrix inp len,
      ((List.range inp.build.used.length).map fun c => row.getD c 0 * tau c).sum = 0 := by
  intro row hrow
  have h := assembled_balance inp len dir tau hnorm htrue hbal
  have hw := normalisedMatrix_width inp len row hrow
  have h0 : dot row (tauVec inp.build.used.length tau) = 0 := by
    have hm : dot row (tauVec inp.build.used.length tau) ∈
        mulVec (normalisedMatrix inp len) (tauVec inp.build.used.length tau) := by
      simp only [mulVec, List.mem_map]; exact ⟨row, hrow, rfl⟩
    rw [h] at hm
    exact (List.mem_replicate.mp hm).2
  have hrow_eq : row = (List.range inp.build.used.length).map fun c => row.getD c 0 := by
    apply List.ext_getElem?
    intro i
    by_cases hi : i < inp.build.used.length
    · simp [List.getD_eq_getElem?_getD, hw, hi]
    · rw [List.getElem?_eq_none_iff.mpr (by omega), List.getElem?_eq_none_iff.mpr (by simp; omega)]
  have key : dot row (tauVec inp.build.used.length tau)
      = ((List.range inp.build.used.length).map fun c => row.getD c 0 * tau c).sum := by
    conv_lhs => rw [hrow_eq, tauVec, dot_map_map]
  rw [← key]; exact h0

/-! ### the true tensions solve the assembled augmented system -/

/-- the vector (true tension / mean true tension, multiplier 0) solves the augmented system `add_mean_one` builds from
    the normalised assembled matrix exactly: residual zero.  (`truth_solves` of Props/C01.lean applied to
    `assembled_balance`.) -/
theorem assembled_truth_solves (inp : FMInput) (len : Id → Nat → Rat) (dir : Id → Nat → Vec) (tau : Nat → Rat)
    (hk : ∃ r ∈ inp.build.rows, r.2.1 = true)
    (hnorm : ∀ r ∈ inp.build.rows, r.2.1 = true → ∀ c < inp.build.used.length,
      endsAt (inp.build.used.getD c []) r.1 = true →
        0 < len r.1 c ∧ (inp.tangentAt c r.1).map Vec.normSq = some ((len r.1 c) ^ 2))
    (htrue : ∀ r ∈ inp.build.rows, r.2.1 = true → ∀ c < inp.build.used.length,
      endsAt (inp.build.used.getD c []) r.1 = true →
        inp.tangentAt c r.1 = some (Vec.smul (len r.1 c) (dir r.1 c)))
    (hbal : ∀ r ∈ inp.build.rows, r.2.1 = true →
      ((inp.endCols r.1).map fun c => tau c * (dir r.1 c).x).sum = 0 ∧
      ((inp.endCols r.1).map fun c => tau c * (dir r.1 c).y).sum = 0)
    (hpos : ∀ c < inp.build.used.length, 0 < tau c) :
    residSq (addMeanOne (normalisedMatrix inp len) (List.replicate (normalisedMatrix inp len).length 0)).1
      (addMeanOne (normalisedMatrix inp len) (List.replicate (normalisedMatrix inp len).length 0)).2
      (normalisedTensions inp.build.used.length tau ++ [0]) = 0 := by
  rw [normalisedTensions_eq]
  exact truth_solves (normalisedMatrix inp len) (tauVec inp.build.used.length tau) _ _
    (normalisedMatrix_pos inp len hk) (normalisedMatrix_shaped inp len) (tauVec_length _ _)
    (assembled_balance inp len dir tau hnorm htrue hbal)
    (ne_of_gt (tauVec_sum_pos _ tau (used_pos_of_row inp hk) hpos))

/-- the reported tensions have mean one -/
theorem normalisedTensions_mean_one (n : Nat) (tau : Nat → Rat) (hn : 0 < n) (hpos : ∀ c < n, 0 < tau c) :
    (normalisedTensions n tau).length = n ∧ (normalisedTensions n tau).sum = (n : Rat) := by
  refine ⟨by simp [normalisedTensions], ?_⟩
  rw [normalisedTensions_eq, C01.sum_vscale]
  exact div_mul_cancel₀ _ (ne_of_gt (tauVec_sum_pos n tau hn hpos))

/-- C01 at model level, end to end.  Let the tissue `inp` have at least one kept junction and let
    (a) `hnorm`, `htrue`: at every kept junction the vectors the model places are the true directions `dir` of the
        interfaces times their norm `len` (exact arcs / straight lines with agreeing sign rule, C02),
    (b) `hbal`: the true tensions `tau` balance at every kept junction along the true directions,
    (c) `hpos`: all true tensions are positive,
    (d) `hinj`: force balance determines the tensions uniquely up to one common scale — the augmented matrix
        `[[A, 1], [1ᵀ, 0]]` of the normalised assembled matrix `A` is injective.
    Then every vector `y` that minimises the augmented squared residual over the non-negative candidates (what
    nnls / lsq_linear return, C05) is: for every inferred interface its true tension divided by the mean true tension
    of the inferred interfaces, with Lagrange multiplier zero. -/
theorem static_inference_recovers_tensions (inp : FMInput) (len : Id → Nat → Rat) (dir : Id → Nat → Vec)
    (tau : Nat → Rat) (y : List Rat)
    (hk : ∃ r ∈ inp.build.rows, r.2.1 = true)
    (hnorm : ∀ r ∈ inp.build.rows, r.2.1 = true → ∀ c < inp.build.used.length,
      endsAt (inp.build.used.getD c []) r.1 = true →
        0 < len r.1 c ∧ (inp.tangentAt c r.1).map Vec.normSq = some ((len r.1 c) ^ 2))
    (htrue : ∀ r ∈ inp.build.rows, r.2.1 = true → ∀ c < inp.build.used.length,
      endsAt (inp.build.used.getD c []) r.1 = true →
        inp.tangentAt c r.1 = some (Vec.smul (len r.1 c) (dir r.1 c)))
    (hbal : ∀ r ∈ inp.build.rows, r.2.1 = true →
      ((inp.endCols r.1).map fun c => tau c * (dir r.1 c).x).sum = 0 ∧
      ((inp.endCols r.1).map fun c => tau c * (dir r.1 c).y).sum = 0)
    (hpos : ∀ c < inp.build.used.length, 0 < tau c)
    (hy : y.length = inp.build.used.length + 1)
    (hinj : ∀ x x' : List Rat, x.length = inp.build.used.length + 1 → x'.length = inp.build.used.length + 1 →
      mulVec (addMeanOne (normalisedMatrix inp len) (List.replicate (normalisedMatrix inp len).length 0)).1 x
        = mulVec (addMeanOne (normalisedMatrix inp len) (List.replicate (normalisedMatrix inp len).length 0)).1 x' →
      x = x')
    (hmin : ∀ x : List Rat, x.length = inp.build.used.length + 1 → (∀ v ∈ x, 0 ≤ v) →
      residSq (addMeanOne (normalisedMatrix inp len) (List.replicate (normalisedMatrix inp len).length 0)).1
          (addMeanOne (normalisedMatrix inp len) (List.replicate (normalisedMatrix inp len).length 0)).2 y
        ≤ residSq (addMeanOne (normalisedMatrix inp len) (List.replicate (normalisedMatrix inp len).length 0)).1
          (addMeanOne (normalisedMatrix inp len) (List.replicate (normalisedMatrix inp len).length 0)).2 x) :
    y = normalisedTensions inp.build.used.length tau ++ [0] := by
  rw [normalisedTensions_eq]
  exact recover (normalisedMatrix inp len) (tauVec inp.build.used.length tau) y _ _
    (normalisedMatrix_pos inp len hk) (normalisedMatrix_shaped inp len) (tauVec_length _ _)
    (assembled_balance inp len dir tau hnorm htrue hbal) (tauVec_nonneg _ tau hpos)
    (tauVec_sum_pos _ tau (used_pos_of_row inp hk) hpos) hy hinj hmin

/-- in words of the property: entry `c` of the solver's answer is `tau c / mean tau`, and the multiplier is `0` -/
theorem static_inference_recovers_tensions_entry (inp : FMInput) (len : Id → Nat → Rat) (dir : Id → Nat → Vec)
    (tau : Nat → Rat) (y : List Rat)
    (hk : ∃ r ∈ inp.build.rows, r.2.1 = true)
    (hnorm : ∀ r ∈ inp.build.rows, r.2.1 = true → ∀ c < inp.build.used.length,
      endsAt (inp.build.used.getD c []) r.1 = true →
        0 < len r.1 c ∧ (inp.tangentAt c r.1).map Vec.normSq = some ((len r.1 c) ^ 2))
    (htrue : ∀ r ∈ inp.build.rows, r.2.1 = true → ∀ c < inp.build.used.length,
      endsAt (inp.build.used.getD c []) r.1 = true →
        inp.tangentAt c r.1 = some (Vec.smul (len r.1 c) (dir r.1 c)))
    (hbal : ∀ r ∈ inp.build.rows, r.2.1 = true →
      ((inp.endCols r.1).map fun c => tau c * (dir r.1 c).x).sum = 0 ∧
      ((inp.endCols r.1).map fun c => tau c * (dir r.1 c).y).sum = 0)
    (hpos : ∀ c < inp.build.used.length, 0 < tau c)
    (hy : y.length = inp.build.used.length + 1)
    (hinj : ∀ x x' : List Rat, x.length = inp.build.used.length + 1 → x'.length = inp.build.used.length + 1 →
      mulVec (addMeanOne (normalisedMatrix inp len) (List.replicate (normalisedMatrix inp len).length 0)).1 x
        = mulVec (addMeanOne (normalisedMatrix inp len) (List.replicate (normalisedMatrix inp len).length 0)).1 x' →
      x = x')
    (hmin : ∀ x : List Rat, x.length = inp.build.used.length + 1 → (∀ v ∈ x, 0 ≤ v) →
      residSq (addMeanOne (normalisedMatrix inp len) (List.replicate (normalisedMatrix inp len).length 0)).1
          (addMeanOne (normalisedMatrix inp len) (List.replicate (normalisedMatrix inp len).length 0)).2 y
        ≤ residSq (addMeanOne (normalisedMatrix inp len) (List.replicate (normalisedMatrix inp len).length 0)).1
          (addMeanOne (normalisedMatrix inp len) (List.replicate (normalisedMatrix inp len).length 0)).2 x) :
    (∀ c < inp.build.used.length, y[c]? = some (tau c / meanTension inp.build.used.length tau)) ∧
    y[inp.build.used.length]? = some 0 := by
  rw [static_inference_recovers_tensions inp len dir tau y hk hnorm htrue hbal hpos hy hinj hmin]
  constructor
  · intro c hc
    rw [List.getElem?_append_left (by simp [normalisedTensions, hc])]
    simp [normalisedTensions, List.getElem?_range hc]
  · rw [List.getElem?_append_right (by simp [normalisedTensions])]
    simp [normalisedTensions]

/-! ### non-vacuity: a lens tissue in exact force balance

  Junctions 0 = (0,0) and 1 = (4,0) are joined by the arc `[0,2,1]` (exact: centre (2,−3/2), radius 5/2, through
  (0,0), (2,1), (4,0)) and by the straight two-point interface `[1,0]`; the straight spokes `[3,0]` to (−4,−3) and
  `[1,4]` to (8,−3) close the three cells.  True unit directions at junction 0: (3/5,4/5), (1,0), (−4/5,−3/5); at
  junction 1: (−3/5,4/5), (−1,0), (4/5,−3/5).  Tensions (3, 7/5, 4, 4) balance both junctions; their mean is 31/10. -/

def balMesh : Mesh := Mesh.ofLists
  [(0,0,0),(1,4,0),(2,2,1),(3,-4,-3),(4,8,-3),(5,2,5),(6,2,-5)]
  [(0,0,2),(1,2,1),(2,0,1),(3,3,0),(4,1,4),(5,4,5),(6,5,3),(7,3,6),(8,6,4)]
  [(0,[0,2,1]),(1,[3,0,2,1,4,5]),(2,[3,6,4,1,0])]

def balInp : FMInput :=
  { mesh := balMesh, centers := [⟨2,-3/2⟩,⟨0,0⟩,⟨0,0⟩,⟨0,0⟩,⟨0,0⟩,⟨0,0⟩], cosLimit := none, ignoreFour := false }

/-- norms of the placed vectors: the arc tangent (±3/2, 2) has norm 5/2, the chord (±4, 0) norm 4, the spokes norm 5 -/
def balLen : Id → Nat → Rat := fun _ c => if c = 0 then 5/2 else if c = 1 then 4 else 5

/-- true unit directions -/
def balDir : Id → Nat → Vec := fun v c =>
  if v = 0 then (if c = 0 then ⟨3/5, 4/5⟩ else if c = 1 then ⟨1, 0⟩ else ⟨-4/5, -3/5⟩)
  else (if c = 0 then ⟨-3/5, 4/5⟩ else if c = 1 then ⟨-1, 0⟩ else ⟨4/5, -3/5⟩)

/-- true tensions -/
def balTau : Nat → Rat := fun c => if c = 0 then 3 else if c = 1 then 7/5 else 4

/-- what the model computes on the lens: the unknowns, the two kept junctions with their placed vectors, the
    normalised matrix -/
example : balMesh.Consistent = true ∧
    balInp.build.used = [[0,2,1],[1,0],[3,0],[1,4]] ∧
    balInp.build.rows =
      [(0, true, [some ⟨3/2,2⟩, some ⟨4,0⟩, some ⟨-4,-3⟩, none]),
       (1, true, [some ⟨-3/2,2⟩, some ⟨-4,0⟩, none, some ⟨4,-3⟩]),
       (3, false, [none, none, none, none]),
       (4, false, [none, none, none, none])] ∧
    normalisedMatrix balInp balLen =
      [[3/5, 1, -4/5, 0], [4/5, 0, -3/5, 0], [-3/5, -1, 0, 4/5], [4/5, 0, 0, -3/5]] := by
  decide +kernel

/-- the arc is exact: its three points lie on the circle about the fitted centre -/
example : distSq ⟨0,0⟩ ⟨2,-3/2⟩ = 25/4 ∧ distSq ⟨2,1⟩ ⟨2,-3/2⟩ = 25/4 ∧ distSq ⟨4,0⟩ ⟨2,-3/2⟩ = 25/4 := by
  decide +kernel

/-- hypotheses (a) `hnorm`, `htrue`, (b) `hbal`, (c) `hpos` and "some junction is kept" hold on the lens -/
theorem bal_hypotheses :
    (∃ r ∈ balInp.build.rows, r.2.1 = true) ∧
    (∀ r ∈ balInp.build.rows, r.2.1 = true → ∀ c < balInp.build.used.length,
      endsAt (balInp.build.used.getD c []) r.1 = true →
        0 < balLen r.1 c ∧ (balInp.tangentAt c r.1).map Vec.normSq = some ((balLen r.1 c) ^ 2)) ∧
    (∀ r ∈ balInp.build.rows, r.2.1 = true → ∀ c < balInp.build.used.length,
      endsAt (balInp.build.used.getD c []) r.1 = true →
        balInp.tangentAt c r.1 = some (Vec.smul (balLen r.1 c) (balDir r.1 c))) ∧
    (∀ r ∈ balInp.build.rows, r.2.1 = true →
      ((balInp.endCols r.1).map fun c => balTau c * (balDir r.1 c).x).sum = 0 ∧
      ((balInp.endCols r.1).map fun c => balTau c * (balDir r.1 c).y).sum = 0) ∧
    (∀ c < balInp.build.used.length, 0 < balTau c) := by
  decide +kernel

/-- `assembled_balance` instantiated: the assembled system of the lens annihilates (3, 7/5, 4, 4) -/
example : mulVec (normalisedMatrix balInp balLen) (tauVec balInp.build.used.length balTau)
    = List.replicate (normalisedMatrix balInp balLen).length 0 :=
  assembled_balance balInp balLen balDir balTau bal_hypotheses.2.1 bal_hypotheses.2.2.1 bal_hypotheses.2.2.2.1

/-- … which the model also computes directly -/
example : mulVec (normalisedMatrix balInp balLen) [3, 7/5, 4, 4] = [0, 0, 0, 0] := by decide +kernel

/-- hypothesis (d): the augmented matrix of the lens (5 × 5) is injective -/
theorem bal_injective : ∀ x x' : List Rat, x.length = balInp.build.used.length + 1 →
    x'.length = balInp.build.used.length + 1 →
    mulVec (addMeanOne (normalisedMatrix balInp balLen)
        (List.replicate (normalisedMatrix balInp balLen).length 0)).1 x
      = mulVec (addMeanOne (normalisedMatrix balInp balLen)
        (List.replicate (normalisedMatrix balInp balLen).length 0)).1 x' → x = x' := by
  have hM : (addMeanOne (normalisedMatrix balInp balLen)
      (List.replicate (normalisedMatrix balInp balLen).length 0)).1 =
      [[3/5, 1, -4/5, 0, 1], [4/5, 0, -3/5, 0, 1], [-3/5, -1, 0, 4/5, 1], [4/5, 0, 0, -3/5, 1],
       [1, 1, 1, 1, 0]] := by decide +kernel
  have hn : balInp.build.used.length + 1 = 5 := by decide +kernel
  rw [hM, hn]
  intro x x' hx hx' h
  obtain ⟨a, b, c, d, e, rfl⟩ : ∃ a b c d e, x = [a, b, c, d, e] := by
    match x, hx with
    | [a, b, c, d, e], _ => exact ⟨a, b, c, d, e, rfl⟩
  obtain ⟨a', b', c', d', e', rfl⟩ : ∃ a b c d e, x' = [a, b, c, d, e] := by
    match x', hx' with
    | [a, b, c, d, e], _ => exact ⟨a, b, c, d, e, rfl⟩
  simp only [mulVec, List.map_cons, List.map_nil, dot_cons, dot_nil_left, List.cons.injEq, and_true] at h
  obtain ⟨h1, h2, h3, h4, h5⟩ := h
  have ha : a = a' := by linear_combination (-85/124) * h1 + (245/186) * h2 + (-55/124) * h3 + (-35/186) * h4 + (15/62) * h5
  have hb : b = b' := by linear_combination (105/124) * h1 + (-175/186) * h2 + (-5/124) * h3 + (25/186) * h4 + (7/62) * h5
  have hc : c = c' := by linear_combination (-5/62) * h1 + (-95/93) * h2 + (15/62) * h3 + (80/93) * h4 + (10/31) * h5
  have hd : d = d' := by linear_combination (-5/62) * h1 + (20/31) * h2 + (15/62) * h3 + (-25/31) * h4 + (10/31) * h5
  have he : e = e' := by linear_combination (1/2) * h1 + (-2/3) * h2 + (1/2) * h3 + (2/3) * h4
  rw [ha, hb, hc, hd, he]

/-- all hypotheses of `static_inference_recovers_tensions` hold together on the lens, with `y` = (30/31, 14/31, 40/31,
    40/31, 0) — true tensions (3, 7/5, 4, 4) over their mean 31/10, multiplier 0 — as a minimiser; and the theorem's
    conclusion for it -/
example :
    normalisedTensions balInp.build.used.length balTau ++ [0] = [30/31, 14/31, 40/31, 40/31, 0] ∧
    (∀ x : List Rat, x.length = balInp.build.used.length + 1 → (∀ v ∈ x, 0 ≤ v) →
      residSq (addMeanOne (normalisedMatrix balInp balLen) (List.replicate (normalisedMatrix balInp balLen).length 0)).1
          (addMeanOne (normalisedMatrix balInp balLen) (List.replicate (normalisedMatrix balInp balLen).length 0)).2
          [30/31, 14/31, 40/31, 40/31, 0]
        ≤ residSq (addMeanOne (normalisedMatrix balInp balLen) (List.replicate (normalisedMatrix balInp balLen).length 0)).1
          (addMeanOne (normalisedMatrix balInp balLen) (List.replicate (normalisedMatrix balInp balLen).length 0)).2 x) := by
  have h0 : normalisedTensions balInp.build.used.length balTau ++ [0] = [30/31, 14/31, 40/31, 40/31, 0] := by
    decide +kernel
  refine ⟨h0, ?_⟩
  intro x _ _
  have := assembled_truth_solves balInp balLen balDir balTau bal_hypotheses.1 bal_hypotheses.2.1
    bal_hypotheses.2.2.1 bal_hypotheses.2.2.2.1 bal_hypotheses.2.2.2.2
  rw [h0] at this
  rw [this]
  exact residSq_nonneg _ _ _

example (y : List Rat) (hy : y.length = balInp.build.used.length + 1)
    (hmin : ∀ x : List Rat, x.length = balInp.build.used.length + 1 → (∀ v ∈ x, 0 ≤ v) →
      residSq (addMeanOne (normalisedMatrix balInp balLen) (List.replicate (normalisedMatrix balInp balLen).length 0)).1
          (addMeanOne (normalisedMatrix balInp balLen) (List.replicate (normalisedMatrix balInp balLen).length 0)).2 y
        ≤ residSq (addMeanOne (normalisedMatrix balInp balLen) (List.replicate (normalisedMatrix balInp balLen).length 0)).1
          (addMeanOne (normalisedMatrix balInp balLen) (List.replicate (normalisedMatrix balInp balLen).length 0)).2 x) :
    y = normalisedTensions balInp.build.used.length balTau ++ [0] :=
  static_inference_recovers_tensions balInp balLen balDir balTau y bal_hypotheses.1 bal_hypotheses.2.1
    bal_hypotheses.2.2.1 bal_hypotheses.2.2.2.1 bal_hypotheses.2.2.2.2 hy bal_injective hmin

/-- hypotheses of `assembled_unit_directions` at junction 0, column 0 (the arc) and its conclusion -/
example : (balDir 0 0).normSq = 1 :=
  (assembled_unit_directions balInp balLen balDir (0, true, [some ⟨3/2,2⟩, some ⟨4,0⟩, some ⟨-4,-3⟩, none])
    (by decide +kernel) rfl 0 (by decide +kernel) (by decide +kernel) (by decide +kernel) (by decide +kernel)).1

/-- hypotheses of `tangentAt_arc` for the arc `[0,2,1]` at junction 0: point (0,0), chord (2,1), radius 5/2 -/
example : chordAt (balInp.build.used.getD 0 []) ((balInp.build.used.getD 0 []).map balInp.mesh.pt) 0
      = some (⟨0,0⟩, ⟨2,1⟩) ∧
    (balInp.build.used.getD 0 []).length ≠ 2 ∧
    ((0:Rat) < 5/2 ∧ (5/2 : Rat) ^ 2 = distSq ⟨0,0⟩ (balInp.centers.getD ((balInp.usedIdx balInp.earr).getD 0 0) default)) ∧
    ratSign (tangentVecDot ⟨0,0⟩ (balInp.centers.getD ((balInp.usedIdx balInp.earr).getD 0 0) default) ⟨2,1⟩).x
      = forcedSign (⟨2,1⟩ : Vec).x ∧
    ratSign (tangentVecDot ⟨0,0⟩ (balInp.centers.getD ((balInp.usedIdx balInp.earr).getD 0 0) default) ⟨2,1⟩).y
      = forcedSign (⟨2,1⟩ : Vec).y := by
  decide +kernel

/-- `normalisedTensions_mean_one`: positive tensions exist -/
example : 0 < 4 ∧ ∀ c < 4, 0 < balTau c := by decide +kernel

/- PENDING (not proved here):
   * `hnorm`/`htrue` for ALL kept junctions of a tissue whose interfaces are exact arcs or straight two-point segments
     are proved in Props/C01tissue.lean (`arcTissue_hnorm_htrue`, `arcTissue_static_inference`) — under the
     sign-agreement hypothesis `SignsAgree` (finding D2 is the failing case: `signsAgree_necessary_witness`), which is
     not implied by the geometry and remains a hypothesis;
   * a criterion for hypothesis (d) (`hinj`, the augmented matrix is injective) in terms of the tissue graph;
   * that the external kernels deliver their contracts (circle fit → centres; `np.linalg.norm` → `len`; nnls /
     lsq_linear → `hmin`): checked per run by the harness (C02, C05), outside the model.
-/

end Forsys
