/-
  Property C06, the ASSEMBLED systems — the per-tangent transformation theorems of Props/C06.lean lifted to what the code
  hands to the solvers: the force matrix (`FMInput.build`, `normalisedMatrix`, `addMeanOne`; Model/FMatrix.lean,
  Proofs/C01matrix.lean) and the pressure system (`Mesh.pressureSystem`; Model/PressureSystem.lean).

  Vocabulary (Proofs/C06system.lean):
    `Mesh.mapP T m`        every vertex position mapped by `T : Pt → Pt`; ids, dictionaries, `ownEdges`, `ownCells`, storage
                           order unchanged
    `FMInput.mapP T inp`   the mesh and the fitted circle centres `centers` mapped (`cosLimit`, `ignoreFour` unchanged)
    `T` ranges over        `shiftP d` (translation), `scaleP s` with `0 < s` (change of the length unit), `rotP a b` with
                           `a² + b² = 1` (rational rotations), `flipP` (reflection `(x, y) ↦ (x, −y)`)   (Props/C06.lean)
    `inp.PtsDefined`       every vertex of every interface is a key of the vertex dictionary and every interface has a
                           fitted centre.  The model reads an absent vertex / centre as the origin (Python raises
                           KeyError / IndexError); a translation moves everything EXCEPT that fallback, so the translation
                           theorems carry this hypothesis (`_partial`, `mapP_translate_witness`).  The maps that fix the
                           origin (scale, rotation, reflection) need nothing.
    `m.CellPtsDefined`     the same for the vertex cycles of the cells (pressure side)
    `SignsAgree inp`       "finding D2 does not strike" (Props/C01tissue.lean)
    `ChordsNonRadial inp`  at every kept junction no first chord of a curved interface is radial
    `ChordsOblique inp`    … and neither of its components vanishes
    `rotPairs a b`         rotation of consecutive (x-row, y-row) pairs (Props/C06.lean); `flipPairs` likewise

  FINDINGS of this file (reported prominently):
   * rotation / reflection equivariance of the assembled matrix needs `SignsAgree` in BOTH poses
     (`tangentAt_mapP_rotate_witness`: the lens of C01 rotated by (3/5, 4/5) — D2 strikes in the rotated pose only);
   * reflection needs in addition that no first chord is radial (`tangentAt_mapP_reflect_witness`);
   * the AUGMENTED residual of `add_mean_one` (`[[A, 1], [1ᵀ, 0]] y = [0; n]`) is NOT invariant under rotation /
     reflection of the tissue at candidates whose multiplier entry is non-zero, even when D2 strikes nowhere: the column
     of ones is not rotated with the rows (`residSq_mapP_rotate_witness`).  Invariant are `‖A x‖²` and the augmented
     residual at multiplier `0` (`residSq_mapP_rotate_partial`) — which is where the minimiser sits for a tissue in
     exact balance (C01: `static_inference_recovers_tensions`).
-/
import ForsysModel.Proofs.C06system

namespace Forsys
open FMInput C06s

/-! ### 1. the combinatorics do not see the positions -/

/-- what a look-up in the mapped mesh returns: `ownEdges`, `ownCells`, the junction test, the edge and cell dictionaries
    are unchanged; the position of a stored vertex is the mapped position (of every id when `T` fixes the origin) -/
theorem lookups_mapP (T : Pt → Pt) (m : Mesh) :
    (m.mapP T).ownEdges = m.ownEdges ∧ (m.mapP T).ownCells = m.ownCells ∧ (m.mapP T).isJunction = m.isJunction ∧
    (m.mapP T).edges = m.edges ∧ (m.mapP T).cells = m.cells ∧
    (∀ k, (m.vertex? k).isSome = true → (m.mapP T).pt k = T (m.pt k)) ∧
    (T default = default → ∀ k, (m.mapP T).pt k = T (m.pt k)) :=
  ⟨ownEdges_mapP T m, ownCells_mapP T m, isJunction_mapP T m, rfl, rfl, pt_mapP_of_isSome T m,
    fun h0 => pt_mapP_of_fix T m h0⟩

/-- `create_edges_new` returns the same interfaces, for ANY map of the positions -/
theorem bigEdgesList_mapP (T : Pt → Pt) (m : Mesh) : (m.mapP T).bigEdgesList = m.bigEdgesList :=
  C06s.bigEdgesList_mapP T m

theorem earr_mapP (T : Pt → Pt) (inp : FMInput) : (inp.mapP T).earr = inp.earr :=
  C06s.earr_mapP T inp

/-- the classification of the interfaces (internal / external) and their own cells are the same -/
theorem classification_mapP (T : Pt → Pt) (m : Mesh) :
    (m.mapP T).internalIdx = m.internalIdx ∧ (m.mapP T).externalEdgesId = m.externalEdgesId ∧
    (m.mapP T).bigEdgeExternal = m.bigEdgeExternal ∧ (m.mapP T).bigEdgeOwnCells = m.bigEdgeOwnCells ∧
    (m.mapP T).cellPos = m.cellPos :=
  ⟨internalIdx_mapP T m, externalEdgesId_mapP T m, bigEdgeExternal_mapP T m, bigEdgeOwnCells_mapP T m,
    cellPos_mapP T m⟩

/-- the angle test `cosLe` of two vectors is unchanged when BOTH are scaled by `s > 0`, rotated, or reflected -/
theorem cosLe_similarity (u w : Vec) (c : Rat) :
    (∀ s : Rat, 0 < s → cosLe (Vec.smul s u) (Vec.smul s w) c = cosLe u w c) ∧
    (∀ a b : Rat, a * a + b * b = 1 → cosLe (rotV a b u) (rotV a b w) c = cosLe u w c) ∧
    cosLe (flipV u) (flipV w) c = cosLe u w c := by
  refine ⟨fun s hs => cosLe_smul s hs u w c, fun a b h => ?_, ?_⟩
  · rw [rotV_eq_linV]; exact cosLe_linV _ _ _ _ (orth_rot a b h) u w c
  · rw [flipV_eq_linV]; exact cosLe_linV _ _ _ _ orth_flip u w c

/-- without an angle limit (`cosLimit = none`, the default `np.inf`) the angle-limited vertices and the unknowns are the
    same for ANY map of the positions -/
theorem deletes_used_mapP_no_limit (T : Pt → Pt) (inp : FMInput) (h : inp.cosLimit = none) (earr : List (List Id)) :
    (inp.mapP T).deletes earr = inp.deletes earr ∧ (inp.mapP T).used earr = inp.used earr := by
  have hd := deletes_mapP_no_limit T inp h earr
  exact ⟨hd, used_mapP_of_deletes T inp earr hd⟩

/-- with an angle limit: the same, when every tangent `get_vector_from_vertex` returns is transformed by a map `L` of the
    vectors that preserves the angle test (for rotations and reflections this is the no-D2 hypothesis at every end of
    every interface, `tangentVec_rotation_witness`) -/
theorem deletes_used_mapP_of_vecAt (T : Pt → Pt) (L : Vec → Vec) (inp : FMInput)
    (hcos : ∀ u w c, cosLe (L u) (L w) c = cosLe u w c)
    (hvec : ∀ i v, (inp.mapP T).vecAt inp.earr i v = (inp.vecAt inp.earr i v).map L) :
    (inp.mapP T).deletes inp.earr = inp.deletes inp.earr ∧ (inp.mapP T).used inp.earr = inp.used inp.earr := by
  have hd := deletes_mapP_of_vecAt T inp L hcos inp.earr hvec
  exact ⟨hd, used_mapP_of_deletes T inp inp.earr hd⟩

/-- translation: every tangent is the same vector (CODED rule, no sign hypothesis), hence the same angle-limited
    vertices and unknowns, with any angle limit.
    Full statement (without `hd`) is false: `mapP_translate_witness`. -/
theorem deletes_used_mapP_translate_partial (d : Pt) (inp : FMInput) (hd : inp.PtsDefined) :
    (∀ i v, (inp.mapP (shiftP d)).vecAt inp.earr i v = inp.vecAt inp.earr i v) ∧
    (inp.mapP (shiftP d)).deletes inp.earr = inp.deletes inp.earr ∧
    (inp.mapP (shiftP d)).used inp.earr = inp.used inp.earr := by
  have h := deletes_mapP_translate inp d hd
  exact ⟨vecAt_mapP_translate inp d hd, h, used_mapP_of_deletes _ inp inp.earr h⟩

/-- change of the length unit: every tangent is scaled by `s` (CODED rule, no sign hypothesis), hence the same
    angle-limited vertices and unknowns, with any angle limit -/
theorem deletes_used_mapP_scale (s : Rat) (hs : 0 < s) (inp : FMInput) :
    (∀ i v, (inp.mapP (scaleP s)).vecAt inp.earr i v = (inp.vecAt inp.earr i v).map (Vec.smul s)) ∧
    (inp.mapP (scaleP s)).deletes inp.earr = inp.deletes inp.earr ∧
    (inp.mapP (scaleP s)).used inp.earr = inp.used inp.earr := by
  have h := deletes_mapP_scale inp s hs
  exact ⟨vecAt_mapP_scale inp s hs, h, used_mapP_of_deletes _ inp inp.earr h⟩

/-- rotation / reflection, with an angle limit, when D2 strikes at no end of any interface in either pose (`hvec`) -/
theorem deletes_used_mapP_rotate (a b : Rat) (h : a * a + b * b = 1) (inp : FMInput)
    (hvec : ∀ i v, (inp.mapP (rotP a b)).vecAt inp.earr i v = (inp.vecAt inp.earr i v).map (rotV a b)) :
    (inp.mapP (rotP a b)).deletes inp.earr = inp.deletes inp.earr ∧
    (inp.mapP (rotP a b)).used inp.earr = inp.used inp.earr :=
  deletes_used_mapP_of_vecAt (rotP a b) (rotV a b) inp (fun u w c => (cosLe_similarity u w c).2.1 a b h) hvec

theorem deletes_used_mapP_reflect (inp : FMInput)
    (hvec : ∀ i v, (inp.mapP flipP).vecAt inp.earr i v = (inp.vecAt inp.earr i v).map flipV) :
    (inp.mapP flipP).deletes inp.earr = inp.deletes inp.earr ∧
    (inp.mapP flipP).used inp.earr = inp.used inp.earr :=
  deletes_used_mapP_of_vecAt flipP flipV inp (fun u w c => (cosLe_similarity u w c).2.2) hvec

/-! ### 2. translation and change of the length unit: the matrix handed to the solver is IDENTICAL -/

/-- the stored tangent of every column at every vertex is unchanged by a translation — CODED sign rule, no side
    condition on the signs (`tangentVec_translate`).  Full statement (without `hd`) is false: `mapP_translate_witness`. -/
theorem tangentAt_mapP_translate_partial (d : Pt) (inp : FMInput) (hd : inp.PtsDefined) (c : Nat) (v : Id) :
    (inp.mapP (shiftP d)).tangentAt c v = inp.tangentAt c v := by
  rw [tangentAt_mapP_of_vecAt (shiftP d) inp id (deletes_mapP_translate inp d hd) c v
    (by rw [vecAt_mapP_translate inp d hd]; cases inp.vecAt inp.earr _ v <;> rfl)]
  cases inp.tangentAt c v <;> rfl

/-- … and scaled by `s` under a change of the length unit (`tangentVec_scale`), no side condition -/
theorem tangentAt_mapP_scale (s : Rat) (hs : 0 < s) (inp : FMInput) (c : Nat) (v : Id) :
    (inp.mapP (scaleP s)).tangentAt c v = (inp.tangentAt c v).map (Vec.smul s) :=
  tangentAt_mapP_of_vecAt (scaleP s) inp (Vec.smul s) (deletes_mapP_scale inp s hs) c v (vecAt_mapP_scale inp s hs _ v)

/-- everything `_build_matrix` produces is unchanged by a translation -/
theorem build_mapP_translate_partial (d : Pt) (inp : FMInput) (hd : inp.PtsDefined) :
    (inp.mapP (shiftP d)).build = inp.build :=
  build_mapP_translate inp d hd

/-- under a change of the length unit: same interfaces, angle-limited vertices, unknowns, candidate junctions and keep
    flags; every row entry scaled by `s` -/
theorem build_mapP_scale (s : Rat) (hs : 0 < s) (inp : FMInput) :
    (inp.mapP (scaleP s)).build =
      { inp.build with rows := inp.build.rows.map fun r => (r.1, r.2.1, r.2.2.map (Option.map (Vec.smul s))) } :=
  C06s.build_mapP_scale inp s hs

/-- TENSIONS DO NOT DEPEND ON THE ORIGIN: the normalised matrix of the translated tissue is the same matrix -/
theorem normalisedMatrix_mapP_translate_partial (d : Pt) (inp : FMInput) (hd : inp.PtsDefined)
    (len : Id → Nat → Rat) :
    normalisedMatrix (inp.mapP (shiftP d)) len = normalisedMatrix inp len :=
  normalisedMatrix_mapP_translate inp d hd len

/-- TENSIONS DO NOT DEPEND ON THE LENGTH UNIT: with the norms scaled like the vectors (`len' = s • len`) the normalised
    matrix of the rescaled tissue is the same matrix -/
theorem normalisedMatrix_mapP_scale (s : Rat) (hs : 0 < s) (inp : FMInput) (len len' : Id → Nat → Rat)
    (hlen : ∀ v c, len' v c = s * len v c) :
    normalisedMatrix (inp.mapP (scaleP s)) len' = normalisedMatrix inp len :=
  C06s.normalisedMatrix_mapP_scale inp s hs len len' hlen

/-- hence the augmented system handed to the solver and its squared residual at every candidate are the same -/
theorem residSq_mapP_translate_partial (d : Pt) (inp : FMInput) (hd : inp.PtsDefined) (len : Id → Nat → Rat)
    (y : List Rat) :
    (inp.mapP (shiftP d)).build.used.length = inp.build.used.length ∧
    addMeanOne (normalisedMatrix (inp.mapP (shiftP d)) len)
        (List.replicate (normalisedMatrix (inp.mapP (shiftP d)) len).length 0)
      = addMeanOne (normalisedMatrix inp len) (List.replicate (normalisedMatrix inp len).length 0) ∧
    residSq
      (addMeanOne (normalisedMatrix (inp.mapP (shiftP d)) len)
        (List.replicate (normalisedMatrix (inp.mapP (shiftP d)) len).length 0)).1
      (addMeanOne (normalisedMatrix (inp.mapP (shiftP d)) len)
        (List.replicate (normalisedMatrix (inp.mapP (shiftP d)) len).length 0)).2 y
    = residSq (addMeanOne (normalisedMatrix inp len) (List.replicate (normalisedMatrix inp len).length 0)).1
      (addMeanOne (normalisedMatrix inp len) (List.replicate (normalisedMatrix inp len).length 0)).2 y := by
  rw [normalisedMatrix_mapP_translate_partial d inp hd len, build_mapP_translate_partial d inp hd]
  exact ⟨rfl, rfl, rfl⟩

theorem residSq_mapP_scale (s : Rat) (hs : 0 < s) (inp : FMInput) (len len' : Id → Nat → Rat)
    (hlen : ∀ v c, len' v c = s * len v c) (y : List Rat) :
    (inp.mapP (scaleP s)).build.used.length = inp.build.used.length ∧
    addMeanOne (normalisedMatrix (inp.mapP (scaleP s)) len')
        (List.replicate (normalisedMatrix (inp.mapP (scaleP s)) len').length 0)
      = addMeanOne (normalisedMatrix inp len) (List.replicate (normalisedMatrix inp len).length 0) ∧
    residSq
      (addMeanOne (normalisedMatrix (inp.mapP (scaleP s)) len')
        (List.replicate (normalisedMatrix (inp.mapP (scaleP s)) len').length 0)).1
      (addMeanOne (normalisedMatrix (inp.mapP (scaleP s)) len')
        (List.replicate (normalisedMatrix (inp.mapP (scaleP s)) len').length 0)).2 y
    = residSq (addMeanOne (normalisedMatrix inp len) (List.replicate (normalisedMatrix inp len).length 0)).1
      (addMeanOne (normalisedMatrix inp len) (List.replicate (normalisedMatrix inp len).length 0)).2 y := by
  rw [normalisedMatrix_mapP_scale s hs inp len len' hlen, build_mapP_scale s hs inp]
  exact ⟨rfl, rfl, rfl⟩

/-- the lens of Props/C01matrix.lean WITHOUT fitted centres (the code would raise IndexError; the model reads the
    origin): `PtsDefined` fails, and translating by (7/2, −3) changes the stored tangent of the arc at junction 0 and
    the matrix -/
theorem mapP_translate_witness :
    ¬ ({ balInp with centers := [] } : FMInput).PtsDefined ∧
    ({ balInp with centers := [] } : FMInput).tangentAt 0 0 = some ⟨0, 0⟩ ∧
    (({ balInp with centers := [] } : FMInput).mapP (shiftP ⟨7/2, -3⟩)).tangentAt 0 0 = some ⟨3, 7/2⟩ ∧
    normalisedMatrix (({ balInp with centers := [] } : FMInput).mapP (shiftP ⟨7/2, -3⟩)) balLen
      ≠ normalisedMatrix ({ balInp with centers := [] } : FMInput) balLen := by
  decide +kernel

/-! ### 3. rotation and reflection

  `hdel` — the angle-limited vertices of the mapped tissue are those of the original one — holds without an angle limit
  (`deletes_used_mapP_no_limit`) and, with one, when D2 strikes at no end of any interface (`deletes_used_mapP_rotate`,
  `deletes_used_mapP_reflect`). -/

/-- the candidate junctions, their keep flags, the unknowns are the same after an orthogonal map of the tissue — NO sign
    hypothesis: finding D2 mirrors a tangent, it never changes its length, and the row filter only counts non-zero
    entries -/
theorem build_flags_mapP_rotate (a b : Rat) (h : a * a + b * b = 1) (inp : FMInput)
    (hdel : (inp.mapP (rotP a b)).deletes inp.earr = inp.deletes inp.earr) :
    (inp.mapP (rotP a b)).build.used = inp.build.used ∧
    (inp.mapP (rotP a b)).build.rows.map (fun r => (r.1, r.2.1)) = inp.build.rows.map (fun r => (r.1, r.2.1)) := by
  rw [rotP_eq_linP] at hdel ⊢
  refine ⟨build_used_mapP _ inp hdel, ?_⟩
  rw [build_rows_mapP_linP _ _ _ _ inp (orth_rot a b h) hdel, List.map_map]
  rfl

theorem build_flags_mapP_reflect (inp : FMInput)
    (hdel : (inp.mapP flipP).deletes inp.earr = inp.deletes inp.earr) :
    (inp.mapP flipP).build.used = inp.build.used ∧
    (inp.mapP flipP).build.rows.map (fun r => (r.1, r.2.1)) = inp.build.rows.map (fun r => (r.1, r.2.1)) := by
  rw [flipP_eq_linP] at hdel ⊢
  refine ⟨build_used_mapP _ inp hdel, ?_⟩
  rw [build_rows_mapP_linP _ _ _ _ inp orth_flip hdel, List.map_map]
  rfl

/-- ROTATION.  If D2 strikes neither in the original nor in the rotated pose (`SignsAgree` for both — needed:
    `tangentAt_mapP_rotate_witness`), the stored tangent of every interface at every kept junction where it ends is the
    rotated tangent -/
theorem tangentAt_mapP_rotate (a b : Rat) (h : a * a + b * b = 1) (inp : FMInput)
    (hdel : (inp.mapP (rotP a b)).deletes inp.earr = inp.deletes inp.earr)
    (hS : SignsAgree inp) (hS' : SignsAgree (inp.mapP (rotP a b))) :
    ∀ r ∈ inp.build.rows, r.2.1 = true → ∀ c < inp.build.used.length,
      endsAt (inp.build.used.getD c []) r.1 = true →
        (inp.mapP (rotP a b)).tangentAt c r.1 = (inp.tangentAt c r.1).map (rotV a b) := by
  intro r hr hk c hc he
  have hsub : ∀ p q : Pt, Vec.sub (rotP a b q) (rotP a b p) = rotV a b (Vec.sub q p) := by
    intro p q; rw [rotP_eq_linP, rotV_eq_linV]; exact sub_linP _ _ _ _ p q
  have hg : inp.GoodFor (rotP a b) := by rw [rotP_eq_linP]; exact goodFor_linP _ _ _ _ inp
  have hflag : ∀ vid, keepRow inp.ignoreFour ((inp.mapP (rotP a b)).vertexEquation inp.earr (inp.used inp.earr) vid)
      = keepRow inp.ignoreFour (inp.vertexEquation inp.earr (inp.used inp.earr) vid) := by
    intro vid
    have := keepRow_mapP_linP a (-b) b a inp (orth_rot a b h) (by rw [← rotP_eq_linP]; exact hdel) vid
    rw [← rotP_eq_linP] at this
    exact this
  apply tangentAt_mapP_of_pointwise (rotP a b) (rotV a b) hsub inp hg hdel c r.1
  intro h3 x hx
  have s1 := hS r hr hk c hc he h3 x hx
  have s2 := signsAgree_mapP (rotP a b) (rotV a b) hsub inp hg hdel hflag hS' r hr hk c hc he h3 x hx
  rw [tangentVec_eq_dot_partial _ _ _ s2.1 s2.2, tangentVec_eq_dot_partial _ _ _ s1.1 s1.2,
    tangentVecDot_rotate a b h]

/-- REFLECTION.  Under `SignsAgree` in both poses and when no first chord is radial (`ChordsNonRadial` — needed:
    `tangentAt_mapP_reflect_witness`) the stored tangents are the reflected tangents.
    Full statement (without `hN`) is false. -/
theorem tangentAt_mapP_reflect_partial (inp : FMInput)
    (hdel : (inp.mapP flipP).deletes inp.earr = inp.deletes inp.earr)
    (hS : SignsAgree inp) (hS' : SignsAgree (inp.mapP flipP)) (hN : ChordsNonRadial inp) :
    ∀ r ∈ inp.build.rows, r.2.1 = true → ∀ c < inp.build.used.length,
      endsAt (inp.build.used.getD c []) r.1 = true →
        (inp.mapP flipP).tangentAt c r.1 = (inp.tangentAt c r.1).map flipV := by
  intro r hr hk c hc he
  have hsub : ∀ p q : Pt, Vec.sub (flipP q) (flipP p) = flipV (Vec.sub q p) := by
    intro p q; rw [flipP_eq_linP, flipV_eq_linV]; exact sub_linP _ _ _ _ p q
  have hg : inp.GoodFor flipP := by rw [flipP_eq_linP]; exact goodFor_linP _ _ _ _ inp
  have hflag : ∀ vid, keepRow inp.ignoreFour ((inp.mapP flipP).vertexEquation inp.earr (inp.used inp.earr) vid)
      = keepRow inp.ignoreFour (inp.vertexEquation inp.earr (inp.used inp.earr) vid) := by
    intro vid
    have := keepRow_mapP_linP 1 0 0 (-1) inp orth_flip (by rw [← flipP_eq_linP]; exact hdel) vid
    rw [← flipP_eq_linP] at this
    exact this
  apply tangentAt_mapP_of_pointwise flipP flipV hsub inp hg hdel c r.1
  intro h3 x hx
  have s1 := hS r hr hk c hc he h3 x hx
  have s2 := signsAgree_mapP flipP flipV hsub inp hg hdel hflag hS' r hr hk c hc he h3 x hx
  rw [tangentVec_eq_dot_partial _ _ _ s2.1 s2.2, tangentVec_eq_dot_partial _ _ _ s1.1 s1.2,
    tangentVecDot_reflect _ _ _ (hN r hr hk c hc he h3 x hx)]

/-- QUARTER TURN.  For the rotation by 90° no sign hypothesis is needed when no component of a first chord vanishes
    (`tangentVec_quarter_turn`: the coded rule is equivariant under the symmetries of the square) -/
theorem tangentAt_mapP_quarter_turn (inp : FMInput)
    (hdel : (inp.mapP (rotP 0 1)).deletes inp.earr = inp.deletes inp.earr) (hO : ChordsOblique inp) :
    ∀ r ∈ inp.build.rows, r.2.1 = true → ∀ c < inp.build.used.length,
      endsAt (inp.build.used.getD c []) r.1 = true →
        (inp.mapP (rotP 0 1)).tangentAt c r.1 = (inp.tangentAt c r.1).map (rotV 0 1) := by
  intro r hr hk c hc he
  have hsub : ∀ p q : Pt, Vec.sub (rotP 0 1 q) (rotP 0 1 p) = rotV 0 1 (Vec.sub q p) := by
    intro p q; rw [rotP_eq_linP, rotV_eq_linV]; exact sub_linP _ _ _ _ p q
  have hg : inp.GoodFor (rotP 0 1) := by rw [rotP_eq_linP]; exact goodFor_linP _ _ _ _ inp
  apply tangentAt_mapP_of_pointwise (rotP 0 1) (rotV 0 1) hsub inp hg hdel c r.1
  intro h3 x hx
  exact tangentVec_quarter_turn _ _ _ (hO r hr hk c hc he h3 x hx).1 (hO r hr hk c hc he h3 x hx).2

/-- reflect consecutive (x-row, y-row) pairs of a vector: the y-entries change sign -/
def flipPairs : List Rat → List Rat
  | u :: v :: rest => u :: (-v) :: flipPairs rest
  | l => l

theorem flipPairs_eq_linPairs (l : List Rat) : flipPairs l = linPairs 1 0 0 (-1) l := by
  fun_induction flipPairs l with
  | case1 u v rest ih => rw [linPairs, ih]; simp
  | case2 l h =>
    unfold linPairs
    split
    · exact absurd rfl (h _ _ _)
    · rfl

theorem normSq_flipPairs (r : List Rat) : normSq (flipPairs r) = normSq r := by
  rw [flipPairs_eq_linPairs, normSq_linPairs _ _ _ _ orth_flip]

/-- the general step from the stored tangents to the matrix, for a rotation: if the stored tangents at the kept
    junctions are the rotated tangents (`hent` — from `tangentAt_mapP_rotate` or `tangentAt_mapP_quarter_turn`), every
    junction's (x-row, y-row) pair of the normalised matrix is the rotated pair, and the product with any candidate is
    the rotated product -/
theorem normalisedMatrix_mapP_rotate_of_tangents (a b : Rat) (h : a * a + b * b = 1) (inp : FMInput)
    (hdel : (inp.mapP (rotP a b)).deletes inp.earr = inp.deletes inp.earr)
    (hent : ∀ r ∈ inp.build.rows, r.2.1 = true → ∀ c < inp.build.used.length,
      endsAt (inp.build.used.getD c []) r.1 = true →
        (inp.mapP (rotP a b)).tangentAt c r.1 = (inp.tangentAt c r.1).map (rotV a b))
    (len : Id → Nat → Rat) :
    normalisedMatrix (inp.mapP (rotP a b)) len =
      ((inp.build.rows.filter fun r => r.2.1).flatMap fun r =>
        [List.zipWith (fun x y => a * x - b * y) (rowX inp len r) (rowY inp len r),
         List.zipWith (fun x y => b * x + a * y) (rowX inp len r) (rowY inp len r)]) ∧
    ∀ x : List Rat, mulVec (normalisedMatrix (inp.mapP (rotP a b)) len) x
      = rotPairs a b (mulVec (normalisedMatrix inp len) x) := by
  rw [rotP_eq_linP, rotV_eq_linV] at *
  refine ⟨?_, fun x => ?_⟩
  · rw [normalisedMatrix_mapP_linP _ _ _ _ inp (orth_rot a b h) hdel hent len]
    have e : (fun x y : Rat => a * x + -b * y) = fun x y => a * x - b * y := by
      funext x y; ring
    simp only [C06.lin, e]
  · rw [mulVec_mapP_linP _ _ _ _ inp (orth_rot a b h) hdel hent len x, rotPairs_eq_linPairs]

/-- the same for the reflection: x-rows unchanged, y-rows negated -/
theorem normalisedMatrix_mapP_reflect_of_tangents (inp : FMInput)
    (hdel : (inp.mapP flipP).deletes inp.earr = inp.deletes inp.earr)
    (hent : ∀ r ∈ inp.build.rows, r.2.1 = true → ∀ c < inp.build.used.length,
      endsAt (inp.build.used.getD c []) r.1 = true →
        (inp.mapP flipP).tangentAt c r.1 = (inp.tangentAt c r.1).map flipV)
    (len : Id → Nat → Rat) :
    normalisedMatrix (inp.mapP flipP) len =
      ((inp.build.rows.filter fun r => r.2.1).flatMap fun r =>
        [rowX inp len r, (rowY inp len r).map (- ·)]) ∧
    ∀ x : List Rat, mulVec (normalisedMatrix (inp.mapP flipP) len) x
      = flipPairs (mulVec (normalisedMatrix inp len) x) := by
  rw [flipP_eq_linP, flipV_eq_linV] at *
  refine ⟨?_, fun x => ?_⟩
  · rw [normalisedMatrix_mapP_linP _ _ _ _ inp orth_flip hdel hent len]
    apply List.flatMap_congr
    intro r _
    simp only [rowX, rowY, lin_map_map, List.map_map]
    congr 1
    · apply List.map_congr_left; intro c _; ring
    · congr 1; apply List.map_congr_left; intro c _; simp only [Function.comp]; ring
  · rw [mulVec_mapP_linP _ _ _ _ inp orth_flip hdel hent len x, flipPairs_eq_linPairs]

/-- `normalisedMatrix_mapP_rotate`: under `SignsAgree` in both poses each junction's (x row, y row) pair of the
    normalised matrix is the rotated pair (`rotPairs`) -/
theorem normalisedMatrix_mapP_rotate (a b : Rat) (h : a * a + b * b = 1) (inp : FMInput)
    (hdel : (inp.mapP (rotP a b)).deletes inp.earr = inp.deletes inp.earr)
    (hS : SignsAgree inp) (hS' : SignsAgree (inp.mapP (rotP a b))) (len : Id → Nat → Rat) (x : List Rat) :
    mulVec (normalisedMatrix (inp.mapP (rotP a b)) len) x = rotPairs a b (mulVec (normalisedMatrix inp len) x) :=
  (normalisedMatrix_mapP_rotate_of_tangents a b h inp hdel (tangentAt_mapP_rotate a b h inp hdel hS hS') len).2 x

theorem normalisedMatrix_mapP_reflect_partial (inp : FMInput)
    (hdel : (inp.mapP flipP).deletes inp.earr = inp.deletes inp.earr)
    (hS : SignsAgree inp) (hS' : SignsAgree (inp.mapP flipP)) (hN : ChordsNonRadial inp)
    (len : Id → Nat → Rat) (x : List Rat) :
    mulVec (normalisedMatrix (inp.mapP flipP) len) x = flipPairs (mulVec (normalisedMatrix inp len) x) :=
  (normalisedMatrix_mapP_reflect_of_tangents inp hdel (tangentAt_mapP_reflect_partial inp hdel hS hS' hN) len).2 x

/-- THE LEAST-SQUARES OBJECTIVE under a rotation of the tissue.
    Full statement asked for: "the augmented residual at ANY candidate is unchanged".  FALSE for candidates with a
    non-zero multiplier entry (`residSq_mapP_rotate_witness`): `add_mean_one` appends a column of ones, which is not
    rotated with the rows.  Proved: (1) `‖A x‖²`, the residual of the force-balance equations proper, is the same for
    every candidate `x`; (2) the augmented residual is the same at every candidate whose multiplier entry is `0`. -/
theorem residSq_mapP_rotate_partial (a b : Rat) (h : a * a + b * b = 1) (inp : FMInput)
    (hdel : (inp.mapP (rotP a b)).deletes inp.earr = inp.deletes inp.earr)
    (hS : SignsAgree inp) (hS' : SignsAgree (inp.mapP (rotP a b))) (len : Id → Nat → Rat) :
    (∀ x : List Rat,
      residSq (normalisedMatrix (inp.mapP (rotP a b)) len)
          (List.replicate (normalisedMatrix (inp.mapP (rotP a b)) len).length 0) x
        = residSq (normalisedMatrix inp len) (List.replicate (normalisedMatrix inp len).length 0) x) ∧
    (∀ x : List Rat, x.length = inp.build.used.length →
      residSq
          (addMeanOne (normalisedMatrix (inp.mapP (rotP a b)) len)
            (List.replicate (normalisedMatrix (inp.mapP (rotP a b)) len).length 0)).1
          (addMeanOne (normalisedMatrix (inp.mapP (rotP a b)) len)
            (List.replicate (normalisedMatrix (inp.mapP (rotP a b)) len).length 0)).2 (x ++ [0])
        = residSq (addMeanOne (normalisedMatrix inp len) (List.replicate (normalisedMatrix inp len).length 0)).1
          (addMeanOne (normalisedMatrix inp len) (List.replicate (normalisedMatrix inp len).length 0)).2 (x ++ [0])) := by
  have hent := tangentAt_mapP_rotate a b h inp hdel hS hS'
  rw [rotP_eq_linP, rotV_eq_linV] at *
  exact ⟨fun x => residSq_mapP_linP _ _ _ _ inp (orth_rot a b h) hdel hent len x,
    fun x hx => residSq_augmented_mapP_linP _ _ _ _ inp (orth_rot a b h) hdel hent len x hx⟩

/-- the same for the reflection -/
theorem residSq_mapP_reflect_partial (inp : FMInput)
    (hdel : (inp.mapP flipP).deletes inp.earr = inp.deletes inp.earr)
    (hS : SignsAgree inp) (hS' : SignsAgree (inp.mapP flipP)) (hN : ChordsNonRadial inp) (len : Id → Nat → Rat) :
    (∀ x : List Rat,
      residSq (normalisedMatrix (inp.mapP flipP) len)
          (List.replicate (normalisedMatrix (inp.mapP flipP) len).length 0) x
        = residSq (normalisedMatrix inp len) (List.replicate (normalisedMatrix inp len).length 0) x) ∧
    (∀ x : List Rat, x.length = inp.build.used.length →
      residSq
          (addMeanOne (normalisedMatrix (inp.mapP flipP) len)
            (List.replicate (normalisedMatrix (inp.mapP flipP) len).length 0)).1
          (addMeanOne (normalisedMatrix (inp.mapP flipP) len)
            (List.replicate (normalisedMatrix (inp.mapP flipP) len).length 0)).2 (x ++ [0])
        = residSq (addMeanOne (normalisedMatrix inp len) (List.replicate (normalisedMatrix inp len).length 0)).1
          (addMeanOne (normalisedMatrix inp len) (List.replicate (normalisedMatrix inp len).length 0)).2 (x ++ [0])) := by
  have hent := tangentAt_mapP_reflect_partial inp hdel hS hS' hN
  rw [flipP_eq_linP, flipV_eq_linV] at *
  exact ⟨fun x => residSq_mapP_linP _ _ _ _ inp orth_flip hdel hent len x,
    fun x hx => residSq_augmented_mapP_linP _ _ _ _ inp orth_flip hdel hent len x hx⟩

/-- … and for the quarter turn, with `ChordsOblique` in place of the two `SignsAgree` hypotheses -/
theorem residSq_mapP_quarter_turn_partial (inp : FMInput)
    (hdel : (inp.mapP (rotP 0 1)).deletes inp.earr = inp.deletes inp.earr) (hO : ChordsOblique inp)
    (len : Id → Nat → Rat) :
    (∀ x : List Rat,
      mulVec (normalisedMatrix (inp.mapP (rotP 0 1)) len) x = rotPairs 0 1 (mulVec (normalisedMatrix inp len) x)) ∧
    (∀ x : List Rat,
      residSq (normalisedMatrix (inp.mapP (rotP 0 1)) len)
          (List.replicate (normalisedMatrix (inp.mapP (rotP 0 1)) len).length 0) x
        = residSq (normalisedMatrix inp len) (List.replicate (normalisedMatrix inp len).length 0) x) ∧
    (∀ x : List Rat, x.length = inp.build.used.length →
      residSq
          (addMeanOne (normalisedMatrix (inp.mapP (rotP 0 1)) len)
            (List.replicate (normalisedMatrix (inp.mapP (rotP 0 1)) len).length 0)).1
          (addMeanOne (normalisedMatrix (inp.mapP (rotP 0 1)) len)
            (List.replicate (normalisedMatrix (inp.mapP (rotP 0 1)) len).length 0)).2 (x ++ [0])
        = residSq (addMeanOne (normalisedMatrix inp len) (List.replicate (normalisedMatrix inp len).length 0)).1
          (addMeanOne (normalisedMatrix inp len) (List.replicate (normalisedMatrix inp len).length 0)).2 (x ++ [0])) := by
  have hent := tangentAt_mapP_quarter_turn inp hdel hO
  have h : (0 : Rat) * 0 + 1 * 1 = 1 := by norm_num
  refine ⟨(normalisedMatrix_mapP_rotate_of_tangents 0 1 h inp hdel hent len).2, ?_⟩
  rw [rotP_eq_linP, rotV_eq_linV] at *
  exact ⟨fun x => residSq_mapP_linP _ _ _ _ inp (orth_rot 0 1 h) hdel hent len x,
    fun x hx => residSq_augmented_mapP_linP _ _ _ _ inp (orth_rot 0 1 h) hdel hent len x hx⟩

/-! ### 4. the pressure system -/

/-- translation: the assembled pressure system is identical (area signs unchanged, `area_translate`; turnings unchanged,
    `curvParts_translate` of Props/C04.lean).
    Full statement (without `hd`) fails for a cell with a vertex that is no key of the vertex dictionary (read as the
    origin, which a translation does not move). -/
theorem pressureSystem_mapP_translate_partial (d : Pt) (m : Mesh) (hd : m.CellPtsDefined) (tens curv : List Rat) :
    (m.mapP (shiftP d)).pressureSystem tens curv = m.pressureSystem tens curv := by
  apply system_mapP_of_sign
  intro a
  rw [cellCycle_mapP _ m (Or.inr hd), areaSign_shiftP]

/-- change of the length unit: areas are multiplied by `s²`, signs unchanged; the total turning of an interface is a pure
    number (`curvParts_scale` of Props/C04.lean): identical system -/
theorem pressureSystem_mapP_scale (s : Rat) (hs : 0 < s) (m : Mesh) (tens curv : List Rat) :
    (m.mapP (scaleP s)).pressureSystem tens curv = m.pressureSystem tens curv := by
  apply system_mapP_of_sign
  intro a
  rw [cellCycle_mapP _ m (Or.inl (scaleP_default s)), areaSign_scaleP s hs]

/-- rotation: areas (`area_rotP`) and turnings (`curvParts_rotate`) unchanged: identical system -/
theorem pressureSystem_mapP_rotate (a b : Rat) (h : a * a + b * b = 1) (m : Mesh) (tens curv : List Rat) :
    (m.mapP (rotP a b)).pressureSystem tens curv = m.pressureSystem tens curv := by
  apply system_mapP_of_sign
  intro c
  rw [cellCycle_mapP _ m (Or.inl (by rw [rotP_eq_linP]; exact linP_default _ _ _ _)), areaSign_rotP a b h]

/-- reflection: every area changes sign (`area_flipP`) and so does every turning (`curvParts_reflect`: the numerators
    are negated): with the turnings negated, every row and every right-hand side is negated — when the sign-carrying
    cell `own_cells[0]` of every equation has non-zero area (`harea`; for a zero area the code's test
    `get_area_sign() > 0` fails in both poses and the row is NOT negated) — and the solutions are the same -/
theorem pressureSystem_mapP_reflect_partial (m : Mesh) (tens curv : List Rat)
    (harea : ∀ i ∈ m.internalIdx m.bigEdgesList,
      area (m.cellCycle ((m.bigEdgeOwnCells (m.bigEdgesList.getD i [])).getD 0 0)) ≠ 0) :
    (m.mapP flipP).pressureSystem tens (curv.map (- ·)) =
      { m.pressureSystem tens curv with
        lhs := (m.pressureSystem tens curv).lhs.map (fun r => r.map (- ·)),
        rhs := (m.pressureSystem tens curv).rhs.map (- ·) } ∧
    ∀ p : List Rat,
      mulVec ((m.mapP flipP).pressureSystem tens (curv.map (- ·))).lhs p
          = ((m.mapP flipP).pressureSystem tens (curv.map (- ·))).rhs ↔
        mulVec (m.pressureSystem tens curv).lhs p = (m.pressureSystem tens curv).rhs := by
  have hsys := system_mapP_flip m tens curv harea
  refine ⟨hsys, fun p => ?_⟩
  rw [hsys]
  simp only []
  rw [mulVec_neg_rows, map_neg_inj]

/-! ### 5. the model computes what the theorems say (lens `balInp` of Props/C01matrix.lean) -/

/-- the hypotheses used above hold on the lens -/
theorem bal_mapP_hypotheses :
    balInp.PtsDefined ∧ balMesh.CellPtsDefined ∧ balInp.cosLimit = none ∧
    SignsAgree balInp ∧ ChordsNonRadial balInp ∧ ChordsOblique balInp ∧
    SignsAgree (balInp.mapP (rotP (5/13) (12/13))) ∧ SignsAgree (balInp.mapP (rotP 0 1)) ∧
    SignsAgree (balInp.mapP flipP) ∧
    (5/13 : Rat) * (5/13) + (12/13) * (12/13) = 1 ∧ (3/5 : Rat) * (3/5) + (4/5) * (4/5) = 1 := by
  decide +kernel

/-- translate by (7/2, −3) and scale by 5/2: the matrix computed on the mapped tissue is the matrix of the lens -/
theorem bal_translate_scale_computed :
    (balInp.mapP (shiftP ⟨7/2, -3⟩)).build = balInp.build ∧
    normalisedMatrix (balInp.mapP (shiftP ⟨7/2, -3⟩)) balLen = normalisedMatrix balInp balLen ∧
    normalisedMatrix (balInp.mapP (scaleP (5/2))) (fun v c => 5/2 * balLen v c) = normalisedMatrix balInp balLen ∧
    normalisedMatrix balInp balLen
      = [[3/5, 1, -4/5, 0], [4/5, 0, -3/5, 0], [-3/5, -1, 0, 4/5], [4/5, 0, 0, -3/5]] ∧
    (balInp.mapP (scaleP (5/2))).build.rows =
      [(0, true, [some ⟨15/4, 5⟩, some ⟨10, 0⟩, some ⟨-10, -15/2⟩, none]),
       (1, true, [some ⟨-15/4, 5⟩, some ⟨-10, 0⟩, none, some ⟨10, -15/2⟩]),
       (3, false, [none, none, none, none]), (4, false, [none, none, none, none])] := by
  decide +kernel

/-- with an angle limit (`cos = 1/2`) some junction is angle-limited; translation and change of unit leave the
    angle-limited vertices, the unknowns and the matrix unchanged (`deletes_used_mapP_translate_partial`,
    `deletes_used_mapP_scale` computed) -/
theorem bal_angle_limit_computed :
    ({ balInp with cosLimit := some (1/2) } : FMInput).build.deletes ≠ [] ∧
    ({ balInp with cosLimit := some (1/2) } : FMInput).PtsDefined ∧
    (({ balInp with cosLimit := some (1/2) } : FMInput).mapP (shiftP ⟨7/2, -3⟩)).build
      = ({ balInp with cosLimit := some (1/2) } : FMInput).build ∧
    (({ balInp with cosLimit := some (1/2) } : FMInput).mapP (scaleP (5/2))).build.deletes
      = ({ balInp with cosLimit := some (1/2) } : FMInput).build.deletes ∧
    (({ balInp with cosLimit := some (1/2) } : FMInput).mapP (scaleP (5/2))).build.used
      = ({ balInp with cosLimit := some (1/2) } : FMInput).build.used ∧
    normalisedMatrix (({ balInp with cosLimit := some (1/2) } : FMInput).mapP (scaleP (5/2)))
        (fun v c => 5/2 * balLen v c)
      = normalisedMatrix ({ balInp with cosLimit := some (1/2) } : FMInput) balLen := by
  decide +kernel

/-- the general theorems instantiated on the lens -/
example : normalisedMatrix (balInp.mapP (shiftP ⟨7/2, -3⟩)) balLen = normalisedMatrix balInp balLen :=
  normalisedMatrix_mapP_translate_partial _ balInp bal_mapP_hypotheses.1 balLen

example : normalisedMatrix (balInp.mapP (scaleP (5/2))) (fun v c => 5/2 * balLen v c) = normalisedMatrix balInp balLen :=
  normalisedMatrix_mapP_scale (5/2) (by norm_num) balInp balLen _ (fun _ _ => rfl)

/-- rotate by (5/13, 12/13) and reflect: both sides of `normalisedMatrix_mapP_rotate_of_tangents` /
    `normalisedMatrix_mapP_reflect_of_tangents` computed -/
theorem bal_rotate_reflect_computed :
    normalisedMatrix (balInp.mapP (rotP (5/13) (12/13))) balLen
      = [[-33/65, 5/13, 16/65, 0], [56/65, 12/13, -63/65, 0], [-63/65, -5/13, 0, 56/65], [-16/65, -12/13, 0, 33/65]] ∧
    normalisedMatrix (balInp.mapP (rotP (5/13) (12/13))) balLen =
      ((balInp.build.rows.filter fun r => r.2.1).flatMap fun r =>
        [List.zipWith (fun x y => 5/13 * x - 12/13 * y) (rowX balInp balLen r) (rowY balInp balLen r),
         List.zipWith (fun x y => 12/13 * x + 5/13 * y) (rowX balInp balLen r) (rowY balInp balLen r)]) ∧
    normalisedMatrix (balInp.mapP flipP) balLen
      = [[3/5, 1, -4/5, 0], [-4/5, 0, 3/5, 0], [-3/5, -1, 0, 4/5], [-4/5, 0, 0, 3/5]] ∧
    normalisedMatrix (balInp.mapP flipP) balLen =
      ((balInp.build.rows.filter fun r => r.2.1).flatMap fun r =>
        [rowX balInp balLen r, (rowY balInp balLen r).map (- ·)]) ∧
    mulVec (normalisedMatrix (balInp.mapP (rotP (5/13) (12/13))) balLen) [1, 2, 3, 4]
      = rotPairs (5/13) (12/13) (mulVec (normalisedMatrix balInp balLen) [1, 2, 3, 4]) ∧
    normalisedMatrix (balInp.mapP (rotP 0 1)) balLen
      = [[-4/5, 0, 3/5, 0], [3/5, 1, -4/5, 0], [-4/5, 0, 0, 3/5], [-3/5, -1, 0, 4/5]] := by
  decide +kernel

/-- `residSq_mapP_rotate_partial`, `residSq_mapP_reflect_partial`, `residSq_mapP_quarter_turn_partial` instantiated -/
example (x : List Rat) :
    residSq (normalisedMatrix (balInp.mapP (rotP (5/13) (12/13))) balLen)
        (List.replicate (normalisedMatrix (balInp.mapP (rotP (5/13) (12/13))) balLen).length 0) x
      = residSq (normalisedMatrix balInp balLen) (List.replicate (normalisedMatrix balInp balLen).length 0) x :=
  (residSq_mapP_rotate_partial (5/13) (12/13) bal_mapP_hypotheses.2.2.2.2.2.2.2.2.2.1 balInp
    (deletes_used_mapP_no_limit _ balInp rfl _).1 bal_mapP_hypotheses.2.2.2.1 bal_mapP_hypotheses.2.2.2.2.2.2.1
    balLen).1 x

example (x : List Rat) :
    residSq (normalisedMatrix (balInp.mapP flipP) balLen)
        (List.replicate (normalisedMatrix (balInp.mapP flipP) balLen).length 0) x
      = residSq (normalisedMatrix balInp balLen) (List.replicate (normalisedMatrix balInp balLen).length 0) x :=
  (residSq_mapP_reflect_partial balInp (deletes_used_mapP_no_limit _ balInp rfl _).1 bal_mapP_hypotheses.2.2.2.1
    bal_mapP_hypotheses.2.2.2.2.2.2.2.2.1 bal_mapP_hypotheses.2.2.2.2.1 balLen).1 x

example (x : List Rat) :
    mulVec (normalisedMatrix (balInp.mapP (rotP 0 1)) balLen) x
      = rotPairs 0 1 (mulVec (normalisedMatrix balInp balLen) x) :=
  (residSq_mapP_quarter_turn_partial balInp (deletes_used_mapP_no_limit _ balInp rfl _).1
    bal_mapP_hypotheses.2.2.2.2.2.1 balLen).1 x

/-- WITHOUT `SignsAgree` in the rotated pose the rotation statement fails: the lens rotated by (3/5, 4/5).  D2 does not
    strike on the lens, it strikes on the rotated lens (junction 0 of the arc: the rotated true tangent is
    (−7/10, 12/5), the rotated chord (2/5, 11/5) forces the x-component positive); the stored tangent is not the rotated
    tangent, the matrix is not the rotated matrix, and the balanced tensions (3, 7/5, 4, 4) — residual 0 on the lens —
    have residual 1764/625 on the rotated lens -/
theorem tangentAt_mapP_rotate_witness :
    SignsAgree balInp ∧ ¬ SignsAgree (balInp.mapP (rotP (3/5) (4/5))) ∧
    (balInp.mapP (rotP (3/5) (4/5))).tangentAt 0 0 = some ⟨7/10, 12/5⟩ ∧
    (balInp.tangentAt 0 0).map (rotV (3/5) (4/5)) = some ⟨-7/10, 12/5⟩ ∧
    normalisedMatrix (balInp.mapP (rotP (3/5) (4/5))) balLen
      = [[7/25, 3/5, 0, 0], [24/25, 4/5, -1, 0], [-1, -3/5, 0, 24/25], [0, -4/5, 0, 7/25]] ∧
    mulVec (normalisedMatrix (balInp.mapP (rotP (3/5) (4/5))) balLen) [3, 7/5, 4, 4]
      ≠ rotPairs (3/5) (4/5) (mulVec (normalisedMatrix balInp balLen) [3, 7/5, 4, 4]) ∧
    residSq (normalisedMatrix balInp balLen) (List.replicate (normalisedMatrix balInp balLen).length 0) [3, 7/5, 4, 4] = 0 ∧
    residSq (normalisedMatrix (balInp.mapP (rotP (3/5) (4/5))) balLen)
      (List.replicate (normalisedMatrix (balInp.mapP (rotP (3/5) (4/5))) balLen).length 0) [3, 7/5, 4, 4] = 1764/625 := by
  decide +kernel

/-- the same with the 16-63-65 arc `d2Inp` of Props/C01tissue.lean (the arc of `tangentVec_rotation_witness`): in the
    pose rotated by (3/5, 4/5) D2 does not strike; rotating back by (3/5, −4/5) it does, and the stored tangent at
    junction 0 is the mirror image (−16, 63) of the rotated tangent (16, 63) -/
theorem tangentAt_mapP_rotate_witness_d2 :
    SignsAgree (d2Inp.mapP (rotP (3/5) (4/5))) ∧
    ¬ SignsAgree ((d2Inp.mapP (rotP (3/5) (4/5))).mapP (rotP (3/5) (-4/5))) ∧
    ((d2Inp.mapP (rotP (3/5) (4/5))).mapP (rotP (3/5) (-4/5))).tangentAt 0 0 = some ⟨-16, 63⟩ ∧
    ((d2Inp.mapP (rotP (3/5) (4/5))).tangentAt 0 0).map (rotV (3/5) (-4/5)) = some ⟨16, 63⟩ := by
  decide +kernel

/-- reflection needs `ChordsNonRadial`: on the antipodal lens `antiInp` (Props/C01tissue.lean) D2 strikes in neither
    pose, the first chord of the arc at junction 0 is radial, and the stored tangent (0, 50) of the reflected tissue is
    not the reflected tangent (0, −50) -/
theorem tangentAt_mapP_reflect_witness :
    SignsAgree antiInp ∧ SignsAgree (antiInp.mapP flipP) ∧ ¬ ChordsNonRadial antiInp ∧
    (antiInp.mapP flipP).tangentAt 0 0 = some ⟨0, 50⟩ ∧
    (antiInp.tangentAt 0 0).map flipV = some ⟨0, -50⟩ := by
  decide +kernel

/-- THE AUGMENTED RESIDUAL IS NOT ROTATION INVARIANT at a candidate with non-zero multiplier — although D2 strikes in
    neither pose (lens rotated by (5/13, 12/13), candidate (1, 1, 1, 1; 1)); it is at multiplier 0 -/
theorem residSq_mapP_rotate_witness :
    SignsAgree balInp ∧ SignsAgree (balInp.mapP (rotP (5/13) (12/13))) ∧
    residSq
        (addMeanOne (normalisedMatrix (balInp.mapP (rotP (5/13) (12/13))) balLen)
          (List.replicate (normalisedMatrix (balInp.mapP (rotP (5/13) (12/13))) balLen).length 0)).1
        (addMeanOne (normalisedMatrix (balInp.mapP (rotP (5/13) (12/13))) balLen)
          (List.replicate (normalisedMatrix (balInp.mapP (rotP (5/13) (12/13))) balLen).length 0)).2 [1, 1, 1, 1, 1]
      ≠ residSq (addMeanOne (normalisedMatrix balInp balLen) (List.replicate (normalisedMatrix balInp balLen).length 0)).1
        (addMeanOne (normalisedMatrix balInp balLen) (List.replicate (normalisedMatrix balInp balLen).length 0)).2
        [1, 1, 1, 1, 1] ∧
    residSq
        (addMeanOne (normalisedMatrix (balInp.mapP (rotP (5/13) (12/13))) balLen)
          (List.replicate (normalisedMatrix (balInp.mapP (rotP (5/13) (12/13))) balLen).length 0)).1
        (addMeanOne (normalisedMatrix (balInp.mapP (rotP (5/13) (12/13))) balLen)
          (List.replicate (normalisedMatrix (balInp.mapP (rotP (5/13) (12/13))) balLen).length 0)).2 [1, 1, 1, 1, 0]
      = residSq (addMeanOne (normalisedMatrix balInp balLen) (List.replicate (normalisedMatrix balInp balLen).length 0)).1
        (addMeanOne (normalisedMatrix balInp balLen) (List.replicate (normalisedMatrix balInp balLen).length 0)).2
        [1, 1, 1, 1, 0] := by
  decide +kernel

/-- the pressure system of the lens: translated, rescaled, rotated — identical; reflected with negated turnings — rows
    and right-hand sides negated -/
theorem bal_pressureSystem_computed :
    balMesh.pressureSystem [1, 2, 3, 4, 5, 6] [1, 1, 1, 1, 1, 1] =
      { internal := [0, 1, 2, 3], ownCellCounts := [2, 2, 2, 2],
        lhs := [[1, -1, 0], [1, 0, -1], [0, -1, 1], [0, -1, 1]], rhs := [1, 2, 3, 4], removed := [] } ∧
    (balMesh.mapP (shiftP ⟨7/2, -3⟩)).pressureSystem [1, 2, 3, 4, 5, 6] [1, 1, 1, 1, 1, 1]
      = balMesh.pressureSystem [1, 2, 3, 4, 5, 6] [1, 1, 1, 1, 1, 1] ∧
    (balMesh.mapP (scaleP (5/2))).pressureSystem [1, 2, 3, 4, 5, 6] [1, 1, 1, 1, 1, 1]
      = balMesh.pressureSystem [1, 2, 3, 4, 5, 6] [1, 1, 1, 1, 1, 1] ∧
    (balMesh.mapP (rotP (3/5) (4/5))).pressureSystem [1, 2, 3, 4, 5, 6] [1, 1, 1, 1, 1, 1]
      = balMesh.pressureSystem [1, 2, 3, 4, 5, 6] [1, 1, 1, 1, 1, 1] ∧
    (balMesh.mapP flipP).pressureSystem [1, 2, 3, 4, 5, 6] [-1, -1, -1, -1, -1, -1] =
      { internal := [0, 1, 2, 3], ownCellCounts := [2, 2, 2, 2],
        lhs := [[-1, 1, 0], [-1, 0, 1], [0, 1, -1], [0, 1, -1]], rhs := [-1, -2, -3, -4], removed := [] } ∧
    (∀ i ∈ balMesh.internalIdx balMesh.bigEdgesList,
      area (balMesh.cellCycle ((balMesh.bigEdgeOwnCells (balMesh.bigEdgesList.getD i [])).getD 0 0)) ≠ 0) := by
  decide +kernel

/-- the lens with the interior point of the arc moved onto the chord: cell 0 = `[0, 2, 1]` has area zero -/
def flatLensMesh : Mesh := Mesh.ofLists
  [(0,0,0),(1,4,0),(2,2,0),(3,-4,-3),(4,8,-3),(5,2,5),(6,2,-5)]
  [(0,0,2),(1,2,1),(2,0,1),(3,3,0),(4,1,4),(5,4,5),(6,5,3),(7,3,6),(8,6,4)]
  [(0,[0,2,1]),(1,[3,0,2,1,4,5]),(2,[3,6,4,1,0])]

/-- `harea` of `pressureSystem_mapP_reflect_partial` cannot be dropped: cell 0 of the flat lens carries the sign of the
    first two equations and has area zero; their rows are the SAME in the reflected tissue while the right-hand sides
    (turnings negated) change sign; the pressures (0, 1, 2) solve the system of the flat lens and not that of its mirror
    image -/
theorem pressureSystem_mapP_reflect_witness :
    area (flatLensMesh.cellCycle 0) = 0 ∧
    flatLensMesh.pressureSystem [1, 2, 1, 1, 0, 0] [1, 1, 1, 1, 1, 1] =
      { internal := [0, 1, 2, 3], ownCellCounts := [2, 2, 2, 2],
        lhs := [[-1, 1, 0], [-1, 0, 1], [0, -1, 1], [0, -1, 1]], rhs := [1, 2, 1, 1], removed := [] } ∧
    (flatLensMesh.mapP flipP).pressureSystem [1, 2, 1, 1, 0, 0] [-1, -1, -1, -1, -1, -1] =
      { internal := [0, 1, 2, 3], ownCellCounts := [2, 2, 2, 2],
        lhs := [[-1, 1, 0], [-1, 0, 1], [0, 1, -1], [0, 1, -1]], rhs := [-1, -2, -1, -1], removed := [] } ∧
    mulVec (flatLensMesh.pressureSystem [1, 2, 1, 1, 0, 0] [1, 1, 1, 1, 1, 1]).lhs [0, 1, 2]
      = (flatLensMesh.pressureSystem [1, 2, 1, 1, 0, 0] [1, 1, 1, 1, 1, 1]).rhs ∧
    mulVec ((flatLensMesh.mapP flipP).pressureSystem [1, 2, 1, 1, 0, 0] [-1, -1, -1, -1, -1, -1]).lhs [0, 1, 2]
      ≠ ((flatLensMesh.mapP flipP).pressureSystem [1, 2, 1, 1, 0, 0] [-1, -1, -1, -1, -1, -1]).rhs := by
  decide +kernel

/-- the lens with vertex 2 missing from the vertex dictionary (the code raises KeyError; the model reads the origin) -/
def gapLensMesh : Mesh := Mesh.ofLists
  [(0,0,0),(1,4,0),(3,-4,-3),(4,8,-3),(5,2,5),(6,2,-5)]
  [(0,0,2),(1,2,1),(2,0,1),(3,3,0),(4,1,4),(5,4,5),(6,5,3),(7,3,6),(8,6,4)]
  [(0,[0,2,1]),(1,[3,0,2,1,4,5]),(2,[3,6,4,1,0])]

/-- `hd` of `pressureSystem_mapP_translate_partial` cannot be dropped in the MODEL: the cycle of cell 0 goes through the
    fallback origin, which the translation by (7/2, −3) does not move; its area sign flips and the first row changes -/
theorem pressureSystem_mapP_translate_witness :
    ¬ gapLensMesh.CellPtsDefined ∧
    (gapLensMesh.pressureSystem [1, 2, 3, 4, 5, 6] [1, 1, 1, 1, 1, 1]).lhs = [[-1, 0, 1], [0, -1, 1], [0, -1, 1]] ∧
    ((gapLensMesh.mapP (shiftP ⟨7/2, -3⟩)).pressureSystem [1, 2, 3, 4, 5, 6] [1, 1, 1, 1, 1, 1]).lhs
      = [[1, 0, -1], [0, -1, 1], [0, -1, 1]] := by
  decide +kernel

/-- the general pressure theorems instantiated on the lens -/
example : (balMesh.mapP (shiftP ⟨7/2, -3⟩)).pressureSystem [1, 2, 3, 4, 5, 6] [1, 1, 1, 1, 1, 1]
    = balMesh.pressureSystem [1, 2, 3, 4, 5, 6] [1, 1, 1, 1, 1, 1] :=
  pressureSystem_mapP_translate_partial _ balMesh bal_mapP_hypotheses.2.1 _ _

example (p : List Rat) :
    mulVec ((balMesh.mapP flipP).pressureSystem [1, 2, 3, 4, 5, 6] ([1, 1, 1, 1, 1, 1].map (- ·))).lhs p
        = ((balMesh.mapP flipP).pressureSystem [1, 2, 3, 4, 5, 6] ([1, 1, 1, 1, 1, 1].map (- ·))).rhs ↔
      mulVec (balMesh.pressureSystem [1, 2, 3, 4, 5, 6] [1, 1, 1, 1, 1, 1]).lhs p
        = (balMesh.pressureSystem [1, 2, 3, 4, 5, 6] [1, 1, 1, 1, 1, 1]).rhs :=
  (pressureSystem_mapP_reflect_partial balMesh _ _ bal_pressureSystem_computed.2.2.2.2.2).2 p

/- PENDING (not proved here):
   * an angle limit together with a rotation / reflection: `hdel` is then a hypothesis, discharged by
     `deletes_used_mapP_rotate` / `_reflect` only when D2 strikes at NO end of ANY interface in either pose (`hvec`, also
     for external interfaces and junctions that get no row); a formulation through a `SignsAgree`-like decidable
     predicate over all ends is not given;
   * the total turning of an interface is an INPUT of `Mesh.pressureSystem` (its assembly from the rational ingredients
     uses trusted IEEE square roots and `x^1.5`); how the ingredients transform is `curvParts_translate`,
     `curvParts_scale` (Props/C04.lean) and `curvParts_rotate`, `curvParts_reflect` (Props/C06.lean); that the assembled
     turning is therefore unchanged / negated is not a theorem about the model;
   * that the fitted centre of the mapped points is the mapped centre (`FMInput.mapP` maps `centers`) is the contract of
     the external circle fit (exact for exact arcs), checked per run;
   * the norms `len` of the mapped tissue are taken equal (rotation, reflection, translation) resp. `s • len` (scale) to
     those of the original: `np.linalg.norm` is a trusted IEEE step;
   * irrational rotation angles: per-run metamorphic check only.
-/

end Forsys
