/-
  Property C08 — interfaces partition the mesh edges; internal/external classification is exact.
  Model: ForsysModel/Model/BigEdges.lean (create_edges_new, get_partition, de-duplication,
  Frame.__post_init__ classification, BigEdge.external, get_tensions row selection).
  Everything about the cycle split is proved for an arbitrary id type and an arbitrary junction predicate.
-/
import ForsysModel.Model.BigEdges
import ForsysModel.Proofs.C08

namespace Forsys

variable {α : Type}

/-! ### `np.split` at the junction flags -/

theorem splitAux_flatten (isJ : α → Bool) (l : List α) :
    (splitAux isJ l).1 ++ (splitAux isJ l).2.flatten = l := by
  exact splitAux_flatten' isJ l

theorem splitAux_lead_nonJ (isJ : α → Bool) (l : List α) :
    ∀ a ∈ (splitAux isJ l).1, isJ a = false := by
  exact splitAux_lead_nonJ' isJ l

/-- every group is a junction followed by non-junction vertices -/
theorem splitAux_groups_shape (isJ : α → Bool) (l : List α) :
    ∀ g ∈ (splitAux isJ l).2, ∃ a rest, g = a :: rest ∧ isJ a = true ∧ ∀ b ∈ rest, isJ b = false := by
  exact splitAux_groups_shape' isJ l

/-! ### the per-cell groups after the rotation step -/

/-- the groups, concatenated, are a rotation of the cycle -/
theorem cellGroups_flatten_rotation (isJ : α → Bool) (cyc : List α) (h : ∃ a ∈ cyc, isJ a = true) :
    ∃ l1 l2, cyc = l1 ++ l2 ∧ (cellGroups isJ cyc).flatten = l2 ++ l1 := by
  refine ⟨(splitAux isJ cyc).1, (splitAux isJ cyc).2.flatten, (splitAux_flatten' isJ cyc).symm, ?_⟩
  rw [cellGroups_eq, appendLast_flatten _ _ (splitAux_groups_ne_nil isJ cyc h)]

theorem cellGroups_shape (isJ : α → Bool) (cyc : List α) :
    ∀ g ∈ cellGroups isJ cyc, ∃ a rest, g = a :: rest ∧ isJ a = true ∧ ∀ b ∈ rest, isJ b = false := by
  exact cellGroups_shape' isJ cyc

/-- a cell without junction contributes no interface -/
theorem cellPaths_none (isJ : α → Bool) (cyc : List α) (h : ∀ a ∈ cyc, isJ a = false) :
    cellPaths isJ cyc = [] := by
  unfold cellPaths
  rw [cellGroups_eq, splitAux_nonJ isJ cyc h]
  rfl

/-- a cell with a junction contributes at least one interface -/
theorem cellPaths_ne_nil (isJ : α → Bool) (cyc : List α) (h : ∃ a ∈ cyc, isJ a = true) :
    cellPaths isJ cyc ≠ [] := by
  have hne : cellGroups isJ cyc ≠ [] := by
    rw [cellGroups_eq]
    intro h0
    exact splitAux_groups_ne_nil isJ cyc h ((appendLast_eq_nil _ _).1 h0)
  rcases cellPaths_cases isJ cyc with ⟨h0, _⟩ | ⟨a, r, gs, _, _, hp⟩
  · exact absurd h0 hne
  · rw [hp]; simp [closeAux]

/-- every interface starts and ends at a junction and has no junction in between
    (with `isJ v = "v has three or more mesh edges"` these are the maximal junction-to-junction paths) -/
theorem cellPaths_ends (isJ : α → Bool) (cyc : List α) :
    ∀ p ∈ cellPaths isJ cyc, ∃ a mid b, p = a :: (mid ++ [b]) ∧ isJ a = true ∧ isJ b = true ∧
      ∀ c ∈ mid, isJ c = false := by
  rcases cellPaths_cases isJ cyc with ⟨_, h0⟩ | ⟨a, r, gs, hG, ha, hp⟩
  · simp [h0]
  · rw [hp]
    have hs := cellGroups_shape' isJ cyc
    rw [hG] at hs
    exact closeAux_ends isJ a ha _ hs

/-- dropping the closing junction of every interface and concatenating gives back the rotated cycle:
    every vertex of the cycle is covered, in order, exactly once -/
theorem cellPaths_cover (isJ : α → Bool) (cyc : List α) :
    ((cellPaths isJ cyc).map List.dropLast).flatten = (cellGroups isJ cyc).flatten := by
  rcases cellPaths_cases isJ cyc with ⟨hG, h0⟩ | ⟨a, r, gs, hG, ha, hp⟩
  · simp [h0, hG]
  · rw [hp, hG]
    exact closeAux_cover a _

/-- the consecutive pairs (mesh edges) of the interfaces of a cell are exactly the cyclic consecutive
    pairs of the rotated cycle, each exactly once and in order -/
theorem cellPaths_pairs (isJ : α → Bool) (cyc : List α) :
    ((cellPaths isJ cyc).map fun p => List.zip p p.tail).flatten
      = cyclicPairs (cellGroups isJ cyc).flatten := by
  rcases cellPaths_cases isJ cyc with ⟨hG, h0⟩ | ⟨a, r, gs, hG, ha, hp⟩
  · simp [h0, hG, cyclicPairs]
  · have hs := cellGroups_shape' isJ cyc
    rw [hG] at hs
    rw [hp, hG, closeAux_pairs a _ (fun x hx => (hs x hx).ne_nil)]
    rfl

/-- the cyclic consecutive pairs of a rotation are a permutation of those of the cycle -/
theorem cyclicPairs_rotation_perm (l1 l2 : List α) :
    (cyclicPairs (l2 ++ l1)).Perm (cyclicPairs (l1 ++ l2)) := by
  exact cyclicPairs_rotation_perm' l1 l2

/-- hence: every mesh edge (cyclic consecutive pair) of a cell that has a junction lies in exactly one
    interface of that cell, exactly once -/
theorem cellPaths_partition (isJ : α → Bool) (cyc : List α) (h : ∃ a ∈ cyc, isJ a = true) :
    (((cellPaths isJ cyc).map fun p => List.zip p p.tail).flatten).Perm (cyclicPairs cyc) := by
  obtain ⟨l1, l2, h1, h2⟩ := cellGroups_flatten_rotation isJ cyc h
  rw [cellPaths_pairs, h2, h1]
  exact cyclicPairs_rotation_perm l1 l2

/-! ### de-duplication -/

theorem dedup_sub [DecidableEq α] (ps : List (List α)) : ∀ p ∈ dedup ps, p ∈ ps := by
  intro p hp
  rw [dedup_eq] at hp
  simpa using foldl_dedupStep_sub ps [] p hp

/-- no interface is listed twice, in either direction -/
theorem dedup_pairwise [DecidableEq α] (ps : List (List α)) :
    (dedup ps).Pairwise (fun a b => a ≠ b ∧ a.reverse ≠ b) := by
  rw [dedup_eq]
  exact foldl_dedupStep_pairwise ps [] List.Pairwise.nil

theorem dedup_nodup [DecidableEq α] (ps : List (List α)) : (dedup ps).Nodup := by
  exact (dedup_pairwise ps).imp (fun h => h.1)

/-- every candidate survives in one of its two directions -/
theorem dedup_complete [DecidableEq α] (ps : List (List α)) :
    ∀ p ∈ ps, p ∈ dedup ps ∨ p.reverse ∈ dedup ps := by
  intro p hp
  rw [dedup_eq]
  exact foldl_dedupStep_complete ps [] p (Or.inr (Or.inr hp))

theorem bigEdgesList_nodup (m : Mesh) : m.bigEdgesList.Nodup := by
  exact dedup_nodup _

/-! ### classification: the three copies of the predicate agree -/

/-- position `i` is listed in `Frame.external_edges_id` iff interface `i` has a vertex in fewer than two cells -/
theorem externalEdgesId_spec (m : Mesh) (earr : List (List Id)) (hn : earr.Nodup) (i : Nat) (hi : i < earr.length) :
    i ∈ m.externalEdgesId earr ↔ (earr.getD i []).any (fun v => decide ((m.ownCells v).length < 2)) = true := by
  exact m.mem_externalEdgesId earr hn i hi

/-- internal ⇔ every vertex belongs to at least two cells and at least one end belongs to at least three -/
theorem internal_iff (m : Mesh) (earr : List (List Id)) (hn : earr.Nodup) (i : Nat) (hi : i < earr.length) :
    i ∈ m.internalIdx earr ↔
      (∀ v ∈ earr.getD i [], 2 ≤ (m.ownCells v).length) ∧ m.endJunction3 (earr.getD i []) = true := by
  unfold Mesh.internalIdx
  simp only [List.mem_filter, List.mem_range, Bool.and_eq_true, Bool.not_eq_true', List.contains_eq_mem,
    decide_eq_false_iff_not]
  rw [m.mem_externalEdgesId earr hn i hi]
  simp [Mesh.isBorder, hi]

/-- `Frame.internal_big_edges(_vertices)` and `BigEdge.external` (third copy) define the same set -/
theorem classification_agree (m : Mesh) (earr : List (List Id)) (hn : earr.Nodup) (i : Nat) (hi : i < earr.length) :
    i ∈ m.internalIdx earr ↔ m.bigEdgeExternal (earr.getD i []) = false := by
  unfold Mesh.internalIdx Mesh.bigEdgeExternal
  simp only [List.mem_filter, List.mem_range, Bool.and_eq_true, Bool.not_eq_true', List.contains_eq_mem,
    decide_eq_false_iff_not]
  rw [m.mem_externalEdgesId earr hn i hi]
  simp [Mesh.isBorder, hi]

/-- tensions are tabulated for exactly the internal interfaces, in the same order -/
theorem tensionRows_eq_internal (m : Mesh) (earr : List (List Id)) (hn : earr.Nodup) :
    m.tensionRows earr = m.internalIdx earr := by
  unfold Mesh.tensionRows Mesh.internalIdx
  apply List.filter_congr
  intro i hi
  have hi' : i < earr.length := by simpa using hi
  have h := m.mem_externalEdgesId earr hn i hi'
  have hdef : (earr.getD i []).any (fun v => decide ((m.ownCells v).length < 2))
      = m.isBorder (earr.getD i []) := rfl
  unfold Mesh.bigEdgeExternal
  simp only [hdef, List.contains_eq_mem, h]
  cases m.isBorder (earr.getD i []) <;> cases m.endJunction3 (earr.getD i []) <;> simp

/-! non-vacuity: a hexagon-like cycle with junctions 10, 20, 30 -/
example : cellPaths (fun v => decide (v ≥ 10)) [1, 2, 10, 3, 4, 20, 5, 30, 6]
    = [[10, 3, 4, 20], [20, 5, 30], [30, 6, 1, 2, 10]] := by decide

example : dedup [[1, 2, 3], [3, 2, 1], [4, 5], [1, 2, 3]] = [[1, 2, 3], [4, 5]] := by decide

/-! the hypotheses used above are satisfiable -/
/-- `h` of `cellGroups_flatten_rotation`, `cellPaths_ne_nil`, `cellPaths_partition` -/
example : ∃ a ∈ [1, 2, 10, 3, 4, 20, 5, 30, 6], (fun v : Nat => decide (v ≥ 10)) a = true :=
  ⟨10, by decide, by decide⟩

/-- `h` of `cellPaths_none` -/
example : ∀ a ∈ [1, 2, 3], (fun v : Nat => decide (v ≥ 10)) a = false := by decide

/-- `hn`, `hi` of the classification theorems -/
example : ([[1, 2, 3], [3, 4], [4, 5, 1]] : List (List Id)).Nodup ∧
    1 < ([[1, 2, 3], [3, 4], [4, 5, 1]] : List (List Id)).length := by decide

end Forsys
