/-
  Property C08 — interfaces partition the mesh edges; internal/external classification is exact.
  Model: ForsysModel/Model/BigEdges.lean (create_edges_new, get_partition, de-duplication,
  Frame.__post_init__ classification, BigEdge.external, get_tensions row selection).
  Everything about the cycle split is proved for an arbitrary id type and an arbitrary junction predicate.
-/
import ForsysModel.Model.BigEdges
import ForsysModel.Model.Construct
import ForsysModel.Proofs.C08

namespace Forsys

variable {α : Type}

/-! ### `np.split` at the junction flags -/

theorem splitAux_flatten (isJ : α → Bool) (l : List α) :
    (splitAux isJ l).1 ++ (splitAux isJ l).2.flatten = l := by
  exact splitAux_flatten' isJ l

theorem splitAux_lead_nonJ (isJ : α → Bool) (l : List α) :
    ∀ a ∈ (splitAux isJ l).1, isJ a = false := by
  exact splitAux_lead_nonJ' isJ l

/-- every group is a junction followed by non-junction vertices -/
theorem splitAux_groups_shape (isJ : α → Bool) (l : List α) :
    ∀ g ∈ (splitAux isJ l).2, ∃ a rest, g = a :: rest ∧ isJ a = true ∧ ∀ b ∈ rest, isJ b = false := by
  exact splitAux_groups_shape' isJ l

/-! ### the per-cell groups after the rotation step -/

/-- the groups, concatenated, are a rotation of the cycle -/
theorem cellGroups_flatten_rotation (isJ : α → Bool) (cyc : List α) (h : ∃ a ∈ cyc, isJ a = true) :
    ∃ l1 l2, cyc = l1 ++ l2 ∧ (cellGroups isJ cyc).flatten = l2 ++ l1 := by
  refine ⟨(splitAux isJ cyc).1, (splitAux isJ cyc).2.flatten, (splitAux_flatten' isJ cyc).symm, ?_⟩
  rw [cellGroups_eq, appendLast_flatten _ _ (splitAux_groups_ne_nil isJ cyc h)]

theorem cellGroups_shape (isJ : α → Bool) (cyc : List α) :
    ∀ g ∈ cellGroups isJ cyc, ∃ a rest, g = a :: rest ∧ isJ a = true ∧ ∀ b ∈ rest, isJ b = false := by
  exact cellGroups_shape' isJ cyc

/-- a cell without junction contributes no interface -/
theorem cellPaths_none (isJ : α → Bool) (cyc : List α) (h : ∀ a ∈ cyc, isJ a = false) :
    cellPaths isJ cyc = [] := by
  unfold cellPaths
  rw [cellGroups_eq, splitAux_nonJ isJ cyc h]
  rfl

/-- a cell with a junction contributes at least one interface -/
theorem cellPaths_ne_nil (isJ : α → Bool) (cyc : List α) (h : ∃ a ∈ cyc, isJ a = true) :
    cellPaths isJ cyc ≠ [] := by
  have hne : cellGroups isJ cyc ≠ [] := by
    rw [cellGroups_eq]
    intro h0
    exact splitAux_groups_ne_nil isJ cyc h ((appendLast_eq_nil _ _).1 h0)
  rcases cellPaths_cases isJ cyc with ⟨h0, _⟩ | ⟨a, r, gs, _, _, hp⟩
  · exact absurd h0 hne
  · rw [hp]; simp [closeAux]

/-- every interface starts and ends at a junction and has no junction in between
    (with `isJ v = "v has three or more mesh edges"` these are the maximal junction-to-junction paths) -/
theorem cellPaths_ends (isJ : α → Bool) (cyc : List α) :
    ∀ p ∈ cellPaths isJ cyc, ∃ a mid b, p = a :: (mid ++ [b]) ∧ isJ a = true ∧ isJ b = true ∧
      ∀ c ∈ mid, isJ c = false := by
  rcases cellPaths_cases isJ cyc with ⟨_, h0⟩ | ⟨a, r, gs, hG, ha, hp⟩
  · simp [h0]
  · rw [hp]
    have hs := cellGroups_shape' isJ cyc
    rw [hG] at hs
    exact closeAux_ends isJ a ha _ hs

/-- dropping the closing junction of every interface and concatenating gives back the rotated cycle:
    every vertex of the cycle is covered, in order, exactly once -/
theorem cellPaths_cover (isJ : α → Bool) (cyc : List α) :
    ((cellPaths isJ cyc).map List.dropLast).flatten = (cellGroups isJ cyc).flatten := by
  rcases cellPaths_cases isJ cyc with ⟨hG, h0⟩ | ⟨a, r, gs, hG, ha, hp⟩
  · simp [h0, hG]
  · rw [hp, hG]
    exact closeAux_cover a _

/-- the consecutive pairs (mesh edges) of the interfaces of a cell are exactly the cyclic consecutive
    pairs of the rotated cycle, each exactly once and in order -/
theorem cellPaths_pairs (isJ : α → Bool) (cyc : List α) :
    ((cellPaths isJ cyc).map fun p => List.zip p p.tail).flatten
      = cyclicPairs (cellGroups isJ cyc).flatten := by
  rcases cellPaths_cases isJ cyc with ⟨hG, h0⟩ | ⟨a, r, gs, hG, ha, hp⟩
  · simp [h0, hG, cyclicPairs]
  · have hs := cellGroups_shape' isJ cyc
    rw [hG] at hs
    rw [hp, hG, closeAux_pairs a _ (fun x hx => (hs x hx).ne_nil)]
    rfl

/-- the cyclic consecutive pairs of a rotation are a permutation of those of the cycle -/
theorem cyclicPairs_rotation_perm (l1 l2 : List α) :
    (cyclicPairs (l2 ++ l1)).Perm (cyclicPairs (l1 ++ l2)) := by
  exact cyclicPairs_rotation_perm' l1 l2

/-- hence: every mesh edge (cyclic consecutive pair) of a cell that has a junction lies in exactly one
    interface of that cell, exactly once -/
theorem cellPaths_partition (isJ : α → Bool) (cyc : List α) (h : ∃ a ∈ cyc, isJ a = true) :
    (((cellPaths isJ cyc).map fun p => List.zip p p.tail).flatten).Perm (cyclicPairs cyc) := by
  obtain ⟨l1, l2, h1, h2⟩ := cellGroups_flatten_rotation isJ cyc h
  rw [cellPaths_pairs, h2, h1]
  exact cyclicPairs_rotation_perm l1 l2

/-! ### de-duplication -/

theorem dedup_sub [DecidableEq α] (ps : List (List α)) : ∀ p ∈ dedup ps, p ∈ ps := by
  intro p hp
  rw [dedup_eq] at hp
  simpa using foldl_dedupStep_sub ps [] p hp

/-- no interface is listed twice, in either direction -/
theorem dedup_pairwise [DecidableEq α] (ps : List (List α)) :
    (dedup ps).Pairwise (fun a b => a ≠ b ∧ a.reverse ≠ b) := by
  rw [dedup_eq]
  exact foldl_dedupStep_pairwise ps [] List.Pairwise.nil

theorem dedup_nodup [DecidableEq α] (ps : List (List α)) : (dedup ps).Nodup := by
  exact (dedup_pairwise ps).imp (fun h => h.1)

/-- every candidate survives in one of its two directions -/
theorem dedup_complete [DecidableEq α] (ps : List (List α)) :
    ∀ p ∈ ps, p ∈ dedup ps ∨ p.reverse ∈ dedup ps := by
  intro p hp
  rw [dedup_eq]
  exact foldl_dedupStep_complete ps [] p (Or.inr (Or.inr hp))

theorem bigEdgesList_nodup (m : Mesh) : m.bigEdgesList.Nodup := by
  exact dedup_nodup _

/-! ### classification: the three copies of the predicate agree -/

/-- position `i` is listed in `Frame.external_edges_id` iff interface `i` has a vertex in fewer than two cells -/
theorem externalEdgesId_spec (m : Mesh) (earr : List (List Id)) (hn : earr.Nodup) (i : Nat) (hi : i < earr.length) :
    i ∈ m.externalEdgesId earr ↔ (earr.getD i []).any (fun v => decide ((m.ownCells v).length < 2)) = true := by
  exact m.mem_externalEdgesId earr hn i hi

/-- internal ⇔ every vertex belongs to at least two cells and at least one end belongs to at least three -/
theorem internal_iff (m : Mesh) (earr : List (List Id)) (hn : earr.Nodup) (i : Nat) (hi : i < earr.length) :
    i ∈ m.internalIdx earr ↔
      (∀ v ∈ earr.getD i [], 2 ≤ (m.ownCells v).length) ∧ m.endJunction3 (earr.getD i []) = true := by
  unfold Mesh.internalIdx
  simp only [List.mem_filter, List.mem_range, Bool.and_eq_true, Bool.not_eq_true', List.contains_eq_mem,
    decide_eq_false_iff_not]
  rw [m.mem_externalEdgesId earr hn i hi]
  simp [Mesh.isBorder, hi]

/-- `Frame.internal_big_edges(_vertices)` and `BigEdge.external` (third copy) define the same set -/
theorem classification_agree (m : Mesh) (earr : List (List Id)) (hn : earr.Nodup) (i : Nat) (hi : i < earr.length) :
    i ∈ m.internalIdx earr ↔ m.bigEdgeExternal (earr.getD i []) = false := by
  unfold Mesh.internalIdx Mesh.bigEdgeExternal
  simp only [List.mem_filter, List.mem_range, Bool.and_eq_true, Bool.not_eq_true', List.contains_eq_mem,
    decide_eq_false_iff_not]
  rw [m.mem_externalEdgesId earr hn i hi]
  simp [Mesh.isBorder, hi]

/-- tensions are tabulated for exactly the internal interfaces, in the same order -/
theorem tensionRows_eq_internal (m : Mesh) (earr : List (List Id)) (hn : earr.Nodup) :
    m.tensionRows earr = m.internalIdx earr := by
  unfold Mesh.tensionRows Mesh.internalIdx
  apply List.filter_congr
  intro i hi
  have hi' : i < earr.length := by simpa using hi
  have h := m.mem_externalEdgesId earr hn i hi'
  have hdef : (earr.getD i []).any (fun v => decide ((m.ownCells v).length < 2))
      = m.isBorder (earr.getD i []) := rfl
  unfold Mesh.bigEdgeExternal
  simp only [hdef, List.contains_eq_mem, h]
  cases m.isBorder (earr.getD i []) <;> cases m.endJunction3 (earr.getD i []) <;> simp

/-! ### `BigEdge.own_cells` (clause "an internal interface's own_cells are exactly the two cells on its sides")

    The code reads the cells off one vertex: the middle vertex `e[(len − 1) / 2]` for interfaces with three or more
    vertices.  That the middle vertex — an interior point of the interface, not a junction — lies in at most two cells
    is the planarity fact; it is the one explicit hypothesis `hmid` below (decidable on every concrete mesh, and checked
    per run by the oracle).
    For a two-point interface `[a, b]` `BigEdge.__post_init__` takes the cells common to both ends and
    `Frame.__post_init__` (repair of finding D30) keeps those in whose vertex cycle `a` and `b` are cyclic neighbours
    (`cyclicNeighbours`, the model of `are_neighbours`; `Mesh.neighboursInCell m a b c` looks the cell `c` up first).
    Vocabulary (Proofs/C08.lean): `Mesh.edgeCells m a b` — the keys of the cells, in dictionary order, in whose cycle
    `(a, b)` or `(b, a)` is a cyclic consecutive pair (`cyclicPairs`): the cells along the mesh edge `{a, b}`. -/

/-- the vertex the code looks at is an interior point of the interface: neither its first nor its last vertex -/
theorem middle_index_interior (n : Nat) (h : 3 ≤ n) : 0 < (n - 1) / 2 ∧ (n - 1) / 2 < n - 1 := by omega

/-- C08, own_cells clause, interfaces with an interior point: for every mesh and every interface `e` with at least
    three vertices all of whose vertices lie in at least two cells (the first half of "internal", see `internal_iff`),
    if the middle vertex lies in at most two cells (`hmid`, planarity) then `own_cells` has exactly two elements and
    is the cell list of that middle vertex -/
theorem ownCells_two_of_interior_point (m : Mesh) (e : List Id) (hlen : 3 ≤ e.length)
    (hint : ∀ v ∈ e, 2 ≤ (m.ownCells v).length)
    (hmid : (m.ownCells (e[(e.length - 1) / 2]'(by omega))).length ≤ 2) :
    (m.bigEdgeOwnCells e).length = 2 ∧
      m.bigEdgeOwnCells e = m.ownCells (e[(e.length - 1) / 2]'(by omega)) := by
  have hi : (e.length - 1) / 2 < e.length := by omega
  have hE := m.bigEdgeOwnCells_mid e (by omega) hi
  refine ⟨?_, hE⟩
  rw [hE]
  have := hint _ (List.getElem_mem hi)
  omega

/-- the same for position `i` of `Frame.internal_big_edges`: the classification of the code supplies `hint` -/
theorem ownCells_two_of_internal_interior_point (m : Mesh) (earr : List (List Id)) (hn : earr.Nodup)
    (i : Nat) (hi : i < earr.length) (hint : i ∈ m.internalIdx earr) (hlen : 3 ≤ earr[i].length)
    (hmid : (m.ownCells (earr[i][(earr[i].length - 1) / 2]'(by omega))).length ≤ 2) :
    (m.bigEdgeOwnCells earr[i]).length = 2 ∧
      m.bigEdgeOwnCells earr[i] = m.ownCells (earr[i][(earr[i].length - 1) / 2]'(by omega)) := by
  have h := ((internal_iff m earr hn i hi).1 hint).1
  have e : earr.getD i [] = earr[i] := by simp [List.getD_eq_getElem?_getD, hi]
  rw [e] at h
  exact ownCells_two_of_interior_point m earr[i] hlen h hmid

/-- C08, own_cells clause, two-point interfaces, as what the code computes (after the repair of D30): the cells common
    to both end vertices (in the order of the first end's list) in whose vertex cycle the two ends are cyclic neighbours -/
theorem ownCells_two_point (m : Mesh) (a b : Id) :
    m.bigEdgeOwnCells [a, b] = (listInter (m.ownCells a) (m.ownCells b)).filter (m.neighboursInCell a b) := rfl

/-- the same, element-wise: `c` is kept iff both ends list it, it is a key of the cell dictionary and `are_neighbours`
    holds on its cycle -/
theorem ownCells_two_point_mem (m : Mesh) (a b c : Id) :
    c ∈ m.bigEdgeOwnCells [a, b] ↔
      c ∈ m.ownCells a ∧ c ∈ m.ownCells b ∧ ∃ cl, m.cell? c = some cl ∧ cyclicNeighbours cl.verts a b = true := by
  rw [ownCells_two_point]
  simp only [List.mem_filter, listInter, List.contains_eq_mem, decide_eq_true_eq, Mesh.neighboursInCell, and_assoc]
  constructor
  · rintro ⟨h1, h2, h3⟩
    refine ⟨h1, h2, ?_⟩
    split at h3
    · rename_i cl hcl; exact ⟨cl, hcl, h3⟩
    · simp at h3
  · rintro ⟨h1, h2, cl, hcl, h3⟩
    refine ⟨h1, h2, ?_⟩
    rw [hcl]; exact h3

/-- what `are_neighbours` tests: on a cycle without repeated vertex, `a` and `b` are cyclic neighbours iff `(a, b)` or
    `(b, a)` is a cyclic consecutive pair (closing pair included) of the cycle.  Without the hypothesis only `→` holds
    (`cyclicNeighbours_imp`): `ids.index(a)` looks at the first occurrence of `a` only. -/
theorem cyclicNeighbours_spec (ids : List Id) (hn : ids.Nodup) (a b : Id) :
    cyclicNeighbours ids a b = true ↔ ((a, b) ∈ cyclicPairs ids ∨ (b, a) ∈ cyclicPairs ids) :=
  cyclicNeighbours_iff ids hn a b

/-- the repair only removes cells: `own_cells` of a two-point interface is a sublist of the cells common to both ends -/
theorem ownCells_two_point_sub (m : Mesh) (a b : Id) :
    (m.bigEdgeOwnCells [a, b]).Sublist (listInter (m.ownCells a) (m.ownCells b)) := by
  rw [ownCells_two_point]; exact List.filter_sublist

/-- in a consistent mesh `own_cells` of a two-point interface lists exactly the cells along its mesh edge, each once -/
theorem ownCells_two_point_perm (m : Mesh) (h : m.Consistent = true) (a b : Id) :
    (m.bigEdgeOwnCells [a, b]).Perm (m.edgeCells a b) :=
  m.bigEdgeOwnCells_pair_perm h a b

/-- C08, own_cells clause, two-point interfaces: in a consistent mesh, if the mesh edge `{a, b}` lies in the cycles of
    exactly two cells (`hedge`, decidable on every concrete mesh: planarity plus "not on the border") then `own_cells`
    has exactly two elements — also when `a` and `b` have a third cell in common (a cell with two neighbours, see
    `ownCells_lens_witness`) -/
theorem ownCells_two_point_two (m : Mesh) (h : m.Consistent = true) (a b : Id)
    (hedge : (m.edgeCells a b).length = 2) : (m.bigEdgeOwnCells [a, b]).length = 2 := by
  rw [(ownCells_two_point_perm m h a b).length_eq, hedge]

/-- two cells (1 above, 2 below) separated by the bent interface `1 – 2 – 3`, closed on the left by cell 3 and on the
    right by cell 4; vertices 1 and 3 are junctions of three cells, vertex 2 is the interior point of the interface -/
def bentInterface : Mesh :=
  Mesh.ofLists
    [(1, 0, 0), (2, 1, 1), (3, 2, 0), (6, 0, 2), (7, 2, 2), (8, 0, -2), (9, 2, -2), (10, -2, 0), (11, 4, 0)]
    [(1, 1, 2), (2, 2, 3), (3, 3, 7), (4, 7, 6), (5, 6, 1), (6, 1, 8), (7, 8, 9), (8, 9, 3), (9, 6, 10), (10, 10, 8),
     (11, 9, 11), (12, 11, 7)]
    [(1, [1, 2, 3, 7, 6]), (2, [1, 8, 9, 3, 2]), (3, [1, 6, 10, 8]), (4, [3, 9, 11, 7])]

/-- the hypotheses of `ownCells_two_of_interior_point` / `ownCells_two_of_internal_interior_point` are satisfiable:
    interface 0 of `bentInterface` is `1 – 2 – 3`, internal, and its middle vertex 2 lies in the cells 1 and 2 -/
example : bentInterface.Consistent = true ∧ bentInterface.bigEdgesList[0]? = some [1, 2, 3] ∧
    0 ∈ bentInterface.internalIdx bentInterface.bigEdgesList ∧
    (∀ v ∈ ([1, 2, 3] : List Id), 2 ≤ (bentInterface.ownCells v).length) ∧
    bentInterface.ownCells 2 = [1, 2] := by decide +kernel
example : (bentInterface.bigEdgeOwnCells [1, 2, 3]).length = 2 ∧
    bentInterface.bigEdgeOwnCells [1, 2, 3] = bentInterface.ownCells 2 :=
  ownCells_two_of_interior_point bentInterface [1, 2, 3] (by decide) (by decide +kernel) (by decide +kernel)

/-- 3×3 square lattice on the vertices `4·row + column` (rows, columns 0…3) without its central cell
    `[5, 6, 10, 9]`; cell `k` has the corners `k, k+1, k+5, k+4` -/
def holeLattice : Mesh :=
  Mesh.ofLists
    [(0, 0, 0), (1, 1, 0), (2, 2, 0), (3, 3, 0), (4, 0, 1), (5, 1, 1), (6, 2, 1), (7, 3, 1), (8, 0, 2), (9, 1, 2), (10, 2, 2), (11, 3, 2), (12, 0, 3), (13, 1, 3), (14, 2, 3), (15, 3, 3)]
    [(0, 0, 1), (1, 1, 2), (2, 2, 3), (4, 4, 5), (5, 5, 6), (6, 6, 7), (8, 8, 9), (9, 9, 10), (10, 10, 11), (12, 12, 13), (13, 13, 14), (14, 14, 15), (100, 0, 4), (101, 1, 5), (102, 2, 6), (103, 3, 7), (104, 4, 8), (105, 5, 9), (106, 6, 10), (107, 7, 11), (108, 8, 12), (109, 9, 13), (110, 10, 14), (111, 11, 15)]
    [(0, [0, 1, 5, 4]), (1, [1, 2, 6, 5]), (2, [2, 3, 7, 6]), (4, [4, 5, 9, 8]), (6, [6, 7, 11, 10]), (8, [8, 9, 13, 12]), (9, [9, 10, 14, 13]), (10, [10, 11, 15, 14])]

/-- known finding D27, machine-checked (unchanged by the repair of D30, which only removes cells): in the consistent
    mesh `holeLattice` the two-point interface `6 – 5` on the rim of the hole joins two junctions of three cells, is
    classified internal by all three copies of the predicate, the only cell common to its ends is cell 1, whose cycle
    `[1, 2, 6, 5]` has `6, 5` as neighbours, so its `own_cells` is the single cell 1 — not two cells; the mesh edge
    `{6, 5}` lies in one cell only (the hypothesis `hedge` of `ownCells_two_point_two` fails) -/
theorem ownCells_two_point_three_cells_witness :
    holeLattice.Consistent = true ∧
    holeLattice.bigEdgesList[5]? = some [6, 5] ∧
    5 ∈ holeLattice.internalIdx holeLattice.bigEdgesList ∧
    holeLattice.bigEdgeExternal [6, 5] = false ∧
    (holeLattice.ownCells 6).length = 3 ∧ (holeLattice.ownCells 5).length = 3 ∧
    listInter (holeLattice.ownCells 6) (holeLattice.ownCells 5) = [1] ∧
    holeLattice.edgeCells 6 5 = [1] ∧
    holeLattice.bigEdgeOwnCells [6, 5] = [1] ∧
    (holeLattice.bigEdgeOwnCells [6, 5]).length ≠ 2 := by decide +kernel

/-- a lens (the mesh `lensMesh` of Props/C02matrix.lean): junctions 0 and 1 joined by the two-point interface `[1, 0]`
    and by the three-point interface `[0, 2, 1]`; cell 0 `[0, 2, 1]` between them — a cell with exactly two neighbours —,
    cell 1 above (along the arc), cell 2 below (along the chord) -/
def lensTissue : Mesh := Mesh.ofLists
  [(0,0,0),(1,4,0),(2,2,1),(3,-3,0),(4,7,0),(5,2,5),(6,2,-5)]
  [(0,0,2),(1,2,1),(2,0,1),(3,3,0),(4,1,4),(5,4,5),(6,5,3),(7,3,6),(8,6,4)]
  [(0,[0,2,1]),(1,[3,0,2,1,4,5]),(2,[3,6,4,1,0])]

/-- finding D30 and its repair, machine-checked: in the consistent lens mesh the chord `[1, 0]` (interface 1, internal)
    has both ends in all three cells — before the repair `own_cells` was that list of three cells and the pressure
    matrix refused the tissue —; `0` and `1` are neighbours in the cycles of the lens cell 0 and of the lower cell 2 but
    not in the upper cell 1 (`[3, 0, 2, 1, 4, 5]`), so `own_cells` is now `[0, 2]`, the two cells along the mesh edge;
    the arc `[0, 2, 1]` (interface 0) keeps the cells `[0, 1]` of its middle vertex -/
theorem ownCells_lens_witness :
    lensTissue.Consistent = true ∧
    lensTissue.bigEdgesList = [[0, 2, 1], [1, 0], [3, 0], [1, 4], [4, 5, 3], [3, 6, 4]] ∧
    lensTissue.internalIdx lensTissue.bigEdgesList = [0, 1, 2, 3] ∧
    listInter (lensTissue.ownCells 1) (lensTissue.ownCells 0) = [0, 1, 2] ∧
    lensTissue.neighboursInCell 1 0 0 = true ∧ lensTissue.neighboursInCell 1 0 1 = false ∧
    lensTissue.neighboursInCell 1 0 2 = true ∧
    lensTissue.edgeCells 1 0 = [0, 2] ∧
    lensTissue.bigEdgeOwnCells [1, 0] = [0, 2] ∧ (lensTissue.bigEdgeOwnCells [1, 0]).length = 2 ∧
    lensTissue.bigEdgeOwnCells [0, 2, 1] = [0, 1] := by decide +kernel

/-- the hypotheses of `ownCells_two_point_perm` / `ownCells_two_point_two` are satisfiable (and the theorem applies to
    the chord of the lens) -/
example : (lensTissue.bigEdgeOwnCells [1, 0]).length = 2 :=
  ownCells_two_point_two lensTissue (by decide +kernel) 1 0 (by decide +kernel)

/-- `hn` of `cyclicNeighbours_spec`; the closing pair counts: 0 is the neighbour of 1 in the lens cell `[0, 2, 1]` -/
example : ([0, 2, 1] : List Id).Nodup ∧ cyclicNeighbours [0, 2, 1] 1 0 = true ∧ cyclicNeighbours [0, 2, 1] 0 1 = true ∧
    cyclicNeighbours [3, 0, 2, 1, 4, 5] 1 0 = false := by decide +kernel

/-- without `hn` the converse of `cyclicNeighbours_spec` fails: `index` finds the first occurrence only -/
example : (7, 9) ∈ cyclicPairs ([7, 1, 7, 9] : List Id) ∧ cyclicNeighbours [7, 1, 7, 9] 7 9 = true ∧
    (7, 3) ∈ cyclicPairs ([7, 1, 2, 7, 3, 4] : List Id) ∧ cyclicNeighbours [7, 1, 2, 7, 3, 4] 7 3 = false := by decide +kernel

/-! non-vacuity: a hexagon-like cycle with junctions 10, 20, 30 -/
example : cellPaths (fun v => decide (v ≥ 10)) [1, 2, 10, 3, 4, 20, 5, 30, 6]
    = [[10, 3, 4, 20], [20, 5, 30], [30, 6, 1, 2, 10]] := by decide

example : dedup [[1, 2, 3], [3, 2, 1], [4, 5], [1, 2, 3]] = [[1, 2, 3], [4, 5]] := by decide

/-! the hypotheses used above are satisfiable -/
/-- `h` of `cellGroups_flatten_rotation`, `cellPaths_ne_nil`, `cellPaths_partition` -/
example : ∃ a ∈ [1, 2, 10, 3, 4, 20, 5, 30, 6], (fun v : Nat => decide (v ≥ 10)) a = true :=
  ⟨10, by decide, by decide⟩

/-- `h` of `cellPaths_none` -/
example : ∀ a ∈ [1, 2, 3], (fun v : Nat => decide (v ≥ 10)) a = false := by decide

/-- `hn`, `hi` of the classification theorems -/
example : ([[1, 2, 3], [3, 4], [4, 5, 1]] : List (List Id)).Nodup ∧
    1 < ([[1, 2, 3], [3, 4], [4, 5, 1]] : List (List Id)).length := by decide

end Forsys
