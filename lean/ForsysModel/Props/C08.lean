/-
  Property C08 — interfaces partition the mesh edges; internal/external classification is exact.
  Model: ForsysModel/Model/BigEdges.lean (create_edges_new, get_partition, de-duplication,
  Frame.__post_init__ classification, BigEdge.external, get_tensions row selection).
  Everything about the cycle split is proved for an arbitrary id type and an arbitrary junction predicate.
-/
import ForsysModel.Model.BigEdges
import ForsysModel.Model.Construct
import ForsysModel.Proofs.C08

namespace Forsys

variable {α : Type}

/-! ### `np.split` at the junction flags -/

theorem splitAux_flatten (isJ : α → Bool) (l : List α) :
    (splitAux isJ l).1 ++ (splitAux isJ l).2.flatten = l := by
  exact splitAux_flatten' isJ l

theorem splitAux_lead_nonJ (isJ : α → Bool) (l : List α) :
    ∀ a ∈ (splitAux isJ l).1, isJ a = false := by
  exact splitAux_lead_nonJ' isJ l

/-- every group is a junction followed by non-junction vertices -/
theorem splitAux_groups_shape (isJ : α → Bool) (l : List α) :
    ∀ g ∈ (splitAux isJ l).2, ∃ a rest, g = a :: rest ∧ isJ a = true ∧ ∀ b ∈ rest, isJ b = false := by
  exact splitAux_groups_shape' isJ l

/-! ### the per-cell groups after the rotation step -/

/-- the groups, concatenated, are a rotation of the cycle -/
theorem cellGroups_flatten_rotation (isJ : α → Bool) (cyc : List α) (h : ∃ a ∈ cyc, isJ a = true) :
    ∃ l1 l2, cyc = l1 ++ l2 ∧ (cellGroups isJ cyc).flatten = l2 ++ l1 := by
  refine ⟨(splitAux isJ cyc).1, (splitAux isJ cyc).2.flatten, (splitAux_flatten' isJ cyc).symm, ?_⟩
  rw [cellGroups_eq, appendLast_flatten _ _ (splitAux_groups_ne_nil isJ cyc h)]

theorem cellGroups_shape (isJ : α → Bool) (cyc : List α) :
    ∀ g ∈ cellGroups isJ cyc, ∃ a rest, g = a :: rest ∧ isJ a = true ∧ ∀ b ∈ rest, isJ b = false := by
  exact cellGroups_shape' isJ cyc

/-- a cell without junction contributes no interface -/
theorem cellPaths_none (isJ : α → Bool) (cyc : List α) (h : ∀ a ∈ cyc, isJ a = false) :
    cellPaths isJ cyc = [] := by
  unfold cellPaths
  rw [cellGroups_eq, splitAux_nonJ isJ cyc h]
  rfl

/-- a cell with a junction contributes at least one interface -/
theorem cellPaths_ne_nil (isJ : α → Bool) (cyc : List α) (h : ∃ a ∈ cyc, isJ a = true) :
    cellPaths isJ cyc ≠ [] := by
  have hne : cellGroups isJ cyc ≠ [] := by
    rw [cellGroups_eq]
    intro h0
    exact splitAux_groups_ne_nil isJ cyc h ((appendLast_eq_nil _ _).1 h0)
  rcases cellPaths_cases isJ cyc with ⟨h0, _⟩ | ⟨a, r, gs, _, _, hp⟩
  · exact absurd h0 hne
  · rw [hp]; simp [closeAux]

/-- every interface starts and ends at a junction and has no junction in between
    (with `isJ v = "v has three or more mesh edges"` these are the maximal junction-to-junction paths) -/
theorem cellPaths_ends (isJ : α → Bool) (cyc : List α) :
    ∀ p ∈ cellPaths isJ cyc, ∃ a mid b, p = a :: (mid ++ [b]) ∧ isJ a = true ∧ isJ b = true ∧
      ∀ c ∈ mid, isJ c = false := by
  rcases cellPaths_cases isJ cyc with ⟨_, h0⟩ | ⟨a, r, gs, hG, ha, hp⟩
  · simp [h0]
  · rw [hp]
    have hs := cellGroups_shape' isJ cyc
    rw [hG] at hs
    exact closeAux_ends isJ a ha _ hs

/-- dropping the closing junction of every interface and concatenating gives back the rotated cycle:
    every vertex of the cycle is covered, in order, exactly once -/
theorem cellPaths_cover (isJ : α → Bool) (cyc : List α) :
    ((cellPaths isJ cyc).map List.dropLast).flatten = (cellGroups isJ cyc).flatten := by
  rcases cellPaths_cases isJ cyc with ⟨hG, h0⟩ | ⟨a, r, gs, hG, ha, hp⟩
  · simp [h0, hG]
  · rw [hp, hG]
    exact closeAux_cover a _

/-- the consecutive pairs (mesh edges) of the interfaces of a cell are exactly the cyclic consecutive
    pairs of the rotated cycle, each exactly once and in order -/
theorem cellPaths_pairs (isJ : α → Bool) (cyc : List α) :
    ((cellPaths isJ cyc).map fun p => List.zip p p.tail).flatten
      = cyclicPairs (cellGroups isJ cyc).flatten := by
  rcases cellPaths_cases isJ cyc with ⟨hG, h0⟩ | ⟨a, r, gs, hG, ha, hp⟩
  · simp [h0, hG, cyclicPairs]
  · have hs := cellGroups_shape' isJ cyc
    rw [hG] at hs
    rw [hp, hG, closeAux_pairs a _ (fun x hx => (hs x hx).ne_nil)]
    rfl

/-- the cyclic consecutive pairs of a rotation are a permutation of those of the cycle -/
theorem cyclicPairs_rotation_perm (l1 l2 : List α) :
    (cyclicPairs (l2 ++ l1)).Perm (cyclicPairs (l1 ++ l2)) := by
  exact cyclicPairs_rotation_perm' l1 l2

/-- hence: every mesh edge (cyclic consecutive pair) of a cell that has a junction lies in exactly one
    interface of that cell, exactly once -/
theorem cellPaths_partition (isJ : α → Bool) (cyc : List α) (h : ∃ a ∈ cyc, isJ a = true) :
    (((cellPaths isJ cyc).map fun p => List.zip p p.tail).flatten).Perm (cyclicPairs cyc) := by
  obtain ⟨l1, l2, h1, h2⟩ := cellGroups_flatten_rotation isJ cyc h
  rw [cellPaths_pairs, h2, h1]
  exact cyclicPairs_rotation_perm l1 l2

/-! ### de-duplication -/

theorem dedup_sub [DecidableEq α] (ps : List (List α)) : ∀ p ∈ dedup ps, p ∈ ps := by
  intro p hp
  rw [dedup_eq] at hp
  simpa using foldl_dedupStep_sub ps [] p hp

/-- no interface is listed twice, in either direction -/
theorem dedup_pairwise [DecidableEq α] (ps : List (List α)) :
    (dedup ps).Pairwise (fun a b => a ≠ b ∧ a.reverse ≠ b) := by
  rw [dedup_eq]
  exact foldl_dedupStep_pairwise ps [] List.Pairwise.nil

theorem dedup_nodup [DecidableEq α] (ps : List (List α)) : (dedup ps).Nodup := by
  exact (dedup_pairwise ps).imp (fun h => h.1)

/-- every candidate survives in one of its two directions -/
theorem dedup_complete [DecidableEq α] (ps : List (List α)) :
    ∀ p ∈ ps, p ∈ dedup ps ∨ p.reverse ∈ dedup ps := by
  intro p hp
  rw [dedup_eq]
  exact foldl_dedupStep_complete ps [] p (Or.inr (Or.inr hp))

theorem bigEdgesList_nodup (m : Mesh) : m.bigEdgesList.Nodup := by
  exact dedup_nodup _

/-! ### classification: the three copies of the predicate agree -/

/-- position `i` is listed in `Frame.external_edges_id` iff interface `i` has a vertex in fewer than two cells -/
theorem externalEdgesId_spec (m : Mesh) (earr : List (List Id)) (hn : earr.Nodup) (i : Nat) (hi : i < earr.length) :
    i ∈ m.externalEdgesId earr ↔ (earr.getD i []).any (fun v => decide ((m.ownCells v).length < 2)) = true := by
  exact m.mem_externalEdgesId earr hn i hi

/-- internal ⇔ every vertex belongs to at least two cells and at least one end belongs to at least three -/
theorem internal_iff (m : Mesh) (earr : List (List Id)) (hn : earr.Nodup) (i : Nat) (hi : i < earr.length) :
    i ∈ m.internalIdx earr ↔
      (∀ v ∈ earr.getD i [], 2 ≤ (m.ownCells v).length) ∧ m.endJunction3 (earr.getD i []) = true := by
  unfold Mesh.internalIdx
  simp only [List.mem_filter, List.mem_range, Bool.and_eq_true, Bool.not_eq_true', List.contains_eq_mem,
    decide_eq_false_iff_not]
  rw [m.mem_externalEdgesId earr hn i hi]
  simp [Mesh.isBorder, hi]

/-- `Frame.internal_big_edges(_vertices)` and `BigEdge.external` (third copy) define the same set -/
theorem classification_agree (m : Mesh) (earr : List (List Id)) (hn : earr.Nodup) (i : Nat) (hi : i < earr.length) :
    i ∈ m.internalIdx earr ↔ m.bigEdgeExternal (earr.getD i []) = false := by
  unfold Mesh.internalIdx Mesh.bigEdgeExternal
  simp only [List.mem_filter, List.mem_range, Bool.and_eq_true, Bool.not_eq_true', List.contains_eq_mem,
    decide_eq_false_iff_not]
  rw [m.mem_externalEdgesId earr hn i hi]
  simp [Mesh.isBorder, hi]

/-- tensions are tabulated for exactly the internal interfaces, in the same order -/
theorem tensionRows_eq_internal (m : Mesh) (earr : List (List Id)) (hn : earr.Nodup) :
    m.tensionRows earr = m.internalIdx earr := by
  unfold Mesh.tensionRows Mesh.internalIdx
  apply List.filter_congr
  intro i hi
  have hi' : i < earr.length := by simpa using hi
  have h := m.mem_externalEdgesId earr hn i hi'
  have hdef : (earr.getD i []).any (fun v => decide ((m.ownCells v).length < 2))
      = m.isBorder (earr.getD i []) := rfl
  unfold Mesh.bigEdgeExternal
  simp only [hdef, List.contains_eq_mem, h]
  cases m.isBorder (earr.getD i []) <;> cases m.endJunction3 (earr.getD i []) <;> simp

/-! ### `BigEdge.own_cells` (clause "an internal interface's own_cells are exactly the two cells on its sides")

    The code reads the cells off one vertex: the middle vertex `e[(len − 1) / 2]` for interfaces with three or more
    vertices, the intersection of the two ends' cell lists for two-point interfaces.  That the middle vertex — an
    interior point of the interface, not a junction — lies in at most two cells is the planarity fact; it is the one
    explicit hypothesis `hmid` below (decidable on every concrete mesh, and checked per run by the oracle). -/

/-- the vertex the code looks at is an interior point of the interface: neither its first nor its last vertex -/
theorem middle_index_interior (n : Nat) (h : 3 ≤ n) : 0 < (n - 1) / 2 ∧ (n - 1) / 2 < n - 1 := by omega

/-- C08, own_cells clause, interfaces with an interior point: for every mesh and every interface `e` with at least
    three vertices all of whose vertices lie in at least two cells (the first half of "internal", see `internal_iff`),
    if the middle vertex lies in at most two cells (`hmid`, planarity) then `own_cells` has exactly two elements and
    is the cell list of that middle vertex -/
theorem ownCells_two_of_interior_point (m : Mesh) (e : List Id) (hlen : 3 ≤ e.length)
    (hint : ∀ v ∈ e, 2 ≤ (m.ownCells v).length)
    (hmid : (m.ownCells (e[(e.length - 1) / 2]'(by omega))).length ≤ 2) :
    (m.bigEdgeOwnCells e).length = 2 ∧
      m.bigEdgeOwnCells e = m.ownCells (e[(e.length - 1) / 2]'(by omega)) := by
  have hi : (e.length - 1) / 2 < e.length := by omega
  have hE := m.bigEdgeOwnCells_mid e (by omega) hi
  refine ⟨?_, hE⟩
  rw [hE]
  have := hint _ (List.getElem_mem hi)
  omega

/-- the same for position `i` of `Frame.internal_big_edges`: the classification of the code supplies `hint` -/
theorem ownCells_two_of_internal_interior_point (m : Mesh) (earr : List (List Id)) (hn : earr.Nodup)
    (i : Nat) (hi : i < earr.length) (hint : i ∈ m.internalIdx earr) (hlen : 3 ≤ earr[i].length)
    (hmid : (m.ownCells (earr[i][(earr[i].length - 1) / 2]'(by omega))).length ≤ 2) :
    (m.bigEdgeOwnCells earr[i]).length = 2 ∧
      m.bigEdgeOwnCells earr[i] = m.ownCells (earr[i][(earr[i].length - 1) / 2]'(by omega)) := by
  have h := ((internal_iff m earr hn i hi).1 hint).1
  have e : earr.getD i [] = earr[i] := by simp [List.getD_eq_getElem?_getD, hi]
  rw [e] at h
  exact ownCells_two_of_interior_point m earr[i] hlen h hmid

/-- C08, own_cells clause, two-point interfaces, as what the code computes: the cells common to both end vertices
    (in the order of the first end's list).  Nothing forces this list to have two elements, see the witness below. -/
theorem ownCells_two_point (m : Mesh) (a b : Id) :
    m.bigEdgeOwnCells [a, b] = listInter (m.ownCells a) (m.ownCells b) := rfl

/-- two cells (1 above, 2 below) separated by the bent interface `1 – 2 – 3`, closed on the left by cell 3 and on the
    right by cell 4; vertices 1 and 3 are junctions of three cells, vertex 2 is the interior point of the interface -/
def bentInterface : Mesh :=
  Mesh.ofLists
    [(1, 0, 0), (2, 1, 1), (3, 2, 0), (6, 0, 2), (7, 2, 2), (8, 0, -2), (9, 2, -2), (10, -2, 0), (11, 4, 0)]
    [(1, 1, 2), (2, 2, 3), (3, 3, 7), (4, 7, 6), (5, 6, 1), (6, 1, 8), (7, 8, 9), (8, 9, 3), (9, 6, 10), (10, 10, 8),
     (11, 9, 11), (12, 11, 7)]
    [(1, [1, 2, 3, 7, 6]), (2, [1, 8, 9, 3, 2]), (3, [1, 6, 10, 8]), (4, [3, 9, 11, 7])]

/-- the hypotheses of `ownCells_two_of_interior_point` / `ownCells_two_of_internal_interior_point` are satisfiable:
    interface 0 of `bentInterface` is `1 – 2 – 3`, internal, and its middle vertex 2 lies in the cells 1 and 2 -/
example : bentInterface.Consistent = true ∧ bentInterface.bigEdgesList[0]? = some [1, 2, 3] ∧
    0 ∈ bentInterface.internalIdx bentInterface.bigEdgesList ∧
    (∀ v ∈ ([1, 2, 3] : List Id), 2 ≤ (bentInterface.ownCells v).length) ∧
    bentInterface.ownCells 2 = [1, 2] := by decide +kernel
example : (bentInterface.bigEdgeOwnCells [1, 2, 3]).length = 2 ∧
    bentInterface.bigEdgeOwnCells [1, 2, 3] = bentInterface.ownCells 2 :=
  ownCells_two_of_interior_point bentInterface [1, 2, 3] (by decide) (by decide +kernel) (by decide +kernel)

/-- 3×3 square lattice on the vertices `4·row + column` (rows, columns 0…3) without its central cell
    `[5, 6, 10, 9]`; cell `k` has the corners `k, k+1, k+5, k+4` -/
def holeLattice : Mesh :=
  Mesh.ofLists
    [(0, 0, 0), (1, 1, 0), (2, 2, 0), (3, 3, 0), (4, 0, 1), (5, 1, 1), (6, 2, 1), (7, 3, 1), (8, 0, 2), (9, 1, 2), (10, 2, 2), (11, 3, 2), (12, 0, 3), (13, 1, 3), (14, 2, 3), (15, 3, 3)]
    [(0, 0, 1), (1, 1, 2), (2, 2, 3), (4, 4, 5), (5, 5, 6), (6, 6, 7), (8, 8, 9), (9, 9, 10), (10, 10, 11), (12, 12, 13), (13, 13, 14), (14, 14, 15), (100, 0, 4), (101, 1, 5), (102, 2, 6), (103, 3, 7), (104, 4, 8), (105, 5, 9), (106, 6, 10), (107, 7, 11), (108, 8, 12), (109, 9, 13), (110, 10, 14), (111, 11, 15)]
    [(0, [0, 1, 5, 4]), (1, [1, 2, 6, 5]), (2, [2, 3, 7, 6]), (4, [4, 5, 9, 8]), (6, [6, 7, 11, 10]), (8, [8, 9, 13, 12]), (9, [9, 10, 14, 13]), (10, [10, 11, 15, 14])]

/-- known finding D27, machine-checked: in the consistent mesh `holeLattice` the two-point interface `6 – 5` on the
    rim of the hole joins two junctions of three cells, is classified internal by all three copies of the predicate,
    and its `own_cells` is the single cell 1 — not two cells -/
theorem ownCells_two_point_three_cells_witness :
    holeLattice.Consistent = true ∧
    holeLattice.bigEdgesList[5]? = some [6, 5] ∧
    5 ∈ holeLattice.internalIdx holeLattice.bigEdgesList ∧
    holeLattice.bigEdgeExternal [6, 5] = false ∧
    (holeLattice.ownCells 6).length = 3 ∧ (holeLattice.ownCells 5).length = 3 ∧
    holeLattice.bigEdgeOwnCells [6, 5] = [1] ∧
    (holeLattice.bigEdgeOwnCells [6, 5]).length ≠ 2 := by decide +kernel

/-! non-vacuity: a hexagon-like cycle with junctions 10, 20, 30 -/
example : cellPaths (fun v => decide (v ≥ 10)) [1, 2, 10, 3, 4, 20, 5, 30, 6]
    = [[10, 3, 4, 20], [20, 5, 30], [30, 6, 1, 2, 10]] := by decide

example : dedup [[1, 2, 3], [3, 2, 1], [4, 5], [1, 2, 3]] = [[1, 2, 3], [4, 5]] := by decide

/-! the hypotheses used above are satisfiable -/
/-- `h` of `cellGroups_flatten_rotation`, `cellPaths_ne_nil`, `cellPaths_partition` -/
example : ∃ a ∈ [1, 2, 10, 3, 4, 20, 5, 30, 6], (fun v : Nat => decide (v ≥ 10)) a = true :=
  ⟨10, by decide, by decide⟩

/-- `h` of `cellPaths_none` -/
example : ∀ a ∈ [1, 2, 3], (fun v : Nat => decide (v ≥ 10)) a = false := by decide

/-- `hn`, `hi` of the classification theorems -/
example : ([[1, 2, 3], [3, 4], [4, 5, 1]] : List (List Id)).Nodup ∧
    1 < ([[1, 2, 3], [3, 4], [4, 5, 1]] : List (List Id)).length := by decide

end Forsys
