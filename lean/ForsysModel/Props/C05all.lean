/-
  Umbrella of property C05: the soundness of the per-run certificates — KKT with slack, stationarity, exact solution —,
  the shape of the augmented system and "mean one for consistent systems" (Props/C05.lean), and the quantitative
  end-to-end bounds that tie a passing certificate to the recovered tensions: a certified vector is within
  2(ε·n + δ)/σ² of the truth on the assembled static system, and within (2k·e² + 2(ε·n + δ))/σ² on the dynamic system
  with a right-hand side rounded to three decimals (Props/C05bound.lean).
  lean/props.json names this module for C05, so that `./check C05` builds and audits both.
-/
import ForsysModel.Props.C05
import ForsysModel.Props.C05bound
import ForsysModel.Props.C05more
