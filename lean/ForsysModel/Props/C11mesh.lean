/-
  Properties C11 / C09, mesh level — `generate_mesh(vertices, edges, cells, ne, replace_short_edges=False)`
  (forsys/virtual_edges.py; model `Mesh.generateMesh m ne false`, ForsysModel/Model/Resample.lean) returns a
  consistent vertex–edge–cell mesh.

  What the function does without merging: every interface of `create_edges_new` is resampled by `pick ne`; the vertices
  on no resampled interface are taken out of the cycles of their cells and out of the vertex dictionary; ALL mesh
  edges are discarded and rebuilt, numbered from 0, from the consecutive pairs of the resampled interfaces; cells left
  without any vertex are dropped.

  Results.
  * `generateMesh_false_shape_cells`, `generateMesh_false_shape_edges` — the exact cells and mesh edges of the result.
  * `generateMesh_false_five_clauses` — on a consistent input, for EVERY `ne`, five of the six clauses of
    `Mesh.Consistent` hold for the result (keys, own-edges, own-cells, references, no repeated vertex);
    only "consecutive vertices of a cycle are joined by a mesh edge" can fail.
  * `generateMesh_false_consistent` — that last clause, hence full consistency, under `1 ≤ ne` and two decidable
    conditions on the input: `cellsAnchored` (a cell without any junction keeps none of its vertices — it is then dropped
    as a whole) and `picksAgree` (no interface drops a vertex that another interface keeps).  Each of the three
    hypotheses has a `_witness` below; both conditions fail only on degenerate inputs (two-vertex cells).
  * `picksAgree_of_disjoint` — `picksAgree` follows, for every `ne ≥ 1`, from the `ne`-independent condition that no
    interior vertex of an interface lies on another interface.
  * `generateMesh_false_end_kept`, `generateMesh_false_junction_kept` — interface ends, and junctions (three or more
    mesh edges) lying on a cell, survive with their exact id and coordinates.
  * "parallel interfaces collapsing" (two interfaces between the same junctions resampled to the same vertex list) does
    NOT break `Mesh.Consistent`: the clause list has no "at most one mesh edge between two vertices";
    `generateMesh_parallel_collapse_witness` exhibits the parallel mesh edges and the two cells with identical cycles.
-/
import ForsysModel.Proofs.C11mesh

namespace Forsys
open Mesh

/-! ### vocabulary -/

/-- the vertex ids kept by the resampling: those on some resampled interface (`used` in the model) -/
def Mesh.keptIds (m : Mesh) (ne : Nat) : List Id := (m.bigEdgesList.map (pick ne)).flatten

/-- the consecutive pairs of the resampled interfaces, in the order in which the mesh edges are rebuilt -/
def Mesh.rebuiltSegments (m : Mesh) (ne : Nat) : List (Id × Id) :=
  ((m.bigEdgesList.map (pick ne)).map fun be => List.zip be be.tail).flatten

/-- every cell has a junction (a vertex with three or more mesh edges), or keeps none of its vertices -/
def Mesh.cellsAnchored (m : Mesh) (ne : Nat) : Bool :=
  m.cells.all fun p => p.2.verts.any m.isJunction || p.2.verts.all fun v => !((m.keptIds ne).contains v)

/-- no interface drops a vertex that is kept (by another interface) -/
def Mesh.picksAgree (m : Mesh) (ne : Nat) : Bool :=
  m.bigEdgesList.all fun e => e.all fun v => !((m.keptIds ne).contains v) || (pick ne e).contains v

/-- no interior vertex of an interface lies on a different interface (independent of `ne`) -/
def Mesh.interfacesDisjoint (m : Mesh) : Bool :=
  m.bigEdgesList.all fun e => m.bigEdgesList.all fun e' =>
    e == e' || (e.tail.dropLast).all fun v => !e'.contains v

theorem cellsAnchored_iff (m : Mesh) (ne : Nat) : m.cellsAnchored ne = true ↔
    ∀ q ∈ m.cells, (∃ a ∈ q.2.verts, m.isJunction a = true) ∨ ∀ v ∈ q.2.verts, v ∉ m.keptIds ne := by
  simp [cellsAnchored, List.all_eq_true, List.any_eq_true]

theorem picksAgree_iff (m : Mesh) (ne : Nat) : m.picksAgree ne = true ↔
    ∀ e ∈ m.bigEdgesList, ∀ v ∈ e, v ∈ m.keptIds ne → v ∈ pick ne e := by
  simp only [picksAgree, List.all_eq_true, Bool.or_eq_true, Bool.not_eq_eq_eq_not, Bool.not_true,
    List.contains_eq_mem, decide_eq_false_iff_not, decide_eq_true_eq]
  constructor
  · intro h e he v hv hk
    rcases h e he v hv with h1 | h1
    · exact absurd hk h1
    · exact h1
  · intro h e he v hv
    by_cases hk : v ∈ m.keptIds ne
    · exact Or.inr (h e he v hv hk)
    · exact Or.inl hk

/-! ### the exact shape of the result -/

/-- the cells of the result: every cell keeps its key, id and `same` flag, its cycle is the old cycle restricted to
    the kept vertices (order preserved), and exactly the cells left without vertex are dropped -/
theorem generateMesh_false_shape_cells (m : Mesh) (ne : Nat) (h : m.Consistent = true) :
    (m.generateMesh ne false).mesh.cells =
      (m.cells.map fun q => (q.1, { q.2 with verts := q.2.verts.filter fun x => (m.keptIds ne).contains x })).filter
        fun p => !p.2.verts.isEmpty := by
  rw [consistent_iff] at h
  rw [generateMesh_false_eq]
  exact gmR_cells m _ _ h.1 h.2.2.1 h.2.2.2.1 h.2.2.2.2.1

/-- the mesh edges of the result: the `i`-th consecutive pair of the resampled interfaces becomes mesh edge `i`
    (no hypothesis on the input) -/
theorem generateMesh_false_shape_edges (m : Mesh) (ne : Nat) :
    (m.generateMesh ne false).mesh.edges =
      (List.zip (List.range (m.rebuiltSegments ne).length) (m.rebuiltSegments ne)).map fun p =>
        ((p.1 : Int), { id := (p.1 : Int), v1 := p.2.1, v2 := p.2.2 }) := by
  rw [generateMesh_false_eq]
  exact gmR_edges m _ _ _

/-! ### the clause ladder -/

/-- (i)–(iii), (v) and clause (1): on a consistent input and for every `ne` (even 0) the result has all objects
    stored under their own unique ids, every vertex lists exactly the mesh edges ending at it and exactly the cells it
    lies on, every vertex referenced by a rebuilt mesh edge or by a cell exists, and no cell repeats a vertex -/
theorem generateMesh_false_five_clauses (m : Mesh) (ne : Nat) (h : m.Consistent = true) :
    (m.generateMesh ne false).mesh.keysOk = true ∧ (m.generateMesh ne false).mesh.ownEdgesOk = true ∧
    (m.generateMesh ne false).mesh.ownCellsOk = true ∧ (m.generateMesh ne false).mesh.refsOk = true ∧
    (m.generateMesh ne false).mesh.cellsNodup = true := by
  rw [consistent_iff] at h
  obtain ⟨a1, a2, a3, a4, a5, _⟩ := generateMesh_false_clauses m ne h
  exact ⟨(keysOk_iff _).mpr a1, (ownEdgesOk_iff _).mpr a2, (ownCellsOk_iff _).mpr a3, (refsOk_iff _).mpr a4,
    (cellsNodup_iff _).mpr a5⟩

/-- (i) keys: every vertex, rebuilt mesh edge and cell of the result is stored under its own id, ids are unique -/
theorem generateMesh_false_keysOk (m : Mesh) (ne : Nat) (h : m.Consistent = true) :
    (m.generateMesh ne false).mesh.keysOk = true := (generateMesh_false_five_clauses m ne h).1

/-- (v) a vertex of the result lists a cell exactly when it occurs in that cell's (shortened) cycle -/
theorem generateMesh_false_ownCellsOk (m : Mesh) (ne : Nat) (h : m.Consistent = true) :
    (m.generateMesh ne false).mesh.ownCellsOk = true := (generateMesh_false_five_clauses m ne h).2.2.1

/-- (ii) every vertex referenced by a rebuilt mesh edge or by a cell exists in the result -/
theorem generateMesh_false_refsOk (m : Mesh) (ne : Nat) (h : m.Consistent = true) :
    (m.generateMesh ne false).mesh.refsOk = true := (generateMesh_false_five_clauses m ne h).2.2.2.1

/-- (iii) no cell of the result repeats a vertex -/
theorem generateMesh_false_cellsNodup (m : Mesh) (ne : Nat) (h : m.Consistent = true) :
    (m.generateMesh ne false).mesh.cellsNodup = true := (generateMesh_false_five_clauses m ne h).2.2.2.2

/-- (iv) the heart: consecutive vertices of every resulting cell cycle (closing pair included) are joined by a
    rebuilt mesh edge.  Derived from C08's partition facts (`cellPaths_cover`, `cellPaths_ends`, `dedup_complete`): the
    resulting cycle of a cell with a junction is, up to rotation, the chain of the resampled images of its interfaces. -/
theorem generateMesh_false_cyclesJoined (m : Mesh) (ne : Nat) (h : m.Consistent = true) (hne : 1 ≤ ne)
    (hanch : m.cellsAnchored ne = true) (hagree : m.picksAgree ne = true) :
    (m.generateMesh ne false).mesh.cyclesJoined = true := by
  rw [consistent_iff] at h
  rw [cyclesJoined_iff]
  exact (generateMesh_false_clauses m ne h).2.2.2.2.2
    (generateMesh_false_hcyc m ne h hne ((cellsAnchored_iff m ne).mp hanch) ((picksAgree_iff m ne).mp hagree))

/-- TARGET: resampling without merging keeps the mesh consistent -/
theorem generateMesh_false_consistent (m : Mesh) (ne : Nat) (h : m.Consistent = true) (hne : 1 ≤ ne)
    (hanch : m.cellsAnchored ne = true) (hagree : m.picksAgree ne = true) :
    (m.generateMesh ne false).mesh.Consistent = true := by
  obtain ⟨a1, a2, a3, a4, a5⟩ := generateMesh_false_five_clauses m ne h
  have a6 := generateMesh_false_cyclesJoined m ne h hne hanch hagree
  simp [Mesh.Consistent, a1, a2, a3, a4, a5, a6]

/-! ### simpler sufficient conditions -/

/-- if every cell has a junction, `cellsAnchored` holds for every `ne` -/
theorem cellsAnchored_of_junctions (m : Mesh) (ne : Nat)
    (hj : (m.cells.all fun p => p.2.verts.any m.isJunction) = true) : m.cellsAnchored ne = true := by
  simp only [cellsAnchored, List.all_eq_true] at hj ⊢
  intro p hp
  simp [hj p hp]

/-- a vertex of a list is interior (neither first nor last position) or it is the first or the last element -/
theorem mem_interior_or_end {α : Type} (e : List α) (v : α) (hv : v ∈ e) :
    v ∈ e.tail.dropLast ∨ e.head? = some v ∨ e.getLast? = some v := by
  cases e with
  | nil => simp at hv
  | cons a t =>
    rcases List.mem_cons.mp hv with rfl | ht
    · right; left; rfl
    · have hne : t ≠ [] := List.ne_nil_of_mem ht
      have hsplit := List.dropLast_concat_getLast hne
      rw [← hsplit] at ht
      rcases List.mem_append.mp ht with h1 | h1
      · left; exact h1
      · right; right
        simp only [List.mem_singleton] at h1
        obtain ⟨b, t', rfl⟩ := List.exists_cons_of_ne_nil hne
        rw [List.getLast?_cons_cons, List.getLast?_eq_some_getLast hne, h1]

/-- interfaces that share interior vertices with no other interface are resampled independently of each other -/
theorem picksAgree_of_disjoint (m : Mesh) (ne : Nat) (hne : 1 ≤ ne) (hd : m.interfacesDisjoint = true) :
    m.picksAgree ne = true := by
  rw [picksAgree_iff]
  intro e he v hv hk
  simp only [keptIds, List.mem_flatten, List.mem_map] at hk
  obtain ⟨l, ⟨e', he', rfl⟩, hvl⟩ := hk
  by_cases hee : e = e'
  · subst hee; exact hvl
  · have hv' : v ∈ e' := (pick_sublist ne e').subset hvl
    simp only [interfacesDisjoint, List.all_eq_true, Bool.or_eq_true, beq_iff_eq, Bool.not_eq_eq_eq_not,
      Bool.not_true, List.contains_eq_mem, decide_eq_false_iff_not] at hd
    rcases hd e he e' he' with h1 | h1
    · exact absurd h1 hee
    · rcases mem_interior_or_end e v hv with h2 | h2 | h2
      · exact absurd hv' (h1 v h2)
      · exact List.mem_of_head? (by rw [pick_head ne (by omega), h2])
      · exact List.mem_of_getLast? (by rw [pick_getLast, h2])

/-- the form with `ne`-independent hypotheses: every cell has a junction, interfaces are interior-disjoint -/
theorem generateMesh_false_consistent_of_disjoint (m : Mesh) (ne : Nat) (h : m.Consistent = true) (hne : 1 ≤ ne)
    (hj : (m.cells.all fun p => p.2.verts.any m.isJunction) = true) (hd : m.interfacesDisjoint = true) :
    (m.generateMesh ne false).mesh.Consistent = true :=
  generateMesh_false_consistent m ne h hne (cellsAnchored_of_junctions m ne hj) (picksAgree_of_disjoint m ne hne hd)

/-! ### junctions stay where they are -/

/-- every end of an interface is a vertex of the result, with the same id and coordinates -/
theorem generateMesh_false_end_kept (m : Mesh) (ne : Nat) (hne : 1 ≤ ne) (e : List Id) (he : e ∈ m.bigEdgesList)
    (v : Id) (hv : e.head? = some v ∨ e.getLast? = some v) :
    ((m.generateMesh ne false).mesh.vertex? v).map (fun x => (x.id, x.x, x.y)) =
        (m.vertex? v).map (fun x => (x.id, x.x, x.y)) ∧
      (m.generateMesh ne false).mesh.pt v = m.pt v ∧
      ((m.generateMesh ne false).mesh.vertex? v).isSome = (m.vertex? v).isSome := by
  have hk := generateMesh_keeps_ends m ne (by omega) e he v hv
  have h1 := generateMesh_vertex_kept m ne v hk
  exact ⟨h1, pt_of_proj m _ v h1⟩

/-- C11 "junctions are kept at their exact position", mesh level: a vertex with three or more mesh edges that lies on
    some cell of a consistent mesh is a vertex of the result, at the same coordinates -/
theorem generateMesh_false_junction_kept (m : Mesh) (ne : Nat) (hne : 1 ≤ ne) (h : m.Consistent = true)
    (q : Id × Cell) (hq : q ∈ m.cells) (v : Id) (hv : v ∈ q.2.verts) (hj : m.isJunction v = true) :
    ((m.generateMesh ne false).mesh.vertex? v).isSome = true ∧ (m.generateMesh ne false).mesh.pt v = m.pt v := by
  obtain ⟨P, hP, hhead⟩ := cellPaths_head_of_junction m.isJunction q.2.verts v hv hj
  rw [consistent_iff] at h
  have hex : (m.vertex? v).isSome = true := by
    simp only [vertex?, alGet?_isSome_iff]
    exact (h.2.2.2.1.2 q hq).2 v hv
  rcases bigEdges_complete m q hq P hP with hb | hb
  · obtain ⟨_, h2, h3⟩ := generateMesh_false_end_kept m ne hne P hb v (Or.inl hhead)
    exact ⟨h3.trans hex, h2⟩
  · obtain ⟨_, h2, h3⟩ := generateMesh_false_end_kept m ne hne P.reverse hb v
      (Or.inr (by rw [List.getLast?_reverse]; exact hhead))
    exact ⟨h3.trans hex, h2⟩

/-! ### non-vacuity: two cells separated by a four-point interface, between two further four-point interfaces -/

/-- junctions 0 and 3; interfaces 0–1–2–3 (shared), 0–4–5–3 (upper border), 0–6–7–3 (lower border) -/
def threeArcs : Mesh := ofLists
  [(0, 0, 0), (1, 1, 0), (2, 2, 0), (3, 3, 0), (4, 1, 1), (5, 2, 1), (6, 1, -1), (7, 2, -1)]
  [(0, 0, 1), (1, 1, 2), (2, 2, 3), (3, 0, 4), (4, 4, 5), (5, 5, 3), (6, 0, 6), (7, 6, 7), (8, 7, 3)]
  [(0, [0, 1, 2, 3, 5, 4]), (1, [0, 6, 7, 3, 2, 1])]

/-- all hypotheses of `generateMesh_false_consistent` and of `generateMesh_false_consistent_of_disjoint` hold for
    `threeArcs` with `ne = 2`, and the resampling really removes vertices and renumbers the mesh edges -/
example : threeArcs.Consistent = true ∧ threeArcs.cellsAnchored 2 = true ∧ threeArcs.picksAgree 2 = true ∧
    (threeArcs.cells.all fun p => p.2.verts.any threeArcs.isJunction) = true ∧
    threeArcs.interfacesDisjoint = true ∧
    threeArcs.bigEdgesList = [[0, 1, 2, 3], [3, 5, 4, 0], [0, 6, 7, 3]] ∧
    threeArcs.keptIds 2 = [0, 2, 3, 3, 4, 0, 0, 7, 3] := by decide +kernel

example : (threeArcs.generateMesh 2 false).mesh.Consistent = true :=
  generateMesh_false_consistent threeArcs 2 (by decide +kernel) (by decide) (by decide +kernel) (by decide +kernel)

example : ((threeArcs.generateMesh 2 false).mesh.cells.map fun p => (p.1, p.2.verts)) =
      [(0, [0, 2, 3, 4]), (1, [0, 7, 3, 2])] ∧
    ((threeArcs.generateMesh 2 false).mesh.edges.map fun p => (p.1, p.2.v1, p.2.v2)) =
      [(0, 0, 2), (1, 2, 3), (2, 3, 4), (3, 4, 0), (4, 0, 7), (5, 7, 3)] ∧
    (threeArcs.generateMesh 2 false).mesh.vertices.map (·.1) = [0, 2, 3, 4, 7] := by decide +kernel

/-- the hypotheses of `generateMesh_false_end_kept` / `generateMesh_false_junction_kept`: vertex 3 ends the interface
    0–1–2–3, has three mesh edges and lies on cell 0; it stays at (3, 0) -/
example : [0, 1, 2, 3] ∈ threeArcs.bigEdgesList ∧ ([0, 1, 2, 3] : List Id).getLast? = some 3 ∧
    (0, ({ id := 0, verts := [0, 1, 2, 3, 5, 4] } : Cell)).2.verts.contains 3 = true ∧
    threeArcs.isJunction 3 = true ∧ threeArcs.pt 3 = ⟨3, 0⟩ ∧
    (threeArcs.generateMesh 2 false).mesh.pt 3 = ⟨3, 0⟩ := by decide +kernel

/-! ### a 2 × 2 block of quadrilateral cells with one interior point on every side -/

/-- vertex `5·row + column` on the lines of a 5 × 5 grid; the centre 12 and the side midpoints 2, 10, 14, 22 are
    junctions, the four outer corners are ordinary points of the five-point border interfaces -/
def quadBlock : Mesh := ofLists
  [(0, 0, 0), (1, 1, 0), (2, 2, 0), (3, 3, 0), (4, 4, 0), (5, 0, 1), (7, 2, 1), (9, 4, 1), (10, 0, 2), (11, 1, 2),
   (12, 2, 2), (13, 3, 2), (14, 4, 2), (15, 0, 3), (17, 2, 3), (19, 4, 3), (20, 0, 4), (21, 1, 4), (22, 2, 4),
   (23, 3, 4), (24, 4, 4)]
  [(0, 0, 1), (1, 1, 2), (2, 2, 3), (3, 3, 4), (4, 10, 11), (5, 11, 12), (6, 12, 13), (7, 13, 14), (8, 20, 21),
   (9, 21, 22), (10, 22, 23), (11, 23, 24), (12, 0, 5), (13, 5, 10), (14, 10, 15), (15, 15, 20), (16, 2, 7),
   (17, 7, 12), (18, 12, 17), (19, 17, 22), (20, 4, 9), (21, 9, 14), (22, 14, 19), (23, 19, 24)]
  [(0, [0, 1, 2, 7, 12, 11, 10, 5]), (1, [2, 3, 4, 9, 14, 13, 12, 7]), (2, [10, 11, 12, 17, 22, 21, 20, 15]),
   (3, [12, 13, 14, 19, 24, 23, 22, 17])]

/-- the `ne`-independent hypotheses hold for `quadBlock` -/
example : quadBlock.Consistent = true ∧ (quadBlock.cells.all fun p => p.2.verts.any quadBlock.isJunction) = true ∧
    quadBlock.interfacesDisjoint = true ∧ quadBlock.bigEdgesList.length = 8 := by decide +kernel

/-- hence every resampling of `quadBlock` is consistent -/
example (ne : Nat) (hne : 1 ≤ ne) : (quadBlock.generateMesh ne false).mesh.Consistent = true :=
  generateMesh_false_consistent_of_disjoint quadBlock ne (by decide +kernel) hne (by decide +kernel) (by decide +kernel)

/-- with `ne = 2` the five-point border interfaces keep their middle point (an outer corner) and lose the two others -/
example : ((quadBlock.generateMesh 2 false).mesh.cells.map fun p => (p.1, p.2.verts)) =
    [(0, [0, 2, 7, 12, 11, 10]), (1, [2, 4, 14, 13, 12, 7]), (2, [10, 11, 12, 17, 22, 20]),
     (3, [12, 13, 14, 24, 22, 17])] := by decide +kernel

/-! ### necessity of the hypotheses -/

/-- a two-vertex cell [1, 2] sitting on the mesh edge 1–2 in the middle of the interface 10–1–2–11: it has no junction -/
def twoGonOnPath : Mesh := ofLists [(10, 0, 0), (1, 1, 0), (2, 2, 0), (11, 3, 0), (12, 1, 2), (13, 1, -2)]
  [(0, 10, 1), (1, 1, 2), (2, 2, 11), (3, 11, 12), (4, 12, 10), (5, 11, 13), (6, 13, 10)]
  [(0, [10, 1, 2, 11, 12]), (1, [1, 2]), (2, [10, 13, 11, 2, 1])]

/-- a two-vertex cell [0, 1] at the junction 0: its outline is the closed interface 0–1–0, and vertex 1 is also an
    interior point of the interface 0–1–2–3 -/
def twoGonAtJunction : Mesh := ofLists [(0, 0, 0), (1, 1, 0), (2, 2, 0), (3, 3, 0), (4, 1, 2), (5, 1, -2)]
  [(0, 0, 1), (1, 1, 2), (2, 2, 3), (3, 3, 4), (4, 4, 0), (5, 3, 5), (6, 5, 0)]
  [(0, [0, 1, 2, 3, 4]), (1, [0, 1]), (2, [0, 5, 3, 2, 1])]

/-- NECESSARY: `cellsAnchored`.  With `ne = 2` the interface 10–1–2–11 keeps vertex 2 and drops vertex 1; the junction-free
    cell [1, 2] becomes the one-vertex cycle [2] whose closing pair (2, 2) has no mesh edge.  `picksAgree` holds.
    Only the clause `cyclesJoined` fails. -/
theorem generateMesh_anchored_witness :
    twoGonOnPath.Consistent = true ∧ twoGonOnPath.picksAgree 2 = true ∧ twoGonOnPath.cellsAnchored 2 = false ∧
    (twoGonOnPath.generateMesh 2 false).mesh.Consistent = false ∧
    (twoGonOnPath.generateMesh 2 false).mesh.failing = ["cyclesJoined"] ∧
    ((twoGonOnPath.generateMesh 2 false).mesh.cells.map fun p => (p.1, p.2.verts)) =
      [(0, [10, 2, 11, 12]), (1, [2]), (2, [10, 13, 11, 2])] := by decide +kernel

/-- NECESSARY: `picksAgree`.  With `ne = 2` the closed interface 0–1–0 keeps vertex 1, the interface 0–1–2–3 drops it:
    cell 0 keeps the cycle [0, 1, 2, 3, 4] but the rebuilt mesh edges are 0–2, 2–3, … and 0–1, 1–0; the pair (1, 2) is not
    joined.  `cellsAnchored` holds (every cell has a junction). -/
theorem generateMesh_picksAgree_witness :
    twoGonAtJunction.Consistent = true ∧ twoGonAtJunction.cellsAnchored 2 = true ∧
    (twoGonAtJunction.cells.all fun p => p.2.verts.any twoGonAtJunction.isJunction) = true ∧
    twoGonAtJunction.picksAgree 2 = false ∧ twoGonAtJunction.interfacesDisjoint = false ∧
    (twoGonAtJunction.generateMesh 2 false).mesh.Consistent = false ∧
    (twoGonAtJunction.generateMesh 2 false).mesh.failing = ["cyclesJoined"] ∧
    (twoGonAtJunction.generateMesh 2 false).mesh.joined 1 2 = false := by decide +kernel

/-- NECESSARY: `1 ≤ ne`.  With `ne = 0` (Python: ZeroDivisionError in `len(e)/ne`) the rule keeps only the last vertex of
    every interface, no mesh edge is rebuilt, and the two cells [0, 3] have unjoined pairs -/
theorem generateMesh_ne_zero_witness :
    threeArcs.Consistent = true ∧ threeArcs.cellsAnchored 0 = true ∧
    (threeArcs.generateMesh 0 false).mesh.edges.length = 0 ∧
    (threeArcs.generateMesh 0 false).mesh.Consistent = false ∧
    (threeArcs.generateMesh 0 false).mesh.failing = ["cyclesJoined"] := by decide +kernel

/-! ### special cases, said precisely -/

/-- "parallel interfaces collapsing": with `ne = 1` the three interfaces of `threeArcs` between the junctions 0 and 3 are
    all resampled to the two-point list of their ends.  All hypotheses of `generateMesh_false_consistent` hold and the
    result IS consistent in the sense of `Mesh.Consistent` — but it has three parallel mesh edges 0–3 and both cells have
    the same two-vertex cycle [0, 3].  (The harness rejects such inputs before comparing; `Mesh.Consistent` has no clause
    "at most one mesh edge between two vertices".) -/
theorem generateMesh_parallel_collapse_witness :
    threeArcs.Consistent = true ∧ threeArcs.cellsAnchored 1 = true ∧ threeArcs.picksAgree 1 = true ∧
    threeArcs.bigEdgesList.map (pick 1) = [[0, 3], [3, 0], [0, 3]] ∧
    (threeArcs.generateMesh 1 false).mesh.Consistent = true ∧
    ((threeArcs.generateMesh 1 false).mesh.edges.map fun p => (p.1, p.2.v1, p.2.v2)) =
      [(0, 0, 3), (1, 3, 0), (2, 0, 3)] ∧
    ((threeArcs.generateMesh 1 false).mesh.cells.map fun p => (p.1, p.2.verts)) = [(0, [0, 3]), (1, [0, 3])] := by
  decide +kernel

/-- a lone triangle: no vertex has three mesh edges -/
def loneTriangle : Mesh := ofLists [(0, 0, 0), (1, 1, 0), (2, 0, 1)] [(0, 0, 1), (1, 1, 2), (2, 2, 0)] [(0, [0, 1, 2])]

/-- a cell without any junction contributes no interface (`cellPaths_none`); if no other interface passes through it, all
    its vertices are removed and the cell itself is dropped: resampling a lone cell returns the EMPTY mesh, for every
    `ne` (here 1 and 5), and the hypotheses of `generateMesh_false_consistent` hold — consistency is preserved because
    the cell is lost as a whole -/
theorem generateMesh_lone_cell_witness :
    loneTriangle.Consistent = true ∧ loneTriangle.bigEdgesList = [] ∧
    loneTriangle.cellsAnchored 1 = true ∧ loneTriangle.picksAgree 1 = true ∧
    (loneTriangle.generateMesh 1 false).mesh.cells.length = 0 ∧
    (loneTriangle.generateMesh 1 false).mesh.vertices.length = 0 ∧
    (loneTriangle.generateMesh 5 false).mesh.cells.length = 0 ∧
    (loneTriangle.generateMesh 1 false).mesh.Consistent = true := by decide +kernel

/-- two triangles attached by the single vertex 0 (four mesh edges): the outline of each cell is one closed interface
    0–…–0 -/
def bowtie : Mesh := ofLists [(0, 0, 0), (1, 1, 0), (2, 0, 1), (3, -1, 0), (4, 0, -1)]
  [(0, 0, 1), (1, 1, 2), (2, 2, 0), (3, 0, 3), (4, 3, 4), (5, 4, 0)] [(0, [0, 1, 2]), (1, [0, 3, 4])]

/-- a cell attached by one vertex: its outline is the closed interface [0, 1, 2, 0].  With `ne = 2` it becomes [0, 2, 0]: a
    two-vertex cell joined by two parallel mesh edges; with `ne = 1` it becomes [0, 0]: a one-vertex cell with a loop mesh
    edge 0–0.  Both results are consistent (covered by `generateMesh_false_consistent`) -/
theorem generateMesh_closed_interface_witness :
    bowtie.Consistent = true ∧ bowtie.bigEdgesList = [[0, 1, 2, 0], [0, 3, 4, 0]] ∧
    bowtie.cellsAnchored 1 = true ∧ bowtie.picksAgree 1 = true ∧
    bowtie.cellsAnchored 2 = true ∧ bowtie.picksAgree 2 = true ∧
    ((bowtie.generateMesh 2 false).mesh.cells.map fun p => (p.1, p.2.verts)) = [(0, [0, 2]), (1, [0, 4])] ∧
    ((bowtie.generateMesh 2 false).mesh.edges.map fun p => (p.1, p.2.v1, p.2.v2)) =
      [(0, 0, 2), (1, 2, 0), (2, 0, 4), (3, 4, 0)] ∧
    ((bowtie.generateMesh 1 false).mesh.cells.map fun p => (p.1, p.2.verts)) = [(0, [0]), (1, [0])] ∧
    ((bowtie.generateMesh 1 false).mesh.edges.map fun p => (p.1, p.2.v1, p.2.v2)) = [(0, 0, 0), (1, 0, 0)] ∧
    (bowtie.generateMesh 1 false).mesh.Consistent = true := by decide +kernel

/-- three cells with the same cycle [0, 1, 2] -/
def tripleCover : Mesh := ofLists [(0, 0, 0), (1, 1, 0), (2, 0, 1)] [(0, 0, 1), (1, 1, 2), (2, 2, 0)]
  [(0, [0, 1, 2]), (1, [0, 1, 2]), (2, [0, 1, 2])]

/-- why `generateMesh_false_junction_kept` speaks of three mesh edges and not of three cells: `Mesh.Consistent` does not
    imply that a vertex shared by three cells has three mesh edges (that is planarity).  In `tripleCover` vertex 0 lies on
    three cells, has two mesh edges, is no interface end, and is removed -/
theorem generateMesh_junction3_witness :
    tripleCover.Consistent = true ∧ (tripleCover.ownCells 0).length = 3 ∧ tripleCover.isJunction 0 = false ∧
    ((tripleCover.generateMesh 2 false).mesh.vertex? 0).isSome = false := by decide +kernel

/- PENDING (no theorem):
   * `generateMesh m ne true` (the replace_short_edges loop): proved in Props/C11merge.lean when the merged pairs are
     pairwise vertex-disjoint; chains of merges remain without theorem (finding D17, Props/C09join.lean).
   * "no parallel mesh edges / no two cells with the same cycle in the result" under a hypothesis "no two interfaces
     have the same resampled image up to reversal": not stated; `generateMesh_parallel_collapse_witness` shows what
     happens without it.
   * `cellsAnchored` / `interfacesDisjoint` from planarity-type facts: they fail only on degenerate inputs (two-vertex
     cells, see the witnesses); deriving them from `Mesh.Consistent` plus "every cell has at least three vertices"
     needs a walk along the cycle and is not done.
   * "junctions shared by three or more cells are kept": proved for vertices with three or more mesh edges
     (`generateMesh_false_junction_kept`); "three cells ⇒ three mesh edges" is not a consequence of `Mesh.Consistent`
     (`generateMesh_junction3_witness`).
-/

end Forsys
