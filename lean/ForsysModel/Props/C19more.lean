/-
  Property C19 — tessellation lattices match the Voronoi diagram of the given centres (second batch).
  What Props/C19.lean left open, clause by clause:
  * "every bounded region whose diameter is below the cut-off": `remove_infinite_regions` as a whole function
    (order and multiplicity, not only membership), the test `np.max(distance_matrix) > max_distance` as a statement
    about all pairs of corners, monotonicity in the cut-off, invariance under translation of the corners;
  * "one cell for every bounded region": regions with `-1` / empty regions contribute nothing at all (not only no
    cell: no vertex, no edge, no cell number), empty input;
  * "that region's corner points (rounded to three decimals)": the stored vertices are exactly the rounded corners
    of the kept bounded regions — no hypothesis on the regions —, the rounding error is at most 0.0005, grid points
    are fixed;
  * "neighbouring regions share the vertices and mesh edges of their common ridge": a corner common to two regions
    has one id, in both vertex cycles; the ridge walked in both directions gets ids `k` and `-k`.
  Helper lemmas: ForsysModel/Proofs/C19more.lean.
-/
import ForsysModel.Model.Tessellation
import ForsysModel.Props.C19
import ForsysModel.Proofs.C19more

namespace Forsys.Tess

/-! ### the cut-off rule for the whole function -/

/-- `remove_infinite_regions` (collect, then `regions.remove(c)` once per collected entry) is the filter that drops
    every offending region: order and multiplicities of the others are kept, duplicates of an offending region are
    all removed -/
theorem removeInfiniteRegions_eq_filter (verts : List Pt) (md2 : Option Rat) (regions : List (List Int)) :
    removeInfiniteRegions verts md2 regions = regions.filter (fun c => !tooFar verts md2 c) :=
  removeInfiniteRegions_eq_filter' verts md2 regions

/-- the kept regions keep their relative order -/
theorem removeInfiniteRegions_sublist (verts : List Pt) (md2 : Option Rat) (regions : List (List Int)) :
    (removeInfiniteRegions verts md2 regions).Sublist regions := by
  rw [removeInfiniteRegions_eq_filter]; exact List.filter_sublist

/-- the cut-off is idempotent -/
theorem removeInfiniteRegions_idem (verts : List Pt) (md2 : Option Rat) (regions : List (List Int)) :
    removeInfiniteRegions verts md2 (removeInfiniteRegions verts md2 regions) =
      removeInfiniteRegions verts md2 regions := by
  simp only [removeInfiniteRegions_eq_filter, List.filter_filter, Bool.and_self]

/-- `np.max(distance_matrix(P)) ≤ d` says: every two corners are at squared distance at most `d` -/
theorem maxDistSq_le_iff (ps : List Pt) (d : Rat) (hd : 0 ≤ d) :
    maxDistSq ps ≤ d ↔ ∀ p ∈ ps, ∀ q ∈ ps, distSq p q ≤ d := maxDistSq_le_iff' ps d hd

/-- the maximum is attained or is the initial 0: it is never negative -/
theorem maxDistSq_nonneg (ps : List Pt) : 0 ≤ maxDistSq ps := by
  unfold maxDistSq; exact foldl_max_ge_init _ 0

/-- a bounded region is kept iff it was there and all its corners are pairwise within the cut-off -/
theorem kept_iff_diameter (verts : List Pt) (d : Rat) (hd : 0 ≤ d) (regions : List (List Int)) (c : List Int)
    (hb : bounded c = true) :
    c ∈ removeInfiniteRegions verts (some d) regions ↔
      c ∈ regions ∧ ∀ i ∈ c, ∀ j ∈ c, distSq (qv verts i) (qv verts j) ≤ d := by
  rw [cutoff_rule, ← Bool.not_eq_true, tooFar_iff]
  simp only [hb, true_and, not_lt]
  constructor
  · rintro ⟨h1, h2⟩
    exact ⟨h1, fun i hi j hj => (maxDistSq_le_iff' _ d hd).mp h2 _ (List.mem_map_of_mem hi) _ (List.mem_map_of_mem hj)⟩
  · rintro ⟨h1, h2⟩
    refine ⟨h1, (maxDistSq_le_iff' _ d hd).mpr ?_⟩
    intro p hp q hq
    obtain ⟨i, hi, rfl⟩ := List.mem_map.mp hp
    obtain ⟨j, hj, rfl⟩ := List.mem_map.mp hq
    exact h2 i hi j hj

example : (0 : Rat) ≤ 2 ∧ bounded [0, 1, 2, 3] = true := by decide +kernel

/-- the hypothesis `0 ≤ d` of `maxDistSq_le_iff` cannot be dropped (the initial value of the maximum is 0) -/
theorem maxDistSq_le_iff_witness :
    ¬ (maxDistSq [] ≤ (-1 : Rat)) ∧ ∀ p ∈ ([] : List Pt), ∀ q ∈ ([] : List Pt), distSq p q ≤ -1 := by
  refine ⟨by decide +kernel, by simp⟩

/-- a larger cut-off keeps at least the same regions, in the same order -/
theorem cutoff_monotone (verts : List Pt) (d d' : Rat) (h : d ≤ d') (regions : List (List Int)) :
    (removeInfiniteRegions verts (some d) regions).Sublist (removeInfiniteRegions verts (some d') regions) := by
  rw [removeInfiniteRegions_eq_filter, removeInfiniteRegions_eq_filter]
  apply List.monotone_filter_right
  intro c hc
  simp only [Bool.not_eq_true', tooFar, Bool.and_eq_false_imp, decide_eq_false_iff_not, not_lt] at hc ⊢
  exact fun hb => le_trans (hc hb) h

/-- and the infinite cut-off keeps at least what any finite one keeps -/
theorem cutoff_le_infinite (verts : List Pt) (md2 : Option Rat) (regions : List (List Int)) :
    (removeInfiniteRegions verts md2 regions).Sublist (removeInfiniteRegions verts none regions) := by
  rw [cutoff_infinite]; exact removeInfiniteRegions_sublist verts md2 regions

/-- the diameter test does not depend on where the diagram lies: translating all corners leaves it unchanged -/
theorem maxDistSq_shift (t : Pt) (ps : List Pt) : maxDistSq (ps.map (shift t)) = maxDistSq ps :=
  maxDistSq_shift' t ps

/-! ### regions with a vertex at infinity and empty regions contribute nothing -/

/-- dropping the unbounded / empty regions beforehand changes nothing: same vertices, mesh edges, cells and keys -/
theorem unbounded_regions_ignored (verts : List Pt) (regions : List (List Int)) (md2 : Option Rat) :
    createLatticeElements verts (regions.filter bounded) md2 = createLatticeElements verts regions md2 := by
  unfold createLatticeElements elementsState
  rw [← foldl_stepRegion_filter verts (removeInfiniteRegions verts md2 regions),
    ← foldl_stepRegion_filter verts (removeInfiniteRegions verts md2 (regions.filter bounded))]
  simp only [removeInfiniteRegions_eq_filter, List.filter_filter]
  congr 2
  apply List.filter_congr
  intro c _
  cases bounded c <;> simp

/-- no bounded region (in particular no region at all): empty dictionaries, and `create_lattice` builds the
    empty mesh -/
theorem no_bounded_region_empty (verts : List Pt) (regions : List (List Int)) (md2 : Option Rat)
    (h : ∀ c ∈ regions, bounded c = false) :
    createLatticeElements verts regions md2 = { vertices := [], edges := [], cells := [] } := by
  rw [← unbounded_regions_ignored]
  have : regions.filter bounded = [] := by
    rw [List.filter_eq_nil_iff]; intro c hc; simp [h c hc]
  rw [this]
  rfl

example : ∀ c ∈ [[0, -1, 2], [], [-1]], bounded c = false := by decide

/-! ### the stored vertices are exactly the rounded corners of the kept bounded regions -/

/-- for all inputs (no hypothesis on the regions): a point is stored in the vertex dictionary iff it is the
    3-decimal rounding of a corner of a bounded region that survived the cut-off -/
theorem vertices_are_rounded_corners (verts : List Pt) (regions : List (List Int)) (md2 : Option Rat) (q : Pt) :
    q ∈ (createLatticeElements verts regions md2).vertices.map (·.2) ↔
      ∃ c ∈ removeInfiniteRegions verts md2 regions, bounded c = true ∧ ∃ i ∈ c, q = roundPt (qv verts i) := by
  unfold createLatticeElements elementsState
  rw [foldl_stepRegion_vals]
  simp only [initState, List.map_nil, List.not_mem_nil, false_or, corners, List.mem_map]
  constructor
  · rintro ⟨c, hc, hb, i, hi, rfl⟩; exact ⟨c, hc, hb, i, hi, rfl⟩
  · rintro ⟨c, hc, hb, i, hi, rfl⟩; exact ⟨c, hc, hb, i, hi, rfl⟩

/-- every stored coordinate pair is a fixed point of the rounding -/
theorem vertices_rounded (verts : List Pt) (regions : List (List Int)) (md2 : Option Rat) :
    ∀ p ∈ (createLatticeElements verts regions md2).vertices, roundPt p.2 = p.2 := by
  intro p hp
  obtain ⟨c, _, _, i, _, h⟩ := (vertices_are_rounded_corners verts regions md2 p.2).mp (List.mem_map_of_mem hp)
  rw [h]
  simp [roundPt, round3_idem']

/-- rounding to 3 decimals moves a coordinate by at most 0.0005 -/
theorem round3_err (q : Rat) : |round3 q - q| ≤ 1 / 2000 := round3_err' q

/-- multiples of 0.001 are not moved (exactly square / hexagonal centre sets on the grid keep their corners) -/
theorem round3_grid (k : Int) : round3 ((k : Rat) / 1000) = (k : Rat) / 1000 := round3_grid' k

/-- ties go to the even neighbour (`np.around`), so the bound of `round3_err` is attained -/
theorem round3_tie_witness : round3 (1 / 2000) = 0 ∧ round3 (3 / 2000) = 2 / 1000 := by decide +kernel

/-! ### neighbouring regions share vertices and mesh edges -/

/-- a ridge walked in the two directions by two regions carries opposite signed ids of one stored mesh edge -/
theorem shared_ridge_opposite_ids (verts : List Pt) (regions : List (List Int)) (md2 : Option Rat)
    (e e' a b : Id) :
    let es := (createLatticeElements verts regions md2).edges
    SignedEdge es e (a, b) → SignedEdge es e' (b, a) → e' = -e := by
  intro es h1 h2
  obtain ⟨_, _, _, h4, h5, _⟩ := elementsState_inv verts regions md2
  exact signedEdge_opposite h4 h5 h1 h2

/-- and walked twice in the same direction it carries the same signed id -/
theorem same_ridge_same_id (verts : List Pt) (regions : List (List Int)) (md2 : Option Rat)
    (e e' a b : Id) :
    let es := (createLatticeElements verts regions md2).edges
    SignedEdge es e (a, b) → SignedEdge es e' (a, b) → e' = e := by
  intro es h1 h2
  obtain ⟨_, _, _, h4, h5, _⟩ := elementsState_inv verts regions md2
  exact signedEdge_same h4 h5 h1 h2

example : SignedEdge (createLatticeElements [⟨0, 0⟩, ⟨0, 1⟩, ⟨1, 1⟩, ⟨1, 0⟩, ⟨2, 1⟩, ⟨2, 0⟩]
      [[0, 1, 2, 3], [3, 2, 4, 5]] none).edges 3 (3, 4) ∧
    SignedEdge (createLatticeElements [⟨0, 0⟩, ⟨0, 1⟩, ⟨1, 1⟩, ⟨1, 0⟩, ⟨2, 1⟩, ⟨2, 0⟩]
      [[0, 1, 2, 3], [3, 2, 4, 5]] none).edges (-3) (4, 3) := by
  unfold SignedEdge; decide +kernel

/-- every rounded corner of the region behind a stored cell has its (unique) vertex id in the cell's vertex cycle -/
theorem cell_cycle_covers_corners (verts : List Pt) (regions : List (List Int)) (md2 : Option Rat)
    (h : GoodRegions verts (removeInfiniteRegions verts md2 regions)) :
    let el := createLatticeElements verts regions md2
    ∀ e ∈ el.cells, ∃ P, IsRegion verts (removeInfiniteRegions verts md2 regions) P ∧
      (cellCycle el.edges e.1 e.2).map (ptOf el.vertices) = (if e.1 < 0 then P.reverse else P) ∧
      ∀ q ∈ P, ∃ k ∈ cellCycle el.edges e.1 e.2, (k, q) ∈ el.vertices := by
  intro el e he
  obtain ⟨hs, _, hcells⟩ := elements_ginv verts regions md2 h
  obtain ⟨P, W, _, hok, _, _, hW, _, hc, hpts⟩ := cellCycle_of_rec hs.1 hs.2.2.1 (hcells e he)
  refine ⟨P, hok, hpts, ?_⟩
  intro q hq
  have hflip : List.Forall₂ (fun q k => (k, q) ∈ (elementsState verts regions md2).el.vertices) P W :=
    List.Forall₂.flip hW
  obtain ⟨k, hk, hkq⟩ := forall₂_mem_left hflip q hq
  refine ⟨k, ?_, hkq⟩
  have hc' : cellCycle el.edges e.1 e.2 = (if e.1 < 0 then W.reverse else W) := hc
  rw [hc']
  split
  · exact List.mem_reverse.mpr hk
  · exact hk

/-- two cells whose vertex cycles contain ids of the same point contain the same id: a corner common to two
    regions is one mesh vertex, shared by both cells -/
theorem cells_share_vertices (verts : List Pt) (regions : List (List Int)) (md2 : Option Rat)
    (h : GoodRegions verts (removeInfiniteRegions verts md2 regions)) :
    let el := createLatticeElements verts regions md2
    ∀ e1 ∈ el.cells, ∀ e2 ∈ el.cells, ∀ i ∈ cellCycle el.edges e1.1 e1.2, ∀ j ∈ cellCycle el.edges e2.1 e2.2,
      ptOf el.vertices i = ptOf el.vertices j → i = j := by
  intro el e1 he1 e2 he2 i hi j hj hij
  obtain ⟨hs, _, hcells⟩ := elements_ginv verts regions md2 h
  have key : ∀ e ∈ el.cells, ∀ i ∈ cellCycle el.edges e.1 e.2, (i, ptOf el.vertices i) ∈ el.vertices := by
    intro e he i hi
    obtain ⟨P, W, _, _, _, _, hW, _, hc, _⟩ := cellCycle_of_rec hs.1 hs.2.2.1 (hcells e he)
    have hc' : cellCycle el.edges e.1 e.2 = (if e.1 < 0 then W.reverse else W) := hc
    rw [hc'] at hi
    have hiW : i ∈ W := by
      split at hi
      · exact List.mem_reverse.mp hi
      · exact hi
    obtain ⟨q, _, hiq⟩ := forall₂_mem_left hW i hiW
    have : ptOf el.vertices i = q := by
      have h3 : alGet? i el.vertices = some q := alGet?_of_mem el.vertices hs.1.1 i q hiq
      unfold ptOf; rw [h3]; rfl
    rw [this]; exact hiq
  have h1 := key e1 he1 i hi
  have h2 := key e2 he2 j hj
  rw [hij] at h1
  exact val_inj hs.2.1 h1 h2

/-- the two unit squares side by side: the common corners `(1,1)` and `(1,0)` carry ids 3 and 4 in both cycles -/
example :
    let el := createLatticeElements [⟨0, 0⟩, ⟨0, 1⟩, ⟨1, 1⟩, ⟨1, 0⟩, ⟨2, 1⟩, ⟨2, 0⟩] [[0, 1, 2, 3], [3, 2, 4, 5]] none
    el.cells.map (fun e => cellCycle el.edges e.1 e.2) = [[4, 3, 2, 1], [6, 5, 3, 4]] := by
  decide +kernel

example : GoodRegions [⟨0, 0⟩, ⟨0, 1⟩, ⟨1, 1⟩, ⟨1, 0⟩, ⟨2, 1⟩, ⟨2, 0⟩]
    (removeInfiniteRegions [⟨0, 0⟩, ⟨0, 1⟩, ⟨1, 1⟩, ⟨1, 0⟩, ⟨2, 1⟩, ⟨2, 0⟩] none [[0, 1, 2, 3], [3, 2, 4, 5]]) := by
  rw [cutoff_infinite]
  intro c hc _
  simp at hc
  rcases hc with rfl | rfl
  · exact ⟨by decide +kernel, by decide⟩
  · exact ⟨by decide +kernel, by decide⟩

end Forsys.Tess

/- PENDING:
  * converse of `cell_walk` per region (only the count is proved, `cell_per_region`):
      GoodRegions verts kept → 0 ∉ keys →
      ∀ j (h : j < (kept.filter bounded).length), ∃ e ∈ el.cells, (e.1 = j + 1 ∨ e.1 = -(j + 1)) ∧
        (cellCycle el.edges e.1 e.2).map (ptOf el.vertices) =
          (if e.1 < 0 then (corners verts ((kept.filter bounded)[j])).reverse else corners verts ((kept.filter bounded)[j]))
    (needs `CellRec` strengthened to tie the running cell number to the region).
  * every stored mesh edge joins the ids of two consecutive rounded corners of a kept bounded region
      ∀ p ∈ el.edges, ∃ c ∈ kept, bounded c ∧ ∃ ab ∈ openPairs (corners verts (closeRegion c)),
        (p.2.1, ab.1) ∈ el.vertices ∧ (p.2.2, ab.2) ∈ el.vertices
-/
