/-
  Property C07, what Props/C07.lean, C07matrix.lean and C07order.lean leave open:
   * ALL cells stored differently at once (every cell started at its own vertex, any subset of cells in the opposite
     sense, the dictionary in another order, the cell ids renumbered) — the existing theorems change ONE cell per step;
   * renumbering the CELL ids and the MESH-EDGE ids (`Mesh.mapC`, `Mesh.mapE`, Proofs/C07more.lean; the existing
     theorems renumber the vertices only): the interface list and the classification are IDENTICAL, `BigEdge.own_cells`
     and `BigEdge.edges` are the renamed old ones;
   * the set of PHYSICAL interfaces (the rows `get_tensions()` keeps) under the storage variants: the same interfaces up
     to direction, the same number of them;
   * `BigEdge.own_cells` of an interface stored backwards.
-/
import ForsysModel.Proofs.C07more
import ForsysModel.Props.C07order

namespace Forsys
open C07x

/-! ### 1. every cell stored differently at once -/

/-- WHOLE QUANTIFIER of the property for `create_edges_new`: let `m'` have the same junction test as `m` (the vertex
    dictionary untouched, or its `ownCells` / `ownEdges` lists renumbered) and let its cell dictionary be, up to the order
    of insertion (`τ`), the one of `m` with EVERY cycle started at an arbitrary vertex and stored in an arbitrary sense
    (cell ids are not compared: they may be renumbered too).  Then the interfaces are the same up to direction, and
    there are as many of them. -/
theorem bigEdgesList_restoreAll (m m' : Mesh) (hJ : m'.isJunction = m.isJunction) (τ : List (Id × Cell))
    (hτ : τ.Perm m.cells)
    (h : List.Forall₂ (fun q' q => SameCycle q'.2.verts q.2.verts) m'.cells τ) :
    SameInterfaces m'.bigEdgesList m.bigEdgesList ∧ m'.bigEdgesList.length = m.bigEdgesList.length := by
  have hc : ∀ p, memRev p (C07o.cand m'.isJunction m'.cells) ↔ memRev p (C07o.cand m.isJunction m.cells) := by
    intro p
    rw [hJ]
    exact (memRev_cand_forall₂ m.isJunction _ _ h p).trans (C07o.memRev_cand_perm m.isJunction _ _ hτ p)
  exact ⟨dedup_invariant _ _ hc, dedup_length_invariant _ _ hc⟩

/-- `SameCycle` is what the property quantifies over: a cyclic shift, possibly followed by a reversal; it is reflexive
    and closed under further shifts and reversals -/
theorem sameCycle_refl (v : List Id) : SameCycle v v := ⟨0, Or.inl (List.rotate_zero v).symm⟩

theorem sameCycle_reverse (v : List Id) : SameCycle v.reverse v :=
  ⟨0, Or.inr (by rw [List.rotate_zero])⟩

theorem sameCycle_rotate (v : List Id) (k : Nat) : SameCycle (v.rotate k) v := ⟨k, Or.inl rfl⟩

/-! ### 2. the physical interfaces (rows of `get_tensions()`) -/

/-- the physical interfaces of two interface lists holding the same interfaces up to direction, classified by meshes
    with the same `ownCells` lists, are the same up to direction -/
theorem physical_sameInterfaces (m m' : Mesh) (hv : m'.ownCells = m.ownCells) (A B : List (List Id))
    (h : SameInterfaces A B) :
    SameInterfaces (A.filter fun e => !(m'.bigEdgeExternal e)) (B.filter fun e => !(m.bigEdgeExternal e)) := by
  have hx : m'.bigEdgeExternal = m.bigEdgeExternal := by
    funext e; unfold Mesh.bigEdgeExternal Mesh.endJunction3; rw [hv]
  intro p
  rw [hx, memRev_filter _ (fun e => by rw [C07o.bigEdgeExternal_reverse]) A p,
    memRev_filter _ (fun e => by rw [C07o.bigEdgeExternal_reverse]) B p, h p]

/-- … and `get_tensions()` keeps the same NUMBER of rows -/
theorem tensionRows_length_sameInterfaces (m m' : Mesh) (hv : m'.ownCells = m.ownCells) (A B : List (List Id))
    (hA : NodupRev A) (hB : NodupRev B) (h : SameInterfaces A B) :
    (m'.tensionRows A).length = (m.tensionRows B).length := by
  have hx : m'.bigEdgeExternal = m.bigEdgeExternal := by
    funext e; unfold Mesh.bigEdgeExternal Mesh.endJunction3; rw [hv]
  obtain ⟨σ, hσ, hR⟩ := sameInterfaces_exists_perm_rev A B hA hB h
  rw [tensionRows_length, tensionRows_length, hx, ← hσ.countP_eq]
  exact countP_forall₂ _ (fun e => by rw [C07o.bigEdgeExternal_reverse]) σ B hR

/-- end to end for the storage variants of section 1 with the vertex dictionary untouched -/
theorem tensionRows_restoreAll (m m' : Mesh) (hv : m'.vertices = m.vertices) (τ : List (Id × Cell))
    (hτ : τ.Perm m.cells)
    (h : List.Forall₂ (fun q' q => SameCycle q'.2.verts q.2.verts) m'.cells τ) :
    (m'.tensionRows m'.bigEdgesList).length = (m.tensionRows m.bigEdgesList).length ∧
    SameInterfaces (m'.bigEdgesList.filter fun e => !(m'.bigEdgeExternal e))
      (m.bigEdgesList.filter fun e => !(m.bigEdgeExternal e)) := by
  have hJ : m'.isJunction = m.isJunction := by
    funext k; unfold Mesh.isJunction Mesh.ownEdges Mesh.vertex?; rw [hv]
  have hS := (bigEdgesList_restoreAll m m' hJ τ hτ h).1
  have hO := C07o.ownCells_congr m m' hv
  exact ⟨tensionRows_length_sameInterfaces m m' hO _ _ (bigEdgesList_nodupRev _) (bigEdgesList_nodupRev _) hS,
    physical_sameInterfaces m m' hO _ _ hS⟩

/-! ### 3. renumbering the cell ids -/

/-- `create_edges_new` does not read a cell id: ANY renumbering of the cells (injective or not) leaves the interface
    list identical -/
theorem bigEdgesList_mapC (g : Id → Id) (m : Mesh) : (m.mapC g).bigEdgesList = m.bigEdgesList := by
  rw [C07o.bigEdgesList_eq, C07o.bigEdgesList_eq, isJunction_mapC, cand_mapC]

/-- the classification only counts the cells of a vertex: identical under any renumbering of the cells -/
theorem classification_mapC (g : Id → Id) (m : Mesh) (earr : List (List Id)) :
    (m.mapC g).tensionRows earr = m.tensionRows earr ∧ (m.mapC g).internalIdx earr = m.internalIdx earr ∧
    (m.mapC g).externalEdgesId earr = m.externalEdgesId earr := by
  have hl : ∀ k, ((m.mapC g).ownCells k).length = (m.ownCells k).length := by
    intro k; rw [ownCells_mapC, List.length_map]
  have h3 : (m.mapC g).endJunction3 = m.endJunction3 := by
    funext e; unfold Mesh.endJunction3; simp only [hl]
  have hb : (m.mapC g).borderEdges earr = m.borderEdges earr := by
    unfold Mesh.borderEdges; simp only [hl]
  have hx : (m.mapC g).bigEdgeExternal = m.bigEdgeExternal := by
    funext e; unfold Mesh.bigEdgeExternal; simp only [hl, h3]
  have he : (m.mapC g).externalEdgesId earr = m.externalEdgesId earr := by
    unfold Mesh.externalEdgesId; rw [hb]
  refine ⟨?_, ?_, he⟩
  · unfold Mesh.tensionRows; rw [hx]
  · unfold Mesh.internalIdx; rw [he, h3]

/-- `BigEdge.own_cells` of every interface is the renamed old list, same order (injective renumbering) -/
theorem bigEdgeOwnCells_mapC (g : Id → Id) (hg : Function.Injective g) (m : Mesh) (e : List Id) :
    (m.mapC g).bigEdgeOwnCells e = (m.bigEdgeOwnCells e).map g := by
  unfold Mesh.bigEdgeOwnCells
  split
  · rw [ownCells_mapC, ownCells_mapC, listInter_map g hg, List.filter_map]
    congr 1
    apply List.filter_congr
    intro c _
    exact neighboursInCell_mapC g hg m _ _ c
  · rw [ownCells_mapC]

/-- the column of a cell (`mapping_order`) and its stored cycle travel with the cell -/
theorem cellPos_mapC (g : Id → Id) (hg : Function.Injective g) (m : Mesh) (c : Id) :
    (m.mapC g).cellPos (g c) = m.cellPos c ∧ (m.mapC g).cellCycle (g c) = m.cellCycle c := by
  have hk : (m.mapC g).cells.map (·.1) = (m.cells.map (·.1)).map g := by
    unfold Mesh.mapC; simp only [List.map_map]; rfl
  have hpt : (m.mapC g).pt = m.pt := by
    funext k
    unfold Mesh.pt Mesh.vertex? Mesh.mapC
    simp only
    rw [C07m.alGet?_map_snd]
    cases alGet? k m.vertices <;> rfl
  constructor
  · unfold Mesh.cellPos
    rw [hk, C07m.indexOf?_map g hg, List.length_map]
  · unfold Mesh.cellCycle
    rw [cell?_mapC g hg, hpt]
    cases m.cell? c <;> rfl

/-- the pressure row of an interface with (at least) two own cells — the guard under which `get_row` does not raise —
    is IDENTICAL after renumbering the cells -/
theorem interfaceRow_mapC (g : Id → Id) (hg : Function.Injective g) (m : Mesh) (e : List Id)
    (h2 : 2 ≤ (m.bigEdgeOwnCells e).length) : (m.mapC g).interfaceRow e = m.interfaceRow e := by
  have hget : ∀ (l : List Id) (i : Nat), i < l.length → (l.map g).getD i 0 = g (l.getD i 0) := by
    intro l i hi
    simp [List.getD_eq_getElem?_getD, List.getElem?_map, List.getElem?_eq_getElem hi]
  have hk : (m.mapC g).cells.map (·.1) = (m.cells.map (·.1)).map g := by
    unfold Mesh.mapC; simp only [List.map_map]; rfl
  unfold Mesh.interfaceRow
  simp only
  rw [bigEdgeOwnCells_mapC g hg, hget _ 0 (by omega), hget _ 1 (by omega), (cellPos_mapC g hg m _).1,
    (cellPos_mapC g hg m _).1, (cellPos_mapC g hg m _).2, hk, List.length_map]

/-- THE PRESSURE SYSTEM IS IDENTICAL under renumbering of the cells (columns are positions in the cell dictionary),
    when every interface that gets an equation has two own cells (otherwise Python raises `ValueError`) -/
theorem pressureSystem_mapC (g : Id → Id) (hg : Function.Injective g) (m : Mesh) (tens curv : List Rat)
    (h2 : ∀ i ∈ m.internalIdx m.bigEdgesList, 2 ≤ (m.bigEdgeOwnCells (m.bigEdgesList.getD i [])).length) :
    (m.mapC g).pressureSystem tens curv = m.pressureSystem tens curv := by
  have hk : (m.mapC g).cells.map (·.1) = (m.cells.map (·.1)).map g := by
    unfold Mesh.mapC; simp only [List.map_map]; rfl
  have hrows : (m.internalIdx m.bigEdgesList).map (fun i =>
        (((m.mapC g).bigEdgeOwnCells (m.bigEdgesList.getD i [])).length,
          (m.mapC g).interfaceRow (m.bigEdgesList.getD i []), pressureRhs (tens.getD i 0) (curv.getD i 0)))
      = (m.internalIdx m.bigEdgesList).map (fun i =>
        ((m.bigEdgeOwnCells (m.bigEdgesList.getD i [])).length,
          m.interfaceRow (m.bigEdgesList.getD i []), pressureRhs (tens.getD i 0) (curv.getD i 0))) := by
    apply List.map_congr_left
    intro i hi
    rw [bigEdgeOwnCells_mapC g hg, List.length_map, interfaceRow_mapC g hg m _ (h2 i hi)]
  unfold Mesh.pressureSystem
  simp only [bigEdgesList_mapC, (classification_mapC g m _).2.1, hk, List.length_map]
  rw [hrows]

/-! ### 4. renumbering the mesh-edge ids -/

/-- the junction test only counts the mesh edges of a vertex: ANY renumbering of the mesh edges leaves the interface
    list and the classification identical -/
theorem bigEdgesList_mapE (g : Id → Id) (m : Mesh) (earr : List (List Id)) :
    (m.mapE g).bigEdgesList = m.bigEdgesList ∧ (m.mapE g).tensionRows earr = m.tensionRows earr ∧
    (m.mapE g).internalIdx earr = m.internalIdx earr := by
  have hO : (m.mapE g).ownCells = m.ownCells := by funext k; exact ownCells_mapE g m k
  have h3 : (m.mapE g).endJunction3 = m.endJunction3 := by
    funext e; unfold Mesh.endJunction3; rw [hO]
  have hx : (m.mapE g).bigEdgeExternal = m.bigEdgeExternal := by
    funext e; unfold Mesh.bigEdgeExternal; rw [hO, h3]
  refine ⟨?_, ?_, ?_⟩
  · rw [C07o.bigEdgesList_eq, C07o.bigEdgesList_eq, isJunction_mapE]; rfl
  · unfold Mesh.tensionRows; rw [hx]
  · unfold Mesh.internalIdx Mesh.externalEdgesId Mesh.borderEdges; rw [hO, h3]

/-- `BigEdge.edges` of every interface is the renamed old list (injective renumbering) -/
theorem bigEdgeEdges_mapE (g : Id → Id) (hg : Function.Injective g) (m : Mesh) (e : List Id) :
    (m.mapE g).bigEdgeEdges e = (m.bigEdgeEdges e).map (Option.map g) := by
  unfold Mesh.bigEdgeEdges
  rw [List.map_map]
  apply List.map_congr_left
  intro ab _
  simp only [Function.comp, ownEdges_mapE, listInter_map g hg, List.head?_map]

/-! ### 5. `BigEdge.own_cells` when the cells, or the interface, are stored differently -/

/-- `are_neighbours` does not depend on where the cycle starts (its dependence on the sense: C04 system, reversal) -/
theorem c07_cyclicNeighbours_rotate (ids : List Id) (hn : ids.Nodup) (k : Nat) (a b : Id) :
    cyclicNeighbours (ids.rotate k) a b = cyclicNeighbours ids a b :=
  C07x.cyclicNeighbours_rotate ids hn k a b

/-- … nor on which of the two ends is asked first -/
theorem c07_cyclicNeighbours_symm (ids : List Id) (hn : ids.Nodup) (a b : Id) :
    cyclicNeighbours ids b a = cyclicNeighbours ids a b := by
  rw [Bool.eq_iff_iff, cyclicNeighbours_spec ids hn, cyclicNeighbours_spec ids hn]
  exact Or.comm

/-- EVERY cell started at an arbitrary vertex and stored in an arbitrary sense (same keys, same dictionary order, no
    cell repeats a vertex): `BigEdge.own_cells` of every interface is the identical list -/
theorem bigEdgeOwnCells_sameCycles (m m' : Mesh) (hv : m'.vertices = m.vertices)
    (h : List.Forall₂ (fun q' q : Id × Cell => q'.1 = q.1 ∧ (SameCycle q'.2.verts q.2.verts ∧ q.2.verts.Nodup))
      m'.cells m.cells) (e : List Id) :
    m'.bigEdgeOwnCells e = m.bigEdgeOwnCells e := by
  have hO := C07o.ownCells_congr m m' hv
  have hN : ∀ a b c, m'.neighboursInCell a b c = m.neighboursInCell a b c := by
    intro a b c
    unfold Mesh.neighboursInCell Mesh.cell?
    rcases alGet?_forall₂ (R := fun c' c : Cell => SameCycle c'.verts c.verts ∧ c.verts.Nodup) h c with
      ⟨h1, h2⟩ | ⟨c', c0, h1, h2, hS, hn⟩
    · rw [h1, h2]
    · rw [h1, h2]
      exact cyclicNeighbours_sameCycle _ _ hS hn a b
  unfold Mesh.bigEdgeOwnCells
  rw [hO]
  split
  · congr 1
    funext c
    exact hN _ _ c
  · rfl

/-- a two-point interface stored backwards has the same cells (as a set; the order follows the first end's list) -/
theorem mem_bigEdgeOwnCells_two_point_swap (m : Mesh) (hnd : ∀ c cl, m.cell? c = some cl → cl.verts.Nodup)
    (a b c : Id) : c ∈ m.bigEdgeOwnCells [b, a] ↔ c ∈ m.bigEdgeOwnCells [a, b] := by
  have hN : m.neighboursInCell b a c = m.neighboursInCell a b c := by
    unfold Mesh.neighboursInCell
    cases hc : m.cell? c with
    | none => rfl
    | some cl => exact c07_cyclicNeighbours_symm cl.verts (hnd c cl hc) a b
  unfold Mesh.bigEdgeOwnCells listInter
  simp
  rw [hN]
  tauto

/-- (odd number of points: C04 `ownCells_reverse_odd`.)  FALSE for an even number of points ≥ 4:
      theorem bigEdgeOwnCells_reverse (m : Mesh) (e : List Id) : m.bigEdgeOwnCells e.reverse = m.bigEdgeOwnCells e
    the model (like `BigEdge.__post_init__`, `self.vertices[(len-1)//2]`) reads the cells of ANOTHER interior vertex; in
    a consistent tissue both interior vertices lie in the same two cells, but their `ownCells` lists may be stored in a
    different order — here vertex 2 lists `[7, 8]`, vertex 3 lists `[8, 7]` -/
theorem bigEdgeOwnCells_reverse_even_witness :
    let m : Mesh := { vertices := [(1, ⟨1, 0, 0, [], [7, 8, 9]⟩), (2, ⟨2, 1, 0, [], [7, 8]⟩),
                                   (3, ⟨3, 2, 0, [], [8, 7]⟩), (4, ⟨4, 3, 0, [], [7, 8, 6]⟩)],
                      edges := [], cells := [] }
    m.bigEdgeOwnCells [1, 2, 3, 4] = [7, 8] ∧ m.bigEdgeOwnCells ([1, 2, 3, 4] : List Id).reverse = [8, 7] := by
  decide +kernel

/-! ### non-vacuity: the lens tissue `balMesh` of Props/C01matrix.lean (three cells) -/

/-- all three cells stored differently and the dictionary in another order: cell 2 first and reversed, cell 0 rotated by
    two and reversed, cell 1 rotated by four; ids renumbered -/
def balMeshShuffled : Mesh :=
  { balMesh with cells := [(12, ⟨12, [0, 1, 4, 6, 3], true⟩), (10, ⟨10, [2, 0, 1], true⟩),
                           (11, ⟨11, [4, 5, 3, 0, 2, 1], true⟩)] }

/-- hypotheses of `bigEdgesList_restoreAll` / `tensionRows_restoreAll`, and what the model computes: the interface
    lists differ as lists, hold the same interfaces up to direction, and four rows are kept in both -/
example : balMeshShuffled.vertices = balMesh.vertices ∧ balMeshShuffled.isJunction = balMesh.isJunction ∧
    (balMesh.cells.rotate 2).Perm balMesh.cells ∧
    List.Forall₂ (fun q' q : Id × Cell => SameCycle q'.2.verts q.2.verts) balMeshShuffled.cells
      (balMesh.cells.rotate 2) := by
  refine ⟨rfl, rfl, List.rotate_perm _ _, ?_⟩
  have h : balMesh.cells.rotate 2 = [(2, ⟨2, [3, 6, 4, 1, 0], true⟩), (0, ⟨0, [0, 2, 1], true⟩),
      (1, ⟨1, [3, 0, 2, 1, 4, 5], true⟩)] := by rfl
  rw [h]
  exact .cons ⟨0, Or.inr (by decide)⟩ (.cons ⟨2, Or.inr (by decide)⟩ (.cons ⟨4, Or.inl (by decide)⟩ .nil))

theorem restoreAll_witness :
    balMeshShuffled.bigEdgesList = [[0, 1], [1, 4], [4, 6, 3], [3, 0], [1, 2, 0], [4, 5, 3]] ∧
    balMesh.bigEdgesList = [[0, 2, 1], [1, 0], [3, 0], [1, 4], [4, 5, 3], [3, 6, 4]] ∧
    balMeshShuffled.tensionRows balMeshShuffled.bigEdgesList = [0, 1, 3, 4] ∧
    balMesh.tensionRows balMesh.bigEdgesList = [0, 1, 2, 3] := by
  decide +kernel

/-- the cells and the mesh edges of the lens tissue renumbered by `c ↦ 5 c - 20` (negative and non-contiguous ids) -/
theorem mapC_mapE_witness :
    (balMesh.mapC (5 * · - 20)).cells.map (·.1) = [-20, -15, -10] ∧
    (balMesh.mapC (5 * · - 20)).bigEdgesList = balMesh.bigEdgesList ∧
    balMesh.bigEdgeOwnCells [0, 2, 1] = [0, 1] ∧ (balMesh.mapC (5 * · - 20)).bigEdgeOwnCells [0, 2, 1] = [-20, -15] ∧
    balMesh.bigEdgeOwnCells [1, 0] = [0, 2] ∧ (balMesh.mapC (5 * · - 20)).bigEdgeOwnCells [1, 0] = [-20, -10] ∧
    balMesh.bigEdgeEdges [0, 2, 1] = [some 0, some 1] ∧
    (balMesh.mapE (5 * · - 20)).bigEdgeEdges [0, 2, 1] = [some (-20), some (-15)] ∧
    (balMesh.mapE (5 * · - 20)).bigEdgesList = balMesh.bigEdgesList := by
  decide +kernel

/-- hypothesis `hg` of `bigEdgeOwnCells_mapC`, `bigEdgeEdges_mapE` -/
example : Function.Injective (fun c : Id => 5 * c - 20) := by
  intro (a : Int) (b : Int) (h : 5 * a - 20 = 5 * b - 20)
  show a = b
  omega

/-- injectivity is needed for `own_cells`: when two cells receive the same id, the cell dictionary of the renumbered
    tissue finds the FIRST cell under the shared key — the spoke `[3, 0]`, common to cells 1 and 2, is tested against the
    cycle of cell 0 (where 3 does not occur) instead of cell 2 and loses that cell -/
def c07Merge02 (c : Id) : Id := if c = 2 then 0 else c
theorem bigEdgeOwnCells_mapC_noninjective_witness :
    (balMesh.mapC c07Merge02).bigEdgeOwnCells [3, 0] = [1] ∧ (balMesh.bigEdgeOwnCells [3, 0]).map c07Merge02 = [1, 0] ∧
    c07Merge02 2 = c07Merge02 0 := by
  decide +kernel

/-- guard `h2` of `interfaceRow_mapC` / `pressureSystem_mapC` on the lens tissue, and the system computed on the
    renumbered tissue -/
example : (∀ i ∈ balMesh.internalIdx balMesh.bigEdgesList,
      2 ≤ (balMesh.bigEdgeOwnCells (balMesh.bigEdgesList.getD i [])).length) ∧
    (balMesh.mapC (5 * · - 20)).pressureSystem [1, 2, 3, 4, 5, 6] [0, 0, 0, 0, 0, 0]
      = balMesh.pressureSystem [1, 2, 3, 4, 5, 6] [0, 0, 0, 0, 0, 0] ∧
    (balMesh.pressureSystem [1, 2, 3, 4, 5, 6] [0, 0, 0, 0, 0, 0]).lhs ≠ [] := by
  decide +kernel

/-- hypotheses of `bigEdgeOwnCells_sameCycles` on the lens tissue with all three cycles stored differently (keys and
    dictionary order kept), `hnd` of `mem_bigEdgeOwnCells_two_point_swap`, `hn` of `c07_cyclicNeighbours_rotate / _symm` -/
def balMeshTurned : Mesh :=
  { balMesh with cells := [(0, ⟨0, [2, 0, 1], true⟩), (1, ⟨1, [4, 5, 3, 0, 2, 1], true⟩),
                           (2, ⟨2, [0, 1, 4, 6, 3], true⟩)] }

example : balMeshTurned.vertices = balMesh.vertices ∧
    List.Forall₂ (fun q' q : Id × Cell => q'.1 = q.1 ∧ (SameCycle q'.2.verts q.2.verts ∧ q.2.verts.Nodup))
      balMeshTurned.cells balMesh.cells := by
  refine ⟨rfl, ?_⟩
  have h : balMesh.cells = [(0, ⟨0, [0, 2, 1], true⟩), (1, ⟨1, [3, 0, 2, 1, 4, 5], true⟩),
      (2, ⟨2, [3, 6, 4, 1, 0], true⟩)] := by rfl
  rw [h]
  exact .cons ⟨rfl, ⟨2, Or.inr (by decide)⟩, by decide⟩ (.cons ⟨rfl, ⟨4, Or.inl (by decide)⟩, by decide⟩
    (.cons ⟨rfl, ⟨0, Or.inr (by decide)⟩, by decide⟩ .nil))

example : ∀ c cl, balMesh.cell? c = some cl → cl.verts.Nodup := by
  intro c cl h
  have hm : (c, cl) ∈ balMesh.cells := ((C07o.alGet?_some_iff balMesh.cells (by decide +kernel) c cl).1 h)
  have h' : balMesh.cells = [(0, ⟨0, [0, 2, 1], true⟩), (1, ⟨1, [3, 0, 2, 1, 4, 5], true⟩),
      (2, ⟨2, [3, 6, 4, 1, 0], true⟩)] := by rfl
  rw [h'] at hm
  simp only [List.mem_cons, Prod.mk.injEq, List.not_mem_nil, or_false] at hm
  rcases hm with ⟨_, rfl⟩ | ⟨_, rfl⟩ | ⟨_, rfl⟩ <;> decide

/-- hypotheses of `tensionRows_length_sameInterfaces`, `physical_sameInterfaces` on the reversed dictionary -/
example : (balMesh.permuteCells balMesh.cells.reverse).ownCells = balMesh.ownCells ∧
    NodupRev (balMesh.permuteCells balMesh.cells.reverse).bigEdgesList ∧ NodupRev balMesh.bigEdgesList ∧
    SameInterfaces (balMesh.permuteCells balMesh.cells.reverse).bigEdgesList balMesh.bigEdgesList :=
  ⟨rfl, bigEdgesList_nodupRev _, bigEdgesList_nodupRev _,
    (bigEdgesList_permuteCells _ balMesh (List.reverse_perm _)).1⟩

end Forsys
