/-
  Properties C05 / C01 / C03, quantitative part — what a RUN has is not an exact minimiser but a vector `z` that passed the
  KKT certificate `kktCheck M b z ε δ` (Model/Solve.lean) with small slacks `ε`, `δ` (evaluated by the harness in exact
  arithmetic on the real solver output), and, in the dynamic case, a right-hand side rounded to three decimals.  The exact
  theorems (`arcTissue_static_inference`, `dynamic_inference_recovers_tensions`) say "a minimiser IS the truth"; the
  theorems here say how far a CERTIFIED vector can be from the truth:

    1. `certified_near_truth`            ‖M(t − z)‖² ≤ 2(ε·Σt + δ)  and  ‖Mz − b‖² ≤ 2(ε·Σt + δ)   (t ≥ 0 solves exactly)
    2. `certified_near_truth_coercive`   ‖t − z‖² ≤ 2(ε·Σt + δ)/σ²   if σ²‖x‖² ≤ ‖Mx‖² for all x   (σ = smallest singular
       `certified_near_truth_entry`      (t_i − z_i)² ≤ the same bound                               value; a hypothesis)
       `coercive_of_left_inverse`        a left inverse `N` of `M` gives σ² = 1/‖N‖_F²
    3. `static_certified_recovery`       the assembled static system: ‖τ/mean τ − z‖² ≤ 2(ε·n + δ)/σ²
       `arcTissue_static_certified_recovery`  the same for tissues of exact arcs / segments (no `hnorm`/`htrue`)
    4. `truth_is_kkt_certified`          an exact non-negative solution passes `kktCheck … 0 0`
       `dynamic_rhs_perturbation`        rounding every velocity entry by ≤ e moves the augmented right-hand side by
                                         ≤ 2k·e² (k kept junctions; the appended mean-one entry is unchanged)
       `dynamic_rounded_recovery`        exactly certified z' of the ROUNDED system: ‖M(z' − τ)‖² ≤ 2k·e²
       `dynamic_rounded_recovery_coercive`                                           ‖z' − τ‖² ≤ 2k·e²/σ²
       `dynamic_rounded_certified_recovery`  (ε, δ)-certified z' of the rounded system:
                                         ‖M(τ − z')‖² ≤ 2k·e² + 2(ε·n + δ)  and  ‖τ − z'‖² ≤ (2k·e² + 2(ε·n + δ))/σ²
    5. non-vacuity on the lens tissue `balInp` (Props/C01matrix.lean): an explicit σ² = 34596/301241 from the explicit
       inverse of the 5 × 5 augmented matrix, a perturbed vector with its certificate, a right-hand side rounded to
       three decimals.

  Vocabulary added in Proofs/C05bound.lean: `frobSq N` = Σ over the rows of `N` of their squared norms.
-/
import ForsysModel.Proofs.C05bound

namespace Forsys
open FMInput

/-! ### 1. a certified vector is close to an exact non-negative solution -/

/-- If the non-negative `t` solves `M t = b` exactly (the truth) and `z` passed the KKT certificate with slacks `ε`, `δ`,
    then the fitted values of `z` and `t` differ by at most `2(ε·Σt + δ)` in squared norm, and so does the residual of
    `z` from zero.  (`kkt_strong` / `kkt_gap` of Props/C05.lean with `y := t`.) -/
theorem certified_near_truth (M : Mat) (b t z : List Rat) (m n : Nat) (eps delta : Rat) (hs : Shaped M b m n)
    (ht : t.length = n) (hz : z.length = n) (ht0 : ∀ v ∈ t, 0 ≤ v) (hres : residSq M b t = 0)
    (heps : 0 ≤ eps) (h : kktCheck M b z eps delta = true) :
    normSq (mulVec M (vsub t z)) ≤ 2 * (eps * t.sum + delta) ∧
    residSq M b z ≤ 2 * (eps * t.sum + delta) := by
  have h1 := kkt_strong M b z t m n eps delta hs hz ht ht0 heps h
  have h2 := kkt_gap M b z t m n eps delta hs hz ht ht0 heps h
  have h3 := residSq_nonneg M b z
  rw [hres] at h1 h2
  exact ⟨by linarith, by linarith⟩

/-- the same when the certificate was evaluated for a PERTURBED right-hand side `b'` (the truth solves the system with
    `b`): the perturbation adds `‖b' − b‖²` -/
theorem certified_near_truth_perturbed (M : Mat) (b b' t z : List Rat) (m n : Nat) (eps delta : Rat)
    (hs : Shaped M b m n) (hs' : Shaped M b' m n)
    (ht : t.length = n) (hz : z.length = n) (ht0 : ∀ v ∈ t, 0 ≤ v) (hres : residSq M b t = 0)
    (heps : 0 ≤ eps) (h : kktCheck M b' z eps delta = true) :
    normSq (mulVec M (vsub t z)) ≤ normSq (vsub b' b) + 2 * (eps * t.sum + delta) := by
  have h1 := kkt_strong M b' z t m n eps delta hs' hz ht ht0 heps h
  have hMt := C01.eq_of_residSq_eq_zero M b t (hs.1.trans hs.2.1.symm) hres
  have h3 := residSq_nonneg M b' z
  have h4 : residSq M b' t = normSq (vsub b' b) := by
    unfold residSq; rw [hMt, normSq_vsub_comm]
  linarith

/-! ### 2. with a coercivity constant: distance of the vectors themselves -/

/-- If moreover `σ² ‖x‖² ≤ ‖M x‖²` for all `x` (`σ` the smallest singular value of `M`; the harness computes it — here a
    hypothesis), the certified vector itself is within `2(ε·Σt + δ)/σ²` of the truth in squared norm. -/
theorem certified_near_truth_coercive (M : Mat) (b t z : List Rat) (m n : Nat) (eps delta sigma2 : Rat)
    (hs : Shaped M b m n)
    (ht : t.length = n) (hz : z.length = n) (ht0 : ∀ v ∈ t, 0 ≤ v) (hres : residSq M b t = 0)
    (heps : 0 ≤ eps) (h : kktCheck M b z eps delta = true) (hσ : 0 < sigma2)
    (hco : ∀ x : List Rat, x.length = n → sigma2 * normSq x ≤ normSq (mulVec M x)) :
    normSq (vsub t z) ≤ 2 * (eps * t.sum + delta) / sigma2 := by
  have h1 := (certified_near_truth M b t z m n eps delta hs ht hz ht0 hres heps h).1
  have h2 := hco (vsub t z) (by simp [vsub, ht, hz])
  rw [le_div_iff₀ hσ]
  linarith

/-- … entry by entry: every recovered value is within the square root of that bound of the true one -/
theorem certified_near_truth_entry (M : Mat) (b t z : List Rat) (m n : Nat) (eps delta sigma2 : Rat)
    (hs : Shaped M b m n)
    (ht : t.length = n) (hz : z.length = n) (ht0 : ∀ v ∈ t, 0 ≤ v) (hres : residSq M b t = 0)
    (heps : 0 ≤ eps) (h : kktCheck M b z eps delta = true) (hσ : 0 < sigma2)
    (hco : ∀ x : List Rat, x.length = n → sigma2 * normSq x ≤ normSq (mulVec M x)) :
    ∀ i, (t.getD i 0 - z.getD i 0) ^ 2 ≤ 2 * (eps * t.sum + delta) / sigma2 := by
  intro i
  have hb := certified_near_truth_coercive M b t z m n eps delta sigma2 hs ht hz ht0 hres heps h hσ hco
  by_cases hi : i < n
  · have hm := getD_sub_getD_mem_vsub t z i (by omega) (by omega)
    have := mul_self_le_normSq_of_mem _ _ hm
    rw [pow_two]; linarith
  · rw [getD_of_length_le t i (by omega), getD_of_length_le z i (by omega)]
    have := normSq_nonneg (vsub t z)
    simp only [sub_self, ne_eq, OfNat.ofNat_ne_zero, not_false_eq_true, zero_pow]
    linarith

/-- where a coercivity constant can come from: a left inverse `N` of `M` gives `σ² = 1/‖N‖_F²`
    (`‖x‖² = ‖N M x‖² ≤ ‖N‖_F² ‖M x‖²`, Cauchy–Schwarz row by row) -/
theorem coercive_of_left_inverse (M N : Mat) (n : Nat) (hN : ∀ r ∈ N, r.length = M.length)
    (hinv : ∀ x : List Rat, x.length = n → mulVec N (mulVec M x) = x) (hF : 0 < frobSq N) :
    ∀ x : List Rat, x.length = n → 1 / frobSq N * normSq x ≤ normSq (mulVec M x) := by
  intro x hx
  have h1 := normSq_mulVec_le N (mulVec M x) (fun r hr => by simp [mulVec, hN r hr])
  rw [hinv x hx] at h1
  rw [one_div, inv_mul_le_iff₀ hF]
  exact h1

/-! ### 3. the assembled static system (C01) -/

/-- the fitted values: under the hypotheses of `assembled_truth_solves` a certified `z` reproduces the fitted values of
    (true tension / mean true tension, 0) up to `2(ε·n + δ)`, and its residual is at most that -/
theorem static_certified_residual (inp : FMInput) (len : Id → Nat → Rat) (dir : Id → Nat → Vec) (tau : Nat → Rat)
    (z : List Rat) (eps delta : Rat)
    (hk : ∃ r ∈ inp.build.rows, r.2.1 = true)
    (hnorm : ∀ r ∈ inp.build.rows, r.2.1 = true → ∀ c < inp.build.used.length,
      endsAt (inp.build.used.getD c []) r.1 = true →
        0 < len r.1 c ∧ (inp.tangentAt c r.1).map Vec.normSq = some ((len r.1 c) ^ 2))
    (htrue : ∀ r ∈ inp.build.rows, r.2.1 = true → ∀ c < inp.build.used.length,
      endsAt (inp.build.used.getD c []) r.1 = true →
        inp.tangentAt c r.1 = some (Vec.smul (len r.1 c) (dir r.1 c)))
    (hbal : ∀ r ∈ inp.build.rows, r.2.1 = true →
      ((inp.endCols r.1).map fun c => tau c * (dir r.1 c).x).sum = 0 ∧
      ((inp.endCols r.1).map fun c => tau c * (dir r.1 c).y).sum = 0)
    (hpos : ∀ c < inp.build.used.length, 0 < tau c)
    (hz : z.length = inp.build.used.length + 1) (heps : 0 ≤ eps)
    (h : kktCheck (addMeanOne (normalisedMatrix inp len) (List.replicate (normalisedMatrix inp len).length 0)).1
      (addMeanOne (normalisedMatrix inp len) (List.replicate (normalisedMatrix inp len).length 0)).2 z eps delta = true) :
    normSq (mulVec (addMeanOne (normalisedMatrix inp len) (List.replicate (normalisedMatrix inp len).length 0)).1
      (vsub (normalisedTensions inp.build.used.length tau ++ [0]) z))
        ≤ 2 * (eps * (inp.build.used.length : Rat) + delta) ∧
    residSq (addMeanOne (normalisedMatrix inp len) (List.replicate (normalisedMatrix inp len).length 0)).1
      (addMeanOne (normalisedMatrix inp len) (List.replicate (normalisedMatrix inp len).length 0)).2 z
        ≤ 2 * (eps * (inp.build.used.length : Rat) + delta) := by
  have hn := used_pos_of_row inp hk
  obtain ⟨hl, hsum⟩ := normalisedTensions_mean_one inp.build.used.length tau hn hpos
  have hsh := addMeanOne_shape (normalisedMatrix inp len) _ _ _ (normalisedMatrix_pos inp len hk)
    (normalisedMatrix_shaped inp len)
  have ht0 : ∀ v ∈ normalisedTensions inp.build.used.length tau ++ [0], 0 ≤ v := by
    intro v hv
    rcases List.mem_append.mp hv with hv | hv
    · exact normalisedTensions_nonneg _ tau hn hpos v hv
    · simp only [List.mem_singleton] at hv; rw [hv]
  have hres := assembled_truth_solves inp len dir tau hk hnorm htrue hbal hpos
  have := certified_near_truth _ _ (normalisedTensions inp.build.used.length tau ++ [0]) z _ _ eps delta hsh
    (by simp [hl]) hz ht0 hres heps h
  rwa [sum_append_singleton, hsum, add_zero] at this

/-- C01, quantitative.  Under the hypotheses of `static_inference_recovers_tensions` WITHOUT "y is a minimiser" and
    WITHOUT injectivity, but with what a run has — `z` passed `kktCheck` on the augmented assembled system with slacks
    `ε`, `δ`, and `σ²` is a coercivity constant of the augmented matrix — the certified vector is within
    `2(ε·n + δ)/σ²` (squared norm) of (true tension / mean true tension, multiplier 0). -/
theorem static_certified_recovery (inp : FMInput) (len : Id → Nat → Rat) (dir : Id → Nat → Vec) (tau : Nat → Rat)
    (z : List Rat) (eps delta sigma2 : Rat)
    (hk : ∃ r ∈ inp.build.rows, r.2.1 = true)
    (hnorm : ∀ r ∈ inp.build.rows, r.2.1 = true → ∀ c < inp.build.used.length,
      endsAt (inp.build.used.getD c []) r.1 = true →
        0 < len r.1 c ∧ (inp.tangentAt c r.1).map Vec.normSq = some ((len r.1 c) ^ 2))
    (htrue : ∀ r ∈ inp.build.rows, r.2.1 = true → ∀ c < inp.build.used.length,
      endsAt (inp.build.used.getD c []) r.1 = true →
        inp.tangentAt c r.1 = some (Vec.smul (len r.1 c) (dir r.1 c)))
    (hbal : ∀ r ∈ inp.build.rows, r.2.1 = true →
      ((inp.endCols r.1).map fun c => tau c * (dir r.1 c).x).sum = 0 ∧
      ((inp.endCols r.1).map fun c => tau c * (dir r.1 c).y).sum = 0)
    (hpos : ∀ c < inp.build.used.length, 0 < tau c)
    (hz : z.length = inp.build.used.length + 1) (heps : 0 ≤ eps)
    (h : kktCheck (addMeanOne (normalisedMatrix inp len) (List.replicate (normalisedMatrix inp len).length 0)).1
      (addMeanOne (normalisedMatrix inp len) (List.replicate (normalisedMatrix inp len).length 0)).2 z eps delta = true)
    (hσ : 0 < sigma2)
    (hco : ∀ x : List Rat, x.length = inp.build.used.length + 1 → sigma2 * normSq x ≤ normSq (mulVec
      (addMeanOne (normalisedMatrix inp len) (List.replicate (normalisedMatrix inp len).length 0)).1 x)) :
    normSq (vsub (normalisedTensions inp.build.used.length tau ++ [0]) z)
      ≤ 2 * (eps * (inp.build.used.length : Rat) + delta) / sigma2 := by
  have h1 := (static_certified_residual inp len dir tau z eps delta hk hnorm htrue hbal hpos hz heps h).1
  have hl := (normalisedTensions_mean_one inp.build.used.length tau (used_pos_of_row inp hk) hpos).1
  have h2 := hco (vsub (normalisedTensions inp.build.used.length tau ++ [0]) z) (by simp [vsub, hl, hz])
  rw [le_div_iff₀ hσ]
  linarith

/-- … in words of the property: every reported tension `z_c` is within the square root of `2(ε·n + δ)/σ²` of
    `tau c / mean tau`, and the reported multiplier is that close to `0` -/
theorem static_certified_recovery_entry (inp : FMInput) (len : Id → Nat → Rat) (dir : Id → Nat → Vec)
    (tau : Nat → Rat) (z : List Rat) (eps delta sigma2 : Rat)
    (hk : ∃ r ∈ inp.build.rows, r.2.1 = true)
    (hnorm : ∀ r ∈ inp.build.rows, r.2.1 = true → ∀ c < inp.build.used.length,
      endsAt (inp.build.used.getD c []) r.1 = true →
        0 < len r.1 c ∧ (inp.tangentAt c r.1).map Vec.normSq = some ((len r.1 c) ^ 2))
    (htrue : ∀ r ∈ inp.build.rows, r.2.1 = true → ∀ c < inp.build.used.length,
      endsAt (inp.build.used.getD c []) r.1 = true →
        inp.tangentAt c r.1 = some (Vec.smul (len r.1 c) (dir r.1 c)))
    (hbal : ∀ r ∈ inp.build.rows, r.2.1 = true →
      ((inp.endCols r.1).map fun c => tau c * (dir r.1 c).x).sum = 0 ∧
      ((inp.endCols r.1).map fun c => tau c * (dir r.1 c).y).sum = 0)
    (hpos : ∀ c < inp.build.used.length, 0 < tau c)
    (hz : z.length = inp.build.used.length + 1) (heps : 0 ≤ eps)
    (h : kktCheck (addMeanOne (normalisedMatrix inp len) (List.replicate (normalisedMatrix inp len).length 0)).1
      (addMeanOne (normalisedMatrix inp len) (List.replicate (normalisedMatrix inp len).length 0)).2 z eps delta = true)
    (hσ : 0 < sigma2)
    (hco : ∀ x : List Rat, x.length = inp.build.used.length + 1 → sigma2 * normSq x ≤ normSq (mulVec
      (addMeanOne (normalisedMatrix inp len) (List.replicate (normalisedMatrix inp len).length 0)).1 x)) :
    (∀ c < inp.build.used.length, (tau c / meanTension inp.build.used.length tau - z.getD c 0) ^ 2
      ≤ 2 * (eps * (inp.build.used.length : Rat) + delta) / sigma2) ∧
    (z.getD inp.build.used.length 0) ^ 2 ≤ 2 * (eps * (inp.build.used.length : Rat) + delta) / sigma2 := by
  have hb := static_certified_recovery inp len dir tau z eps delta sigma2 hk hnorm htrue hbal hpos hz heps h hσ hco
  have hl := (normalisedTensions_mean_one inp.build.used.length tau (used_pos_of_row inp hk) hpos).1
  have key : ∀ i < inp.build.used.length + 1,
      ((normalisedTensions inp.build.used.length tau ++ [0]).getD i 0 - z.getD i 0) ^ 2
        ≤ 2 * (eps * (inp.build.used.length : Rat) + delta) / sigma2 := by
    intro i hi
    have hm := getD_sub_getD_mem_vsub (normalisedTensions inp.build.used.length tau ++ [0]) z i
      (by simp [hl]; omega) (by omega)
    have := mul_self_le_normSq_of_mem _ _ hm
    rw [pow_two]; linarith
  constructor
  · intro c hc
    have := key c (by omega)
    rwa [getD_normalisedTensions _ tau c hc] at this
  · have := key inp.build.used.length (by omega)
    rw [List.getD_eq_getElem?_getD, List.getElem?_append_right (by simp [hl])] at this
    simpa [hl] using this

/-- the same for tissues of exact arcs and straight two-point segments on which finding D2 does not strike
    (`ArcTissue`, `SignsAgree` of Props/C01tissue.lean): the hypotheses of `arcTissue_static_inference` minus `hmin`
    and minus injectivity, plus the certificate and the coercivity constant -/
theorem arcTissue_static_certified_recovery (inp : FMInput) (ρ ℓ : Nat → Rat) (tau : Nat → Rat) (z : List Rat)
    (eps delta sigma2 : Rat)
    (hk : ∃ r ∈ inp.build.rows, r.2.1 = true)
    (hA : ArcTissue inp ρ ℓ) (hS : SignsAgree inp)
    (hbal : ∀ r ∈ inp.build.rows, r.2.1 = true →
      ((inp.endCols r.1).map fun c => tau c * (arcDir inp ρ ℓ r.1 c).x).sum = 0 ∧
      ((inp.endCols r.1).map fun c => tau c * (arcDir inp ρ ℓ r.1 c).y).sum = 0)
    (hpos : ∀ c < inp.build.used.length, 0 < tau c)
    (hz : z.length = inp.build.used.length + 1) (heps : 0 ≤ eps)
    (h : kktCheck (addMeanOne (normalisedMatrix inp (arcLen inp ρ ℓ))
        (List.replicate (normalisedMatrix inp (arcLen inp ρ ℓ)).length 0)).1
      (addMeanOne (normalisedMatrix inp (arcLen inp ρ ℓ))
        (List.replicate (normalisedMatrix inp (arcLen inp ρ ℓ)).length 0)).2 z eps delta = true)
    (hσ : 0 < sigma2)
    (hco : ∀ x : List Rat, x.length = inp.build.used.length + 1 → sigma2 * normSq x ≤ normSq (mulVec
      (addMeanOne (normalisedMatrix inp (arcLen inp ρ ℓ))
        (List.replicate (normalisedMatrix inp (arcLen inp ρ ℓ)).length 0)).1 x)) :
    normSq (vsub (normalisedTensions inp.build.used.length tau ++ [0]) z)
        ≤ 2 * (eps * (inp.build.used.length : Rat) + delta) / sigma2 ∧
    (∀ c < inp.build.used.length, (tau c / meanTension inp.build.used.length tau - z.getD c 0) ^ 2
      ≤ 2 * (eps * (inp.build.used.length : Rat) + delta) / sigma2) := by
  obtain ⟨h1, h2, _⟩ := arcTissue_hnorm_htrue inp ρ ℓ hA hS
  exact ⟨static_certified_recovery inp (arcLen inp ρ ℓ) (arcDir inp ρ ℓ) tau z eps delta sigma2 hk h1 h2 hbal hpos hz
      heps h hσ hco,
    (static_certified_recovery_entry inp (arcLen inp ρ ℓ) (arcDir inp ρ ℓ) tau z eps delta sigma2 hk h1 h2 hbal hpos
      hz heps h hσ hco).1⟩

/-! ### 4. the dynamic system with a rounded right-hand side (C03) -/

/-- an exact non-negative solution passes the exact KKT certificate: the residual vanishes, hence so does the gradient
    `Mᵀ(M t − b)` -/
theorem truth_is_kkt_certified (M : Mat) (b t : List Rat) (hres : residSq M b t = 0) (ht0 : ∀ v ∈ t, 0 ≤ v) :
    kktCheck M b t 0 0 = true := by
  have hg := grad_eq_zero_of_residSq_eq_zero M b t hres
  rw [kktCheck_iff]
  refine ⟨ht0, ?_, ?_⟩
  · intro v hv; rw [hg v hv]; simp
  · rw [dot_eq_zero_of_right t _ hg]; simp [ratAbs']

/-- size of the perturbation of the augmented right-hand side: if `b'` (the rounded velocities, `np.round(·, 3)`:
    `e = 5·10⁻⁴`) differs from the exact `velocityRhs` by at most `e` in every entry, the right-hand sides `add_mean_one`
    builds differ by at most `2k·e²` in squared norm, `k` the number of kept junctions — the appended mean-one entry `n`
    is the same in both -/
theorem dynamic_rhs_perturbation (inp : FMInput) (len : Id → Nat → Rat) (vel : Id → Vec) (b' : List Rat) (e : Rat)
    (hk : ∃ r ∈ inp.build.rows, r.2.1 = true) (he : 0 ≤ e)
    (hb' : b'.length = (velocityRhs inp vel).length)
    (hround : ∀ p ∈ List.zip b' (velocityRhs inp vel), ratAbs' (p.1 - p.2) ≤ e) :
    normSq (vsub (addMeanOne (normalisedMatrix inp len) b').2
        (addMeanOne (normalisedMatrix inp len) (velocityRhs inp vel)).2)
      ≤ 2 * ((inp.build.rows.filter fun r => r.2.1).length : Rat) * (e * e) := by
  have hm := normalisedMatrix_pos inp len hk
  have hsA : Shaped (normalisedMatrix inp len) (velocityRhs inp vel) (normalisedMatrix inp len).length
      inp.build.used.length := ⟨rfl, velocityRhs_len_matrix inp len vel, normalisedMatrix_width inp len⟩
  have hsA' : Shaped (normalisedMatrix inp len) b' (normalisedMatrix inp len).length inp.build.used.length :=
    ⟨rfl, hb'.trans (velocityRhs_len_matrix inp len vel), normalisedMatrix_width inp len⟩
  rw [congrArg Prod.snd (addMeanOne_eq _ _ _ _ hm hsA), congrArg Prod.snd (addMeanOne_eq _ _ _ _ hm hsA'),
    normSq_vsub_append_same _ _ _ hb']
  have h1 := rounding_bound (velocityRhs inp vel) b' e he hb'.symm hround
  have h2 : ((velocityRhs inp vel).length : Rat) = 2 * ((inp.build.rows.filter fun r => r.2.1).length : Rat) := by
    rw [velocityRhs_len]; push_cast; rfl
  rwa [h2] at h1

/-- C03, quantitative, exact solver.  The exact right-hand side is `velocityRhs inp vel`; the code solves the system whose
    right-hand side `b'` was rounded (every entry within `e`); `z'` is EXACTLY certified for the rounded augmented system;
    the truth `tau` is non-negative, has mean one and is in dynamic balance along the exact tangents.  Then the fitted
    values of `z'` and of the truth differ by at most `2k·e²` in squared norm ("the tolerance implied by the
    three-decimal rounding of the velocity term"; `nnls_nonexpansive` + `rounding_bound` + `truth_is_kkt_certified`). -/
theorem dynamic_rounded_recovery (inp : FMInput) (len : Id → Nat → Rat) (dir : Id → Nat → Vec)
    (tau : Nat → Rat) (vel : Id → Vec) (b' z' : List Rat) (e : Rat)
    (hk : ∃ r ∈ inp.build.rows, r.2.1 = true)
    (hnorm : ∀ r ∈ inp.build.rows, r.2.1 = true → ∀ c < inp.build.used.length,
      endsAt (inp.build.used.getD c []) r.1 = true →
        0 < len r.1 c ∧ (inp.tangentAt c r.1).map Vec.normSq = some ((len r.1 c) ^ 2))
    (htrue : ∀ r ∈ inp.build.rows, r.2.1 = true → ∀ c < inp.build.used.length,
      endsAt (inp.build.used.getD c []) r.1 = true →
        inp.tangentAt c r.1 = some (Vec.smul (len r.1 c) (dir r.1 c)))
    (hdyn : ∀ r ∈ inp.build.rows, r.2.1 = true →
      ((inp.endCols r.1).map fun c => tau c * (dir r.1 c).x).sum = (vel r.1).x ∧
      ((inp.endCols r.1).map fun c => tau c * (dir r.1 c).y).sum = (vel r.1).y)
    (hnn : ∀ c < inp.build.used.length, 0 ≤ tau c)
    (hsum : (tauVec inp.build.used.length tau).sum = (inp.build.used.length : Rat))
    (he : 0 ≤ e) (hb' : b'.length = (velocityRhs inp vel).length)
    (hround : ∀ p ∈ List.zip b' (velocityRhs inp vel), ratAbs' (p.1 - p.2) ≤ e)
    (hz' : z'.length = inp.build.used.length + 1)
    (h' : kktCheck (addMeanOne (normalisedMatrix inp len) b').1 (addMeanOne (normalisedMatrix inp len) b').2 z' 0 0
      = true) :
    normSq (mulVec (addMeanOne (normalisedMatrix inp len) (velocityRhs inp vel)).1
      (vsub z' (tauVec inp.build.used.length tau ++ [0])))
        ≤ 2 * ((inp.build.rows.filter fun r => r.2.1).length : Rat) * (e * e) := by
  have hm := normalisedMatrix_pos inp len hk
  have hsA : Shaped (normalisedMatrix inp len) (velocityRhs inp vel) (normalisedMatrix inp len).length
      inp.build.used.length := ⟨rfl, velocityRhs_len_matrix inp len vel, normalisedMatrix_width inp len⟩
  have hsA' : Shaped (normalisedMatrix inp len) b' (normalisedMatrix inp len).length inp.build.used.length :=
    ⟨rfl, hb'.trans (velocityRhs_len_matrix inp len vel), normalisedMatrix_width inp len⟩
  have hsh := addMeanOne_shape _ _ _ _ hm hsA
  have hfst : (addMeanOne (normalisedMatrix inp len) b').1
      = (addMeanOne (normalisedMatrix inp len) (velocityRhs inp vel)).1 := addMeanOne_fst _ _ _
  have hsh' := addMeanOne_shape _ _ _ _ hm hsA'
  rw [hfst] at hsh' h'
  have hres := assembled_dynamic_truth_solves inp len dir tau vel hk hnorm htrue hdyn hsum
  have ht0 : ∀ v ∈ tauVec inp.build.used.length tau ++ [0], 0 ≤ v := by
    intro v hv
    rcases List.mem_append.mp hv with hv | hv
    · exact tauVec_nonneg' _ tau hnn v hv
    · simp only [List.mem_singleton] at hv; rw [hv]
  have hcert := truth_is_kkt_certified _ _ _ hres ht0
  have h1 := nnls_nonexpansive _ _ _ (tauVec inp.build.used.length tau ++ [0]) z' _ _ hsh hsh'
    (by simp [tauVec_length]) hz' hcert h'
  exact h1.trans (dynamic_rhs_perturbation inp len vel b' e hk he hb' hround)

/-- … and with a coercivity constant `σ²` of the augmented matrix: the vector `z'` itself is within `2k·e²/σ²` (squared
    norm) of (true tensions, multiplier 0) -/
theorem dynamic_rounded_recovery_coercive (inp : FMInput) (len : Id → Nat → Rat) (dir : Id → Nat → Vec)
    (tau : Nat → Rat) (vel : Id → Vec) (b' z' : List Rat) (e sigma2 : Rat)
    (hk : ∃ r ∈ inp.build.rows, r.2.1 = true)
    (hnorm : ∀ r ∈ inp.build.rows, r.2.1 = true → ∀ c < inp.build.used.length,
      endsAt (inp.build.used.getD c []) r.1 = true →
        0 < len r.1 c ∧ (inp.tangentAt c r.1).map Vec.normSq = some ((len r.1 c) ^ 2))
    (htrue : ∀ r ∈ inp.build.rows, r.2.1 = true → ∀ c < inp.build.used.length,
      endsAt (inp.build.used.getD c []) r.1 = true →
        inp.tangentAt c r.1 = some (Vec.smul (len r.1 c) (dir r.1 c)))
    (hdyn : ∀ r ∈ inp.build.rows, r.2.1 = true →
      ((inp.endCols r.1).map fun c => tau c * (dir r.1 c).x).sum = (vel r.1).x ∧
      ((inp.endCols r.1).map fun c => tau c * (dir r.1 c).y).sum = (vel r.1).y)
    (hnn : ∀ c < inp.build.used.length, 0 ≤ tau c)
    (hsum : (tauVec inp.build.used.length tau).sum = (inp.build.used.length : Rat))
    (he : 0 ≤ e) (hb' : b'.length = (velocityRhs inp vel).length)
    (hround : ∀ p ∈ List.zip b' (velocityRhs inp vel), ratAbs' (p.1 - p.2) ≤ e)
    (hz' : z'.length = inp.build.used.length + 1)
    (h' : kktCheck (addMeanOne (normalisedMatrix inp len) b').1 (addMeanOne (normalisedMatrix inp len) b').2 z' 0 0
      = true)
    (hσ : 0 < sigma2)
    (hco : ∀ x : List Rat, x.length = inp.build.used.length + 1 → sigma2 * normSq x ≤ normSq (mulVec
      (addMeanOne (normalisedMatrix inp len) (velocityRhs inp vel)).1 x)) :
    normSq (vsub z' (tauVec inp.build.used.length tau ++ [0]))
      ≤ 2 * ((inp.build.rows.filter fun r => r.2.1).length : Rat) * (e * e) / sigma2 ∧
    (∀ c < inp.build.used.length, (z'.getD c 0 - tau c) ^ 2
      ≤ 2 * ((inp.build.rows.filter fun r => r.2.1).length : Rat) * (e * e) / sigma2) := by
  have h1 := dynamic_rounded_recovery inp len dir tau vel b' z' e hk hnorm htrue hdyn hnn hsum he hb' hround hz' h'
  have h2 := hco (vsub z' (tauVec inp.build.used.length tau ++ [0])) (by simp [vsub, tauVec_length, hz'])
  have hb : normSq (vsub z' (tauVec inp.build.used.length tau ++ [0]))
      ≤ 2 * ((inp.build.rows.filter fun r => r.2.1).length : Rat) * (e * e) / sigma2 := by
    rw [le_div_iff₀ hσ]; linarith
  refine ⟨hb, ?_⟩
  intro c hc
  have hm := getD_sub_getD_mem_vsub z' (tauVec inp.build.used.length tau ++ [0]) c (by omega)
    (by simp [tauVec_length]; omega)
  rw [getD_tauVec _ tau c hc] at hm
  have := mul_self_le_normSq_of_mem _ _ hm
  rw [pow_two]; linarith

/-- C03, quantitative, what a run has: `z'` passed the KKT certificate with slacks `ε`, `δ` on the ROUNDED augmented
    system.  The rounding and the slacks add up: `‖M(τ − z')‖² ≤ 2k·e² + 2(ε·n + δ)`, and with a coercivity constant
    `‖τ − z'‖² ≤ (2k·e² + 2(ε·n + δ))/σ²`, entry by entry as well. -/
theorem dynamic_rounded_certified_recovery (inp : FMInput) (len : Id → Nat → Rat) (dir : Id → Nat → Vec)
    (tau : Nat → Rat) (vel : Id → Vec) (b' z' : List Rat) (e eps delta sigma2 : Rat)
    (hk : ∃ r ∈ inp.build.rows, r.2.1 = true)
    (hnorm : ∀ r ∈ inp.build.rows, r.2.1 = true → ∀ c < inp.build.used.length,
      endsAt (inp.build.used.getD c []) r.1 = true →
        0 < len r.1 c ∧ (inp.tangentAt c r.1).map Vec.normSq = some ((len r.1 c) ^ 2))
    (htrue : ∀ r ∈ inp.build.rows, r.2.1 = true → ∀ c < inp.build.used.length,
      endsAt (inp.build.used.getD c []) r.1 = true →
        inp.tangentAt c r.1 = some (Vec.smul (len r.1 c) (dir r.1 c)))
    (hdyn : ∀ r ∈ inp.build.rows, r.2.1 = true →
      ((inp.endCols r.1).map fun c => tau c * (dir r.1 c).x).sum = (vel r.1).x ∧
      ((inp.endCols r.1).map fun c => tau c * (dir r.1 c).y).sum = (vel r.1).y)
    (hnn : ∀ c < inp.build.used.length, 0 ≤ tau c)
    (hsum : (tauVec inp.build.used.length tau).sum = (inp.build.used.length : Rat))
    (he : 0 ≤ e) (hb' : b'.length = (velocityRhs inp vel).length)
    (hround : ∀ p ∈ List.zip b' (velocityRhs inp vel), ratAbs' (p.1 - p.2) ≤ e)
    (hz' : z'.length = inp.build.used.length + 1) (heps : 0 ≤ eps)
    (h' : kktCheck (addMeanOne (normalisedMatrix inp len) b').1 (addMeanOne (normalisedMatrix inp len) b').2 z'
      eps delta = true)
    (hσ : 0 < sigma2)
    (hco : ∀ x : List Rat, x.length = inp.build.used.length + 1 → sigma2 * normSq x ≤ normSq (mulVec
      (addMeanOne (normalisedMatrix inp len) (velocityRhs inp vel)).1 x)) :
    normSq (mulVec (addMeanOne (normalisedMatrix inp len) (velocityRhs inp vel)).1
      (vsub (tauVec inp.build.used.length tau ++ [0]) z'))
        ≤ 2 * ((inp.build.rows.filter fun r => r.2.1).length : Rat) * (e * e)
          + 2 * (eps * (inp.build.used.length : Rat) + delta) ∧
    normSq (vsub (tauVec inp.build.used.length tau ++ [0]) z')
        ≤ (2 * ((inp.build.rows.filter fun r => r.2.1).length : Rat) * (e * e)
          + 2 * (eps * (inp.build.used.length : Rat) + delta)) / sigma2 ∧
    (∀ c < inp.build.used.length, (tau c - z'.getD c 0) ^ 2
        ≤ (2 * ((inp.build.rows.filter fun r => r.2.1).length : Rat) * (e * e)
          + 2 * (eps * (inp.build.used.length : Rat) + delta)) / sigma2) := by
  have hm := normalisedMatrix_pos inp len hk
  have hsA : Shaped (normalisedMatrix inp len) (velocityRhs inp vel) (normalisedMatrix inp len).length
      inp.build.used.length := ⟨rfl, velocityRhs_len_matrix inp len vel, normalisedMatrix_width inp len⟩
  have hsA' : Shaped (normalisedMatrix inp len) b' (normalisedMatrix inp len).length inp.build.used.length :=
    ⟨rfl, hb'.trans (velocityRhs_len_matrix inp len vel), normalisedMatrix_width inp len⟩
  have hsh := addMeanOne_shape _ _ _ _ hm hsA
  have hfst : (addMeanOne (normalisedMatrix inp len) b').1
      = (addMeanOne (normalisedMatrix inp len) (velocityRhs inp vel)).1 := addMeanOne_fst _ _ _
  have hsh' := addMeanOne_shape _ _ _ _ hm hsA'
  rw [hfst] at hsh' h'
  have hres := assembled_dynamic_truth_solves inp len dir tau vel hk hnorm htrue hdyn hsum
  have ht0 : ∀ v ∈ tauVec inp.build.used.length tau ++ [0], 0 ≤ v := by
    intro v hv
    rcases List.mem_append.mp hv with hv | hv
    · exact tauVec_nonneg' _ tau hnn v hv
    · simp only [List.mem_singleton] at hv; rw [hv]
  have h1 := certified_near_truth_perturbed _ _ _ (tauVec inp.build.used.length tau ++ [0]) z' _ _ eps delta hsh hsh'
    (by simp [tauVec_length]) hz' ht0 hres heps h'
  rw [sum_append_singleton, hsum, add_zero] at h1
  have h2 := dynamic_rhs_perturbation inp len vel b' e hk he hb' hround
  have hM : normSq (mulVec (addMeanOne (normalisedMatrix inp len) (velocityRhs inp vel)).1
      (vsub (tauVec inp.build.used.length tau ++ [0]) z'))
        ≤ 2 * ((inp.build.rows.filter fun r => r.2.1).length : Rat) * (e * e)
          + 2 * (eps * (inp.build.used.length : Rat) + delta) := by linarith
  have h3 := hco (vsub (tauVec inp.build.used.length tau ++ [0]) z') (by simp [vsub, tauVec_length, hz'])
  have hb : normSq (vsub (tauVec inp.build.used.length tau ++ [0]) z')
      ≤ (2 * ((inp.build.rows.filter fun r => r.2.1).length : Rat) * (e * e)
          + 2 * (eps * (inp.build.used.length : Rat) + delta)) / sigma2 := by
    rw [le_div_iff₀ hσ]; linarith
  refine ⟨hM, hb, ?_⟩
  intro c hc
  have hmem := getD_sub_getD_mem_vsub (tauVec inp.build.used.length tau ++ [0]) z' c
    (by simp [tauVec_length]; omega) (by omega)
  rw [getD_tauVec _ tau c hc] at hmem
  have := mul_self_le_normSq_of_mem _ _ hmem
  rw [pow_two]; linarith

/-! ### 5. non-vacuity: the lens tissue of Props/C01matrix.lean -/

/-- the 5 × 5 augmented matrix of the lens -/
def balAug : Mat :=
  [[3/5, 1, -4/5, 0, 1], [4/5, 0, -3/5, 0, 1], [-3/5, -1, 0, 4/5, 1], [4/5, 0, 0, -3/5, 1], [1, 1, 1, 1, 0]]

/-- its inverse (the coefficients of `bal_injective`) -/
def balAugInv : Mat :=
  [[-85/124, 245/186, -55/124, -35/186, 15/62],
   [105/124, -175/186, -5/124, 25/186, 7/62],
   [-5/62, -95/93, 15/62, 80/93, 10/31],
   [-5/62, 20/31, 15/62, -25/31, 10/31],
   [1/2, -2/3, 1/2, 2/3, 0]]

theorem balAug_eq :
    (addMeanOne (normalisedMatrix balInp balLen) (List.replicate (normalisedMatrix balInp balLen).length 0)).1
      = balAug ∧
    balInp.build.used.length + 1 = 5 ∧ frobSq balAugInv = 301241 / 34596 := by
  decide +kernel

/-- `balAugInv` is a left inverse of `balAug` -/
theorem balAugInv_left (x : List Rat) (hx : x.length = 5) : mulVec balAugInv (mulVec balAug x) = x := by
  obtain ⟨a, b, c, d, e, rfl⟩ : ∃ a b c d e, x = [a, b, c, d, e] := by
    match x, hx with
    | [a, b, c, d, e], _ => exact ⟨a, b, c, d, e, rfl⟩
  simp only [balAugInv, balAug, mulVec, List.map_cons, List.map_nil, dot_cons, dot_nil_left, List.cons.injEq,
    and_true]
  refine ⟨?_, ?_, ?_, ?_, ?_⟩ <;> ring

/-- a coercivity constant of the augmented lens matrix: `σ² = 1/‖M⁻¹‖_F² = 34596/301241 ≈ 0.1148`
    (`coercive_of_left_inverse`) -/
theorem bal_coercive : ∀ x : List Rat, x.length = balInp.build.used.length + 1 →
    (34596 / 301241 : Rat) * normSq x ≤ normSq (mulVec
      (addMeanOne (normalisedMatrix balInp balLen) (List.replicate (normalisedMatrix balInp balLen).length 0)).1 x) := by
  rw [balAug_eq.1, balAug_eq.2.1]
  have hF : frobSq balAugInv = 301241 / 34596 := balAug_eq.2.2
  have h := coercive_of_left_inverse balAug balAugInv 5 (by decide +kernel) balAugInv_left (by rw [hF]; norm_num)
  intro x hx
  have := h x hx
  rw [hF] at this
  norm_num at this ⊢
  linarith

/-- a slightly-off vector: the truth (30/31, 14/31, 40/31, 40/31, 0) plus 1/1000 on the first entry -/
def balZ : List Rat := [30/31 + 1/1000, 14/31, 40/31, 40/31, 0]

/-- it is not a minimiser (its residual is 3·10⁻⁶, not 0) and does not pass the exact certificate, but it passes with
    `ε = 0`, `δ = 1/200` -/
theorem balZ_certified :
    kktCheck (addMeanOne (normalisedMatrix balInp balLen) (List.replicate (normalisedMatrix balInp balLen).length 0)).1
      (addMeanOne (normalisedMatrix balInp balLen) (List.replicate (normalisedMatrix balInp balLen).length 0)).2
      balZ 0 (1/200) = true ∧
    kktCheck (addMeanOne (normalisedMatrix balInp balLen) (List.replicate (normalisedMatrix balInp balLen).length 0)).1
      (addMeanOne (normalisedMatrix balInp balLen) (List.replicate (normalisedMatrix balInp balLen).length 0)).2
      balZ 0 0 = false ∧
    residSq (addMeanOne (normalisedMatrix balInp balLen) (List.replicate (normalisedMatrix balInp balLen).length 0)).1
      (addMeanOne (normalisedMatrix balInp balLen) (List.replicate (normalisedMatrix balInp balLen).length 0)).2
      balZ = 3 / 1000000 ∧
    balZ.length = balInp.build.used.length + 1 := by
  decide +kernel

/-- `static_certified_recovery` applied on the lens: the certified `balZ` is within `2·(0·4 + 1/200)/σ²` of the truth;
    the actual squared distance is 10⁻⁶ -/
theorem bal_static_certified :
    normSq (vsub (normalisedTensions balInp.build.used.length balTau ++ [0]) balZ)
      ≤ 2 * (0 * (balInp.build.used.length : Rat) + 1/200) / (34596 / 301241) ∧
    normSq (vsub (normalisedTensions balInp.build.used.length balTau ++ [0]) balZ) = 1 / 1000000 :=
  ⟨static_certified_recovery balInp balLen balDir balTau balZ 0 (1/200) (34596 / 301241) bal_hypotheses.1
    bal_hypotheses.2.1 bal_hypotheses.2.2.1 bal_hypotheses.2.2.2.1 bal_hypotheses.2.2.2.2 balZ_certified.2.2.2
    le_rfl balZ_certified.1 (by norm_num) bal_coercive, by decide +kernel⟩

/-- the abstract theorems 1 and 2 on the same data (`t` = the truth, residual zero) -/
example :
    normSq (mulVec balAug (vsub [30/31, 14/31, 40/31, 40/31, 0] balZ)) ≤ 2 * (0 * (4 : Rat) + 1/200) := by
  have hsh : Shaped balAug [0, 0, 0, 0, 4] 5 5 := by
    refine ⟨rfl, rfl, ?_⟩; intro r hr; simp [balAug] at hr; rcases hr with rfl | rfl | rfl | rfl | rfl <;> rfl
  have := (certified_near_truth balAug [0, 0, 0, 0, 4] [30/31, 14/31, 40/31, 40/31, 0] balZ 5 5 0 (1/200) hsh rfl rfl
    (by decide +kernel) (by decide +kernel) le_rfl (by decide +kernel)).1
  have hs : ([30/31, 14/31, 40/31, 40/31, 0] : List Rat).sum = 4 := by decide +kernel
  rwa [hs] at this

/-- the same tissue of exact arcs: `arcTissue_static_certified_recovery` applies (the matrix is the same) -/
example :
    normSq (vsub (normalisedTensions balInp.build.used.length balTau ++ [0]) balZ)
      ≤ 2 * (0 * (balInp.build.used.length : Rat) + 1/200) / (34596 / 301241) := by
  refine (arcTissue_static_certified_recovery balInp balRad balSeg balTau balZ 0 (1/200) (34596 / 301241)
    bal_arcTissue.2.2.1 bal_arcTissue.1 bal_arcTissue.2.1 bal_arcTissue.2.2.2.1 bal_arcTissue.2.2.2.2.1
    balZ_certified.2.2.2 le_rfl ?_ (by norm_num) ?_).1
  · rw [bal_arcTissue.2.2.2.2.2.2]; exact balZ_certified.1
  · rw [bal_arcTissue.2.2.2.2.2.2]; exact bal_coercive

/-! the dynamic lens with velocities that are NOT three-decimal numbers: true tensions (1.001, 0.999, 1, 1) (mean one);
    net pulls (0.7996, 0.2008) at junction 0 and (−0.7996, 0.2008) at junction 1; `np.round(·, 3)` gives
    (0.800, 0.201, −0.800, 0.201) -/

def rndTau : Nat → Rat := fun c => if c = 0 then 1001/1000 else if c = 1 then 999/1000 else 1

def rndVel : Id → Vec := fun v => if v = 0 then ⟨1999/2500, 251/1250⟩ else ⟨-1999/2500, 251/1250⟩

/-- the rounded right-hand side -/
def rndRhs : List Rat := [4/5, 201/1000, -4/5, 201/1000]

/-- the exact solution of the rounded augmented system -/
def rndZ : List Rat := [6207/6200, 1239/1240, 6199/6200, 6199/6200, 0]

/-- hypotheses `hdyn`, `hnn`, `hsum` for (`rndTau`, `rndVel`); the exact right-hand side; every entry of the rounded one
    is within `e = 1/2000`; `rndZ` is exactly certified for the rounded system and differs from the truth -/
theorem rnd_hypotheses :
    (∀ r ∈ balInp.build.rows, r.2.1 = true →
      ((balInp.endCols r.1).map fun c => rndTau c * (balDir r.1 c).x).sum = (rndVel r.1).x ∧
      ((balInp.endCols r.1).map fun c => rndTau c * (balDir r.1 c).y).sum = (rndVel r.1).y) ∧
    (∀ c < balInp.build.used.length, 0 ≤ rndTau c) ∧
    (tauVec balInp.build.used.length rndTau).sum = (balInp.build.used.length : Rat) ∧
    velocityRhs balInp rndVel = [1999/2500, 251/1250, -1999/2500, 251/1250] ∧
    rndRhs.length = (velocityRhs balInp rndVel).length ∧
    (∀ p ∈ List.zip rndRhs (velocityRhs balInp rndVel), ratAbs' (p.1 - p.2) ≤ 1/2000) ∧
    rndZ.length = balInp.build.used.length + 1 ∧
    kktCheck (addMeanOne (normalisedMatrix balInp balLen) rndRhs).1 (addMeanOne (normalisedMatrix balInp balLen) rndRhs).2
      rndZ 0 0 = true ∧
    rndZ ≠ tauVec balInp.build.used.length rndTau ++ [0] ∧
    (balInp.build.rows.filter fun r => r.2.1).length = 2 := by
  decide +kernel

/-- coercivity of the dynamic augmented matrix of the lens (the same matrix) -/
theorem rnd_coercive : ∀ x : List Rat, x.length = balInp.build.used.length + 1 →
    (34596 / 301241 : Rat) * normSq x ≤ normSq (mulVec
      (addMeanOne (normalisedMatrix balInp balLen) (velocityRhs balInp rndVel)).1 x) := by
  rw [dynamic_injective_iff_static]
  exact bal_coercive

/-- `dynamic_rounded_recovery` and `dynamic_rounded_recovery_coercive` applied on the lens: the fit moves by at most
    `2·2·(1/2000)² = 10⁻⁶` (actually 4·10⁻⁷), the tensions by at most `10⁻⁶/σ²` in squared norm -/
theorem rnd_dynamic_rounded :
    normSq (mulVec (addMeanOne (normalisedMatrix balInp balLen) (velocityRhs balInp rndVel)).1
      (vsub rndZ (tauVec balInp.build.used.length rndTau ++ [0]))) ≤ 2 * (2 : Rat) * (1/2000 * (1/2000)) ∧
    normSq (mulVec (addMeanOne (normalisedMatrix balInp balLen) (velocityRhs balInp rndVel)).1
      (vsub rndZ (tauVec balInp.build.used.length rndTau ++ [0]))) = 1 / 2500000 ∧
    normSq (vsub rndZ (tauVec balInp.build.used.length rndTau ++ [0]))
      ≤ 2 * (2 : Rat) * (1/2000 * (1/2000)) / (34596 / 301241) := by
  have h1 := dynamic_rounded_recovery balInp balLen balDir rndTau rndVel rndRhs rndZ (1/2000) bal_hypotheses.1
    bal_hypotheses.2.1 bal_hypotheses.2.2.1 rnd_hypotheses.1 rnd_hypotheses.2.1 rnd_hypotheses.2.2.1 (by norm_num)
    rnd_hypotheses.2.2.2.2.1 rnd_hypotheses.2.2.2.2.2.1 rnd_hypotheses.2.2.2.2.2.2.1 rnd_hypotheses.2.2.2.2.2.2.2.1
  have h2 := (dynamic_rounded_recovery_coercive balInp balLen balDir rndTau rndVel rndRhs rndZ (1/2000)
    (34596 / 301241) bal_hypotheses.1
    bal_hypotheses.2.1 bal_hypotheses.2.2.1 rnd_hypotheses.1 rnd_hypotheses.2.1 rnd_hypotheses.2.2.1 (by norm_num)
    rnd_hypotheses.2.2.2.2.1 rnd_hypotheses.2.2.2.2.2.1 rnd_hypotheses.2.2.2.2.2.2.1 rnd_hypotheses.2.2.2.2.2.2.2.1
    (by norm_num) rnd_coercive).1
  rw [rnd_hypotheses.2.2.2.2.2.2.2.2.2] at h1 h2
  exact ⟨by simpa using h1, by decide +kernel, by simpa using h2⟩

/-- `dynamic_rounded_certified_recovery` on the lens: `rndZ` plus 1/1000 on the first entry passes the certificate of
    the rounded system with `ε = 0`, `δ = 1/100`; rounding and slack add up -/
theorem rnd_dynamic_rounded_certified :
    kktCheck (addMeanOne (normalisedMatrix balInp balLen) rndRhs).1 (addMeanOne (normalisedMatrix balInp balLen) rndRhs).2
      [6207/6200 + 1/1000, 1239/1240, 6199/6200, 6199/6200, 0] 0 (1/100) = true ∧
    normSq (vsub (tauVec balInp.build.used.length rndTau ++ [0])
        [6207/6200 + 1/1000, 1239/1240, 6199/6200, 6199/6200, 0])
      ≤ (2 * ((balInp.build.rows.filter fun r => r.2.1).length : Rat) * (1/2000 * (1/2000))
        + 2 * (0 * (balInp.build.used.length : Rat) + 1/100)) / (34596 / 301241) := by
  have hc : kktCheck (addMeanOne (normalisedMatrix balInp balLen) rndRhs).1
      (addMeanOne (normalisedMatrix balInp balLen) rndRhs).2
      [6207/6200 + 1/1000, 1239/1240, 6199/6200, 6199/6200, 0] 0 (1/100) = true := by decide +kernel
  exact ⟨hc, (dynamic_rounded_certified_recovery balInp balLen balDir rndTau rndVel rndRhs
    [6207/6200 + 1/1000, 1239/1240, 6199/6200, 6199/6200, 0] (1/2000) 0 (1/100) (34596 / 301241) bal_hypotheses.1
    bal_hypotheses.2.1 bal_hypotheses.2.2.1 rnd_hypotheses.1 rnd_hypotheses.2.1 rnd_hypotheses.2.2.1 (by norm_num)
    rnd_hypotheses.2.2.2.2.1 rnd_hypotheses.2.2.2.2.2.1 (by decide +kernel) le_rfl hc (by norm_num) rnd_coercive).2.1⟩

/-- `truth_is_kkt_certified` on the lens: the truth of the exact dynamic system passes the exact certificate -/
example : kktCheck (addMeanOne (normalisedMatrix balInp balLen) (velocityRhs balInp rndVel)).1
    (addMeanOne (normalisedMatrix balInp balLen) (velocityRhs balInp rndVel)).2
    (tauVec balInp.build.used.length rndTau ++ [0]) 0 0 = true := by decide +kernel

/- PENDING (not proved here; hypotheses of the theorems above):
   * the coercivity constant `σ²` (`hco`): the harness computes the smallest singular value of the augmented matrix in
     floating point (numpy SVD); it is NOT certified in exact arithmetic.  `coercive_of_left_inverse` shows how an exact
     left inverse certifies one (`bal_coercive` on the lens); a version for an APPROXIMATE left inverse (what a float
     `inv` returns: `‖N M − I‖` small) is not proved;
   * the matrix entries themselves: the theorems are about the model's exact normalised matrix (`hnorm`: `len` is the
     exact norm).  The real matrix holds IEEE doubles `w / np.linalg.norm(w)` (compared per run to the model, C02
     harness, 1e-9); the effect of that entry-wise perturbation of `M` on the recovered tensions (a bound of the type
     `‖ΔM‖·‖z‖/σ`) is not proved;
   * `kktCheck` is evaluated by the harness on the REAL float matrix and right-hand side (exact rationals of the
     doubles), i.e. for the system the solver saw; transferring the certificate to the model's matrix is the item above;
   * the bounds are in squared norm; the model has no square root (take roots outside).
-/

end Forsys
