/-
  Property C20 (continued) — the cycle structure behind the cell geometry primitives:
  iterating next-vertex navigation walks the whole cycle; orientation (area sign) under cyclic shifts,
  translations, scalings and reflections (the "y-up vs y-down" clause); the triangle as the base case of the
  sign convention; the perimeter terms and the centroid under the same motions; the neighbour relation.
  Helper lemmas live in ForsysModel/Proofs/C20cycle.lean.
-/
import ForsysModel.Props.C20
import ForsysModel.Proofs.C20cycle

namespace Forsys

def reflectY (ps : List Pt) : List Pt := ps.map fun p => ⟨p.x, -p.y⟩
def reflectX (ps : List Pt) : List Pt := ps.map fun p => ⟨-p.x, p.y⟩

/-! ### navigation walks the whole cycle -/

/-- `k` applications of `get_next_vertex` starting at index `i` land on `(i + k·sign) mod n`. -/
theorem nextIdx_iterate (ps : List Pt) (i k : Nat) (hi : i < ps.length) :
    (nextIdx ps)^[k] i = pyMod ((i : Int) + (k : Int) * areaSign ps) ps.length := by
  exact pyMod_iterate (areaSign ps) ps.length (by omega) k i hi

theorem nextIdx_iterate_of_sign_pos (ps : List Pt) (i k : Nat) (h : areaSign ps = 1)
    (hi : i < ps.length) : (nextIdx ps)^[k] i = (i + k) % ps.length := by
  rw [nextIdx_iterate ps i k hi, h, Int.mul_one, ← pyMod_natCast]
  rfl

theorem nextIdx_iterate_of_sign_neg (ps : List Pt) (i k : Nat) (h : areaSign ps = -1)
    (hi : i < ps.length) :
    (nextIdx ps)^[k] i = (i + ps.length - k % ps.length) % ps.length := by
  rw [nextIdx_iterate ps i k hi, h, pyMod_sub_nat _ _ _ (by omega)]

/-- after `n = len(vertices)` steps navigation is back at the start (any area sign) -/
theorem nextIdx_iterate_length (ps : List Pt) (i : Nat) (hi : i < ps.length) :
    (nextIdx ps)^[ps.length] i = i := by
  rw [nextIdx_iterate ps i _ hi, pyMod_add_mul_self, pyMod_natCast, Nat.mod_eq_of_lt hi]

/-- navigation never leaves the index range -/
theorem nextIdx_lt_length (ps : List Pt) (i : Nat) (hn : 0 < ps.length) :
    nextIdx ps i < ps.length := by
  exact nextIdx_lt ps i hn

/-- with a non-zero area sign every index of the cycle is reached from every start in fewer than `n` steps -/
theorem nextIdx_orbit_covers (ps : List Pt) (i j : Nat) (h : areaSign ps ≠ 0)
    (hi : i < ps.length) (hj : j < ps.length) :
    ∃ k, k < ps.length ∧ (nextIdx ps)^[k] i = j := by
  have hn : 0 < ps.length := by omega
  rcases ratSign_cases (area ps) with h1 | h1 | h1
  · refine ⟨(j + ps.length - i) % ps.length, Nat.mod_lt _ hn, ?_⟩
    rw [nextIdx_iterate_of_sign_pos ps i _ h1 hi, Nat.add_mod_mod]
    have : i + (j + ps.length - i) = j + ps.length := by omega
    rw [this, Nat.add_mod_right, Nat.mod_eq_of_lt hj]
  · refine ⟨(i + ps.length - j) % ps.length, Nat.mod_lt _ hn, ?_⟩
    rw [nextIdx_iterate_of_sign_neg ps i _ h1 hi, Nat.mod_mod]
    have hlt : (i + ps.length - j) % ps.length < ps.length := Nat.mod_lt _ hn
    -- (i + n - j) % n is i - j or i + n - j
    rcases Nat.lt_or_ge i j with hij | hij
    · have e : (i + ps.length - j) % ps.length = i + ps.length - j := Nat.mod_eq_of_lt (by omega)
      rw [e]
      have : i + ps.length - (i + ps.length - j) = j := by omega
      rw [this, Nat.mod_eq_of_lt hj]
    · have e : (i + ps.length - j) % ps.length = i - j := by
        have : i + ps.length - j = (i - j) + ps.length := by omega
        rw [this, Nat.add_mod_right, Nat.mod_eq_of_lt (by omega)]
      rw [e]
      have : i + ps.length - (i - j) = j + ps.length := by omega
      rw [this, Nat.add_mod_right, Nat.mod_eq_of_lt hj]
  · exact absurd h1 h

/-- with area sign 0 (degenerate cycle) navigation does not move: `get_next_vertex(v) is v` -/
theorem nextIdx_of_sign_zero (ps : List Pt) (i : Nat) (h : areaSign ps = 0) (hi : i < ps.length) :
    nextIdx ps i = i := by
  unfold nextIdx
  rw [h, Int.add_zero, pyMod_natCast, Nat.mod_eq_of_lt hi]

/-! ### orientation under the motions of the plane -/

theorem areaSign_rotate (ps : List Pt) (k : Nat) : areaSign (ps.rotateLeft k) = areaSign ps := by
  unfold areaSign
  rw [area_rotate]

theorem areaSign_translate (d : Pt) (ps : List Pt) : areaSign (translate d ps) = areaSign ps := by
  unfold areaSign
  rw [area_translate]

/-- a non-zero length factor (negative ones included: a point reflection) keeps the orientation -/
theorem areaSign_scale (s : Rat) (ps : List Pt) (hs : s ≠ 0) :
    areaSign (scale s ps) = areaSign ps := by
  unfold areaSign
  rw [area_scale]
  exact c20_ratSign_mul_pos _ _ (mul_self_pos.mpr hs)

/-- the guard `s ≠ 0` is needed: the factor 0 collapses the cycle and the sign becomes 0 -/
theorem areaSign_scale_witness :
    areaSign (scale 0 [⟨0,0⟩, ⟨1,0⟩, ⟨1,1⟩, ⟨0,1⟩]) ≠ areaSign [⟨0,0⟩, ⟨1,0⟩, ⟨1,1⟩, ⟨0,1⟩] := by
  decide +kernel

/-- mirroring the frame (y-up ↔ y-down) negates the area -/
theorem area_reflect_y (ps : List Pt) : area (reflectY ps) = - area ps := by
  exact area_map_reflect_y ps

theorem area_reflect_x (ps : List Pt) : area (reflectX ps) = - area ps := by
  exact area_map_reflect_x ps

theorem areaSign_reflect_y (ps : List Pt) : areaSign (reflectY ps) = - areaSign ps := by
  unfold areaSign
  rw [area_reflect_y, ratSign_neg]

theorem areaSign_reflect_x (ps : List Pt) : areaSign (reflectX ps) = - areaSign ps := by
  unfold areaSign
  rw [area_reflect_x, ratSign_neg]

/-- the area sign is 0 exactly for zero-area cycles -/
theorem areaSign_eq_zero_iff (ps : List Pt) : areaSign ps = 0 ↔ area ps = 0 := by
  exact ratSign_eq_zero_iff _

/-- base case of the sign convention: the coded area of a triangle is minus half the cross product
    `(q − p) × (r − p)`, so a triangle that is counter-clockwise in a y-up frame has negative area -/
theorem area_triangle (p q r : Pt) :
    area [p, q, r] = -(1/2 : Rat) * ((q.x - p.x) * (r.y - p.y) - (r.x - p.x) * (q.y - p.y)) := by
  simp [area, dot, rollR]
  ring

theorem areaSign_triangle_ccw (p q r : Pt)
    (h : 0 < (q.x - p.x) * (r.y - p.y) - (r.x - p.x) * (q.y - p.y)) : areaSign [p, q, r] = -1 := by
  unfold areaSign
  rw [area_triangle]
  unfold ratSign
  have h1 : -(1/2 : Rat) * ((q.x - p.x) * (r.y - p.y) - (r.x - p.x) * (q.y - p.y)) < 0 := by linarith
  have h2 : ¬ 0 < -(1/2 : Rat) * ((q.x - p.x) * (r.y - p.y) - (r.x - p.x) * (q.y - p.y)) := by linarith
  rw [if_neg h2, if_pos h1]

example : (0 : Rat) < (((⟨1,0⟩ : Pt).x - (⟨0,0⟩ : Pt).x) * ((⟨0,1⟩ : Pt).y - (⟨0,0⟩ : Pt).y)
    - ((⟨0,1⟩ : Pt).x - (⟨0,0⟩ : Pt).x) * ((⟨1,0⟩ : Pt).y - (⟨0,0⟩ : Pt).y)) := by
  decide +kernel

/-! ### navigation on the reversed cycle, fan decomposition of the area -/

/-- position of the successor on the reversed cycle: the mirror image of the successor's position -/
theorem nextIdx_reverse_index (ps : List Pt) (i : Nat) (hi : i < ps.length) :
    nextIdx ps.reverse (ps.length - 1 - i) = ps.length - 1 - nextIdx ps i := by
  exact nextIdx_reverse_idx ps i hi

/-- `get_next_vertex` is a geometric notion: the vertex `ps[i]` sits at index `n−1−i` of the reversed cycle
    (whose area sign is the opposite one), and its successor there is the same point as its successor in `ps`. -/
theorem nextIdx_reverse (ps : List Pt) (i : Nat) (hi : i < ps.length) :
    ps.reverse[nextIdx ps.reverse (ps.length - 1 - i)]? = ps[nextIdx ps i]?
      ∧ ps.reverse[ps.length - 1 - i]? = ps[i]? := by
  refine ⟨nextIdx_reverse' ps i hi, ?_⟩
  rw [List.getElem?_reverse (by omega)]
  congr 1
  omega

/-- fan decomposition: the area of any cycle `p :: rest` (no convexity, no simplicity needed) is the sum of the
    signed areas of the triangles `p, rest[j], rest[j+1]` -/
theorem area_fan (p : Pt) (rest : List Pt) :
    area (p :: rest) = ((rest.zip rest.tail).map fun e => area [p, e.1, e.2]).sum := by
  exact area_fan' p rest

/-- a cycle all of whose fan triangles are counter-clockwise in a y-up frame (negative coded area) —
    e.g. every convex counter-clockwise polygon — has area sign −1 -/
theorem areaSign_fan_ccw (p : Pt) (rest : List Pt) (hl : 2 ≤ rest.length)
    (h : ∀ e ∈ rest.zip rest.tail, area [p, e.1, e.2] < 0) : areaSign (p :: rest) = -1 := by
  have hs : area (p :: rest) < 0 := by
    rw [area_fan]
    apply sum_neg_of_forall_neg
    · match rest, hl with
      | a :: b :: l, _ => simp
    · intro a ha
      rw [List.mem_map] at ha
      obtain ⟨e, he, rfl⟩ := ha
      exact h e he
  unfold areaSign ratSign
  have h2 : ¬ 0 < area (p :: rest) := by linarith
  rw [if_neg h2, if_pos hs]

/-! the hypotheses of `areaSign_fan_ccw` hold for the counter-clockwise unit square -/
example : 2 ≤ ([⟨1,0⟩, ⟨1,1⟩, ⟨0,1⟩] : List Pt).length
    ∧ ∀ e ∈ ([⟨1,0⟩, ⟨1,1⟩, ⟨0,1⟩] : List Pt).zip ([⟨1,0⟩, ⟨1,1⟩, ⟨0,1⟩] : List Pt).tail,
        area [⟨0,0⟩, e.1, e.2] < 0 := by
  decide +kernel

/-! ### perimeter terms -/

/-- one term per vertex (also for `n = 0, 1, 2`: no term, one zero term, the segment counted twice) -/
theorem perimeterSq_length (ps : List Pt) : (perimeterSq ps).length = ps.length := by
  simp [perimeterSq]

/-- a zero-area cycle has all perimeter terms 0 (navigation stands still), whatever its shape:
    `get_perimeter` returns 0 for a degenerate cell -/
theorem perimeterSq_of_sign_zero (ps : List Pt) (h : areaSign ps = 0) :
    perimeterSq ps = List.replicate ps.length 0 := by
  exact perimeterSq_zero ps h

/-- for every non-degenerate cycle the terms are, up to order, the squared segment lengths of the closed cycle -/
theorem perimeterSq_perm_cyclicPairs (ps : List Pt) (h : areaSign ps ≠ 0) :
    (perimeterSq ps).Perm ((cyclicPairs ps).map fun e => distSq e.1 e.2) := by
  exact perimeterSq_perm_cyclic ps h

/-- translations leave every term unchanged (same order) -/
theorem perimeterSq_translate (d : Pt) (ps : List Pt) :
    perimeterSq (translate d ps) = perimeterSq ps := by
  unfold translate
  rw [perimeterSq_map _ ps (areaSign_translate d ps)]
  unfold perimeterSq
  apply List.map_congr_left
  intro i _
  exact distSq_translate d _ _

/-- a non-zero length factor multiplies every term by its square (same order) -/
theorem perimeterSq_scale (s : Rat) (ps : List Pt) (hs : s ≠ 0) :
    perimeterSq (scale s ps) = (perimeterSq ps).map fun t => s * s * t := by
  unfold scale
  rw [perimeterSq_map _ ps (areaSign_scale s ps hs)]
  unfold perimeterSq
  rw [List.map_map]
  apply List.map_congr_left
  intro i _
  exact distSq_scale s _ _

/-- cyclic shifts permute the terms (any area sign) -/
theorem perimeterSq_rotate_perm (ps : List Pt) (k : Nat) :
    (perimeterSq (ps.rotateLeft k)).Perm (perimeterSq ps) := by
  by_cases h : areaSign ps = 0
  · rw [perimeterSq_zero _ (by rw [areaSign_rotate]; exact h), perimeterSq_zero _ h,
      rotateLeft_eq_rotate, List.length_rotate]
  · exact ((perimeterSq_perm_cyclic _ (by rw [areaSign_rotate]; exact h)).trans
      (cyclic_distSq_rotate ps k)).trans (perimeterSq_perm_cyclic ps h).symm

/-- reversing the cycle permutes the terms (any area sign) -/
theorem perimeterSq_reverse_perm (ps : List Pt) :
    (perimeterSq ps.reverse).Perm (perimeterSq ps) := by
  by_cases h : areaSign ps = 0
  · rw [perimeterSq_zero _ (by rw [areaSign_reverse, h]; rfl), perimeterSq_zero _ h,
      List.length_reverse]
  · exact ((perimeterSq_perm_cyclic _ (by rw [areaSign_reverse]; omega)).trans
      (cyclic_distSq_reverse ps)).trans (perimeterSq_perm_cyclic ps h).symm

/-! non-vacuity of the sign hypotheses used above: a clockwise square (sign 1), the counter-clockwise one (−1),
    and a bow-tie quadrilateral, which is not collapsed but has zero area (sign 0) -/
example : areaSign [⟨0,0⟩, ⟨0,1⟩, ⟨1,1⟩, ⟨1,0⟩] = 1 ∧ areaSign [⟨0,0⟩, ⟨1,0⟩, ⟨1,1⟩, ⟨0,1⟩] = -1
    ∧ areaSign [⟨0,0⟩, ⟨1,0⟩, ⟨1,1⟩, ⟨0,1⟩] ≠ 0 ∧ areaSign [⟨0,0⟩, ⟨1,1⟩, ⟨1,0⟩, ⟨0,1⟩] = 0 := by
  decide +kernel

/-! the bow-tie has four segments of non-zero length, yet all four perimeter terms are 0 -/
example : perimeterSq [⟨0,0⟩, ⟨1,1⟩, ⟨1,0⟩, ⟨0,1⟩] = [0, 0, 0, 0]
    ∧ (cyclicPairs ([⟨0,0⟩, ⟨1,1⟩, ⟨1,0⟩, ⟨0,1⟩] : List Pt)).map (fun e => distSq e.1 e.2) = [2, 1, 2, 1] := by
  decide +kernel

/-! small cycles: no term, one zero term, and for a 2-cycle (area 0) two zero terms -/
example : perimeterSq [] = [] ∧ perimeterSq [⟨3,4⟩] = [0] ∧ perimeterSq [⟨0,0⟩, ⟨3,4⟩] = [0, 0] := by
  decide +kernel

/-! ### centroid of the vertex list (`get_cm`) -/

theorem cm_rotate (ps : List Pt) (k : Nat) : cm (ps.rotateLeft k) = cm ps := by
  unfold cm
  rw [rotateLeft_eq_rotate]
  rw [c20_mean_perm _ _ ((List.rotate_perm ps k).map (·.x)), c20_mean_perm _ _ ((List.rotate_perm ps k).map (·.y))]

theorem cm_reverse (ps : List Pt) : cm ps.reverse = cm ps := by
  unfold cm
  rw [c20_mean_perm _ _ ((List.reverse_perm ps).map (·.x)), c20_mean_perm _ _ ((List.reverse_perm ps).map (·.y))]

/-- the centroid moves with the cell (the cycle must be non-empty: `np.mean([])` is not a number) -/
theorem cm_translate (d : Pt) (ps : List Pt) (h : ps ≠ []) :
    cm (translate d ps) = ⟨(cm ps).x + d.x, (cm ps).y + d.y⟩ := by
  unfold cm translate
  simp only [List.map_map, Function.comp_def]
  rw [mean_map_add ps (·.x) d.x h, mean_map_add ps (·.y) d.y h]

example : ([⟨0,0⟩, ⟨1,0⟩, ⟨1,1⟩] : List Pt) ≠ [] := by decide

theorem cm_scale (s : Rat) (ps : List Pt) : cm (scale s ps) = ⟨s * (cm ps).x, s * (cm ps).y⟩ := by
  unfold cm scale
  simp only [List.map_map, Function.comp_def]
  rw [mean_map_mul ps (·.x) s, mean_map_mul ps (·.y) s]

/-! ### neighbours -/

theorem neighbors_not_self (m : Mesh) (c : Cell) : c.id ∉ m.neighbors c := by
  intro h
  exact ((neighbors_spec m c c.id).mp h).1 rfl

theorem neighbors_nodup (m : Mesh) (c : Cell) : (m.neighbors c).Nodup := by
  exact neighbors_nodup' m c

/-- In a mesh whose dictionaries are keyed by own id (C09 clause 3) and whose `ownCells` lists agree with the
    cell cycles (C09 clause 2) — in particular in every `Consistent` mesh — being a neighbour is symmetric. -/
theorem neighbors_symm_of_clauses (m : Mesh) (c d : Cell) (hk : m.keysOk = true)
    (ho : m.ownCellsOk = true) (hc : m.cell? c.id = some c) (hd : m.cell? d.id = some d) :
    d.id ∈ m.neighbors c ↔ c.id ∈ m.neighbors d := by
  exact ⟨neighbors_symm_aux m c d hk ho hc hd, neighbors_symm_aux m d c hk ho hd hc⟩

theorem neighbors_symm (m : Mesh) (c d : Cell) (hm : m.Consistent = true)
    (hc : m.cell? c.id = some c) (hd : m.cell? d.id = some d) :
    d.id ∈ m.neighbors c ↔ c.id ∈ m.neighbors d := by
  unfold Mesh.Consistent at hm
  simp only [Bool.and_eq_true] at hm
  exact neighbors_symm_of_clauses m c d hm.1.1.1.1.1 hm.1.1.1.2 hc hd

/-- two triangles 1-2-3 and 1-3-4 sharing the edge 1-3 -/
def c20TwoTriangles : Mesh :=
  { vertices := [(1, ⟨1, 0, 0, [1, 3, 5], [10, 11]⟩), (2, ⟨2, 1, 0, [1, 2], [10]⟩),
                 (3, ⟨3, 1, 1, [2, 3, 4], [10, 11]⟩), (4, ⟨4, 0, 1, [4, 5], [11]⟩)],
    edges := [(1, ⟨1, 1, 2, true⟩), (2, ⟨2, 2, 3, true⟩), (3, ⟨3, 3, 1, true⟩), (4, ⟨4, 3, 4, true⟩),
              (5, ⟨5, 4, 1, true⟩)],
    cells := [(10, ⟨10, [1, 2, 3], true⟩), (11, ⟨11, [1, 3, 4], true⟩)] }

/-! the hypotheses of `neighbors_symm` hold on a concrete mesh with two neighbouring cells -/
example : c20TwoTriangles.Consistent = true
    ∧ c20TwoTriangles.cell? (⟨10, [1, 2, 3], true⟩ : Cell).id = some ⟨10, [1, 2, 3], true⟩
    ∧ c20TwoTriangles.cell? (⟨11, [1, 3, 4], true⟩ : Cell).id = some ⟨11, [1, 3, 4], true⟩
    ∧ c20TwoTriangles.neighbors ⟨10, [1, 2, 3], true⟩ = [11]
    ∧ c20TwoTriangles.neighbors ⟨11, [1, 3, 4], true⟩ = [10] := by
  exact ⟨by decide +kernel, rfl, rfl, by decide +kernel, by decide +kernel⟩

/-- without clause 2 of C09 symmetry fails: a vertex of cell 10 that lists a cell 11 which does not contain it -/
def c20Lopsided : Mesh :=
  { vertices := [(1, ⟨1, 0, 0, [], [10, 11]⟩)], edges := [],
    cells := [(10, ⟨10, [1], true⟩), (11, ⟨11, [], true⟩)] }

theorem neighbors_symm_witness :
    c20Lopsided.keysOk = true ∧ c20Lopsided.ownCellsOk = false
    ∧ c20Lopsided.cell? 10 = some ⟨10, [1], true⟩ ∧ c20Lopsided.cell? 11 = some ⟨11, [], true⟩
    ∧ (11 : Id) ∈ c20Lopsided.neighbors ⟨10, [1], true⟩ ∧ (10 : Id) ∉ c20Lopsided.neighbors ⟨11, [], true⟩ := by
  exact ⟨by decide +kernel, by decide +kernel, rfl, rfl, by decide +kernel, by decide +kernel⟩

end Forsys
