/-
  Property C09 — additions to Props/C09.lean, Props/C09join.lean, Props/C09wkt.lean.

  * `failing` (the replay diagnosis) is empty exactly for consistent meshes;
  * the object constructors one at a time (`mkVertex`, `mkEdge`, `mkCell`) keep a consistent mesh consistent, so
    every interleaving of constructor calls does, not only "vertices, edges, cells" of `ofLists`;
  * `del cells[k]` keeps ALL six clauses; `del edges[k]` keeps five and can break only `cyclesJoined` (witness);
    both deletions are idempotent and do nothing on an absent key;
  * Surface Evolver's whole `create_lattice` (`ofLists` then `orphanRemoval`) is consistent, leaves no vertex
    without a cell, is idempotent, and is the identity when every vertex is in a cell;
  * consistency depends on ids and own-lists only: any map of the coordinates (translation, scaling, rotation,
    reflection …) leaves `Consistent` unchanged;
  * well-formedness of parser input is invariant under permuting the three input lists and under rotating or
    reversing every cell cycle;
  * in a consistent mesh `ownEdges` / `ownCells` of a vertex are permutations of the incident edges / the
    containing cells (so `len(v.ownEdges)` is the degree);
  * `_witness` theorems: each hypothesis of `WFInput` that `ofLists_consistent` uses is necessary, `e.v1 ≠ e.v2` is
    not, and the converse of `ofLists_consistent` fails.
-/
import ForsysModel.Proofs.C09more

namespace Forsys
open Mesh

/-! ### props -/

theorem failing_nil_iff (m : Mesh) : m.failing = [] ↔ m.Consistent = true := by
  simp only [failing, Consistent]
  cases m.keysOk <;> cases m.ownEdgesOk <;> cases m.ownCellsOk <;> cases m.refsOk <;>
    cases m.cellsNodup <;> cases m.cyclesJoined <;> simp

theorem delEdge_preserves_five (m : Mesh) (k : Id) (h : m.Consistent = true) :
    (m.delEdge k).keysOk = true ∧ (m.delEdge k).ownEdgesOk = true ∧ (m.delEdge k).ownCellsOk = true ∧
    (m.delEdge k).refsOk = true ∧ (m.delEdge k).cellsNodup = true := by
  rw [consistent_iff] at h
  obtain ⟨hK, hE, hC, hR, hN, _⟩ := h
  rw [keysOk_iff, ownEdgesOk_iff, ownCellsOk_iff, refsOk_iff, cellsNodup_iff]
  refine ⟨delEdge_keysP m k hK, delEdge_ownEdgesP m k hK.1 hK.2.1 hE, c09_delEdge_ownCellsP m k hC,
    c09_delEdge_refsP m k hR, ?_⟩
  intro q hq
  rw [delEdge_cells] at hq
  exact hN q hq

theorem delEdge_cyclesJoined_witness :
    twoTriangles.Consistent = true ∧ (twoTriangles.delEdge 0).cyclesJoined = false := by
  decide +kernel

theorem delCell_consistent (m : Mesh) (k : Id) (h : m.Consistent = true) : (m.delCell k).Consistent = true := by
  rw [consistent_iff] at h ⊢
  exact c09_delCell_consP m k h

theorem delEdge_idem (m : Mesh) (k : Id) : (m.delEdge k).delEdge k = m.delEdge k := by
  apply delEdge_none
  simp [edge?, delEdge_edges, alGet?_filter_ne]

theorem delCell_idem (m : Mesh) (k : Id) : (m.delCell k).delCell k = m.delCell k := by
  apply delCell_none
  simp [cell?, c09_delCell_cells', alGet?_filter_ne]

theorem delEdge_absent (m : Mesh) (k : Id) (h : k ∉ m.edges.map (·.1)) : m.delEdge k = m :=
  delEdge_none m k ((alGet?_eq_none_iff _ _).mpr h)

theorem delCell_absent (m : Mesh) (k : Id) (h : k ∉ m.cells.map (·.1)) : m.delCell k = m :=
  delCell_none m k ((alGet?_eq_none_iff _ _).mpr h)

theorem orphanRemoval_of_covered (m : Mesh) (h : m.Consistent = true)
    (hc : ∀ p ∈ m.vertices, ∃ q ∈ m.cells, p.2.id ∈ q.2.verts) : m.orphanRemoval = m := by
  rw [consistent_iff] at h
  have : (m.vertices.filter fun p => p.2.ownCells.isEmpty) = [] := by
    apply List.filter_eq_nil_iff.mpr
    intro p hp
    obtain ⟨q, hq, hv⟩ := hc p hp
    have := (h.2.2.1 p hp).2.1 q hq hv
    cases hh : p.2.ownCells with
    | nil => rw [hh] at this; cases this
    | cons _ _ => simp
  simp [orphanRemoval, this]

theorem WFInput.perm {vs vs' : List (Id × Rat × Rat)} {es es' : List (Id × Id × Id)} {cs cs' : List (Id × List Id)}
    (h : WFInput vs es cs) (pv : vs.Perm vs') (pe : es.Perm es') (pc : cs.Perm cs') : WFInput vs' es' cs' := by
  have mv : ∀ x, x ∈ vs'.map (·.1) ↔ x ∈ vs.map (·.1) := fun x => (pv.map _).mem_iff.symm
  refine ⟨(pv.map _).nodup_iff.mp h.vkeys, (pe.map _).nodup_iff.mp h.ekeys, (pc.map _).nodup_iff.mp h.ckeys, ?_, ?_, ?_⟩
  · intro e he
    obtain ⟨a, b, c⟩ := h.eends e (pe.mem_iff.mpr he)
    exact ⟨a, (mv _).mpr b, (mv _).mpr c⟩
  · intro c hc
    obtain ⟨a, b⟩ := h.cverts c (pc.mem_iff.mpr hc)
    exact ⟨a, fun v hv => (mv _).mpr (b v hv)⟩
  · intro c hc ab hab
    obtain ⟨e, he, hh⟩ := h.cjoined c (pc.mem_iff.mpr hc) ab hab
    exact ⟨e, pe.mem_iff.mp he, hh⟩

theorem ofLists_consistent_perm {vs vs' : List (Id × Rat × Rat)} {es es' : List (Id × Id × Id)}
    {cs cs' : List (Id × List Id)}
    (h : WFInput vs es cs) (pv : vs.Perm vs') (pe : es.Perm es') (pc : cs.Perm cs') :
    (ofLists vs' es' cs').Consistent = true :=
  ofLists_consistent _ _ _ (h.perm pv pe pc)

theorem ofLists_consistent_loops (vs : List (Id × Rat × Rat)) (es : List (Id × Id × Id)) (cs : List (Id × List Id))
    (hv : (vs.map (·.1)).Nodup) (he : (es.map (·.1)).Nodup) (hc : (cs.map (·.1)).Nodup)
    (hends : ∀ e ∈ es, e.2.1 ∈ vs.map (·.1) ∧ e.2.2 ∈ vs.map (·.1))
    (hcv : ∀ c ∈ cs, c.2.Nodup ∧ ∀ v ∈ c.2, v ∈ vs.map (·.1))
    (hj : ∀ c ∈ cs, ∀ ab ∈ cyclicPairs c.2,
      ∃ e ∈ es, (e.2.1 = ab.1 ∧ e.2.2 = ab.2) ∨ (e.2.1 = ab.2 ∧ e.2.2 = ab.1)) :
    (ofLists vs es cs).Consistent = true :=
  (consistent_iff _).mpr (ofLists_consP vs es cs hv he hc hends hcv hj)


/-! incremental construction -/

theorem mkVertex_consistent (m : Mesh) (k : Id) (x y : Rat) (h : m.Consistent = true)
    (hk : (m.vertex? k).isNone = true) : (m.mkVertex k x y).Consistent = true := by
  rw [consistent_iff] at h ⊢
  refine (mkVertex_consP m k x y h ?_).1
  rw [← alGet?_eq_none_iff]; simpa [vertex?] using hk

theorem mkEdge_consistent (m : Mesh) (k a b : Id) (h : m.Consistent = true)
    (hk : (m.edge? k).isNone = true) (ha : (m.vertex? a).isSome = true) (hb : (m.vertex? b).isSome = true) :
    (m.mkEdge k a b).Consistent = true := by
  rw [consistent_iff] at h ⊢
  refine mkEdge_consP m k a b h ?_ ?_ ?_
  · rw [← alGet?_eq_none_iff]; simpa [edge?] using hk
  · simpa [vertex?, alGet?_isSome_iff] using ha
  · simpa [vertex?, alGet?_isSome_iff] using hb

theorem mkCell_consistent (m : Mesh) (k : Id) (verts : List Id) (h : m.Consistent = true)
    (hk : (m.cell? k).isNone = true) (hnd : verts.Nodup)
    (hv : ∀ v ∈ verts, (m.vertex? v).isSome = true)
    (hj : ∀ ab ∈ cyclicPairs verts, m.joined ab.1 ab.2 = true) :
    (m.mkCell k verts).Consistent = true := by
  rw [consistent_iff] at h ⊢
  refine mkCell_consP m k verts h ?_ hnd ?_ ?_
  · rw [← alGet?_eq_none_iff]; simpa [cell?] using hk
  · intro v hv'; simpa [vertex?, alGet?_isSome_iff] using hv v hv'
  · intro ab hab; exact (joined_iff _ _ _).mp (hj ab hab)

/-! Surface Evolver: the whole create_lattice -/

theorem surfaceEvolver_consistent (vs : List (Id × Rat × Rat)) (es : List (Id × Id × Id)) (cs : List (Id × List Id))
    (h : WFInput vs es cs) : (ofLists vs es cs).orphanRemoval.Consistent = true :=
  orphanRemoval_consistent _ (ofLists_consistent vs es cs h)

theorem orphanRemoval_no_orphans (m : Mesh) (h : m.Consistent = true) :
    ∀ p ∈ m.orphanRemoval.vertices, p.2.ownCells ≠ [] := by
  rw [consistent_iff] at h
  intro p' hp' hemp
  obtain ⟨⟨p, hp, hk, hc⟩, hnot⟩ := c09_orphan_fold _ _ m h (fun _ hx => hx) (c09_orphan_init m h) p' hp'
  apply hnot
  rw [hk]
  exact List.mem_map.mpr ⟨p, List.mem_filter.mpr ⟨hp, by rw [← hc, hemp]; rfl⟩, rfl⟩

theorem orphanRemoval_idem (m : Mesh) (h : m.Consistent = true) :
    m.orphanRemoval.orphanRemoval = m.orphanRemoval := by
  have hno := orphanRemoval_no_orphans m h
  have : (m.orphanRemoval.vertices.filter fun p => p.2.ownCells.isEmpty) = [] := by
    apply List.filter_eq_nil_iff.mpr
    intro p hp
    have := hno p hp
    cases hh : p.2.ownCells with
    | nil => exact absurd hh this
    | cons _ _ => simp
  generalize m.orphanRemoval = r at *
  simp [orphanRemoval, this]

/-! only ids and own-lists matter -/

theorem consistent_of_same_topology (m m' : Mesh) (he : m'.edges = m.edges) (hc : m'.cells = m.cells)
    (hv : m'.vertices.map c09_strip = m.vertices.map c09_strip) : m'.Consistent = m.Consistent := by
  rw [Bool.eq_iff_iff, consistent_iff, consistent_iff]
  exact ⟨c09_consP_congr m' m he.symm hc.symm hv.symm, c09_consP_congr m m' he hc hv⟩

/-- move every vertex: `(x, y) ↦ f (x, y)` (translation, scaling, rotation, reflection, anything) -/
def Mesh.mapCoords (m : Mesh) (f : Pt → Pt) : Mesh :=
  { m with vertices := m.vertices.map fun p =>
      (p.1, { p.2 with x := (f ⟨p.2.x, p.2.y⟩).x, y := (f ⟨p.2.x, p.2.y⟩).y }) }

theorem consistent_mapCoords (m : Mesh) (f : Pt → Pt) : (m.mapCoords f).Consistent = m.Consistent := by
  exact consistent_of_same_topology m (m.mapCoords f) rfl rfl
    (by simp [Mesh.mapCoords, List.map_map, Function.comp_def, c09_strip])

/-! cell cycles may start anywhere and run either way -/

theorem WFInput.rotateCells {vs : List (Id × Rat × Rat)} {es : List (Id × Id × Id)} {cs : List (Id × List Id)}
    (h : WFInput vs es cs) (n : Id → Nat) :
    WFInput vs es (cs.map fun c => (c.1, c.2.rotate (n c.1))) := by
  refine ⟨h.vkeys, h.ekeys, ?_, h.eends, ?_, ?_⟩
  · simpa [List.map_map, Function.comp_def] using h.ckeys
  · intro c hc
    obtain ⟨c0, hc0, rfl⟩ := List.mem_map.mp hc
    obtain ⟨a, b⟩ := h.cverts c0 hc0
    exact ⟨List.nodup_rotate.mpr a, fun v hv => b v (List.mem_rotate.mp hv)⟩
  · intro c hc ab hab
    obtain ⟨c0, hc0, rfl⟩ := List.mem_map.mp hc
    dsimp only at hab
    rw [Mesh.cyclicPairs_rotate, List.mem_rotate] at hab
    exact h.cjoined c0 hc0 ab hab

theorem WFInput.reverseCells {vs : List (Id × Rat × Rat)} {es : List (Id × Id × Id)} {cs : List (Id × List Id)}
    (h : WFInput vs es cs) :
    WFInput vs es (cs.map fun c => (c.1, c.2.reverse)) := by
  refine ⟨h.vkeys, h.ekeys, ?_, h.eends, ?_, ?_⟩
  · simpa [List.map_map, Function.comp_def] using h.ckeys
  · intro c hc
    obtain ⟨c0, hc0, rfl⟩ := List.mem_map.mp hc
    obtain ⟨a, b⟩ := h.cverts c0 hc0
    exact ⟨List.nodup_reverse.mpr a, fun v hv => b v (List.mem_reverse.mp hv)⟩
  · intro c hc ab hab
    obtain ⟨c0, hc0, rfl⟩ := List.mem_map.mp hc
    dsimp only at hab
    rw [(Forsys.cyclicPairs_reverse_perm' c0.2).mem_iff] at hab
    obtain ⟨ba, hba, rfl⟩ := List.mem_map.mp hab
    obtain ⟨e, he, hh⟩ := h.cjoined c0 hc0 ba hba
    exact ⟨e, he, by simpa [Prod.swap, or_comm] using hh⟩

theorem ofLists_consistent_rotate_reverse (vs : List (Id × Rat × Rat)) (es : List (Id × Id × Id))
    (cs : List (Id × List Id)) (h : WFInput vs es cs) (n : Id → Nat) :
    (ofLists vs es (cs.map fun c => (c.1, c.2.rotate (n c.1)))).Consistent = true ∧
    (ofLists vs es (cs.map fun c => (c.1, c.2.reverse))).Consistent = true :=
  ⟨ofLists_consistent _ _ _ (h.rotateCells n), ofLists_consistent _ _ _ h.reverseCells⟩

/-! necessity witnesses -/

theorem ofLists_repeatedVertex_witness :
    (ofLists [(0,0,0),(1,1,0),(2,0,1)] [(0,0,1),(1,1,2),(2,2,0)] [(0,[0,1,2,0])]).failing
      = ["cellsNodup", "cyclesJoined"] := by decide +kernel

theorem ofLists_unjoined_witness :
    (ofLists [(0,0,0),(1,1,0),(2,0,1)] [(0,0,1),(1,1,2)] [(0,[0,1,2])]).failing = ["cyclesJoined"] := by
  decide +kernel

theorem ofLists_danglingEdge_witness :
    (ofLists [(0,0,0),(1,1,0),(2,0,1)] [(0,0,1),(1,1,2),(2,2,0),(3,2,7)] [(0,[0,1,2])]).failing = ["refs"] := by
  decide +kernel

theorem ofLists_danglingCellVertex_witness :
    (ofLists [(0,0,0),(1,1,0),(2,0,1)] [(0,0,1),(1,1,2),(2,2,0)] [(0,[0,1,7])]).failing
      = ["refs", "cyclesJoined"] := by decide +kernel

theorem ofLists_reusedEdgeKey_witness :
    (ofLists [(0,0,0),(1,1,0),(2,0,1)] [(0,0,1),(1,1,2),(2,2,0),(0,2,1)] [(0,[0,1,2])]).failing
      = ["ownEdges", "cyclesJoined"] := by decide +kernel

theorem ofLists_reusedCellKey_witness :
    (ofLists [(0,0,0),(1,1,0),(2,0,1)] [(0,0,1),(1,1,2),(2,2,0)] [(0,[0,1,2]), (0,[0,1])]).failing
      = ["ownCells"] := by decide +kernel

/-- the converse of `ofLists_consistent` fails: a re-used vertex key (the later `Vertex` replaces the earlier one
    before any edge exists) still gives a consistent mesh -/
theorem ofLists_converse_witness :
    (ofLists [(0,0,0),(1,1,0),(2,0,1),(0,5,5)] [(0,0,1),(1,1,2),(2,2,0)] [(0,[0,1,2])]).Consistent = true ∧
    ¬ WFInput [(0,0,0),(1,1,0),(2,0,1),(0,5,5)] [(0,0,1),(1,1,2),(2,2,0)] [(0,[0,1,2])] := by
  refine ⟨by decide +kernel, fun h => ?_⟩
  have := h.vkeys
  revert this
  decide


/-! the own-lists are exactly the incident edges / containing cells -/

theorem ownEdges_perm_incident (m : Mesh) (h : m.Consistent = true) (p : Id × Vertex) (hp : p ∈ m.vertices) :
    p.2.ownEdges.Perm ((m.edges.filter fun q => edgeEndsAt q.2 p.2.id).map (·.1)) := by
  rw [consistent_iff] at h
  obtain ⟨hK, hE, _⟩ := h
  obtain ⟨h1, h2, h3⟩ := hE p hp
  rw [List.perm_ext_iff_of_nodup h3 ((hK.2.2.2.2.1.sublist ((List.filter_sublist).map _)))]
  intro e
  simp only [List.mem_map, List.mem_filter, edgeEndsAt, Bool.or_eq_true, beq_iff_eq]
  constructor
  · intro he
    obtain ⟨ed, hed, hends⟩ := h1 e he
    exact ⟨(e, ed), ⟨alGet?_some_mem hed, hends⟩, rfl⟩
  · rintro ⟨q, ⟨hq, hends⟩, rfl⟩
    rw [hK.2.1 q hq]
    exact h2 q hq hends

theorem ownCells_perm_containing (m : Mesh) (h : m.Consistent = true) (p : Id × Vertex) (hp : p ∈ m.vertices) :
    p.2.ownCells.Perm ((m.cells.filter fun q => q.2.verts.contains p.2.id).map (·.1)) := by
  rw [consistent_iff] at h
  obtain ⟨hK, _, hC, _⟩ := h
  obtain ⟨h1, h2, h3⟩ := hC p hp
  rw [List.perm_ext_iff_of_nodup h3 ((hK.2.2.2.2.2.sublist ((List.filter_sublist).map _)))]
  intro c
  simp only [List.mem_map, List.mem_filter, List.contains_eq_mem, decide_eq_true_eq]
  constructor
  · intro hc
    obtain ⟨cl, hcl, hin⟩ := h1 c hc
    exact ⟨(c, cl), ⟨alGet?_some_mem hcl, hin⟩, rfl⟩
  · rintro ⟨q, ⟨hq, hin⟩, rfl⟩
    rw [hK.2.2.1 q hq]
    exact h2 q hq hin

/-- degree: a vertex of a consistent mesh lists as many edges as end at it -/
theorem ownEdges_length_eq_degree (m : Mesh) (h : m.Consistent = true) (p : Id × Vertex) (hp : p ∈ m.vertices) :
    p.2.ownEdges.length = (m.edges.filter fun q => edgeEndsAt q.2 p.2.id).length := by
  rw [(ownEdges_perm_incident m h p hp).length_eq, List.length_map]

example : twoTriangles.Consistent = true ∧ ∃ p ∈ twoTriangles.vertices, p.1 = 1 ∧ p.2.ownEdges.length = 3 := by
  decide +kernel

example : (twoTriangles.mapCoords fun p => ⟨2 * p.x + 1, -p.y⟩).pt 3 = ⟨3, -1⟩ ∧
    (twoTriangles.mapCoords fun p => ⟨2 * p.x + 1, -p.y⟩).Consistent = true := by decide +kernel

example : (twoTriangles.vertex? 9).isNone = true ∧ (twoTriangles.edge? 9).isNone = true ∧
    (twoTriangles.vertex? 0).isSome = true ∧ (twoTriangles.vertex? 3).isSome = true ∧
    (twoTriangles.cell? 2).isNone = true := by decide +kernel

/-- building the square 0-1-3-2 … step by step on top of the two triangles -/
example : ((twoTriangles.mkVertex 9 2 2).mkEdge 9 3 9).Consistent = true := by decide +kernel

example : ∀ p ∈ twoTriangles.vertices, ∃ q ∈ twoTriangles.cells, p.2.id ∈ q.2.verts := by decide +kernel

/-! non-vacuity of `ofLists_consistent_loops`: an input with a self-loop (edge 3 from vertex 2 to itself), which
    `WFInput` rejects, satisfies its hypotheses and is consistent -/
example : let vs : List (Id × Rat × Rat) := [(0,0,0),(1,1,0),(2,0,1)]
    let es : List (Id × Id × Id) := [(0,0,1),(1,1,2),(2,2,0),(3,2,2)]
    let cs : List (Id × List Id) := [(0,[0,1,2])]
    (vs.map (·.1)).Nodup ∧ (es.map (·.1)).Nodup ∧ (cs.map (·.1)).Nodup ∧
    (∀ e ∈ es, e.2.1 ∈ vs.map (·.1) ∧ e.2.2 ∈ vs.map (·.1)) ∧
    (∀ c ∈ cs, c.2.Nodup ∧ ∀ v ∈ c.2, v ∈ vs.map (·.1)) ∧
    (∀ c ∈ cs, ∀ ab ∈ cyclicPairs c.2,
      ∃ e ∈ es, (e.2.1 = ab.1 ∧ e.2.2 = ab.2) ∨ (e.2.1 = ab.2 ∧ e.2.2 = ab.1)) ∧
    (ofLists vs es cs).Consistent = true ∧ ¬ (∀ e ∈ es, e.2.1 ≠ e.2.2) := by
  decide +kernel

/-! rotated and reversed cycles, permuted dictionaries: the two triangles again -/
example : (ofLists [(3, 1, 1), (0, 0, 0), (2, 0, 1), (1, 1, 0)]
    [(4, 3, 2), (0, 0, 1), (2, 2, 0), (1, 1, 2), (3, 1, 3)] [(1, [2, 1, 3]), (0, [2, 1, 0])]).Consistent = true := by
  decide +kernel

/-! hypotheses of `mkCell_consistent`: closing the quadrilateral 0-1-3-2 over the two triangles -/
example : (twoTriangles.cell? 2).isNone = true ∧ [(0 : Id), 1, 3, 2].Nodup ∧
    (∀ v ∈ [(0 : Id), 1, 3, 2], (twoTriangles.vertex? v).isSome = true) ∧
    (∀ ab ∈ cyclicPairs [(0 : Id), 1, 3, 2], twoTriangles.joined ab.1 ab.2 = true) ∧
    (twoTriangles.mkCell 2 [0, 1, 3, 2]).Consistent = true := by
  decide +kernel

end Forsys
