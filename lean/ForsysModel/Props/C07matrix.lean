/-
  Property C07, matrix part — renumbering the vertices changes the assembled force matrix only by the relabelling.

  Model: `Mesh.bigEdgesList` (create_edges_new), `FMInput.earr / used / deletes / vertexEquation / build`
  (ForceMatrix.__post_init__, get_angle_limited_edges, get_vertex_equation, _build_matrix; Model/FMatrix.lean),
  `normalisedMatrix` (Proofs/C01matrix.lean: the matrix handed to the solver).

  Vocabulary (defined in Proofs/C07matrix.lean):
    `Mesh.mapV f m`     every occurrence of a VERTEX id in the mesh — keys of the vertex dictionary, `Vertex.id`, end
                        points of the mesh edges, vertex cycles of the cells — replaced by its image under `f`; mesh-edge
                        ids, cell ids (hence `ownEdges`, `ownCells`), coordinates and the storage order of the three
                        dictionaries unchanged
    `FMInput.mapV f inp` the mesh renamed; `centers` (aligned with the interface list BY POSITION), `cosLimit`,
                        `ignoreFour` unchanged
    `Mesh.vids m`       all vertex ids occurring in `m`
  Hypothesis: `Function.Injective f` (two vertices never receive the same new id).  It cannot be dropped
  (`bigEdgesList_mapV_noninjective_witness`).  Injectivity on the ids that occur in the mesh is enough
  (`build_mapV_of_injOn`, `normalisedMatrix_mapV_of_injOn`: such an `f` agrees on the mesh with a globally injective map).

  No look-up of the model depends on the numeric order of vertex ids (`alGet?`, `indexOf?`, `contains`, `eraseDups`,
  `eidFromVertex` only test equality), so no monotonicity hypothesis is needed and there is no `_partial` statement.

  Results: the interface list, the used interfaces (the unknowns), the angle-limited vertices and the candidate
  junctions are the renamed old ones IN THE SAME ORDER; every coefficient row is IDENTICAL (positions travel with the
  vertices); hence the normalised matrix, the augmented system and its squared residual at every candidate vector are
  unchanged: the inferred tension of interface number `c` is the same number before and after renumbering.

  Storage order (second part): permuting the columns handed to `get_vertex_equation` permutes the entries of every row
  the same way (`vertexEquation_perm_cols`), leaves the row filter unchanged (`keepRow_perm_cols`); permuting the
  junction list permutes the row pairs; the squared residual of the augmented system at a candidate that assigns a
  tension to every interface (`used.map τ`) is the same (`residSq_relabel`).
-/
import ForsysModel.Proofs.C07matrix
import ForsysModel.Props.C07
import ForsysModel.Props.C01matrix

namespace Forsys
open FMInput

/-! ### A. the interface list -/

/-- the junction test `len(v.ownEdges) > 2` does not see the renumbering -/
theorem isJunction_mapV (f : Id → Id) (hf : Function.Injective f) (m : Mesh) (k : Id) :
    (m.mapV f).isJunction (f k) = m.isJunction k := by
  exact C07m.isJunction_mapV f hf m k

/-- positions, `ownEdges`, `ownCells` travel with the vertex -/
theorem lookups_mapV (f : Id → Id) (hf : Function.Injective f) (m : Mesh) (k : Id) :
    (m.mapV f).pt (f k) = m.pt k ∧ (m.mapV f).ownEdges (f k) = m.ownEdges k ∧
    (m.mapV f).ownCells (f k) = m.ownCells k := by
  exact ⟨C07m.pt_mapV f hf m k, C07m.ownEdges_mapV f hf m k, C07m.ownCells_mapV f hf m k⟩

/-- de-duplication up to reversal commutes with an injective relabelling -/
theorem dedup_map {α β : Type} [DecidableEq α] [DecidableEq β] (f : α → β) (hf : Function.Injective f)
    (ps : List (List α)) : dedup (ps.map (List.map f)) = (dedup ps).map (List.map f) := by
  exact C07m.dedup_map f hf ps

/-- `create_edges_new` on the renumbered tissue returns the renamed interfaces, same order, same direction -/
theorem bigEdgesList_mapV (f : Id → Id) (hf : Function.Injective f) (m : Mesh) :
    (m.mapV f).bigEdgesList = m.bigEdgesList.map (List.map f) := by
  exact C07m.bigEdgesList_mapV f hf m

/-! ### B. interfaces, angle-limited vertices, unknowns -/

theorem earr_mapV (f : Id → Id) (hf : Function.Injective f) (inp : FMInput) :
    (inp.mapV f).earr = inp.earr.map (List.map f) := by
  exact C07m.earr_mapV f hf inp

/-- the classification of interfaces (external / internal, by position) is unchanged -/
theorem internalIdx_mapV (f : Id → Id) (hf : Function.Injective f) (m : Mesh) (earr : List (List Id)) :
    (m.mapV f).internalIdx (earr.map (List.map f)) = m.internalIdx earr ∧
    (m.mapV f).externalEdgesId (earr.map (List.map f)) = m.externalEdgesId earr ∧
    ∀ e, (m.mapV f).bigEdgeExternal (e.map f) = m.bigEdgeExternal e := by
  exact ⟨C07m.internalIdx_mapV f hf m earr, C07m.externalEdgesId_mapV f hf m earr,
    C07m.bigEdgeExternal_mapV f hf m⟩

/-- the tangent of interface number `i` at a vertex is the same vector -/
theorem vecAt_mapV (f : Id → Id) (hf : Function.Injective f) (inp : FMInput) (earr : List (List Id)) (i : Nat)
    (v : Id) : (inp.mapV f).vecAt (earr.map (List.map f)) i (f v) = inp.vecAt earr i v := by
  exact C07m.vecAt_mapV f hf inp earr i v

theorem deletes_mapV (f : Id → Id) (hf : Function.Injective f) (inp : FMInput) (earr : List (List Id)) :
    (inp.mapV f).deletes (earr.map (List.map f)) = (inp.deletes earr).map f := by
  exact C07m.deletes_mapV f hf inp earr

theorem used_mapV (f : Id → Id) (hf : Function.Injective f) (inp : FMInput) (earr : List (List Id)) :
    (inp.mapV f).used (earr.map (List.map f)) = (inp.used earr).map (List.map f) := by
  exact C07m.used_mapV f hf inp earr

/-! ### C. the coefficient rows -/

/-- `eid_from_vertex` finds the renamed interface in the renamed list at the same column -/
theorem eidFromVertex_map (f : Id → Id) (hf : Function.Injective f) (earr : List (List Id)) (e : List Id) :
    eidFromVertex (earr.map (List.map f)) (e.map f) = eidFromVertex earr e := by
  exact C07m.eidFromVertex_map f hf earr e

/-- the row of coefficients of the renamed vertex is IDENTICAL: same columns, same vectors -/
theorem vertexEquation_mapV (f : Id → Id) (hf : Function.Injective f) (inp : FMInput)
    (earr used : List (List Id)) (v : Id) :
    (inp.mapV f).vertexEquation (earr.map (List.map f)) (used.map (List.map f)) (f v)
      = inp.vertexEquation earr used v := by
  exact C07m.vertexEquation_mapV f hf inp earr used v

/-! ### D. `_build_matrix` -/

/-- everything `_build_matrix` produces is the renamed old output: interfaces, angle-limited vertices, unknowns in
    the same order, the candidate junctions in the same order with the same keep flag and the same row -/
theorem build_mapV (f : Id → Id) (hf : Function.Injective f) (inp : FMInput) :
    (inp.mapV f).build =
      { earr := inp.build.earr.map (List.map f), deletes := inp.build.deletes.map f,
        used := inp.build.used.map (List.map f),
        rows := inp.build.rows.map fun r => (f r.1, r.2.1, r.2.2) } := by
  exact C07m.build_mapV f hf inp

/-! ### E. the matrix and the least-squares problem -/

/-- THE MATRIX DOES NOT CHANGE AT ALL under vertex renumbering (norms `len'` of the renumbered tissue = norms `len`
    of the original one, candidate junction by candidate junction) -/
theorem normalisedMatrix_mapV (f : Id → Id) (hf : Function.Injective f) (inp : FMInput)
    (len len' : Id → Nat → Rat) (hlen : ∀ v ∈ endsOf inp.build.used, ∀ c, len' (f v) c = len v c) :
    normalisedMatrix (inp.mapV f) len' = normalisedMatrix inp len := by
  exact C07m.normalisedMatrix_mapV f hf inp len len' hlen

/-- the same with a left inverse `g` of the renumbering -/
theorem normalisedMatrix_mapV_inv (f g : Id → Id) (hg : ∀ a, g (f a) = a) (inp : FMInput) (len : Id → Nat → Rat) :
    normalisedMatrix (inp.mapV f) (fun v c => len (g v) c) = normalisedMatrix inp len := by
  apply C07m.normalisedMatrix_mapV f (Function.LeftInverse.injective hg) inp len
  intro v _ c
  simp only [hg]

/-- hence the augmented system `[[A, 1], [1ᵀ, 0]] y = [0; n]` handed to the solver, its squared residual at every
    candidate `y`, and therefore its set of (non-negative) minimisers are the same: the tension inferred for column
    `c` — interface `used[c]` before, its renamed copy after — is the same number -/
theorem residSq_mapV (f : Id → Id) (hf : Function.Injective f) (inp : FMInput)
    (len len' : Id → Nat → Rat) (hlen : ∀ v ∈ endsOf inp.build.used, ∀ c, len' (f v) c = len v c) (y : List Rat) :
    (inp.mapV f).build.used.length = inp.build.used.length ∧
    addMeanOne (normalisedMatrix (inp.mapV f) len') (List.replicate (normalisedMatrix (inp.mapV f) len').length 0)
      = addMeanOne (normalisedMatrix inp len) (List.replicate (normalisedMatrix inp len).length 0) ∧
    residSq
      (addMeanOne (normalisedMatrix (inp.mapV f) len') (List.replicate (normalisedMatrix (inp.mapV f) len').length 0)).1
      (addMeanOne (normalisedMatrix (inp.mapV f) len') (List.replicate (normalisedMatrix (inp.mapV f) len').length 0)).2 y
    = residSq (addMeanOne (normalisedMatrix inp len) (List.replicate (normalisedMatrix inp len).length 0)).1
      (addMeanOne (normalisedMatrix inp len) (List.replicate (normalisedMatrix inp len).length 0)).2 y := by
  rw [normalisedMatrix_mapV f hf inp len len' hlen, build_mapV f hf inp]
  exact ⟨List.length_map _, rfl, rfl⟩


/-! ### injectivity on the ids of the mesh is enough -/

/-- a renumbering that is injective on a finite list of ids agrees there with a globally injective one -/
theorem exists_injective_extension (ids : List Id) (f : Id → Id)
    (h : ∀ a ∈ ids, ∀ b ∈ ids, f a = f b → a = b) :
    ∃ g : Id → Id, Function.Injective g ∧ ∀ a ∈ ids, g a = f a := by
  exact C07m.exists_injective_extension ids f h

/-- the renamed mesh depends on the renumbering only through its values on the vertex ids of the mesh -/
theorem mapV_congr (f g : Id → Id) (m : Mesh) (h : ∀ a ∈ m.vids, f a = g a) : m.mapV f = m.mapV g := by
  exact C07m.mapV_congr f g m h

/-- every vertex of every interface is a vertex id of the mesh -/
theorem bigEdgesList_sub_vids (m : Mesh) (e : List Id) (he : e ∈ m.bigEdgesList) (a : Id) (ha : a ∈ e) :
    a ∈ m.vids := by
  exact C07m.bigEdgesList_sub_vids m e he a ha

/-- D for a renumbering that is injective on the vertex ids occurring in the mesh -/
theorem build_mapV_of_injOn (f : Id → Id) (inp : FMInput)
    (hf : ∀ a ∈ inp.mesh.vids, ∀ b ∈ inp.mesh.vids, f a = f b → a = b) :
    (inp.mapV f).build =
      { earr := inp.build.earr.map (List.map f), deletes := inp.build.deletes.map f,
        used := inp.build.used.map (List.map f),
        rows := inp.build.rows.map fun r => (f r.1, r.2.1, r.2.2) } := by
  exact C07m.build_mapV_of_injOn f inp hf

/-- A for such a renumbering -/
theorem bigEdgesList_mapV_of_injOn (f : Id → Id) (m : Mesh)
    (hf : ∀ a ∈ m.vids, ∀ b ∈ m.vids, f a = f b → a = b) :
    (m.mapV f).bigEdgesList = m.bigEdgesList.map (List.map f) := by
  exact congrArg FMOutput.earr
    (C07m.build_mapV_of_injOn f { mesh := m, centers := [], cosLimit := none, ignoreFour := false } hf)

/-- E for such a renumbering -/
theorem normalisedMatrix_mapV_of_injOn (f : Id → Id) (inp : FMInput)
    (hf : ∀ a ∈ inp.mesh.vids, ∀ b ∈ inp.mesh.vids, f a = f b → a = b)
    (len len' : Id → Nat → Rat) (hlen : ∀ v ∈ inp.mesh.vids, ∀ c, len' (f v) c = len v c) :
    normalisedMatrix (inp.mapV f) len' = normalisedMatrix inp len := by
  exact C07m.normalisedMatrix_mapV_of_injOn f inp hf len len' hlen

/-! ### F. storage order of the unknowns and of the junctions

  The model's own column order (`used`) and junction order (`endsOf used`) derive from the order in which
  `create_edges_new` walks the cells.  The statements below are about an ARBITRARY permutation of the column list and
  of the junction list handed to `get_vertex_equation` / `_build_matrix`:
    `rowXOf / rowYOf inp earr used len v`   x- and y-row of junction `v` for the column list `used`, the norm `len v e`
                                            keyed by (junction, interface)
    `matrixOf inp earr used tj len`          the row pairs of the junctions of `tj` that pass the row filter
    `augmented A`                            `add_mean_one` with zero right-hand side
  (Proofs/C07matrix.lean).  The candidate vector assigns a tension `τ e` to every INTERFACE: `used.map τ ++ [μ]`. -/

/-- permuting the columns handed to `get_vertex_equation` permutes the entries of the row of every vertex the same way:
    as (column label, entry) pairs the two rows are permutations of each other -/
theorem vertexEquation_perm_cols (inp : FMInput) (earr used used' : List (List Id)) (hu : used.Nodup)
    (hp : used'.Perm used) (vid : Id) :
    (List.zip used' (inp.vertexEquation earr used' vid)).Perm (List.zip used (inp.vertexEquation earr used vid)) := by
  exact C07m.vertexEquation_perm_cols inp earr used used' hu hp vid

/-- … hence the row filter (number of placed entries) gives the same verdict -/
theorem keepRow_perm_cols (inp : FMInput) (earr used used' : List (List Id)) (hu : used.Nodup)
    (hp : used'.Perm used) (vid : Id) (ig : Bool) :
    keepRow ig (inp.vertexEquation earr used' vid) = keepRow ig (inp.vertexEquation earr used vid) := by
  exact C07m.keepRow_perm ig _ _ (C07m.vertexEquation_perm inp earr used used' hu hp vid)

/-- the model's matrix is `matrixOf` at the model's own interface list, unknowns and junction order -/
theorem matrixOf_build (inp : FMInput) (len : Id → List Id → Rat) :
    normalisedMatrix inp (fun v c => len v (inp.build.used.getD c []))
      = matrixOf inp inp.earr inp.build.used (endsOf inp.build.used) len := by
  exact C07m.matrixOf_build inp len

/-- permuting the junction list permutes the rows of the matrix -/
theorem matrixOf_perm_rows (inp : FMInput) (earr used : List (List Id)) (tj tj' : List Id)
    (len : Id → List Id → Rat) (ht : tj'.Perm tj) :
    (matrixOf inp earr used tj' len).Perm (matrixOf inp earr used tj len) := by
  exact C07m.matrixOf_perm_rows inp earr used tj tj' len ht

/-- the squared residual of the augmented system does not depend on the order of the unknowns nor on the order of the
    junctions, when the candidate vector is permuted with the unknowns -/
theorem residSq_relabel (inp : FMInput) (earr used used' : List (List Id)) (tj tj' : List Id)
    (len : Id → List Id → Rat) (τ : List Id → Rat) (μ : Rat)
    (hu : used.Nodup) (hp : used'.Perm used) (ht : tj'.Perm tj) :
    residSq (augmented (matrixOf inp earr used' tj' len)).1 (augmented (matrixOf inp earr used' tj' len)).2
        (used'.map τ ++ [μ])
      = residSq (augmented (matrixOf inp earr used tj len)).1 (augmented (matrixOf inp earr used tj len)).2
        (used.map τ ++ [μ]) := by
  exact C07m.residSq_relabel inp earr used used' tj tj' len τ μ hu hp ht

/-- at the model: had `_build_matrix` listed the unknowns and the junctions in any other order, the least-squares
    objective, as a function of the tensions per interface, would be the one of the model's own system -/
theorem residSq_relabel_model (inp : FMInput) (used' : List (List Id)) (tj' : List Id)
    (len : Id → List Id → Rat) (τ : List Id → Rat) (μ : Rat)
    (hp : used'.Perm inp.build.used) (ht : tj'.Perm (endsOf inp.build.used)) :
    residSq (augmented (matrixOf inp inp.earr used' tj' len)).1 (augmented (matrixOf inp inp.earr used' tj' len)).2
        (used'.map τ ++ [μ])
      = residSq
        (addMeanOne (normalisedMatrix inp (fun v c => len v (inp.build.used.getD c [])))
          (List.replicate (normalisedMatrix inp (fun v c => len v (inp.build.used.getD c []))).length 0)).1
        (addMeanOne (normalisedMatrix inp (fun v c => len v (inp.build.used.getD c [])))
          (List.replicate (normalisedMatrix inp (fun v c => len v (inp.build.used.getD c []))).length 0)).2
        (inp.build.used.map τ ++ [μ]) := by
  rw [matrixOf_build]
  exact C07m.residSq_relabel inp inp.earr inp.build.used used' (endsOf inp.build.used) tj' len τ μ
    (used_nodup inp) hp ht

/-! ### G. sanity: the model computes what the theorems say -/

deriving instance DecidableEq for FMInput.FMOutput

/-- the lens tissue of Props/C01matrix.lean renumbered by `v ↦ 7 v + 3`: `build` computed directly on the renumbered
    tissue is the right-hand side of `build_mapV` -/
example : (balInp.mapV (· * 7 + 3)).build =
    { earr := balInp.build.earr.map (List.map (· * 7 + 3)), deletes := balInp.build.deletes.map (· * 7 + 3),
      used := balInp.build.used.map (List.map (· * 7 + 3)),
      rows := balInp.build.rows.map fun r => (r.1 * 7 + 3, r.2.1, r.2.2) } := by
  decide +kernel

/-- … spelled out -/
example : (balInp.mapV (· * 7 + 3)).build =
    { earr := [[3, 17, 10], [10, 3], [24, 3], [10, 31], [31, 38, 24], [24, 45, 31]], deletes := [],
      used := [[3, 17, 10], [10, 3], [24, 3], [10, 31]],
      rows := [(3, true, [some ⟨3/2, 2⟩, some ⟨4, 0⟩, some ⟨-4, -3⟩, none]),
               (10, true, [some ⟨-3/2, 2⟩, some ⟨-4, 0⟩, none, some ⟨4, -3⟩]),
               (24, false, [none, none, none, none]), (31, false, [none, none, none, none])] } ∧
    balInp.build.rows = [(0, true, [some ⟨3/2, 2⟩, some ⟨4, 0⟩, some ⟨-4, -3⟩, none]),
               (1, true, [some ⟨-3/2, 2⟩, some ⟨-4, 0⟩, none, some ⟨4, -3⟩]),
               (3, false, [none, none, none, none]), (4, false, [none, none, none, none])] := by
  decide +kernel

/-- swapping the ids of the two junctions 0 and 1 (a renumbering that reverses their numeric order) -/
def swap01 (a : Id) : Id := if a = 0 then 1 else if a = 1 then 0 else a

example : (balInp.mapV swap01).build =
    { earr := balInp.build.earr.map (List.map swap01), deletes := balInp.build.deletes.map swap01,
      used := balInp.build.used.map (List.map swap01),
      rows := balInp.build.rows.map fun r => (swap01 r.1, r.2.1, r.2.2) } ∧
    (balInp.mapV swap01).build.used = [[1, 2, 0], [0, 1], [3, 1], [0, 4]] := by
  decide +kernel

/-- the hypotheses are satisfiable -/
theorem mul7add3_injective : Function.Injective (fun a : Id => a * 7 + 3) := by
  intro (a : Int) (b : Int) (h : a * 7 + 3 = b * 7 + 3)
  show a = b
  omega
theorem swap01_involutive (a : Id) : swap01 (swap01 a) = a := by
  unfold swap01
  by_cases h0 : a = 0
  · simp [h0]
  · by_cases h1 : a = 1
    · simp [h1]
    · simp [h0, h1]
theorem swap01_injective : Function.Injective swap01 := Function.LeftInverse.injective swap01_involutive

/-- with an angle limit (`cos = 1/2`) some junction is angle-limited and the statement is still computed right -/
example : ({ balInp with cosLimit := some (1/2) } : FMInput).build.deletes ≠ [] ∧
    (({ balInp with cosLimit := some (1/2) } : FMInput).mapV (· * 7 + 3)).build =
    { earr := ({ balInp with cosLimit := some (1/2) } : FMInput).build.earr.map (List.map (· * 7 + 3)),
      deletes := ({ balInp with cosLimit := some (1/2) } : FMInput).build.deletes.map (· * 7 + 3),
      used := ({ balInp with cosLimit := some (1/2) } : FMInput).build.used.map (List.map (· * 7 + 3)),
      rows := ({ balInp with cosLimit := some (1/2) } : FMInput).build.rows.map
        fun r => (r.1 * 7 + 3, r.2.1, r.2.2) } := by
  decide +kernel


/-- a renumbering that is injective on the ids of the lens tissue (0 … 6) but not globally (`100 ↦ 5 ↤ 5`) -/
def flipSmall (a : Id) : Id := if 0 ≤ a ∧ a ≤ 6 then 6 - a else 5

/-- hypothesis of `build_mapV_of_injOn` / `normalisedMatrix_mapV_of_injOn`, and the conclusion computed -/
example : (∀ a ∈ balInp.mesh.vids, ∀ b ∈ balInp.mesh.vids, flipSmall a = flipSmall b → a = b) ∧
    flipSmall 100 = flipSmall 1 ∧
    (balInp.mapV flipSmall).build.used = [[6, 4, 5], [5, 6], [3, 6], [5, 2]] ∧
    (balInp.mapV flipSmall).build.rows = balInp.build.rows.map fun r => (flipSmall r.1, r.2.1, r.2.2) := by
  decide +kernel

/-- F on the lens tissue: the columns in reverse order — every row is the reversed row, the same junctions are kept -/
example :
    balInp.vertexEquation balInp.earr balInp.build.used 0 = [some ⟨3/2, 2⟩, some ⟨4, 0⟩, some ⟨-4, -3⟩, none] ∧
    balInp.vertexEquation balInp.earr balInp.build.used.reverse 0 = [none, some ⟨-4, -3⟩, some ⟨4, 0⟩, some ⟨3/2, 2⟩] ∧
    balInp.vertexEquation balInp.earr [[1, 0], [1, 4], [0, 2, 1], [3, 0]] 1
      = [some ⟨-4, 0⟩, some ⟨4, -3⟩, some ⟨-3/2, 2⟩, none] := by
  decide +kernel

/-- hypotheses of `vertexEquation_perm_cols`, `residSq_relabel`, `residSq_relabel_model` -/
example : balInp.build.used.Nodup ∧ (balInp.build.used.reverse).Perm balInp.build.used ∧
    ([[1, 0], [1, 4], [0, 2, 1], [3, 0]] : List (List Id)).Perm balInp.build.used ∧
    ([4, 1, 3, 0] : List Id).Perm (endsOf balInp.build.used) := by
  refine ⟨used_nodup balInp, List.reverse_perm _, ?_, ?_⟩
  · have : balInp.build.used = [[0, 2, 1], [1, 0], [3, 0], [1, 4]] := by decide +kernel
    rw [this]; decide
  · have : endsOf balInp.build.used = [0, 1, 3, 4] := by decide +kernel
    rw [this]; decide

/-- `residSq_relabel_model` instantiated: columns reversed, junctions in the order 4, 1, 3, 0 -/
example (len : Id → List Id → Rat) (τ : List Id → Rat) (μ : Rat) :
    residSq (augmented (matrixOf balInp balInp.earr balInp.build.used.reverse [4, 1, 3, 0] len)).1
        (augmented (matrixOf balInp balInp.earr balInp.build.used.reverse [4, 1, 3, 0] len)).2
        (balInp.build.used.reverse.map τ ++ [μ])
      = residSq
        (addMeanOne (normalisedMatrix balInp (fun v c => len v (balInp.build.used.getD c [])))
          (List.replicate (normalisedMatrix balInp (fun v c => len v (balInp.build.used.getD c []))).length 0)).1
        (addMeanOne (normalisedMatrix balInp (fun v c => len v (balInp.build.used.getD c [])))
          (List.replicate (normalisedMatrix balInp (fun v c => len v (balInp.build.used.getD c []))).length 0)).2
        (balInp.build.used.map τ ++ [μ]) := by
  apply residSq_relabel_model balInp _ _ len τ μ (List.reverse_perm _)
  have : endsOf balInp.build.used = [0, 1, 3, 4] := by decide +kernel
  rw [this]; decide

/-- a renumbering that gives the interior point 2 of the arc `[0,2,1]` the id of the junction 0 -/
def merge20 (a : Id) : Id := if a = 2 then 0 else a

/-- injectivity is necessary: when two vertices receive the same id, the interfaces of the renumbered tissue are NOT
    the renamed interfaces (the look-up of the shared id finds the junction's record for both, so the arc `[0,2,1]`
    is cut at its interior point) -/
theorem bigEdgesList_mapV_noninjective_witness :
    (balMesh.mapV merge20).bigEdgesList ≠ balMesh.bigEdgesList.map (List.map merge20) ∧
    (balMesh.mapV merge20).bigEdgesList = [[0, 0], [0, 1], [3, 0], [1, 4], [4, 5, 3], [3, 6, 4]] ∧
    balMesh.bigEdgesList.map (List.map merge20) = [[0, 0, 1], [1, 0], [3, 0], [1, 4], [4, 5, 3], [3, 6, 4]] ∧
    merge20 2 = merge20 0 := by
  decide +kernel

end Forsys
