/-
  Property C19 — umbrella: all property theorems about tessellation lattices
  (Props/C19.lean: first batch; Props/C19more.lean: cut-off as a whole function, stored vertices = rounded corners,
  rounding error, shared vertices and ridges, unbounded regions ignored).
-/
import ForsysModel.Props.C19
import ForsysModel.Props.C19more
