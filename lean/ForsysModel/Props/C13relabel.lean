/-
  Property C13 / C03, numbering part — the velocity of a vertex does not depend on how each frame numbers its vertices.

  Model: ForsysModel/Model/TimeSeries.lean (`getPointIdByMap` = get_point_id_by_map, `calculateVelocity` =
  calculate_velocity), `velocityRhs` (Proofs/C03matrix.lean = the right-hand side of set_velocity_matrix),
  `normalisedMatrix` (Proofs/C01matrix.lean), `FMInput.mapV` (Proofs/C07matrix.lean).

  Vocabulary (defined in Proofs/C13relabel.lean):
    `σ : Nat → Id → Id`        a family of renumberings, `σ t` renames the vertex ids of frame `t`
    `TFrame.mapV g f`           every vertex id of the frame renamed by `g`; time, positions, dictionary order unchanged
    `StepMap.mapV g h m`        the step map `t → t+1` with keys renamed by `g` (ids of frame `t`) and values by `h`
                                (ids of frame `t+1`; `None` stays `None`); insertion order unchanged
    `relabelFrames σ frames`    frame `t` renamed by `σ t`
    `relabelMaps σ maps`        step map `t` renamed by `(σ t, σ (t+1))`; a missing map (`None`) stays missing
    `seriesIds frames maps s`   the ids that occur at frame `s`: vertices of frame `s`, keys of step map `s`, real values
                                of step map `s-1`

  Hypothesis: every `σ s` injective (two vertices of a frame never receive the same new id); stated with exactly the
  frames that are touched in the walk lemmas, globally (`∀ s, Function.Injective (σ s)`) in the main theorems, and on the
  ids that occur (`…_of_injOn`).  It cannot be dropped (`getPointIdByMap_relabel_noninjective_witness`).

  The model (and the code) only tests ids for equality and for `None` (`point == None`, dictionary look-ups); there is
  no truthiness test of an id and no numeric comparison, and a renaming keeps the insertion order of the dictionaries
  (which decides "later keys win" when a step map is inverted), so no monotonicity or `σ ≠ 0` hypothesis is needed.

  FINDING (statement 1 is false as written, see `getPointIdByMap_relabel_partial` / `…_missing_map_witness`):
  on a FORWARD walk, `get_point_id_by_map` leaves the loop (`break`) at the first missing step map (`mapping[ii] is None`)
  and returns the id it holds at that moment — an id of frame `ii`, not of `final_time` — with no error.  That number is
  renamed by `σ ii`, not by `σ final_time`: the returned id is numbering-dependent as an id of the final frame.  The
  backward walk raises AttributeError instead (`None.items()`), and `calculate_velocity` tests the single step map it
  uses before walking (DifferentTissueException), so the velocity (statement 2) is not affected.
-/
import ForsysModel.Proofs.C13relabel
import ForsysModel.Props.C13
import ForsysModel.Props.C07matrix
import ForsysModel.Props.C03matrix

namespace Forsys
open FMInput

/-! ### A. look-ups under renaming -/

/-- `mapping[g p]` in the renamed step map is the renamed `mapping[p]` (KeyError ↦ KeyError, None ↦ None) -/
theorem StepMap.get?_mapV (g h : Id → Id) (hg : Function.Injective g) (m : StepMap) (p : Id) :
    (m.mapV g h).get? (g p) = (m.get? p).map (Option.map h) :=
  C13r.get?_mapV g h hg m p

/-- `{v: k for k, v in mapping.items()}` of the renamed step map is the renamed inverted dictionary, entry by entry
    IN THE SAME ORDER: renaming keeps the insertion order, so "later keys win" discards the same entries.
    Only the renaming `h` of the values has to be injective. -/
theorem invertMap_mapV (g h : Id → Id) (hh : Function.Injective h) (m : StepMap) :
    invertMap (m.mapV g h) = (invertMap m).map fun q => (q.1.map h, g q.2) :=
  C13r.invertMap_mapV g h hh m

/-- the look-up of a real id in the inverted renamed map -/
theorem lookupOpt_invertMap_mapV (g h : Id → Id) (hh : Function.Injective h) (m : StepMap) (p : Id) :
    lookupOpt (some (h p)) (invertMap (m.mapV g h)) = (lookupOpt (some p) (invertMap m)).map g :=
  C13r.lookupOpt_invertMap_mapV g h hh m p

/-- positions travel with the vertex -/
theorem TFrame.pos?_mapV (g : Id → Id) (hg : Function.Injective g) (f : TFrame) (k : Id) :
    (f.mapV g).pos? (g k) = f.pos? k ∧ (f.mapV g).time = f.time :=
  ⟨C13r.pos?_mapV g hg f k, rfl⟩

/-! ### B. the walks -/

/-- forward walk over `n` steps from frame `t`: the result is the renamed result (errors unchanged), PROVIDED no step
    map in the range is missing (`hmaps`, see the finding in the header); injectivity is needed for the frames
    `t, …, t+n-1` whose ids are looked up -/
theorem walkForward_relabel (σ : Nat → Id → Id) (maps : List (Option StepMap)) (n t : Nat) (pt : Option Id)
    (hσ : ∀ s, t ≤ s → s < t + n → Function.Injective (σ s))
    (hmaps : ∀ s, t ≤ s → s < t + n → (maps.getD s none).isSome = true) :
    walkForward (relabelMaps σ maps) t n (pt.map (σ t))
      = (walkForward maps t n pt).map (Option.map (σ (t + n))) :=
  C13r.walkForward_relabel σ maps n t pt hσ hmaps

/-- backward walk over `n ≤ t` steps from frame `t`: no hypothesis on the maps (a missing map is an AttributeError on
    both sides); injectivity is needed for the frames `t, …, t-n+1` -/
theorem walkBackward_relabel (σ : Nat → Id → Id) (maps : List (Option StepMap)) (n t : Nat) (pt : Option Id)
    (hn : n ≤ t) (hσ : ∀ s, t - n < s → s ≤ t → Function.Injective (σ s)) :
    walkBackward (relabelMaps σ maps) t n (pt.map (σ t))
      = (walkBackward maps t n pt).map (Option.map (σ (t - n))) :=
  C13r.walkBackward_relabel σ maps n t pt hn hσ

/-! ### C. `get_point_id_by_map`

  Statement 1 as asked for,
      getPointIdByMap (relabelMaps σ maps) (σ t0 p) t0 t1 = (getPointIdByMap maps p t0 t1).map (Option.map (σ t1))
      for every family of injective `σ s`,
  is FALSE (`getPointIdByMap_relabel_missing_map_witness`).  True versions: with the extra hypothesis that no step map
  of a forward range is missing (`_partial`), and without any extra hypothesis for `t1 ≤ t0` (`_backward`). -/

theorem getPointIdByMap_relabel_partial (σ : Nat → Id → Id) (hσ : ∀ s, Function.Injective (σ s))
    (maps : List (Option StepMap)) (p : Id) (t0 t1 : Nat)
    (hmaps : ∀ s, t0 ≤ s → s < t1 → (maps.getD s none).isSome = true) :
    getPointIdByMap (relabelMaps σ maps) (σ t0 p) t0 t1
      = (getPointIdByMap maps p t0 t1).map (Option.map (σ t1)) := by
  unfold getPointIdByMap
  split
  · next h =>
    have := walkForward_relabel σ maps (t1 - t0) t0 (some p) (fun s _ _ => hσ s)
      (fun s h1 h2 => hmaps s h1 (by omega))
    rw [show t0 + (t1 - t0) = t1 by omega] at this
    exact this
  · next h =>
    have := walkBackward_relabel σ maps (t0 - t1) t0 (some p) (by omega) (fun s _ _ => hσ s)
    rw [show t0 - (t0 - t1) = t1 by omega] at this
    exact this

/-- backward (or empty) range: the unconditional statement, with exactly the injectivity that is used -/
theorem getPointIdByMap_relabel_backward (σ : Nat → Id → Id) (maps : List (Option StepMap)) (p : Id) (t0 t1 : Nat)
    (h : t1 ≤ t0) (hσ : ∀ s, t1 < s → s ≤ t0 → Function.Injective (σ s)) :
    getPointIdByMap (relabelMaps σ maps) (σ t0 p) t0 t1
      = (getPointIdByMap maps p t0 t1).map (Option.map (σ t1)) := by
  unfold getPointIdByMap
  rw [if_neg (by omega), if_neg (by omega)]
  have := walkBackward_relabel σ maps (t0 - t1) t0 (some p) (by omega) (fun s h1 h2 => hσ s (by omega) h2)
  rw [show t0 - (t0 - t1) = t1 by omega] at this
  exact this

/-- the numbering that adds `10 t` to the ids of frame `t` -/
def shift10 (t : Nat) (a : Id) : Id := a + 10 * (t : Int)

theorem shift10_injective (t : Nat) : Function.Injective (shift10 t) := by
  intro (a : Int) (b : Int) (h : a + 10 * (t : Int) = b + 10 * (t : Int))
  show a = b
  omega

/-- FINDING.  Statement 1 fails on a forward walk across a missing step map: the code returns the id it holds when it
    meets `mapping[ii] is None` — vertex 1 of frame 0 — as "the id at frame 2".  With the numbering `shift10` the
    relabelled series returns 1 as well, whereas the renamed answer would be 21: the value returned is an id of frame 0
    and means nothing at frame 2. -/
theorem getPointIdByMap_relabel_missing_map_witness :
    getPointIdByMap [none, some [(1, some 2)]] 1 0 2 = .ok (some 1) ∧
    getPointIdByMap (relabelMaps shift10 [none, some [(1, some 2)]]) (shift10 0 1) 0 2 = .ok (some 1) ∧
    (getPointIdByMap [none, some [(1, some 2)]] 1 0 2).map (Option.map (shift10 2)) = .ok (some 21) ∧
    getPointIdByMap (relabelMaps shift10 [none, some [(1, some 2)]]) (shift10 0 1) 0 2
      ≠ (getPointIdByMap [none, some [(1, some 2)]] 1 0 2).map (Option.map (shift10 2)) := by
  decide +kernel

/-- … also when the walk has advanced before it meets the missing map: vertex 1 ↦ 4 over step 0, step 1 missing; the
    answer "4" is an id of frame 1, the relabelled series answers 14 = `shift10 1 4`, not `shift10 2 4 = 24` -/
theorem getPointIdByMap_relabel_missing_map_witness2 :
    getPointIdByMap [some [(1, some 4)], none] 1 0 2 = .ok (some 4) ∧
    getPointIdByMap (relabelMaps shift10 [some [(1, some 4)], none]) (shift10 0 1) 0 2 = .ok (some 14) ∧
    (getPointIdByMap [some [(1, some 4)], none] 1 0 2).map (Option.map (shift10 2)) = .ok (some 24) := by
  decide +kernel

/-! ### D. `calculate_velocity` -/

/-- THE VELOCITY OF A PHYSICAL VERTEX DOES NOT DEPEND ON THE NUMBERING: in the series whose frames are renumbered
    independently (`σ s` for frame `s`, the step maps renamed accordingly), the velocity of the renamed vertex at frame
    `t` is the same `VelResult` — the same vector, or the same exception.  Every `t`, every `p` (a vertex of the frame or
    not), every series (missing maps, untracked vertices, dangling targets included). -/
theorem calculateVelocity_relabel (σ : Nat → Id → Id) (hσ : ∀ s, Function.Injective (σ s))
    (frames : List TFrame) (maps : List (Option StepMap)) (p : Id) (t : Nat) :
    calculateVelocity (relabelFrames σ frames) (relabelMaps σ maps) (σ t p) t = calculateVelocity frames maps p t := by
  unfold calculateVelocity
  rw [C13r.getElem?_relabelFrames, C13r.length_relabelFrames]
  cases hf0 : frames[t]? with
  | none => rfl
  | some f0 =>
    simp only [Option.map_some, C13r.pos?_mapV _ (hσ t)]
    cases hp0 : f0.pos? p with
    | none => rfl
    | some p0 =>
      simp only [C13r.getD_relabelMaps, Option.isNone_map, C13r.getElem?_relabelFrames]
      generalize htt : (if t = frames.length - 1 then t - 1 else t + 1) = tt1
      generalize hst : (if t = frames.length - 1 then t - 1 else t) = stepIdx
      have key : ∀ s, t ≤ s → s < tt1 → s = stepIdx := by
        intro s h1 h2
        split at htt <;> split at hst <;> omega
      by_cases hnone : (maps.getD stepIdx none).isNone = true
      · rw [if_pos hnone, if_pos hnone]
      · rw [if_neg hnone, if_neg hnone]
        cases hf1 : frames[tt1]? with
        | none => rfl
        | some f1 =>
          simp only [Option.map_some]
          rw [getPointIdByMap_relabel_partial σ hσ maps p t tt1 ?_]
          · cases getPointIdByMap maps p t tt1 with
            | error e => cases e <;> rfl
            | ok o =>
              cases o with
              | none => rfl
              | some q =>
                simp only [Except.map, Option.map_some, C13r.pos?_mapV _ (hσ _)]
                rfl
          · intro s h1 h2
            rw [key s h1 h2]
            cases hm : maps.getD stepIdx none with
            | none => rw [hm] at hnone; simp at hnone
            | some m => rfl

/-- injectivity on the ids that occur is enough: each `σ s` injective on the ids occurring at frame `s` (vertices of the
    frame, keys of step map `s`, real values of step map `s-1`), and `p` one of the ids occurring at frame `t`.
    (Such a family agrees on the series with a family of globally injective renumberings.) -/
theorem calculateVelocity_relabel_of_injOn (σ : Nat → Id → Id) (frames : List TFrame) (maps : List (Option StepMap))
    (p : Id) (t : Nat)
    (hσ : ∀ s, ∀ a ∈ seriesIds frames maps s, ∀ b ∈ seriesIds frames maps s, σ s a = σ s b → a = b)
    (hp : p ∈ seriesIds frames maps t) :
    calculateVelocity (relabelFrames σ frames) (relabelMaps σ maps) (σ t p) t = calculateVelocity frames maps p t := by
  have H : ∀ s, ∃ g : Id → Id, Function.Injective g ∧ ∀ a ∈ seriesIds frames maps s, g a = σ s a :=
    fun s => exists_injective_extension _ (σ s) (hσ s)
  have hg : ∀ s, Function.Injective (Classical.choose (H s)) := fun s => (Classical.choose_spec (H s)).1
  have hga : ∀ s, ∀ a ∈ seriesIds frames maps s, σ s a = Classical.choose (H s) a :=
    fun s a ha => ((Classical.choose_spec (H s)).2 a ha).symm
  rw [C13r.relabelFrames_congr σ (fun s => Classical.choose (H s)) frames maps hga,
    C13r.relabelMaps_congr σ (fun s => Classical.choose (H s)) frames maps hga, hga t p hp]
  exact calculateVelocity_relabel (fun s => Classical.choose (H s)) hg frames maps p t

/-! ### E. the right-hand side of the dynamic system

  `velOf` is any reading of a `VelResult` as a vector (the code lets the exceptions propagate; whatever is done with
  them is done to the same `VelResult` on both sides). -/

/-- placement form: `rows` = (row index, vertex id at frame `t`); placing the velocities computed in the relabelled
    series at the renamed vertices gives the same vector `b` -/
theorem placeVelocities_relabel (σ : Nat → Id → Id) (hσ : ∀ s, Function.Injective (σ s))
    (frames : List TFrame) (maps : List (Option StepMap)) (t : Nat) (velOf : VelResult → Vec)
    (n : Nat) (rows : List (Nat × Id)) :
    placeVelocities n (rows.map fun r =>
        (r.1, velOf (calculateVelocity (relabelFrames σ frames) (relabelMaps σ maps) (σ t r.2) t)))
      = placeVelocities n (rows.map fun r => (r.1, velOf (calculateVelocity frames maps r.2 t))) := by
  simp only [calculateVelocity_relabel σ hσ]

/-- the dynamic right-hand side (`velocityRhs`, the vector `b` of set_velocity_matrix) of frame `t` of the relabelled
    series — mesh of the frame renamed by `σ t`, velocities computed in the relabelled series — is the right-hand side
    of the original series, entry by entry -/
theorem velocityRhs_relabel (σ : Nat → Id → Id) (hσ : ∀ s, Function.Injective (σ s)) (inp : FMInput)
    (frames : List TFrame) (maps : List (Option StepMap)) (t : Nat) (velOf : VelResult → Vec) :
    velocityRhs (inp.mapV (σ t))
        (fun v => velOf (calculateVelocity (relabelFrames σ frames) (relabelMaps σ maps) v t))
      = velocityRhs inp (fun v => velOf (calculateVelocity frames maps v t)) := by
  rw [velocityRhs_eq_flatMap, velocityRhs_eq_flatMap, build_mapV _ (hσ t)]
  simp only [List.filter_map, List.flatMap_map, Function.comp_def, calculateVelocity_relabel σ hσ]

/-- MATRIX AND RIGHT-HAND SIDE of the dynamic system of frame `t` are unchanged when every frame of the series is
    renumbered independently (`normalisedMatrix_mapV`, C07, and `velocityRhs_relabel`); hence so is the augmented system
    handed to the solver -/
theorem dynamic_system_relabel (σ : Nat → Id → Id) (hσ : ∀ s, Function.Injective (σ s)) (inp : FMInput)
    (frames : List TFrame) (maps : List (Option StepMap)) (t : Nat) (velOf : VelResult → Vec)
    (len len' : Id → Nat → Rat) (hlen : ∀ v ∈ endsOf inp.build.used, ∀ c, len' (σ t v) c = len v c) :
    normalisedMatrix (inp.mapV (σ t)) len' = normalisedMatrix inp len ∧
    velocityRhs (inp.mapV (σ t))
        (fun v => velOf (calculateVelocity (relabelFrames σ frames) (relabelMaps σ maps) v t))
      = velocityRhs inp (fun v => velOf (calculateVelocity frames maps v t)) ∧
    addMeanOne (normalisedMatrix (inp.mapV (σ t)) len') (velocityRhs (inp.mapV (σ t))
        (fun v => velOf (calculateVelocity (relabelFrames σ frames) (relabelMaps σ maps) v t)))
      = addMeanOne (normalisedMatrix inp len) (velocityRhs inp (fun v => velOf (calculateVelocity frames maps v t))) := by
  have h1 := normalisedMatrix_mapV (σ t) (hσ t) inp len len' hlen
  have h2 := velocityRhs_relabel σ hσ inp frames maps t velOf
  exact ⟨h1, h2, by rw [h1, h2]⟩

/-! ### F. injectivity is necessary -/

/-- the numbering that gives every vertex of frame 1 the id 7 (frame 0 keeps its ids) -/
def merge1 (t : Nat) (a : Id) : Id := if t = 1 then 7 else a

/-- when `σ 1` merges the two targets 5 and 6 of the step map `{1: 5, 2: 6}`, the renamed map is `{1: 7, 2: 7}`; its
    inverse keeps the later key only, so the backward walk from the renamed vertex 5 arrives at vertex 2 instead of
    vertex 1 -/
theorem getPointIdByMap_relabel_noninjective_witness :
    getPointIdByMap [some [(1, some 5), (2, some 6)]] 5 1 0 = .ok (some 1) ∧
    relabelMaps merge1 [some [(1, some 5), (2, some 6)]] = [some [(1, some 7), (2, some 7)]] ∧
    getPointIdByMap (relabelMaps merge1 [some [(1, some 5), (2, some 6)]]) (merge1 1 5) 1 0 = .ok (some 2) ∧
    (getPointIdByMap [some [(1, some 5), (2, some 6)]] 5 1 0).map (Option.map (merge1 0)) = .ok (some 1) ∧
    merge1 1 5 = merge1 1 6 := by
  decide +kernel

/-! ### G. non-vacuity: a three-frame series, every frame numbered differently

  Frame 0 (time 0): vertices 1, 2, 3;  frame 1 (time 2): vertices 4, 5, 6;  frame 2 (time 3): vertices 7, 8.
  Step 0: 1 ↦ 4, 2 ↦ 5, 3 untracked (None).  Step 1: 4 ↦ 7, 5 ↦ 8, 6 untracked.
  Numbering `mulAdd t a = a (t + 2) + t`: frame 0 ↦ 2, 4, 6;  frame 1 ↦ 13, 16, 19;  frame 2 ↦ 30, 34.
  Numbering `swapAll`: frame 0 swaps 1 ↔ 3, frame 1 swaps 4 ↔ 6 (the numeric order is reversed), frame 2 swaps 7 ↔ 8. -/

def exFrames : List TFrame :=
  [⟨0, [⟨1, ⟨0, 0⟩⟩, ⟨2, ⟨4, 0⟩⟩, ⟨3, ⟨0, 4⟩⟩]⟩,
   ⟨2, [⟨4, ⟨1, 1⟩⟩, ⟨5, ⟨4, 2⟩⟩, ⟨6, ⟨9, 9⟩⟩]⟩,
   ⟨3, [⟨7, ⟨3, 1⟩⟩, ⟨8, ⟨4, 5⟩⟩]⟩]

def exMaps : List (Option StepMap) :=
  [some [(1, some 4), (2, some 5), (3, none)], some [(4, some 7), (5, some 8), (6, none)]]

def mulAdd (t : Nat) (a : Id) : Id := a * ((t : Int) + 2) + (t : Int)

theorem mulAdd_injective (t : Nat) : Function.Injective (mulAdd t) := by
  intro (a : Int) (b : Int) (h : a * ((t : Int) + 2) + (t : Int) = b * ((t : Int) + 2) + (t : Int))
  show a = b
  have h' : (a - b) * ((t : Int) + 2) = 0 := by rw [Int.sub_mul]; omega
  rcases Int.mul_eq_zero.1 h' with h0 | h0 <;> omega

def swapAll (t : Nat) (a : Id) : Id :=
  if t = 0 then (if a = 1 then 3 else if a = 3 then 1 else a)
  else if t = 1 then (if a = 4 then 6 else if a = 6 then 4 else a)
  else (if a = 7 then 8 else if a = 8 then 7 else a)

theorem swapAll_involutive (t : Nat) (a : Id) : swapAll t (swapAll t a) = a := by
  unfold swapAll
  grind

theorem swapAll_injective (t : Nat) : Function.Injective (swapAll t) :=
  Function.LeftInverse.injective (swapAll_involutive t)

/-- the relabelled series, spelled out -/
example : relabelFrames mulAdd exFrames =
      [⟨0, [⟨2, ⟨0, 0⟩⟩, ⟨4, ⟨4, 0⟩⟩, ⟨6, ⟨0, 4⟩⟩]⟩,
       ⟨2, [⟨13, ⟨1, 1⟩⟩, ⟨16, ⟨4, 2⟩⟩, ⟨19, ⟨9, 9⟩⟩]⟩,
       ⟨3, [⟨30, ⟨3, 1⟩⟩, ⟨34, ⟨4, 5⟩⟩]⟩] ∧
    relabelMaps mulAdd exMaps =
      [some [(2, some 13), (4, some 16), (6, none)], some [(13, some 30), (16, some 34), (19, none)]] ∧
    relabelMaps swapAll exMaps =
      [some [(3, some 6), (2, some 5), (1, none)], some [(6, some 8), (5, some 7), (4, none)]] := by
  decide +kernel

/-- forward at `t = 0`: tracked vertices 1, 2 and the untracked vertex 3 (target None: velocity zero), computed on the
    original series and on both renumbered series -/
example :
    calculateVelocity exFrames exMaps 1 0 = .ok ⟨1/2, 1/2⟩ ∧
    calculateVelocity (relabelFrames mulAdd exFrames) (relabelMaps mulAdd exMaps) (mulAdd 0 1) 0 = .ok ⟨1/2, 1/2⟩ ∧
    calculateVelocity (relabelFrames swapAll exFrames) (relabelMaps swapAll exMaps) (swapAll 0 1) 0 = .ok ⟨1/2, 1/2⟩ ∧
    calculateVelocity exFrames exMaps 2 0 = .ok ⟨0, 1⟩ ∧
    calculateVelocity (relabelFrames mulAdd exFrames) (relabelMaps mulAdd exMaps) (mulAdd 0 2) 0 = .ok ⟨0, 1⟩ ∧
    calculateVelocity exFrames exMaps 3 0 = .ok ⟨0, 0⟩ ∧
    calculateVelocity (relabelFrames mulAdd exFrames) (relabelMaps mulAdd exMaps) (mulAdd 0 3) 0 = .ok ⟨0, 0⟩ ∧
    calculateVelocity (relabelFrames swapAll exFrames) (relabelMaps swapAll exMaps) (swapAll 0 3) 0 = .ok ⟨0, 0⟩ := by
  decide +kernel

/-- forward at `t = 1` (time step 1): vertices 4, 5 tracked, 6 untracked -/
example :
    calculateVelocity exFrames exMaps 4 1 = .ok ⟨2, 0⟩ ∧
    calculateVelocity (relabelFrames mulAdd exFrames) (relabelMaps mulAdd exMaps) (mulAdd 1 4) 1 = .ok ⟨2, 0⟩ ∧
    calculateVelocity (relabelFrames swapAll exFrames) (relabelMaps swapAll exMaps) (swapAll 1 4) 1 = .ok ⟨2, 0⟩ ∧
    calculateVelocity exFrames exMaps 5 1 = .ok ⟨0, 3⟩ ∧
    calculateVelocity (relabelFrames swapAll exFrames) (relabelMaps swapAll exMaps) (swapAll 1 5) 1 = .ok ⟨0, 3⟩ ∧
    calculateVelocity exFrames exMaps 6 1 = .ok ⟨0, 0⟩ ∧
    calculateVelocity (relabelFrames mulAdd exFrames) (relabelMaps mulAdd exMaps) (mulAdd 1 6) 1 = .ok ⟨0, 0⟩ := by
  decide +kernel

/-- backward at the last frame `t = 2`: vertex 7 comes from 4, vertex 8 from 5 -/
example :
    calculateVelocity exFrames exMaps 7 2 = .ok ⟨2, 0⟩ ∧
    calculateVelocity (relabelFrames mulAdd exFrames) (relabelMaps mulAdd exMaps) (mulAdd 2 7) 2 = .ok ⟨2, 0⟩ ∧
    calculateVelocity (relabelFrames swapAll exFrames) (relabelMaps swapAll exMaps) (swapAll 2 7) 2 = .ok ⟨2, 0⟩ ∧
    calculateVelocity exFrames exMaps 8 2 = .ok ⟨0, 3⟩ ∧
    calculateVelocity (relabelFrames mulAdd exFrames) (relabelMaps mulAdd exMaps) (mulAdd 2 8) 2 = .ok ⟨0, 3⟩ := by
  decide +kernel

/-- the exceptions travel too: an unknown vertex (KeyError) and a missing step map (DifferentTissueException) -/
example :
    calculateVelocity exFrames exMaps 99 0 = .keyError ∧
    calculateVelocity (relabelFrames mulAdd exFrames) (relabelMaps mulAdd exMaps) (mulAdd 0 99) 0 = .keyError ∧
    calculateVelocity exFrames [none, none] 1 0 = .differentTissue ∧
    calculateVelocity (relabelFrames mulAdd exFrames) (relabelMaps mulAdd [none, none]) (mulAdd 0 1) 0
      = .differentTissue := by
  decide +kernel

/-- the id walks: two steps forward from frame 0, two steps backward from frame 2, an untracked vertex on the way -/
example :
    getPointIdByMap exMaps 1 0 2 = .ok (some 7) ∧
    getPointIdByMap (relabelMaps mulAdd exMaps) (mulAdd 0 1) 0 2 = .ok (some 30) ∧ mulAdd 2 7 = 30 ∧
    getPointIdByMap exMaps 8 2 0 = .ok (some 2) ∧
    getPointIdByMap (relabelMaps mulAdd exMaps) (mulAdd 2 8) 2 0 = .ok (some 4) ∧ mulAdd 0 2 = 4 ∧
    getPointIdByMap (relabelMaps swapAll exMaps) (swapAll 2 8) 2 0 = .ok (some 2) ∧ swapAll 0 2 = 2 ∧
    getPointIdByMap exMaps 3 0 2 = .ok none ∧
    getPointIdByMap (relabelMaps mulAdd exMaps) (mulAdd 0 3) 0 2 = .ok none ∧
    getPointIdByMap exMaps 9 0 2 = .error .keyError ∧
    getPointIdByMap (relabelMaps mulAdd exMaps) (mulAdd 0 9) 0 2 = .error .keyError := by
  decide +kernel

/-- the theorems instantiated on the example (hypotheses satisfiable) -/
example (p : Id) (t : Nat) :
    calculateVelocity (relabelFrames mulAdd exFrames) (relabelMaps mulAdd exMaps) (mulAdd t p) t
      = calculateVelocity exFrames exMaps p t ∧
    calculateVelocity (relabelFrames swapAll exFrames) (relabelMaps swapAll exMaps) (swapAll t p) t
      = calculateVelocity exFrames exMaps p t :=
  ⟨calculateVelocity_relabel mulAdd mulAdd_injective exFrames exMaps p t,
   calculateVelocity_relabel swapAll swapAll_injective exFrames exMaps p t⟩

/-- hypothesis `hmaps` of `getPointIdByMap_relabel_partial` holds on the example for the whole range -/
example (p : Id) :
    getPointIdByMap (relabelMaps mulAdd exMaps) (mulAdd 0 p) 0 2
      = (getPointIdByMap exMaps p 0 2).map (Option.map (mulAdd 2)) := by
  apply getPointIdByMap_relabel_partial mulAdd mulAdd_injective
  intro s _ h2
  have : s = 0 ∨ s = 1 := by omega
  rcases this with rfl | rfl <;> rfl

/-- a numbering that is injective on the ids of the example only (everything outside 1 … 8 is sent to 5, frame by
    frame the ids are reversed): the hypotheses of `calculateVelocity_relabel_of_injOn` -/
def flipOn (_ : Nat) (a : Id) : Id := if 1 ≤ a ∧ a ≤ 8 then 9 - a else 5

example : (∀ s < 3, ∀ a ∈ seriesIds exFrames exMaps s, ∀ b ∈ seriesIds exFrames exMaps s,
      flipOn s a = flipOn s b → a = b) ∧
    seriesIds exFrames exMaps 0 = [1, 2, 3, 1, 2, 3] ∧ seriesIds exFrames exMaps 1 = [4, 5, 6, 4, 5, 6, 4, 5] ∧
    seriesIds exFrames exMaps 2 = [7, 8, 7, 8] ∧ seriesIds exFrames exMaps 3 = [] ∧
    flipOn 0 100 = flipOn 0 4 ∧
    calculateVelocity (relabelFrames flipOn exFrames) (relabelMaps flipOn exMaps) (flipOn 1 4) 1 = .ok ⟨2, 0⟩ := by
  decide +kernel

end Forsys
