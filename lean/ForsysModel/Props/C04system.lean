/-
  Property C04, the ASSEMBLED pressure system — `Mesh.pressureSystem` (ForsysModel/Model/PressureSystem.lean), the model of
  `PressureMatrix._build_matrix` / `get_row` on a whole mesh: one Young–Laplace equation per internal interface, the
  columns in the order of the cell dictionary, `removed_columns` for the cells no equation mentions.
  (Props/C04.lean is about single rows and abstract matrices; here they are tied to the mesh.)

  Vocabulary (Proofs/C04system.lean), for a mesh `m`:
    `m.cellKeys`            keys of the cell dictionary in storage order (`mapping_order` inverted)
    `m.cellPos c`           `mapping_order[c]` (model: `len(cells)` for an absent key — marks no column)
    `m.nEq`                 number of equations = `len(internal_big_edges)`
    `m.eqIdx k`             position in `big_edges_list` of the interface of equation `k`
    `m.eqInterface k`       that interface (vertex ids in stored direction)
    `m.eqOwnCells k`        its `own_cells` (`Mesh.bigEdgeOwnCells`)
    `m.eqCellA k`, `m.eqCellB k`   `own_cells[0]`, `own_cells[1]` (the id `0` stands in for a missing entry)
    `m.eqSign k`            `+1` if the stored cycle of `own_cells[0]` has positive area sign, else `−1`
    `m.EqOk k`              `own_cells` has exactly two entries, both are keys of the cell dictionary, they differ
    `m.Linked x y`          some equation has its two entries in the columns `x`, `y`
    `m.cellCycle a`         vertex positions of the stored cycle of cell `a`
  Tensions and total turnings are inputs keyed by the position of the interface in `big_edges_list`.
-/
import ForsysModel.Proofs.C04system

namespace Forsys
open C04s

/-! ### a. shape -/

/-- one row, one right-hand side and one `own_cells` count per internal interface, in the order of
    `Frame.internal_big_edges` (`internalIdx`); every row has one entry per cell -/
theorem pressureSystem_shape (m : Mesh) (tens curv : List Rat) :
    (m.pressureSystem tens curv).internal = m.internalIdx m.bigEdgesList ∧
    (m.pressureSystem tens curv).lhs
      = (m.internalIdx m.bigEdgesList).map (fun i => m.interfaceRow (m.bigEdgesList.getD i [])) ∧
    (m.pressureSystem tens curv).rhs
      = (m.internalIdx m.bigEdgesList).map (fun i => pressureRhs (tens.getD i 0) (curv.getD i 0)) ∧
    (m.pressureSystem tens curv).ownCellCounts
      = (m.internalIdx m.bigEdgesList).map (fun i => (m.bigEdgeOwnCells (m.bigEdgesList.getD i [])).length) ∧
    Shaped (m.pressureSystem tens curv).lhs (m.pressureSystem tens curv).rhs m.nEq m.cells.length := by
  refine ⟨rfl, lhs_eq m tens curv, rhs_eq m tens curv, ownCellCounts_eq m tens curv, ?_, ?_, ?_⟩
  · rw [lhs_eq]; simp [Mesh.nEq]
  · rw [rhs_eq]; simp [Mesh.nEq]
  · intro r hr
    obtain ⟨k, _, rfl⟩ := (mem_lhs m tens curv r).1 hr
    exact interfaceRow_length m _

/-- the row of equation `k` is `get_row` of its interface: positions of its two own cells, sign of the first -/
theorem pressureSystem_row_eq (m : Mesh) (tens curv : List Rat) (k : Nat) (hk : k < m.nEq) :
    (m.pressureSystem tens curv).lhs.getD k []
      = pressureRow m.cells.length (m.cellPos (m.eqCellA k)) (m.cellPos (m.eqCellB k))
          (areaSign (m.cellCycle (m.eqCellA k))) := by
  rw [lhs_getD m tens curv k hk, interfaceRow_eq]

/-! ### b. the Young–Laplace equation of one interface -/

/-- for the `k`-th internal interface with own cells `a ≠ b`, both keys of the cell dictionary: `a` and `b` sit at
    distinct columns `pos a`, `pos b` (and the keys stored there are `a`, `b`); the row applied to any pressure vector is
    `s · (p[pos a] − p[pos b])` with `s = ±1` the orientation coefficient of cell `a`; the right-hand side is
    tension × total turning of that interface -/
theorem pressureSystem_row (m : Mesh) (tens curv : List Rat) (k : Nat) (hk : k < m.nEq) (hok : m.EqOk k)
    (p : List Rat) (hp : p.length = m.cells.length) :
    m.cellPos (m.eqCellA k) < m.cells.length ∧ m.cellPos (m.eqCellB k) < m.cells.length ∧
    m.cellPos (m.eqCellA k) ≠ m.cellPos (m.eqCellB k) ∧
    m.cellKeys[m.cellPos (m.eqCellA k)]? = some (m.eqCellA k) ∧
    m.cellKeys[m.cellPos (m.eqCellB k)]? = some (m.eqCellB k) ∧
    dot ((m.pressureSystem tens curv).lhs.getD k []) p
      = m.eqSign k * (p.getD (m.cellPos (m.eqCellA k)) 0 - p.getD (m.cellPos (m.eqCellB k)) 0) ∧
    (m.pressureSystem tens curv).rhs.getD k 0 = tens.getD (m.eqIdx k) 0 * curv.getD (m.eqIdx k) 0 := by
  obtain ⟨h1, h2, h3⟩ := eqOk_pos m k hok
  refine ⟨h1, h2, h3, (cellPos_of_mem m _ hok.2.1).2, (cellPos_of_mem m _ hok.2.2.1).2, ?_, rhs_getD m tens curv k hk⟩
  rw [lhs_getD m tens curv k hk]
  exact row_dot m k hok p hp

/-- the orientation coefficient is the area sign of the stored cycle of `own_cells[0]` whenever that area is not zero
    (then it is `+1` or `−1`); for a cycle of zero area — and for an absent cell, whose cycle is empty — the code's
    test `get_area_sign() > 0` fails and the coefficient is `−1` -/
theorem pressureSystem_sign (m : Mesh) (k : Nat) :
    (area (m.cellCycle (m.eqCellA k)) ≠ 0 →
      m.eqSign k = ((areaSign (m.cellCycle (m.eqCellA k)) : Int) : Rat) ∧
      (areaSign (m.cellCycle (m.eqCellA k)) = 1 ∨ areaSign (m.cellCycle (m.eqCellA k)) = -1)) ∧
    (area (m.cellCycle (m.eqCellA k)) = 0 → m.eqSign k = -1) ∧
    (m.eqSign k = 1 ∨ m.eqSign k = -1) := by
  refine ⟨fun h => ratSign_cast _ h, fun h => ?_, ?_⟩
  · simp [Mesh.eqSign, areaSign, ratSign, h]
  · unfold Mesh.eqSign; split <;> simp

/-- OTHERWISE — what the model does when `EqOk` fails.  `ownCellCounts[k]` is `len(own_cells)`; the code raises
    `ValueError` unless it is 2, the model goes on with the id `0` for a missing entry (and ignores entries beyond the
    second).  Whatever the two ids are, the row applied to a pressure vector is
    `s · (p[pos a] − [pos b ≠ pos a] · p[pos b])`, where `p[·]` reads `0` at the out-of-range position of an id that is
    no key of the cell dictionary: equal own cells leave the single term `s · p[pos a]`, an absent cell drops its term -/
theorem pressureSystem_row_general (m : Mesh) (tens curv : List Rat) (k : Nat) (hk : k < m.nEq)
    (p : List Rat) (hp : p.length = m.cells.length) :
    (m.pressureSystem tens curv).ownCellCounts.getD k 0 = (m.eqOwnCells k).length ∧
    dot ((m.pressureSystem tens curv).lhs.getD k []) p
      = m.eqSign k * (p.getD (m.cellPos (m.eqCellA k)) 0
          - (if m.cellPos (m.eqCellB k) = m.cellPos (m.eqCellA k) then 0 else p.getD (m.cellPos (m.eqCellB k)) 0)) ∧
    (∀ c, c ∉ m.cellKeys → m.cellPos c = m.cells.length ∧ p.getD (m.cellPos c) 0 = 0) := by
  refine ⟨ownCellCounts_getD m tens curv k hk, ?_, ?_⟩
  · rw [lhs_getD m tens curv k hk]
    exact row_dot_general m k p hp
  · intro c hc
    have h := cellPos_of_not_mem m c hc
    refine ⟨h, ?_⟩
    rw [h, List.getD_eq_getElem?_getD, List.getElem?_eq_none (by omega)]; rfl

/-- fewer than two own cells: the count the model reports differs from 2 (the code raises there) -/
theorem pressureSystem_few_cells (m : Mesh) (tens curv : List Rat) (k : Nat) (hk : k < m.nEq)
    (h : (m.eqOwnCells k).length < 2) :
    (m.pressureSystem tens curv).ownCellCounts.getD k 0 ≠ 2 ∧ m.eqCellB k = 0 ∧
    ((m.eqOwnCells k).length = 0 → m.eqCellA k = 0) := by
  rw [ownCellCounts_getD m tens curv k hk]
  refine ⟨by omega, ?_, ?_⟩
  · unfold Mesh.eqCellB
    rw [List.getD_eq_getElem?_getD, List.getElem?_eq_none (by omega)]; rfl
  · intro h0
    unfold Mesh.eqCellA
    rw [List.getD_eq_getElem?_getD, List.getElem?_eq_none (by omega)]; rfl

/-! ### c. linearity in the tensions -/

/-- scaling all tensions by `c` scales the right-hand sides by `c`; matrix, removed columns, equations unchanged -/
theorem pressureSystem_linear (m : Mesh) (c : Rat) (tens curv : List Rat) :
    m.pressureSystem (vscale c tens) curv
      = { m.pressureSystem tens curv with rhs := vscale c (m.pressureSystem tens curv).rhs } := by
  have hR : (m.pressureSystem (vscale c tens) curv).rhs = vscale c (m.pressureSystem tens curv).rhs := by
    rw [rhs_eq, rhs_eq]
    simp only [vscale, List.map_map]
    apply List.map_congr_left
    intro i _
    simp only [Function.comp]
    rw [show (List.map (fun x => c * x) tens) = vscale c tens from rfl, getD_vscale, pressureRhs_linear]
  have hL : (m.pressureSystem (vscale c tens) curv).lhs = (m.pressureSystem tens curv).lhs := by
    rw [lhs_eq, lhs_eq]
  have hRem : (m.pressureSystem (vscale c tens) curv).removed = (m.pressureSystem tens curv).removed := by
    rw [removed_eq, removed_eq, hL]
  have hC : (m.pressureSystem (vscale c tens) curv).ownCellCounts = (m.pressureSystem tens curv).ownCellCounts := by
    rw [ownCellCounts_eq, ownCellCounts_eq]
  have hI : (m.pressureSystem (vscale c tens) curv).internal = (m.pressureSystem tens curv).internal := rfl
  exact PSystem_ext _ _ hI hC hL hR hRem

/-- additivity in the tension vector -/
theorem pressureSystem_add (m : Mesh) (t₁ t₂ curv : List Rat) (hlen : t₁.length = t₂.length) :
    m.pressureSystem (vadd t₁ t₂) curv
      = { m.pressureSystem t₁ curv with
          rhs := vadd (m.pressureSystem t₁ curv).rhs (m.pressureSystem t₂ curv).rhs } := by
  have hR : (m.pressureSystem (vadd t₁ t₂) curv).rhs
      = vadd (m.pressureSystem t₁ curv).rhs (m.pressureSystem t₂ curv).rhs := by
    rw [rhs_eq, rhs_eq, rhs_eq, vadd_map_map]
    apply List.map_congr_left
    intro i _
    rw [getD_vadd t₁ t₂ hlen]
    simp only [pressureRhs]; ring
  have hL : ∀ t, (m.pressureSystem t curv).lhs = (m.pressureSystem t₁ curv).lhs := by
    intro t; rw [lhs_eq, lhs_eq]
  apply PSystem_ext
  · rfl
  · show (m.pressureSystem (vadd t₁ t₂) curv).ownCellCounts = (m.pressureSystem t₁ curv).ownCellCounts
    rw [ownCellCounts_eq, ownCellCounts_eq]
  · exact hL _
  · exact hR
  · show (m.pressureSystem (vadd t₁ t₂) curv).removed = (m.pressureSystem t₁ curv).removed
    rw [removed_eq, removed_eq, hL]

/-! ### d. the removed columns -/

/-- column `j` is removed iff no equation has an entry there: `j` is the position of neither own cell of any internal
    interface (no hypothesis: an entry of a row is `±1` at its two marked positions and `0` elsewhere) -/
theorem pressureSystem_removed_iff (m : Mesh) (tens curv : List Rat) (j : Nat) :
    j ∈ (m.pressureSystem tens curv).removed ↔
      j < m.cells.length ∧ ∀ k, k < m.nEq → m.cellPos (m.eqCellA k) ≠ j ∧ m.cellPos (m.eqCellB k) ≠ j := by
  rw [removed_eq, mem_removedColumns]
  constructor
  · rintro ⟨hj, h⟩
    refine ⟨hj, fun k hk => ?_⟩
    have := h _ ((mem_lhs m tens curv _).2 ⟨k, hk, rfl⟩)
    rw [interfaceRow_eq, pressureRow_getD_eq_zero _ _ _ _ j hj] at this
    exact ⟨fun e => this.1 e.symm, fun e => this.2 e.symm⟩
  · rintro ⟨hj, h⟩
    refine ⟨hj, fun r hr => ?_⟩
    obtain ⟨k, hk, rfl⟩ := (mem_lhs m tens curv r).1 hr
    rw [interfaceRow_eq, pressureRow_getD_eq_zero _ _ _ _ j hj]
    exact ⟨fun e => (h k hk).1 e.symm, fun e => (h k hk).2 e.symm⟩

/-- in terms of cells: with unique keys and genuine equations (only "two own cells per internal interface" is used, the
    condition under which `get_row` does not raise), column `j` is removed iff the cell stored at position `j` of the
    dictionary is an own cell of no internal interface -/
theorem pressureSystem_removed_iff_cells (m : Mesh) (tens curv : List Rat) (hn : m.cellKeys.Nodup)
    (hok : ∀ k, k < m.nEq → m.EqOk k) (j : Nat) (c : Id) (hc : m.cellKeys[j]? = some c) :
    j ∈ (m.pressureSystem tens curv).removed ↔ ∀ k, k < m.nEq → c ∉ m.eqOwnCells k := by
  have hj : j < m.cells.length := by
    have : j < m.cellKeys.length := by
      by_contra h; rw [List.getElem?_eq_none (by omega)] at hc; exact absurd hc (by simp)
    simpa [Mesh.cellKeys] using this
  have hmem : ∀ k, k < m.nEq → (c ∈ m.eqOwnCells k ↔ (m.eqCellA k = c ∨ m.eqCellB k = c)) := by
    intro k hk
    have hl := (hok k hk).1
    unfold Mesh.eqCellA Mesh.eqCellB
    match hoc : m.eqOwnCells k, hl with
    | [a, b], _ => simp [eq_comm]
  rw [pressureSystem_removed_iff]
  constructor
  · rintro ⟨_, h⟩ k hk hin
    rcases (hmem k hk).1 hin with e | e
    · exact (h k hk).1 ((cellPos_eq_iff m hn _ j hj).2 (by rw [e]; exact hc))
    · exact (h k hk).2 ((cellPos_eq_iff m hn _ j hj).2 (by rw [e]; exact hc))
  · intro h
    refine ⟨hj, fun k hk => ⟨fun e => ?_, fun e => ?_⟩⟩
    · have := (cellPos_eq_iff m hn _ j hj).1 e
      rw [hc] at this
      exact h k hk ((hmem k hk).2 (Or.inl (by simpa using this.symm)))
    · have := (cellPos_eq_iff m hn _ j hj).1 e
      rw [hc] at this
      exact h k hk ((hmem k hk).2 (Or.inr (by simpa using this.symm)))

/-- the reported pressure of such a cell is exactly `0`: `solve_system` re-inserts a zero at every removed column
    (`sol` = the solution of the reduced system, one entry per kept column) -/
theorem pressureSystem_removed_pressure (m : Mesh) (tens curv : List Rat) (sol : List Rat)
    (hlen : sol.length + (m.pressureSystem tens curv).removed.length = m.cells.length) :
    (reinsertZeros m.cells.length (m.pressureSystem tens curv).removed sol).length = m.cells.length ∧
    ∀ j ∈ (m.pressureSystem tens curv).removed,
      (reinsertZeros m.cells.length (m.pressureSystem tens curv).removed sol).getD j 1 = 0 := by
  have hr : ∀ i ∈ (m.pressureSystem tens curv).removed, i < m.cells.length := by
    intro i hi
    rw [removed_eq, mem_removedColumns] at hi
    exact hi.1
  have hnd : (m.pressureSystem tens curv).removed.Nodup := by
    rw [removed_eq]; exact removedColumns_nodup _ _
  exact ⟨reinsertZeros_length _ _ sol hr hnd hlen, fun j hj => reinsertZeros_removed _ _ sol hr hnd hlen j hj⟩

/-! ### e. reversing the stored cycle of a cell -/

/-- reversing the stored cycle of cell `cid` (`Mesh.reverseCell`, Props/C07order.lean) flips the area sign of that cell,
    leaves every other cell's cycle, every column position and — when the cycle has no repeated vertex — the `own_cells`
    of every interface unchanged -/
theorem reverseCell_effects (cid : Id) (m : Mesh) :
    areaSign ((m.reverseCell cid).cellCycle cid) = - areaSign (m.cellCycle cid) ∧
    (∀ c, c ≠ cid → (m.reverseCell cid).cellCycle c = m.cellCycle c) ∧
    (∀ c, (m.reverseCell cid).cellPos c = m.cellPos c) ∧
    (m.reverseCell cid).cells.length = m.cells.length ∧
    ((∀ cl, m.cell? cid = some cl → cl.verts.Nodup) →
      ∀ e, (m.reverseCell cid).bigEdgeOwnCells e = m.bigEdgeOwnCells e) := by
  refine ⟨?_, ?_, fun c => cellPos_mapCell cid m _ c, ?_, fun hnd e => bigEdgeOwnCells_reverseCell cid m hnd e⟩
  · rw [cellCycle_reverseCell, if_pos rfl, areaSign_reverse]
  · intro c hc
    rw [cellCycle_reverseCell, if_neg hc]
  · simp [Mesh.reverseCell, Mesh.mapCell]

/-- the row `get_row` builds for an interface `e` in the variant: negated when the reversed cell is `own_cells[0]` (the
    cell that carries the sign), identical otherwise -/
theorem interfaceRow_reverseCell (cid : Id) (m : Mesh) (hnd : ∀ cl, m.cell? cid = some cl → cl.verts.Nodup)
    (harea : area (m.cellCycle cid) ≠ 0) (e : List Id) :
    (m.reverseCell cid).interfaceRow e
      = if (m.bigEdgeOwnCells e).getD 0 0 = cid then (m.interfaceRow e).map (- ·) else m.interfaceRow e :=
  interfaceRow_reverseCell_cases cid m hnd harea e

/-- an interface with an odd number (≥ 3) of points has the same `own_cells` in either stored direction (the middle vertex
    is the same); with an even number the code reads the OTHER central vertex after a reversal, and for two points the
    order of `own_cells` follows the first end's list -/
theorem ownCells_reverse_odd (m : Mesh) (e : List Id) (h3 : 3 ≤ e.length) (hodd : e.length % 2 = 1) :
    m.bigEdgeOwnCells e.reverse = m.bigEdgeOwnCells e :=
  bigEdgeOwnCells_reverse_odd m e h3 hodd

/- The orientation clause at SYSTEM level, full statement (FALSE, see `pressureSystem_reverse_cell_witness`):
     for every consistent mesh `m`, every cell `cid`, tensions `τ` and turnings `κ` given per interface with
     `τ e.reverse = τ e`, `κ e.reverse = −κ e` (C04 `curvParts_reverse`), the systems of `m.reverseCell cid` and of `m`
     (tensions / turnings read off `τ`, `κ` along the respective interface lists) have the same solutions `p`.
   What holds is the equation-by-equation statement below, under the hypothesis `hκ` that the turning of the matched
   interface changes sign EXACTLY WHEN the reversed cell is the one that carries the sign of the row (`own_cells[0]`).
   The stored direction of an interface is set by the first cell of the DICTIONARY whose walk produces it
   (`create_edges_new` + de-duplication), the sign of its row by the first cell in the `ownCells` LIST of its middle
   vertex; `hκ` holds when these two orders agree (as in every mesh built by `Mesh.ofLists`, where `Cell.__post_init__`
   appends to `ownCells` in creation = dictionary order) and fails otherwise.
   Missing for a mesh-level theorem: (1) that agreement as a hypothesis on the mesh and the proof that it gives `hκ`;
   (2) `own_cells` of an interface stored in the other direction (`hoc`): same list for an odd number of points
   (`ownCells_reverse_odd`), needs planarity for an even number, may come in the other order for two points;
   (3) the bookkeeping that matches positions `k ↔ k'` of the two interface lists (`exists_perm_rev_reverseCell`). -/

/-- equation `k'` of the variant and equation `k` of the original constrain `p` in the same way when they have the same
    own cells (`hoc`), the same tension (`hT`) and the turning changes sign exactly when the reversed cell carries the sign
    (`hκ`): both sides of the equation are negated, or neither -/
theorem pressureSystem_reverse_cell_partial (cid : Id) (m : Mesh) (tens curv tens' curv' : List Rat) (k k' : Nat)
    (hk : k < m.nEq) (hk' : k' < (m.reverseCell cid).nEq)
    (hnd : ∀ cl, m.cell? cid = some cl → cl.verts.Nodup) (harea : area (m.cellCycle cid) ≠ 0)
    (hoc : m.bigEdgeOwnCells ((m.reverseCell cid).eqInterface k') = m.eqOwnCells k)
    (hT : tens'.getD ((m.reverseCell cid).eqIdx k') 0 = tens.getD (m.eqIdx k) 0)
    (hκ : curv'.getD ((m.reverseCell cid).eqIdx k') 0
      = if m.eqCellA k = cid then - curv.getD (m.eqIdx k) 0 else curv.getD (m.eqIdx k) 0)
    (p : List Rat) :
    (dot (((m.reverseCell cid).pressureSystem tens' curv').lhs.getD k' []) p
        = ((m.reverseCell cid).pressureSystem tens' curv').rhs.getD k' 0) ↔
    (dot ((m.pressureSystem tens curv).lhs.getD k []) p = (m.pressureSystem tens curv).rhs.getD k 0) := by
  rw [lhs_getD _ tens' curv' k' hk', rhs_getD _ tens' curv' k' hk', lhs_getD m tens curv k hk,
    rhs_getD m tens curv k hk, interfaceRow_reverseCell_cases cid m hnd harea, hT, hκ]
  have hrow : m.interfaceRow ((m.reverseCell cid).eqInterface k') = m.interfaceRow (m.eqInterface k) := by
    unfold Mesh.interfaceRow
    rw [hoc]; rfl
  have hA : (m.bigEdgeOwnCells ((m.reverseCell cid).eqInterface k')).getD 0 0 = m.eqCellA k := by
    rw [hoc]; rfl
  rw [hrow, hA]
  by_cases h : m.eqCellA k = cid
  · rw [if_pos h, if_pos h, dot_map_neg]
    constructor <;> intro h' <;> linarith
  · rw [if_neg h, if_neg h]

/-! ### f. renumbering the vertices, order of the vertex and mesh-edge dictionaries -/

/-- an injective renumbering of the vertices (`Mesh.mapV`, Proofs/C07matrix.lean) leaves the whole system unchanged -/
theorem pressureSystem_mapV (f : Id → Id) (hf : Function.Injective f) (m : Mesh) (tens curv : List Rat) :
    (m.mapV f).pressureSystem tens curv = m.pressureSystem tens curv :=
  system_mapV f hf m tens curv

/-- injectivity on the vertex ids that occur in the mesh is enough -/
theorem pressureSystem_mapV_of_injOn (f : Id → Id) (m : Mesh)
    (hf : ∀ a ∈ m.vids, ∀ b ∈ m.vids, f a = f b → a = b) (tens curv : List Rat) :
    (m.mapV f).pressureSystem tens curv = m.pressureSystem tens curv := by
  obtain ⟨g, hg, hfg⟩ := exists_injective_extension m.vids f hf
  rw [mapV_congr f g m (fun a ha => (hfg a ha).symm)]
  exact system_mapV g hg m tens curv

/-- the vertex dictionary stored in another order (unique keys): the same system -/
theorem pressureSystem_permuteVertices (vs' : List (Id × Vertex)) (m : Mesh) (hp : vs'.Perm m.vertices)
    (hk : Mesh.keysNodup m.vertices = true) (tens curv : List Rat) :
    (m.permuteVertices vs').pressureSystem tens curv = m.pressureSystem tens curv :=
  system_congr m (m.permuteVertices vs') (fun k => alGet?_perm _ _ hp hk k) rfl tens curv

/-- the mesh-edge dictionary replaced by anything: the same system (the pressure step never reads it) -/
theorem pressureSystem_permuteEdges (es' : List (Id × SEdge)) (m : Mesh) (tens curv : List Rat) :
    (m.permuteEdges es').pressureSystem tens curv = m.pressureSystem tens curv :=
  system_congr m (m.permuteEdges es') (fun _ => rfl) rfl tens curv

/-! ### g. the kernel of the assembled matrix -/

/-- if every equation is genuine (`EqOk`) and `L p = 0`, the pressures of two cells joined by a chain of internal
    interfaces are equal -/
theorem pressureSystem_kernel (m : Mesh) (tens curv : List Rat) (p : List Rat) (hp : p.length = m.cells.length)
    (hok : ∀ k, k < m.nEq → m.EqOk k)
    (hker : ∀ r ∈ (m.pressureSystem tens curv).lhs, dot r p = 0) (i j : Nat)
    (h : Relation.ReflTransGen m.Linked i j) : p.getD i 0 = p.getD j 0 :=
  reflTransGen_eq m p hp hok (fun k hk => hker _ ((mem_lhs m tens curv _).2 ⟨k, hk, rfl⟩)) i j h

/-- `Linked` is exactly the edge relation `connected_kernel` (Props/C04.lean) is stated for, on the rows of the
    assembled matrix -/
theorem pressureSystem_linked_iff (m : Mesh) (x y : Nat) :
    m.Linked x y ↔ ∃ r ∈ (List.range m.nEq).map (fun k =>
        (m.cellPos (m.eqCellA k), m.cellPos (m.eqCellB k), areaSign (m.cellCycle (m.eqCellA k)))),
      (r.1 = x ∧ r.2.1 = y) ∨ (r.1 = y ∧ r.2.1 = x) := by
  simp only [Mesh.Linked, List.mem_map, List.mem_range, exists_exists_and_eq_and]

/-- if moreover the cells with an equation (the non-removed columns) are connected by internal interfaces, a vector with
    `L p = 0`, zero on the removed columns (as `solve_system` reports it) and zero sum is zero -/
theorem pressureSystem_kernel_zero (m : Mesh) (tens curv : List Rat) (p : List Rat) (hp : p.length = m.cells.length)
    (hok : ∀ k, k < m.nEq → m.EqOk k)
    (hconn : ∀ i j, i < m.cells.length → j < m.cells.length → i ∉ (m.pressureSystem tens curv).removed →
      j ∉ (m.pressureSystem tens curv).removed → Relation.ReflTransGen m.Linked i j)
    (hker : ∀ r ∈ (m.pressureSystem tens curv).lhs, dot r p = 0)
    (hz : ∀ j ∈ (m.pressureSystem tens curv).removed, p.getD j 0 = 0) (hsum : p.sum = 0) :
    ∀ v ∈ p, v = 0 :=
  kernel_zero m tens curv p hp hok hconn hker hz hsum

/-- … so the zero-sum solution is unique: `L` is injective on the vectors that vanish on the removed columns and have
    zero sum (two such vectors with the same image — e.g. two exact solutions of `L p = r`, or two minimisers of
    `‖L p − r‖²`, whose images are the same projection of `r` — are equal) -/
theorem pressureSystem_unique (m : Mesh) (tens curv : List Rat) (p q : List Rat) (hp : p.length = m.cells.length)
    (hq : q.length = m.cells.length) (hok : ∀ k, k < m.nEq → m.EqOk k)
    (hconn : ∀ i j, i < m.cells.length → j < m.cells.length → i ∉ (m.pressureSystem tens curv).removed →
      j ∉ (m.pressureSystem tens curv).removed → Relation.ReflTransGen m.Linked i j)
    (hL : mulVec (m.pressureSystem tens curv).lhs p = mulVec (m.pressureSystem tens curv).lhs q)
    (hzp : ∀ j ∈ (m.pressureSystem tens curv).removed, p.getD j 0 = 0)
    (hzq : ∀ j ∈ (m.pressureSystem tens curv).removed, q.getD j 0 = 0)
    (hsp : p.sum = 0) (hsq : q.sum = 0) : p = q :=
  lhs_injective m tens curv p q hp hq hok hconn hL hzp hzq hsp hsq

/-- the REDUCED system the code hands to the solver (`np.delete` of the removed columns) against the full matrix: for a
    reduced vector `sol` (one entry per kept column) and `p` = `sol` with zeros re-inserted at the removed columns
    (what `solve_system` reports), `L_reduced · sol = L · p`, `p` vanishes on the removed columns and `Σ p = Σ sol` -/
theorem pressureSystem_reduced (m : Mesh) (tens curv : List Rat) (sol : List Rat)
    (hlen : sol.length + (m.pressureSystem tens curv).removed.length = m.cells.length) :
    mulVec (dropColumns (m.pressureSystem tens curv).lhs (m.pressureSystem tens curv).removed) sol
      = mulVec (m.pressureSystem tens curv).lhs
          (reinsertZeros m.cells.length (m.pressureSystem tens curv).removed sol) ∧
    (reinsertZeros m.cells.length (m.pressureSystem tens curv).removed sol).sum = sol.sum ∧
    (reinsertZeros m.cells.length (m.pressureSystem tens curv).removed sol).length = m.cells.length ∧
    ∀ j ∈ (m.pressureSystem tens curv).removed,
      (reinsertZeros m.cells.length (m.pressureSystem tens curv).removed sol).getD j 0 = 0 := by
  have hr : ∀ i ∈ (m.pressureSystem tens curv).removed, i < m.cells.length := by
    intro i hi
    rw [removed_eq, mem_removedColumns] at hi
    exact hi.1
  have hnd : (m.pressureSystem tens curv).removed.Nodup := by
    rw [removed_eq]; exact removedColumns_nodup _ _
  obtain ⟨hL, hK, hZ⟩ := reinsert_facts _ _ sol hr hnd hlen
  refine ⟨?_, ?_, hL, ?_⟩
  · rw [dropColumns_eq]
    unfold mulVec
    rw [List.map_map]
    apply List.map_congr_left
    intro r hr'
    obtain ⟨k, _, rfl⟩ := (mem_lhs m tens curv r).1 hr'
    simp only [Function.comp]
    rw [dot_keepFrom _ _ _ 0 ((interfaceRow_length m _).trans hL.symm) hZ, hK]
  · rw [sum_keepFrom _ _ 0 hZ, hK]
  · intro j hj
    exact hZ j (by rw [hL]; exact hr j hj) (by rw [Nat.zero_add]; exact hj)

/-- uniqueness for the reduced system, as the code solves it: under the hypotheses of g two reduced vectors with the
    same image under the reduced matrix and zero sum are equal -/
theorem pressureSystem_reduced_unique (m : Mesh) (tens curv : List Rat) (sol sol' : List Rat)
    (hlen : sol.length + (m.pressureSystem tens curv).removed.length = m.cells.length)
    (hlen' : sol'.length + (m.pressureSystem tens curv).removed.length = m.cells.length)
    (hok : ∀ k, k < m.nEq → m.EqOk k)
    (hconn : ∀ i j, i < m.cells.length → j < m.cells.length → i ∉ (m.pressureSystem tens curv).removed →
      j ∉ (m.pressureSystem tens curv).removed → Relation.ReflTransGen m.Linked i j)
    (hL : mulVec (dropColumns (m.pressureSystem tens curv).lhs (m.pressureSystem tens curv).removed) sol
      = mulVec (dropColumns (m.pressureSystem tens curv).lhs (m.pressureSystem tens curv).removed) sol')
    (hs : sol.sum = 0) (hs' : sol'.sum = 0) : sol = sol' := by
  obtain ⟨h1, h2, h3, h4⟩ := pressureSystem_reduced m tens curv sol hlen
  obtain ⟨h1', h2', h3', h4'⟩ := pressureSystem_reduced m tens curv sol' hlen'
  have hpq := pressureSystem_unique m tens curv _ _ h3 h3' hok hconn (by rw [← h1, ← h1', hL]) h4 h4'
    (by rw [h2, hs]) (by rw [h2', hs'])
  have hr : ∀ i ∈ (m.pressureSystem tens curv).removed, i < m.cells.length := by
    intro i hi
    rw [removed_eq, mem_removedColumns] at hi
    exact hi.1
  have hnd : (m.pressureSystem tens curv).removed.Nodup := by
    rw [removed_eq]; exact removedColumns_nodup _ _
  rw [← (reinsert_facts _ _ sol hr hnd hlen).2.1, ← (reinsert_facts _ _ sol' hr hnd hlen').2.1, hpq]

/-! ### h. non-vacuity and witnesses -/

instance (m : Mesh) (k : Nat) : Decidable (m.EqOk k) := by unfold Mesh.EqOk; infer_instance

/-- the lens tissue `balMesh` (Props/C01matrix.lean): three cells — the lens 0 stored with positive area sign, the
    upper cell 1 and the lower cell 2 with negative area sign (mixed orientations) —, four internal interfaces.  The
    assembled system written out (tension and turning of the two external interfaces, positions 4 and 5, are not read);
    own cells per equation; every equation is genuine (`EqOk`, hypotheses of b, d, g); keys are unique -/
theorem pressureSystem_balMesh_witness :
    balMesh.Consistent = true ∧ balMesh.cellKeys = [0, 1, 2] ∧
    (balMesh.cellKeys.map fun c => areaSign (balMesh.cellCycle c)) = [1, -1, -1] ∧
    balMesh.bigEdgesList = [[0, 2, 1], [1, 0], [3, 0], [1, 4], [4, 5, 3], [3, 6, 4]] ∧
    balMesh.pressureSystem [3, 7/5, 4, 4, 1, 1] [1/2, 0, 0, 0, 9, 9]
      = { internal := [0, 1, 2, 3], ownCellCounts := [2, 2, 2, 2],
          lhs := [[1, -1, 0], [1, 0, -1], [0, -1, 1], [0, -1, 1]], rhs := [3/2, 0, 0, 0], removed := [] } ∧
    balMesh.nEq = 4 ∧
    ((List.range 4).map fun k => (balMesh.eqCellA k, balMesh.eqCellB k)) = [(0, 1), (0, 2), (1, 2), (1, 2)] ∧
    ((List.range 4).map fun k => balMesh.eqSign k) = [1, 1, -1, -1] ∧
    (∀ k, k < balMesh.nEq → balMesh.EqOk k) ∧ balMesh.cellKeys.Nodup := by
  decide +kernel

/-- the three cells of `balMesh` are connected by internal interfaces (hypothesis `hconn` of g) -/
theorem balMesh_connected (i j : Nat) (hi : i < balMesh.cells.length) (hj : j < balMesh.cells.length) :
    Relation.ReflTransGen balMesh.Linked i j := by
  have hl : balMesh.cells.length = 3 := by decide +kernel
  have h01 : balMesh.Linked 0 1 := ⟨0, by decide +kernel, Or.inl ⟨by decide +kernel, by decide +kernel⟩⟩
  have h10 : balMesh.Linked 1 0 := ⟨0, by decide +kernel, Or.inr ⟨by decide +kernel, by decide +kernel⟩⟩
  have h02 : balMesh.Linked 0 2 := ⟨1, by decide +kernel, Or.inl ⟨by decide +kernel, by decide +kernel⟩⟩
  have h20 : balMesh.Linked 2 0 := ⟨1, by decide +kernel, Or.inr ⟨by decide +kernel, by decide +kernel⟩⟩
  have to0 : ∀ i, i < 3 → Relation.ReflTransGen balMesh.Linked i 0 := by
    intro i hi
    have : i = 0 ∨ i = 1 ∨ i = 2 := by omega
    rcases this with rfl | rfl | rfl
    · exact .refl
    · exact .single h10
    · exact .single h20
  have from0 : ∀ j, j < 3 → Relation.ReflTransGen balMesh.Linked 0 j := by
    intro j hj
    have : j = 0 ∨ j = 1 ∨ j = 2 := by omega
    rcases this with rfl | rfl | rfl
    · exact .refl
    · exact .single h01
    · exact .single h02
  exact (to0 i (by omega)).trans (from0 j (by omega))

/-- all hypotheses of `pressureSystem_kernel_zero` / `pressureSystem_unique` hold on `balMesh`, so the conclusion does:
    the zero-sum solution of its pressure system is unique -/
example (tens curv p q : List Rat) (hp : p.length = 3) (hq : q.length = 3)
    (hL : mulVec (balMesh.pressureSystem tens curv).lhs p = mulVec (balMesh.pressureSystem tens curv).lhs q)
    (hsp : p.sum = 0) (hsq : q.sum = 0) : p = q := by
  have hl : balMesh.cells.length = 3 := by decide +kernel
  have hrem : (balMesh.pressureSystem tens curv).removed = [] := by
    have : (balMesh.pressureSystem tens curv).removed = (balMesh.pressureSystem [] []).removed := by
      rw [removed_eq, removed_eq, lhs_eq, lhs_eq]
    rw [this]; decide +kernel
  exact pressureSystem_unique balMesh tens curv p q (by rw [hl]; exact hp) (by rw [hl]; exact hq)
    pressureSystem_balMesh_witness.2.2.2.2.2.2.2.2.1
    (fun i j hi hj _ _ => balMesh_connected i j hi hj) hL
    (by rw [hrem]; simp) (by rw [hrem]; simp) hsp hsq

/-- b on `balMesh`, equation 2 (interface `[3, 0]`, own cells 1 and 2, cell 1 stored with negative area sign):
    `−(p₁ − p₂) = tension × turning` -/
example (tens curv p : List Rat) (hp : p.length = 3) :
    dot ((balMesh.pressureSystem tens curv).lhs.getD 2 []) p = -1 * (p.getD 1 0 - p.getD 2 0) ∧
    (balMesh.pressureSystem tens curv).rhs.getD 2 0 = tens.getD 2 0 * curv.getD 2 0 := by
  have hl : balMesh.cells.length = 3 := by decide +kernel
  have h := pressureSystem_row balMesh tens curv 2 (by decide +kernel) (by decide +kernel) p (by rw [hl]; exact hp)
  have e1 : balMesh.cellPos (balMesh.eqCellA 2) = 1 := by decide +kernel
  have e2 : balMesh.cellPos (balMesh.eqCellB 2) = 2 := by decide +kernel
  have e3 : balMesh.eqSign 2 = -1 := by decide +kernel
  have e4 : balMesh.eqIdx 2 = 2 := by decide +kernel
  rw [e1, e2, e3, e4] at h
  exact ⟨h.2.2.2.2.2.1, h.2.2.2.2.2.2⟩

/-- the lens tissue plus a lone triangle (cell 7, stored at position 1 of the dictionary) that touches nothing -/
def lensPlus : Mesh := Mesh.ofLists
  [(0,0,0),(1,4,0),(2,2,1),(3,-4,-3),(4,8,-3),(5,2,5),(6,2,-5),(7,20,0),(8,21,0),(9,20,1)]
  [(0,0,2),(1,2,1),(2,0,1),(3,3,0),(4,1,4),(5,4,5),(6,5,3),(7,3,6),(8,6,4),(9,7,8),(10,8,9),(11,9,7)]
  [(0,[0,2,1]),(7,[7,8,9]),(1,[3,0,2,1,4,5]),(2,[3,6,4,1,0])]

/-- d computed: the column of the lone cell (position 1, key 7) is removed, it is an own cell of no internal interface;
    the hypotheses of `pressureSystem_removed_iff_cells` hold; the re-inserted pressure of cell 7 is `0` -/
theorem pressureSystem_removed_witness :
    lensPlus.Consistent = true ∧ lensPlus.cellKeys = [0, 7, 1, 2] ∧
    lensPlus.pressureSystem [3, 7/5, 4, 4, 1, 1] [1/2, 0, 0, 0, 9, 9]
      = { internal := [0, 1, 2, 3], ownCellCounts := [2, 2, 2, 2],
          lhs := [[1, 0, -1, 0], [1, 0, 0, -1], [0, 0, -1, 1], [0, 0, -1, 1]], rhs := [3/2, 0, 0, 0],
          removed := [1] } ∧
    lensPlus.cellKeys.Nodup ∧
    (∀ k, k < lensPlus.nEq → (7 : Id) ∉ lensPlus.eqOwnCells k) ∧
    (∀ k, k < lensPlus.nEq → lensPlus.EqOk k) ∧
    dropColumns (lensPlus.pressureSystem [3, 7/5, 4, 4, 1, 1] [1/2, 0, 0, 0, 9, 9]).lhs [1]
      = [[1, -1, 0], [1, 0, -1], [0, -1, 1], [0, -1, 1]] ∧
    reinsertZeros 4 [1] [1, -1/2, -1/2] = [1, 0, -1/2, -1/2] := by
  decide +kernel

/-- hypothesis `hlen` of `pressureSystem_removed_pressure` on `lensPlus`, and its conclusion -/
example : (reinsertZeros lensPlus.cells.length (lensPlus.pressureSystem [3, 7/5, 4, 4, 1, 1] [1/2, 0, 0, 0, 9, 9]).removed
    [1, -1/2, -1/2]).getD 1 1 = 0 :=
  (pressureSystem_removed_pressure lensPlus _ _ [1, -1/2, -1/2] (by decide +kernel)).2 1 (by decide +kernel)

/-- `hlen` of `pressureSystem_reduced` on `lensPlus` (three kept columns, one removed), and both sides computed -/
example : mulVec (dropColumns (lensPlus.pressureSystem [3, 7/5, 4, 4, 1, 1] [1/2, 0, 0, 0, 9, 9]).lhs
      (lensPlus.pressureSystem [3, 7/5, 4, 4, 1, 1] [1/2, 0, 0, 0, 9, 9]).removed) [1, -1/2, -1/2]
    = mulVec (lensPlus.pressureSystem [3, 7/5, 4, 4, 1, 1] [1/2, 0, 0, 0, 9, 9]).lhs [1, 0, -1/2, -1/2] ∧
    ([1, -1/2, -1/2] : List Rat).length
      + (lensPlus.pressureSystem [3, 7/5, 4, 4, 1, 1] [1/2, 0, 0, 0, 9, 9]).removed.length = lensPlus.cells.length := by
  decide +kernel

/-- the cells of `lensPlus` that have an equation (columns 0, 2, 3) are connected by internal interfaces -/
theorem lensPlus_connected (i j : Nat) (hi : i < 4) (hj : j < 4) (hi1 : i ≠ 1) (hj1 : j ≠ 1) :
    Relation.ReflTransGen lensPlus.Linked i j := by
  have h02 : lensPlus.Linked 0 2 := ⟨0, by decide +kernel, Or.inl ⟨by decide +kernel, by decide +kernel⟩⟩
  have h20 : lensPlus.Linked 2 0 := ⟨0, by decide +kernel, Or.inr ⟨by decide +kernel, by decide +kernel⟩⟩
  have h03 : lensPlus.Linked 0 3 := ⟨1, by decide +kernel, Or.inl ⟨by decide +kernel, by decide +kernel⟩⟩
  have h30 : lensPlus.Linked 3 0 := ⟨1, by decide +kernel, Or.inr ⟨by decide +kernel, by decide +kernel⟩⟩
  have to0 : ∀ i, i < 4 → i ≠ 1 → Relation.ReflTransGen lensPlus.Linked i 0 := by
    intro i hi h1
    have : i = 0 ∨ i = 2 ∨ i = 3 := by omega
    rcases this with rfl | rfl | rfl
    · exact .refl
    · exact .single h20
    · exact .single h30
  have from0 : ∀ j, j < 4 → j ≠ 1 → Relation.ReflTransGen lensPlus.Linked 0 j := by
    intro j hj h1
    have : j = 0 ∨ j = 2 ∨ j = 3 := by omega
    rcases this with rfl | rfl | rfl
    · exact .refl
    · exact .single h02
    · exact .single h03
  exact (to0 i hi hi1).trans (from0 j hj hj1)

/-- all hypotheses of `pressureSystem_reduced_unique` hold on `lensPlus` (one removed column), so its conclusion does -/
example (tens curv sol sol' : List Rat) (hl : sol.length = 3) (hl' : sol'.length = 3)
    (hL : mulVec (dropColumns (lensPlus.pressureSystem tens curv).lhs (lensPlus.pressureSystem tens curv).removed) sol
      = mulVec (dropColumns (lensPlus.pressureSystem tens curv).lhs (lensPlus.pressureSystem tens curv).removed) sol')
    (hs : sol.sum = 0) (hs' : sol'.sum = 0) : sol = sol' := by
  have hn : lensPlus.cells.length = 4 := by decide +kernel
  have hrem : (lensPlus.pressureSystem tens curv).removed = [1] := by
    have : (lensPlus.pressureSystem tens curv).removed = (lensPlus.pressureSystem [] []).removed := by
      rw [removed_eq, removed_eq, lhs_eq, lhs_eq]
    rw [this]; decide +kernel
  refine pressureSystem_reduced_unique lensPlus tens curv sol sol' (by rw [hrem, hn, hl]; rfl)
    (by rw [hrem, hn, hl']; rfl) pressureSystem_removed_witness.2.2.2.2.2.1 ?_ hL hs hs'
  intro i j hi hj hri hrj
  rw [hrem] at hri hrj
  rw [hn] at hi hj
  exact lensPlus_connected i j hi hj (by simpa using hri) (by simpa using hrj)

/-- e computed on `balMesh`.  Reversing cell 0 (the lens, `own_cells[0]` of the arc and of the chord): both interfaces are
    now stored backwards (`[1, 2, 0]`, `[0, 1]`), their turnings change sign (input: `−1/2`), rows 0 and 1 are negated and
    so are the right-hand sides — the same constraints.  Reversing cell 1 (`own_cells[0]` of the two spokes): the spokes
    are stored backwards and swap places, their rows are negated.  Reversing cell 2 (`own_cells[0]` of no internal
    interface): the system is literally the same -/
theorem pressureSystem_reverse_cell_computed :
    (balMesh.reverseCell 0).bigEdgesList = [[1, 2, 0], [0, 1], [3, 0], [1, 4], [4, 5, 3], [3, 6, 4]] ∧
    (balMesh.reverseCell 0).pressureSystem [3, 7/5, 4, 4, 1, 1] [-1/2, 0, 0, 0, 9, 9]
      = { internal := [0, 1, 2, 3], ownCellCounts := [2, 2, 2, 2],
          lhs := [[-1, 1, 0], [-1, 0, 1], [0, -1, 1], [0, -1, 1]], rhs := [-3/2, 0, 0, 0], removed := [] } ∧
    (balMesh.reverseCell 1).bigEdgesList = [[0, 2, 1], [1, 0], [4, 1], [0, 3], [3, 5, 4], [3, 6, 4]] ∧
    (balMesh.reverseCell 1).pressureSystem [3, 7/5, 4, 4, 1, 1] [1/2, 0, 0, 0, 9, 9]
      = { internal := [0, 1, 2, 3], ownCellCounts := [2, 2, 2, 2],
          lhs := [[1, -1, 0], [1, 0, -1], [0, 1, -1], [0, 1, -1]], rhs := [3/2, 0, 0, 0], removed := [] } ∧
    (balMesh.reverseCell 2).pressureSystem [3, 7/5, 4, 4, 1, 1] [1/2, 0, 0, 0, 9, 9]
      = balMesh.pressureSystem [3, 7/5, 4, 4, 1, 1] [1/2, 0, 0, 0, 9, 9] := by
  decide +kernel

/-- all hypotheses of `pressureSystem_reverse_cell_partial` hold for cell 0 of `balMesh`, equation 0 (the arc) on both
    sides, turning `1/2` before and `−1/2` after -/
example (p : List Rat) :
    (dot (((balMesh.reverseCell 0).pressureSystem [3, 7/5, 4, 4, 1, 1] [-1/2, 0, 0, 0, 9, 9]).lhs.getD 0 []) p
        = ((balMesh.reverseCell 0).pressureSystem [3, 7/5, 4, 4, 1, 1] [-1/2, 0, 0, 0, 9, 9]).rhs.getD 0 0) ↔
    (dot ((balMesh.pressureSystem [3, 7/5, 4, 4, 1, 1] [1/2, 0, 0, 0, 9, 9]).lhs.getD 0 []) p
        = (balMesh.pressureSystem [3, 7/5, 4, 4, 1, 1] [1/2, 0, 0, 0, 9, 9]).rhs.getD 0 0) :=
  pressureSystem_reverse_cell_partial 0 balMesh _ _ _ _ 0 0 (by decide +kernel) (by decide +kernel)
    (by decide +kernel) (by decide +kernel) (by decide +kernel) (by decide +kernel) (by decide +kernel) p

/-- the lens tissue with its cell dictionary stored in the order 2, 1, 0 — the `ownCells` lists of the vertices keep the
    creation order 0, 1, 2 -/
def balMeshRev : Mesh := balMesh.permuteCells balMesh.cells.reverse

/-- the orientation clause FAILS at system level when the dictionary order and the `ownCells` order disagree: in the
    consistent mesh `balMeshRev` the arc `[0, 2, 1]` is produced by the walk of cell 1 (first in the dictionary), the
    sign of its row comes from cell 0 (first in `ownCells` of the middle vertex 2).  Reversing the stored cycle of cell 0
    (cycle without repeated vertex, area ≠ 0) leaves the interface list — every stored direction, hence every turning —
    literally unchanged, yet negates the row of the arc: the equation `p₀ − p₁ = 3/2` (columns in the order 2, 1, 0)
    becomes `p₁ − p₀ = 3/2`: `p = (0, −3/4, 3/4)` satisfies the first and not the second.  With right-hand sides that make
    the original system exactly solvable (`r = (0, 3/2, 0, 3/2)`), its zero-sum solution `(−1/2, −1/2, 1)` does not
    solve the variant -/
theorem pressureSystem_reverse_cell_witness :
    balMeshRev.Consistent = true ∧ (balMeshRev.reverseCell 0).Consistent = true ∧
    balMeshRev.cellKeys = [2, 1, 0] ∧
    (balMeshRev.reverseCell 0).bigEdgesList = balMeshRev.bigEdgesList ∧
    balMeshRev.bigEdgesList = [[3, 6, 4], [4, 1], [1, 0], [0, 3], [0, 2, 1], [4, 5, 3]] ∧
    balMeshRev.pressureSystem [1, 4, 7/5, 4, 3, 1] [9, 0, 0, 0, 1/2, 9]
      = { internal := [1, 2, 3, 4], ownCellCounts := [2, 2, 2, 2],
          lhs := [[1, -1, 0], [-1, 0, 1], [1, -1, 0], [0, -1, 1]], rhs := [0, 0, 0, 3/2], removed := [] } ∧
    (balMeshRev.reverseCell 0).pressureSystem [1, 4, 7/5, 4, 3, 1] [9, 0, 0, 0, 1/2, 9]
      = { internal := [1, 2, 3, 4], ownCellCounts := [2, 2, 2, 2],
          lhs := [[1, -1, 0], [1, 0, -1], [1, -1, 0], [0, 1, -1]], rhs := [0, 0, 0, 3/2], removed := [] } ∧
    dot ((balMeshRev.pressureSystem [1, 4, 7/5, 4, 3, 1] [9, 0, 0, 0, 1/2, 9]).lhs.getD 3 []) [0, -3/4, 3/4]
      = (balMeshRev.pressureSystem [1, 4, 7/5, 4, 3, 1] [9, 0, 0, 0, 1/2, 9]).rhs.getD 3 0 ∧
    dot (((balMeshRev.reverseCell 0).pressureSystem [1, 4, 7/5, 4, 3, 1] [9, 0, 0, 0, 1/2, 9]).lhs.getD 3 []) [0, -3/4, 3/4]
      ≠ ((balMeshRev.reverseCell 0).pressureSystem [1, 4, 7/5, 4, 3, 1] [9, 0, 0, 0, 1/2, 9]).rhs.getD 3 0 ∧
    mulVec (balMeshRev.pressureSystem [1, 1, 1, 1, 1, 1] [9, 0, 3/2, 0, 3/2, 9]).lhs [-1/2, -1/2, 1]
      = (balMeshRev.pressureSystem [1, 1, 1, 1, 1, 1] [9, 0, 3/2, 0, 3/2, 9]).rhs ∧
    mulVec ((balMeshRev.reverseCell 0).pressureSystem [1, 1, 1, 1, 1, 1] [9, 0, 3/2, 0, 3/2, 9]).lhs [-1/2, -1/2, 1]
      ≠ ((balMeshRev.reverseCell 0).pressureSystem [1, 1, 1, 1, 1, 1] [9, 0, 3/2, 0, 3/2, 9]).rhs ∧
    balMeshRev.eqInterface 3 = [0, 2, 1] ∧ balMeshRev.eqOwnCells 3 = [0, 1] ∧
    (balMeshRev.cell? 0).map (·.verts) = some [0, 2, 1] ∧ area (balMeshRev.cellCycle 0) ≠ 0 := by
  decide +kernel

/-- DEGENERATE ROWS.  (1) equal own cells: `balMesh` with the `ownCells` list of the interior point 2 of the arc
    overwritten by `[0, 0]` (not a consistent mesh; `Vertex.add_cell` never stores a cell twice) -/
def dupCellsMesh : Mesh :=
  { balMesh with vertices := balMesh.vertices.map fun p =>
      if p.1 = 2 then (p.1, { p.2 with ownCells := [0, 0] }) else p }

/-- … the count is 2, so nothing flags the row; it has the single entry of the first cell: the "equation" constrains
    `p₀` itself, not a difference (`EqOk` fails).  (2) a missing own cell: in the consistent mesh `holeLattice`
    (Props/C08.lean, known finding D27) the rim interface `[6, 5]` — equation 3 — has the single own cell 1; the count is
    1 (the code raises `ValueError`), the model's row pairs cell 1 with the stand-in id `0`, which happens to be a key:
    the row `[1, −1, 0, …]` is meaningless and is flagged only by `ownCellCounts` (the first clause of `EqOk`) -/
theorem pressureSystem_degenerate_witness :
    dupCellsMesh.eqOwnCells 0 = [0, 0] ∧ ¬ dupCellsMesh.EqOk 0 ∧
    dupCellsMesh.pressureSystem [3, 7/5, 4, 4, 1, 1] [1/2, 0, 0, 0, 9, 9]
      = { internal := [0, 1, 2, 3], ownCellCounts := [2, 2, 2, 2],
          lhs := [[1, 0, 0], [1, 0, -1], [0, -1, 1], [0, -1, 1]], rhs := [3/2, 0, 0, 0], removed := [] } ∧
    holeLattice.Consistent = true ∧ holeLattice.eqInterface 3 = [6, 5] ∧ holeLattice.eqOwnCells 3 = [1] ∧
    ¬ holeLattice.EqOk 3 ∧ holeLattice.eqCellA 3 = 1 ∧ holeLattice.eqCellB 3 = 0 ∧
    (holeLattice.pressureSystem [] []).ownCellCounts = [2, 2, 2, 1, 2, 1, 2, 2, 1, 2, 1, 2] ∧
    (holeLattice.pressureSystem [] []).lhs.getD 3 [] = [1, -1, 0, 0, 0, 0, 0, 0] ∧
    holeLattice.cellKeys = [0, 1, 2, 4, 6, 8, 9, 10] := by
  decide +kernel

/-- f computed: `balMesh` renumbered by `v ↦ 7 v + 3`, by the swap of the two junctions, with the vertex dictionary
    reversed, with an empty mesh-edge dictionary -/
example :
    (balMesh.mapV (· * 7 + 3)).pressureSystem [3, 7/5, 4, 4, 1, 1] [1/2, 0, 0, 0, 9, 9]
      = balMesh.pressureSystem [3, 7/5, 4, 4, 1, 1] [1/2, 0, 0, 0, 9, 9] ∧
    (balMesh.mapV swap01).pressureSystem [3, 7/5, 4, 4, 1, 1] [1/2, 0, 0, 0, 9, 9]
      = balMesh.pressureSystem [3, 7/5, 4, 4, 1, 1] [1/2, 0, 0, 0, 9, 9] ∧
    (balMesh.permuteVertices balMesh.vertices.reverse).pressureSystem [3, 7/5, 4, 4, 1, 1] [1/2, 0, 0, 0, 9, 9]
      = balMesh.pressureSystem [3, 7/5, 4, 4, 1, 1] [1/2, 0, 0, 0, 9, 9] ∧
    (balMesh.permuteEdges []).pressureSystem [3, 7/5, 4, 4, 1, 1] [1/2, 0, 0, 0, 9, 9]
      = balMesh.pressureSystem [3, 7/5, 4, 4, 1, 1] [1/2, 0, 0, 0, 9, 9] ∧
    Mesh.keysNodup balMesh.vertices = true := by
  decide +kernel

/-- c: hypothesis `hlen` of `pressureSystem_add` -/
example : ([3, 7/5, 4, 4, 1, 1] : List Rat).length = ([1, 1, 1, 1, 0, 0] : List Rat).length := rfl

/- PENDING: the orientation clause as a theorem about whole meshes (not proved; the unrestricted statement is false,
   `pressureSystem_reverse_cell_witness`).

   theorem pressureSystem_reverse_cell (cid : Id) (m : Mesh) (hc : m.Consistent = true)
       (hord : ∀ e ∈ m.bigEdgesList, (∀ v ∈ e, 2 ≤ (m.ownCells v).length) → m.endJunction3 e = true →
         -- the cell that carries the sign of the row of `e` is the first cell of the dictionary whose walk produces `e`
         ∃ pre c post, m.cells = pre ++ (c.id, c) :: post ∧ (m.bigEdgeOwnCells e).getD 0 0 = c.id ∧
           memRev e (cellPaths m.isJunction c.verts) ∧ ∀ q ∈ pre, ¬ memRev e (cellPaths m.isJunction q.2.verts))
       (hplanar : ∀ e ∈ m.bigEdgesList, m.bigEdgeOwnCells e.reverse = m.bigEdgeOwnCells e)
       (harea : area (m.cellCycle cid) ≠ 0)
       (τ κ : List Id → Rat) (hτ : ∀ e, τ e.reverse = τ e) (hκ : ∀ e, κ e.reverse = - κ e) (p : List Rat) :
       mulVec ((m.reverseCell cid).pressureSystem ((m.reverseCell cid).bigEdgesList.map τ)
             ((m.reverseCell cid).bigEdgesList.map κ)).lhs p
           = ((m.reverseCell cid).pressureSystem ((m.reverseCell cid).bigEdgesList.map τ)
             ((m.reverseCell cid).bigEdgesList.map κ)).rhs ↔
         mulVec (m.pressureSystem (m.bigEdgesList.map τ) (m.bigEdgesList.map κ)).lhs p
           = (m.pressureSystem (m.bigEdgesList.map τ) (m.bigEdgesList.map κ)).rhs   -- up to the order of the equations

   Proved towards it: `reverseCell_effects`, `interfaceRow_reverseCell`, `ownCells_reverse_odd`,
   `pressureSystem_reverse_cell_partial` (one equation, hypothesis `hκ` in place of `hord`), C07order
   `bigEdgesList_reverseCell` / `exists_perm_rev_reverseCell` (the interface lists agree up to order and direction).
   Missing: `hord` ⇒ "an interface is stored backwards in the variant iff `own_cells[0] = cid`", and the transport of
   `internalIdx` along the matching of the two interface lists. -/

end Forsys
