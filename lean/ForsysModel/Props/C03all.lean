/-
  Umbrella of property C03: the abstract recovery theorems for an exact right-hand side and the rounding bounds
  (Props/C03.lean) and the link to the assembled matrix — the model's normalised matrix maps the true tensions to the
  velocity right-hand side `set_velocity_matrix` builds, end-to-end dynamic recovery, time-step independence
  (Props/C03matrix.lean); the quantitative bounds for the right-hand side rounded to three decimals and a certified
  solver output (Props/C05bound.lean: dynamic_rounded_recovery, dynamic_rounded_certified_recovery).
  lean/props.json names this module for C03, so that `./check C03` builds and audits both.
-/
import ForsysModel.Props.C03
import ForsysModel.Props.C03matrix
import ForsysModel.Props.C13relabel
import ForsysModel.Props.C12relabel
import ForsysModel.Props.C05bound
import ForsysModel.Props.C03more
