/-
  Property C17 — myosin quantification is a normalised, linear window statistic of the image.
  Property theorems only (helper lemmas live in ForsysModel/Proofs/C17.lean).
  Model: ForsysModel/Model/Myosin.lean (get_intensities, get_intensity, get_layer_elements,
  get_interpolation, walk_two_vertices of forsys/myosin.py).

  Reading of the clause "equal for all interfaces of a uniformly bright image": with integration the
  statistic is (number of band pixels)·k / length, which is not constant; the clause is stated for
  the non-integrated window statistic (`uniform_equal`).
-/
import ForsysModel.Model.Myosin
import ForsysModel.Proofs.C17

namespace Forsys.Myosin

/-! ### clause 1a: the window is the (2·layers+1)² square of positions centred on the placed vertex -/

theorem layerElements_length (p : Pt) (L : Nat) :
    (getLayerElements p L).length = (2 * L + 1) * (2 * L + 1) := by
  exact layerElements_length' p L

theorem mem_layerElements (p q : Pt) (L : Nat) :
    q ∈ getLayerElements p L ↔
      ∃ i j : Int, -(L : Int) ≤ i ∧ i ≤ L ∧ -(L : Int) ≤ j ∧ j ≤ L ∧ q = ⟨p.x + (i : Rat), p.y + (j : Rat)⟩ := by
  exact mem_layerElements' p q L

/-- the window never lists a position twice -/
theorem layerElements_nodup (p : Pt) (L : Nat) : (getLayerElements p L).Nodup := by
  exact layerElements_nodup' p L

/-! ### clause 1b: the median is the order statistic of the window, the statistic is the mean over vertices -/

theorem sort_perm (l : List Rat) : (sort l).Perm l := by
  exact sort_perm' l

theorem sort_sorted (l : List Rat) : (sort l).Pairwise (· ≤ ·) := by
  exact sort_sorted' l

theorem median_odd (l : List Rat) (h : l.length % 2 = 1) :
    median l = (sort l).getD (l.length / 2) 0 := by
  exact median_odd' l h

theorem median_even (l : List Rat) (h0 : l ≠ []) (h : l.length % 2 = 0) :
    median l = ((sort l).getD (l.length / 2 - 1) 0 + (sort l).getD (l.length / 2) 0) / 2 := by
  exact median_even' l h0 h

/-- without integration: mean over the vertices of the median of the window centred on the vertex
    after rescale and offset -/
theorem windowStat_eq (img : Image) (prm : Params) (f : Iface) :
    rawIntensity img prm false f =
      mean (f.verts.map fun v =>
        median ((getLayerElements ⟨v.x * prm.rx + prm.ox, v.y * prm.ry + prm.oy⟩ prm.layers).map (getpixel img))) := by
  exact windowStat_eq' img prm f

/-- with integration: sum over the band positions divided by the polyline length -/
theorem integrated_eq (img : Image) (prm : Params) (f : Iface) :
    rawIntensity img prm true f = ((band prm f.verts).map (getpixel img)).sum / f.len := by
  exact integrated_eq' img prm f

/-- the length terms are the squared segment lengths of the rescaled/offset polyline -/
theorem segSq_length (prm : Params) (verts : List Pt) : (segSq prm verts).length = verts.length - 1 := by
  exact segSq_length' prm verts

/-! ### clause 1c: the band -/

theorem mem_distinct (a : Pt) (l : List Pt) : a ∈ distinct l ↔ a ∈ l := by
  exact mem_distinct' a l

theorem distinct_nodup (l : List Pt) : (distinct l).Nodup := by
  exact distinct_nodup' l

/-- the positions visited between two (ceiled) vertices: start included, end excluded -/
theorem mem_walkRange (a0 a1 v : Int) :
    v ∈ walkRange a0 a1 ↔ (a0 ≤ v ∧ v < a1) ∨ (a1 < v ∧ v ≤ a0) := by
  exact mem_walkRange' a0 a1 v

/-- the interpolation is the chord through the two vertices, whatever their order -/
theorem interp_chord (a0 b0 a1 b1 v : Int) (h : a0 ≠ a1) :
    interp a0 b0 a1 b1 v = (b0 : Rat) + ((b1 : Rat) - b0) * ((v : Rat) - a0) / ((a1 : Rat) - a0) := by
  exact interp_chord' a0 b0 a1 b1 v h

theorem mem_band (prm : Params) (verts : List Pt) (p : Pt) :
    p ∈ band prm verts ↔
      ∃ s ∈ consec (verts.map (place prm)), ∃ c ∈ walkCentres (ceilPt s.1) (ceilPt s.2),
        ∃ q ∈ getLayerElements c prm.layers, p = toPixel q := by
  exact mem_band' prm verts p

/-- band = set: no element is summed twice -/
theorem band_nodup (prm : Params) (verts : List Pt) : (band prm verts).Nodup := by
  exact band_nodup' prm verts

/-- the band elements are pixels: `getpixel` reads each from itself … -/
theorem pixelOf_toPixel (q : Pt) : pixelOf (toPixel q) = pixelOf q := by
  exact pixelOf_toPixel' q

/-- … and no *pixel* is summed twice (unconditional since repair 5a78257 of defect D22) -/
theorem band_pixels_nodup (prm : Params) (verts : List Pt) : ((band prm verts).map pixelOf).Nodup := by
  exact band_pixels_nodup' prm verts

/-- the repair changed multiplicities only: the band covers the same pixels as before -/
theorem band_pixels_eq_upstream (prm : Params) (verts : List Pt) (xy : Int × Int) :
    xy ∈ (band prm verts).map pixelOf ↔ xy ∈ (bandUpstream prm verts).map pixelOf := by
  exact band_pixels_eq_upstream' prm verts xy

/-! #### the band before repair 5a78257 (defect D22, corpus/C17/fractional_band.json)
    FULL STATEMENT (false for the upstream code, see the witness):
      theorem bandUpstream_pixels_nodup (prm : Params) (verts : List Pt) : ((bandUpstream prm verts).map pixelOf).Nodup
    The upstream set held float positions, not pixels: two positions with different fractional parts are read from
    the same pixel, so a pixel could enter the sum more than once. -/

/-- upstream: no pixel summed twice only if every band position has integer coordinates
    (polylines whose ceiled segments are axis-parallel or diagonal) -/
theorem bandUpstream_pixels_nodup_partial (prm : Params) (verts : List Pt)
    (h : ∀ p ∈ bandUpstream prm verts, ((p.x.floor : Int) : Rat) = p.x ∧ ((p.y.floor : Int) : Rat) = p.y) :
    ((bandUpstream prm verts).map pixelOf).Nodup := by
  exact bandUpstream_pixels_nodup_partial' prm verts h

/-- counterexample for the upstream band: the segment (2,2)→(8,5) with one layer (46 positions, 28 pixels) -/
theorem bandUpstream_pixels_nodup_witness :
    ¬ ((bandUpstream { layers := 1 } [⟨2, 2⟩, ⟨8, 5⟩]).map pixelOf).Nodup := by
  decide +kernel

/-- the same input on the repaired band: 28 elements -/
theorem band_witness_repaired : (band { layers := 1 } [⟨2, 2⟩, ⟨8, 5⟩]).length = 28 := by
  decide +kernel

/-! non-vacuity of the hypothesis of `bandUpstream_pixels_nodup_partial`: an L-shaped axis-parallel polyline, two layers -/
example : ∀ p ∈ bandUpstream { layers := 2 } [⟨3, 3⟩, ⟨7, 3⟩, ⟨7, 9⟩],
    ((p.x.floor : Int) : Rat) = p.x ∧ ((p.y.floor : Int) : Rat) = p.y := by
  decide +kernel

/-! ### clause 2: linearity in the image -/

theorem getpixel_scale (c : Rat) (img : Image) (p : Pt) :
    getpixel (img.scale c) p = c * getpixel img p := by
  exact getpixel_scale' c img p

theorem median_scale (c : Rat) (hc : 0 ≤ c) (l : List Rat) :
    median (l.map fun v => c * v) = c * median l := by
  exact median_scale' c hc l

theorem bandSum_scale (c : Rat) (img : Image) (b : List Pt) :
    bandSum (img.scale c) b = c * bandSum img b := by
  exact bandSum_scale' c img b

/-- both branches: the un-normalised intensity of an interface scales with the image -/
theorem rawIntensity_scale (c : Rat) (hc : 0 ≤ c) (img : Image) (prm : Params) (integrate : Bool) (f : Iface) :
    rawIntensity (img.scale c) prm integrate f = c * rawIntensity img prm integrate f := by
  exact rawIntensity_scale' c hc img prm integrate f

theorem intensity_scale (c : Rat) (hc : 0 ≤ c) (img : Image) (prm : Params) (integrate : Bool) (ifs : List Iface) :
    intensityValues (img.scale c) prm integrate .none ifs =
      (intensityValues img prm integrate .none ifs).map fun v => c * v := by
  exact intensity_scale' c hc img prm integrate ifs

/-- under 'average' normalisation the result does not depend on the brightness scale -/
theorem intensity_scale_average (c : Rat) (hc : 0 < c) (img : Image) (prm : Params) (integrate : Bool)
    (ifs : List Iface) :
    intensityValues (img.scale c) prm integrate .average ifs = intensityValues img prm integrate .average ifs := by
  exact intensity_scale_average' c hc img prm integrate ifs

/-! ### clause 3: uniformly bright image (non-integrated statistic) -/

def uniformImage (w h : Nat) (k : Rat) : Image := ⟨List.replicate h (List.replicate w k)⟩

theorem getpixel_uniform (w h : Nat) (k : Rat) (p : Pt) (hp : (uniformImage w h k).inside p = true) :
    getpixel (uniformImage w h k) p = k := by
  exact getpixel_uniform' w h k p hp

theorem median_const (l : List Rat) (k : Rat) (h0 : l ≠ []) (hk : ∀ x ∈ l, x = k) : median l = k := by
  exact median_const' l k h0 hk

/-- if every window pixel of the interface shows the value `k`, the interface's intensity is `k` -/
theorem uniform_equal (img : Image) (prm : Params) (verts : List Pt) (k : Rat) (hv : verts ≠ [])
    (h : ∀ v ∈ verts, ∀ p ∈ getLayerElements (place prm v) prm.layers, getpixel img p = k) :
    windowStat img prm verts = k := by
  exact uniform_equal' img prm verts k hv h

/-- all interfaces of a uniformly bright image get the same value (the brightness) -/
theorem uniform_equal_all (w h : Nat) (k : Rat) (prm : Params) (ifs : List Iface)
    (hv : ∀ f ∈ ifs, f.verts ≠ [])
    (hin : ∀ f ∈ ifs, ∀ v ∈ f.verts, ∀ p ∈ getLayerElements (place prm v) prm.layers,
      (uniformImage w h k).inside p = true) :
    intensityValues (uniformImage w h k) prm false .none ifs = List.replicate ifs.length k := by
  exact uniform_equal_all' w h k prm ifs hv hin

/-! non-vacuity of the hypotheses of `uniform_equal_all` -/
example : ∀ f ∈ [(⟨0, [⟨2, 2⟩, ⟨5/2, 3⟩], 1⟩ : Iface)], ∀ v ∈ f.verts,
    ∀ p ∈ getLayerElements (place { layers := 1 } v) 1, (uniformImage 6 6 7).inside p = true := by
  decide +kernel

/-! ### clause 4: 'average' normalisation -/

theorem average_mean_one (img : Image) (prm : Params) (integrate : Bool) (ifs : List Iface)
    (h : mean (rawIntensities img prm integrate ifs) ≠ 0) :
    mean (intensityValues img prm integrate .average ifs) = 1 := by
  exact average_mean_one' img prm integrate ifs h

/-! non-vacuity of `average_mean_one` -/
example : mean (rawIntensities (uniformImage 6 6 7) { layers := 1 } false
    [(⟨0, [⟨2, 2⟩, ⟨5/2, 3⟩], 1⟩ : Iface)]) ≠ 0 := by
  decide +kernel

/-! ### clause 5: keyed by list position, written back in the order given -/

theorem keys_in_order (img : Image) (prm : Params) (integrate : Bool) (norm : Norm) (ifs : List Iface) :
    (getIntensities img prm integrate norm ifs).map (·.1) = List.range ifs.length := by
  exact keys_in_order' img prm integrate norm ifs

theorem values_in_order (img : Image) (prm : Params) (integrate : Bool) (norm : Norm) (ifs : List Iface) :
    (getIntensities img prm integrate norm ifs).map (·.2) = intensityValues img prm integrate norm ifs := by
  exact values_in_order' img prm integrate norm ifs

theorem lookup_key (img : Image) (prm : Params) (integrate : Bool) (norm : Norm) (ifs : List Iface) (i : Nat) :
    (getIntensities img prm integrate norm ifs).lookup i = (intensityValues img prm integrate norm ifs)[i]? := by
  exact lookup_key' img prm integrate norm ifs i

/-- every interface of the list — also one that occurs several times — ends up with the value
    stored under its own position(s) as reference value.  `hid`: equal object identities mean the same object. -/
theorem writeback_order (img : Image) (prm : Params) (integrate : Bool) (norm : Norm) (ifs : List Iface)
    (hid : ∀ f ∈ ifs, ∀ g ∈ ifs, f.oid = g.oid → f = g) (i : Nat) (hi : i < ifs.length) :
    gtAfter img prm integrate norm ifs (ifs[i]).oid = (intensityValues img prm integrate norm ifs)[i]? := by
  exact writeback_order' img prm integrate norm ifs hid i hi

/-- objects that are not in the list are not written -/
theorem writeback_only_listed (img : Image) (prm : Params) (integrate : Bool) (norm : Norm) (ifs : List Iface)
    (oid : Nat) (h : ∀ f ∈ ifs, f.oid ≠ oid) :
    gtAfter img prm integrate norm ifs oid = none := by
  exact writeback_only_listed' img prm integrate norm ifs oid h

/-! non-vacuity of `hid` with a repeated interface (the input on which the pinned upstream code raised
    `KeyError` through `big_edges.index`; corpus/C17/repeated_interface.json) -/
example :
    let f : Iface := ⟨0, [⟨2, 2⟩, ⟨4, 3⟩], 2⟩
    let g : Iface := ⟨1, [⟨1, 3⟩, ⟨3, 3⟩], 2⟩
    (∀ a ∈ [f, g, f], ∀ b ∈ [f, g, f], a.oid = b.oid → a = b) ∧
      (getIntensities (uniformImage 6 6 7) { layers := 1 } false .average [f, g, f]).map (·.1) = [0, 1, 2] := by
  decide +kernel

end Forsys.Myosin
