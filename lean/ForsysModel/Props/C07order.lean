/-
  Property C07, storage order at the level of the MESH — rotating or reversing the stored vertex cycle of a cell, or
  storing the cell dictionary in another order, changes the interface list of `create_edges_new` only by a permutation
  and by the direction in which individual interfaces are stored; the coefficient an interface places at a junction is
  the same vector in either direction, hence the least-squares objective, as a function of the tension per interface,
  is unchanged.

  Vocabulary (defined in Proofs/C07order.lean):
    `Mesh.rotateCell cid k m`      the vertex cycle of the cells stored under the key `cid` rotated by `k` places
                                   (`verts[k:] + verts[:k]`); vertices, mesh edges, all other cells and the order of
                                   the three dictionaries unchanged
    `Mesh.reverseCell cid m`       the vertex cycle of cell `cid` reversed
    `Mesh.permuteCells cells' m`   the cell dictionary replaced by `cells'`; the theorems assume `cells'.Perm m.cells`
    `SameInterfaces l₁ l₂`         `∀ p, memRev p l₁ ↔ memRev p l₂` — the same interfaces up to the direction each
                                   one is stored in (`memRev` of Props/C07.lean)
    `NodupRev l`                   no interface twice, in either direction
    `FMInput.centreOf earr centers e`  the centre the model reads for interface `e`: `centers[earr.index(e)]`
    `C07o.ColRel inp inp' earr earr' s u`  column `s` of the variant stands for column `u` of the original:
                                   `(s = u ∨ s = u.reverse) ∧ centreOf earr' inp'.centers s = centreOf earr inp.centers u`

  No side condition on the cells is needed for the interface list: a cell WITHOUT a junction contributes no interface at
  all (`cellPaths_none`, Props/C08.lean), whatever its rotation, so it cannot make the list depend on the start of its
  cycle (`junctionless_cell_witness` below).

  The junction test reads `len(v.ownEdges)`, the classification reads `len(v.ownCells)`: both lists are stored on the
  VERTEX objects, which none of the three variants touches; so they are unchanged by definition (`rfl`).
-/
import ForsysModel.Proofs.C07order
import ForsysModel.Props.C07matrix

namespace Forsys
open FMInput

/-! ### 1. the junction predicate (and every other per-vertex look-up) is unchanged -/

theorem isJunction_rotateCell (cid : Id) (k : Nat) (m : Mesh) (v : Id) :
    (m.rotateCell cid k).isJunction v = m.isJunction v := rfl

theorem isJunction_reverseCell (cid : Id) (m : Mesh) (v : Id) :
    (m.reverseCell cid).isJunction v = m.isJunction v := rfl

/-- (no hypothesis on `cells'` is needed here) -/
theorem isJunction_permuteCells (cells' : List (Id × Cell)) (m : Mesh) (v : Id) :
    (m.permuteCells cells').isJunction v = m.isJunction v := rfl

/-- the vertex dictionary — positions, `ownEdges`, `ownCells` — is literally the same -/
theorem vertices_storage_variants (cid : Id) (k : Nat) (cells' : List (Id × Cell)) (m : Mesh) :
    (m.rotateCell cid k).vertices = m.vertices ∧ (m.reverseCell cid).vertices = m.vertices ∧
    (m.permuteCells cells').vertices = m.vertices := ⟨rfl, rfl, rfl⟩

/-! ### 2. the interface list -/

/-- `create_edges_new` never lists an interface twice, in either direction -/
theorem bigEdgesList_nodupRev (m : Mesh) : NodupRev m.bigEdgesList := by
  exact dedup_pairwise _

/-- rotating the stored cycle of a cell: the same interfaces up to direction, the same number of them -/
theorem bigEdgesList_rotateCell (cid : Id) (k : Nat) (m : Mesh) :
    SameInterfaces (m.rotateCell cid k).bigEdgesList m.bigEdgesList ∧
    (m.rotateCell cid k).bigEdgesList.length = m.bigEdgesList.length := by
  have h := C07o.memRev_cand_mapCell cid (Cell.rotate k) m fun c p => C07o.memRev_rotate m.isJunction c.verts k p
  exact ⟨dedup_invariant _ _ h, dedup_length_invariant _ _ h⟩

/-- reversing the stored cycle of a cell -/
theorem bigEdgesList_reverseCell (cid : Id) (m : Mesh) :
    SameInterfaces (m.reverseCell cid).bigEdgesList m.bigEdgesList ∧
    (m.reverseCell cid).bigEdgesList.length = m.bigEdgesList.length := by
  have h := C07o.memRev_cand_mapCell cid Cell.reverse m fun c p => C07o.memRev_reverse m.isJunction c.verts p
  exact ⟨dedup_invariant _ _ h, dedup_length_invariant _ _ h⟩

/-- storing the cell dictionary in another order -/
theorem bigEdgesList_permuteCells (cells' : List (Id × Cell)) (m : Mesh) (hp : cells'.Perm m.cells) :
    SameInterfaces (m.permuteCells cells').bigEdgesList m.bigEdgesList ∧
    (m.permuteCells cells').bigEdgesList.length = m.bigEdgesList.length := by
  have h := C07o.memRev_cand_perm m.isJunction m.cells cells' hp
  exact ⟨dedup_invariant _ _ h, dedup_length_invariant _ _ h⟩

/-- the relation composes: any sequence of rotations, reversals and re-orderings -/
theorem sameInterfaces_trans (l₁ l₂ l₃ : List (List Id)) (h₁ : SameInterfaces l₁ l₂) (h₂ : SameInterfaces l₂ l₃) :
    SameInterfaces l₁ l₃ := fun p => (h₁ p).trans (h₂ p)

theorem sameInterfaces_symm (l₁ l₂ : List (List Id)) (h : SameInterfaces l₁ l₂) : SameInterfaces l₂ l₁ :=
  fun p => (h p).symm

/-! ### 3. an explicit matching of the columns -/

/-- two interface lists without repetition (up to direction) holding the same interfaces up to direction: a
    rearrangement `σ` of the first matches the second position by position, each interface equal or reversed -/
theorem sameInterfaces_exists_perm_rev (A B : List (List Id)) (hA : NodupRev A) (hB : NodupRev B)
    (h : SameInterfaces A B) :
    ∃ σ : List (List Id), σ.Perm A ∧ List.Forall₂ (fun a b => a = b ∨ a = b.reverse) σ B := by
  exact ⟨B.map (C07o.pick A), C07o.map_pick_perm A B hA hB h, C07o.forall₂_pick A B⟩

theorem exists_perm_rev_rotateCell (cid : Id) (k : Nat) (m : Mesh) :
    ∃ σ : List (List Id), σ.Perm (m.rotateCell cid k).bigEdgesList ∧
      List.Forall₂ (fun a b => a = b ∨ a = b.reverse) σ m.bigEdgesList := by
  exact sameInterfaces_exists_perm_rev _ _ (bigEdgesList_nodupRev _) (bigEdgesList_nodupRev _)
    (bigEdgesList_rotateCell cid k m).1

theorem exists_perm_rev_reverseCell (cid : Id) (m : Mesh) :
    ∃ σ : List (List Id), σ.Perm (m.reverseCell cid).bigEdgesList ∧
      List.Forall₂ (fun a b => a = b ∨ a = b.reverse) σ m.bigEdgesList := by
  exact sameInterfaces_exists_perm_rev _ _ (bigEdgesList_nodupRev _) (bigEdgesList_nodupRev _)
    (bigEdgesList_reverseCell cid m).1

theorem exists_perm_rev_permuteCells (cells' : List (Id × Cell)) (m : Mesh) (hp : cells'.Perm m.cells) :
    ∃ σ : List (List Id), σ.Perm (m.permuteCells cells').bigEdgesList ∧
      List.Forall₂ (fun a b => a = b ∨ a = b.reverse) σ m.bigEdgesList := by
  exact sameInterfaces_exists_perm_rev _ _ (bigEdgesList_nodupRev _) (bigEdgesList_nodupRev _)
    (bigEdgesList_permuteCells cells' m hp).1

/-! ### 4. the force matrix

  `inp'` is the variant input: ANY input with the same vertex dictionary (so the three storage variants of the mesh
  qualify, `vertices_storage_variants`) and the same `ignore_four`; `earr'`, `used'`, `tj'` its interface list, its
  unknowns and its junction list.  `FMInput.centers` is keyed by POSITION in the interface list, so the variant needs its
  own list `inp'.centers`; the hypothesis `hR` says, column by column, that the column `s` of the variant is the column
  `u` of the original, possibly reversed, and that the centre the variant reads for `s` (at the position of `s` in
  `earr'`) is the centre the original reads for `u` (at the position of `u` in `earr`).  `colRel_of_zip` derives `hR` from
  "the (interface, centre) pairs of the variant are those of the original up to order and direction".
  The candidate assigns a tension to every interface irrespective of its stored direction (`hτ`), the norms likewise
  (`hlen`).  No interface of `used` may be a closed loop (`hends`: C02 `vectorFromVertex_reverse` needs it, and it cannot
  be dropped: `entry_loop_witness`). -/

/-- entry `c` of the row pair of `vid`, for an arbitrary column list without repetition: the closed form of the
    column's label (generalises C02 `coefficient_placement_all` from the model's own column list to any list) -/
theorem vertexEquation_eq_map_label (inp : FMInput) (earr used : List (List Id)) (vid : Id)
    (hE : earr.Nodup) (hu : used.Nodup) :
    inp.vertexEquation earr used vid = used.map (entryOf inp earr vid) := by
  exact C07o.vertexEquation_eq_map_label inp earr used vid hE hu

/-- the coefficient placed for an interface at a junction is the same vector whichever way the interface is stored and
    wherever it stands in the interface list, provided the same centre is read for it -/
theorem entryOf_rev (inp inp' : FMInput) (earr earr' : List (List Id)) (vid : Id) (s u : List Id)
    (hv : inp'.mesh.vertices = inp.mesh.vertices) (hR : s = u ∨ s = u.reverse)
    (hends : u.head? ≠ u.getLast?)
    (hcen : centreOf earr' inp'.centers s = centreOf earr inp.centers u) :
    entryOf inp' earr' vid s = entryOf inp earr vid u := by
  exact C07o.entryOf_rev inp inp' earr earr' vid s u hv hR hends hcen

/-- … hence the row of every vertex is IDENTICAL when the columns are matched -/
theorem vertexEquation_rev (inp inp' : FMInput) (earr earr' used σ : List (List Id))
    (hv : inp'.mesh.vertices = inp.mesh.vertices)
    (hE : earr.Nodup) (hE' : earr'.Nodup) (hu : used.Nodup) (hσn : σ.Nodup)
    (hR : List.Forall₂ (C07o.ColRel inp inp' earr earr') σ used)
    (hends : ∀ u ∈ used, u.head? ≠ u.getLast?) (vid : Id) :
    inp'.vertexEquation earr' σ vid = inp.vertexEquation earr used vid := by
  exact C07o.vertexEquation_rev inp inp' earr earr' used σ hv hE hE' hu hσn hR hends vid

/-- the centres travel with the interfaces: if the (interface, centre) pairs of the variant are, up to order (`hρ`) and
    direction (`hρR`), the pairs of the original, then matched columns read the same centre -/
theorem colRel_of_zip (inp inp' : FMInput) (earr earr' used used' σ : List (List Id))
    (hE : earr.Nodup) (hE' : earr'.Nodup) (hN' : NodupRev earr')
    (hc : inp.centers.length = earr.length)
    (ρ : List (List Id × Pt)) (hρ : ρ.Perm (List.zip earr' inp'.centers))
    (hρR : List.Forall₂ (fun a b => (a.1 = b.1 ∨ a.1 = b.1.reverse) ∧ a.2 = b.2) ρ (List.zip earr inp.centers))
    (hsub : ∀ u ∈ used, u ∈ earr) (hsub' : ∀ s ∈ used', s ∈ earr')
    (hσ : σ.Perm used') (hσR : List.Forall₂ (fun s u => s = u ∨ s = u.reverse) σ used) :
    List.Forall₂ (C07o.ColRel inp inp' earr earr') σ used := by
  exact C07o.colRel_of_zip inp inp' earr earr' used used' σ hE hE' hN' hc ρ hρ hρR hsub hsub' hσ hσR

/-- `residSq_relabel` extended to interfaces stored in the other direction: the squared residual of the augmented
    system of the variant at the candidate `used'.map τ ++ [μ]` is that of the original at `used.map τ ++ [μ]` -/
theorem residSq_relabel_rev (inp inp' : FMInput) (earr earr' used used' σ : List (List Id)) (tj tj' : List Id)
    (len : Id → List Id → Rat) (τ : List Id → Rat) (μ : Rat)
    (hv : inp'.mesh.vertices = inp.mesh.vertices) (hig : inp'.ignoreFour = inp.ignoreFour)
    (hE : earr.Nodup) (hE' : earr'.Nodup) (hu : used.Nodup) (hu' : used'.Nodup)
    (hσ : σ.Perm used') (hR : List.Forall₂ (C07o.ColRel inp inp' earr earr') σ used)
    (hends : ∀ u ∈ used, u.head? ≠ u.getLast?)
    (hτ : ∀ e, τ e.reverse = τ e) (hlen : ∀ v e, len v e.reverse = len v e) (ht : tj'.Perm tj) :
    residSq (augmented (matrixOf inp' earr' used' tj' len)).1 (augmented (matrixOf inp' earr' used' tj' len)).2
        (used'.map τ ++ [μ])
      = residSq (augmented (matrixOf inp earr used tj len)).1 (augmented (matrixOf inp earr used tj len)).2
        (used.map τ ++ [μ]) := by
  exact C07o.residSq_relabel_rev inp inp' earr earr' used used' σ tj tj' len τ μ hv hig hE hE' hu hu' hσ hR hends hτ
    hlen ht

/-- END TO END at the model, no angle limit: let `inp'` be an input with the same vertex dictionary and `ignore_four`
    whose interface list holds the same interfaces up to direction (`hS`; for the three storage variants of the mesh this
    is `bigEdgesList_rotateCell / _reverseCell / _permuteCells`) and whose (interface, centre) pairs are those of `inp`
    up to order and direction (`ρ`, `hρ`, `hρR`).  Then the unknowns of `inp'` are those of `inp` up to order and
    direction, its junction list is a permutation of that of `inp`, and the squared residual of the system `inp'` hands
    to the solver at the candidate "tension `τ e` on interface `e`, multiplier `μ`" is that of `inp` at the same
    candidate.  (`augmented A` is `add_mean_one` with zero right-hand side, `normalisedMatrix` the matrix handed to
    the solver: Proofs/C01matrix.lean, Proofs/C07matrix.lean.) -/
theorem residSq_storage_model (inp inp' : FMInput)
    (hv : inp'.mesh.vertices = inp.mesh.vertices) (hig : inp'.ignoreFour = inp.ignoreFour)
    (hcl : inp.cosLimit = none) (hcl' : inp'.cosLimit = none)
    (hS : SameInterfaces inp'.earr inp.earr)
    (hc : inp.centers.length = inp.earr.length)
    (ρ : List (List Id × Pt)) (hρ : ρ.Perm (List.zip inp'.earr inp'.centers))
    (hρR : List.Forall₂ (fun a b => (a.1 = b.1 ∨ a.1 = b.1.reverse) ∧ a.2 = b.2) ρ (List.zip inp.earr inp.centers))
    (hends : ∀ u ∈ inp.build.used, u.head? ≠ u.getLast?)
    (len : Id → List Id → Rat) (τ : List Id → Rat) (μ : Rat)
    (hτ : ∀ e, τ e.reverse = τ e) (hlen : ∀ v e, len v e.reverse = len v e) :
    (∃ σ : List (List Id), σ.Perm inp'.build.used ∧
      List.Forall₂ (fun s u => s = u ∨ s = u.reverse) σ inp.build.used) ∧
    (endsOf inp'.build.used).Perm (endsOf inp.build.used) ∧
    residSq (augmented (normalisedMatrix inp' (fun v c => len v (inp'.build.used.getD c [])))).1
        (augmented (normalisedMatrix inp' (fun v c => len v (inp'.build.used.getD c [])))).2
        (inp'.build.used.map τ ++ [μ])
      = residSq (augmented (normalisedMatrix inp (fun v c => len v (inp.build.used.getD c [])))).1
        (augmented (normalisedMatrix inp (fun v c => len v (inp.build.used.getD c [])))).2
        (inp.build.used.map τ ++ [μ]) := by
  exact C07o.residSq_storage_model inp inp' hv hig hcl hcl' hS hc ρ hρ hρR hends len τ μ hτ hlen

/-- without an angle limit the unknowns of the storage variant are those of the original up to direction -/
theorem sameInterfaces_used (inp inp' : FMInput) (hv : inp'.mesh.vertices = inp.mesh.vertices)
    (hcl : inp.cosLimit = none) (hcl' : inp'.cosLimit = none) (hS : SameInterfaces inp'.earr inp.earr) :
    SameInterfaces inp'.build.used inp.build.used := by
  exact C07o.sameInterfaces_used inp inp' hv hcl hcl' hS

/-- the three storage variants of the mesh, in one statement: `m'` is the mesh of `inp` with one cell cycle rotated or
    reversed, or with the cell dictionary in another order; `centers'` the centres re-aligned with the new list -/
theorem residSq_storage_variants (inp : FMInput) (m' : Mesh) (centers' : List Pt)
    (hm : (∃ cid k, m' = inp.mesh.rotateCell cid k) ∨ (∃ cid, m' = inp.mesh.reverseCell cid) ∨
      (∃ cells', cells'.Perm inp.mesh.cells ∧ m' = inp.mesh.permuteCells cells'))
    (hcl : inp.cosLimit = none) (hc : inp.centers.length = inp.earr.length)
    (ρ : List (List Id × Pt)) (hρ : ρ.Perm (List.zip m'.bigEdgesList centers'))
    (hρR : List.Forall₂ (fun a b => (a.1 = b.1 ∨ a.1 = b.1.reverse) ∧ a.2 = b.2) ρ (List.zip inp.earr inp.centers))
    (hends : ∀ u ∈ inp.build.used, u.head? ≠ u.getLast?)
    (len : Id → List Id → Rat) (τ : List Id → Rat) (μ : Rat)
    (hτ : ∀ e, τ e.reverse = τ e) (hlen : ∀ v e, len v e.reverse = len v e) :
    let inp' : FMInput := { inp with mesh := m', centers := centers' }
    (∃ σ : List (List Id), σ.Perm inp'.build.used ∧
      List.Forall₂ (fun s u => s = u ∨ s = u.reverse) σ inp.build.used) ∧
    (endsOf inp'.build.used).Perm (endsOf inp.build.used) ∧
    residSq (augmented (normalisedMatrix inp' (fun v c => len v (inp'.build.used.getD c [])))).1
        (augmented (normalisedMatrix inp' (fun v c => len v (inp'.build.used.getD c [])))).2
        (inp'.build.used.map τ ++ [μ])
      = residSq (augmented (normalisedMatrix inp (fun v c => len v (inp.build.used.getD c [])))).1
        (augmented (normalisedMatrix inp (fun v c => len v (inp.build.used.getD c [])))).2
        (inp.build.used.map τ ++ [μ]) := by
  intro inp'
  have hv : inp'.mesh.vertices = inp.mesh.vertices := by
    rcases hm with ⟨cid, k, rfl⟩ | ⟨cid, rfl⟩ | ⟨cells', _, rfl⟩ <;> rfl
  have hS : SameInterfaces inp'.earr inp.earr := by
    rcases hm with ⟨cid, k, rfl⟩ | ⟨cid, rfl⟩ | ⟨cells', hp, rfl⟩
    · exact (bigEdgesList_rotateCell cid k inp.mesh).1
    · exact (bigEdgesList_reverseCell cid inp.mesh).1
    · exact (bigEdgesList_permuteCells cells' inp.mesh hp).1
  exact residSq_storage_model inp inp' hv rfl hcl hcl hS hc ρ hρ hρR hends len τ μ hτ hlen

/-! ### the vertex and the mesh-edge dictionary in another order

  `_build_matrix` and `create_edges_new` read the vertex dictionary only by key (`alGet?`, first match) and never read the
  mesh-edge dictionary (the junction test uses the list `ownEdges` kept on the vertex).  With unique keys (clause
  `keysOk` of `Mesh.Consistent`; a Python dict has no other) the output of `_build_matrix` is IDENTICAL. -/

/-- look-up by key does not depend on the insertion order when no key occurs twice -/
theorem alGet?_perm {β : Type} (l l' : List (Id × β)) (hp : l'.Perm l) (hk : Mesh.keysNodup l = true) (k : Id) :
    alGet? k l' = alGet? k l := by
  exact C07o.alGet?_perm l l' hp hk k

theorem bigEdgesList_permuteVertices (vs' : List (Id × Vertex)) (m : Mesh) (hp : vs'.Perm m.vertices)
    (hk : Mesh.keysNodup m.vertices = true) :
    (m.permuteVertices vs').bigEdgesList = m.bigEdgesList := by
  exact congrArg FMOutput.earr (C07o.build_congr { mesh := m, centers := [], cosLimit := none, ignoreFour := false }
    { mesh := m.permuteVertices vs', centers := [], cosLimit := none, ignoreFour := false }
    (fun k => C07o.alGet?_perm _ _ hp hk k) rfl rfl rfl rfl)

/-- the vertex dictionary in another order: everything `_build_matrix` produces is literally the same -/
theorem build_permuteVertices (inp : FMInput) (vs' : List (Id × Vertex)) (hp : vs'.Perm inp.mesh.vertices)
    (hk : Mesh.keysNodup inp.mesh.vertices = true) :
    ({ inp with mesh := inp.mesh.permuteVertices vs' } : FMInput).build = inp.build := by
  exact C07o.build_congr inp _ (fun k => C07o.alGet?_perm _ _ hp hk k) rfl rfl rfl rfl

/-- the mesh-edge dictionary replaced by anything: the same -/
theorem build_permuteEdges (inp : FMInput) (es' : List (Id × SEdge)) :
    ({ inp with mesh := inp.mesh.permuteEdges es' } : FMInput).build = inp.build := by
  exact C07o.build_congr inp _ (fun _ => rfl) rfl rfl rfl rfl

/-- hence the matrix handed to the solver is the same -/
theorem normalisedMatrix_permuteVertices (inp : FMInput) (vs' : List (Id × Vertex))
    (hp : vs'.Perm inp.mesh.vertices) (hk : Mesh.keysNodup inp.mesh.vertices = true) (len : Id → Nat → Rat) :
    normalisedMatrix ({ inp with mesh := inp.mesh.permuteVertices vs' } : FMInput) len = normalisedMatrix inp len := by
  exact C07o.normalisedMatrix_congr inp _ (build_permuteVertices inp vs' hp hk) len

/-- unique keys are needed in the MODEL (an association list can repeat a key, a Python dict cannot): two records under
    the key 0, the look-up finds the first one -/
theorem permuteVertices_duplicate_key_witness :
    let m : Mesh := { vertices := [(0, ⟨0, 0, 0, [1, 2, 3], []⟩), (0, ⟨0, 0, 0, [], []⟩)], edges := [], cells := [] }
    Mesh.keysNodup m.vertices = false ∧ m.vertices.reverse.Perm m.vertices ∧
    m.isJunction 0 = true ∧ (m.permuteVertices m.vertices.reverse).isJunction 0 = false := by
  refine ⟨by decide, List.reverse_perm _, by decide, by decide⟩

/-- hypotheses of `build_permuteVertices` on the lens tissue, and the conclusion computed -/
example : Mesh.keysNodup balInp.mesh.vertices = true ∧
    ({ balInp with mesh := balInp.mesh.permuteVertices balInp.mesh.vertices.reverse } : FMInput).build.rows
      = balInp.build.rows := by
  decide +kernel

/-! ### 5. non-vacuity and witnesses: the lens tissue `balMesh` of Props/C01matrix.lean (three cells) -/

/-- the three variants computed: the interface lists DIFFER from the original as lists — reversed cell 0: the arc and
    the chord are stored backwards; reversed cell 1: two spokes backwards, another order; cell 1 rotated by 2: another
    order; dictionary reversed: another order and three interfaces backwards — and have the same length -/
theorem storage_variants_witness :
    balMesh.bigEdgesList = [[0, 2, 1], [1, 0], [3, 0], [1, 4], [4, 5, 3], [3, 6, 4]] ∧
    (balMesh.reverseCell 0).bigEdgesList = [[1, 2, 0], [0, 1], [3, 0], [1, 4], [4, 5, 3], [3, 6, 4]] ∧
    (balMesh.reverseCell 1).bigEdgesList = [[0, 2, 1], [1, 0], [4, 1], [0, 3], [3, 5, 4], [3, 6, 4]] ∧
    (balMesh.rotateCell 1 2).bigEdgesList = [[0, 2, 1], [1, 0], [1, 4], [4, 5, 3], [3, 0], [3, 6, 4]] ∧
    (balMesh.permuteCells balMesh.cells.reverse).bigEdgesList
      = [[3, 6, 4], [4, 1], [1, 0], [0, 3], [0, 2, 1], [4, 5, 3]] ∧
    (balMesh.reverseCell 1).Consistent = true ∧ (balMesh.rotateCell 1 2).Consistent = true ∧
    (balMesh.permuteCells balMesh.cells.reverse).Consistent = true := by
  decide +kernel

/-- the relation is not trivially equality: reversing one cell changes the interface list (as a list), and not only
    its order — `[0, 2, 1]` is replaced by `[1, 2, 0]` -/
theorem bigEdgesList_reverseCell_differs_witness :
    (balMesh.reverseCell 0).bigEdgesList ≠ balMesh.bigEdgesList ∧
    ¬ (balMesh.reverseCell 0).bigEdgesList.Perm balMesh.bigEdgesList ∧
    [0, 2, 1] ∈ balMesh.bigEdgesList ∧ [0, 2, 1] ∉ (balMesh.reverseCell 0).bigEdgesList ∧
    [1, 2, 0] ∈ (balMesh.reverseCell 0).bigEdgesList := by
  decide +kernel

/-- … yet the lists are `SameInterfaces` (the theorems instantiated; hypothesis `hp` of the third one by
    `List.reverse_perm`) -/
example : SameInterfaces (balMesh.reverseCell 0).bigEdgesList balMesh.bigEdgesList ∧
    SameInterfaces (balMesh.rotateCell 1 2).bigEdgesList balMesh.bigEdgesList ∧
    SameInterfaces (balMesh.permuteCells balMesh.cells.reverse).bigEdgesList balMesh.bigEdgesList :=
  ⟨(bigEdgesList_reverseCell 0 balMesh).1, (bigEdgesList_rotateCell 1 2 balMesh).1,
    (bigEdgesList_permuteCells _ balMesh (List.reverse_perm _)).1⟩

/-- … and a matching `σ` exhibited for the reversed dictionary -/
example : ([[0, 2, 1], [1, 0], [0, 3], [4, 1], [4, 5, 3], [3, 6, 4]] : List (List Id)).Perm
      (balMesh.permuteCells balMesh.cells.reverse).bigEdgesList ∧
    List.Forall₂ (fun a b : List Id => a = b ∨ a = b.reverse)
      [[0, 2, 1], [1, 0], [0, 3], [4, 1], [4, 5, 3], [3, 6, 4]] balMesh.bigEdgesList := by
  have h1 : (balMesh.permuteCells balMesh.cells.reverse).bigEdgesList
      = [[3, 6, 4], [4, 1], [1, 0], [0, 3], [0, 2, 1], [4, 5, 3]] := by decide +kernel
  have h2 : balMesh.bigEdgesList = [[0, 2, 1], [1, 0], [3, 0], [1, 4], [4, 5, 3], [3, 6, 4]] := by decide +kernel
  rw [h1, h2]
  refine ⟨by decide, ?_⟩
  exact .cons (.inl rfl) (.cons (.inl rfl) (.cons (.inr rfl) (.cons (.inr rfl) (.cons (.inl rfl)
    (.cons (.inl rfl) .nil)))))

/-- a cell WITHOUT a junction (a lone square: every vertex has two mesh edges) yields no interface, whatever the
    rotation or the sense of its stored cycle: there is no closed path whose start could depend on the rotation -/
def loneSquare : Mesh := Mesh.ofLists [(0, 0, 0), (1, 1, 0), (2, 1, 1), (3, 0, 1)]
  [(0, 0, 1), (1, 1, 2), (2, 2, 3), (3, 3, 0)] [(0, [0, 1, 2, 3])]

theorem junctionless_cell_witness :
    loneSquare.Consistent = true ∧ (loneSquare.cells.all fun p => p.2.verts.any loneSquare.isJunction) = false ∧
    loneSquare.bigEdgesList = [] ∧ (loneSquare.rotateCell 0 1).bigEdgesList = [] ∧
    (loneSquare.rotateCell 0 3).bigEdgesList = [] ∧ (loneSquare.reverseCell 0).bigEdgesList = [] ∧
    (loneSquare.rotateCell 0 1).cells.map (·.2.verts) = [[1, 2, 3, 0]] := by
  decide +kernel

/-- a closed loop `1 – 2 – 3 – 1` at a vertex of three cells: all hypotheses of `entryOf_rev` but `hends` hold, and the
    entry changes with the stored direction (`get_vector_from_vertex` orients the tangent by the chord to the SECOND
    stored point when the asked vertex is the first one).  In a planar tissue both sides of a loop's base vertex lie in
    the same outer cell, so that vertex is in two cells only and gets no equation (C02 `vertexEquation_few_cells`); the
    hypothesis excludes a case the matrix never uses -/
def loopInp : FMInput :=
  { mesh := { vertices := [(1, ⟨1, 0, 0, [], [7, 8, 9]⟩), (2, ⟨2, 1, 1, [], [7, 8]⟩), (3, ⟨3, -1, 1, [], [7, 8]⟩)],
              edges := [], cells := [] },
    centers := [⟨0, 1⟩], cosLimit := none, ignoreFour := false }

theorem entry_loop_witness :
    entryOf loopInp [[1, 2, 3, 1]] 1 [1, 2, 3, 1] = some ⟨1, 0⟩ ∧
    entryOf loopInp [[1, 3, 2, 1]] 1 [1, 3, 2, 1] = some ⟨-1, 0⟩ ∧
    [1, 3, 2, 1] = ([1, 2, 3, 1] : List Id).reverse ∧
    centreOf [[1, 3, 2, 1]] loopInp.centers [1, 3, 2, 1] = centreOf [[1, 2, 3, 1]] loopInp.centers [1, 2, 3, 1] ∧
    ([1, 2, 3, 1] : List Id).head? = ([1, 2, 3, 1] : List Id).getLast? := by
  decide +kernel

/-- the reversed dictionary as an input: the arc `[0, 2, 1]` now stands at position 4, so its fitted centre moves there -/
def balInpRev : FMInput :=
  { mesh := balMesh.permuteCells balMesh.cells.reverse,
    centers := [⟨0,0⟩,⟨0,0⟩,⟨0,0⟩,⟨0,0⟩,⟨2,-3/2⟩,⟨0,0⟩], cosLimit := none, ignoreFour := false }

/-- what the model computes for it: the unknowns in another order, two of them backwards; the junctions in another
    order; the SAME vectors in the permuted columns (compare Props/C07matrix.lean, section G) -/
theorem balInpRev_witness :
    balInpRev.build.used = [[4, 1], [1, 0], [0, 3], [0, 2, 1]] ∧
    balInp.build.used = [[0, 2, 1], [1, 0], [3, 0], [1, 4]] ∧
    balInpRev.build.rows =
      [(4, false, [none, none, none, none]),
       (1, true, [some ⟨4, -3⟩, some ⟨-4, 0⟩, none, some ⟨-3/2, 2⟩]),
       (0, true, [none, some ⟨4, 0⟩, some ⟨-4, -3⟩, some ⟨3/2, 2⟩]),
       (3, false, [none, none, none, none])] ∧
    balInp.build.rows =
      [(0, true, [some ⟨3/2, 2⟩, some ⟨4, 0⟩, some ⟨-4, -3⟩, none]),
       (1, true, [some ⟨-3/2, 2⟩, some ⟨-4, 0⟩, none, some ⟨4, -3⟩]),
       (3, false, [none, none, none, none]), (4, false, [none, none, none, none])] := by
  decide +kernel

/-- all hypotheses of `residSq_storage_model` hold for `balInp` and `balInpRev`, so its conclusion does: for every
    direction-blind `τ`, `len` the two systems have the same squared residual at corresponding candidates -/
example (len : Id → List Id → Rat) (τ : List Id → Rat) (μ : Rat)
    (hτ : ∀ e, τ e.reverse = τ e) (hlen : ∀ v e, len v e.reverse = len v e) :
    residSq (augmented (normalisedMatrix balInpRev (fun v c => len v (balInpRev.build.used.getD c [])))).1
        (augmented (normalisedMatrix balInpRev (fun v c => len v (balInpRev.build.used.getD c [])))).2
        (balInpRev.build.used.map τ ++ [μ])
      = residSq (augmented (normalisedMatrix balInp (fun v c => len v (balInp.build.used.getD c [])))).1
        (augmented (normalisedMatrix balInp (fun v c => len v (balInp.build.used.getD c [])))).2
        (balInp.build.used.map τ ++ [μ]) := by
  have h1 : List.zip balInpRev.earr balInpRev.centers
      = [([3, 6, 4], ⟨0,0⟩), ([4, 1], ⟨0,0⟩), ([1, 0], ⟨0,0⟩), ([0, 3], ⟨0,0⟩), ([0, 2, 1], ⟨2,-3/2⟩),
         ([4, 5, 3], ⟨0,0⟩)] := by decide +kernel
  have h2 : List.zip balInp.earr balInp.centers
      = [([0, 2, 1], ⟨2,-3/2⟩), ([1, 0], ⟨0,0⟩), ([3, 0], ⟨0,0⟩), ([1, 4], ⟨0,0⟩), ([4, 5, 3], ⟨0,0⟩),
         ([3, 6, 4], ⟨0,0⟩)] := by decide +kernel
  refine (residSq_storage_model balInp balInpRev rfl rfl rfl rfl
    (bigEdgesList_permuteCells _ balMesh (List.reverse_perm _)).1 (by decide +kernel)
    [([0, 2, 1], ⟨2,-3/2⟩), ([1, 0], ⟨0,0⟩), ([0, 3], ⟨0,0⟩), ([4, 1], ⟨0,0⟩), ([4, 5, 3], ⟨0,0⟩),
      ([3, 6, 4], ⟨0,0⟩)] ?_ ?_ (by decide +kernel) len τ μ hτ hlen).2.2
  · rw [h1]; decide +kernel
  · rw [h2]
    exact .cons ⟨.inl rfl, rfl⟩ (.cons ⟨.inl rfl, rfl⟩ (.cons ⟨.inr rfl, rfl⟩ (.cons ⟨.inr rfl, rfl⟩
      (.cons ⟨.inl rfl, rfl⟩ (.cons ⟨.inl rfl, rfl⟩ .nil)))))

/-- direction-blind candidates and norms exist and are not constant: the tension / norm may depend on the interface
    through any symmetric function of it, e.g. its number of vertices and the sum of its end points -/
example : (∀ e : List Id, (fun e : List Id => ((e.length : Rat) + ((e.head?.getD 0 + e.getLast?.getD 0 : Int) : Rat)))
      e.reverse = (fun e : List Id => ((e.length : Rat) + ((e.head?.getD 0 + e.getLast?.getD 0 : Int) : Rat))) e) := by
  intro e
  simp only [List.length_reverse, List.head?_reverse, List.getLast?_reverse, Int.add_comm]

end Forsys
