/-
  Property C01, tissue part — closes the gap between the per-end tangent theorems of C02 and the tissue-level hypotheses
  `hnorm`/`htrue` of the end-to-end theorem `static_inference_recovers_tensions` (Props/C01matrix.lean):

    "for every tissue whose interfaces are exact circular arcs or straight two-point segments, in force balance along the
     arcs' tangents, with finding D2 not striking, any minimiser is tension / mean tension."

  Model: `FMInput.build` (Model/FMatrix.lean), `vectorFromVertex`/`chordAt`/`tangentVec`/`tangentVecDot`
  (Model/Tangent.lean), `tangentAt`, `endCols`, `normalisedMatrix` (Proofs/C01matrix.lean).

  Vocabulary (defined in Proofs/C01tissue.lean, namespace `Forsys.FMInput`); `c` is a column (an unknown, a used interface):
    `colIds inp c`, `colPts inp c`   vertex ids / points of interface `c`;  `colCentre inp c` its fitted centre
                                     (the entry of `inp.centers` that `tangentAt` reads)
    `ArcCol inp ρ ℓ c`   interface `c` has ≥ 2 points and
                           2 points `p, q`:  `0 < ℓ c ∧ (ℓ c)² = distSq p q`            (rational length; so `p ≠ q`)
                           otherwise:        `0 < ρ c ∧ (ρ c)² = distSq first centre ∧ (ρ c)² = distSq last centre`
                                             (both END points on the circle of radius `ρ c` about the fitted centre)
    `ArcTissue inp ρ ℓ`  `∀ c < #unknowns, ArcCol inp ρ ℓ c`                             — decidable
    `SignOK p ctr ch`    the two sign-agreement hypotheses of `tangentVec_eq_dot_partial` (Props/C02.lean)
    `SignsAgree inp`     `SignOK` at every (kept junction, incident interface with ≠ 2 points), for the end point and chord
                         `chordAt` selects: "finding D2 does not strike"                  — decidable
    `arcLen inp ρ ℓ v c` `ℓ c` for a two-point interface, `ρ c` otherwise  (the norm of the placed vector)
    `arcDir inp ρ ℓ v c` with `chordAt … v = some (p, ch)`: `(1/ℓ c) • ch` for a two-point interface (`ch = q − p`),
                         `(1/ρ c) • tangentVecDot p centre ch` otherwise (`⟨0,0⟩` where `v` is not an end)

  Only the END points of an arc are required to lie on the circle: the interior points enter the model's tangent only
  through the orientation (the first chord).  `exactArcs_arcTissue` gets `ArcTissue` from "all points on the circle".
-/
import ForsysModel.Proofs.C01tissue

namespace Forsys
open FMInput

/-! ### 1. the predicates are decidable -/

/-- `ArcTissue`, `SignsAgree` (and their per-column / per-end parts) are decidable: they can be checked on a concrete
    tissue by evaluation (`decide +kernel`, see the lens below) -/
example (inp : FMInput) (ρ ℓ : Nat → Rat) : Decidable (ArcTissue inp ρ ℓ) := inferInstance
example (inp : FMInput) : Decidable (SignsAgree inp) := inferInstance

/-- `arcLen` and `arcDir` written out -/
theorem arcLen_arcDir_eq (inp : FMInput) (ρ ℓ : Nat → Rat) (v : Id) (c : Nat) :
    arcLen inp ρ ℓ v c = (if (inp.build.used.getD c []).length = 2 then ℓ c else ρ c) ∧
    ∀ p ch, chordAt (inp.build.used.getD c []) ((inp.build.used.getD c []).map inp.mesh.pt) v = some (p, ch) →
      arcDir inp ρ ℓ v c = (if (inp.build.used.getD c []).length = 2 then Vec.smul (1 / ℓ c) ch
        else Vec.smul (1 / ρ c)
          (tangentVecDot p (inp.centers.getD ((inp.usedIdx inp.earr).getD c 0) default) ch)) := by
  refine ⟨rfl, ?_⟩
  intro p ch h
  simp only [arcDir, h]

/-- what `chordAt` selects at an end `v` of an interface with at least two points: the end point — the first or the
    last point of the interface — and a chord; for a two-point interface the chord joins the two points -/
theorem chordAt_at_end (ids : List Id) (f : Id → Pt) (v : Id) (h2 : 2 ≤ ids.length) (he : endsAt ids v = true) :
    ∃ p ch, chordAt ids (ids.map f) v = some (p, ch) ∧
      (p = (ids.map f).headD default ∨ p = (ids.map f).getLastD default) ∧
      (ids.length = 2 → ch.normSq = distSq ((ids.map f).headD default) ((ids.map f).getLastD default)) :=
  chordAt_of_endsAt ids f v h2 he

/-- … explicitly at the first vertex: the first point and the chord to the second point -/
theorem chordAt_first (i0 i1 : Id) (ir : List Id) (f : Id → Pt) :
    chordAt (i0 :: i1 :: ir) ((i0 :: i1 :: ir).map f) i0 = some (f i0, Vec.sub (f i1) (f i0)) := by
  simp [chordAt]

/-! ### 2. `hnorm` and `htrue` for all kept junctions at once -/

/-- For a tissue of exact arcs and two-point segments (`ArcTissue`) on which finding D2 does not strike (`SignsAgree`):
    with `len := arcLen inp ρ ℓ` and `dir := arcDir inp ρ ℓ`, the hypotheses `hnorm` and `htrue` of `assembled_balance` /
    `static_inference_recovers_tensions` hold at every kept junction and every incident column, and `dir` is a unit
    vector there. -/
theorem arcTissue_hnorm_htrue (inp : FMInput) (ρ ℓ : Nat → Rat)
    (hA : ArcTissue inp ρ ℓ) (hS : SignsAgree inp) :
    (∀ r ∈ inp.build.rows, r.2.1 = true → ∀ c < inp.build.used.length,
      endsAt (inp.build.used.getD c []) r.1 = true →
        0 < arcLen inp ρ ℓ r.1 c ∧
        (inp.tangentAt c r.1).map Vec.normSq = some ((arcLen inp ρ ℓ r.1 c) ^ 2)) ∧
    (∀ r ∈ inp.build.rows, r.2.1 = true → ∀ c < inp.build.used.length,
      endsAt (inp.build.used.getD c []) r.1 = true →
        inp.tangentAt c r.1 = some (Vec.smul (arcLen inp ρ ℓ r.1 c) (arcDir inp ρ ℓ r.1 c))) ∧
    (∀ r ∈ inp.build.rows, r.2.1 = true → ∀ c < inp.build.used.length,
      endsAt (inp.build.used.getD c []) r.1 = true → (arcDir inp ρ ℓ r.1 c).normSq = 1) := by
  have key := fun (r : Id × Bool × List (Option Vec)) (hr : r ∈ inp.build.rows) (hk : r.2.1 = true)
      (c : Nat) (hc : c < inp.build.used.length) (he : endsAt (inp.build.used.getD c []) r.1 = true) =>
    arc_end inp ρ ℓ c r.1 (hA c hc) he (fun h3 => hS r hr hk c hc he h3)
  exact ⟨fun r hr hk c hc he => ⟨(key r hr hk c hc he).1, (key r hr hk c hc he).2.1⟩,
    fun r hr hk c hc he => (key r hr hk c hc he).2.2.1,
    fun r hr hk c hc he => (key r hr hk c hc he).2.2.2⟩

/-- the matrix the code assembles for such a tissue IS the matrix of unit circle tangents / unit segment directions:
    in column `c` of the row pair of a kept junction where interface `c` ends stand the components of `arcDir` -/
theorem arcTissue_matrix_entries (inp : FMInput) (ρ ℓ : Nat → Rat)
    (hA : ArcTissue inp ρ ℓ) (hS : SignsAgree inp)
    (r : Id × Bool × List (Option Vec)) (hr : r ∈ inp.build.rows) (hk : r.2.1 = true)
    (c : Nat) (hc : c < inp.build.used.length) (he : endsAt (inp.build.used.getD c []) r.1 = true) :
    (rowX inp (arcLen inp ρ ℓ) r)[c]? = some (arcDir inp ρ ℓ r.1 c).x ∧
    (rowY inp (arcLen inp ρ ℓ) r)[c]? = some (arcDir inp ρ ℓ r.1 c).y := by
  obtain ⟨h1, h2, _⟩ := arcTissue_hnorm_htrue inp ρ ℓ hA hS
  exact (assembled_unit_directions inp (arcLen inp ρ ℓ) (arcDir inp ρ ℓ) r hr hk c hc he
    (h1 r hr hk c hc he) (h2 r hr hk c hc he)).2

/-- `assembled_balance` for such a tissue: tensions in force balance along the circle tangents are annihilated by the
    assembled normalised matrix -/
theorem arcTissue_assembled_balance (inp : FMInput) (ρ ℓ : Nat → Rat) (tau : Nat → Rat)
    (hA : ArcTissue inp ρ ℓ) (hS : SignsAgree inp)
    (hbal : ∀ r ∈ inp.build.rows, r.2.1 = true →
      ((inp.endCols r.1).map fun c => tau c * (arcDir inp ρ ℓ r.1 c).x).sum = 0 ∧
      ((inp.endCols r.1).map fun c => tau c * (arcDir inp ρ ℓ r.1 c).y).sum = 0) :
    mulVec (normalisedMatrix inp (arcLen inp ρ ℓ)) (tauVec inp.build.used.length tau)
      = List.replicate (normalisedMatrix inp (arcLen inp ρ ℓ)).length 0 := by
  obtain ⟨h1, h2, _⟩ := arcTissue_hnorm_htrue inp ρ ℓ hA hS
  exact assembled_balance inp (arcLen inp ρ ℓ) (arcDir inp ρ ℓ) tau h1 h2 hbal

/-! ### 3. the end-to-end theorem without `hnorm`/`htrue` -/

/-- C01 for tissues of exact arcs and straight two-point segments.  Let the tissue have at least one kept junction, let
    every used interface be an exact arc about its fitted centre or a two-point segment (`ArcTissue`), let finding D2 not
    strike (`SignsAgree`), and let
    (b) `hbal`: the true tensions `tau` balance at every kept junction along the unit circle tangents / segment
        directions `arcDir` (see `dir_is_circle_tangent_partial`: these ARE the tangents of the circles),
    (c) `hpos`: all true tensions be positive,
    (d) `hinj`: the augmented matrix of the normalised assembled matrix be injective.
    Then every minimiser `y` of the augmented squared residual over the non-negative candidates is
    true tension / mean true tension, followed by the multiplier 0. -/
theorem arcTissue_static_inference (inp : FMInput) (ρ ℓ : Nat → Rat) (tau : Nat → Rat) (y : List Rat)
    (hk : ∃ r ∈ inp.build.rows, r.2.1 = true)
    (hA : ArcTissue inp ρ ℓ) (hS : SignsAgree inp)
    (hbal : ∀ r ∈ inp.build.rows, r.2.1 = true →
      ((inp.endCols r.1).map fun c => tau c * (arcDir inp ρ ℓ r.1 c).x).sum = 0 ∧
      ((inp.endCols r.1).map fun c => tau c * (arcDir inp ρ ℓ r.1 c).y).sum = 0)
    (hpos : ∀ c < inp.build.used.length, 0 < tau c)
    (hy : y.length = inp.build.used.length + 1)
    (hinj : ∀ x x' : List Rat, x.length = inp.build.used.length + 1 → x'.length = inp.build.used.length + 1 →
      mulVec (addMeanOne (normalisedMatrix inp (arcLen inp ρ ℓ))
          (List.replicate (normalisedMatrix inp (arcLen inp ρ ℓ)).length 0)).1 x
        = mulVec (addMeanOne (normalisedMatrix inp (arcLen inp ρ ℓ))
          (List.replicate (normalisedMatrix inp (arcLen inp ρ ℓ)).length 0)).1 x' →
      x = x')
    (hmin : ∀ x : List Rat, x.length = inp.build.used.length + 1 → (∀ v ∈ x, 0 ≤ v) →
      residSq (addMeanOne (normalisedMatrix inp (arcLen inp ρ ℓ))
            (List.replicate (normalisedMatrix inp (arcLen inp ρ ℓ)).length 0)).1
          (addMeanOne (normalisedMatrix inp (arcLen inp ρ ℓ))
            (List.replicate (normalisedMatrix inp (arcLen inp ρ ℓ)).length 0)).2 y
        ≤ residSq (addMeanOne (normalisedMatrix inp (arcLen inp ρ ℓ))
            (List.replicate (normalisedMatrix inp (arcLen inp ρ ℓ)).length 0)).1
          (addMeanOne (normalisedMatrix inp (arcLen inp ρ ℓ))
            (List.replicate (normalisedMatrix inp (arcLen inp ρ ℓ)).length 0)).2 x) :
    y = normalisedTensions inp.build.used.length tau ++ [0] := by
  obtain ⟨h1, h2, _⟩ := arcTissue_hnorm_htrue inp ρ ℓ hA hS
  exact static_inference_recovers_tensions inp (arcLen inp ρ ℓ) (arcDir inp ρ ℓ) tau y hk h1 h2 hbal hpos hy
    hinj hmin

/-- … entry by entry: entry `c` of the solver's answer is `tau c / mean tau`, the multiplier is `0` -/
theorem arcTissue_static_inference_entry (inp : FMInput) (ρ ℓ : Nat → Rat) (tau : Nat → Rat) (y : List Rat)
    (hk : ∃ r ∈ inp.build.rows, r.2.1 = true)
    (hA : ArcTissue inp ρ ℓ) (hS : SignsAgree inp)
    (hbal : ∀ r ∈ inp.build.rows, r.2.1 = true →
      ((inp.endCols r.1).map fun c => tau c * (arcDir inp ρ ℓ r.1 c).x).sum = 0 ∧
      ((inp.endCols r.1).map fun c => tau c * (arcDir inp ρ ℓ r.1 c).y).sum = 0)
    (hpos : ∀ c < inp.build.used.length, 0 < tau c)
    (hy : y.length = inp.build.used.length + 1)
    (hinj : ∀ x x' : List Rat, x.length = inp.build.used.length + 1 → x'.length = inp.build.used.length + 1 →
      mulVec (addMeanOne (normalisedMatrix inp (arcLen inp ρ ℓ))
          (List.replicate (normalisedMatrix inp (arcLen inp ρ ℓ)).length 0)).1 x
        = mulVec (addMeanOne (normalisedMatrix inp (arcLen inp ρ ℓ))
          (List.replicate (normalisedMatrix inp (arcLen inp ρ ℓ)).length 0)).1 x' →
      x = x')
    (hmin : ∀ x : List Rat, x.length = inp.build.used.length + 1 → (∀ v ∈ x, 0 ≤ v) →
      residSq (addMeanOne (normalisedMatrix inp (arcLen inp ρ ℓ))
            (List.replicate (normalisedMatrix inp (arcLen inp ρ ℓ)).length 0)).1
          (addMeanOne (normalisedMatrix inp (arcLen inp ρ ℓ))
            (List.replicate (normalisedMatrix inp (arcLen inp ρ ℓ)).length 0)).2 y
        ≤ residSq (addMeanOne (normalisedMatrix inp (arcLen inp ρ ℓ))
            (List.replicate (normalisedMatrix inp (arcLen inp ρ ℓ)).length 0)).1
          (addMeanOne (normalisedMatrix inp (arcLen inp ρ ℓ))
            (List.replicate (normalisedMatrix inp (arcLen inp ρ ℓ)).length 0)).2 x) :
    (∀ c < inp.build.used.length, y[c]? = some (tau c / meanTension inp.build.used.length tau)) ∧
    y[inp.build.used.length]? = some 0 := by
  obtain ⟨h1, h2, _⟩ := arcTissue_hnorm_htrue inp ρ ℓ hA hS
  exact static_inference_recovers_tensions_entry inp (arcLen inp ρ ℓ) (arcDir inp ρ ℓ) tau y hk h1 h2 hbal hpos hy
    hinj hmin

/-! ### 4. `arcDir` is the tangent of the circle

  Full statement asked for: "`arcDir` is perpendicular to the radius at the junction and has POSITIVE projection on the
  first chord".  Strict positivity does not follow from `ArcTissue` (which constrains only the end points): it fails when
  the first chord is radial, i.e. when the neighbouring point is the antipode of the junction on the circle
  (`dir_is_circle_tangent_witness`).  Proved: perpendicular and non-negative projection always; strictly positive when
  the neighbouring point is another point of the circle that is not the antipode; uniqueness. -/

/-- At an end `v` of an arc (≠ 2 points) of an `ArcTissue`, with `p` the end point and `ch` the first chord
    (`chordAt`): `p` lies on the circle of radius `ρ c` about the fitted centre; `arcDir` is perpendicular to the radius
    `p − centre`; its projection on the chord is non-negative, and strictly positive when `ch = q − p` for a point
    `q ≠ p` of the same circle that is not antipodal to `p`; and it is the ONLY unit vector perpendicular to the radius
    with positive projection on the chord.  So `hbal` of `arcTissue_static_inference` is force balance along the
    circles' tangents — a statement about the geometry, not about the code's formula.
    (No `SignsAgree` here: `arcDir` does not depend on the coded sign rule.) -/
theorem dir_is_circle_tangent_partial (inp : FMInput) (ρ ℓ : Nat → Rat) (hA : ArcTissue inp ρ ℓ)
    (c : Nat) (hc : c < inp.build.used.length) (v : Id)
    (he : endsAt (inp.build.used.getD c []) v = true) (h3 : (inp.build.used.getD c []).length ≠ 2) :
    ∃ p ch, chordAt (inp.colIds c) (inp.colPts c) v = some (p, ch) ∧
      (p = (inp.colPts c).headD default ∨ p = (inp.colPts c).getLastD default) ∧
      (ρ c) ^ 2 = distSq p (inp.colCentre c) ∧
      Vec.dot (arcDir inp ρ ℓ v c) (Vec.sub p (inp.colCentre c)) = 0 ∧
      0 ≤ Vec.dot (arcDir inp ρ ℓ v c) ch ∧
      (∀ q : Pt, ch = Vec.sub q p → distSq q (inp.colCentre c) = distSq p (inp.colCentre c) → q ≠ p →
        q ≠ ⟨2 * (inp.colCentre c).x - p.x, 2 * (inp.colCentre c).y - p.y⟩ →
        0 < Vec.dot (arcDir inp ρ ℓ v c) ch) ∧
      (∀ w : Vec, Vec.dot w (Vec.sub p (inp.colCentre c)) = 0 → w.normSq = 1 → 0 < Vec.dot w ch →
        w = arcDir inp ρ ℓ v c) :=
  arcDir_tangent inp ρ ℓ c v (hA c hc) he h3

/-- two distinct, non-antipodal points `p`, `q` of a circle about `c`: the chord `q − p` is not parallel to the radius
    at `p` — the hypothesis `hanti` of `tangentVecDot_circle` (Props/C02.lean) follows from the geometry -/
theorem chord_of_circle_not_radial (p q c : Pt) (hq : distSq q c = distSq p c) (hne : q ≠ p)
    (hanti : q ≠ ⟨2 * c.x - p.x, 2 * c.y - p.y⟩) :
    Vec.dot (Vec.perp (Vec.sub p c)) (Vec.sub q p) ≠ 0 :=
  chord_not_radial p q c hq hne hanti

/-- for a two-point interface `arcDir` is the unit vector from the junction to the other end: a positive multiple
    (`1/ℓ`) of the chord, of norm one -/
theorem dir_is_unit_chord (inp : FMInput) (ρ ℓ : Nat → Rat) (hA : ArcTissue inp ρ ℓ)
    (c : Nat) (hc : c < inp.build.used.length) (v : Id)
    (he : endsAt (inp.build.used.getD c []) v = true) (h2 : (inp.build.used.getD c []).length = 2) :
    ∃ p ch, chordAt (inp.colIds c) (inp.colPts c) v = some (p, ch) ∧
      ch.normSq = distSq ((inp.colPts c).headD default) ((inp.colPts c).getLastD default) ∧
      0 < 1 / ℓ c ∧ arcDir inp ρ ℓ v c = Vec.smul (1 / ℓ c) ch ∧ (arcDir inp ρ ℓ v c).normSq = 1 := by
  obtain ⟨p, ch, hch, _, hn⟩ := chordAt_of_endsAt (inp.colIds c) inp.mesh.pt v (hA c hc).1 he
  have hcol := hA c hc
  have hpos : 0 < ℓ c := by
    have := hcol.2; rw [if_pos h2] at this; exact this.1
  refine ⟨p, ch, hch, hn h2, by positivity, by simp only [arcDir, hch, if_pos h2], ?_⟩
  exact (arc_end inp ρ ℓ c v hcol he (fun h => absurd h2 h)).2.2.2

/-- the antipodal lens: junction 0 = (0,0) on the circle of radius 50 about (−50,0); the three-point interface `[0,2,1]`
    continues to (−100,0), the antipode of the junction, and ends at (−64,48); chord `[1,0]` of length 80, spokes of
    length 50 -/
def antiMesh : Mesh := Mesh.ofLists
  [(0,0,0),(1,-64,48),(2,-100,0),(3,30,-40),(4,-94,88),(5,-150,60),(6,-20,30)]
  [(0,0,2),(1,2,1),(2,0,1),(3,3,0),(4,1,4),(5,4,5),(6,5,3),(7,3,6),(8,6,4)]
  [(0,[0,2,1]),(1,[3,0,2,1,4,5]),(2,[3,6,4,1,0])]

def antiInp : FMInput :=
  { mesh := antiMesh, centers := [⟨-50,0⟩,⟨0,0⟩,⟨0,0⟩,⟨0,0⟩,⟨0,0⟩,⟨0,0⟩], cosLimit := none, ignoreFour := false }

/-- strict positivity needs the extra hypothesis: on the antipodal lens `ArcTissue` and `SignsAgree` hold, all three
    points of the interface lie on the circle, and the unit tangent (0,1) at junction 0 is perpendicular to the first
    chord (−100,0) -/
theorem dir_is_circle_tangent_witness :
    antiMesh.Consistent = true ∧
    ArcTissue antiInp (fun _ => 50) (fun c => if c = 1 then 80 else 50) ∧ SignsAgree antiInp ∧
    (∀ p ∈ antiInp.colPts 0, distSq p (antiInp.colCentre 0) = 50 ^ 2) ∧
    chordAt (antiInp.colIds 0) (antiInp.colPts 0) 0 = some (⟨0,0⟩, ⟨-100,0⟩) ∧
    arcDir antiInp (fun _ => 50) (fun c => if c = 1 then 80 else 50) 0 0 = ⟨0, 1⟩ ∧
    Vec.dot (arcDir antiInp (fun _ => 50) (fun c => if c = 1 then 80 else 50) 0 0) ⟨-100,0⟩ = 0 := by
  decide +kernel

/-! ### `ArcTissue` from "all points on the circle" -/

/-- if an interface has at least two points and ALL its points lie on the circle of radius `ρ c > 0` about the fitted
    centre (an exact circular arc), or it is a two-point segment of length `ℓ c`, then `ArcCol` holds -/
theorem exactArcs_arcTissue (inp : FMInput) (ρ ℓ : Nat → Rat)
    (hlen : ∀ c < inp.build.used.length, 2 ≤ (inp.build.used.getD c []).length)
    (hseg : ∀ c < inp.build.used.length, (inp.build.used.getD c []).length = 2 →
      0 < ℓ c ∧ (ℓ c) ^ 2 = distSq ((inp.colPts c).headD default) ((inp.colPts c).getLastD default))
    (harc : ∀ c < inp.build.used.length, (inp.build.used.getD c []).length ≠ 2 →
      0 < ρ c ∧ ∀ p ∈ inp.colPts c, (ρ c) ^ 2 = distSq p (inp.colCentre c)) :
    ArcTissue inp ρ ℓ := by
  intro c hc
  refine ⟨hlen c hc, ?_⟩
  by_cases h2 : (inp.colIds c).length = 2
  · rw [if_pos h2]; exact hseg c hc h2
  · rw [if_neg h2]
    obtain ⟨hpos, hall⟩ := harc c hc h2
    have hne : inp.colPts c ≠ [] := by
      intro h
      have h2' := hlen c hc
      have hl : (inp.colPts c).length = (inp.build.used.getD c []).length := List.length_map _
      rw [h, List.length_nil] at hl
      omega
    refine ⟨hpos, hall _ ?_, hall _ ?_⟩
    · rw [List.headD_eq_head?_getD, List.head?_eq_some_head hne]; exact List.head_mem hne
    · rw [List.getLastD_eq_getLast?, List.getLast?_eq_some_getLast hne]; exact List.getLast_mem hne

/-! ### 5. `SignsAgree` cannot be dropped (finding D2) -/

/-- the D2 lens: the arc of `tangentVec_mirror_witness` (Props/C02.lean) in a tissue.  Circle of radius 65 about the
    origin; the interface `[0,2,1]` runs from junction 0 = (63,−16) through (60,25) to junction 1 = (33,56) — all on the
    circle —; the chord `[1,0]` has length 78, the spokes `[3,0]`, `[1,4]` length 13 -/
def d2Mesh : Mesh := Mesh.ofLists
  [(0,63,-16),(1,33,56),(2,60,25),(3,68,-28),(4,28,68),(5,100,50),(6,10,5)]
  [(0,0,2),(1,2,1),(2,0,1),(3,3,0),(4,1,4),(5,4,5),(6,5,3),(7,3,6),(8,6,4)]
  [(0,[0,2,1]),(1,[3,0,2,1,4,5]),(2,[3,6,4,1,0])]

def d2Inp : FMInput :=
  { mesh := d2Mesh, centers := [⟨0,0⟩,⟨0,0⟩,⟨0,0⟩,⟨0,0⟩,⟨0,0⟩,⟨0,0⟩], cosLimit := none, ignoreFour := false }

def d2Rad : Nat → Rat := fun _ => 65
def d2Seg : Nat → Rat := fun c => if c = 1 then 78 else 13

/-- On the D2 lens `ArcTissue` holds (every point of the arc is on the circle, the segments have rational lengths) but
    `SignsAgree` fails, and so does `htrue`: at junction 0 the model places (−16,63), the mirror image of the true
    tangent 65 • `arcDir` = (16,63); `hnorm` still holds (the mirror image has the same norm). -/
theorem signsAgree_necessary_witness :
    d2Mesh.Consistent = true ∧
    ArcTissue d2Inp d2Rad d2Seg ∧
    (∀ p ∈ d2Inp.colPts 0, distSq p (d2Inp.colCentre 0) = 65 ^ 2) ∧
    ¬ SignsAgree d2Inp ∧
    d2Inp.build.rows =
      [(0, true, [some ⟨-16,63⟩, some ⟨-30,72⟩, some ⟨5,-12⟩, none]),
       (1, true, [some ⟨56,-33⟩, some ⟨30,-72⟩, none, some ⟨-5,12⟩]),
       (3, false, [none, none, none, none]),
       (4, false, [none, none, none, none])] ∧
    d2Inp.tangentAt 0 0 = some ⟨-16, 63⟩ ∧
    Vec.smul (arcLen d2Inp d2Rad d2Seg 0 0) (arcDir d2Inp d2Rad d2Seg 0 0) = ⟨16, 63⟩ ∧
    (∀ r ∈ d2Inp.build.rows, r.2.1 = true → ∀ c < d2Inp.build.used.length,
      endsAt (d2Inp.build.used.getD c []) r.1 = true →
        0 < arcLen d2Inp d2Rad d2Seg r.1 c ∧
        (d2Inp.tangentAt c r.1).map Vec.normSq = some ((arcLen d2Inp d2Rad d2Seg r.1 c) ^ 2)) ∧
    ¬ (∀ r ∈ d2Inp.build.rows, r.2.1 = true → ∀ c < d2Inp.build.used.length,
      endsAt (d2Inp.build.used.getD c []) r.1 = true →
        d2Inp.tangentAt c r.1 = some (Vec.smul (arcLen d2Inp d2Rad d2Seg r.1 c) (arcDir d2Inp d2Rad d2Seg r.1 c))) := by
  decide +kernel

/-- … and no other choice of norms rescues `htrue` for the true directions: the placed vector is not a multiple of the
    circle tangent -/
theorem signsAgree_necessary_any_len (len : Id → Nat → Rat) (dir : Id → Nat → Vec)
    (hdir : dir 0 0 = arcDir d2Inp d2Rad d2Seg 0 0) :
    ¬ (∀ r ∈ d2Inp.build.rows, r.2.1 = true → ∀ c < d2Inp.build.used.length,
      endsAt (d2Inp.build.used.getD c []) r.1 = true →
        d2Inp.tangentAt c r.1 = some (Vec.smul (len r.1 c) (dir r.1 c))) := by
  intro h
  have h0 := h (0, true, [some ⟨-16,63⟩, some ⟨-30,72⟩, some ⟨5,-12⟩, none]) (by decide +kernel) rfl 0
    (by decide +kernel) (by decide +kernel)
  have ht : d2Inp.tangentAt 0 0 = some ⟨-16, 63⟩ := by decide +kernel
  have hd : arcDir d2Inp d2Rad d2Seg 0 0 = ⟨16/65, 63/65⟩ := by decide +kernel
  simp only [ht, hdir, hd, Vec.smul, Option.some.injEq, Vec.mk.injEq] at h0
  obtain ⟨hx, hy⟩ := h0
  linarith

/-! ### 6. non-vacuity: the lens `balInp` of Props/C01matrix.lean -/

/-- radius of the arc `[0,2,1]` -/
def balRad : Nat → Rat := fun _ => 5/2
/-- lengths of the chord `[1,0]` and of the spokes -/
def balSeg : Nat → Rat := fun c => if c = 1 then 4 else 5

/-- the lens is an `ArcTissue` on which D2 does not strike; all hypotheses of `arcTissue_static_inference` except (d)
    and the minimiser: a kept junction, balance of (3, 7/5, 4, 4) along `arcDir`, positivity.  `arcLen`/`arcDir` are
    the `balLen`/`balDir` written by hand in Props/C01matrix.lean. -/
theorem bal_arcTissue :
    ArcTissue balInp balRad balSeg ∧ SignsAgree balInp ∧
    (∃ r ∈ balInp.build.rows, r.2.1 = true) ∧
    (∀ r ∈ balInp.build.rows, r.2.1 = true →
      ((balInp.endCols r.1).map fun c => balTau c * (arcDir balInp balRad balSeg r.1 c).x).sum = 0 ∧
      ((balInp.endCols r.1).map fun c => balTau c * (arcDir balInp balRad balSeg r.1 c).y).sum = 0) ∧
    (∀ c < balInp.build.used.length, 0 < balTau c) ∧
    (∀ r ∈ balInp.build.rows, r.2.1 = true → ∀ c < balInp.build.used.length,
      endsAt (balInp.build.used.getD c []) r.1 = true →
        arcLen balInp balRad balSeg r.1 c = balLen r.1 c ∧ arcDir balInp balRad balSeg r.1 c = balDir r.1 c) ∧
    normalisedMatrix balInp (arcLen balInp balRad balSeg) = normalisedMatrix balInp balLen := by
  decide +kernel

/-- hypothesis (d) on the lens -/
theorem bal_arc_injective : ∀ x x' : List Rat, x.length = balInp.build.used.length + 1 →
    x'.length = balInp.build.used.length + 1 →
    mulVec (addMeanOne (normalisedMatrix balInp (arcLen balInp balRad balSeg))
        (List.replicate (normalisedMatrix balInp (arcLen balInp balRad balSeg)).length 0)).1 x
      = mulVec (addMeanOne (normalisedMatrix balInp (arcLen balInp balRad balSeg))
        (List.replicate (normalisedMatrix balInp (arcLen balInp balRad balSeg)).length 0)).1 x' → x = x' := by
  rw [bal_arcTissue.2.2.2.2.2.2]
  exact bal_injective

/-- the general theorem 2 instantiated on the lens -/
example : ∀ r ∈ balInp.build.rows, r.2.1 = true → ∀ c < balInp.build.used.length,
    endsAt (balInp.build.used.getD c []) r.1 = true →
      balInp.tangentAt c r.1
        = some (Vec.smul (arcLen balInp balRad balSeg r.1 c) (arcDir balInp balRad balSeg r.1 c)) :=
  (arcTissue_hnorm_htrue balInp balRad balSeg bal_arcTissue.1 bal_arcTissue.2.1).2.1

/-- a minimiser exists: (30/31, 14/31, 40/31, 40/31, 0) has residual zero -/
example :
    normalisedTensions balInp.build.used.length balTau ++ [0] = [30/31, 14/31, 40/31, 40/31, 0] ∧
    (∀ x : List Rat, x.length = balInp.build.used.length + 1 → (∀ v ∈ x, 0 ≤ v) →
      residSq (addMeanOne (normalisedMatrix balInp (arcLen balInp balRad balSeg))
            (List.replicate (normalisedMatrix balInp (arcLen balInp balRad balSeg)).length 0)).1
          (addMeanOne (normalisedMatrix balInp (arcLen balInp balRad balSeg))
            (List.replicate (normalisedMatrix balInp (arcLen balInp balRad balSeg)).length 0)).2
          [30/31, 14/31, 40/31, 40/31, 0]
        ≤ residSq (addMeanOne (normalisedMatrix balInp (arcLen balInp balRad balSeg))
            (List.replicate (normalisedMatrix balInp (arcLen balInp balRad balSeg)).length 0)).1
          (addMeanOne (normalisedMatrix balInp (arcLen balInp balRad balSeg))
            (List.replicate (normalisedMatrix balInp (arcLen balInp balRad balSeg)).length 0)).2 x) := by
  have h0 : normalisedTensions balInp.build.used.length balTau ++ [0] = [30/31, 14/31, 40/31, 40/31, 0] := by
    decide +kernel
  refine ⟨h0, ?_⟩
  intro x _ _
  obtain ⟨h1, h2, _⟩ := arcTissue_hnorm_htrue balInp balRad balSeg bal_arcTissue.1 bal_arcTissue.2.1
  have := assembled_truth_solves balInp (arcLen balInp balRad balSeg) (arcDir balInp balRad balSeg) balTau
    bal_arcTissue.2.2.1 h1 h2 bal_arcTissue.2.2.2.1 bal_arcTissue.2.2.2.2.1
  rw [h0] at this
  rw [this]
  exact residSq_nonneg _ _ _

/-- `arcTissue_static_inference` applied to the lens: whatever the solver returns as a non-negative least-squares
    minimiser is (30/31, 14/31, 40/31, 40/31, 0) — the true tensions (3, 7/5, 4, 4) over their mean 31/10, multiplier 0 -/
theorem bal_arcTissue_inference (y : List Rat) (hy : y.length = balInp.build.used.length + 1)
    (hmin : ∀ x : List Rat, x.length = balInp.build.used.length + 1 → (∀ v ∈ x, 0 ≤ v) →
      residSq (addMeanOne (normalisedMatrix balInp (arcLen balInp balRad balSeg))
            (List.replicate (normalisedMatrix balInp (arcLen balInp balRad balSeg)).length 0)).1
          (addMeanOne (normalisedMatrix balInp (arcLen balInp balRad balSeg))
            (List.replicate (normalisedMatrix balInp (arcLen balInp balRad balSeg)).length 0)).2 y
        ≤ residSq (addMeanOne (normalisedMatrix balInp (arcLen balInp balRad balSeg))
            (List.replicate (normalisedMatrix balInp (arcLen balInp balRad balSeg)).length 0)).1
          (addMeanOne (normalisedMatrix balInp (arcLen balInp balRad balSeg))
            (List.replicate (normalisedMatrix balInp (arcLen balInp balRad balSeg)).length 0)).2 x) :
    y = [30/31, 14/31, 40/31, 40/31, 0] := by
  rw [arcTissue_static_inference balInp balRad balSeg balTau y bal_arcTissue.2.2.1 bal_arcTissue.1
    bal_arcTissue.2.1 bal_arcTissue.2.2.2.1 bal_arcTissue.2.2.2.2.1 hy bal_arc_injective hmin]
  decide +kernel

/-- hypotheses of `dir_is_circle_tangent_partial` on the lens, at junction 0 of the arc (column 0): the neighbouring
    point (2,1) is on the circle, distinct from (0,0) and not its antipode (4,−3); the conclusion: positive projection -/
example : 0 < Vec.dot (arcDir balInp balRad balSeg 0 0) ⟨2, 1⟩ := by
  obtain ⟨p, ch, hch, _, _, _, _, hstrict, _⟩ := dir_is_circle_tangent_partial balInp balRad balSeg bal_arcTissue.1 0
    (by decide +kernel) 0 (by decide +kernel) (by decide +kernel)
  have h0 : chordAt (balInp.colIds 0) (balInp.colPts 0) 0 = some (⟨0,0⟩, ⟨2,1⟩) := by decide +kernel
  rw [h0] at hch
  obtain ⟨rfl, rfl⟩ : (⟨0,0⟩ : Pt) = p ∧ (⟨2,1⟩ : Vec) = ch := by
    simpa only [Option.some.injEq, Prod.mk.injEq] using hch
  exact hstrict ⟨2, 1⟩ (by decide +kernel) (by decide +kernel) (by decide +kernel) (by decide +kernel)

/-- hypotheses of `dir_is_unit_chord` / `exactArcs_arcTissue` / `chord_of_circle_not_radial` on the lens -/
example : (balInp.build.used.getD 1 []).length = 2 ∧ endsAt (balInp.build.used.getD 1 []) 0 = true ∧
    (∀ c < balInp.build.used.length, 2 ≤ (balInp.build.used.getD c []).length) ∧
    (∀ c < balInp.build.used.length, (balInp.build.used.getD c []).length ≠ 2 →
      0 < balRad c ∧ ∀ p ∈ balInp.colPts c, (balRad c) ^ 2 = distSq p (balInp.colCentre c)) ∧
    distSq ⟨2,1⟩ ⟨2,-3/2⟩ = distSq ⟨0,0⟩ ⟨2,-3/2⟩ ∧ (⟨2,1⟩ : Pt) ≠ ⟨0,0⟩ ∧
    (⟨2,1⟩ : Pt) ≠ ⟨2 * 2 - 0, 2 * (-3/2) - 0⟩ := by
  decide +kernel

/-! ### 7. the dynamic theorem (C03) for the same tissues -/

/-- `dynamic_inference_recovers_tensions` (Props/C03matrix.lean) with `hnorm`/`htrue` replaced by `ArcTissue` /
    `SignsAgree`: for a tissue of exact arcs and two-point segments on which D2 does not strike, whose junction
    velocities are the net pull of the true tensions along the circle tangents (`hdyn`), the true tensions being
    non-negative with mean one and the augmented matrix injective, every non-negative least-squares minimiser is the
    true tensions followed by the multiplier 0. -/
theorem arcTissue_dynamic_inference (inp : FMInput) (ρ ℓ : Nat → Rat) (tau : Nat → Rat) (vel : Id → Vec)
    (y : List Rat)
    (hk : ∃ r ∈ inp.build.rows, r.2.1 = true)
    (hA : ArcTissue inp ρ ℓ) (hS : SignsAgree inp)
    (hdyn : ∀ r ∈ inp.build.rows, r.2.1 = true →
      ((inp.endCols r.1).map fun c => tau c * (arcDir inp ρ ℓ r.1 c).x).sum = (vel r.1).x ∧
      ((inp.endCols r.1).map fun c => tau c * (arcDir inp ρ ℓ r.1 c).y).sum = (vel r.1).y)
    (hnn : ∀ c < inp.build.used.length, 0 ≤ tau c)
    (hsum : (tauVec inp.build.used.length tau).sum = (inp.build.used.length : Rat))
    (hy : y.length = inp.build.used.length + 1)
    (hinj : ∀ x x' : List Rat, x.length = inp.build.used.length + 1 → x'.length = inp.build.used.length + 1 →
      mulVec (addMeanOne (normalisedMatrix inp (arcLen inp ρ ℓ)) (velocityRhs inp vel)).1 x
        = mulVec (addMeanOne (normalisedMatrix inp (arcLen inp ρ ℓ)) (velocityRhs inp vel)).1 x' →
      x = x')
    (hmin : ∀ x : List Rat, x.length = inp.build.used.length + 1 → (∀ v ∈ x, 0 ≤ v) →
      residSq (addMeanOne (normalisedMatrix inp (arcLen inp ρ ℓ)) (velocityRhs inp vel)).1
          (addMeanOne (normalisedMatrix inp (arcLen inp ρ ℓ)) (velocityRhs inp vel)).2 y
        ≤ residSq (addMeanOne (normalisedMatrix inp (arcLen inp ρ ℓ)) (velocityRhs inp vel)).1
          (addMeanOne (normalisedMatrix inp (arcLen inp ρ ℓ)) (velocityRhs inp vel)).2 x) :
    y = tauVec inp.build.used.length tau ++ [0] := by
  obtain ⟨h1, h2, _⟩ := arcTissue_hnorm_htrue inp ρ ℓ hA hS
  exact dynamic_inference_recovers_tensions inp (arcLen inp ρ ℓ) (arcDir inp ρ ℓ) tau vel y hk h1 h2 hdyn hnn hsum
    hy hinj hmin

/-- non-vacuity of the dynamic statement: the lens with tensions (1,1,1,1) and the velocities `dynVel` of
    Props/C03matrix.lean — `hdyn` along `arcDir`, and the theorem applied -/
theorem bal_arcTissue_dynamic (y : List Rat) (hy : y.length = balInp.build.used.length + 1)
    (hmin : ∀ x : List Rat, x.length = balInp.build.used.length + 1 → (∀ v ∈ x, 0 ≤ v) →
      residSq (addMeanOne (normalisedMatrix balInp (arcLen balInp balRad balSeg)) (velocityRhs balInp dynVel)).1
          (addMeanOne (normalisedMatrix balInp (arcLen balInp balRad balSeg)) (velocityRhs balInp dynVel)).2 y
        ≤ residSq (addMeanOne (normalisedMatrix balInp (arcLen balInp balRad balSeg)) (velocityRhs balInp dynVel)).1
          (addMeanOne (normalisedMatrix balInp (arcLen balInp balRad balSeg)) (velocityRhs balInp dynVel)).2 x) :
    y = [1, 1, 1, 1, 0] := by
  have hdyn : ∀ r ∈ balInp.build.rows, r.2.1 = true →
      ((balInp.endCols r.1).map fun c => dynTau c * (arcDir balInp balRad balSeg r.1 c).x).sum = (dynVel r.1).x ∧
      ((balInp.endCols r.1).map fun c => dynTau c * (arcDir balInp balRad balSeg r.1 c).y).sum = (dynVel r.1).y := by
    decide +kernel
  rw [arcTissue_dynamic_inference balInp balRad balSeg dynTau dynVel y bal_arcTissue.2.2.1 bal_arcTissue.1
    bal_arcTissue.2.1 hdyn dyn_hypotheses.2.1 dyn_hypotheses.2.2.1 hy
    (by rw [bal_arcTissue.2.2.2.2.2.2]; exact dyn_injective) hmin]
  decide +kernel

/- PENDING (not proved here; hypotheses of the theorems above):
   * `SignsAgree` is a hypothesis: where it fails (finding D2, `signsAgree_necessary_witness`) the model — and the code —
     place the mirror image of the tangent and the conclusion of C01 is not available;
   * `ArcTissue` asks only the END points of a curved interface to lie on the circle about the centre in `inp.centers`;
     that the external circle fit returns the centre of the circle through the interface's points (exactly for an exact
     arc) is the contract of the fit, checked per run (C02 harness), not modelled;
   * the rational radius / length (`ρ c`, `ℓ c`) stand for `np.linalg.norm` (IEEE sqrt) as in Props/C01matrix.lean; a
     tissue whose radii or segment lengths are irrational is outside `ArcTissue` (the model has no square root);
   * a criterion for hypothesis (d) (`hinj`) in terms of the tissue graph; that the solver returns a minimiser (`hmin`).
-/

end Forsys
