/-
  Property C17 — myosin quantification, second batch of property theorems
  (helper lemmas in ForsysModel/Proofs/C17more.lean; the first batch is Props/C17.lean).

  What this file adds to Props/C17.lean, clause by clause:
  * placement: the statistic and the band depend on rescale/offset only through the placed vertices;
  * degenerate sizes: layers = 0, a single vertex, an empty / one-vertex polyline (band is empty);
  * order: vertex order inside an interface and the order of the interface list do not matter
    (up to the same reordering of the result); every entry depends on its own interface only
    (plus the common mean under 'average');
  * linearity: the integrated statistic is additive in the image, the window (median) statistic is not;
  * uniform image: with integration the value is (number of band pixels)·k/length (not constant: witness);
    under 'average' normalisation all interfaces of a uniform image get exactly 1;
  * normalisation: sum = number of interfaces, idempotence, the guard `mean ≠ 0` is necessary,
    `c > 0` is necessary for brightness invariance;
  * write-back: the whole assignment sequence is `zip(objects, values)`; the hypothesis `hid` of
    `writeback_order` is necessary.
-/
import ForsysModel.Model.Myosin
import ForsysModel.Props.C17
import ForsysModel.Proofs.C17more

namespace Forsys.Myosin

/-! ### placement by rescale / offset -/

/-- the window statistic sees rescale/offset only through the placed vertices -/
theorem windowStat_place (img : Image) (prm : Params) (verts : List Pt) :
    windowStat img prm verts = windowStat img { layers := prm.layers } (verts.map (place prm)) := by
  unfold windowStat getIntensity
  simp only [List.map_map, place_default]
  rfl

/-- the band sees rescale/offset only through the placed vertices -/
theorem band_place (prm : Params) (verts : List Pt) :
    band prm verts = band { layers := prm.layers } (verts.map (place prm)) := by
  unfold band
  rw [map_place_default]

/-- both branches: quantifying a tissue with rescale/offset = quantifying the placed tissue without -/
theorem rawIntensity_place (img : Image) (prm : Params) (integrate : Bool) (f : Iface) :
    rawIntensity img prm integrate f =
      rawIntensity img { layers := prm.layers } integrate { f with verts := f.verts.map (place prm) } := by
  unfold rawIntensity
  cases integrate
  · simp only [Bool.false_eq_true, if_false]; exact windowStat_place img prm f.verts
  · simp only [if_true]; rw [band_place]

/-! ### degenerate sizes -/

/-- `layers = 0`: the window is the vertex pixel, the statistic is the mean of the vertex pixels -/
theorem windowStat_layers_zero (img : Image) (prm : Params) (verts : List Pt) (h : prm.layers = 0) :
    windowStat img prm verts = mean (verts.map fun v => getpixel img (place prm v)) := by
  unfold windowStat getIntensity
  simp only [h, layerElements_zero, List.map_cons, List.map_nil, median_singleton]

/-- an interface with one vertex: the median of its window -/
theorem windowStat_singleton (img : Image) (prm : Params) (v : Pt) :
    windowStat img prm [v] = median (getIntensity img prm v) := by
  unfold windowStat
  simp only [List.map_cons, List.map_nil, mean_singleton]

/-- a polyline with fewer than two vertices has no segment: the band is empty and nothing is summed
    (the Python length is then `0` and the division raises; the model's quotient is not used here) -/
theorem band_short (img : Image) (prm : Params) (verts : List Pt) (h : verts.length ≤ 1) :
    band prm verts = [] ∧ segSq prm verts = [] ∧ bandSum img (band prm verts) = 0 := by
  match verts, h with
  | [], _ => simp [band, segSq, consec, distinct, bandSum]
  | [a], _ => simp [band, segSq, consec, distinct, bandSum]

/-- two equal consecutive vertices contribute no pixel (both walk ranges are empty) -/
theorem band_repeated_vertex (prm : Params) (v : Pt) : band prm [v, v] = [] := by
  simp [band, consec, walkTwoVertices, walkCentres, walkRange, distinct]

/-! ### order invariance -/

/-- the order of the vertices inside an interface does not matter without integration -/
theorem windowStat_perm (img : Image) (prm : Params) (verts verts' : List Pt) (h : verts.Perm verts') :
    windowStat img prm verts = windowStat img prm verts' := by
  unfold windowStat
  exact mean_perm (h.map _)

/-- FULL STATEMENT (false, see the witness): the integrated band does not depend on the direction of the
    polyline:  `band prm verts.reverse = band prm verts` (as sets).  The walk includes its start and
    excludes its end, so the last vertex' neighbourhood is only covered from one side. -/
theorem band_reverse_witness :
    ¬ (∀ p, p ∈ band { layers := 0 } [⟨2, 2⟩, ⟨5, 2⟩] ↔ p ∈ band { layers := 0 } [⟨5, 2⟩, ⟨2, 2⟩]) := by
  intro h
  have := (h ⟨2, 2⟩).mp (by decide +kernel)
  revert this
  decide +kernel

theorem intensityValues_length (img : Image) (prm : Params) (integrate : Bool) (norm : Norm) (ifs : List Iface) :
    (intensityValues img prm integrate norm ifs).length = ifs.length := by
  unfold intensityValues rawIntensities
  rw [normalise_length, List.length_map]

theorem getIntensities_length (img : Image) (prm : Params) (integrate : Bool) (norm : Norm) (ifs : List Iface) :
    (getIntensities img prm integrate norm ifs).length = ifs.length := by
  rw [← intensityValues_length img prm integrate norm ifs, ← values_in_order, List.length_map]

/-- every entry depends on its own interface only (and, under 'average', on the common mean) -/
theorem intensityValues_getElem (img : Image) (prm : Params) (integrate : Bool) (ifs : List Iface) (i : Nat) :
    (intensityValues img prm integrate .none ifs)[i]? = (ifs[i]?).map (rawIntensity img prm integrate) ∧
    (intensityValues img prm integrate .average ifs)[i]? =
      (ifs[i]?).map fun f => rawIntensity img prm integrate f / mean (rawIntensities img prm integrate ifs) := by
  constructor
  · simp [intensityValues, normalise, rawIntensities]
  · simp only [intensityValues, normalise, rawIntensities, List.map_map, List.getElem?_map]
    rfl

/-- reordering the interface list reorders the result the same way (both normalisations) -/
theorem intensityValues_perm (img : Image) (prm : Params) (integrate : Bool) (norm : Norm)
    (ifs ifs' : List Iface) (h : ifs.Perm ifs') :
    (intensityValues img prm integrate norm ifs).Perm (intensityValues img prm integrate norm ifs') := by
  unfold intensityValues rawIntensities
  exact normalise_perm norm (h.map _)

/-! ### linearity in the image: additivity -/

/-- with integration the statistic is additive in the image -/
theorem integrated_additive (img1 img2 img3 : Image) (prm : Params) (f : Iface)
    (h : ∀ p ∈ band prm f.verts, getpixel img3 p = getpixel img1 p + getpixel img2 p) :
    rawIntensity img3 prm true f = rawIntensity img1 prm true f + rawIntensity img2 prm true f := by
  unfold rawIntensity
  simp only [if_true]
  rw [bandSum_add img1 img2 img3 _ h]
  ring

/-- non-vacuity of the hypothesis of `integrated_additive` -/
example : ∀ p ∈ band { layers := 1 } [⟨1, 1⟩, ⟨3, 1⟩],
    getpixel ⟨[[3, 1, 4, 1], [5, 9, 2, 6], [5, 3, 5, 8]]⟩ p =
      getpixel ⟨[[1, 1, 1, 1], [2, 2, 2, 2], [0, 3, 0, 3]]⟩ p +
      getpixel ⟨[[2, 0, 3, 0], [3, 7, 0, 4], [5, 0, 5, 5]]⟩ p := by
  decide +kernel

/-- FULL STATEMENT (false): the same with `false` (no integration).  The median is not additive. -/
theorem windowStat_additive_witness :
    let img1 : Image := ⟨[[1, 0, 0], [1, 0, 0], [1, 0, 0]]⟩
    let img2 : Image := ⟨[[0, 1, 0], [0, 1, 0], [0, 1, 0]]⟩
    let img3 : Image := ⟨[[1, 1, 0], [1, 1, 0], [1, 1, 0]]⟩
    let f : Iface := ⟨0, [⟨1, 1⟩], 1⟩
    (∀ p, getpixel img3 p = getpixel img1 p + getpixel img2 p) ∧
    rawIntensity img3 { layers := 1 } false f ≠
      rawIntensity img1 { layers := 1 } false f + rawIntensity img2 { layers := 1 } false f := by
  refine ⟨?_, by decide +kernel⟩
  intro p
  simp only [getpixel, Image.at]
  generalize pixelOf p = xy
  obtain ⟨x, y⟩ := xy
  by_cases hx : x < 0
  · simp [hx]
  by_cases hy : y < 0
  · simp [hy]
  simp only [hx, hy, or_self, if_false]
  obtain ⟨n, rfl⟩ := Int.eq_ofNat_of_zero_le (not_lt.mp hx)
  obtain ⟨m, rfl⟩ := Int.eq_ofNat_of_zero_le (not_lt.mp hy)
  simp only [Int.toNat_natCast]
  rcases m with _ | _ | _ | m <;> rcases n with _ | _ | _ | n <;> simp

/-! ### uniformly bright image -/

/-- with integration a uniformly bright image gives (number of band pixels)·k / length -/
theorem uniform_integrated (w h : Nat) (k : Rat) (prm : Params) (f : Iface)
    (hin : ∀ p ∈ band prm f.verts, (uniformImage w h k).inside p = true) :
    rawIntensity (uniformImage w h k) prm true f = ((band prm f.verts).length : Rat) * k / f.len := by
  unfold rawIntensity
  simp only [if_true]
  rw [bandSum_const _ _ k (fun p hp => getpixel_uniform w h k p (hin p hp))]

/-- non-vacuity of `hin` -/
example : ∀ p ∈ band { layers := 1 } ([⟨2, 2⟩, ⟨6, 2⟩] : List Pt), (uniformImage 9 9 7).inside p = true := by
  decide +kernel

/-- FULL STATEMENT (false): `uniform_equal_all` with `integrate = true`.  A horizontal segment of
    length 4 and a 3-4-5 diagonal of length 5 (exact lengths) in the same uniform image. -/
theorem uniform_integrated_witness :
    let f : Iface := ⟨0, [⟨2, 2⟩, ⟨6, 2⟩], 4⟩
    let g : Iface := ⟨1, [⟨2, 2⟩, ⟨5, 6⟩], 5⟩
    segSq { layers := 1 } f.verts = [4 * 4] ∧ segSq { layers := 1 } g.verts = [5 * 5] ∧
    (∀ p ∈ band { layers := 1 } f.verts ++ band { layers := 1 } g.verts, (uniformImage 9 9 7).inside p = true) ∧
    rawIntensity (uniformImage 9 9 7) { layers := 1 } true f ≠
      rawIntensity (uniformImage 9 9 7) { layers := 1 } true g := by
  decide +kernel

/-- under 'average' normalisation every interface of a uniformly bright (non-black) image gets exactly 1 -/
theorem uniform_average_all_one (w h : Nat) (k : Rat) (hk : k ≠ 0) (prm : Params) (ifs : List Iface)
    (hv : ∀ f ∈ ifs, f.verts ≠ [])
    (hin : ∀ f ∈ ifs, ∀ v ∈ f.verts, ∀ p ∈ getLayerElements (place prm v) prm.layers,
      (uniformImage w h k).inside p = true) :
    intensityValues (uniformImage w h k) prm false .average ifs = List.replicate ifs.length 1 := by
  have hraw := uniform_equal_all w h k prm ifs hv hin
  simp only [intensityValues, normalise] at hraw ⊢
  rw [hraw]
  by_cases h0 : ifs.length = 0
  · simp [h0]
  · rw [mean_replicate _ _ h0, List.map_replicate, div_self hk]

/-! ### 'average' normalisation -/

/-- the normalised intensities sum to the number of interfaces -/
theorem average_sum_eq_length (img : Image) (prm : Params) (integrate : Bool) (ifs : List Iface)
    (h : mean (rawIntensities img prm integrate ifs) ≠ 0) :
    (intensityValues img prm integrate .average ifs).sum = (ifs.length : Rat) := by
  have h1 := average_mean_one img prm integrate ifs h
  have hne : intensityValues img prm integrate .average ifs ≠ [] := by
    intro h'; rw [h'] at h1; simp [mean] at h1
  rw [mean_ne_nil _ hne, intensityValues_length] at h1
  have hn : (ifs.length : Rat) ≠ 0 := by
    intro h'; rw [h'] at h1; simp at h1
  field_simp at h1
  exact h1

/-- non-vacuity of the guard of `average_sum_eq_length` / `average_idempotent`: two interfaces, integrated -/
example : mean (rawIntensities (uniformImage 9 9 7) { layers := 1 } true
    [(⟨0, [⟨2, 2⟩, ⟨6, 2⟩], 4⟩ : Iface), ⟨1, [⟨2, 2⟩, ⟨5, 6⟩], 5⟩]) ≠ 0 := by
  decide +kernel

/-- non-vacuity of the hypotheses of `uniform_average_all_one`: two interfaces, one repeated -/
example : ∀ f ∈ [(⟨0, [⟨2, 2⟩, ⟨5/2, 3⟩], 1⟩ : Iface), ⟨1, [⟨3, 3⟩], 1⟩, ⟨0, [⟨2, 2⟩, ⟨5/2, 3⟩], 1⟩],
    f.verts ≠ [] ∧ ∀ v ∈ f.verts,
    ∀ p ∈ getLayerElements (place { layers := 1 } v) 1, (uniformImage 6 6 7).inside p = true := by
  decide +kernel

/-- normalising twice is normalising once -/
theorem average_idempotent (img : Image) (prm : Params) (integrate : Bool) (ifs : List Iface)
    (h : mean (rawIntensities img prm integrate ifs) ≠ 0) :
    normalise .average (intensityValues img prm integrate .average ifs) =
      intensityValues img prm integrate .average ifs := by
  have h1 := average_mean_one img prm integrate ifs h
  conv_lhs => unfold normalise
  simp only [h1, div_one, List.map_id']

/-- the ratios of the raw intensities survive the normalisation -/
theorem average_ratio (img : Image) (prm : Params) (integrate : Bool) (ifs : List Iface) (i j : Nat)
    (hi : i < ifs.length) (hj : j < ifs.length) :
    (intensityValues img prm integrate .average ifs).getD i 0 * rawIntensity img prm integrate ifs[j] =
      (intensityValues img prm integrate .average ifs).getD j 0 * rawIntensity img prm integrate ifs[i] := by
  have hi' := (intensityValues_getElem img prm integrate ifs i).2
  have hj' := (intensityValues_getElem img prm integrate ifs j).2
  rw [List.getD_eq_getElem?_getD, List.getD_eq_getElem?_getD, hi', hj']
  simp only [List.getElem?_eq_getElem hi, List.getElem?_eq_getElem hj, Option.map_some, Option.getD_some]
  ring

/-- the guard of `average_mean_one` is necessary: a black image (numpy raises under forsys' seterr) -/
theorem average_mean_one_witness :
    let ifs : List Iface := [⟨0, [⟨2, 2⟩, ⟨5/2, 3⟩], 1⟩]
    mean (rawIntensities (uniformImage 6 6 0) { layers := 1 } false ifs) = 0 ∧
    mean (intensityValues (uniformImage 6 6 0) { layers := 1 } false .average ifs) ≠ 1 := by
  decide +kernel

/-- `c > 0` in `intensity_scale_average` is necessary: `c = 0` -/
theorem intensity_scale_average_witness :
    let ifs : List Iface := [⟨0, [⟨2, 2⟩, ⟨5/2, 3⟩], 1⟩]
    intensityValues ((uniformImage 6 6 7).scale 0) { layers := 1 } false .average ifs ≠
      intensityValues (uniformImage 6 6 7) { layers := 1 } false .average ifs := by
  decide +kernel

/-! ### write-back -/

/-- the whole sequence of assignments `big_edge.gt = …`: the objects in list order, each with the value
    stored under its position -/
theorem gtWrites_zip (img : Image) (prm : Params) (integrate : Bool) (norm : Norm) (ifs : List Iface) :
    gtWrites img prm integrate norm ifs =
      (ifs.map (·.oid)).zip (intensityValues img prm integrate norm ifs) := by
  rw [gtWrites_eq, intensityValues_eq_map]
  generalize valueOf img prm integrate norm ifs = g
  induction ifs with
  | nil => rfl
  | cons a l ih => simp only [List.map_cons, List.zip_cons_cons, ih]

/-- `hid` of `writeback_order` is necessary: two different interfaces passed under one identity -/
theorem writeback_order_witness :
    let f : Iface := ⟨0, [⟨2, 2⟩], 1⟩
    let g : Iface := ⟨0, [⟨4, 4⟩], 1⟩
    let img : Image := ⟨[[0, 0, 0, 0, 0, 0], [0, 0, 0, 0, 0, 0], [0, 0, 3, 0, 0, 0], [0, 0, 0, 0, 0, 0],
      [0, 0, 0, 0, 8, 0], [0, 0, 0, 0, 0, 0]]⟩
    gtAfter img { layers := 0 } false .none [f, g] ([f, g][0]).oid ≠
      (intensityValues img { layers := 0 } false .none [f, g])[0]? := by
  decide +kernel

end Forsys.Myosin
