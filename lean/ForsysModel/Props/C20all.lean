/-
  Umbrella of property C20: the geometry-primitive theorems (Props/C20.lean) and the theorems on the cycle
  structure — iterated navigation, orientation under motions and reflections, fan decomposition, perimeter terms,
  centroid, neighbour symmetry (Props/C20cycle.lean).
  lean/props.json names this module for C20, so that `./check C20` builds and audits both.
-/
import ForsysModel.Props.C20
import ForsysModel.Props.C20cycle
