/-
  Umbrella of property C15: the first loop of `Skeleton.create_lattice` — interning, mesh-edge de-duplication, cells, the
  consistent raw mesh, finding D16 (Props/C15.lean) — and the clean-up stages: the invariant "consistent modulo deleted vertex
  keys", its preservation by the inner-triangle loop, the T3 transitions and the isolated-cell loop, and what `cleanup`
  returns (Props/C15cleanup.lean, shared with C09).
  lean/props.json names this module for C15, so that `./check C15` builds and audits both.
-/
import ForsysModel.Props.C15
import ForsysModel.Props.C15cleanup
import ForsysModel.Props.C15more
