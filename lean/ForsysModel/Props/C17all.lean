/-
  Property C17 — umbrella: all property theorems for the myosin quantification
  (first batch Props/C17.lean, second batch Props/C17more.lean).
-/
import ForsysModel.Props.C17
import ForsysModel.Props.C17more
