/-
  Umbrella of property C07: the combinatorial and least-squares invariance theorems (Props/C07.lean: interfaces of a cell
  up to rotation / reversal of the stored cycle, de-duplication up to reversal, relabelling, order of equations and
  unknowns) and the end-to-end relabelling theorems for the force-matrix model (Props/C07matrix.lean: renumbering the
  vertices leaves the assembled matrix unchanged; permuting the unknowns and the junctions permutes the system).
  lean/props.json names this module for C07, so that `./check C07` builds and audits both.
  Props/C07order.lean: storage order at the level of the mesh (a cell cycle rotated or reversed, the cell / vertex /
  mesh-edge dictionaries in another order): same interfaces up to order and direction, same coefficients, same
  least-squares objective per interface.
  Props/C07more.lean: all cells stored differently at once, renumbering of cell ids and mesh-edge ids (interfaces,
  classification, own cells, pressure system), the physical interfaces under the storage variants.
-/
import ForsysModel.Props.C07
import ForsysModel.Props.C07matrix
import ForsysModel.Props.C07order
import ForsysModel.Props.C07more
