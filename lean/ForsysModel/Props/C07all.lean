/-
  Umbrella of property C07: the combinatorial and least-squares invariance theorems (Props/C07.lean: interfaces of a cell
  up to rotation / reversal of the stored cycle, de-duplication up to reversal, relabelling, order of equations and
  unknowns) and the end-to-end relabelling theorems for the force-matrix model (Props/C07matrix.lean: renumbering the
  vertices leaves the assembled matrix unchanged; permuting the unknowns and the junctions permutes the system).
  lean/props.json names this module for C07, so that `./check C07` builds and audits both.
-/
import ForsysModel.Props.C07
import ForsysModel.Props.C07matrix
