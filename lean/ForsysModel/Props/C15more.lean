/-
  Property C15, additions — the symmetry clause of the statement ("… the same for the image flipped, transposed, rotated by
  quarter turns, padded, or read with the y-axis mirrored") for the part of `create_lattice` that is proved for all inputs.
  Helper lemmas: ForsysModel/Proofs/C15more.lean.

  Key fact: the first loop of `create_lattice` sees the pixel positions only through equality tests (`coords_to_key`), so it
  commutes with *every injective* map of the pixel plane: same vertex ids, same mesh edges (ids and ends), same cells; only
  the stored positions are mapped.  The 8 symmetries of the square, translations (padding / cropping offset) and `mirror_y`
  are injective.  The border / external flags and the interfaces (`all_big_edges`) are read off the combinatorial part of the
  mesh only (`forgetCoords`), so they are the same as well.
-/
import ForsysModel.Proofs.C15more

namespace Forsys.Skel
open Mesh

-- defined in ForsysModel/Proofs/C15more.lean:
--   mapPx f cs      = cs.map (·.map f)                         the contours of the transformed image
--   mapKeys f keys  = keys.map fun pk => (f pk.1, pk.2)         `coords_to_key` with the positions mapped
--   mapRaw f r      = { r with keys := mapKeys f r.keys }
--   forgetCoords m  = m with every vertex's x, y set to 0       (the combinatorial part of a mesh)

/-! ### the first loop commutes with injective maps of the pixel plane -/

/-- ids, mesh edges and cells of the transformed image are those of the original; the stored positions are mapped -/
theorem rawOf_equivariant (f : Px → Px) (hf : Function.Injective f) (cs : List (List Px)) :
    rawOf (mapPx f cs) = mapRaw f (rawOf cs) :=
  rawOf_mapPx hf cs

/-- same cells (as vertex-id cycles), same mesh edges in the same order, as many vertices -/
theorem rawOf_topology_invariant (f : Px → Px) (hf : Function.Injective f) (cs : List (List Px)) :
    (rawOf (mapPx f cs)).cells = (rawOf cs).cells ∧ (rawOf (mapPx f cs)).edgesAdded = (rawOf cs).edgesAdded ∧
      (rawOf (mapPx f cs)).keys.map (·.2) = (rawOf cs).keys.map (·.2) := by
  rw [rawOf_mapPx hf]
  refine ⟨rfl, rfl, ?_⟩
  simp [mapRaw, mapKeys, List.map_map, Function.comp_def]

/-- injectivity is needed: projecting the unit square onto the x-axis merges vertices (and the first loop then raises) -/
theorem rawOf_equivariant_witness :
    (rawOf (mapPx (fun p => (p.1, 0)) [[(0, 0), (1, 0), (1, 1), (0, 1)]])).cells = [[0, 1, 1, 0]] ∧
    (rawOf [[(0, 0), (1, 0), (1, 1), (0, 1)]]).cells = [[0, 1, 2, 3]] ∧
    precheck (mapPx (fun p => (p.1, 0)) [[(0, 0), (1, 0), (1, 1), (0, 1)]]) = some .assertionError ∧
    precheck [[(0, 0), (1, 0), (1, 1), (0, 1)]] = none := by
  decide +kernel

/-- the first loop raises on the transformed image exactly when it raises on the original, with the same exception -/
theorem precheck_invariant (f : Px → Px) (hf : Function.Injective f) (cs : List (List Px)) :
    precheck (mapPx f cs) = precheck cs :=
  c15_precheck_map hf cs

/-- the hypothesis of the consistency theorems is invariant -/
theorem goodContours_invariant (f : Px → Px) (hf : Function.Injective f) (cs : List (List Px)) :
    GoodContours (mapPx f cs) ↔ GoodContours cs :=
  c15_good_map hf cs

/-! ### the mesh after the first loop: equal up to the vertex coordinates -/

theorem rawMesh_invariant (f : Px → Px) (hf : Function.Injective f) (cs : List (List Px)) :
    forgetCoords (rawMesh (mapPx f cs)) = forgetCoords (rawMesh cs) :=
  c15_forget_rawMesh_map hf cs

/-- in particular: the same mesh-edge and cell dictionaries, the same vertex keys, the same `ownEdges` / `ownCells` -/
theorem rawMesh_dicts_invariant (f : Px → Px) (hf : Function.Injective f) (cs : List (List Px)) :
    (rawMesh (mapPx f cs)).edges = (rawMesh cs).edges ∧ (rawMesh (mapPx f cs)).cells = (rawMesh cs).cells ∧
    (rawMesh (mapPx f cs)).vertices.map (·.1) = (rawMesh cs).vertices.map (·.1) ∧
    (∀ k, (rawMesh (mapPx f cs)).ownEdges k = (rawMesh cs).ownEdges k) ∧
    (∀ k, (rawMesh (mapPx f cs)).ownCells k = (rawMesh cs).ownCells k) := by
  have h := c15_forget_rawMesh_map hf cs
  refine ⟨show (forgetCoords _).edges = (forgetCoords _).edges from congrArg Mesh.edges h,
    show (forgetCoords _).cells = (forgetCoords _).cells from congrArg Mesh.cells h, ?_, fun k => ?_, fun k => ?_⟩
  · have := congrArg (fun m => m.vertices.map (·.1)) h
    simpa [forgetCoords, List.map_map, Function.comp_def] using this
  · rw [← forgetCoords_ownEdges, h, forgetCoords_ownEdges]
  · rw [← forgetCoords_ownCells, h, forgetCoords_ownCells]

/-- the border flags, the external flags and the interfaces are functions of the combinatorial part alone … -/
theorem flags_coordinate_free (m : Mesh) :
    borderCells (forgetCoords m) = borderCells m ∧ externalEdges (forgetCoords m) = externalEdges m ∧
      (forgetCoords m).bigEdgesList = m.bigEdgesList :=
  ⟨forgetCoords_borderCells m, forgetCoords_externalEdges m, forgetCoords_bigEdgesList m⟩

/-- … hence: the same border cells, the same external mesh edges, the same interfaces (so the same junctions: the ends
    of the interfaces) for the transformed image -/
theorem flags_invariant (f : Px → Px) (hf : Function.Injective f) (cs : List (List Px)) :
    borderCells (rawMesh (mapPx f cs)) = borderCells (rawMesh cs) ∧
    externalEdges (rawMesh (mapPx f cs)) = externalEdges (rawMesh cs) ∧
    (rawMesh (mapPx f cs)).bigEdgesList = (rawMesh cs).bigEdgesList := by
  have h := c15_forget_rawMesh_map hf cs
  refine ⟨?_, ?_, ?_⟩
  · rw [← forgetCoords_borderCells, h, forgetCoords_borderCells]
  · rw [← forgetCoords_externalEdges, h, forgetCoords_externalEdges]
  · rw [← forgetCoords_bigEdgesList, h, forgetCoords_bigEdgesList]

/-- mesh consistency of the transformed image -/
theorem rawMesh_consistent_invariant (f : Px → Px) (hf : Function.Injective f) (cs : List (List Px))
    (h : GoodContours cs) : (rawMesh (mapPx f cs)).Consistent = true :=
  rawMesh_consistent _ ((c15_good_map hf cs).mpr h)

/-! ### the maps of the statement are injective -/

/-- the 8 symmetries of a `W × H` image (flips, transposition, quarter turns) and the translations (padding) -/
def imageMaps (W H dx dy : Int) : List (Px → Px) :=
  [fun p => p, fun p => (W - p.1, p.2), fun p => (p.1, H - p.2), fun p => (W - p.1, H - p.2),
   fun p => (p.2, p.1), fun p => (H - p.2, p.1), fun p => (p.2, W - p.1), fun p => (H - p.2, W - p.1),
   fun p => (p.1 + dx, p.2 + dy)]

theorem imageMaps_injective (W H dx dy : Int) : ∀ f ∈ imageMaps W H dx dy, Function.Injective f := by
  intro f hf
  simp only [imageMaps, List.mem_cons, List.not_mem_nil, or_false] at hf
  rcases hf with rfl | rfl | rfl | rfl | rfl | rfl | rfl | rfl | rfl <;>
    (intro p q e; simp only [Prod.mk.injEq] at e; obtain ⟨e1, e2⟩ := e; exact Prod.ext (by omega) (by omega))

/-- the symmetry clause for the first loop, all in one: cells, mesh edges, flags, interfaces, consistency -/
theorem symmetry_invariance (W H dx dy : Int) (cs : List (List Px)) (h : GoodContours cs) :
    ∀ f ∈ imageMaps W H dx dy,
      (rawMesh (mapPx f cs)).cells = (rawMesh cs).cells ∧ (rawMesh (mapPx f cs)).edges = (rawMesh cs).edges ∧
      borderCells (rawMesh (mapPx f cs)) = borderCells (rawMesh cs) ∧
      externalEdges (rawMesh (mapPx f cs)) = externalEdges (rawMesh cs) ∧
      (rawMesh (mapPx f cs)).bigEdgesList = (rawMesh cs).bigEdgesList ∧
      (rawMesh (mapPx f cs)).Consistent = true := by
  intro f hf
  have hi := imageMaps_injective W H dx dy f hf
  have d := rawMesh_dicts_invariant f hi cs
  have g := flags_invariant f hi cs
  exact ⟨d.2.1, d.1, g.1, g.2.1, g.2.2, rawMesh_consistent_invariant f hi cs h⟩

/-- non-vacuity: the two unit squares, rotated by a quarter turn in a 2 × 1 frame: different positions, same cells -/
example : mapPx (fun p => ((1 : Int) - p.2, p.1)) [[(0, 0), (1, 0), (1, 1), (0, 1)], [(1, 0), (2, 0), (2, 1), (1, 1)]]
      = [[(1, 0), (1, 1), (0, 1), (0, 0)], [(1, 1), (1, 2), (0, 2), (0, 1)]] ∧
    (rawOf (mapPx (fun p => ((1 : Int) - p.2, p.1))
      [[(0, 0), (1, 0), (1, 1), (0, 1)], [(1, 0), (2, 0), (2, 1), (1, 1)]])).cells = [[0, 1, 2, 3], [1, 4, 5, 2]] := by
  decide +kernel

/-! ### `mirror_y` -/

/-- `mirror_y` is one of these maps (the reflection at `max_y`) -/
theorem mirror_is_map (cs : List (List Px)) :
    mirror cs = mapPx (fun p => (p.1, maxY cs - p.2)) cs ∧ Function.Injective (fun p : Px => (p.1, maxY cs - p.2)) :=
  ⟨rfl, c15_mirrorMap_inj _⟩

theorem mirror_topology_invariant (cs : List (List Px)) :
    (rawOf (mirror cs)).cells = (rawOf cs).cells ∧ (rawOf (mirror cs)).edgesAdded = (rawOf cs).edgesAdded ∧
    borderCells (rawMesh (mirror cs)) = borderCells (rawMesh cs) ∧
    externalEdges (rawMesh (mirror cs)) = externalEdges (rawMesh cs) ∧
    (rawMesh (mirror cs)).bigEdgesList = (rawMesh cs).bigEdgesList := by
  have t := rawOf_topology_invariant _ (c15_mirrorMap_inj (maxY cs)) cs
  have g := flags_invariant _ (c15_mirrorMap_inj (maxY cs)) cs
  exact ⟨t.1, t.2.1, g.1, g.2.1, g.2.2⟩

/-- reading with `mirror_y=True` raises in the first loop exactly when reading without does -/
theorem precheck_mirror (cs : List (List Px)) : precheck (mirror cs) = precheck cs :=
  c15_precheck_map (c15_mirrorMap_inj (maxY cs)) cs

/-- `Skeleton(f, mirror_y=True)` is `Skeleton(f')` on the mirrored contours -/
theorem createLattice_mirror (cs : List (List Px)) : createLattice cs true = createLattice (mirror cs) false := rfl

/-- `cells_eq_contours` for `mirror_y=True` -/
theorem cells_eq_contours_mirror (cs : List (List Px)) (l : Lattice) (h : (createLattice cs true).1 = .ok l)
    (hi : l.isolated = []) : l.mesh.cells.length = cs.length := by
  rw [createLattice_mirror] at h
  rw [cells_eq_contours (mirror cs) l h hi]
  simp [mirror]

/-- non-vacuity of `cells_eq_contours_mirror`: the four rooms of Props/C15cleanup.lean read with `mirror_y=True` -/
example : (match (createLattice fourRooms true).1 with
    | .ok l => l.isolated.isEmpty && l.mesh.cells.length == 4
    | .error _ => false) = true := by
  decide +kernel


/-! ### vertex count: a function of the set of contour pixels; error and cell count under the maps -/

theorem vertex_count_pixelset (cs cs' : List (List Px))
    (h : ∀ p, (∃ c ∈ cs, p ∈ c) ↔ (∃ c ∈ cs', p ∈ c)) :
    (rawOf cs).keys.length = (rawOf cs').keys.length := by
  have hp : ((rawOf cs).keys.map (·.1)).Perm ((rawOf cs').keys.map (·.1)) := by
    rw [List.perm_ext_iff_of_nodup (rawOf_keys_nodup cs) (rawOf_keys_nodup cs')]
    intro p
    rw [rawOf_keys_complete, rawOf_keys_complete, h]
  simpa using hp.length_eq

theorem vertex_count_perm (cs cs' : List (List Px)) (h : cs.flatten.Perm cs'.flatten) :
    (rawOf cs).keys.length = (rawOf cs').keys.length := by
  apply vertex_count_pixelset
  intro p
  have := h.mem_iff (a := p)
  simpa [List.mem_flatten] using this

theorem firstLoop_error_invariant (f : Px → Px) (hf : Function.Injective f) (cs : List (List Px)) (e : Err)
    (h : precheck cs = some e) (b : Bool) :
    createLattice (mapPx f cs) b = (.error e, false) ∧ createLattice cs b = (.error e, false) := by
  constructor
  · apply createLattice_unfold_error
    cases b
    · simpa [precheck_invariant f hf] using h
    · simpa [precheck_mirror, precheck_invariant f hf] using h
  · apply createLattice_unfold_error
    cases b
    · simpa using h
    · simpa [precheck_mirror] using h

theorem cells_eq_contours_map (f : Px → Px) (cs : List (List Px)) (b : Bool) (l : Lattice)
    (h : (createLattice (mapPx f cs) b).1 = .ok l) (hi : l.isolated = []) : l.mesh.cells.length = cs.length := by
  cases b
  · rw [cells_eq_contours _ l h hi]; simp [mapPx]
  · rw [cells_eq_contours_mirror _ l h hi]; simp [mapPx]

theorem symmetry_mirror_invariance (W H dx dy : Int) (cs : List (List Px)) :
    ∀ f ∈ imageMaps W H dx dy,
      (rawOf (mirror (mapPx f cs))).cells = (rawOf cs).cells ∧
      (rawOf (mirror (mapPx f cs))).edgesAdded = (rawOf cs).edgesAdded ∧
      borderCells (rawMesh (mirror (mapPx f cs))) = borderCells (rawMesh cs) ∧
      externalEdges (rawMesh (mirror (mapPx f cs))) = externalEdges (rawMesh cs) ∧
      (rawMesh (mirror (mapPx f cs))).bigEdgesList = (rawMesh cs).bigEdgesList := by
  intro f hf
  have hi := imageMaps_injective W H dx dy f hf
  have m := mirror_topology_invariant (mapPx f cs)
  have t := rawOf_topology_invariant f hi cs
  have g := flags_invariant f hi cs
  exact ⟨m.1.trans t.1, m.2.1.trans t.2.1, m.2.2.1.trans g.1, m.2.2.2.1.trans g.2.1, m.2.2.2.2.trans g.2.2⟩

/-- contour rotated / reversed -/
example : (rawOf [[(0, 0), (1, 0), (1, 1), (0, 1)], [(1, 0), (2, 0), (2, 1), (1, 1)]]).keys.length = 6 ∧
   (rawOf [[(1, 1), (2, 1), (2, 0), (1, 0)], [(1, 1), (0, 1), (0, 0), (1, 0)]]).keys.length = 6 := by decide +kernel

/-! ### the whole of `create_lattice` is coordinate-free, hence invariant -/

-- defined in ForsysModel/Proofs/C15more.lean:
--   forgetSt st      = { st with mesh := forgetCoords st.mesh }
--   forgetLattice l  = { l with mesh := forgetCoords l.mesh }
--   forgetResult r   = (r.1.map forgetLattice, r.2)          exceptions and the D16 flag are kept

/-- every clean-up stage commutes with forgetting the coordinates … -/
theorem stages_coordinate_free (st : St) (bigs : List (List Id)) (ext : List Id) (fuel : Nat) (l : List Id) :
    triangles (forgetSt st) bigs = (triangles st bigs).map forgetSt ∧
    getArtifacts (forgetSt st) ext = getArtifacts st ext ∧
    groupArtifacts fuel (forgetSt st) l = groupArtifacts fuel st l ∧
    (t3 (forgetSt st) l).map forgetSt = (t3 st l).map forgetSt ∧
    forgetCoords (finalMesh st) = finalMesh (forgetSt st) :=
  ⟨c15_FS_triangles st bigs, c15_FS_getArtifacts st ext, c15_FS_group fuel st l, c15_t3_coordfree st l,
    c15_F_finalMesh st⟩

/-- … so the clean-up as a whole does: same exception or same lattice up to coordinates, same D16 flag (the positions
    enter only the coordinates of the vertices created by `do_t3_transition`) -/
theorem cleanup_coordinate_free (m0 : Mesh) : forgetResult (cleanup (forgetCoords m0)) = forgetResult (cleanup m0) :=
  c15_cleanup_coordfree m0

theorem cleanup_congr (m m' : Mesh) (h : forgetCoords m = forgetCoords m') :
    forgetResult (cleanup m) = forgetResult (cleanup m') := by
  rw [← c15_cleanup_coordfree m, ← c15_cleanup_coordfree m', h]

/-- the symmetry clause for the whole modelled function: for every injective map of the pixel plane and both settings of
    `mirror_y` on either side, `create_lattice` raises the same exception or returns the same lattice up to coordinates -/
theorem createLattice_invariant (f : Px → Px) (hf : Function.Injective f) (cs : List (List Px)) (b b' : Bool) :
    forgetResult (createLattice (mapPx f cs) b) = forgetResult (createLattice cs b') := by
  have hm : ∀ X : List (List Px), forgetCoords (rawMesh (mirror X)) = forgetCoords (rawMesh X) :=
    fun X => c15_forget_rawMesh_map (c15_mirrorMap_inj (maxY X)) X
  have hF : forgetCoords (rawMesh (if b = true then mirror (mapPx f cs) else mapPx f cs))
      = forgetCoords (rawMesh (if b' = true then mirror cs else cs)) := by
    have h1 : forgetCoords (rawMesh (if b = true then mirror (mapPx f cs) else mapPx f cs))
        = forgetCoords (rawMesh cs) := by
      cases b
      · exact c15_forget_rawMesh_map hf cs
      · exact (hm _).trans (c15_forget_rawMesh_map hf cs)
    have h2 : forgetCoords (rawMesh (if b' = true then mirror cs else cs)) = forgetCoords (rawMesh cs) := by
      cases b'
      · rfl
      · exact hm _
    rw [h1, h2]
  have hP : precheck (if b = true then mirror (mapPx f cs) else mapPx f cs)
      = precheck (if b' = true then mirror cs else cs) := by
    have h1 : precheck (if b = true then mirror (mapPx f cs) else mapPx f cs) = precheck cs := by
      cases b
      · exact c15_precheck_map hf cs
      · exact (precheck_mirror _).trans (c15_precheck_map hf cs)
    have h2 : precheck (if b' = true then mirror cs else cs) = precheck cs := by
      cases b'
      · rfl
      · exact precheck_mirror _
    rw [h1, h2]
  unfold createLattice
  simp only
  rw [hP]
  cases precheck (if b' = true then mirror cs else cs) with
  | some e => rfl
  | none => exact cleanup_congr _ _ hF

/-- unpacked: a lattice for the transformed image gives a lattice for the original with the same cells, mesh edges,
    vertex keys, border cells, external edges, interfaces, artefact groups, removed vertices and removed cells -/
theorem createLattice_invariant_fields (f : Px → Px) (hf : Function.Injective f) (cs : List (List Px)) (b b' : Bool)
    (l' : Lattice) (h : (createLattice (mapPx f cs) b).1 = .ok l') :
    ∃ l, (createLattice cs b').1 = .ok l ∧ l.mesh.cells = l'.mesh.cells ∧ l.mesh.edges = l'.mesh.edges ∧
      l.mesh.vertices.map (·.1) = l'.mesh.vertices.map (·.1) ∧ l.border = l'.border ∧ l.external = l'.external ∧
      l.bigEdges = l'.bigEdges ∧ l.artifacts = l'.artifacts ∧ l.triangleDeleted = l'.triangleDeleted ∧
      l.isolated = l'.isolated ∧ (createLattice cs b').2 = (createLattice (mapPx f cs) b).2 := by
  have hi := createLattice_invariant f hf cs b b'
  have h1 := congrArg Prod.fst hi
  have h2 := congrArg Prod.snd hi
  simp only [forgetResult] at h1 h2
  rw [h] at h1
  cases hc : (createLattice cs b').1 with
  | error e => rw [hc] at h1; simp only [Except.map] at h1; cases h1
  | ok l =>
    rw [hc] at h1
    simp only [Except.map] at h1
    injection h1 with h1
    have hm : forgetCoords l'.mesh = forgetCoords l.mesh := congrArg Lattice.mesh h1
    refine ⟨l, rfl, ?_, ?_, ?_, ?_, ?_, ?_, ?_, ?_, ?_, h2.symm⟩
    · exact (show (forgetCoords _).cells = (forgetCoords _).cells from congrArg Mesh.cells hm).symm
    · exact (show (forgetCoords _).edges = (forgetCoords _).edges from congrArg Mesh.edges hm).symm
    · have := congrArg (fun m => m.vertices.map (·.1)) hm
      simpa [forgetCoords, List.map_map, Function.comp_def] using this.symm
    · exact (congrArg Lattice.border h1).symm
    · exact (congrArg Lattice.external h1).symm
    · exact (congrArg Lattice.bigEdges h1).symm
    · exact (congrArg Lattice.artifacts h1).symm
    · exact (congrArg Lattice.triangleDeleted h1).symm
    · exact (congrArg Lattice.isolated h1).symm

/-- mesh consistency (the six clauses of C09) is coordinate-free … -/
theorem consistent_coordinate_free (m : Mesh) : (forgetCoords m).Consistent = m.Consistent :=
  c15_forget_consistent m

/-- … so the lattice of the transformed image is consistent exactly when the lattice of the original is -/
theorem createLattice_consistent_invariant (f : Px → Px) (hf : Function.Injective f) (cs : List (List Px)) (b b' : Bool)
    (l l' : Lattice) (h' : (createLattice (mapPx f cs) b).1 = .ok l') (h : (createLattice cs b').1 = .ok l) :
    l'.mesh.Consistent = l.mesh.Consistent := by
  have h1 := congrArg Prod.fst (createLattice_invariant f hf cs b b')
  simp only [forgetResult] at h1
  rw [h, h'] at h1
  simp only [Except.map] at h1
  injection h1 with h1
  have hm : forgetCoords l'.mesh = forgetCoords l.mesh := congrArg Lattice.mesh h1
  rw [← c15_forget_consistent l'.mesh, hm, c15_forget_consistent]

/-- in particular `mirror_y` changes nothing but coordinates -/
theorem createLattice_mirror_invariant (cs : List (List Px)) :
    forgetResult (createLattice cs true) = forgetResult (createLattice cs false) := by
  have := createLattice_invariant (fun p => p) (fun _ _ e => e) cs true false
  simpa [mapPx] using this

/-- non-vacuity: the four rooms (with T3 transitions) transposed — the result is a lattice -/
example : isOk (createLattice (mapPx (fun p => (p.2, p.1)) fourRooms) false).1 = true := by decide +kernel

/-! ### empty image -/

/-- no contour: an empty lattice, nothing raised, with and without `mirror_y` -/
theorem createLattice_nil (b : Bool) :
    (match (createLattice [] b).1 with
     | .ok l => l.mesh.vertices.isEmpty && l.mesh.edges.isEmpty && l.mesh.cells.isEmpty && l.border.isEmpty &&
                  l.bigEdges.isEmpty && l.artifacts.isEmpty && l.isolated.isEmpty
     | .error _ => false) = true ∧ (createLattice [] b).2 = false := by
  cases b <;> decide +kernel

/- PENDING:
   the number of mesh edges under re-ordering / re-rooting / reversal of the contours (OpenCV starts and orients the
   contours of a flipped image differently; `vertex_count_pixelset` covers the vertex count, `rawOf_cells_length` the cells).
-/

end Forsys.Skel
