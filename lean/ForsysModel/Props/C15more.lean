/-
  Property C15, additions — the symmetry clause of the statement ("… the same for the image flipped, transposed, rotated by
  quarter turns, padded, or read with the y-axis mirrored") for the part of `create_lattice` that is proved for all inputs.
  Helper lemmas: ForsysModel/Proofs/C15more.lean.

  Key fact: the first loop of `create_lattice` sees the pixel positions only through equality tests (`coords_to_key`), so it
  commutes with *every injective* map of the pixel plane: same vertex ids, same mesh edges (ids and ends), same cells; only
  the stored positions are mapped.  The 8 symmetries of the square, translations (padding / cropping offset) and `mirror_y`
  are injective.  The border / external flags and the interfaces (`all_big_edges`) are read off the combinatorial part of the
  mesh only (`forgetCoords`), so they are the same as well.
-/
import ForsysModel.Proofs.C15more

namespace Forsys.Skel
open Mesh

-- defined in ForsysModel/Proofs/C15more.lean:
--   mapPx f cs      = cs.map (·.map f)                         the contours of the transformed image
--   mapKeys f keys  = keys.map fun pk => (f pk.1, pk.2)         `coords_to_key` with the positions mapped
--   mapRaw f r      = { r with keys := mapKeys f r.keys }
--   forgetCoords m  = m with every vertex's x, y set to 0       (the combinatorial part of a mesh)

/-! ### the first loop commutes with injective maps of the pixel plane -/

/-- ids, mesh edges and cells of the transformed image are those of the original; the stored positions are mapped -/
theorem rawOf_equivariant (f : Px → Px) (hf : Function.Injective f) (cs : List (List Px)) :
    rawOf (mapPx f cs) = mapRaw f (rawOf cs) :=
  rawOf_mapPx hf cs

/-- same cells (as vertex-id cycles), same mesh edges in the same order, as many vertices -/
theorem rawOf_topology_invariant (f : Px → Px) (hf : Function.Injective f) (cs : List (List Px)) :
    (rawOf (mapPx f cs)).cells = (rawOf cs).cells ∧ (rawOf (mapPx f cs)).edgesAdded = (rawOf cs).edgesAdded ∧
      (rawOf (mapPx f cs)).keys.map (·.2) = (rawOf cs).keys.map (·.2) := by
  rw [rawOf_mapPx hf]
  refine ⟨rfl, rfl, ?_⟩
  simp [mapRaw, mapKeys, List.map_map, Function.comp_def]

/-- injectivity is needed: projecting the unit square onto the x-axis merges vertices (and the first loop then raises) -/
theorem rawOf_equivariant_witness :
    (rawOf (mapPx (fun p => (p.1, 0)) [[(0, 0), (1, 0), (1, 1), (0, 1)]])).cells = [[0, 1, 1, 0]] ∧
    (rawOf [[(0, 0), (1, 0), (1, 1), (0, 1)]]).cells = [[0, 1, 2, 3]] ∧
    precheck (mapPx (fun p => (p.1, 0)) [[(0, 0), (1, 0), (1, 1), (0, 1)]]) = some .assertionError ∧
    precheck [[(0, 0), (1, 0), (1, 1), (0, 1)]] = none := by
  decide +kernel

/-- the first loop raises on the transformed image exactly when it raises on the original, with the same exception -/
theorem precheck_invariant (f : Px → Px) (hf : Function.Injective f) (cs : List (List Px)) :
    precheck (mapPx f cs) = precheck cs :=
  c15_precheck_map hf cs

/-- the hypothesis of the consistency theorems is invariant -/
theorem goodContours_invariant (f : Px → Px) (hf : Function.Injective f) (cs : List (List Px)) :
    GoodContours (mapPx f cs) ↔ GoodContours cs :=
  c15_good_map hf cs

/-! ### the mesh after the first loop: equal up to the vertex coordinates -/

theorem rawMesh_invariant (f : Px → Px) (hf : Function.Injective f) (cs : List (List Px)) :
    forgetCoords (rawMesh (mapPx f cs)) = forgetCoords (rawMesh cs) :=
  c15_forget_rawMesh_map hf cs

/-- in particular: the same mesh-edge and cell dictionaries, the same vertex keys, the same `ownEdges` / `ownCells` -/
theorem rawMesh_dicts_invariant (f : Px → Px) (hf : Function.Injective f) (cs : List (List Px)) :
    (rawMesh (mapPx f cs)).edges = (rawMesh cs).edges ∧ (rawMesh (mapPx f cs)).cells = (rawMesh cs).cells ∧
    (rawMesh (mapPx f cs)).vertices.map (·.1) = (rawMesh cs).vertices.map (·.1) ∧
    (∀ k, (rawMesh (mapPx f cs)).ownEdges k = (rawMesh cs).ownEdges k) ∧
    (∀ k, (rawMesh (mapPx f cs)).ownCells k = (rawMesh cs).ownCells k) := by
  have h := c15_forget_rawMesh_map hf cs
  refine ⟨show (forgetCoords _).edges = (forgetCoords _).edges from congrArg Mesh.edges h,
    show (forgetCoords _).cells = (forgetCoords _).cells from congrArg Mesh.cells h, ?_, fun k => ?_, fun k => ?_⟩
  · have := congrArg (fun m => m.vertices.map (·.1)) h
    simpa [forgetCoords, List.map_map, Function.comp_def] using this
  · rw [← forgetCoords_ownEdges, h, forgetCoords_ownEdges]
  · rw [← forgetCoords_ownCells, h, forgetCoords_ownCells]

/-- the border flags, the external flags and the interfaces are functions of the combinatorial part alone … -/
theorem flags_coordinate_free (m : Mesh) :
    borderCells (forgetCoords m) = borderCells m ∧ externalEdges (forgetCoords m) = externalEdges m ∧
      (forgetCoords m).bigEdgesList = m.bigEdgesList :=
  ⟨forgetCoords_borderCells m, forgetCoords_externalEdges m, forgetCoords_bigEdgesList m⟩

/-- … hence: the same border cells, the same external mesh edges, the same interfaces (so the same junctions: the ends
    of the interfaces) for the transformed image -/
theorem flags_invariant (f : Px → Px) (hf : Function.Injective f) (cs : List (List Px)) :
    borderCells (rawMesh (mapPx f cs)) = borderCells (rawMesh cs) ∧
    externalEdges (rawMesh (mapPx f cs)) = externalEdges (rawMesh cs) ∧
    (rawMesh (mapPx f cs)).bigEdgesList = (rawMesh cs).bigEdgesList := by
  have h := c15_forget_rawMesh_map hf cs
  refine ⟨?_, ?_, ?_⟩
  · rw [← forgetCoords_borderCells, h, forgetCoords_borderCells]
  · rw [← forgetCoords_externalEdges, h, forgetCoords_externalEdges]
  · rw [← forgetCoords_bigEdgesList, h, forgetCoords_bigEdgesList]

/-- mesh consistency of the transformed image -/
theorem rawMesh_consistent_invariant (f : Px → Px) (hf : Function.Injective f) (cs : List (List Px))
    (h : GoodContours cs) : (rawMesh (mapPx f cs)).Consistent = true :=
  rawMesh_consistent _ ((c15_good_map hf cs).mpr h)

/-! ### the maps of the statement are injective -/

/-- the 8 symmetries of a `W × H` image (flips, transposition, quarter turns) and the translations (padding) -/
def imageMaps (W H dx dy : Int) : List (Px → Px) :=
  [fun p => p, fun p => (W - p.1, p.2), fun p => (p.1, H - p.2), fun p => (W - p.1, H - p.2),
   fun p => (p.2, p.1), fun p => (H - p.2, p.1), fun p => (p.2, W - p.1), fun p => (H - p.2, W - p.1),
   fun p => (p.1 + dx, p.2 + dy)]

theorem imageMaps_injective (W H dx dy : Int) : ∀ f ∈ imageMaps W H dx dy, Function.Injective f := by
  intro f hf
  simp only [imageMaps, List.mem_cons, List.not_mem_nil, or_false] at hf
  rcases hf with rfl | rfl | rfl | rfl | rfl | rfl | rfl | rfl | rfl <;>
    (intro p q e; simp only [Prod.mk.injEq] at e; obtain ⟨e1, e2⟩ := e; exact Prod.ext (by omega) (by omega))

/-- the symmetry clause for the first loop, all in one: cells, mesh edges, flags, interfaces, consistency -/
theorem symmetry_invariance (W H dx dy : Int) (cs : List (List Px)) (h : GoodContours cs) :
    ∀ f ∈ imageMaps W H dx dy,
      (rawMesh (mapPx f cs)).cells = (rawMesh cs).cells ∧ (rawMesh (mapPx f cs)).edges = (rawMesh cs).edges ∧
      borderCells (rawMesh (mapPx f cs)) = borderCells (rawMesh cs) ∧
      externalEdges (rawMesh (mapPx f cs)) = externalEdges (rawMesh cs) ∧
      (rawMesh (mapPx f cs)).bigEdgesList = (rawMesh cs).bigEdgesList ∧
      (rawMesh (mapPx f cs)).Consistent = true := by
  intro f hf
  have hi := imageMaps_injective W H dx dy f hf
  have d := rawMesh_dicts_invariant f hi cs
  have g := flags_invariant f hi cs
  exact ⟨d.2.1, d.1, g.1, g.2.1, g.2.2, rawMesh_consistent_invariant f hi cs h⟩

/-- non-vacuity: the two unit squares, rotated by a quarter turn in a 2 × 1 frame: different positions, same cells -/
example : mapPx (fun p => ((1 : Int) - p.2, p.1)) [[(0, 0), (1, 0), (1, 1), (0, 1)], [(1, 0), (2, 0), (2, 1), (1, 1)]]
      = [[(1, 0), (1, 1), (0, 1), (0, 0)], [(1, 1), (1, 2), (0, 2), (0, 1)]] ∧
    (rawOf (mapPx (fun p => ((1 : Int) - p.2, p.1))
      [[(0, 0), (1, 0), (1, 1), (0, 1)], [(1, 0), (2, 0), (2, 1), (1, 1)]])).cells = [[0, 1, 2, 3], [1, 4, 5, 2]] := by
  decide +kernel

/-! ### `mirror_y` -/

/-- `mirror_y` is one of these maps (the reflection at `max_y`) -/
theorem mirror_is_map (cs : List (List Px)) :
    mirror cs = mapPx (fun p => (p.1, maxY cs - p.2)) cs ∧ Function.Injective (fun p : Px => (p.1, maxY cs - p.2)) :=
  ⟨rfl, c15_mirrorMap_inj _⟩

theorem mirror_topology_invariant (cs : List (List Px)) :
    (rawOf (mirror cs)).cells = (rawOf cs).cells ∧ (rawOf (mirror cs)).edgesAdded = (rawOf cs).edgesAdded ∧
    borderCells (rawMesh (mirror cs)) = borderCells (rawMesh cs) ∧
    externalEdges (rawMesh (mirror cs)) = externalEdges (rawMesh cs) ∧
    (rawMesh (mirror cs)).bigEdgesList = (rawMesh cs).bigEdgesList := by
  have t := rawOf_topology_invariant _ (c15_mirrorMap_inj (maxY cs)) cs
  have g := flags_invariant _ (c15_mirrorMap_inj (maxY cs)) cs
  exact ⟨t.1, t.2.1, g.1, g.2.1, g.2.2⟩

/-- reading with `mirror_y=True` raises in the first loop exactly when reading without does -/
theorem precheck_mirror (cs : List (List Px)) : precheck (mirror cs) = precheck cs :=
  c15_precheck_map (c15_mirrorMap_inj (maxY cs)) cs

/-- `Skeleton(f, mirror_y=True)` is `Skeleton(f')` on the mirrored contours -/
theorem createLattice_mirror (cs : List (List Px)) : createLattice cs true = createLattice (mirror cs) false := rfl

/-- `cells_eq_contours` for `mirror_y=True` -/
theorem cells_eq_contours_mirror (cs : List (List Px)) (l : Lattice) (h : (createLattice cs true).1 = .ok l)
    (hi : l.isolated = []) : l.mesh.cells.length = cs.length := by
  rw [createLattice_mirror] at h
  rw [cells_eq_contours (mirror cs) l h hi]
  simp [mirror]

/-- non-vacuity of `cells_eq_contours_mirror`: the four rooms of Props/C15cleanup.lean read with `mirror_y=True` -/
example : (match (createLattice fourRooms true).1 with
    | .ok l => l.isolated.isEmpty && l.mesh.cells.length == 4
    | .error _ => false) = true := by
  decide +kernel

/-! ### empty image -/

/-- no contour: an empty lattice, nothing raised, with and without `mirror_y` -/
theorem createLattice_nil (b : Bool) :
    (match (createLattice [] b).1 with
     | .ok l => l.mesh.vertices.isEmpty && l.mesh.edges.isEmpty && l.mesh.cells.isEmpty && l.border.isEmpty &&
                  l.bigEdges.isEmpty && l.artifacts.isEmpty && l.isolated.isEmpty
     | .error _ => false) = true ∧ (createLattice [] b).2 = false := by
  cases b <;> decide +kernel

/- PENDING:
   the clean-up stages (`cleanup`) commute with `forgetCoords` up to the coordinates of the vertices created by
   `do_t3_transition`, i.e.
     ∀ f injective, (createLattice (mapPx f cs) b).1 and (createLattice cs b).1 are both errors with the same exception or both
     lattices with equal `border`, `external`, `bigEdges`, `artifacts`, `triangleDeleted`, `isolated` and meshes equal under
     `forgetCoords`.
   Every clean-up step reads ids / `ownEdges` / `ownCells` only (the positions enter only `mean xs`, `mean ys` of the new
   vertex), so the statement is expected to hold; it needs a `forgetCoords` lemma for each of the ~15 modelled steps.
-/

end Forsys.Skel
