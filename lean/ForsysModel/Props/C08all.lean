/-
  Umbrella of property C08: the theorems about one cell cycle, the de-duplication loop, the three copies of the
  internal/external predicate and `own_cells` (Props/C08.lean) and their lift to the whole interface list
  `Mesh.bigEdgesList` of a tissue — membership, shape, no reverse duplicates, coverage of every cell's mesh edges,
  `own_big_edges`, `get_big_edge_by_cells` (Props/C08tissue.lean).
  lean/props.json names this module for C08, so that `./check C08` builds and audits both.
-/
import ForsysModel.Props.C08
import ForsysModel.Props.C08tissue
