/-
  Umbrella of property C09: the mesh-level theorems (Props/C09.lean), the WKT parser theorems (Props/C09wkt.lean)
  and the join_two_vertices theorems (Props/C09join.lean).
  lean/props.json names this module for C09, so that `./check C09` builds and audits both.
-/
import ForsysModel.Props.C09
import ForsysModel.Props.C09wkt
import ForsysModel.Props.C09join
