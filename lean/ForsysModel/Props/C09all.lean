/-
  Umbrella of property C09: the mesh-level theorems (Props/C09.lean) and the WKT parser theorems (Props/C09wkt.lean).
  lean/props.json names this module for C09, so that `./check C09` builds and audits both.
-/
import ForsysModel.Props.C09
import ForsysModel.Props.C09wkt
