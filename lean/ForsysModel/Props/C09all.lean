/-
  Umbrella of property C09: the mesh-level theorems (Props/C09.lean), the WKT parser theorems (Props/C09wkt.lean)
  the join_two_vertices theorems (Props/C09join.lean)
  and the theorems on generate_mesh without merging (Props/C11mesh.lean, shared with C11)
  and on the merge loop over pairwise vertex-disjoint pairs (Props/C11merge.lean, shared with C11)
  and on the skeleton clean-up (Props/C15cleanup.lean, shared with C15).
  lean/props.json names this module for C09, so that `./check C09` builds and audits both.
-/
import ForsysModel.Props.C09
import ForsysModel.Props.C09wkt
import ForsysModel.Props.C09join
import ForsysModel.Props.C09more
import ForsysModel.Props.C11mesh
import ForsysModel.Props.C11merge
import ForsysModel.Props.C15cleanup
