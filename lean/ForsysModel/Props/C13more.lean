/-
  Property C13 — additions: behaviour of `calculateVelocity` (the whole function, every series, every frame, every
  vertex, exceptions included) under affine maps of space and of the time axis, the missing "no partner ⇒ zero" /
  "no map ⇒ DifferentTissue" clauses at the LAST frame, consistency of the backward difference with the forward one,
  locality, and the round trip position + dt · velocity = successor position.
-/
import ForsysModel.Model.TimeSeries
import ForsysModel.Model.FMatrix
import ForsysModel.Props.C13
import ForsysModel.Proofs.C13more

namespace Forsys

/-- the affine map `(x, y) ↦ (a x + b y + e, c x + d y + f)` of the plane -/
def affPt (a b c d e f : Rat) (p : Pt) : Pt := ⟨a * p.x + b * p.y + e, c * p.x + d * p.y + f⟩
/-- its linear part on vectors -/
def linVec (a b c d : Rat) (v : Vec) : Vec := ⟨a * v.x + b * v.y, c * v.x + d * v.y⟩

/-- SPACE: moving every vertex of every frame through one affine map (translation, scaling, rotation, reflection,
    shear — any `a b c d e f`, singular ones included) maps every velocity through the linear part and leaves every
    exception as it is; every series, every frame index, every vertex. -/
theorem calculateVelocity_affine_space (a b c d e f : Rat)
    (frames : List TFrame) (maps : List (Option StepMap)) (p : Id) (t : Nat) :
    calculateVelocity (frames.map (TFrame.mapPT (affPt a b c d e f) id)) maps p t
      = (calculateVelocity frames maps p t).map (linVec a b c d) := by
  apply C13m.calculateVelocity_mapPT
  · simp [linVec]
  · intro p0 p1 τ0 τ1
    simp only [affPt, linVec, id, Vec.mk.injEq]
    constructor
    · rw [← mul_div_assoc, ← mul_div_assoc, ← add_div]; congr 1; ring
    · rw [← mul_div_assoc, ← mul_div_assoc, ← add_div]; congr 1; ring

/-- translation of the whole series (the centre-of-mass shift when it is the same for all frames): velocities unchanged -/
theorem calculateVelocity_translate (e f : Rat)
    (frames : List TFrame) (maps : List (Option StepMap)) (p : Id) (t : Nat) :
    calculateVelocity (frames.map (TFrame.mapPT (fun q => ⟨q.x + e, q.y + f⟩) id)) maps p t
      = calculateVelocity frames maps p t := by
  have h := C13m.calculateVelocity_mapPT (fun q => ⟨q.x + e, q.y + f⟩) id id rfl
    (by intro p0 p1 τ0 τ1; simp only [id, Vec.mk.injEq]; constructor <;> (congr 1; ring)) frames maps p t
  rw [h]; cases calculateVelocity frames maps p t <;> rfl

/-- rotation by a quarter turn `(x, y) ↦ (−y, x)`: the velocity is rotated the same way -/
example (frames : List TFrame) (maps : List (Option StepMap)) (p : Id) (t : Nat) :
    calculateVelocity (frames.map (TFrame.mapPT (affPt 0 (-1) 1 0 0 0) id)) maps p t
      = (calculateVelocity frames maps p t).map (fun v => ⟨0 * v.x + -1 * v.y, 1 * v.x + 0 * v.y⟩) :=
  calculateVelocity_affine_space 0 (-1) 1 0 0 0 frames maps p t

/-- TIME: changing the clock `τ ↦ a τ + b` (`a ≠ 0`: other unit and other origin) divides every velocity by `a` and
    leaves the exceptions; in particular a shift of the origin (`a = 1`) changes nothing. -/
theorem calculateVelocity_affine_time (a b : Rat) (ha : a ≠ 0)
    (frames : List TFrame) (maps : List (Option StepMap)) (p : Id) (t : Nat) :
    calculateVelocity (frames.map (TFrame.mapPT id (fun τ => a * τ + b))) maps p t
      = (calculateVelocity frames maps p t).map (fun v => ⟨v.x / a, v.y / a⟩) := by
  have _ := ha
  apply C13m.calculateVelocity_mapPT
  · simp
  · intro p0 p1 τ0 τ1
    simp only [id, Vec.mk.injEq]
    constructor
    · rw [div_div]; congr 1; ring
    · rw [div_div]; congr 1; ring

example : calculateVelocity ([⟨0, [⟨1, ⟨0, 0⟩⟩]⟩, ⟨2, [⟨5, ⟨4, 6⟩⟩]⟩].map (TFrame.mapPT id (fun τ => 2 * τ + 7)))
    [some [(1, some 5)]] 1 0 = .ok ⟨1, 3 / 2⟩ ∧
    calculateVelocity [⟨0, [⟨1, ⟨0, 0⟩⟩]⟩, ⟨2, [⟨5, ⟨4, 6⟩⟩]⟩] [some [(1, some 5)]] 1 0 = .ok ⟨2, 3⟩ := by
  decide +kernel

/-- LAST FRAME, no partner: a vertex of the last frame that is the image of no vertex of the previous frame gets
    velocity zero (the forward version is `velocity_untracked_none`) -/
theorem velocity_backward_untracked (frames : List TFrame) (maps : List (Option StepMap)) (t : Nat) (p : Id)
    (f0 f1 : TFrame) (m : StepMap) (p0 : Pt)
    (ht : t + 2 = frames.length) (hf1 : frames[t]? = some f1) (hf0 : frames[t + 1]? = some f0)
    (hm : maps.getD t none = some m) (hp : some p ∉ m.values) (hp0 : f0.pos? p = some p0) :
    calculateVelocity frames maps p (t + 1) = .ok ⟨0, 0⟩ := by
  have hlast : t + 1 = frames.length - 1 := by omega
  rw [List.getD_eq_getElem?_getD] at hm
  have hl : lookupOpt (some p) (invertMap m) = none := by
    rw [C13.lookupOpt_invertMap]; exact C13.lastKey_none _ _ hp
  have hw : getPointIdByMap maps p (t + 1) t = .error .keyError := by
    simp [getPointIdByMap, walkBackward, hm, hl]
  simp only [calculateVelocity, hf0, hp0, ← hlast, if_true, Nat.add_sub_cancel,
    List.getD_eq_getElem?_getD, hm, hf1, hw]
  simp

example : calculateVelocity [⟨0, [⟨1, ⟨0, 0⟩⟩]⟩, ⟨2, [⟨5, ⟨4, 6⟩⟩, ⟨6, ⟨1, 1⟩⟩]⟩] [some [(1, some 5)]] 6 1
    = .ok ⟨0, 0⟩ := by decide +kernel

/-- LAST FRAME, no map for the last step: DifferentTissueException (forward version: `velocity_no_map`) -/
theorem velocity_backward_no_map (frames : List TFrame) (maps : List (Option StepMap)) (t : Nat) (p : Id)
    (f0 : TFrame) (p0 : Pt)
    (ht : t + 2 = frames.length) (hf0 : frames[t + 1]? = some f0) (hp0 : f0.pos? p = some p0)
    (hm : maps.getD t none = none) :
    calculateVelocity frames maps p (t + 1) = .differentTissue := by
  have hlast : t + 1 = frames.length - 1 := by omega
  rw [List.getD_eq_getElem?_getD] at hm
  simp [calculateVelocity, hf0, hp0, ← hlast, hm]

example : calculateVelocity [⟨0, [⟨1, ⟨0, 0⟩⟩]⟩, ⟨2, [⟨5, ⟨4, 6⟩⟩]⟩] [none] 5 1 = .differentTissue := by
  decide +kernel

/-- the successor named by the map is not a vertex of the next frame (`vertices[q]` raises KeyError): velocity zero -/
theorem velocity_forward_successor_missing (frames : List TFrame) (maps : List (Option StepMap)) (t : Nat) (p q : Id)
    (f0 f1 : TFrame) (m : StepMap) (p0 : Pt)
    (ht : t + 1 < frames.length) (hf0 : frames[t]? = some f0) (hf1 : frames[t + 1]? = some f1)
    (hm : maps.getD t none = some m) (hpq : m.get? p = some (some q))
    (hp0 : f0.pos? p = some p0) (hp1 : f1.pos? q = none) :
    calculateVelocity frames maps p t = .ok ⟨0, 0⟩ := by
  have hne : t ≠ frames.length - 1 := by omega
  rw [List.getD_eq_getElem?_getD] at hm
  have hw : getPointIdByMap maps p t (t + 1) = .ok (some q) := by
    simp [getPointIdByMap, walkForward, hm, hpq]
  simp [calculateVelocity, hf0, hp0, hne, hm, hf1, hw, hp1]

example : calculateVelocity [⟨0, [⟨1, ⟨0, 0⟩⟩]⟩, ⟨2, [⟨5, ⟨4, 6⟩⟩]⟩] [some [(1, some 9)]] 1 0 = .ok ⟨0, 0⟩ := by
  decide +kernel

/-- CONSISTENCY of the two branches: the backward difference of `q` at the last frame is the forward difference of
    its predecessor `p` at the frame before (same vector, not its opposite), for every series of ≥ 2 frames -/
theorem velocity_last_eq_penultimate (frames : List TFrame) (maps : List (Option StepMap)) (t : Nat) (p q : Id)
    (f0 f1 : TFrame) (m : StepMap) (p0 p1 : Pt)
    (ht : t + 2 = frames.length) (hf0 : frames[t]? = some f0) (hf1 : frames[t + 1]? = some f1)
    (hm : maps.getD t none = some m) (hk : (m.map (·.1)).Nodup) (hinj : (m.values.filterMap id).Nodup)
    (hpq : m.get? p = some (some q))
    (hp0 : f0.pos? p = some p0) (hp1 : f1.pos? q = some p1) (hdt : f1.time ≠ f0.time) :
    calculateVelocity frames maps q (t + 1) = calculateVelocity frames maps p t := by
  rw [velocity_backward frames maps t q p f1 f0 m p1 p0 ht hf0 hf1 hm hk hinj hpq hp1 hp0 hdt,
    velocity_forward frames maps t p q f0 f1 m p0 p1 (by omega) hf0 hf1 hm hpq hp0 hp1]

example : calculateVelocity [⟨0, [⟨1, ⟨0, 0⟩⟩]⟩, ⟨2, [⟨5, ⟨4, 6⟩⟩]⟩] [some [(1, some 5)]] 5 1 = .ok ⟨2, 3⟩ ∧
    calculateVelocity [⟨0, [⟨1, ⟨0, 0⟩⟩]⟩, ⟨2, [⟨5, ⟨4, 6⟩⟩]⟩] [some [(1, some 5)]] 1 0 = .ok ⟨2, 3⟩ := by
  decide +kernel

/-- ROUND TRIP: with distinct time stamps, position + elapsed time × velocity is the position of the successor -/
theorem velocity_forward_displacement (frames : List TFrame) (maps : List (Option StepMap)) (t : Nat) (p q : Id)
    (f0 f1 : TFrame) (m : StepMap) (p0 p1 : Pt) (v : Vec)
    (ht : t + 1 < frames.length) (hf0 : frames[t]? = some f0) (hf1 : frames[t + 1]? = some f1)
    (hm : maps.getD t none = some m) (hpq : m.get? p = some (some q))
    (hp0 : f0.pos? p = some p0) (hp1 : f1.pos? q = some p1) (hdt : f0.time < f1.time)
    (hv : calculateVelocity frames maps p t = .ok v) :
    p0.x + (f1.time - f0.time) * v.x = p1.x ∧ p0.y + (f1.time - f0.time) * v.y = p1.y := by
  rw [velocity_forward frames maps t p q f0 f1 m p0 p1 ht hf0 hf1 hm hpq hp0 hp1] at hv
  injection hv with hv
  subst hv
  have hne : f1.time - f0.time ≠ 0 := sub_ne_zero.2 (ne_of_gt hdt)
  constructor <;> (simp only []; field_simp; ring)

/-- `hdt` is needed: with two equal time stamps the model (Lean's `x / 0 = 0`) returns velocity zero although the vertex
    moved; the Python code divides floats by 0.0 there.  Increasing time stamps are part of the property's quantifier. -/
theorem velocity_equal_times_witness :
    calculateVelocity [⟨1, [⟨1, ⟨0, 0⟩⟩]⟩, ⟨1, [⟨5, ⟨4, 6⟩⟩]⟩] [some [(1, some 5)]] 1 0 = .ok ⟨0, 0⟩ := by
  decide +kernel

/-- LOCALITY: the result at frame `t` of a series of length `n` depends only on frame `t`, the neighbour frame used
    (`t+1`, or `t−1` at the last frame), and the step map between them -/
theorem calculateVelocity_congr_local (frames frames' : List TFrame) (maps maps' : List (Option StepMap)) (p : Id)
    (t : Nat) (hlen : frames'.length = frames.length)
    (h0 : frames'[t]? = frames[t]?)
    (h1 : frames'[if t = frames.length - 1 then t - 1 else t + 1]?
        = frames[if t = frames.length - 1 then t - 1 else t + 1]?)
    (hm : maps'.getD (if t = frames.length - 1 then t - 1 else t) none
        = maps.getD (if t = frames.length - 1 then t - 1 else t) none)
    (h2 : 2 ≤ frames.length) :
    calculateVelocity frames' maps' p t = calculateVelocity frames maps p t := by
  have _ := h2
  have hw : getPointIdByMap maps' p t (if t = frames.length - 1 then t - 1 else t + 1)
      = getPointIdByMap maps p t (if t = frames.length - 1 then t - 1 else t + 1) := by
    by_cases hl : t = frames.length - 1
    · have h10 : t - (t - 1) = 1 := by omega
      have hlt : ¬ t < t - 1 := by omega
      simp only [← hl, if_true, List.getD_eq_getElem?_getD] at hm ⊢
      simp [getPointIdByMap, h10, hlt, walkBackward, hm]
    · simp only [hl, if_false, List.getD_eq_getElem?_getD] at hm ⊢
      simp [getPointIdByMap, walkForward, hm]
  unfold calculateVelocity
  simp only [hlen, h0, h1, hm, hw]

/-- the displacement theorem on a concrete series (hypotheses satisfiable) -/
example : (4 : Rat) + (3 - 0) * (5 / 3) = 9 ∧
    calculateVelocity [⟨0, [⟨1, ⟨4, 0⟩⟩]⟩, ⟨3, [⟨5, ⟨9, 6⟩⟩]⟩, ⟨4, []⟩] [some [(1, some 5)], some []] 1 0
      = .ok ⟨5 / 3, 2⟩ := by
  constructor
  · norm_num
  · decide +kernel

/-- locality on a concrete pair of series: other frames, other maps elsewhere -/
example : calculateVelocity [⟨0, [⟨1, ⟨4, 0⟩⟩]⟩, ⟨3, [⟨5, ⟨9, 6⟩⟩]⟩, ⟨4, []⟩] [some [(1, some 5)], some []] 1 0
    = calculateVelocity [⟨0, [⟨1, ⟨4, 0⟩⟩]⟩, ⟨3, [⟨5, ⟨9, 6⟩⟩]⟩, ⟨7, [⟨8, ⟨1, 1⟩⟩]⟩] [some [(1, some 5)], none] 1 0 :=
  (calculateVelocity_congr_local _ _ _ _ 1 0 rfl rfl rfl rfl (by decide)).symm

/-- NO AttributeError EVER: the only `None.items()` of the backward walk is guarded by the DifferentTissue test that
    precedes it — every series, every frame index, every vertex -/
theorem calculateVelocity_ne_attributeError (frames : List TFrame) (maps : List (Option StepMap)) (p : Id) (t : Nat) :
    calculateVelocity frames maps p t ≠ .attributeError := by
  unfold calculateVelocity
  cases frames[t]? with
  | none => simp
  | some f0 =>
    dsimp only
    cases f0.pos? p with
    | none => simp
    | some p0 =>
      dsimp only
      by_cases hl : t = frames.length - 1
      · simp only [hl, if_true]
        rw [← hl]
        cases hm : maps.getD (t - 1) none with
        | none => simp
        | some m =>
          simp only [Option.isNone_some, Bool.false_eq_true, if_false]
          cases frames[t - 1]? with
          | none => simp
          | some f1 =>
            dsimp only
            have hw : getPointIdByMap maps p t (t - 1) ≠ .error .attributeError := by
              have hlt : ¬ t < t - 1 := by omega
              simp only [getPointIdByMap, hlt, if_false]
              by_cases h0 : t = 0
              · subst h0; simp [walkBackward]
              · have h10 : t - (t - 1) = 1 := by omega
                rw [h10]
                simp only [walkBackward, hm]
                cases lookupOpt (some p) (invertMap m) <;> simp
            revert hw
            cases getPointIdByMap maps p t (t - 1) with
            | error e => cases e <;> simp
            | ok o =>
              cases o with
              | none => simp
              | some q => dsimp only; cases f1.pos? q <;> simp
      · simp only [hl, if_false]
        by_cases hn : (maps.getD t none).isNone = true
        · rw [if_pos hn]; simp
        · rw [if_neg hn]
          cases frames[t + 1]? with
          | none => simp
          | some f1 =>
            dsimp only
            have hw : getPointIdByMap maps p t (t + 1) ≠ .error .attributeError := by
              simp only [getPointIdByMap, Nat.lt_succ_self, if_true, Nat.add_sub_cancel_left, walkForward]
              cases maps.getD t none with
              | none => simp
              | some m => dsimp only; cases m.get? p <;> simp
            revert hw
            cases getPointIdByMap maps p t (t + 1) with
            | error e => cases e <;> simp
            | ok o =>
              cases o with
              | none => simp
              | some q => dsimp only; cases f1.pos? q <;> simp

/-- KeyError characterised: in a series of ≥ 2 frames, at an existing frame, `calculate_velocity` raises KeyError
    exactly when the vertex itself is not in the frame (a missing partner never raises) -/
theorem calculateVelocity_keyError_iff (frames : List TFrame) (maps : List (Option StepMap)) (p : Id) (t : Nat)
    (f0 : TFrame) (h2 : 2 ≤ frames.length) (hf0 : frames[t]? = some f0) :
    calculateVelocity frames maps p t = .keyError ↔ f0.pos? p = none := by
  have ht : t < frames.length := by
    rcases List.getElem?_eq_some_iff.1 hf0 with ⟨h, _⟩; exact h
  unfold calculateVelocity
  simp only [hf0]
  cases f0.pos? p with
  | none => simp
  | some p0 =>
    simp only []
    generalize htt : (if t = frames.length - 1 then t - 1 else t + 1) = tt1
    generalize (if t = frames.length - 1 then t - 1 else t) = stepIdx
    have hlt : tt1 < frames.length := by split at htt <;> omega
    rw [List.getElem?_eq_getElem hlt]
    by_cases hn : (maps.getD stepIdx none).isNone = true
    · rw [if_pos hn]; simp
    · rw [if_neg hn]
      cases getPointIdByMap maps p t tt1 with
      | error e => cases e <;> simp
      | ok o =>
        cases o with
        | none => simp
        | some q => dsimp only; cases (frames[tt1]).pos? q <;> simp

example : calculateVelocity [⟨0, [⟨1, ⟨4, 0⟩⟩]⟩, ⟨3, [⟨5, ⟨9, 6⟩⟩]⟩] [some [(1, some 5)]] 2 0 = .keyError := by
  decide +kernel

/-- ORDER OF THE JUNCTIONS: with distinct even rows inside the matrix, the right-hand side does not depend on the
    order in which the junctions are visited -/
theorem placeVelocities_perm (nrows : Nat) (rows rows' : List (Nat × Vec)) (hp : rows.Perm rows')
    (hd : (rows.map (·.1)).Nodup) (hev : ∀ r ∈ rows, r.1 % 2 = 0 ∧ r.1 + 1 < nrows) :
    placeVelocities nrows rows = placeVelocities nrows rows' := by
  have hd' : (rows'.map (·.1)).Nodup := (hp.map _).nodup_iff.1 hd
  have hev' : ∀ r ∈ rows', r.1 % 2 = 0 ∧ r.1 + 1 < nrows := fun r hr => hev r (hp.mem_iff.2 hr)
  apply List.ext_getElem?
  intro i
  by_cases hi : i < nrows
  · by_cases hex : ∃ r ∈ rows, r.1 = i ∨ r.1 + 1 = i
    · obtain ⟨⟨j, v⟩, hr, hji⟩ := hex
      have hr' := hp.mem_iff.1 hr
      have s1 := placeVelocities_spec nrows rows hd hev j v hr
      have s2 := placeVelocities_spec nrows rows' hd' hev' j v hr'
      rcases hji with h | h <;> simp only at h <;> subst h
      · rw [s1.1, s2.1]
      · rw [s1.2, s2.2]
    · have hno : ∀ r ∈ rows, r.1 ≠ i ∧ r.1 + 1 ≠ i := by
        intro r hr
        constructor <;> (intro h; exact hex ⟨r, hr, by simp [h]⟩)
      rw [placeVelocities_zero_elsewhere nrows rows i hi hno,
        placeVelocities_zero_elsewhere nrows rows' i hi (fun r hr => hno r (hp.mem_iff.2 hr))]
  · have l1 := placeVelocities_length nrows rows
    have l2 := placeVelocities_length nrows rows'
    rw [List.getElem?_eq_none (by omega), List.getElem?_eq_none (by omega)]

example : placeVelocities 6 [(0, (⟨1, 2⟩ : Vec)), (4, ⟨3, 4⟩)] = placeVelocities 6 [(4, (⟨3, 4⟩ : Vec)), (0, ⟨1, 2⟩)] ∧
    placeVelocities 6 [(0, (⟨1, 2⟩ : Vec)), (4, ⟨3, 4⟩)] = [1, 2, 0, 0, 3, 4] := by decide +kernel

/-- distinctness is needed: two entries for the same row — the later one wins, so the order matters -/
theorem placeVelocities_perm_witness :
    placeVelocities 2 [(0, (⟨1, 2⟩ : Vec)), (0, ⟨3, 4⟩)] ≠ placeVelocities 2 [(0, (⟨3, 4⟩ : Vec)), (0, ⟨1, 2⟩)] := by
  decide +kernel

end Forsys
