/-
  Property C05, additions — what Props/C05.lean and Props/C05bound.lean leave open against the statement:

    * the certificates CHARACTERISE the optima (`kkt_iff_minimiser`, `stationary_iff_minimiser`): a non-negative vector
      minimises the squared residual over the non-negative candidates iff it passes `kktCheck … 0 0` (C05.lean has only
      the "if" direction `kkt_sound`), and a vector minimises over all candidates iff it passes `statCheck … 0`;
    * the solver paths agree: an exact solution is stationary, a non-negative stationary point is KKT-certified
      (inversion path = NNLS optimum when no entry is negative);
    * uniqueness: fitted values and objective value are unique among certified points whatever the rank; with a coercive
      (injective) matrix the certified point itself is unique, and an (ε, δ)-certified vector is within
      2(ε·Σz* + δ)/σ² of the exact optimum `z*` — also for INCONSISTENT systems (C05bound needs a zero-residual truth);
    * invariances of the objective / the certificate: order of the equations, positive scaling of right-hand side and
      candidate (ill-scaled inputs), monotonicity in the slacks;
    * the augmented system: the objective splits into force balance + (Σx − n)², consistency ⇔ (A x + λ·1 = b ∧ Σx = n),
      mean one as a quotient; mean one FAILS for inconsistent systems (witness);
    * necessity of hypotheses of existing theorems (witnesses).
-/
import ForsysModel.Proofs.C05more

namespace Forsys

/-! ### the certificate: monotone, sign of the reported values -/

/-- the certificate is monotone in its slacks -/
theorem kktCheck_mono (M : Mat) (b z : List Rat) (eps delta eps' delta' : Rat) (he : eps ≤ eps')
    (hd : delta ≤ delta') (h : kktCheck M b z eps delta = true) : kktCheck M b z eps' delta' = true := by
  rw [kktCheck_iff] at h ⊢
  obtain ⟨h0, hw, ha⟩ := h
  exact ⟨h0, fun v hv => by have := hw v hv; linarith, le_trans ha hd⟩

/-- with negatives disallowed: every reported tension and the multiplier of a certified vector are non-negative -/
theorem kkt_reported_nonneg (M : Mat) (b x : List Rat) (lam eps delta : Rat)
    (h : kktCheck M b (x ++ [lam]) eps delta = true) : (∀ v ∈ x, 0 ≤ v) ∧ 0 ≤ lam := by
  have h0 := ((kktCheck_iff M b _ eps delta).mp h).1
  exact ⟨fun v hv => h0 v (by simp [hv]), h0 lam (by simp)⟩

/-! ### the solver paths agree -/

/-- an exact solution of the square system (inversion path) is stationary -/
theorem solve_is_stationary (M : Mat) (b z : List Rat) (h : solveCheck M b z 0 = true) :
    statCheck M b z 0 = true := by
  rw [statCheck_zero_iff]
  apply grad_eq_zero_of_residSq_eq_zero
  exact (normSq_eq_zero _).mpr ((solveCheck_zero_iff_forall M b z).mp h)

/-- a non-negative stationary point (inversion / `lsq` result without negative entries) passes the exact KKT
    certificate, i.e. is the non-negative optimum: the fallback would return the same fitted values -/
theorem stationary_nonneg_is_kkt (M : Mat) (b z : List Rat) (h : statCheck M b z 0 = true)
    (hz0 : ∀ v ∈ z, 0 ≤ v) : kktCheck M b z 0 0 = true := by
  have hg := (statCheck_zero_iff M b z).mp h
  rw [kktCheck_iff]
  refine ⟨hz0, ?_, ?_⟩
  · intro v hv; rw [hg v hv]; simp
  · rw [dot_eq_zero_of_right z _ hg]; simp [ratAbs']

/-! ### the certificates characterise the optima -/

/-- the variational inequality at a constrained minimiser: `(u − z)·w ≥ 0` for every non-negative `u` -/
theorem nnls_min_variational (M : Mat) (b z u : List Rat) (m n : Nat) (hs : Shaped M b m n)
    (hz : z.length = n) (hu : u.length = n) (hz0 : ∀ v ∈ z, 0 ≤ v) (hu0 : ∀ v ∈ u, 0 ≤ v)
    (hmin : ∀ y : List Rat, y.length = n → (∀ v ∈ y, 0 ≤ v) → residSq M b z ≤ residSq M b y) :
    dot z (grad M b z) ≤ dot u (grad M b z) :=
  c05_variational_core M b z u m n hs hz hu (fun t ht0 ht1 =>
    hmin _ (by simp [vadd, vscale, hz, hu]) (c05_convex_nonneg t z u ht0.le ht1 hz0 hu0))

/-- necessity of the KKT certificate: a non-negative minimiser over the non-negative candidates passes it exactly -/
theorem kkt_necessary (M : Mat) (b z : List Rat) (m n : Nat) (hs : Shaped M b m n)
    (hz : z.length = n) (hz0 : ∀ v ∈ z, 0 ≤ v)
    (hmin : ∀ y : List Rat, y.length = n → (∀ v ∈ y, 0 ≤ v) → residSq M b z ≤ residSq M b y) :
    kktCheck M b z 0 0 = true := by
  have hv := fun u hu hu0 => nnls_min_variational M b z u m n hs hz hu hz0 hu0 hmin
  have h0 := hv (vscale 0 z) (by simp [vscale, hz]) (by simp [vscale])
  have h2 := hv (vscale 2 z) (by simp [vscale, hz]) (by
    intro v hv'; simp only [vscale, List.mem_map] at hv'
    obtain ⟨a, ha, rfl⟩ := hv'
    have := hz0 a ha; linarith)
  rw [dot_smul_left] at h0 h2
  have hzw : dot z (grad M b z) = 0 := by linarith
  rw [kktCheck_iff]
  refine ⟨hz0, ?_, ?_⟩
  · have := c05_forall_nonneg_of_dot (grad M b z) (fun u hu hu0 => by
      have := hv u (by rw [hu]; simp [grad, tMulVec, hz]) hu0
      linarith)
    intro v hv'; have := this v hv'; linarith
  · rw [hzw]; simp [ratAbs']

/-- the exact KKT certificate characterises the non-negative least-squares optima -/
theorem kkt_iff_minimiser (M : Mat) (b z : List Rat) (m n : Nat) (hs : Shaped M b m n) (hz : z.length = n) :
    kktCheck M b z 0 0 = true ↔
      (∀ v ∈ z, 0 ≤ v) ∧
      ∀ y : List Rat, y.length = n → (∀ v ∈ y, 0 ≤ v) → residSq M b z ≤ residSq M b y := by
  constructor
  · intro h
    exact ⟨((kktCheck_iff M b z 0 0).mp h).1, fun y hy hy0 => kkt_sound M b z y m n hs hz hy hy0 h⟩
  · rintro ⟨hz0, hmin⟩
    exact kkt_necessary M b z m n hs hz hz0 hmin

/-- unconstrained analogue (allow_negatives): the stationarity certificate characterises the least-squares optima -/
theorem stationary_iff_minimiser (M : Mat) (b z : List Rat) (m n : Nat) (hs : Shaped M b m n)
    (hz : z.length = n) :
    statCheck M b z 0 = true ↔ ∀ y : List Rat, y.length = n → residSq M b z ≤ residSq M b y := by
  constructor
  · intro h y hy
    exact stationary_min M b z y m n hs hz hy h
  · intro hmin
    have hv : ∀ u : List Rat, u.length = n → dot z (grad M b z) ≤ dot u (grad M b z) := fun u hu =>
      c05_variational_core M b z u m n hs hz hu (fun t _ _ => hmin _ (by simp [vadd, vscale, hz, hu]))
    have h0 := hv (vscale 0 z) (by simp [vscale, hz])
    have h2 := hv (vscale 2 z) (by simp [vscale, hz])
    rw [dot_smul_left] at h0 h2
    have hzw : dot z (grad M b z) = 0 := by linarith
    have hwl : (grad M b z).length = n := by simp [grad, tMulVec, hz]
    have h3 := hv (vscale (-1) (grad M b z)) (by simp [vscale, hwl])
    rw [dot_smul_left, hzw] at h3
    have h4 := normSq_nonneg (grad M b z)
    have h5 : normSq (grad M b z) = 0 := by unfold normSq at h4 ⊢; linarith
    rw [statCheck_zero_iff]
    exact (normSq_eq_zero _).mp h5

/-! ### uniqueness -/

/-- two stationary points have the same fitted values -/
theorem stationary_unique (M : Mat) (b z z' : List Rat) (m n : Nat) (hs : Shaped M b m n)
    (hz : z.length = n) (hz' : z'.length = n)
    (h : statCheck M b z 0 = true) (h' : statCheck M b z' 0 = true) :
    mulVec M z' = mulVec M z := by
  have hd := residSq_diff M b z z' m n hs hz hz'
  have hd' := residSq_diff M b z' z m n hs hz' hz
  have hw := (statCheck_zero_iff M b z).mp h
  have hw' := (statCheck_zero_iff M b z').mp h'
  rw [dot_eq_zero_of_right z' _ hw, dot_eq_zero_of_right z _ hw] at hd
  rw [dot_eq_zero_of_right z' _ hw', dot_eq_zero_of_right z _ hw'] at hd'
  have n1 := normSq_nonneg (mulVec M (vsub z' z))
  have n2 := normSq_nonneg (mulVec M (vsub z z'))
  have h0 : normSq (mulVec M (vsub z' z)) = 0 := by linarith
  rw [mulVec_vsub' M z' z (hz'.trans hz.symm), normSq_eq_zero] at h0
  exact (vsub_eq_zero_iff _ _ (by simp [mulVec])).mp h0

/-- two exactly certified points have the same fitted values and the same squared residual, whether or not the
    minimiser is unique -/
theorem kkt_fitted_unique (M : Mat) (b z z' : List Rat) (m n : Nat) (hs : Shaped M b m n)
    (hz : z.length = n) (hz' : z'.length = n)
    (h : kktCheck M b z 0 0 = true) (h' : kktCheck M b z' 0 0 = true) :
    mulVec M z' = mulVec M z ∧ residSq M b z' = residSq M b z := by
  have h0 := kkt_unique M b z z' m n hs hz hz' h h'
  rw [mulVec_vsub' M z' z (hz'.trans hz.symm), normSq_eq_zero] at h0
  have hm := (vsub_eq_zero_iff _ _ (by simp [mulVec])).mp h0
  exact ⟨hm, by unfold residSq; rw [hm]⟩

/-- with an injective (coercive) matrix the exactly certified point is unique -/
theorem kkt_unique_of_coercive (M : Mat) (b z z' : List Rat) (m n : Nat) (sigma2 : Rat) (hs : Shaped M b m n)
    (hz : z.length = n) (hz' : z'.length = n)
    (h : kktCheck M b z 0 0 = true) (h' : kktCheck M b z' 0 0 = true) (hσ : 0 < sigma2)
    (hco : ∀ x : List Rat, x.length = n → sigma2 * normSq x ≤ normSq (mulVec M x)) : z' = z := by
  have h0 := kkt_unique M b z z' m n hs hz hz' h h'
  have h2 := hco (vsub z' z) (by simp [vsub, hz, hz'])
  have h3 := normSq_nonneg (vsub z' z)
  have h4 : normSq (vsub z' z) = 0 := by
    rw [h0] at h2
    have : sigma2 * normSq (vsub z' z) = 0 := le_antisymm h2 (mul_nonneg hσ.le h3)
    rcases mul_eq_zero.mp this with h | h
    · exact absurd h hσ.ne'
    · exact h
  rw [normSq_eq_zero] at h4
  exact (vsub_eq_zero_iff _ _ (hz'.trans hz.symm)).mp h4

/-- "equals the minimiser within solver tolerance when it is unique", for inconsistent systems too: a vector certified
    with slacks `ε`, `δ` is within `2(ε·Σz* + δ)/σ²` of the exactly certified minimiser `z*` -/
theorem kkt_near_minimiser (M : Mat) (b zs z : List Rat) (m n : Nat) (eps delta sigma2 : Rat) (hs : Shaped M b m n)
    (hzs : zs.length = n) (hz : z.length = n) (heps : 0 ≤ eps)
    (hstar : kktCheck M b zs 0 0 = true) (h : kktCheck M b z eps delta = true) (hσ : 0 < sigma2)
    (hco : ∀ x : List Rat, x.length = n → sigma2 * normSq x ≤ normSq (mulVec M x)) :
    normSq (mulVec M (vsub zs z)) ≤ 2 * (eps * zs.sum + delta) ∧
    normSq (vsub zs z) ≤ 2 * (eps * zs.sum + delta) / sigma2 := by
  have hzs0 := ((kktCheck_iff M b zs 0 0).mp hstar).1
  have hz0 := ((kktCheck_iff M b z eps delta).mp h).1
  have h1 := kkt_strong M b z zs m n eps delta hs hz hzs hzs0 heps h
  have h2 := kkt_sound M b zs z m n hs hzs hz hz0 hstar
  have h3 : normSq (mulVec M (vsub zs z)) ≤ 2 * (eps * zs.sum + delta) := by linarith
  refine ⟨h3, ?_⟩
  have h4 := hco (vsub zs z) (by simp [vsub, hz, hzs])
  rw [le_div_iff₀ hσ]
  linarith

/-! ### invariances -/

/-- positive homogeneity of the objective: scaling the right-hand side and the candidate by `k` scales the squared
    residual by `k²` -/
theorem residSq_vscale (M : Mat) (b x : List Rat) (k : Rat) :
    residSq M (vscale k b) (vscale k x) = k * (k * residSq M b x) := by
  unfold residSq
  rw [mulVec_vscale, c05_vsub_vscale, normSq_vscale]

/-- … and of the certificate: if `z` is certified for `b` with slacks `ε`, `δ`, then `k z` is certified for `k b` with
    slacks `k ε`, `k² δ` (`k ≥ 0`); in particular exact certificates survive rescaling of the right-hand side -/
theorem kktCheck_vscale (M : Mat) (b z : List Rat) (k eps delta : Rat) (hk : 0 ≤ k)
    (h : kktCheck M b z eps delta = true) :
    kktCheck M (vscale k b) (vscale k z) (k * eps) (k * (k * delta)) = true := by
  rw [kktCheck_iff] at h ⊢
  obtain ⟨h0, hw, ha⟩ := h
  rw [c05_grad_vscale]
  refine ⟨?_, ?_, ?_⟩
  · intro v hv; simp only [vscale, List.mem_map] at hv
    obtain ⟨a, ha', rfl⟩ := hv
    exact mul_nonneg hk (h0 a ha')
  · intro v hv; simp only [vscale, List.mem_map] at hv
    obtain ⟨a, ha', rfl⟩ := hv
    have := mul_le_mul_of_nonneg_left (hw a ha') hk
    linarith
  · rw [dot_smul_left, dot_smul_right, ratAbs'_eq_abs, abs_mul, abs_mul, abs_of_nonneg hk]
    rw [ratAbs'_eq_abs] at ha
    exact mul_le_mul_of_nonneg_left (mul_le_mul_of_nonneg_left ha hk) hk

/-- the order of the equations is immaterial for the certificate (for the objective itself this is
    `residSq_perm_rows` of Props/C07.lean): permuting the rows together with their right-hand sides does not change
    whether a vector is exactly certified, for the constrained and for the unconstrained problem -/
theorem kktCheck_perm_rows (M M' : Mat) (b b' z : List Rat) (m n : Nat) (hs : Shaped M b m n)
    (hs' : Shaped M' b' m n) (hz : z.length = n) (hp : List.Perm (M.zip b) (M'.zip b')) :
    kktCheck M b z 0 0 = kktCheck M' b' z 0 0 ∧ statCheck M b z 0 = statCheck M' b' z 0 := by
  have hr : ∀ x, residSq M b x = residSq M' b' x := fun x => by
    rw [c05_residSq_eq_sum, c05_residSq_eq_sum]
    exact (hp.map _).sum_eq
  constructor
  · rw [Bool.eq_iff_iff, kkt_iff_minimiser M b z m n hs hz, kkt_iff_minimiser M' b' z m n hs' hz]
    simp only [hr]
  · rw [Bool.eq_iff_iff, stationary_iff_minimiser M b z m n hs hz, stationary_iff_minimiser M' b' z m n hs' hz]
    simp only [hr]

/-! ### the augmented system of `add_mean_one` -/

/-- the objective of the augmented system splits into the force-balance part (with the multiplier added to every
    equation) and the squared deviation of the sum of tensions from the number of interfaces -/
theorem addMeanOne_residSq (A : Mat) (b x : List Rat) (lam : Rat) (m n : Nat) (hm : 0 < m)
    (hs : Shaped A b m n) (hx : x.length = n) :
    residSq (addMeanOne A b).1 (addMeanOne A b).2 (x ++ [lam])
      = normSq (vsub ((mulVec A x).map (· + lam)) b) + (x.sum - n) * (x.sum - n) := by
  obtain ⟨hmul, hb'⟩ := addMeanOne_mulVec A b x lam m n hm hs hx
  unfold residSq
  rw [hmul, hb', c05_normSq_vsub_append _ _ _ _ (by simp [mulVec, hs.1, hs.2.1])]

/-- characterisation of consistency of the augmented system (converse of `mean_one_of_consistent` included) -/
theorem addMeanOne_residSq_eq_zero_iff (A : Mat) (b x : List Rat) (lam : Rat) (m n : Nat) (hm : 0 < m)
    (hs : Shaped A b m n) (hx : x.length = n) :
    residSq (addMeanOne A b).1 (addMeanOne A b).2 (x ++ [lam]) = 0
      ↔ (mulVec A x).map (· + lam) = b ∧ x.sum = (n : Rat) := by
  rw [addMeanOne_residSq A b x lam m n hm hs hx]
  have h1 := normSq_nonneg (vsub ((mulVec A x).map (· + lam)) b)
  have h2 := mul_self_nonneg (x.sum - (n : Rat))
  have hl : ((mulVec A x).map (· + lam)).length = b.length := by simp [mulVec, hs.1, hs.2.1]
  constructor
  · intro h
    have ha : normSq (vsub ((mulVec A x).map (· + lam)) b) = 0 := by linarith
    have hb : (x.sum - (n : Rat)) * (x.sum - n) = 0 := by linarith
    rw [normSq_eq_zero, vsub_eq_zero_iff _ _ hl] at ha
    exact ⟨ha, by have := mul_self_eq_zero.mp hb; linarith⟩
  · rintro ⟨ha, hb⟩
    rw [ha, hb]
    have : normSq (vsub b b) = 0 := (normSq_eq_zero _).mpr ((vsub_eq_zero_iff b b rfl).mpr rfl)
    rw [this]; ring

/-- the mean of the reported tensions, as a quotient, is one for a consistent system with at least one interface -/
theorem mean_eq_one_of_consistent (A : Mat) (b x : List Rat) (lam : Rat) (m n : Nat) (hm : 0 < m) (hn : 0 < n)
    (hs : Shaped A b m n) (hx : x.length = n)
    (h : solveCheck (addMeanOne A b).1 (addMeanOne A b).2 (x ++ [lam]) 0 = true) : x.sum / (x.length : Rat) = 1 := by
  have hr : residSq (addMeanOne A b).1 (addMeanOne A b).2 (x ++ [lam]) = 0 :=
    (normSq_eq_zero _).mpr ((solveCheck_zero_iff_forall _ _ _).mp h)
  rw [mean_one_of_consistent A b x lam m n hm hs hx hr, hx]
  have : (n : Rat) ≠ 0 := by exact_mod_cast hn.ne'
  exact div_self this

/-! ### witnesses: hypotheses that cannot be dropped -/

/-- `kkt_sound` needs the candidate to be non-negative: the certified NNLS optimum is beaten by a candidate with a
    negative entry -/
theorem kkt_sound_nonneg_witness :
    kktCheck [[1, 0], [0, 1]] [1, -1] [1, 0] 0 0 = true ∧
    residSq [[1, 0], [0, 1]] [1, -1] [1, -1] < residSq [[1, 0], [0, 1]] [1, -1] [1, 0] := by decide +kernel

/-- FALSE without consistency: "the mean reported tension is one".  For `A = [[1]]`, `b = [0]` the exactly certified
    non-negative optimum of the augmented system is `x = 1/2`, `λ = 0`, whose mean is `1/2`
    (the consistent case is `mean_one_of_consistent`) -/
theorem mean_one_inconsistent_witness :
    kktCheck (addMeanOne [[1]] [0]).1 (addMeanOne [[1]] [0]).2 ([1/2] ++ [0]) 0 0 = true ∧
    ([1/2] : List Rat).sum ≠ 1 := by decide +kernel

/-- the slack term cannot be dropped from `kkt_gap`: a vector certified with `ε = 1` that is not the minimiser -/
theorem kkt_gap_slack_witness :
    kktCheck [[1]] [1] [0] 1 0 = true ∧ residSq [[1]] [1] [1] < residSq [[1]] [1] [0] := by decide +kernel

/-- `stationary_nonneg_is_kkt` needs the sign hypothesis: a stationary point with a negative entry is not certified -/
theorem stationary_nonneg_witness :
    statCheck [[1, 0], [0, 1]] [1, -1] [1, -1] 0 = true ∧ kktCheck [[1, 0], [0, 1]] [1, -1] [1, -1] 0 0 = false := by
  decide +kernel

/-! ### non-vacuity of the hypotheses -/

/-- `hmin` of `kkt_necessary` / `nnls_min_variational` on the 2 × 2 system whose optimum sits on the boundary -/
example : ∀ y : List Rat, y.length = 2 → (∀ v ∈ y, 0 ≤ v) →
    residSq [[1, 0], [0, 1]] [1, -1] [1, 0] ≤ residSq [[1, 0], [0, 1]] [1, -1] y := fun y hy hy0 =>
  kkt_sound _ _ _ y 2 2 ⟨rfl, rfl, by intro r hr; simp at hr; rcases hr with rfl | rfl <;> rfl⟩ rfl hy hy0
    (by decide +kernel)
/-- `hmin` of `stationary_iff_minimiser` (right-hand side) -/
example : ∀ y : List Rat, y.length = 2 →
    residSq [[1, 0], [0, 1]] [1, -1] [1, -1] ≤ residSq [[1, 0], [0, 1]] [1, -1] y := fun y hy =>
  stationary_min _ _ _ y 2 2 ⟨rfl, rfl, by intro r hr; simp at hr; rcases hr with rfl | rfl <;> rfl⟩ rfl hy
    (by decide +kernel)
/-- two different stationary points (`stationary_unique` with a non-injective matrix) -/
example : statCheck [[1, 1]] [1] [1, 0] 0 = true ∧ statCheck [[1, 1]] [1] [0, 1] 0 = true := by decide +kernel
/-- a non-negative stationary point (`stationary_nonneg_is_kkt`) -/
example : statCheck [[1, 1]] [1] [1, 0] 0 = true ∧ ∀ v ∈ ([1, 0] : List Rat), 0 ≤ v := by decide +kernel
/-- a genuine permutation of the equations (`kktCheck_perm_rows`) -/
example : List.Perm (([[1, 0], [0, 1]] : Mat).zip ([1, -1] : List Rat)) (([[0, 1], [1, 0]] : Mat).zip [-1, 1]) := by
  decide +kernel
/-- a consistent augmented system passing `solveCheck` (`mean_eq_one_of_consistent`) -/
example : solveCheck (addMeanOne [[1, -1]] [0]).1 (addMeanOne [[1, -1]] [0]).2 ([1, 1] ++ [0]) 0 = true := by
  decide +kernel
/-- a vector certified with positive slacks only (`kkt_near_minimiser`, `kktCheck_mono`, `kktCheck_vscale`) -/
example : kktCheck [[1, 0], [0, 1]] [1, -1] [1, 1/1000] (1/100) (1/100) = true ∧
    kktCheck [[1, 0], [0, 1]] [1, -1] [1, 1/1000] 0 0 = false := by decide +kernel
/-- a certified vector with multiplier (`kkt_reported_nonneg`) -/
example : kktCheck (addMeanOne [[1]] [0]).1 (addMeanOne [[1]] [0]).2 ([1/2] ++ [0]) 0 0 = true := by decide +kernel
/-- the coercivity hypothesis with `σ² = 1` -/
example : ∀ x : List Rat, x.length = 2 → 1 * normSq x ≤ normSq (mulVec [[1, 0], [0, 1]] x) := by
  intro x hx
  match x, hx with
  | [a, b], _ => simp [mulVec, normSq, dot]

end Forsys
