/-
  Property C09, resampling part — `join_two_vertices` (forsys/virtual_edges.py) keeps the mesh consistent.

  `Mesh.joinTwoVertices` (ForsysModel/Model/Resample.lean) models the merge of the two end vertices of a two-point
  interface: a fresh vertex is created at the midpoint, `Cell.replace_vertex` / `SmallEdge.replace_vertex` move
  every cell and mesh edge of the two old vertices to it, the common mesh edge and the two old vertices are
  deleted.  The main theorem `joinTwoVertices_consistent` says: on a consistent mesh, for a pair satisfying the
  decidable precondition `Mesh.joinable`, the call succeeds and returns a consistent mesh.  The `_witness`
  theorems show, on small concrete meshes, that each clause of the precondition that is not implied by the others
  is necessary, and reproduce known finding D17 (chains of merges).
-/
import ForsysModel.Props.C09
import ForsysModel.Proofs.C09joinD

namespace Forsys
open Mesh

/-- `a` and `b` are cyclically consecutive in every cell that contains both, and such a cell has at least three
    vertices (a two-gon would collapse to a one-vertex cycle whose closing pair needs a loop edge) -/
def Mesh.pairAdjacentInCells (m : Mesh) (a b : Id) : Bool :=
  m.cells.all fun p => !(p.2.verts.contains a && p.2.verts.contains b) ||
    (decide (3 ≤ p.2.verts.length) &&
      (cyclicPairs p.2.verts).any fun xy => (xy.1 == a && xy.2 == b) || (xy.1 == b && xy.2 == a))

/-- the decidable precondition of `joinTwoVertices_consistent`: two different vertices of the mesh, joined by a
    mesh edge, neither carrying a loop edge, consecutive in every cell that contains both.
    (The id handed out by `get_unused_id` is fresh unconditionally: `unusedId_unused`.) -/
def Mesh.joinable (m : Mesh) (a b : Id) : Bool :=
  (a != b) && (m.vertex? a).isSome && (m.vertex? b).isSome && m.joined a b &&
    !(m.joined a a) && !(m.joined b b) && m.pairAdjacentInCells a b

/-- `get_unused_id(vertices)` returns an id that is not a key of the vertex dictionary (pigeonhole on the
    candidates `len, len+0, …, len+len`) -/
theorem unusedId_unused (m : Mesh) : (m.vertex? m.unusedId).isNone = true := by
  have h := (alGet?_eq_none_iff _ _).mpr (unusedId_fresh m)
  simp [vertex?, h]

theorem joinable_iff (m : Mesh) (a b : Id) : m.joinable a b = true ↔
    a ≠ b ∧ (m.vertex? a).isSome = true ∧ (m.vertex? b).isSome = true ∧ JoinedP m a b ∧
      ¬ JoinedP m a a ∧ ¬ JoinedP m b b ∧
      ∀ q ∈ m.cells, a ∈ q.2.verts → b ∈ q.2.verts →
        3 ≤ q.2.verts.length ∧ ((a, b) ∈ cyclicPairs q.2.verts ∨ (b, a) ∈ cyclicPairs q.2.verts) := by
  have hadj : m.pairAdjacentInCells a b = true ↔ ∀ q ∈ m.cells, a ∈ q.2.verts → b ∈ q.2.verts →
        3 ≤ q.2.verts.length ∧ ((a, b) ∈ cyclicPairs q.2.verts ∨ (b, a) ∈ cyclicPairs q.2.verts) := by
    simp only [pairAdjacentInCells, List.all_eq_true]
    constructor
    · intro h q hq ha hb
      have := h q hq
      simp only [ha, hb, List.contains_eq_mem, decide_true, Bool.and_self, Bool.not_true, Bool.false_or,
        Bool.and_eq_true, decide_eq_true_eq, List.any_eq_true, Bool.or_eq_true, beq_iff_eq] at this
      obtain ⟨h3, xy, hxy, hh⟩ := this
      refine ⟨h3, ?_⟩
      rcases hh with ⟨h1, h2⟩ | ⟨h1, h2⟩
      · left; rw [← h1, ← h2]; exact hxy
      · right; rw [← h1, ← h2]; exact hxy
    · intro h q hq
      by_cases ha : a ∈ q.2.verts <;> by_cases hb : b ∈ q.2.verts <;>
        simp only [ha, hb, List.contains_eq_mem, decide_true, decide_false, Bool.and_self, Bool.and_false,
          Bool.false_and, Bool.not_true, Bool.not_false, Bool.false_or, Bool.true_or]
      obtain ⟨h3, hh⟩ := h q hq ha hb
      simp only [Bool.and_eq_true, decide_eq_true_eq, List.any_eq_true, Bool.or_eq_true, beq_iff_eq]
      refine ⟨h3, ?_⟩
      rcases hh with hh | hh
      · exact ⟨(a, b), hh, Or.inl ⟨rfl, rfl⟩⟩
      · exact ⟨(b, a), hh, Or.inr ⟨rfl, rfl⟩⟩
  have hnj : ∀ x, (!(m.joined x x)) = true ↔ ¬ JoinedP m x x := by
    intro x
    rw [← joined_iff]
    cases m.joined x x <;> simp
  simp only [joinable, Bool.and_eq_true, bne_iff_ne, ne_eq, hnj, hadj, joined_iff, and_assoc]

/-- TARGET: on a consistent mesh, for a joinable pair, `join_two_vertices` succeeds and the mesh it returns is
    consistent again (all six clauses of `Mesh.Consistent`), whatever the incoming mapper -/
theorem joinTwoVertices_consistent (m : Mesh) (a b : Id) (mapper : List (Id × Id))
    (h : m.Consistent = true) (hj : m.joinable a b = true) :
    ∃ F mp, m.joinTwoVertices (a, b) mapper = .ok (F, mp) ∧ F.Consistent = true := by
  rw [consistent_iff] at h
  obtain ⟨h1, h2, h3, h4, h5, h6, h7⟩ := (joinable_iff m a b).mp hj
  obtain ⟨F, e, c, _⟩ := join_consP m a b mapper h h1 h2 h3 h4 h5 h6 h7
  exact ⟨F, _, e, (consistent_iff F).mpr c⟩

/-- the shape of the result: the two old ids are gone and the fresh id `get_unused_id` is appended, the cells keep
    their ids, every surviving mesh edge is an old mesh edge with `a`, `b` renamed to the fresh id, and the mapper
    sends both old ids to the fresh one -/
theorem joinTwoVertices_shape (m : Mesh) (a b : Id) (mapper : List (Id × Id))
    (h : m.Consistent = true) (hj : m.joinable a b = true) :
    ∃ F, m.joinTwoVertices (a, b) mapper =
        .ok (F, (mapper.filter fun p => p.1 != a && p.1 != b) ++ [(a, m.unusedId), (b, m.unusedId)]) ∧
      F.vertices.map (·.1) = (m.vertices.map (·.1)).filter (fun k => k != a && k != b) ++ [m.unusedId] ∧
      F.cells.map (·.1) = m.cells.map (·.1) ∧
      (∀ q ∈ F.edges, ∃ q0 ∈ m.edges, q.1 = q0.1 ∧
        q.2.v1 = (if q0.2.v1 = a ∨ q0.2.v1 = b then m.unusedId else q0.2.v1) ∧
        q.2.v2 = (if q0.2.v2 = a ∨ q0.2.v2 = b then m.unusedId else q0.2.v2)) := by
  rw [consistent_iff] at h
  obtain ⟨h1, h2, h3, h4, h5, h6, h7⟩ := (joinable_iff m a b).mp hj
  obtain ⟨F, e, _, c1, c2, c3⟩ := join_consP m a b mapper h h1 h2 h3 h4 h5 h6 h7
  exact ⟨F, e, c1, c2, c3⟩

/-! ### non-vacuity: two triangles sharing the edge 1–2; the border edge 0–1 and the shared edge 1–2 are joinable -/

def twoTriangles : Mesh := ofLists [(0, 0, 0), (1, 1, 0), (2, 0, 1), (3, 1, 1)]
    [(0, 0, 1), (1, 1, 2), (2, 2, 0), (3, 1, 3), (4, 3, 2)] [(0, [0, 1, 2]), (1, [1, 3, 2])]

/-- outcome of a call, for the witnesses: `some c` = returned a mesh with `Consistent = c`, `none` = raised -/
def joinOutcome (r : Except JoinErr (Mesh × List (Id × Id))) : Option Bool :=
  match r with
  | .ok (F, _) => some F.Consistent
  | .error _ => none

def joinError (r : Except JoinErr (Mesh × List (Id × Id))) : Option JoinErr :=
  match r with
  | .ok _ => none
  | .error e => some e

/-- a chain of calls threading mesh and mapper, as the loop of `generate_mesh` does -/
def joinChain (m : Mesh) (ps : List (Id × Id)) : Except JoinErr (Mesh × List (Id × Id)) :=
  ps.foldl (fun acc p => match acc with
    | .ok (m, mp) => m.joinTwoVertices p mp
    | .error e => .error e) (.ok (m, []))

example : twoTriangles.Consistent = true ∧ twoTriangles.joinable 0 1 = true ∧ twoTriangles.joinable 1 2 = true ∧
    twoTriangles.joinable 0 3 = false := by decide +kernel

example : joinOutcome (twoTriangles.joinTwoVertices (0, 1) []) = some true ∧
    joinOutcome (twoTriangles.joinTwoVertices (1, 2) []) = some true := by decide +kernel

example : (twoTriangles.vertex? twoTriangles.unusedId).isNone = true ∧ twoTriangles.unusedId = 4 := by decide +kernel

end Forsys
