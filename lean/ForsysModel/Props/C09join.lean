/-
  Property C09, resampling part — `join_two_vertices` (forsys/virtual_edges.py) keeps the mesh consistent.

  `Mesh.joinTwoVertices` (ForsysModel/Model/Resample.lean) models the merge of the two end vertices of a two-point
  interface: a fresh vertex is created at the midpoint, `Cell.replace_vertex` / `SmallEdge.replace_vertex` move
  every cell and mesh edge of the two old vertices to it, the common mesh edge and the two old vertices are
  deleted.  The main theorem `joinTwoVertices_consistent` says: on a consistent mesh, for a pair satisfying the
  decidable precondition `Mesh.joinable`, the call succeeds and returns a consistent mesh.  The `_witness`
  theorems show, on small concrete meshes, that each clause of the precondition that is not implied by the others
  is necessary, and reproduce known finding D17 (chains of merges).
-/
import ForsysModel.Props.C09
import ForsysModel.Proofs.C09joinD

namespace Forsys
open Mesh

/-- `a` and `b` are cyclically consecutive in every cell that contains both, and such a cell has at least three
    vertices (a two-gon would collapse to a one-vertex cycle whose closing pair needs a loop edge) -/
def Mesh.pairAdjacentInCells (m : Mesh) (a b : Id) : Bool :=
  m.cells.all fun p => !(p.2.verts.contains a && p.2.verts.contains b) ||
    (decide (3 ≤ p.2.verts.length) &&
      (cyclicPairs p.2.verts).any fun xy => (xy.1 == a && xy.2 == b) || (xy.1 == b && xy.2 == a))

/-- the decidable precondition of `joinTwoVertices_consistent`: two different vertices of the mesh, joined by a
    mesh edge, neither carrying a loop edge, consecutive in every cell that contains both.
    (The id handed out by `get_unused_id` is fresh unconditionally: `unusedId_unused`.) -/
def Mesh.joinable (m : Mesh) (a b : Id) : Bool :=
  (a != b) && (m.vertex? a).isSome && (m.vertex? b).isSome && m.joined a b &&
    !(m.joined a a) && !(m.joined b b) && m.pairAdjacentInCells a b

/-- `get_unused_id(vertices)` returns an id that is not a key of the vertex dictionary (pigeonhole on the
    candidates `len, len+0, …, len+len`) -/
theorem unusedId_unused (m : Mesh) : (m.vertex? m.unusedId).isNone = true := by
  have h := (alGet?_eq_none_iff _ _).mpr (unusedId_fresh m)
  simp [vertex?, h]

theorem joinable_iff (m : Mesh) (a b : Id) : m.joinable a b = true ↔
    a ≠ b ∧ (m.vertex? a).isSome = true ∧ (m.vertex? b).isSome = true ∧ JoinedP m a b ∧
      ¬ JoinedP m a a ∧ ¬ JoinedP m b b ∧
      ∀ q ∈ m.cells, a ∈ q.2.verts → b ∈ q.2.verts →
        3 ≤ q.2.verts.length ∧ ((a, b) ∈ cyclicPairs q.2.verts ∨ (b, a) ∈ cyclicPairs q.2.verts) := by
  have hadj : m.pairAdjacentInCells a b = true ↔ ∀ q ∈ m.cells, a ∈ q.2.verts → b ∈ q.2.verts →
        3 ≤ q.2.verts.length ∧ ((a, b) ∈ cyclicPairs q.2.verts ∨ (b, a) ∈ cyclicPairs q.2.verts) := by
    simp only [pairAdjacentInCells, List.all_eq_true]
    constructor
    · intro h q hq ha hb
      have := h q hq
      simp only [ha, hb, List.contains_eq_mem, decide_true, Bool.and_self, Bool.not_true, Bool.false_or,
        Bool.and_eq_true, decide_eq_true_eq, List.any_eq_true, Bool.or_eq_true, beq_iff_eq] at this
      obtain ⟨h3, xy, hxy, hh⟩ := this
      refine ⟨h3, ?_⟩
      rcases hh with ⟨h1, h2⟩ | ⟨h1, h2⟩
      · left; rw [← h1, ← h2]; exact hxy
      · right; rw [← h1, ← h2]; exact hxy
    · intro h q hq
      by_cases ha : a ∈ q.2.verts <;> by_cases hb : b ∈ q.2.verts <;>
        simp only [ha, hb, List.contains_eq_mem, decide_true, decide_false, Bool.and_self, Bool.and_false,
          Bool.false_and, Bool.not_true, Bool.not_false, Bool.false_or, Bool.true_or]
      obtain ⟨h3, hh⟩ := h q hq ha hb
      simp only [Bool.and_eq_true, decide_eq_true_eq, List.any_eq_true, Bool.or_eq_true, beq_iff_eq]
      refine ⟨h3, ?_⟩
      rcases hh with hh | hh
      · exact ⟨(a, b), hh, Or.inl ⟨rfl, rfl⟩⟩
      · exact ⟨(b, a), hh, Or.inr ⟨rfl, rfl⟩⟩
  have hnj : ∀ x, (!(m.joined x x)) = true ↔ ¬ JoinedP m x x := by
    intro x
    rw [← joined_iff]
    cases m.joined x x <;> simp
  simp only [joinable, Bool.and_eq_true, bne_iff_ne, ne_eq, hnj, hadj, joined_iff, and_assoc]

/-- the id under which `join_two_vertices` finds a vertex: `vertices[k]`, falling back to `vertices[mapper[k]]` -/
def Mesh.resolveId (m : Mesh) (mapper : List (Id × Id)) (k : Id) : Id :=
  if (m.vertex? k).isSome then k else (alGet? k mapper).getD k

theorem resolveOpt_eq (m : Mesh) (mapper : List (Id × Id)) (k : Id)
    (h : (m.vertex? (m.resolveId mapper k)).isSome = true) :
    resolveOpt m mapper k = some (m.resolveId mapper k) := by
  unfold resolveOpt
  unfold resolveId at h ⊢
  by_cases hk : (m.vertex? k).isSome = true
  · simp only [hk, ↓reduceIte]
  · simp only [hk, Bool.false_eq_true, ↓reduceIte] at h ⊢
    cases hm : alGet? k mapper with
    | none => rw [hm] at h; exact absurd h hk
    | some k' => rw [hm] at h; simp only [Option.getD_some] at h ⊢; simp [h]

/-- TARGET: on a consistent mesh, for a pair whose two ids resolve (directly or through the mapper) to a joinable
    pair of vertices, `join_two_vertices` succeeds and the mesh it returns is consistent again (all six clauses of
    `Mesh.Consistent`), whatever the incoming mapper -/
theorem joinTwoVertices_consistent (m : Mesh) (pair : Id × Id) (mapper : List (Id × Id))
    (h : m.Consistent = true)
    (hj : m.joinable (m.resolveId mapper pair.1) (m.resolveId mapper pair.2) = true) :
    ∃ F mp, m.joinTwoVertices pair mapper = .ok (F, mp) ∧ F.Consistent = true := by
  rw [consistent_iff] at h
  obtain ⟨h1, h2, h3, h4, h5, h6, h7⟩ := (joinable_iff m _ _).mp hj
  obtain ⟨v0, v1, common, e0, e1, ec, c, _⟩ := joinFinal_consP m _ _ h h1 h2 h3 h4 h5 h6 h7
  exact ⟨_, _, join_eq_gen m pair mapper _ _ v0 v1 (resolveOpt_eq m mapper _ h2) (resolveOpt_eq m mapper _ h3)
    e0 e1 common ec, (consistent_iff _).mpr c⟩

/-- the case the loop of `generate_mesh` starts with: both ids are vertices of the mesh -/
theorem joinTwoVertices_consistent_direct (m : Mesh) (a b : Id) (mapper : List (Id × Id))
    (h : m.Consistent = true) (hj : m.joinable a b = true) :
    ∃ F mp, m.joinTwoVertices (a, b) mapper = .ok (F, mp) ∧ F.Consistent = true := by
  obtain ⟨_, h2, h3, _⟩ := (joinable_iff m a b).mp hj
  apply joinTwoVertices_consistent m (a, b) mapper h
  simp only [resolveId, h2, h3, ↓reduceIte]
  exact hj

/-- the shape of the result: the two old ids are gone and the fresh id `get_unused_id` is appended, the cells keep
    their ids, every surviving mesh edge is an old mesh edge with `a`, `b` renamed to the fresh id, and the mapper
    sends both ids of the pair to the fresh one -/
theorem joinTwoVertices_shape (m : Mesh) (pair : Id × Id) (mapper : List (Id × Id))
    (h : m.Consistent = true)
    (hj : m.joinable (m.resolveId mapper pair.1) (m.resolveId mapper pair.2) = true) :
    let a := m.resolveId mapper pair.1
    let b := m.resolveId mapper pair.2
    ∃ F, m.joinTwoVertices pair mapper =
        .ok (F, (mapper.filter fun p => p.1 != pair.1 && p.1 != pair.2) ++
          [(pair.1, m.unusedId), (pair.2, m.unusedId)]) ∧
      F.vertices.map (·.1) = (m.vertices.map (·.1)).filter (fun k => k != a && k != b) ++ [m.unusedId] ∧
      F.cells.map (·.1) = m.cells.map (·.1) ∧
      (∀ q ∈ F.edges, ∃ q0 ∈ m.edges, q.1 = q0.1 ∧
        q.2.v1 = (if q0.2.v1 = a ∨ q0.2.v1 = b then m.unusedId else q0.2.v1) ∧
        q.2.v2 = (if q0.2.v2 = a ∨ q0.2.v2 = b then m.unusedId else q0.2.v2)) := by
  intro a b
  rw [consistent_iff] at h
  obtain ⟨h1, h2, h3, h4, h5, h6, h7⟩ := (joinable_iff m _ _).mp hj
  obtain ⟨v0, v1, common, e0, e1, ec, _, c1, c2, c3⟩ := joinFinal_consP m _ _ h h1 h2 h3 h4 h5 h6 h7
  exact ⟨_, join_eq_gen m pair mapper _ _ v0 v1 (resolveOpt_eq m mapper _ h2) (resolveOpt_eq m mapper _ h3)
    e0 e1 common ec, c1, c2, c3⟩

/-! ### non-vacuity: two triangles sharing the edge 1–2; the border edge 0–1 and the shared edge 1–2 are joinable -/

def twoTriangles : Mesh := ofLists [(0, 0, 0), (1, 1, 0), (2, 0, 1), (3, 1, 1)]
    [(0, 0, 1), (1, 1, 2), (2, 2, 0), (3, 1, 3), (4, 3, 2)] [(0, [0, 1, 2]), (1, [1, 3, 2])]

/-- outcome of a call, for the witnesses: `some c` = returned a mesh with `Consistent = c`, `none` = raised -/
def joinOutcome (r : Except JoinErr (Mesh × List (Id × Id))) : Option Bool :=
  match r with
  | .ok (F, _) => some F.Consistent
  | .error _ => none

def joinError (r : Except JoinErr (Mesh × List (Id × Id))) : Option JoinErr :=
  match r with
  | .ok _ => none
  | .error e => some e

/-- a chain of calls threading mesh and mapper, as the loop of `generate_mesh` does -/
def joinChain (m : Mesh) (ps : List (Id × Id)) : Except JoinErr (Mesh × List (Id × Id)) :=
  ps.foldl (fun acc p => match acc with
    | .ok (m, mp) => m.joinTwoVertices p mp
    | .error e => .error e) (.ok (m, []))

example : twoTriangles.Consistent = true ∧ twoTriangles.joinable 0 1 = true ∧ twoTriangles.joinable 1 2 = true ∧
    twoTriangles.joinable 0 3 = false := by decide +kernel

example : joinOutcome (twoTriangles.joinTwoVertices (0, 1) []) = some true ∧
    joinOutcome (twoTriangles.joinTwoVertices (1, 2) []) = some true := by decide +kernel

example : (twoTriangles.vertex? twoTriangles.unusedId).isNone = true ∧ twoTriangles.unusedId = 4 := by decide +kernel

/-- non-vacuity of the mapped form: after merging (0, 1) into the new vertex 4 the pair (1, 3) is found through the
    mapper as (4, 3), which is joinable in the new mesh; the old id 1 is no longer a vertex -/
example : (match joinChain twoTriangles [(0, 1)] with
    | .ok (m', mp) => m'.Consistent && m'.joinable (m'.resolveId mp 1) (m'.resolveId mp 3) &&
        (m'.resolveId mp 1 == 4) && !(m'.vertex? 1).isSome &&
        (joinOutcome (m'.joinTwoVertices (1, 3) mp) == some true)
    | .error _ => false) = true := by decide +kernel

/-! ### necessity of the preconditions, and finding D17 -/

/-- a square cell with the diagonal 0–2 as an extra mesh edge -/
def squareWithDiagonal : Mesh := ofLists [(0, 0, 0), (1, 1, 0), (2, 1, 1), (3, 0, 1)]
    [(0, 0, 1), (1, 1, 2), (2, 2, 3), (3, 3, 0), (4, 0, 2)] [(0, [0, 1, 2, 3])]

/-- two quadrilaterals sharing the path 0–3–2 -/
def twoQuads : Mesh := ofLists [(0, 0, 0), (1, 1, 0), (2, 2, 1), (3, 1, 1), (4, 1, 3)]
    [(0, 0, 1), (1, 1, 2), (2, 2, 3), (3, 3, 0), (4, 2, 4), (5, 4, 0)] [(0, [0, 1, 2, 3]), (1, [0, 3, 2, 4])]

def loopMesh : Mesh := ofLists [(0, 0, 0), (1, 1, 0)] [(0, 0, 1), (1, 0, 0)] []
def twoGon : Mesh := ofLists [(0, 0, 0), (1, 1, 0)] [(0, 0, 1)] [(0, [0, 1])]
def triangle : Mesh := ofLists [(0, 0, 0), (1, 1, 0), (2, 0, 1)] [(0, 0, 1), (1, 1, 2), (2, 2, 0)] [(0, [0, 1, 2])]

/-- NECESSARY: "consecutive in every cell containing both".  All other clauses of `joinable` hold for the diagonal
    (0, 2) of the square, the call succeeds, and the cell becomes [4, 1, 3] whose pair (1, 3) is joined by no mesh edge -/
theorem joinTwoVertices_adjacent_witness :
    squareWithDiagonal.Consistent = true ∧ squareWithDiagonal.joined 0 2 = true ∧
    squareWithDiagonal.joined 0 0 = false ∧ squareWithDiagonal.joined 2 2 = false ∧
    squareWithDiagonal.pairAdjacentInCells 0 2 = false ∧
    joinOutcome (squareWithDiagonal.joinTwoVertices (0, 2) []) = some false := by decide +kernel

/-- NECESSARY: "a cell containing both has at least three vertices".  In the two-gon [0, 1] the pair is consecutive,
    but the cell collapses to the one-vertex cycle [2] whose closing pair (2, 2) would need a loop edge -/
theorem joinTwoVertices_twogon_witness :
    twoGon.Consistent = true ∧ twoGon.joined 0 1 = true ∧ twoGon.joined 0 0 = false ∧ twoGon.joined 1 1 = false ∧
    twoGon.pairAdjacentInCells 0 1 = false ∧
    joinOutcome (twoGon.joinTwoVertices (0, 1) []) = some false := by decide +kernel

/-- NECESSARY: "no loop edge at a or b".  `SmallEdge.replace_vertex` rewrites only one end of the loop 0–0, so the
    result keeps a mesh edge ending at the deleted vertex 0 (clause `refs`), whichever way round the pair is given -/
theorem joinTwoVertices_loop_witness :
    loopMesh.Consistent = true ∧ loopMesh.joined 0 1 = true ∧ loopMesh.joined 0 0 = true ∧
    loopMesh.pairAdjacentInCells 0 1 = true ∧
    joinOutcome (loopMesh.joinTwoVertices (0, 1) []) = some false ∧
    joinOutcome (loopMesh.joinTwoVertices (1, 0) []) = some false := by decide +kernel

/-- NECESSARY: "joined by a mesh edge" (else `common_edge` is empty: IndexError) and "both ids resolve to vertices"
    (else KeyError, reported by generate_mesh as SegmentationArtifactException) -/
theorem joinTwoVertices_notJoined_witness :
    twoTriangles.joined 0 3 = false ∧
    joinError (twoTriangles.joinTwoVertices (0, 3) []) = some .indexError ∧
    joinError (twoTriangles.joinTwoVertices (0, 7) []) = some .keyError := by decide +kernel

/-- NECESSARY: `a ≠ b`.  Joining vertex 0 of a triangle with itself deletes one of its two mesh edges and leaves the
    cycle [3, 1, 2] with an unjoined pair -/
theorem joinTwoVertices_samePair_witness :
    joinOutcome (triangle.joinTwoVertices (0, 0) []) = some false := by decide +kernel

/-- finding D17 (chain of merges): the pairs (0, 1) and (1, 2) share vertex 1 and both are joinable in the input
    mesh.  The first call is covered by `joinTwoVertices_consistent`; the second one finds vertex 1 through the mapper
    as the new vertex 5, which in the cell [5, 3, 2, 4] is *not* consecutive with 2 — the precondition is not stable under
    the first merge — and the mesh returned is not consistent (pair (3, 4) of the cycle [6, 3, 4] is not joined) -/
theorem joinTwoVertices_chain_witness :
    twoQuads.Consistent = true ∧ twoQuads.joinable 0 1 = true ∧ twoQuads.joinable 1 2 = true ∧
    joinOutcome (joinChain twoQuads [(0, 1)]) = some true ∧
    joinOutcome (joinChain twoQuads [(0, 1), (1, 2)]) = some false := by decide +kernel

/-- finding D17 (stale mapper): merging the three sides of a triangle one after the other.  The second call meets two
    parallel mesh edges 3–2 (uniqueness of the joining edge is NOT needed: the survivor becomes a loop at the new vertex and
    the mesh stays consistent); the third call looks up vertex 0 through the mapper entry 0 ↦ 3 written by the first call,
    but 3 was deleted by the second: KeyError -/
theorem joinTwoVertices_staleMapper_witness :
    triangle.Consistent = true ∧
    joinOutcome (joinChain triangle [(0, 1)]) = some true ∧
    joinOutcome (joinChain triangle [(0, 1), (1, 2)]) = some true ∧
    joinError (joinChain triangle [(0, 1), (1, 2), (2, 0)]) = some .keyError := by decide +kernel

/- PENDING (not attempted here, no theorem):
   * `generateMesh m ne true` (the whole loop of generate_mesh with replace_short_edges): consistency of the final mesh
     is now proved in Props/C11merge.lean for pairwise vertex-disjoint pairs (`joinable_preserved_of_disjoint`,
     `joinChain_consistent_of_disjoint`, `generateMesh_true_consistent`).  Still without theorem: chains of merges
     (pairs sharing a vertex) — there one needs `joinable` for every pair *in the mesh produced by the previous
     calls*, which `joinTwoVertices_chain_witness` shows is not inherited (finding D17).
   * `generateMesh m ne false`: now proved in Props/C11mesh.lean (`generateMesh_false_five_clauses` for every `ne`,
     `generateMesh_false_consistent` under `1 ≤ ne`, `cellsAnchored`, `picksAgree`).
   * the skeleton clean-up operations (inner-triangle removal, T3 transition, isolated-cell removal).
-/

end Forsys
