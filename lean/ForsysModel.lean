-- Root of the `ForsysModel` library: executable models (Mathlib-free) and property theorems.
import ForsysModel.Model
