-- Root of the `ForsysModel` library: executable models (Mathlib-free), protocol driver modules, property theorems.
import ForsysModel.Model
import ForsysModel.Driver
import ForsysModel.Props
