#!/bin/bash
# runs the repository's pinned test-suite with the hook guard OFF and prints the summary line
cd /repo && env -u FORSYS_VERIF /venv/bin/python -m pytest -q -p no:cacheprovider --timeout=900 --continue-on-collection-errors 2>&1 | grep -E "passed|failed|error" | tail -3
