#!/usr/bin/env python3
"""Regenerates MANIFEST.json from the table below (kept here so the manifest stays consistent)."""
import json, os
ROOT = os.path.dirname(os.path.dirname(os.path.abspath(__file__)))

BASE_NOTE = ("Trusted: Lean 4.33 kernel + axioms propext/Classical.choice/Quot.sound (audited per run with #print axioms; "
             "no sorry/native_decide/bv_decide/own axioms); the Lean interpreter running Driver.lean; the hand-written model's "
             "faithfulness to /repo is validated only by this check's correspondence stage on generated inputs (sampled); "
             "float rounding inside forsys and the external kernels (numpy/scipy/lmfit/circle_fit/cv2/Qhull/PIL) are outside the theorems.")

CHECKS = {
 "C20": dict(
   category="proof",
   text="Theorems about the rational model of Cell.get_area/get_area_sign/get_next_vertex/get_previous_vertex/get_perimeter/"
        "calculate_neighbors (shoelace identity and sign convention, reversal, cyclic shift, translation, scaling, navigation, "
        "perimeter terms, area additivity, neighbour characterisation) for all polygons; tied to the code by a per-run "
        "correspondence check (model vs real Cell objects, area/navigation/neighbours) plus a direct oracle of every clause on the real code.",
   design_ref="DESIGN.md §7 C20",
   technique="Lean 4 theorems over an executable Rat model + differential correspondence check against forsys.cell",
   note=BASE_NOTE + " IEEE sqrt in the perimeter is trusted."),
 "C08": dict(
   category="proof",
   text="Theorems, for an arbitrary id type and junction predicate, about the model of create_edges_new (numpy split at junction "
        "flags, rotation, close-up): every interface runs junction-to-junction with no junction inside, the interfaces of a cell "
        "cover its cycle and contain every cyclic consecutive pair exactly once, cells without junction contribute none; the "
        "de-duplication keeps no path twice in either direction and loses none; the three copies of the internal/external predicate "
        "(Frame.external_edges_id+internal_big_edges(_vertices), BigEdge.external, get_tensions rows) define the same set, equal to "
        "'all vertices in >=2 cells and an end in >=3'. Tied to the code by an exact per-run comparison of Frame construction with "
        "the model, plus an independent graph-walk oracle for maximal paths, two-cells-per-internal-interface and lookup-by-cells "
        "(those two clauses are decided by the oracle on generated tissues, not by a theorem: they need planarity). own_cells is proved to be exactly two cells for interfaces with an interior point (under the planarity fact that the middle vertex lies in at most two cells) and for two-point interfaces whose mesh edge lies in exactly two cells' cycles (after the repair D30); the square lattice with a missing cell (D27) and the lens cell are machine-checked witnesses.",
   design_ref="DESIGN.md §7 C08",
   technique="Lean 4 theorems over an executable list model + exact differential check against forsys.frames.Frame",
   note=BASE_NOTE + " own_cells-has-two-cells (planarity hypotheses) is listed as a pending obligation in the evidence; lookup-by-cells became a theorem in session 5 (bigEdgeByCells_finds)."),
 "C09": dict(
   category="proof",
   text="`Mesh.Consistent` is the property's five clauses as a decidable predicate. Theorems: the constructor pattern every parser uses "
        "(all vertices, then mesh edges, then cells; model `ofLists`) yields a consistent mesh for every well-formed input; deleting an "
        "edge or a cell (with the __del__ unregistration) preserves the clauses it touches; Surface Evolver's orphan removal preserves "
        "consistency; the edge rebuild of generate_mesh restores 'a vertex lists an edge iff it ends there'. Tied to the code per run: "
        "after every step of generated histories (each parser, generate_mesh, Frame) the real dictionaries are dumped and the predicate is "
        "evaluated by the Lean driver and by an independent Python transcription (incl. object identity); `ofLists` and `generateMesh` are "
        "compared with the real constructors / generate_mesh exactly. The WKT parser has its own token-level model (12 theorems: a completed "
        "lattice is consistent exactly when no row repeats a position) compared exactly per run. join_two_vertices preserves consistency "
        "under an explicit decidable precondition (joinTwoVertices_consistent; each part of the precondition shown necessary by a witness; "
        "chains of merges — finding D17 — are machine-checked counterexamples). The generate_mesh merge loop as a whole preserves consistency "
        "when the collected pairs are pairwise vertex-disjoint and proper (generateMesh_true_consistent; both hypotheses shown necessary by "
        "witnesses). Chains of merges have no preservation theorem (D17); the skeleton clean-up preserves four of the five clauses (cleanup_dicts_partial, "
        "Props/C15cleanup.lean), the clause 'consecutive cycle vertices are joined' through the triangle/T3 steps is pending: for these the claim rests on the "
        "per-run evaluation on parsed, generated and "
        "resampled meshes (shipped files, generated dumps, rasterised skeletons thinned and as drawn, tessellations, WKT).",
   design_ref="DESIGN.md §7 C09",
   technique="Lean 4 invariant theorems over an association-list mesh model + per-step evaluation of the Lean predicate on dumps of the real objects",
   note=BASE_NOTE + " CPython is assumed to run __del__ as soon as the last reference goes."),
 "C11": dict(
   category="proof",
   text="Theorems about the per-interface rule `pick` for every list and every ne (unchanged when short, exactly ne+1 points otherwise, "
        "ordered subsequence, both ends kept, i-th point = floor(len*i/ne), idempotent, commutes with relabelling) and about the whole "
        "`generateMesh` model without merging (reported interfaces = pick of the originals; surviving vertices = originals occurring in a "
        "resampled interface with unchanged id/coordinates; interface ends survive; every cycle is a subsequence of its original). Tied to the "
        "code by exact comparison of generate_mesh's three dictionaries, nEdgeArray and error kind with the model, plus an oracle for every "
        "clause on (snapshot before, result), incl. junction positions, adjacency, midpoint contraction and idempotence. Merging of "
        "two-point border interfaces in chains is a known finding (D17); with pairwise vertex-disjoint proper pairs the merging loop is proved to return no error and a consistent mesh (generateMesh_true_consistent, Props/C11merge.lean). Resampling without merging is proved to preserve mesh consistency (generateMesh_false_consistent, Props/C11mesh.lean) under two decidable hypotheses with witnesses; junction ends are kept at their exact position.",
   design_ref="DESIGN.md §7 C11",
   technique="Lean 4 theorems over list/mesh model + exact differential check against virtual_edges.generate_mesh",
   note=BASE_NOTE + " int(len/ne*i) == floor(len*i/ne) is re-checked exhaustively per run for len<800 (quick) / 3000 (thorough), ne<=12."),
 "C02": dict(
   category="proof",
   text="Theorems about the tangent rule (closed form of the per-component sign forcing; unit length preserved; the reference rule is the "
        "tangent of the circle about the fitted centre, along the first chord, and is characterised uniquely; the coded rule equals it under "
        "the sign-agreement hypothesis, with a concrete mirror witness = finding D2; independence of storage direction; two-point interfaces "
        "give the chord) and about the assembled rows (one column per used interface, no coefficient and no equation for vertices of fewer "
        "than three cells, keep-rule = at least three placed interfaces, <4 with ignore_four, unknowns = internal interfaces when no limit). "
        "Tied to the code per run: matrix, row map, unknown list compared with the model fed with the real fit's centres (zero pattern exact, "
        "coefficients 1e-9), and an oracle against closed-form tangents of Moebius images / lattices (1e-6 arcs). Since the repair of eid_from_vertex (D29, found through the hypothesis these theorems first needed) the placement of every coefficient (coefficient_placement: entry (junction, column) = tangent of that interface at the junction if it ends there, else 0), the row rule (row_rule_spec) and the unknowns (unknowns_spec) are theorems without further hypotheses.",
   design_ref="DESIGN.md §7 C02",
   technique="Lean 4 theorems over Rat model of tangent and matrix assembly + differential check with closed-form Moebius tangents",
   note=BASE_NOTE + " The circle fit is an external kernel whose centre is an input of the model. Known finding D2 (mirrored tangent) is reported as KNOWN-FINDING."),
 "C05": dict(
   category="proof",
   text="The solvers are external kernels; proved is the soundness of the certificates evaluated per run in exact rational arithmetic on "
        "the floats the real solver returned: KKT with slack => within 2(eps*sum(y)+delta) of every non-negative candidate (kkt_gap/kkt_sound), "
        "strong form and uniqueness up to the kernel of M, stationary point => global minimiser, exact solution => minimiser, shape of "
        "add_mean_one and 'zero residual => sum x = n'. Per run (hook FORSYS_VERIF=1): the augmented system is rebuilt by the model and compared "
        "exactly, the certificate for the path taken is checked by the Lean driver, and an independent NNLS reference decides the objective "
        "gap, closeness when unique, sign, finiteness and mean one. fix_stress (KF1) and the inversion path's negative multiplier (KF3) are known findings. Quantitative closure (Props/C05bound.lean): a vector passing the (eps, delta) certificate is within 2(eps*sum(t) + delta)/sigma^2 (squared norm) of a non-negative exact solution t when sigma^2 |x|^2 <= |Mx|^2, specialised to the assembled static system (static_certified_recovery) and, with the three-decimal rounding of the right-hand side, to the dynamic one (dynamic_rounded_certified_recovery); sigma^2 itself is computed in floating point per run.",
   design_ref="DESIGN.md §7 C05",
   technique="Lean 4 soundness theorems for optimality certificates + per-run exact certificate checking of the real solver output",
   note=BASE_NOTE + " Certificate tolerances (relative to system scale): 1e-9 inv/nnls, 1e-5 lsq, 1e-6 lsq_linear."),
 "C16": dict(
   category="proof",
   text="Theorems: the square-root-free opening-angle test decides a.b <= c*|a||b| (cosLe_spec), is monotone in the limit, and at the "
        "limit pi holds exactly for antiparallel pairs (Lagrange identity); without a limit no junction is flagged; an interface is dropped "
        "iff both end junctions are flagged and the rest keep their order; the re-alignment puts -1 exactly at excluded positions and the "
        "k-th remaining position holds the k-th solver value, for every list. Per run: flagged set and unknown list compared exactly with "
        "the model (cos(limit) as a rational, pairs within 1e-9 of the limit rejected), re-alignment compared position by position, flagged "
        "junctions recomputed from closed-form tangents (margin 0.1 rad), restricted system solved independently, default limit excludes nothing. End to end in the model (Props/C16system.lean): a junction is flagged iff two distinct incident interfaces open by at least the limit (exceeds_iff_angle), an interface is excluded iff both ends are flagged and the rest keep their order (angle_limit_rule), the mean row counts the remaining interfaces (addMeanOne_last_rhs), the report holds -1 at excluded positions and the restricted solution elsewhere in order (report_spec), nothing is excluded by default, and all of it is invariant under storage order (storage_variants_limit).",
   design_ref="DESIGN.md §7 C16",
   technique="Lean 4 theorems over Rat model of the angle test and re-alignment + differential check against ForceMatrix",
   note=BASE_NOTE + " arccos/cos are IEEE functions; the exact model decision uses the float's rational cos(limit)."),
 "C12": dict(
   category="proof",
   text="Theorems about the model of create_mapping/find_best/get_point_id_by_map for all pools, guesses and constants: find_best only "
        "returns untaken pool vertices; guesses are kept; every end point gets an entry; values are end points of the next frame; the map is "
        "injective on real values; small-motion theorem: if every end point's successor is strictly its nearest end point and lies inside some "
        "search radius (implied by the property's bounds), every end point is mapped to its successor whatever the numbering and processing "
        "order; the radii with the code's constants are 0.005..0.08 of the extent; forward-then-backward returns the start over any number "
        "of frames. Numbering (Props/C12relabel.lean): create_mapping run on renumbered frames builds the renumbered map (createMapping_mapV), and under "
        "the small-motion premises every junction gets its true successor for any numbering and any storage order (assignAll_small_motion_relabel_perm). "
        "Per run: every step's mapping dictionary and multi-frame tracking queries compared exactly with the model on the coordinates "
        "the code sees (centre-of-mass shifts replayed and verified), and the property's clauses asserted on steps whose premises are measured to hold.",
   design_ref="DESIGN.md §7 C12",
   technique="Lean 4 theorems over Rat model of the tracking algorithm + exact differential check against TimeSeries",
   note=BASE_NOTE + " Steps with a squared distance within 1e-9 of a search radius or of another candidate are excluded from the exact comparison."),
 "C13": dict(
   category="proof",
   text="Theorems: forward difference (partner's position minus own over the time-stamp difference), backward difference at the last frame "
        "(through the inverted step map), zero velocity for untracked vertices, exception instead of a number when a step has no map; the "
        "right-hand side holds each junction's components at its own row pair and zero elsewhere, all zero in static mode. Per run: every "
        "velocity of every end point at every frame and the placed right-hand side compared with the model (1e-12 / exactly) and with an "
        "independent finite difference from the known successor table; the adimensional divisor and get_system_velocity_per_frame against the "
        "mean junction speed (this clause needs sqrt and is decided by the oracle, not a theorem). Numbering (Props/C13relabel.lean): for per-frame "
        "injective renamings of a series the model's velocity of a physical vertex, the placed right-hand side and the whole dynamic system are "
        "unchanged (calculateVelocity_relabel, velocityRhs_relabel, dynamic_system_relabel); the multi-step id walk is invariant when every step has a map.",
   design_ref="DESIGN.md §7 C13",
   technique="Lean 4 theorems over Rat model of calculate_velocity and row placement + differential check",
   note=BASE_NOTE),
 "C04": dict(
   category="proof",
   text="Theorems: np.gradient stencil under reversal/scaling/shift; the curvature ingredients negate under reversal, scale by s^2 and vanish "
        "identically on straight polylines of any spacing (so the turning estimate flips sign, is scale free and is zero for straight interfaces); "
        "a row is +-(p_a - p_b); joint flip of interface direction and defining cell orientation, and swapping the two cells, negate both sides "
        "of the equation; bordered normal equations (and the multiplier-free form: constant gradient + zero sum, with slack) give the zero-sum "
        "least-squares minimiser; linearity in the tensions; connected interface graph => unique; zero re-insertion puts 0 exactly at the dropped "
        "cells and keeps the others in order. The assembly itself is in the model (Mesh.pressureSystem, Props/C04system.lean): one equation "
        "s(p_a - p_b) = tension x turning per internal interface with two distinct own cells, linear in the tensions, a column is dropped exactly when "
        "its cell touches no internal interface, unchanged by vertex renumbering and dictionary order of vertices / mesh edges, and on connected tissues "
        "the zero-sum solution of the reduced system is unique. Per run: curvature and the pressure system compared with the model (rows exactly), the solution "
        "certified in exact arithmetic, rows oriented against the geometry, independent constrained solve, zero sum, linearity, zeros. NOT proved "
        "(numerical clauses, checked per run only): '(n-2)/(n-1) theta within 3 %' and 'correlation >= 0.9 with analytic Young-Laplace pressures'.",
   design_ref="DESIGN.md §7 C04",
   technique="Lean 4 theorems over Rat model of curvature ingredients, pressure rows and constrained LS certificate + differential check",
   note=BASE_NOTE + " x**1.5, sqrt and numpy.linalg.inv are trusted/external; the least-squares clauses are asserted when the interfaces link all cells (the property's premise)."),
 "C10": dict(
   category="proof",
   text="The ForSys object is modelled as a state machine over operation sequences with abstract pure kernels. Theorems for every sequence: an "
        "operation on one frame leaves all other frames and their stores untouched; get_system_velocity_per_frame only replaces build options; "
        "after solve_stress the i-th reported value belongs to the i-th internal interface (solver value or -1), equals the value stored on the "
        "interface and each of its mesh edges, excluded and external interfaces carry 0; one solve is history independent; for any prefix and "
        "suffix, what is reported for a frame is what the last solve produced from the build options in force, and equals a fresh object on "
        "which only that build and that solve were called; pressures likewise from the tensions captured by the pressure matrix. Per run: random "
        "histories (<=13 ops, all op kinds, 5 build and 7 solve option sets) compared with fresh objects on the minimal chain, and the Lean "
        "machine driven with kernels tabulated from fresh objects compared with the history object's final state.",
   design_ref="DESIGN.md §7 C10",
   technique="Lean 4 induction over operation sequences of an abstract state machine + history-vs-fresh differential check",
   note=BASE_NOTE + " Known finding: a failed fix_stress call corrupts the stored matrix (KF1b)."),
 "C14": dict(
   category="proof",
   text="Token-level model of the Surface Evolver parser (section location with the code's relative-index arithmetic, field extraction, the "
        "three-way face-line automaton, pressures by position, rounding, create_lattice, orphan and faceless-edge removal, Frame(gt=True) means). "
        "Theorems: print/parse round trip of faces for every wrapping, section boundaries round trip for dumps laid out like the shipped ones "
        "(and a witness that a missing blank line drops a record), edge field rule incl. the bare line, cell cycle = tail vertices of the "
        "signed loop, no vertex without cell and no edge of no face survives, consistency through C09's theorems, interface reference = mean of "
        "its mesh edges. Per run: an independent serialiser (ids with gaps, negative references, faces of 3..60 edges wrapped anywhere, with/"
        "without density, orphans, chords, CRLF/LF) -> real parser compared with the generating data per clause, and with the model on Python's "
        "own tokens, exactly; the shipped dumps go through the model as well.",
   design_ref="DESIGN.md §7 C14",
   technique="Lean 4 theorems over a token-level parser model + independent serialiser round trip + exact differential check",
   note=BASE_NOTE + " Python's str.split/float/int/round are the trusted tokeniser. Known finding D24: pressures attached by position (bodies listed in another order than faces)."),
 "C15": dict(
   category="other",
   text="A proved core around an unverified image kernel. Proved in Lean for all contour lists: the first loop of Skeleton.create_lattice "
        "(one vertex per distinct pixel position in first-occurrence order, no mesh edge twice in either direction, every contour step "
        "incl. the closing one joined by a stored edge, every cell cycle = its contour through the interning, one cell per contour, and "
        "the dictionaries form a consistent mesh, also with mirror_y), structural lemmas of the clean-up (unfolding, cell keys, the CPython "
        "pinned-last-edge behaviour behind finding D16 with a witness), and preservation theorems for the clean-up (Props/C15cleanup.lean): an "
        "invariant (keys, own-edge / own-cell lists, live references, no repeated vertex) holds initially and is preserved by every elementary "
        "and composite clean-up step; through the whole clean-up four of the five consistency clauses hold on the result when finding D16's "
        "condition is absent (cleanup_dicts_partial); the fifth (consecutive cycle vertices joined) is pending. Checked per run, not proved: the executable model of the whole "
        "create_lattice (triangle loop, get_artifacts, grouping, do_t3_transition, isolated cells, with CPython's reference-count and "
        "list-mutation semantics) equals the real code on OpenCV's actual contour lists (all dictionaries, flags, exception kinds, exactly); "
        "the pipeline Skeleton -> create_lattice -> generate_mesh -> Frame gives one cell per enclosed region, border flags, internal "
        "interfaces (against a pixel-level raster oracle, itself modelled twice, and the generating Voronoi topology), consistent meshes at "
        "every stage, and the same answer under the 8 symmetries of the square, padding, frame and mirror_y; shipped skeletons: tests/data/test_nonzero.tif "
        "and examples/data/in_vivo/t_0..t_4.tif (for the latter, region pairs whose common boundary is shorter than four pixels are optional); a second "
        "lattice from the same reader is checked too. That cv2.findContours yields one "
        "hole contour per enclosed region is a digital-topology statement about OpenCV and is not proved: hence 'other', not 'proof'.",
   design_ref="DESIGN.md §7 C15",
   technique="Lean 4 theorems over the contour-list model of Skeleton.create_lattice + exact differential check on OpenCV's contours + raster-oracle/metamorphic check of the pipeline",
   note=BASE_NOTE + " cv2.findContours, PIL and scipy.ndimage are trusted kernels; the model is interpreted, inputs above 3500 contour pixels are not sent to it (counted). Known finding D16: KeyError when the last mesh edge lies inside an artefact group (seen only outside the property's domain)."),
 "C17": dict(
   category="proof",
   text="Model of get_intensities (both branches), window construction, median, band walking (ceil, axis choice, interpolation, truncation to "
        "pixels, set semantics), normalisation, keying and write-back. Theorems: window size/membership, median of odd/even lists, the band "
        "holds each pixel once, intensity scales linearly with the image (c>=0) and is unchanged by scaling under 'average' (c>0), uniform image "
        "=> equal window statistics, 'average' => mean one (mean != 0), keys 0..n-1 in list order, gt written in order also for repeated "
        "interfaces. Per run: random float/8-bit images, tissues placed by rescale/offset, layers 0..3, integrate on/off, repeated and "
        "equal-valued interfaces: every clause on the real code and intensities/keys/gt against the model (1e-9 / exactly).",
   design_ref="DESIGN.md §7 C17",
   technique="Lean 4 theorems over Rat model of the window/band statistic + differential check against forsys.myosin",
   note=BASE_NOTE + " PIL.Image.getpixel is the trusted pixel oracle (truncates toward zero; probed per image mode). The 'uniform image' clause is read for the non-integrated statistic."),
 "C18": dict(
   category="proof",
   text="Model of stress_tensor (bins, radius selection on squared distances, pressure and tension sums, string key, dictionary overwrite) and of "
        "the tensors handed to eig. Theorems: every tensor symmetric; zero outside the radius; jointly linear in (pressures, tensions); -p*I "
        "for pure pressure; bin edges/centres; the key is injective for grid<=11 and collides at grid 12 (witnesses) so that principal_stress "
        "then reports another cell's tensor (known finding KF2). Per run: tensors, keys and principal inputs compared with the model (1e-10 / "
        "exactly) and each clause evaluated on the real code with arbitrary assigned pressures/tensions, grids 1..12, radii 0.5..6; in a quarter "
        "of the cases the radius is re-tuned so that one cell centre lies on the averaging circle exactly in floating point (oracle only: the "
        "boundary belongs to the disc).",
   design_ref="DESIGN.md §7 C18",
   technique="Lean 4 theorems over Rat model of the coarse-grained tensor + differential check against forsys.stress_tensor",
   note=BASE_NOTE + " np.histogram's edges, sqrt/pi in the radius and np.linalg.eig are trusted/external."),
 "C19": dict(
   category="proof",
   text="Model of create_lattice_elements / create_lattice given Qhull's output. Theorems for all inputs: 3-decimal rounding idempotent, "
        "line_eq end-point values incl. the vertical branch, cut-off rule, vertex interning injective on rounded coordinates, a shared ridge "
        "gets the same mesh edge up to sign and no edge joins a vertex to itself, one cell per kept region, every final cycle has area sign -1 "
        "(uniform orientation), the lists handed to the constructors are well-formed and the lattice is consistent (through C09). Per run: "
        "random / jittered / exactly square / exactly hexagonal centre sets (6..300 points, with/without the helper ring, cut-offs from tight "
        "to infinite): the dictionaries compared exactly with the model on Qhull's actual output and each clause against an independent "
        "computation from scipy.spatial.Voronoi.",
   design_ref="DESIGN.md §7 C19",
   technique="Lean 4 theorems over Rat model of lattice construction from Qhull output + exact differential check",
   note=BASE_NOTE + " scipy.spatial.Voronoi (Qhull) is an external kernel whose output is the model's input; inputs within 1e-9 of a rounding tie or of the cut-off are rejected."),
 "C01": dict(
   category="proof",
   text="Assembled from C02 (matrix = true tangents), C11 (resampled points stay on the same circle), C05 (solver output certified optimal) and "
        "the theorems here: a Voronoi ridge is perpendicular to its site difference and the Maxwell pulls at a vertex of any degree sum to zero; "
        "conformal (Moebius) images keep force balance; the normalised true tensions solve the augmented system exactly; with an injective "
        "augmented matrix every minimiser over the non-negative candidates is true tension / mean with zero multiplier. End to end in the model "
        "(Props/C01matrix.lean): the matrix _build_matrix assembles, applied to the true tensions, is zero whenever the stored tangents are the "
        "true ones and the tissue is in balance (assembled_balance), and then any minimiser of the augmented residual is tension/mean "
        "(static_inference_recovers_tensions; hypotheses instantiated on an exact lens tissue). Tissue level (Props/C01tissue.lean): the tangent "
        "hypotheses follow for every tissue of exact arcs / two-point segments on which the code's sign rule agrees with the geometry "
        "(ArcTissue, SignsAgree: decidable; arcTissue_static_inference), and SignsAgree is necessary (the D2 witness). Per run: Maxwell / "
        "Moebius tissues at random poses and samplings, optional generate_mesh(ne=2..12), all back-ends, both fits: reported tensions against "
        "truth within a conditioning-scaled tolerance on well-posed systems; the matrix against the Lean model and the solution's exact "
        "certificate on the very systems solved. Float rounding is outside the theorems (partial in that sense). D2 cases are known findings.",
   design_ref="DESIGN.md §7 C01",
   technique="Lean 4 theorems (ground-truth balance, uniqueness) + certified solve + closed-form ground-truth comparison",
   note=BASE_NOTE + " Systems with more unknowns than equations or sigma_min < 1e-3 sigma_max are counted as not uniquely determined and not asserted."),
 "C03": dict(
   category="proof",
   text="Theorems: with exact resultants b = A tau and sum tau = n the vector (tau, 0) solves the augmented system exactly and, with an injective "
        "augmented matrix, is the only minimiser over non-negative candidates; the non-negative least-squares fit is non-expansive in the right-hand "
        "side (||M z' - M z||^2 <= ||b' - b||^2 for certified solutions) and three-decimal rounding moves b by at most len*(5e-4)^2 — this is the "
        "tolerance implied by the rounding. End to end in the model (Props/C03matrix.lean): with exact stored tangents and every kept junction's "
        "velocity equal to the resultant of the tensions pulling on it, the assembled matrix times the tension vector is exactly the right-hand "
        "side set_velocity_matrix places (assembled_dynamic_balance), any non-negative minimiser of the augmented residual is that tension vector "
        "(dynamic_inference_recovers_tensions), and the right-hand side does not depend on the step length (dynamic_rhs_step_independent). "
        "Independence of numbering: C12 small-motion theorem + C13 finite differences + C07 build_mapV. Per run: "
        "series built around the tested frame (first/middle/last) from closed-form tangents and arbitrary positive tensions, every frame "
        "renumbered, unequal steps, all back-ends: recovered tensions within (rounding + coefficient tolerance)/sigma_min, certificate checked exactly.",
   design_ref="DESIGN.md §7 C03",
   technique="Lean 4 theorems (uniqueness, non-expansiveness of NNLS) + constructed-dynamics ground truth",
   note=BASE_NOTE),
 "C06": dict(
   category="proof",
   text="Theorems for translations, positive scalings, rational rotations and the reflection: the reference tangent is equivariant, the coded "
        "rule is translation/scale invariant and equivariant under quarter turns but not under general rotations (witness; finding D2); "
        "curvature ingredients, areas and area signs transform as they should; rotating every junction's (x,y) residual pair preserves the "
        "squared residual; the adimensional right-hand side is unit free. Per run: original vs transformed pose (translation to 1e4 sizes, any "
        "rotation, reflection, scale 1e-3..1e3): coefficient pairs, tensions per physical interface, pressures per physical cell; dynamic tensions "
        "under length and time-unit factors. Known findings: D2 and KF4 (multiplier column not covariant for tissues out of balance). System level (Props/C06system.lean): under translation and change of length unit the assembled force matrix and the pressure system are identical; under rational rotations / the reflection the row pairs rotate / flip when the sign rule agrees with the geometry in both poses (necessary: witness = finding D2), so ||A x||^2 is invariant for every x, while the augmented residual is invariant only at zero multiplier (witness = finding KF4); the pressure system is identical (negated on both sides under reflection).",
   design_ref="DESIGN.md §7 C06",
   technique="Lean 4 equivariance theorems over Rat models + metamorphic differential check",
   note=BASE_NOTE + " Irrational rotation angles are covered by the metamorphic run only."),
 "C07": dict(
   category="proof",
   text="Theorems (arbitrary id type): the interfaces of a cell do not depend on where its cycle starts (permutation) nor on its sense (each "
        "path reversed), relabelling commutes with the split, the de-duplicated interface set and its size depend only on the candidate paths "
        "up to reversal, least squares does not depend on the order of equations and unknowns; plus C02 vectorFromVertex_reverse and C04 "
        "row_joint_flip/row_swap_cells. Per run: one physical tissue stored in several ways (ids with gaps, cycle shifts, any subset of cells "
        "reversed, construction order shuffled): same interface set, equations, tensions, pressures; each storage's interface list against the model. "
        "End to end for vertex renumbering (Props/C07matrix.lean): for every injective renaming of vertex ids the model's interface list, angle-limited "
        "set, coefficient rows and assembled matrix are the renamed / identical ones (build_mapV, normalisedMatrix_mapV: the solver input is "
        "literally unchanged), and permuting columns and junction rows leaves the augmented residual at the permuted candidate unchanged "
        "(residSq_relabel). Storage order (Props/C07order.lean): rotating or reversing a stored cell cycle or re-ordering the cell dictionary changes the "
        "model's interface list only by a permutation with reversals (bigEdgesList_rotateCell/_reverseCell/_permuteCells), a reversed interface gets the "
        "same coefficient (entryOf_rev), and the augmented residual at corresponding candidates is equal (residSq_storage_variants; no angle limit; centres "
        "re-aligned by position as an explicit hypothesis); vertex / mesh-edge dictionary order does not enter at all. Renumbering of mesh-edge and cell ids "
        "and the angle-limited case are decided by this run, not by a theorem.",
   design_ref="DESIGN.md §7 C07",
   technique="Lean 4 permutation/reversal theorems over the cycle-split model + metamorphic differential check",
   note=BASE_NOTE),
}

EXTRA = {
 "C02": " Added in session 5 (Props/C02more.lean): tangent rule under translation / chord rescaling (sampling density) / magnification, `tangentVec_eq_dot_iff` (coded = true tangent ⇔ sign condition), whole `get_vector_from_vertex` closed forms, one row pair per junction, ignore-four option, each column written in at most two candidate rows; witnesses for the 0 ↦ +1 sign rule.",
 "C04": " Added in session 5 (Props/C04more.lean): curvature ingredients for 2/3-point interfaces, collinear ⇔ zero turning, similarity/rotation/reflection of `curvParts`, rows sum to zero, objective invariant under constant shift and joint row flips, bordered solve linear, `pressureSystem_normal_eq_unique`.",
 "C08": " Added in session 5 (Props/C08tissue.lean): tissue level: what `dedup` keeps (`dedup_mem_iff`), every interface of `bigEdgesList` runs junction-to-junction, no reverse duplicates, every mesh edge of a cell with a junction is covered, and lies in exactly one interface on consistent meshes (`bigEdgesList_unique_per_edge`), `own_big_edges`, `get_big_edge_by_cells` characterised / found / symmetric, two-point witness.",
 "C10": " Added in session 5 (Props/C10hist.lean): histories of any length: `step_commute` (operations touching no common frame commute, whole state), `run_erase_other_frames` (frame t's view after a history = after its sub-history touching t), idempotent re-solves, closed forms of what any history leaves on a frame, `run_report_table` (every clause of the statement about the tension table after any history), `run_report_depends_on_last`; witness that `get_system_velocity_per_frame` touches every frame of its range.",
 "C11": " Added in session 5 (Props/C11more.lean): `pick` characterised (`pick_eq_self_iff`, `pick_length_eq_min`, `pick_mem_iff`, coarser-after-finer law + witnesses for the converse and for orientation dependence), whole-function relations for `generateMesh` (position-wise `Forall₂` with the interfaces, fixed point, exact edge count, surviving cells ⇔ cells with a kept vertex, cells with a junction survive).",
 "C13": " Added in session 5 (Props/C13more.lean): velocities under affine maps of space and of the clock, locality (`calculateVelocity_congr_local`), backward branch with no partner / no map, `keyError` ⇔ the vertex itself is absent, right-hand side independent of junction order.",
 "C14": " Added in session 5 (Props/C14whole.lean): whole parser: `serialise` of an abstract dump and `parse_serialise` (`buildLattice (serialise d) = ok d.parsed` for every wrapping and size), ids preserved, reversed signed loops, pressures by position (+ D24 witness / partial), orphan removal idempotent / clean, `create_serialise_consistent`.",
 "C16": " Added in session 5 (Props/C16more.lean): angle test invariant under independent positive rescaling of the two directions and under rotation/reflection-plus-scaling; limits 0 and > π; monotone in the limit (`exceeds_mono`, `deletes_mono`, `used_antitone`); counting; `realign` is a bijection onto vectors with −1 at excluded positions, independent of storage direction and of order/multiplicity of `deletes`.",
 "C17": " Added in session 5 (Props/C17more.lean): rescale/offset enter only through the placed vertices, layers 0 / one vertex / short and repeated-vertex polylines, order inside an interface irrelevant without integration, one entry per interface, permutation of the interface list, integrated intensity additive, normalised values sum to the count / idempotent / keep ratios, whole write-back = zip; witnesses: band not reversal invariant, median not additive, integrated uniform image not equal.",
 "C18": " Added in session 5 (Props/C18covar.lean): row-order invariance (`sigma_perm`, `sigmas_perm`), translation, exact scaling law, rotation covariance R σ Rᵀ with invariant trace/determinant, reflection, real principal stresses (discriminant ≥ 0), every direction principal under pure pressure, trace formulas.",
 "C19": " Added in session 5 (Props/C19more.lean): `remove_infinite_regions` = filter (idempotent, monotone in the cut-off, translation invariant diameter test), unbounded regions ignored, stored points = rounded corners of kept bounded regions, rounding error ≤ 1/2000, shared ridge ⇒ opposite signed ids, cell cycles cover their corners and share vertices.",
 "C20": " Added in session 5 (Props/C20cycle.lean): navigation iterated (`nextIdx_iterate`, returns after n steps, orbit covers the cycle, reversed storage gives the same geometric successor), sign under shift/translation/scaling/reflection, triangle and fan formulas (CCW ⇒ negative), perimeter terms under translation/scale/shift/reversal, centroid laws, `neighbors_symm` on consistent meshes (+ witness).",
 "C12": " Added in session 5 (Props/C12more.lean): `find_best` / the whole assignment loop / `create_mapping` invariant under similarities and change of unit and origin, idempotent and re-feedable, keys = guess keys ∪ frame-0 ids, loop over `a ++ b` = two loops, round trips on the public function and on the built maps in both directions, small motion over whole series (n-fold successor, and back).",
 "C06": " Added in session 5 (Props/C06more.lean): the position maps compose and have inverses of the same kind (`mapP_comp/_id`, `rotP_comp/_inverse`, `flipP_rotP`, round trips), so every per-generator invariance extends to composites and holds both ways; guards are pose independent; pressure system identical under shift∘scale∘rotation, force matrix under shift∘scale; `tangentVecDot_similarity`; `adimensional_mean_units` (the whole velocity right-hand side is unit independent under any rounding).",
 "C01": " Added in session 5 (Props/C01more.lean): similarity (Möbius-image) maps keep lengths ratios, angles and orientation, compose and invert; balance of the turned pulls ⇔ balance of the originals, tissue-wide with a different factor per junction (`moebius_keeps_balance`, `moebius_static_inference`); the report is invariant under a common scale of the tensions, keeps every ratio, is idempotent and relabels with the interfaces; `augmented_solution_iff`; `balance_unique_up_to_scale`.",
 "C03": " Added in session 5 (Props/C03more.lean): the right-hand side built from a whole renumbered series equals the true velocities (forward and, at the last frame, backward), hence `series_forward/_backward_balance` and `series_recovers_tensions` end to end; right-hand side under translation, affine maps of space and of the clock; `exact_rhs_solves_iff` (mean one is necessary), `backends_agree`, `rhs_round3_bound` / `nnls_round3_fit_bound` with the concrete three-decimal rounding.",
 "C05": " Added in session 5 (Props/C05more.lean): the certificate is exact: `kkt_iff_minimiser` (KKT at slack 0 ⇔ non-negative minimiser; necessity is new), `stationary_iff_minimiser`, fitted values unique even when rank deficient, unique point under coercivity, `kkt_near_minimiser` for inconsistent systems too, certificates survive rescaling and row permutation, the augmented objective written out, `mean_eq_one_of_consistent`.",
 "C07": " Added in session 5 (Props/C07more.lean): `bigEdgesList_restoreAll`: every cell shifted / reversed at once, the dictionary permuted, ids free ⇒ same interfaces up to direction and same tension rows (the full quantifier; earlier theorems changed one cell per step); renumbering of cell ids and of mesh-edge ids leaves interfaces, classification, own cells, pressure rows and the whole pressure system identical; `are_neighbours` independent of cycle start.",
 "C09": " Added in session 5 (Props/C09more.lean): `failing_nil_iff`; adding one fresh vertex / edge / cell keeps consistency (any interleaving of constructor calls), `delCell_consistent` (all six clauses), `delEdge_preserves_five`, deletions idempotent, `surfaceEvolver_consistent`, orphan removal idempotent / identity when covered, consistency depends on topology only (`consistent_mapCoords`), input lists may be permuted and cycles rotated / reversed, own lists are permutations of the incident edges / containing cells, `ownEdges_length_eq_degree`; eight witnesses for each well-formedness clause.",
 "C15": " Added in session 5 (Props/C15more.lean): the symmetry clause for the whole owned function: `createLattice_invariant` — for any injective pixel map (the 8 symmetries of the image, translations) and either `mirror_y` setting, `create_lattice` raises the same exception or returns the same lattice up to coordinates (cells, mesh edges, keys, border / external flags, interfaces, artefact groups, D16 flag), consistent iff the original is; every clean-up stage is coordinate free; `createLattice_mirror`; vertex count depends only on the set of contour pixels."
}

NOT_APPLICABLE = {
}

def main():
    props = [json.loads(l)["id"] for l in open(os.path.join(ROOT, "properties.jsonl"))]
    checks = []
    for pid in props:
        if pid in CHECKS:
            c = CHECKS[pid]
            checks.append({
                "property_id": pid,
                "quick_cmd": f"./check {pid} --tier quick",
                "thorough_cmd": f"./check {pid} --tier thorough",
                "evidence_file": f"evidence/{pid}.json",
                "replay_cmd_template": f"./check {pid} --replay {{path}}",
                "engine": "lean-model+correspondence",
                "level_claimed": {"category": c["category"], "text": c["text"] + EXTRA.get(pid, ""), "design_ref": c["design_ref"]},
                "level_note": c["note"],
                "technique": c["technique"],
            })
    na = [{"property_id": pid, "reason": NOT_APPLICABLE.get(pid, "check not yet built in this revision (work in progress; see DESIGN.md §14)")}
          for pid in props if pid not in CHECKS]
    man = {
        "version": 1,
        "setup_cmd": "cd lean && lake build",
        "hooks": {
            "guard": "FORSYS_VERIF",
            "enable": "./check exports FORSYS_VERIF=1 and imports forsys from PYTHONPATH=/repo (working tree, nothing cached)",
            "baseline_off_cmd": "cd /repo && /venv/bin/python -m pytest -ra -q -p no:cacheprovider --timeout=900 --continue-on-collection-errors",
            "source_commits": HOOK_COMMITS,
            "add_only": True,
        },
        "engines": [{"name": "lean-model+correspondence", "path": "lean/ harness/ check",
                     "serves_properties": [c["property_id"] for c in checks],
                     "kind_free_text": "Lean 4 library (executable Rat model + property theorems, axiom audit) and a Python harness that "
                                       "drives the real forsys code and the Lean driver on the same generated inputs"}],
        "checks": checks,
        "not_applicable": na,
        "notes": "Verdict protocol and trusted base: DESIGN.md §5, §10. Known findings: KNOWN_FINDINGS.txt.",
    }
    with open(os.path.join(ROOT, "MANIFEST.json"), "w") as f:
        json.dump(man, f, indent=1)
    print("checks:", [c["property_id"] for c in checks])

HOOK_COMMITS = ["faa9ac5"]
if __name__ == "__main__":
    main()
