#!/usr/bin/env python3
"""Regenerates MANIFEST.json from the table below (kept here so the manifest stays consistent)."""
import json, os
ROOT = os.path.dirname(os.path.dirname(os.path.abspath(__file__)))

BASE_NOTE = ("Trusted: Lean 4.33 kernel + axioms propext/Classical.choice/Quot.sound (audited per run with #print axioms; "
             "no sorry/native_decide/bv_decide/own axioms); the Lean interpreter running Driver.lean; the hand-written model's "
             "faithfulness to /repo is validated only by this check's correspondence stage on generated inputs (sampled); "
             "float rounding inside forsys and the external kernels (numpy/scipy/lmfit/circle_fit/cv2/Qhull/PIL) are outside the theorems.")

CHECKS = {
 "C20": dict(
   category="proof",
   text="Theorems about the rational model of Cell.get_area/get_area_sign/get_next_vertex/get_previous_vertex/get_perimeter/"
        "calculate_neighbors (shoelace identity and sign convention, reversal, cyclic shift, translation, scaling, navigation, "
        "perimeter terms, area additivity, neighbour characterisation) for all polygons; tied to the code by a per-run "
        "correspondence check (model vs real Cell objects, area/navigation/neighbours) plus a direct oracle of every clause on the real code.",
   design_ref="DESIGN.md §7 C20",
   technique="Lean 4 theorems over an executable Rat model + differential correspondence check against forsys.cell",
   note=BASE_NOTE + " IEEE sqrt in the perimeter is trusted."),
 "C08": dict(
   category="proof",
   text="Theorems, for an arbitrary id type and junction predicate, about the model of create_edges_new (numpy split at junction "
        "flags, rotation, close-up): every interface runs junction-to-junction with no junction inside, the interfaces of a cell "
        "cover its cycle and contain every cyclic consecutive pair exactly once, cells without junction contribute none; the "
        "de-duplication keeps no path twice in either direction and loses none; the three copies of the internal/external predicate "
        "(Frame.external_edges_id+internal_big_edges(_vertices), BigEdge.external, get_tensions rows) define the same set, equal to "
        "'all vertices in >=2 cells and an end in >=3'. Tied to the code by an exact per-run comparison of Frame construction with "
        "the model, plus an independent graph-walk oracle for maximal paths, two-cells-per-internal-interface and lookup-by-cells "
        "(those two clauses are decided by the oracle on generated tissues, not by a theorem: they need planarity).",
   design_ref="DESIGN.md §7 C08",
   technique="Lean 4 theorems over an executable list model + exact differential check against forsys.frames.Frame",
   note=BASE_NOTE + " own_cells-has-two-cells and lookup-by-cells are listed as pending obligations in the evidence."),
}

NOT_APPLICABLE = {
}

def main():
    props = [json.loads(l)["id"] for l in open(os.path.join(ROOT, "properties.jsonl"))]
    checks = []
    for pid in props:
        if pid in CHECKS:
            c = CHECKS[pid]
            checks.append({
                "property_id": pid,
                "quick_cmd": f"./check {pid} --tier quick",
                "thorough_cmd": f"./check {pid} --tier thorough",
                "evidence_file": f"evidence/{pid}.json",
                "replay_cmd_template": f"./check {pid} --replay {{path}}",
                "engine": "lean-model+correspondence",
                "level_claimed": {"category": c["category"], "text": c["text"], "design_ref": c["design_ref"]},
                "level_note": c["note"],
                "technique": c["technique"],
            })
    na = [{"property_id": pid, "reason": NOT_APPLICABLE.get(pid, "check not yet built in this revision (work in progress; see DESIGN.md §14)")}
          for pid in props if pid not in CHECKS]
    man = {
        "version": 1,
        "setup_cmd": "cd lean && lake build",
        "hooks": {
            "guard": "FORSYS_VERIF",
            "enable": "./check exports FORSYS_VERIF=1 and imports forsys from PYTHONPATH=/repo (working tree, nothing cached)",
            "baseline_off_cmd": "cd /repo && /venv/bin/python -m pytest -ra -q -p no:cacheprovider --timeout=900 --continue-on-collection-errors",
            "source_commits": HOOK_COMMITS,
            "add_only": True,
        },
        "engines": [{"name": "lean-model+correspondence", "path": "lean/ harness/ check",
                     "serves_properties": [c["property_id"] for c in checks],
                     "kind_free_text": "Lean 4 library (executable Rat model + property theorems, axiom audit) and a Python harness that "
                                       "drives the real forsys code and the Lean driver on the same generated inputs"}],
        "checks": checks,
        "not_applicable": na,
        "notes": "Verdict protocol and trusted base: DESIGN.md §5, §10. Known findings: KNOWN_FINDINGS.txt.",
    }
    with open(os.path.join(ROOT, "MANIFEST.json"), "w") as f:
        json.dump(man, f, indent=1)
    print("checks:", [c["property_id"] for c in checks])

HOOK_COMMITS = ["faa9ac5"]
if __name__ == "__main__":
    main()
