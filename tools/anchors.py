#!/usr/bin/env python3
"""Fingerprints of the functions of the package under verification (normalised AST, docstrings removed).
`tools/anchors.py write` stores the fingerprints of /repo's current tree in harness/anchors_baseline.json; the checks use
`changed()` to *name* the functions that differ when a correspondence or a proof obligation breaks.  Diagnostic only: it
decides nothing."""
import ast, hashlib, json, os, sys
ROOT = os.path.dirname(os.path.dirname(os.path.abspath(__file__)))
BASE = os.path.join(ROOT, "harness", "anchors_baseline.json")


def fingerprints(repo):
    out = {}
    pkg = os.path.join(repo, "forsys")
    for fn in sorted(os.listdir(pkg)):
        if not fn.endswith(".py") or fn == "plot.py":
            continue
        try:
            tree = ast.parse(open(os.path.join(pkg, fn), encoding="utf-8").read())
        except SyntaxError:
            out[fn + "::<syntax error>"] = "x"
            continue

        def visit(node, prefix):
            for ch in ast.iter_child_nodes(node):
                if isinstance(ch, (ast.FunctionDef, ast.AsyncFunctionDef, ast.ClassDef)):
                    name = prefix + ch.name
                    if isinstance(ch, ast.ClassDef):
                        visit(ch, name + ".")
                    else:
                        body = ch.body
                        if body and isinstance(body[0], ast.Expr) and isinstance(getattr(body[0], "value", None), ast.Constant) and isinstance(body[0].value.value, str):
                            body = body[1:]
                        dump = "".join(ast.dump(b, annotate_fields=False) for b in body) + ast.dump(ch.args)
                        out[f"{fn}::{name}"] = hashlib.sha1(dump.encode()).hexdigest()[:12]
        visit(tree, "")
    return out


def changed(repo):
    if not os.path.exists(BASE):
        return None
    base = json.load(open(BASE))
    cur = fingerprints(repo)
    return sorted(k for k in set(base) | set(cur) if base.get(k) != cur.get(k))


if __name__ == "__main__":
    if len(sys.argv) > 1 and sys.argv[1] == "write":
        json.dump(fingerprints("/repo"), open(BASE, "w"), indent=0, sort_keys=True)
        print("written", BASE)
    else:
        print(changed(sys.argv[1] if len(sys.argv) > 1 else "/repo"))
