#!/usr/bin/env python3
"""Confirm a seeded change and record which checks catch it.

usage: tools/seedcheck.py <patch.diff> <demo.py> <property id> [--all] [--name NAME] [--keep]
 1. makes a scratch git worktree of /repo's HEAD under /tmp, applies the patch there (never touches /repo);
 2. runs the demonstration on the unpatched and on the patched tree (must be 0 / non-zero);
 3. runs the repository's pinned test-suite on the patched tree (must still pass);
 4. runs ./check for the property (and with --all for every registered property) with FORSYS_REPO pointing at the patched tree,
    quick tier, VERIF_SEED 0 and 1, and records exit status and VIOLATION lines;
 5. prints a JSON summary; with --name also writes seeded/<NAME>/{patch.diff, demo.py, meta.json}.
"""
import argparse
import json
import os
import re
import shutil
import subprocess
import sys
import tempfile

ROOT = os.path.dirname(os.path.dirname(os.path.abspath(__file__)))


def sh(cmd, cwd=None, env=None, timeout=3600):
    p = subprocess.run(cmd, cwd=cwd, env=env, capture_output=True, text=True, timeout=timeout)
    return p.returncode, p.stdout + p.stderr


def main():
    ap = argparse.ArgumentParser()
    ap.add_argument("patch"); ap.add_argument("demo"); ap.add_argument("pid")
    ap.add_argument("--all", action="store_true"); ap.add_argument("--name"); ap.add_argument("--keep", action="store_true")
    ap.add_argument("--meta", default=None, help="json file written by the author of the change (copied into meta.json)")
    ap.add_argument("--skip-tests", action="store_true")
    a = ap.parse_args()
    wt = tempfile.mkdtemp(prefix="seedchk_", dir="/tmp")
    os.rmdir(wt)
    out = {"property": a.pid, "patch": os.path.abspath(a.patch)}
    try:
        rc, o = sh(["git", "-C", "/repo", "worktree", "add", "-q", "--detach", wt, "HEAD"])
        if rc:
            raise SystemExit("cannot create worktree: " + o)
        env = dict(os.environ, PYTHONPATH=wt, PYTHONDONTWRITEBYTECODE="1")
        env.pop("FORSYS_VERIF", None)
        rc0, o0 = sh(["/venv/bin/python", os.path.abspath(a.demo)], cwd=wt, env=env, timeout=1200)
        out["demo_unpatched_exit"] = rc0
        rc, o = sh(["git", "-C", wt, "apply", "--whitespace=nowarn", os.path.abspath(a.patch)])
        if rc:
            out["apply_error"] = o[-500:]
            print(json.dumps(out, indent=1)); return 1
        rc1, o1 = sh(["/venv/bin/python", os.path.abspath(a.demo)], cwd=wt, env=env, timeout=1200)
        out["demo_patched_exit"] = rc1
        out["demo_patched_tail"] = o1.strip().splitlines()[-1][:300] if o1.strip() else ""
        if not a.skip_tests:
            rc, o = sh(["/venv/bin/python", "-m", "pytest", "-q", "-p", "no:cacheprovider", "--timeout=900"], cwd=wt, env=env, timeout=3000)
            m = re.findall(r"(\d+ passed[^\n]*)", o)
            out["tests"] = m[-1] if m else o[-300:]
            out["tests_pass"] = rc == 0
        pids = [a.pid]
        if a.all:
            man = json.load(open(os.path.join(ROOT, "MANIFEST.json")))
            pids = [c["property_id"] for c in man["checks"]]
        caught = {}
        for pid in pids:
            res = []
            for seed in (0, 1):
                env2 = dict(os.environ, FORSYS_REPO=wt, VERIF_SEED=str(seed))
                rc, o = sh([os.path.join(ROOT, "check"), pid, "--tier", "quick"], cwd=ROOT, env=env2, timeout=3000)
                viol = [l for l in o.splitlines() if l.startswith("VIOLATION")]
                res.append({"seed": seed, "exit": rc, "violations": len(viol), "no_failing_input": bool(viol) and all("no-failing-input-found" in l for l in viol)})
                if rc == 1 and pid != a.pid:
                    break
            caught[pid] = res
        out["checks"] = caught
        out["caught_by"] = sorted(p for p, r in caught.items() if any(x["exit"] == 1 for x in r))
        out["confirmed"] = (rc0 == 0 and rc1 != 0 and out.get("tests_pass", True))
        if a.name:
            d = os.path.join(ROOT, "seeded", a.name)
            os.makedirs(d, exist_ok=True)
            if os.path.abspath(a.patch) != os.path.join(d, "patch.diff"):
                shutil.copy(a.patch, os.path.join(d, "patch.diff"))
            if os.path.abspath(a.demo) != os.path.join(d, "demo.py"):
                shutil.copy(a.demo, os.path.join(d, "demo.py"))
            meta = {}
            old = os.path.join(d, "meta.json")
            if os.path.exists(old):
                meta = json.load(open(old))            # refresh: keep the author's description and the recorded test-suite result
            if a.meta and os.path.exists(a.meta):
                meta.update(json.load(open(a.meta)))
            if a.skip_tests and meta.get("tests_with_patch"):
                out["tests"] = meta["tests_with_patch"]
            meta.update({"property": a.pid, "confirmed_by": "tools/seedcheck.py: scratch worktree of /repo HEAD, demo unpatched/patched, pinned test-suite on the patched tree, ./check with FORSYS_REPO=<patched tree> (quick, seeds 0 and 1)",
                         "demo_unpatched_exit": rc0, "demo_patched_exit": rc1, "tests_with_patch": out.get("tests"),
                         "caught_by": out["caught_by"], "checks": caught})
            json.dump(meta, open(os.path.join(d, "meta.json"), "w"), indent=1)
        print(json.dumps(out, indent=1))
        return 0
    finally:
        if not a.keep:
            sh(["git", "-C", "/repo", "worktree", "remove", "--force", wt])
            shutil.rmtree(wt, ignore_errors=True)


if __name__ == "__main__":
    sys.exit(main())
