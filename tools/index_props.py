#!/usr/bin/env python3
"""(Re)build lean/props.json entries from the theorem names found in lean/ForsysModel/Props/Cxx.lean.
usage: tools/index_props.py C20 [pending text ...]   — keeps an existing 'pending' list unless new texts are given"""
import json, os, re, sys
ROOT = os.path.dirname(os.path.dirname(os.path.abspath(__file__)))
pid = sys.argv[1]
path = os.path.join(ROOT, "lean", "ForsysModel", "Props", pid + ".lean")
src = open(path).read()
src_nc = re.sub(r"/-.*?-/", "", src, flags=re.S)
names = re.findall(r"^theorem\s+(\S+)", src_nc, flags=re.M)
ns = re.findall(r"^namespace\s+(\S+)", src_nc, flags=re.M)
prefix = (ns[0] + ".") if ns else ""
p = os.path.join(ROOT, "lean", "props.json")
d = json.load(open(p))
old = d.get(pid, {})
pending = sys.argv[2:] if len(sys.argv) > 2 else old.get("pending", [])
d[pid] = {"module": f"ForsysModel.Props.{pid}", "theorems": [{"name": prefix + n} for n in names], "pending": pending}
json.dump(d, open(p, "w"), indent=1)
print(pid, len(names), "theorems;", len(pending), "pending")
