# regenerates the session-5 parts of DESIGN.md (table counts, the S5 block of §7, line counts) and EXTRA in mkmanifest.py from tools/additions.py and lean/props.json
import json,re,os,subprocess,sys
HERE=os.path.dirname(os.path.abspath(__file__))
exec(open(os.path.join(HERE,'additions.py')).read())
d=json.load(open('/verif/lean/props.json'))
cnt={k:len(v['theorems']) for k,v in d.items()}
total=sum(cnt.values()); distinct=len({t['name'] for v in d.values() for t in v['theorems']})
s=open('/verif/DESIGN.md').read()
lines=s.split('\n')
out=[]
for l in lines:
    m=re.match(r'^\| (C\d\d) \|([^|]*)\| (\d+) — ([^|]*)\|(.*)$',l)
    if m and m.group(1) in ADD and 'session 5' not in l:
        pid=m.group(1)
        l=f"| {pid} |{m.group(2)}| {cnt[pid]} — {m.group(4).rstrip()}; **session 5** (`{ADD[pid][0]}`): {ADD[pid][1]} |{m.group(5)}"
    elif m:
        pid=m.group(1); l=re.sub(r'\| (\d+) — ', f'| {cnt[pid]} — ', l, count=1)
    out.append(l)
s='\n'.join(out)
# §7 block
blk=["<!-- S5-BEGIN -->","**Session 5: a second theorem file per property** (written by prover sub-agents against fixed models, each `Props/CxxNAME.lean` + `Proofs/CxxNAME.lean`, imported by the umbrella `Props/Cxxall.lean` that `lean/props.json` names, so `./check Cxx` builds them and audits `#print axioms` for every listed theorem; each non-trivial hypothesis has a satisfiability `example`, each necessary guard a `_witness` proved by `decide +kernel`).  They lift per-element lemmas to whole functions and histories of any length, add the invariances the statements quantify over, and pin corners of the code's behaviour:",""]
for pid in sorted(ADD):
    f,gist,long=ADD[pid]
    blk.append(f"* **{pid}** `Props/{f}.lean` ({cnt[pid]} theorem entries for {pid} now): {long}.")
blk+=["","<!-- S5-END -->",""]
blk="\n".join(blk)
s=re.sub(r'<!-- S5-BEGIN -->.*?<!-- S5-END -->\n', '', s, flags=re.S)
i=s.index('## 8. Defects found')
s=s[:i]+blk+"\n"+s[i:]
def wc(glob):
    return int(subprocess.run(f"cat {glob} | wc -l",shell=True,capture_output=True,text=True).stdout)
ml,pl,hl=wc('/verif/lean/ForsysModel/Model/*.lean'),wc('/verif/lean/ForsysModel/Props/*.lean'),wc('/verif/lean/ForsysModel/Proofs/*.lean')
sp=lambda n: f"{n:,}".replace(","," ")
s=re.sub(r'core Lean only[, ]+[\d  ]+ lines; property files [\d  ]+ lines[, ]+helper proofs [\d  ]+ lines', f'core Lean only, {sp(ml)} lines; property files {sp(pl)} lines, helper proofs {sp(hl)} lines', s)
s=re.sub(r'\d+ theorem entries \(\d+ distinct theorems', f'{total} theorem entries ({distinct} distinct theorems', s)
open('/verif/DESIGN.md','w').write(s)
print(total,distinct,ml,pl,hl)
# mkmanifest: EXTRA dict
p='/verif/tools/mkmanifest.py'
t=open(p).read()
extra={pid:f" Added in session 5 (Props/{f}.lean): {gist}." for pid,(f,gist,long) in ADD.items()}
block="EXTRA = "+json.dumps(extra,indent=1,ensure_ascii=False)+"\n"
if 'EXTRA = {' in t:
    t=re.sub(r'EXTRA = \{.*?\n\}\n', block, t, flags=re.S)
else:
    t=t.replace('NOT_APPLICABLE = {', block+'\nNOT_APPLICABLE = {',1)
    t=t.replace('"text": c["text"],','"text": c["text"] + EXTRA.get(pid, ""),')
open(p,'w').write(t)
