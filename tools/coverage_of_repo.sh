#!/bin/bash
# Line coverage of /repo/forsys under the quick tier of every check (diagnostic only; not part of any verdict).
# usage: tools/coverage_of_repo.sh [outdir]      needs coverage.py in /venv (present in this sandbox)
ROOT="$(cd "$(dirname "$0")/.." && pwd)"
OUT="${1:-/tmp/forsys_cov}"
mkdir -p "$OUT"
cd "$ROOT"
export PYTHONPATH="${FORSYS_REPO:-/repo}:$ROOT/harness" FORSYS_VERIF=1 OMP_NUM_THREADS=1 OPENBLAS_NUM_THREADS=1 MKL_NUM_THREADS=1 VERIF_SEED=${VERIF_SEED:-0}
for p in C01 C02 C03 C04 C05 C06 C07 C08 C09 C10 C11 C12 C13 C14 C15 C16 C17 C18 C19 C20; do echo $p; done | \
  xargs -P 4 -I{} sh -c "/venv/bin/python -W ignore -m coverage run --data-file=$OUT/.cov_{} --include='${FORSYS_REPO:-/repo}/forsys/*' harness/main.py {} > $OUT/out_{}.txt 2>&1; echo {} exit \$?"
/venv/bin/python -m coverage combine --keep --data-file=$OUT/.coverage $OUT/.cov_C* > /dev/null 2>&1
/venv/bin/python -m coverage report -m --data-file=$OUT/.coverage
