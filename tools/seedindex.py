#!/usr/bin/env python3
"""Writes seeded/INDEX.md from seeded/<name>/meta.json (one row per confirmed seeded change)."""
import glob
import json
import os

ROOT = os.path.dirname(os.path.dirname(os.path.abspath(__file__)))


def main():
    rows = []
    for f in sorted(glob.glob(os.path.join(ROOT, "seeded", "*", "meta.json"))):
        name = os.path.basename(os.path.dirname(f))
        d = json.load(open(f))
        pid = d["property"]
        own = d.get("checks", {}).get(pid, [])
        how = []
        for r in own:
            if r["exit"] == 1:
                how.append(f"seed {r['seed']}: VIOLATION" + (" (no-failing-input-found)" if r.get("no_failing_input") else " with failing input"))
            else:
                how.append(f"seed {r['seed']}: exit {r['exit']}")
        rows.append((name, pid, ", ".join(d.get("files", [])), " ".join(str(d.get("what_changed", "")).split())[:300],
                     " ".join(str(d.get("what_it_needs_to_manifest", "")).split())[:300],
                     ", ".join(d.get("caught_by", [])) or "— (missed)", "; ".join(how) + (" — SUPERSEDED: " + d["superseded"] if d.get("superseded") else ""), d.get("strengthened", "")))
    out = ["# Seeded changes", "",
           "Each entry was produced by a fresh sub-agent that saw only the property text and a scratch worktree of /repo, and was confirmed",
           "by `tools/seedcheck.py` (scratch worktree: demonstration exits 0 unpatched / non-zero patched, the pinned 41-test suite passes",
           "with the patch, `./check <property>` run with `FORSYS_REPO=<patched tree>`, quick tier, seeds 0 and 1).  Nothing here was ever",
           "applied to /repo.  `caught by` lists the checks that exit 1 with a VIOLATION line on the patched tree.", "",
           "| entry | property | file(s) | change | needs, to manifest | caught by | how (own check) | check strengthened for it |",
           "|---|---|---|---|---|---|---|---|"]
    for r in rows:
        out.append("| " + " | ".join(x.replace("|", "\\|") for x in r) + " |")
    missed = [r[0] for r in rows if r[5].startswith("—")]
    out += ["", f"{len(rows)} entries, {len(rows) - len(missed)} caught" + (f"; missed: {', '.join(missed)}" if missed else "") + "."]
    open(os.path.join(ROOT, "seeded", "INDEX.md"), "w").write("\n".join(out) + "\n")
    print(out[-1])


if __name__ == "__main__":
    main()
