"""Input generators shared by all property checks (DESIGN.md §6).

Everything is driven by one numpy Generator handed in by the caller, so a run replays from its seed.
The tissues are planar polygonal complexes (`Topo`): junction positions, cells as CCW junction cycles,
the generating sites (for Maxwell-reciprocal ground-truth tensions).  `build_mesh` turns a Topo (or a
sub-tissue of it) into the three forsys dictionaries, sampling every ridge with k interior points,
optionally through a Moebius map (exact circular arcs) and a similarity transform, with arbitrary
id relabelling, cycle shifts and orientations.
"""
import math
import numpy as np
import scipy.spatial as sps

import forsys.vertex as fvertex
import forsys.edge as fedge
import forsys.cell as fcell


class Topo:
    def __init__(self, J, cells, sites):
        self.J = np.asarray(J, dtype=complex)          # junction positions
        self.cells = [list(c) for c in cells]          # CCW cycles of junction indices
        self.sites = np.asarray(sites, dtype=complex)  # one site per cell (may be nan for hand-made)
        self.ridges = {}                                # frozenset({a,b}) -> [cell indices]
        for ci, c in enumerate(self.cells):
            for a, b in zip(c, c[1:] + c[:1]):
                self.ridges.setdefault(frozenset((a, b)), []).append(ci)

    def ncells(self):
        return len(self.cells)

    def adjacency(self):
        adj = {i: set() for i in range(len(self.cells))}
        for cs in self.ridges.values():
            if len(cs) == 2:
                adj[cs[0]].add(cs[1]); adj[cs[1]].add(cs[0])
        return adj

    def tension(self, ridge):
        cs = self.ridges[ridge]
        if len(cs) != 2:
            return None
        return abs(self.sites[cs[0]] - self.sites[cs[1]])


def voronoi_topo(rng, n_sites=30, kind="random", margin=0.12, min_ridge=0.0):
    """Bounded Voronoi cells of a site set inside the unit window."""
    if kind == "random":
        pts = rng.random((n_sites, 2))
    elif kind == "jitter":
        m = max(3, int(round(math.sqrt(n_sites))))
        g = np.array([(i + 0.5, j + 0.5 + 0.5 * (i % 2)) for i in range(m) for j in range(m)]) / m
        pts = g + (rng.random(g.shape) - 0.5) * (0.35 / m)
    elif kind == "hex":
        m = max(3, int(round(math.sqrt(n_sites))))
        g = np.array([(i * math.sqrt(3) / 2, j + 0.5 * (i % 2)) for i in range(m + 1) for j in range(m)]) / m
        pts = g + (rng.random(g.shape) - 0.5) * 1e-3 / m   # tiny jitter keeps Qhull generic
    elif kind == "quad":
        # random sites plus one or two rectangles of four concyclic sites with an empty circumcircle: their common Voronoi
        # vertex is a junction where four cells meet
        pts = rng.random((n_sites, 2))
        for _ in range(int(rng.integers(1, 3))):
            c = rng.uniform(0.3, 0.7, size=2)
            a, b = rng.uniform(0.06, 0.12, size=2)
            th = rng.uniform(0, math.pi)
            rot = np.array([[math.cos(th), -math.sin(th)], [math.sin(th), math.cos(th)]])
            corners = c + np.array([[a, b], [-a, b], [-a, -b], [a, -b]]) @ rot.T
            pts = pts[np.hypot(*(pts - c).T) > 1.15 * math.hypot(a, b)]
            pts = np.vstack([pts, corners])
    elif kind == "penta":
        # random sites plus five or six sites on one circle with an empty disc: their common Voronoi vertex is a junction where five
        # or six cells meet
        pts = rng.random((n_sites, 2))
        c = rng.uniform(0.35, 0.65, size=2)
        rad = float(rng.uniform(0.08, 0.12))
        m_ = int(rng.integers(5, 7))
        ang = np.sort(rng.uniform(0, 2 * math.pi, size=m_))
        ang = np.linspace(0, 2 * math.pi, m_, endpoint=False) + rng.uniform(-0.25, 0.25, size=m_) + float(rng.uniform(0, 6.28))
        pts = pts[np.hypot(*(pts - c).T) > 1.2 * rad]
        pts = np.vstack([pts, c + rad * np.column_stack([np.cos(ang), np.sin(ang)])])
    elif kind == "quad2":
        # random sites plus a 2 x 3 block of sites (two rectangles sharing a side): two four-fold junctions joined by one ridge, with
        # the ridges through each of them in line
        pts = rng.random((n_sites, 2))
        c = rng.uniform(0.35, 0.65, size=2)
        a, b = rng.uniform(0.05, 0.09, size=2)
        th = rng.uniform(0, math.pi) if rng.integers(3) else float(rng.integers(4)) * math.pi / 2
        rot = np.array([[math.cos(th), -math.sin(th)], [math.sin(th), math.cos(th)]])
        block = np.array([[a, b], [-a, b], [-a, -b], [a, -b], [3 * a, b], [3 * a, -b]])
        centres = c + np.array([[0.0, 0.0], [2 * a, 0.0]]) @ rot.T
        for cc in centres:
            pts = pts[np.hypot(*(pts - cc).T) > 1.15 * math.hypot(a, b)]
        pts = np.vstack([pts, c + block @ rot.T])
    else:
        raise ValueError(kind)
    vor = sps.Voronoi(pts)
    lo, hi = pts.min(0) - margin, pts.max(0) + margin
    rep = list(range(len(vor.vertices)))
    if kind in ("quad", "quad2", "penta"):
        for v in range(len(vor.vertices)):
            for u in range(v):
                if abs(vor.vertices[v][0] - vor.vertices[u][0]) < 1e-7 and abs(vor.vertices[v][1] - vor.vertices[u][1]) < 1e-7:
                    rep[v] = rep[u]; break
    used = {}
    J = []
    cells = []
    sites = []
    for pi, ri in enumerate(vor.point_region):
        reg = vor.regions[ri]
        if len(reg) < 3 or -1 in reg:
            continue
        vs = vor.vertices[reg]
        if np.any(vs < lo) or np.any(vs > hi):
            continue
        ang = np.arctan2(vs[:, 1] - pts[pi, 1], vs[:, 0] - pts[pi, 0])
        order = [rep[reg[k]] for k in np.argsort(ang)]
        order = [v for k, v in enumerate(order) if v != order[k - 1]] if len(set(order)) < len(order) else order
        if len(order) < 3:
            continue
        cyc = []
        for v in order:
            if v not in used:
                used[v] = len(J)
                J.append(complex(vor.vertices[v][0], vor.vertices[v][1]))
            cyc.append(used[v])
        cells.append(cyc)
        sites.append(complex(pts[pi][0], pts[pi][1]))
    topo = Topo(J, cells, sites)
    if min_ridge > 0:
        for r in topo.ridges:
            a, b = tuple(r)
            if abs(topo.J[a] - topo.J[b]) < min_ridge:
                return None
    return topo


def lattice_topo(kind="square", nx=4, ny=3):
    """Axis-aligned lattices with exactly representable coordinates (tangents with exactly zero components,
    exactly antiparallel pairs).  square: 4-fold junctions; brick: T-junctions."""
    J = {}
    def jid(x, y):
        return J.setdefault((x, y), len(J))
    cells = []
    sites = []
    if kind == "square":
        for i in range(nx):
            for j in range(ny):
                cells.append([jid(i, j), jid(i + 1, j), jid(i + 1, j + 1), jid(i, j + 1)])
                sites.append(complex(i + 0.5, j + 0.5))
    elif kind == "brick":
        # rows of 2x1 bricks, odd rows shifted by 1: every interior junction is a T
        for j in range(ny):
            off = j % 2
            for i in range(nx):
                x0 = 2 * i + off
                pts = [(x0, j), (x0 + 1, j), (x0 + 2, j), (x0 + 2, j + 1), (x0 + 1, j + 1), (x0, j + 1)]
                cells.append([jid(*p) for p in pts])
                sites.append(complex(x0 + 1, j + 0.5))
    else:
        raise ValueError(kind)
    pos = [None] * len(J)
    for (x, y), k in J.items():
        pos[k] = complex(x, y)
    topo = Topo(pos, cells, sites)
    if kind == "brick":
        # drop junction ids that are geometrically on a straight side but unused by the neighbour:
        # a brick corner/mid point only becomes a vertex of a cell if some cell lists it; cells list
        # all six so that T-junction midpoints are shared.  Remove degree-2 "junctions" of single cells
        # lazily in build_mesh (they simply become interior points of a longer interface).
        pass
    return topo


def connected_subsets(topo, rng, size):
    """random edge-connected subset of cells of the given size"""
    adj = topo.adjacency()
    n = topo.ncells()
    size = min(size, n)
    start = int(rng.integers(n))
    sel = {start}
    frontier = set(adj[start])
    while len(sel) < size and frontier:
        f = sorted(frontier)
        c = f[int(rng.integers(len(f)))]
        sel.add(c)
        frontier |= adj[c]
        frontier -= sel
    return sorted(sel)


def is_edge_connected(topo, subset):
    subset = list(subset)
    if not subset:
        return False
    adj = topo.adjacency()
    s = set(subset)
    seen = {subset[0]}
    stack = [subset[0]]
    while stack:
        c = stack.pop()
        for d in adj[c]:
            if d in s and d not in seen:
                seen.add(d); stack.append(d)
    return len(seen) == len(s)


class Mobius:
    def __init__(self, a, b, c, d):
        self.a, self.b, self.c, self.d = complex(a), complex(b), complex(c), complex(d)

    def __call__(self, z):
        return (self.a * z + self.b) / (self.c * z + self.d)

    def deriv(self, z):
        return (self.a * self.d - self.b * self.c) / (self.c * z + self.d) ** 2

    @staticmethod
    def random(rng, topo, strength=1.0):
        """pole placed 1.2 … 6 tissue diameters away from the tissue centre (strongly … weakly curved)"""
        ctr = topo.J.mean()
        diam = max(np.ptp(topo.J.real), np.ptp(topo.J.imag))
        dist = diam * (1.2 + 4.8 * rng.random() / max(strength, 1e-9))
        pole = ctr + dist * np.exp(2j * math.pi * rng.random())
        # f(z) = 1/(z - pole) scaled/rotated back so that f(ctr) ~ ctr, f'(ctr) ~ 1
        k = -(ctr - pole) ** 2
        # f(z) = k/(z-pole) + const
        const = ctr - k / (ctr - pole)
        # (const*(z-pole) + k) / (z - pole)
        return Mobius(const, k - const * pole, 1.0, -pole)


class Similarity:
    def __init__(self, angle=0.0, scale=1.0, shift=0j, reflect=False, stretch=1.0):
        self.stretch = stretch      # anisotropic factor on y, applied first (only for properties that do not need force balance)
        self.angle, self.scale, self.shift, self.reflect = angle, scale, complex(shift), reflect

    def __call__(self, z):
        if self.stretch != 1.0:
            z = np.real(z) + 1j * self.stretch * np.imag(z)
        if self.reflect:
            z = np.conj(z)
        return z * (self.scale * np.exp(1j * self.angle)) + self.shift

    def lin(self, w):
        """action on direction vectors"""
        if self.reflect:
            w = np.conj(w)
        return w * np.exp(1j * self.angle)


class BuiltMesh:
    """forsys dictionaries plus the physical keys needed to canonicalise results."""
    def __init__(self):
        self.vertices = {}
        self.edges = {}
        self.cells = {}
        self.vid_of_junction = {}     # topo junction index -> vertex id
        self.vid_phys = {}            # vertex id -> physical key ('J', j) or ('I', a, b, k)
        self.cid_of_cell = {}         # topo cell index -> cell id
        self.cell_phys = {}           # cell id -> topo cell index
        self.ridge_points = {}        # frozenset({a,b}) -> [vertex ids from min(a,b) to max(a,b)]
        self.meta = {}


def ridge_params(rng, k, mode="uniform"):
    if k == 0:
        return []
    if mode == "uniform":
        return [(i + 1) / (k + 1) for i in range(k)]
    ts = np.sort(rng.random(k) * 0.9 + 0.05)
    # keep points apart
    for _ in range(20):
        if k < 2 or np.min(np.diff(ts)) > 0.3 / (k + 1):
            break
        ts = np.sort(rng.random(k) * 0.9 + 0.05)
    else:
        ts = np.array([(i + 1) / (k + 1) for i in range(k)])
    return [float(t) for t in ts]


def build_mesh(topo, subset=None, k=3, rng=None, param_mode="uniform", mobius=None, sim=None,
               reverse_cells=(), shifts=None, vmap=None, emap=None, cmap=None, k_of_ridge=None,
               center_method="dlite", cell_order=None, quantize=None):
    """Create the forsys dictionaries.
    k: interior points per ridge (int) or k_of_ridge: callable ridge->int.
    reverse_cells: topo cell indices stored clockwise.  shifts: dict cell->cyclic shift of the cycle.
    vmap/emap/cmap: callables int->int giving the ids (injective).  cell_order: order of insertion.
    quantize: number of decimals to round coordinates to (None = keep floats)."""
    if subset is None:
        subset = list(range(topo.ncells()))
    subset = list(subset)
    bm = BuiltMesh()
    vmap = vmap or (lambda i: i)
    emap = emap or (lambda i: i)
    cmap = cmap or (lambda i: i)
    f = (lambda z: z) if mobius is None else mobius
    g = (lambda z: z) if sim is None else sim

    def place(z):
        w = g(f(z))
        x, y = float(np.real(w)), float(np.imag(w))
        if quantize is not None:
            x, y = round(x, quantize), round(y, quantize)
        return x, y

    counter = [0]

    def new_vertex(z, phys):
        vid = vmap(counter[0]); counter[0] += 1
        x, y = place(z)
        bm.vertices[vid] = fvertex.Vertex(vid, x, y)
        bm.vid_phys[vid] = phys
        return vid

    sub = set(subset)
    used_j = sorted({j for c in subset for j in topo.cells[c]})
    for j in used_j:
        bm.vid_of_junction[j] = new_vertex(topo.J[j], ("J", j))
    ridges = sorted({tuple(sorted(r)) for r, cs in topo.ridges.items() if any(c in sub for c in cs)})
    for (a, b) in ridges:
        r = frozenset((a, b))
        kk = k_of_ridge(r) if k_of_ridge else k
        ts = ridge_params(rng, kk, param_mode) if rng is not None else ridge_params(None, kk, "uniform")
        ids = [bm.vid_of_junction[a]]
        for n, t in enumerate(ts):
            z = (1 - t) * topo.J[a] + t * topo.J[b]
            ids.append(new_vertex(z, ("I", a, b, n)))
        ids.append(bm.vid_of_junction[b])
        bm.ridge_points[r] = ids
    ecount = 0
    for (a, b) in ridges:
        ids = bm.ridge_points[frozenset((a, b))]
        for p, q in zip(ids, ids[1:]):
            eid = emap(ecount); ecount += 1
            bm.edges[eid] = fedge.SmallEdge(eid, bm.vertices[p], bm.vertices[q])
    order = cell_order if cell_order is not None else subset
    for n, c in enumerate(order):
        cyc = []
        js = topo.cells[c]
        for a, b in zip(js, js[1:] + js[:1]):
            ids = bm.ridge_points[frozenset((a, b))]
            seg = ids if a < b else ids[::-1]
            cyc.extend(seg[:-1])
        if c in reverse_cells:
            cyc = cyc[::-1]
        if shifts and c in shifts:
            s = shifts[c] % len(cyc)
            cyc = cyc[s:] + cyc[:s]
        cid = cmap(c)
        bm.cells[cid] = fcell.Cell(cid, [bm.vertices[v] for v in cyc], center_method=center_method)
        bm.cid_of_cell[c] = cid
        bm.cell_phys[cid] = c
    bm.meta = {"cells": len(subset), "ridges": len(ridges), "vertices": len(bm.vertices)}
    return bm


def random_polygon(rng, n, kind="star"):
    """simple polygon with n vertices: star-shaped about the origin with random radii (non-convex)"""
    ang = np.sort(rng.random(n) * 2 * math.pi)
    # enforce angular separation
    ang = np.linspace(0, 2 * math.pi, n, endpoint=False) + (rng.random(n) - 0.5) * (1.2 * math.pi / n)
    if kind == "convex":
        rad = np.ones(n)
    else:
        rad = 0.35 + rng.random(n)
    return [(float(r * math.cos(a)), float(r * math.sin(a))) for r, a in zip(rad, ang)]
