"""Shared machinery of the checks: Lean build + axiom audit, driver invocation, evidence, verdict.

Verdict protocol (DESIGN.md §5):
  * a failure of the property itself on the real code, with the input   -> VIOLATION replay=<file>
    unless its signature is listed in KNOWN_FINDINGS.txt                 -> KNOWN-FINDING line, exit 0
  * a broken proof obligation or a model/implementation disagreement with no failing input found
                                                                         -> VIOLATION ... no-failing-input-found
  * infrastructure trouble (driver crash, timeout)                       -> exit 2, no VIOLATION line
"""
import fcntl
import hashlib
import json
import os
import re
import subprocess
import sys
import time
import traceback

import numpy as np

ROOT = os.path.dirname(os.path.dirname(os.path.abspath(__file__)))
LEAN = os.path.join(ROOT, "lean")
REPO = os.environ.get("FORSYS_REPO", "/repo")
ACCEPTED_AXIOMS = {"propext", "Classical.choice", "Quot.sound"}
FORBIDDEN = re.compile(r"\bsorry\b|\badmit\b|^\s*axiom\s|native_decide|bv_decide|implemented_by|\bunsafe\s|maxHeartbeats\s+0\b", re.M)


class Infra(Exception):
    pass


def _strip_comments(src):
    src = re.sub(r"/-.*?-/", "", src, flags=re.S)
    src = re.sub(r"--.*", "", src)
    return src


def _closure(modules):
    """source files of the model plus everything (inside this library) the given modules import"""
    todo = ["ForsysModel.Model"] + list(modules)
    seen = {}
    while todo:
        mod = todo.pop()
        path = os.path.join(LEAN, *mod.split(".")) + ".lean"
        if mod in seen or not os.path.exists(path):
            continue
        seen[mod] = path
        for m in re.finditer(r"^import\s+(ForsysModel[\w.]*)", open(path).read(), flags=re.M):
            todo.append(m.group(1))
    return set(seen.values())


def _driver_imports():
    src = open(os.path.join(LEAN, "Driver.lean")).read()
    return sorted(set(re.findall(r"^import\s+(ForsysModel[\w.]*)", src, flags=re.M)))


def lake(args, timeout=3000):
    """run lake under an exclusive lock (several checks may run in parallel)"""
    os.makedirs(os.path.join(LEAN, ".lake"), exist_ok=True)
    with open(os.path.join(LEAN, ".lake", "verif.lock"), "w") as lk:
        fcntl.flock(lk, fcntl.LOCK_EX)
        p = subprocess.run(["lake"] + args, cwd=LEAN, capture_output=True, text=True, timeout=timeout)
    return p.returncode, (p.stdout + p.stderr)


def load_index():
    with open(os.path.join(LEAN, "props.json")) as f:
        return json.load(f)


class Check:
    def __init__(self, pid, tier="quick", seed=0, replay=None):
        self.pid = pid
        self.tier = tier
        self.seed = int(seed)
        self.t0 = time.time()
        self.rng = np.random.default_rng([self.seed, int(pid[1:])])
        self.evaluations = 0
        self.nontrivial = set()
        self.samples = []
        self.dist = {}
        self.stages = {}
        self.failures = []          # property failures on the real code (with input)
        self.disagreements = []     # model vs implementation
        self.proof_problems = []    # broken obligations
        self.known_hits = {}
        self.notes = []
        self.rule = ""
        self.assumptions = []
        self.level = "proof"
        self.obligations = 0
        self.discharged = 0
        self.pending = []
        self.axioms = {}
        self.explanation = ""
        self.replaying = replay
        self.known = load_known()

    def corpus_cases(self):
        """minimised past failures / witnesses of this property; they run first"""
        d = os.path.join(ROOT, "corpus", self.pid)
        out = []
        if os.path.isdir(d):
            for fn in sorted(os.listdir(d)):
                if fn.endswith(".json"):
                    with open(os.path.join(d, fn)) as f:
                        c = json.load(f)["case"]
                    c = dict(c)
                    c["corpus"] = fn
                    out.append(c)
        self.dist["corpus_cases"] = len(out)
        return out

    # ------------------------------------------------------------------ counters
    def count(self, key, n=1):
        self.dist[key] = self.dist.get(key, 0) + n

    def case(self, desc, nontrivial=True, sample=None):
        """register one evaluated case; desc must identify the case (used for distinctness)"""
        self.evaluations += 1
        if nontrivial:
            h = hashlib.sha1(json.dumps(desc, sort_keys=True, default=str).encode()).hexdigest()
            self.nontrivial.add(h)
        if sample is not None and len(self.samples) < 4:
            self.samples.append(sample)

    # ------------------------------------------------------------------ lean
    def lean_stage(self):
        """build the model + this property's theorems, audit axioms and forbidden tokens"""
        idx = load_index().get(self.pid, {})
        module = idx.get("module")
        theorems = idx.get("theorems", [])
        self.pending = idx.get("pending", [])
        # obligations = the theorems this run re-checks; clauses without a theorem are listed separately as
        # `pending_obligations` in the evidence (they are decided per run by the oracle, not proved)
        self.obligations = len(theorems)
        t = time.time()
        targets = ["ForsysModel.Model", "ForsysModel.Driver"] + _driver_imports() + ([module] if module else [])
        rc, out = lake(["build"] + targets)
        self.stages["build_s"] = round(time.time() - t, 2)
        if rc != 0:
            # is it only the property's proof module, or the model everything needs?
            rc2, out2 = lake(["build", "ForsysModel.Model", "ForsysModel.Driver"])
            if rc2 != 0:
                raise Infra("Lean model does not build:\n" + out2[-3000:])
            self.proof_problems.append({"what": "build", "module": module, "log": out[-3000:]})
            return
        # forbidden tokens in the sources this property depends on (the whole library is small: scan all)
        bad = []
        for path in sorted(_closure([module] if module else [])):
            src = _strip_comments(open(path).read())
            for m in FORBIDDEN.finditer(src):
                bad.append(f"{os.path.relpath(path, LEAN)}: {m.group(0).strip()}")
        if bad:
            self.proof_problems.append({"what": "forbidden tokens", "hits": bad})
        if not theorems:
            return
        t = time.time()
        audit_dir = os.path.join(LEAN, ".lake", "audit")
        os.makedirs(audit_dir, exist_ok=True)
        path = os.path.join(audit_dir, f"Audit_{self.pid}_{os.getpid()}.lean")
        with open(path, "w") as f:
            f.write(f"import {module}\n")
            for th in theorems:
                f.write(f"#print axioms {th['name']}\n")
        p = subprocess.run(["lake", "env", "lean", path], cwd=LEAN, capture_output=True, text=True, timeout=1800)
        os.unlink(path)
        out = p.stdout + p.stderr
        self.stages["audit_s"] = round(time.time() - t, 2)
        found = {}
        for m in re.finditer(r"'([^']+)' depends on axioms: \[([^\]]*)\]", out, flags=re.S):
            found[m.group(1)] = {a.strip() for a in m.group(2).replace("\n", " ").split(",") if a.strip()}
        for m in re.finditer(r"'([^']+)' does not depend on any axioms", out):
            found[m.group(1)] = set()
        for th in theorems:
            name = th["name"]
            if name not in found:
                self.proof_problems.append({"what": "theorem missing", "theorem": name, "log": out[-1500:]})
                continue
            extra = found[name] - ACCEPTED_AXIOMS
            self.axioms[name] = sorted(found[name])
            if extra:
                self.proof_problems.append({"what": "unaccepted axioms", "theorem": name, "axioms": sorted(extra)})
            else:
                self.discharged += 1
        if self.tier == "thorough" and module and not self.proof_problems:
            t = time.time()
            p = subprocess.run(["lake", "env", "leanchecker", module], cwd=LEAN, capture_output=True, text=True, timeout=3000)
            self.stages["leanchecker_s"] = round(time.time() - t, 2)
            self.stages["leanchecker_rc"] = p.returncode
            if p.returncode != 0:
                self.proof_problems.append({"what": "leanchecker", "log": (p.stdout + p.stderr)[-1500:]})

    def driver(self, requests, timeout=1800):
        """send all requests to the Lean driver, return the list of decoded responses"""
        if not requests:
            return []
        data = "\n".join(json.dumps(r, separators=(",", ":")) for r in requests) + "\n"
        t = time.time()
        p = subprocess.run(["lake", "env", "lean", "--run", "Driver.lean"], cwd=LEAN, input=data,
                           capture_output=True, text=True, timeout=timeout)
        self.stages["driver_s"] = round(self.stages.get("driver_s", 0) + time.time() - t, 2)
        lines = [l for l in p.stdout.splitlines() if l.startswith("{")]
        if p.returncode != 0 or len(lines) != len(requests):
            raise Infra(f"driver rc={p.returncode} got {len(lines)}/{len(requests)} responses\n{p.stderr[-2000:]}")
        res = [json.loads(l) for l in lines]
        for r, q in zip(res, requests):
            if "error" in r and len(r) == 1:
                raise Infra(f"driver error on op {q.get('op')}: {r['error']}")
        return res

    def guard(self, case, fn, *args, **kw):
        """run one case; an exception raised while the implementation under test was executing (some frame of the traceback lies
        in the repo: the exception came out of the package itself or out of a library the package called) is a failure of the
        property on that case; an exception with no repo frame is an infrastructure error of the harness and propagates"""
        try:
            return fn(*args, **kw)
        except Infra:
            raise
        except Exception as ex:
            tb = traceback.extract_tb(ex.__traceback__)
            repo = os.path.realpath(REPO)
            inside = [f for f in tb if os.path.realpath(f.filename).startswith(repo + os.sep)]
            if inside:
                f = inside[-1]
                where = f"{os.path.relpath(f.filename, repo)}:{f.lineno} in {f.name}"
                if f is not tb[-1]:
                    where += f" (raised in {os.path.basename(tb[-1].filename)}:{tb[-1].lineno} {tb[-1].name})"
                self.fail("the implementation completes on an input inside the property's domain",
                          f"unexpected {type(ex).__name__}: {str(ex)[:160]} at {where}", case)
                self.evaluations += 1
                return None
            raise

    # ------------------------------------------------------------------ reporting
    def fail(self, clause, detail, case, signature=None):
        """the property itself fails on the real code for this case"""
        self.failures.append({"clause": clause, "detail": detail, "case": case, "signature": signature})

    def disagree(self, stage, detail, case):
        """model and implementation differ (correspondence broken)"""
        self.disagreements.append({"stage": stage, "detail": detail, "case": case})

    def finish(self):
        os.makedirs(os.path.join(ROOT, "evidence"), exist_ok=True)
        violations = []
        known_lines = []
        rdir = os.path.join(ROOT, "replays", self.pid)
        n = 0
        # replay files of an earlier run with the same tier and seed would be mistaken for findings of this run
        if os.path.isdir(rdir) and not self.replaying:
            for fn in os.listdir(rdir):
                if fn.startswith(f"{self.tier}-{self.seed}-") and fn.endswith(".json"):
                    try:
                        os.remove(os.path.join(rdir, fn))
                    except OSError:
                        pass

        def write_replay(obj):
            nonlocal n
            os.makedirs(rdir, exist_ok=True)
            try:    # diagnostic only: name the functions of the package that differ from the fingerprinted tree
                sys.path.insert(0, os.path.join(ROOT, "tools"))
                import anchors
                obj["functions_changed_since_fingerprint"] = anchors.changed(REPO)
            except Exception:
                pass
            path = os.path.join(rdir, f"{self.tier}-{self.seed}-{n}.json")
            n += 1
            with open(path, "w") as f:
                json.dump(obj, f, indent=1, default=str)
            return os.path.relpath(path, ROOT)

        seen_sig = set()
        for fl in self.failures:
            sig = fl.get("signature")
            if sig and (self.pid, sig) in self.known:
                if sig not in seen_sig:
                    known_lines.append(f"KNOWN-FINDING: property={self.pid} {sig}: {self.known[(self.pid, sig)]}")
                    seen_sig.add(sig)
                self.known_hits[sig] = self.known_hits.get(sig, 0) + 1
                continue
            if len(violations) < 5:
                path = write_replay({"property": self.pid, "kind": "property-fails-on-implementation",
                                     "seed": self.seed, "tier": self.tier, **fl})
                violations.append(f"VIOLATION property={self.pid} replay={path}")
        if not violations:
            # broken obligations / correspondence without a failing input
            if self.proof_problems:
                path = write_replay({"property": self.pid, "kind": "proof-obligation-broken", "seed": self.seed,
                                     "problems": self.proof_problems,
                                     "note": "no input on which the implementation violates the property was found"})
                violations.append(f"VIOLATION property={self.pid} replay={path} no-failing-input-found")
            elif self.disagreements:
                path = write_replay({"property": self.pid, "kind": "correspondence-broken", "seed": self.seed,
                                     "disagreements": self.disagreements[:5],
                                     "count": len(self.disagreements),
                                     "note": "model and implementation differ; no input on which the implementation "
                                             "violates the property itself was found"})
                violations.append(f"VIOLATION property={self.pid} replay={path} no-failing-input-found")
        wall = round(time.time() - self.t0, 2)
        cov = {
            "evaluations": self.evaluations,
            "distinct_nontrivial": len(self.nontrivial),
            "rule": self.rule,
            "samples": self.samples if self.samples else [{"note": "no case generated"}],
            "obligations": self.obligations,
            "discharged": self.discharged,
            "checker_cmd": f"cd lean && lake build ForsysModel.Props.{self.pid} && lake env lean <generated '#print axioms' file>"
                           + (" && lake env leanchecker ForsysModel.Props." + self.pid if self.tier == "thorough" else ""),
            "trusted_base": [
                "Lean 4.33 kernel; axioms used: " + ", ".join(sorted({a for v in self.axioms.values() for a in v}) or ["none"]),
                "Lean interpreter running Driver.lean (model evaluation, certificate checkers) and core Rat arithmetic",
                "hand-written model tied to /repo only by this run's correspondence check (sampled)",
                "float rounding inside the implementation; external kernels (scipy/numpy/lmfit/circle_fit/cv2/Qhull/PIL) taken by contract",
                "the harness (generators, comparison, known-finding matcher)",
            ],
            "theorems": self.axioms,
            "pending_obligations": self.pending,
            "distribution": self.dist,
            "stages": self.stages,
            "correspondence_disagreements": len(self.disagreements),
            "property_failures": len(self.failures),
            "known_finding_hits": self.known_hits,
            "notes": self.notes,
            "explanation": self.explanation,
        }
        ev = {"property_id": self.pid, "tier": self.tier, "seed": self.seed, "level": self.level,
              "coverage": cov, "assumptions": self.assumptions, "wall_s": wall, "violations": len(violations)}
        with open(os.path.join(ROOT, "evidence", f"{self.pid}.json"), "w") as f:
            json.dump(ev, f, indent=1, default=str)
        for l in known_lines:
            print(l)
        for v in violations:
            print(v)
        print(f"[{self.pid}] tier={self.tier} seed={self.seed} evaluations={self.evaluations} "
              f"distinct_nontrivial={len(self.nontrivial)} theorems={self.discharged}/{self.obligations} "
              f"disagreements={len(self.disagreements)} failures={len(self.failures)} wall={wall}s")
        return 1 if violations else 0


def load_known():
    known = {}
    path = os.path.join(ROOT, "KNOWN_FINDINGS.txt")
    if os.path.exists(path):
        for line in open(path):
            line = line.strip()
            m = re.match(r"known:\s+property=(C\d+)\s+signature=(\S+)\s+(.*)", line)
            if m:
                known[(m.group(1), m.group(2))] = m.group(3)
    return known


def run_check(pid, run, tier, seed, replay=None):
    """entry used by harness/main.py"""
    ck = Check(pid, tier, seed, replay)
    # Cell.__del__ / SmallEdge.__del__ unregister themselves from their vertices; when a whole mesh is let go (also at interpreter
    # exit) they may find the back-reference already gone, which CPython reports as "Exception ignored in ..." on stderr.
    # That is not an observable of any property; keep it off the console
    sys.unraisablehook = lambda *_: None
    try:
        ck.lean_stage()
        run(ck)
        return ck.finish()
    except Infra as e:
        print(f"[{pid}] INFRASTRUCTURE ERROR: {e}", file=sys.stderr)
        return 2
    except subprocess.TimeoutExpired as e:
        print(f"[{pid}] TIMEOUT: {e}", file=sys.stderr)
        return 2
    except Exception:
        traceback.print_exc()
        return 2
