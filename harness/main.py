"""./check entry point: dispatch to harness/props/cXX.py"""
import argparse
import importlib
import json
import os
import sys

sys.path.insert(0, os.path.dirname(os.path.abspath(__file__)))
import core  # noqa: E402


def main():
    ap = argparse.ArgumentParser()
    ap.add_argument("pid")
    ap.add_argument("--tier", default=os.environ.get("VERIF_TIER", "quick"))
    ap.add_argument("--replay", default=None)
    args = ap.parse_args()
    pid = args.pid.upper()
    seed = int(os.environ.get("VERIF_SEED", "0"))
    mod = importlib.import_module(f"props.{pid.lower()}")
    replay = None
    if args.replay:
        with open(args.replay) as f:
            replay = json.load(f)
    sys.exit(core.run_check(pid, mod.run, args.tier, seed, replay))


if __name__ == "__main__":
    main()
