"""Time series of one tissue with known vertex correspondence (used by C12, C13, C03, C10)."""
import math
import numpy as np

import gen
import impl
import statics

import forsys as fs


def displacement_field(rng, kind, J, bound):
    """complex displacement per junction with |d| <= bound"""
    n = len(J)
    ctr = J.mean()
    if kind == "random":
        d = (rng.random(n) * bound * 0.95) * np.exp(2j * math.pi * rng.random(n))
    elif kind == "affine":
        ext = max(np.ptp(J.real), np.ptp(J.imag))
        a = (rng.normal() + 1j * rng.normal()) * 0.3 * bound / ext      # small rotation + scaling
        t = (rng.normal() + 1j * rng.normal()) * 0.3 * bound
        d = a * (J - ctr) + t
    elif kind == "drift":
        # the whole tissue drifts by nearly the bound in one direction, plus a small jitter
        th = rng.uniform(0, 2 * math.pi)
        d = 0.9 * bound * np.exp(1j * th) * np.ones(n) + (rng.random(n) * 0.04 * bound) * np.exp(2j * math.pi * rng.random(n))
    else:  # flow
        k = 2 * math.pi / max(np.ptp(J.real), np.ptp(J.imag)) * rng.uniform(0.5, 1.5)
        ph = rng.uniform(0, 6.28)
        d = bound * 0.9 * np.exp(1j * (k * (J.real + 0.7 * J.imag) + ph)) * 0.7
    m = np.max(np.abs(d))
    if m > bound * 0.95:
        d = d * (bound * 0.95 / m)
    return d


def junction_spacing(topo, subset):
    used = sorted({j for c in (subset if subset is not None else range(topo.ncells())) for j in topo.cells[c]})
    P = topo.J[used]
    D = np.abs(P[:, None] - P[None, :])
    D[np.diag_indices(len(P))] = np.inf
    ext = max(np.ptp(P.real), np.ptp(P.imag))
    return float(D.min()), float(ext)


class Series:
    pass


def build_tracking_series(case):
    """frames of one tissue displaced within the tracking bounds (or beyond, factor case['bound_factor'] > 1)"""
    rng = np.random.default_rng(case["seed"] + 99)
    base = statics.build_static(case)
    if base is None:
        return None
    # bounds of the property, measured on the interface end points the code tracks (physical coordinates of frame 0)
    fr0 = impl.make_frame(base.bm)
    P = np.array([[fr0.vertices[k].x, fr0.vertices[k].y] for k in pools(fr0)])
    if len(P) < 2:
        return None
    D = np.hypot(P[:, None, 0] - P[None, :, 0], P[:, None, 1] - P[None, :, 1])
    D[np.diag_indices(len(P))] = np.inf
    spacing = float(D.min()) / case.get("scale", 1.0)
    ext = float(max(np.ptp(P[:, 0]), np.ptp(P[:, 1]))) / case.get("scale", 1.0)
    # cumulative drift shrinks the spacing of later frames: keep a safety factor
    bound = min(0.5 * spacing, 0.08 * ext) * case.get("bound_factor", 0.45)
    n = case["nframes"]
    disp = [np.zeros(len(base.topo.J), dtype=complex)]
    st = case.get("stretch", 1.0)
    for t in range(1, n):
        d = displacement_field(rng, case.get("field", "random"), base.topo.J + disp[-1], bound)
        disp.append(disp[-1] + (d.real + 1j * d.imag / st))      # the bound refers to physical displacements
    frames = statics.build_series(case, n, disp=disp, renumber=case.get("renumber", True))
    if frames is None:
        return None
    s = Series()
    s.case, s.frames_sc, s.bound, s.spacing, s.ext = case, frames, bound, spacing, ext
    # time stamps: arbitrary increasing
    if case.get("times") == "unequal":
        ts = np.cumsum(rng.uniform(0.2, 3.0, size=n))
        s.times = [float(x) for x in ts]
    elif case.get("times") == "from_zero":
        # a genuine time stamp of exactly 0 on the first frame, steps other than 1
        s.times = [0.0] + [float(x) for x in np.cumsum(rng.uniform(0.2, 3.0, size=n - 1))]
    elif case.get("times") == "through_zero":
        # negative stamps, one frame at exactly 0, unequal steps
        ts = np.cumsum(rng.uniform(0.2, 3.0, size=n))
        k = int(rng.integers(n))
        s.times = [float(x - ts[k]) for x in ts]
    else:
        s.times = [float(t) for t in range(n)]
    # drop a cell in later frames if requested (vertices that disappear)
    # physical successor tables: junction j -> vertex id per frame
    s.vid = [dict(sc.bm.vid_of_junction) for sc in frames]
    s.coords0 = [{int(k): (float(v.x), float(v.y)) for k, v in sc.bm.vertices.items()} for sc in frames]
    return s


def simulate_cm(coords, n, cm):
    """replays the in-place centre-of-mass shifts of TimeSeries.create_mapping; returns per pair the coordinates the
    code sees (for frame t and t+1) and the final coordinates"""
    cur = [dict(c) for c in coords]
    seen = []
    for t in range(n - 1):
        if cm:
            for k in (t, t + 1):
                xs = [p[0] for p in cur[k].values()]
                ys = [p[1] for p in cur[k].values()]
                c = np.around([np.mean(xs), np.mean(ys)], 3)
                nxt = {}
                for vid, (x, y) in cur[k].items():
                    x -= c[0]; y -= c[1]
                    nxt[vid] = (float(x), float(y))
                cur[k] = nxt
        seen.append((dict(cur[t]), dict(cur[t + 1])))
    return seen, cur


def pools(frame):
    ends = set()
    for e in frame.big_edges_list:
        ends.add(int(e[0])); ends.add(int(e[-1]))
    return [int(k) for k in frame.vertices.keys() if int(k) in ends]
