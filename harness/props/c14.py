"""C14 — Surface Evolver dumps are parsed faithfully.

S: an independent serialiser writes dumps (laid out like the shipped ones) from generated tissues; the real
   `SurfaceEvolver` parses them; the parsed dictionaries are compared with the generating data clause by clause
   (vertex per record at coordinates rounded to 3 decimals; mesh edge per record with endpoints and density rounded to 4
   decimals, 1 if absent; cell per face whose cycle is the tail vertices of the signed edge loop, over any wrapping; the
   body's Lagrange multiplier rounded to 4 decimals as gt_pressure; vertices/edges of no face dropped;
   `Frame(gt=True).get_gt_tensions(with_border=True)` = mean density of each interface's mesh edges).
K: the same file, tokenised with Python's own `readlines`/`startswith`/`split`/`int`/`Fraction`/`re.search`, goes to the
   Lean model (`se_parse`); vertices, edges, cells, reference values, section indices and raised exception class must agree
   exactly, interface means within 1e-9.  The shipped dumps and a few malformed layouts go through K as well.
"""
import decimal
import math
import os
import re
import shutil
import tempfile
from fractions import Fraction

import numpy as np

import gen
import impl
from core import REPO
from dump import canon_path, rat, unrat, mesh_json

import forsys as fs
from forsys.surface_evolver import SurfaceEvolver

MARKERS = ["vertices  ", "edges  ", "faces  ", "bodies  ", "read"]
MARKER_LINES = {"v": "vertices        /*  coordinates  */    ", "e": "edges  ", "f": "faces    /* edge loop */      ",
                "b": "bodies  /* facets */", "r": "read"}
GT_TOL = 1e-9       # interface means: worst deviation seen on the clean tree 2.2e-16 relative; a density differs by >= 1e-4 / path length


# --------------------------------------------------------------------------- decimals and rounding guards
def tie_distance(q, n):
    """distance of the exact decimal q from the nearest rounding tie at n decimals"""
    s = q * 10 ** n
    return abs((s - math.floor(s)) - Fraction(1, 2)) / 10 ** n


def near_tie(tok, n):
    q = Fraction(tok)
    return tie_distance(q, n) < Fraction(1, 10 ** 9) + abs(q) / 10 ** 15


def round_dec(tok, n):
    """independent decimal rounding (half even) of a literal; returned as the nearest float"""
    with decimal.localcontext() as ctx:
        ctx.prec = 80
        d = decimal.Decimal(tok).quantize(decimal.Decimal(1).scaleb(-n), rounding=decimal.ROUND_HALF_EVEN)
        return float(d)


def fmt(x, digits=15):
    return "%.*g" % (digits, x)


# --------------------------------------------------------------------------- tokeniser for the model (Python's own primitives)
class Unsupported(Exception):
    pass


def enc_token(tok):
    try:
        i = int(tok)
    except ValueError:
        i = None
    try:
        f = float(tok)
        if not math.isfinite(f):
            raise Unsupported(tok)
        try:
            q = Fraction(tok)
        except (ValueError, ZeroDivisionError):
            raise Unsupported(tok)
    except ValueError:
        q = None
    fl = (1 if tok == "density" else 0) | (2 if tok == "\\" else 0) | (4 if "*/" in tok else 0)
    m = re.search(r"\d+", tok)
    d = int(m.group()) if m else None
    if i is not None and q == i and fl == 0 and d == abs(i):
        return i
    if i is None and q is not None and fl == 0:
        return [rat(q), d]
    if i is None and q is None:
        return [fl, d, 0]
    return [i, None if q is None else rat(q), fl, d]


def tokenise(path):
    """lines as Python's text mode delivers them -> [[mark, tok…], …]; also the first digit run of every line (re on the line)"""
    out = []
    with open(path, "r") as f:
        lines = f.readlines()
    for line in lines:
        mark = 0
        for k, m in enumerate(MARKERS):
            if line.startswith(m):
                mark = k + 1
                break
        out.append([mark] + [enc_token(t) for t in line.split()])
    return out, lines


def fixture_near_tie(lines):
    """does any literal that the parser rounds lie on (or within the guard of) a tie?"""
    sec = 0
    for line in lines:
        for k, m in enumerate(MARKERS):
            if line.startswith(m):
                sec = k + 1
        t = line.split()
        try:
            if sec == 1 and len(t) >= 3 and (near_tie(t[1], 3) or near_tie(t[2], 3)):
                return True
            if sec == 2 and len(t) > 4 and t[3] == "density" and near_tie(t[4], 4):
                return True
            if sec == 4 and len(t) > 7 and near_tie(t[7], 4):
                return True
        except ValueError:
            pass
    return False


# --------------------------------------------------------------------------- specs (the generating data) and the serialiser
def serialise(spec, rng):
    """write the dump text; layout as in the shipped files (marker lines verbatim, one blank line before each marker,
    continuation lines end in a backslash, the closing line of a face carries the /*area …*/ comment)"""
    nl = spec.get("nl", "\n")
    pad = lambda: " " * int(rng.integers(1, 7))
    L = list(spec.get("header", ["// generated dump", "", "vertices_predicted      %d" % len(spec["vertices"]),
                                 "edges_predicted         %d" % len(spec["edges"]), "facets_predicted         %d" % len(spec["faces"]),
                                 "bodies_predicted         %d" % len(spec["bodies"]), "SPACE_DIMENSION 2", "STRING", "",
                                 "VIEW_MATRIX ", " 0.007926505441546   0.000000000000000  -1.033560824039506  ", "", ""]))
    mal = spec.get("malform", "")
    L.append(MARKER_LINES["v"])
    for (vid, xs, ys, suffix) in spec["vertices"]:
        L.append(f"{pad()}{vid}{pad()}{xs}{pad()}{ys}{suffix}")
    if mal == "two-blank-before-edges":
        L.append("")
    if mal != "no-blank-before-edges":
        L.append("")
    L.append(MARKER_LINES["e"])
    for (eid, a, b, dens, orig) in spec["edges"]:
        s = f"{pad()}{eid}{pad()}{a}{pad()}{b}"
        if dens is not None:
            s += f"{pad()}density {dens} "
        if orig is not None:
            s += f" original {orig}"
        L.append(s)
    L.append("")
    L.append(MARKER_LINES["f"])
    for (fid, refs, chunks, area) in spec["faces"]:
        rest = list(refs)
        first = True
        for n in chunks:
            part, rest = rest[:n], rest[n:]
            L.append((f"{pad()}{fid}{pad()}" if first else " " * 15) + " ".join(str(r) for r in part) + " \\")
            first = False
        tail = " ".join(str(r) for r in rest)
        closing = "" if mal == "face-not-closed" and fid == spec["faces"][-1][0] else f"/*area {area}*/"
        L.append((f"{pad()}{fid}{pad()}" if first else " " * 15) + tail + (" " if tail else "") + closing)
        if mal == "blank-inside-faces" and fid == spec["faces"][0][0]:
            L.append("")
    if mal != "no-blank-before-bodies":
        L.append("")
    L.append(MARKER_LINES["b"])
    for (bid, fref, lm) in spec["bodies"]:
        L.append(f"{pad()}{bid}{pad()}{fref}  volume 500  /*actual: 500.000000000001*/ lagrange_multiplier {lm}  centerofmass ")
    L.append("")
    if mal != "no-read":
        L.append(MARKER_LINES["r"])
    L += ['ff := "data/steps0.dmp"', "", "show_all_edges off", "gravity off", ""]
    return nl.join(L) + nl


def draw_decimal(rng, value, n, ck, digits=15):
    """format like Surface Evolver (%.15g); literals near a rounding tie are rejected and redrawn slightly moved"""
    tok = fmt(value, digits)
    tries = 0
    while near_tie(tok, n) and tries < 40:
        ck.count("rejected_near_tie")
        value = value + (10.0 ** -n) * (0.137 + 0.01 * tries)
        tok = fmt(value, digits)
        tries += 1
    return tok


def id_maps(rng, mode, cap=6000):
    """three injective id maps (vertices, edges, cells); Surface Evolver ids are positive"""
    def one():
        if mode == 0:
            return lambda i: i + 1
        if mode == 1:                      # increasing with gaps
            inc = np.cumsum(rng.integers(1, 6, size=cap))
            return lambda i: int(inc[i])
        pool = rng.permutation(np.arange(1, 10 * cap))[:cap]   # arbitrary numbering
        return lambda i: int(pool[i])
    return one(), one(), one()


def tissue_spec(ck, case):
    rng = np.random.default_rng(case["seed"])
    if case["shape"] == "polygon":
        pts = gen.random_polygon(rng, case["n"], "star")
        topo = gen.Topo([complex(x, y) for x, y in pts], [list(range(case["n"]))], [0j])
        sub = None
    else:
        topo = gen.voronoi_topo(rng, case["sites"], case["kind"])
        if topo is None or topo.ncells() < 1:
            return None
        sub = None
        if case.get("subset"):
            sub = gen.connected_subsets(topo, rng, max(1, int(round(topo.ncells() * case["subset"]))))
    kmax = case.get("kmax", 3)
    ks = {}
    def k_of(r):
        if r not in ks:
            ks[r] = int(rng.integers(0, kmax + 1))
        return ks[r]
    vm, em, cm = id_maps(rng, case["idmode"])
    rev = [c for c in range(topo.ncells()) if rng.random() < case.get("p_rev", 0.3)]
    shifts = {c: int(rng.integers(0, 50)) for c in range(topo.ncells())}
    bm = gen.build_mesh(topo, sub, rng=rng, param_mode="random", k_of_ridge=k_of, reverse_cells=rev, shifts=shifts,
                        vmap=vm, emap=em, cmap=cm, center_method="mean")
    if max(len(c.vertices) for c in bm.cells.values()) > 60:
        ck.count("rejected_face_longer_than_60")
        return None
    sc = 10.0 ** case["scale"]
    tx, ty = case.get("tx", 0.0), case.get("ty", 0.0)
    spec = {"nl": case["nl"]}
    used_v = set(bm.vertices)
    used_e = set(bm.edges)
    verts = []
    for vid, v in bm.vertices.items():
        suffix = "  fixed " if rng.random() < case.get("p_suffix", 0.0) else ""
        verts.append((vid, draw_decimal(rng, (v.x + tx) * sc, 3, ck), draw_decimal(rng, (v.y + ty) * sc, 3, ck), suffix))
    edges = []
    ends = {}
    for eid, e in bm.edges.items():
        a, b = e.v1.id, e.v2.id
        if rng.random() < case["p_flip"]:
            a, b = b, a
        dens = draw_decimal(rng, float(rng.uniform(0.2, 3.0)), 4, ck, digits=int(rng.integers(1, 16))) if rng.random() < case["p_dens"] else None
        if dens is not None and rng.random() < 0.06:
            dens = ["0", "0.0", "0.00000"][int(rng.integers(3))]        # a recorded density of exactly zero (a tension-less boundary)
            ck.count("edges_with_density_zero")
        orig = int(rng.integers(1, 5000)) if rng.random() < case["p_orig"] else None
        edges.append((eid, a, b, dens, orig))
        ends[eid] = (a, b)
    # extra unattached vertices and the edges hanging on them
    nxv = case.get("extra_v", 0)
    free_v = [i for i in (int(x) for x in rng.permutation(np.arange(1, 20 * (len(used_v) + nxv) + 50))) if i not in used_v][:nxv]
    for vid in free_v:
        mag = 10.0 ** int(rng.integers(-9, 9))
        verts.append((vid, draw_decimal(rng, float(rng.normal()) * mag, 3, ck), draw_decimal(rng, float(rng.normal()) * mag, 3, ck), ""))
    free_e = [i for i in (int(x) for x in rng.permutation(np.arange(1, 20 * (len(used_e) + 2 * nxv) + 50))) if i not in used_e]
    attached = sorted(used_v)
    for j in range(case.get("extra_e", 0)):
        if not free_v:
            break
        a = free_v[int(rng.integers(len(free_v)))]
        if len(free_v) > 1 and rng.random() < 0.5:
            b = a
            while b == a:
                b = free_v[int(rng.integers(len(free_v)))]
        else:
            b = attached[int(rng.integers(len(attached)))]
        if rng.random() < 0.5:
            a, b = b, a
        dens = draw_decimal(rng, float(rng.uniform(0.2, 3.0)), 4, ck, digits=6) if rng.random() < 0.5 else None
        edges.append((free_e[j], a, b, dens, None))
    for j in range(case.get("chords", 0)):          # faceless edges between two vertices of faces
        a, b = (attached[int(i)] for i in rng.choice(len(attached), size=2, replace=False))
        dens = draw_decimal(rng, float(rng.uniform(0.2, 3.0)), 4, ck, digits=6) if rng.random() < 0.5 else None
        edges.append((free_e[-1 - j], a, b, dens, None))
    order = case.get("order", "sorted")
    if order == "sorted":
        verts.sort(key=lambda r: r[0]); edges.sort(key=lambda r: r[0])
    elif order == "shuffled":
        verts = [verts[i] for i in rng.permutation(len(verts))]
        edges = [edges[i] for i in rng.permutation(len(edges))]
    # faces: signed edge loop whose tails are the cell's vertex cycle
    by_pair = {}
    for eid, (a, b) in ends.items():
        by_pair[(a, b)] = eid
        by_pair[(b, a)] = -eid
    faces, bodies = [], []
    for cid, c in bm.cells.items():
        cyc = [v.id for v in c.vertices]
        refs = [by_pair[(a, b)] for a, b in zip(cyc, cyc[1:] + cyc[:1])]
        n = len(refs)
        wrap = case["wrap"]
        chunks = []
        if wrap == "single":
            chunks = []
        elif wrap == "shipped":
            left = n
            while left > 10:
                chunks.append(10); left -= 10
            if rng.random() < 0.5 and left > 0:
                chunks.append(left)               # closing line holds only the comment
        elif wrap == "one":
            chunks = [1] * int(rng.integers(0, n + 1))
        else:
            left = n
            while left > 0 and rng.random() < 0.85:
                k = int(rng.integers(1, min(left, int(wrap)) + 1))
                chunks.append(k); left -= k
        area = fmt(float(rng.normal()) * 500, int(rng.integers(1, 16)))
        faces.append((cid, refs, chunks, area))
        lm = draw_decimal(rng, float(rng.normal()) * 10.0 ** int(rng.integers(-4, 2)), 4, ck)
        bodies.append((cid if case.get("body_ids", "face") == "face" else len(bodies) + 1, (-cid if rng.random() < 0.5 else cid), lm))
    if case.get("bodies_reversed") and len(bodies) > 1:
        bodies = bodies[::-1]
    spec.update(vertices=verts, edges=edges, faces=faces, bodies=bodies)
    if case.get("malform"):
        spec["malform"] = case["malform"]
    return spec


def literal_spec(case):
    spec = {"nl": case.get("nl", "\n"),
            "vertices": [tuple(v) + ("",) for v in case["vertices"]],
            "edges": [tuple(e) for e in case["edges"]],
            "faces": [(f[0], f[1], f[2], "-500") for f in case["faces"]],
            "bodies": [tuple(b) for b in case["bodies"]]}
    return spec


# --------------------------------------------------------------------------- expectation from the generating data
def expectation(spec):
    vrec = {vid: (xs, ys) for vid, xs, ys, _ in spec["vertices"]}
    erec = {eid: (a, b, dens) for eid, a, b, dens, _ in spec["edges"]}
    cells = {}
    face_edges = set()
    body_of = {abs(fref): lm for _, fref, lm in spec["bodies"]}
    for fid, refs, _, _ in spec["faces"]:
        cyc = [erec[abs(r)][0] if r > 0 else erec[abs(r)][1] for r in refs]
        cells[fid] = (cyc, round_dec(body_of[fid], 4))
        face_edges |= {abs(r) for r in refs}
    face_verts = {v for cyc, _ in cells.values() for v in cyc}
    verts = {vid: (round_dec(vrec[vid][0], 3), round_dec(vrec[vid][1], 3)) for vid in face_verts}
    edges = {eid: (erec[eid][0], erec[eid][1], round_dec(erec[eid][2], 4) if erec[eid][2] is not None else 1.0) for eid in face_edges}
    chords = sorted(eid for eid, (a, b, _) in erec.items() if eid not in face_edges and a in face_verts and b in face_verts)
    body_order_ok = [abs(b[1]) for b in spec["bodies"]] == [f[0] for f in spec["faces"]]
    return {"v": verts, "e": edges, "c": cells, "chords": chords, "body_order_ok": body_order_ok}


def observe(path):
    try:
        se = impl.quiet(SurfaceEvolver, path)
    except Exception as ex:               # noqa: BLE001 — the exception class is the observation
        return {"raises": type(ex).__name__, "msg": str(ex)[:200]}, None
    obs = {
        "idx": [list(map(int, p)) for p in (se.index_v, se.index_e, se.index_f, se.index_pressures)],
        "v": [[int(k), float(v.x), float(v.y), [int(e) for e in v.ownEdges], [int(c) for c in v.ownCells]] for k, v in se.vertices.items()],
        "e": [[int(k), int(e.v1.id), int(e.v2.id), float(e.gt)] for k, e in se.edges.items()],
        "c": [[int(k), [int(v.id) for v in c.vertices], float(c.gt_pressure)] for k, c in se.cells.items()],
        "keys_ok": all(int(k) == int(v.id) for k, v in se.vertices.items()) and all(int(k) == int(e.id) for k, e in se.edges.items())
                   and all(int(k) == int(c.id) for k, c in se.cells.items()),
    }
    return obs, se


def observe_frame(se, obs):
    try:
        frame = impl.make_frame((se.vertices, se.edges, se.cells), gt=True)
        df = impl.quiet(frame.get_gt_tensions, with_border=True)
    except Exception as ex:               # noqa: BLE001
        obs["frame_raises"] = type(ex).__name__
        return None
    obs["gt"] = [[[int(x) for x in frame.big_edges_list[int(i)]], float(g)] for i, g in zip(df["id"].tolist(), df["gt"].tolist())]
    obs["gt_ambiguous"] = [any(len(set(frame.vertices[a].ownEdges) & set(frame.vertices[b].ownEdges)) != 1 for a, b in zip(p, p[1:]))
                           for p, _ in obs["gt"]]
    obs["n_interfaces"] = len(frame.big_edges_list)
    # the tissue's interfaces, walked independently on the parsed mesh-edge dictionary (no back-references involved)
    gp, junc = impl.graph_paths(se.vertices, se.edges, se.cells)
    mine = {canon_path([int(x) for x in p]) for p in frame.big_edges_list}
    obs["interfaces_missing"] = sorted(gp - mine)[:3]
    obs["interfaces_cut"] = sorted(p for p in mine if p not in gp and p[0] in junc and p[-1] in junc)[:3]
    return frame


# --------------------------------------------------------------------------- S: the property on the real code
def oracle(ck, spec, exp, obs, case):
    if "raises" in obs:
        ck.fail("a dump laid out like the shipped ones is parsed", f"SurfaceEvolver raises {obs['raises']}: {obs['msg']}", case,
                signature="bare-edge-line" if obs["raises"] == "IndexError" and any(d is None and o is None for *_, d, o in spec["edges"]) else None)
        return False
    gv = {r[0]: (r[1], r[2]) for r in obs["v"]}
    ge = {r[0]: (r[1], r[2], r[3]) for r in obs["e"]}
    gc = {r[0]: (r[1], r[2]) for r in obs["c"]}
    if not obs["keys_ok"]:
        ck.fail("every parsed object is stored under its own id", "key differs from id", case)
    # one vertex per vertex record (of a face) at its coordinates rounded to three decimals; orphans dropped
    if set(gv) != set(exp["v"]):
        ck.fail("one vertex per vertex record; vertices that belong to no face are dropped",
                f"missing {sorted(set(exp['v']) - set(gv))[:5]} surplus {sorted(set(gv) - set(exp['v']))[:5]}", case)
    else:
        bad = [k for k in gv if Fraction(gv[k][0]) != Fraction(exp["v"][k][0]) or Fraction(gv[k][1]) != Fraction(exp["v"][k][1])]
        if bad:
            ck.fail("vertex coordinates are the recorded ones rounded to three decimals",
                    f"vertex {bad[0]}: parsed {gv[bad[0]]} want {exp['v'][bad[0]]}", case)
    # one mesh edge per edge record joining the recorded vertices with the recorded density
    surplus = sorted(set(ge) - set(exp["e"]))
    missing = sorted(set(exp["e"]) - set(ge))
    if missing:
        ck.fail("one mesh edge per edge record of a face", f"missing {missing[:5]}", case)
    if surplus:
        ck.fail("edges that belong to no face are dropped", f"kept faceless edges {surplus[:5]}", case)
    for k in set(ge) & set(exp["e"]):
        a, b, g = ge[k]
        wa, wb, wg = exp["e"][k]
        if (a, b) != (wa, wb):
            ck.fail("a mesh edge joins the recorded vertices", f"edge {k}: parsed {(a, b)} want {(wa, wb)}", case)
            break
        if Fraction(g) != Fraction(wg):
            ck.fail("reference tension = recorded density rounded to four decimals, 1 if absent", f"edge {k}: parsed {g} want {wg}", case)
            break
    # one cell per face, cycle follows the signed loop, body's multiplier as reference pressure
    if set(gc) != set(exp["c"]):
        ck.fail("one cell per face", f"missing {sorted(set(exp['c']) - set(gc))[:5]} surplus {sorted(set(gc) - set(exp['c']))[:5]}", case)
    else:
        for k in gc:
            if gc[k][0] != exp["c"][k][0]:
                ck.fail("the cell's vertex cycle follows the face's signed edge loop (also over several lines)",
                        f"cell {k}: parsed {gc[k][0][:12]} want {exp['c'][k][0][:12]}", case)
                break
        for k in gc:
            if Fraction(gc[k][1]) != Fraction(exp["c"][k][1]):
                ck.fail("reference pressure = the body's Lagrange multiplier rounded to four decimals",
                        f"cell {k}: parsed {gc[k][1]} want {exp['c'][k][1]}", case,
                        signature=None if exp["body_order_ok"] else "body-order-differs-from-face-order")
                break
    return True


def oracle_gt(ck, spec, exp, obs, case):
    """interface reference = mean density of its mesh edges (densities from the generating data)"""
    if obs.get("interfaces_missing") or obs.get("interfaces_cut"):
        ck.fail("a frame built from the parse reports the reference tension of each interface (its interfaces are the maximal "
                "junction-to-junction chains of the parsed mesh)",
                f"missing {obs.get('interfaces_missing')} not maximal {obs.get('interfaces_cut')}", case)
    dens = {}
    multi = set()
    for eid, (a, b, g) in exp["e"].items():
        key = frozenset((a, b))
        if key in dens:
            multi.add(key)
        dens[key] = g
    worst = 0.0
    for (path, got), amb in zip(obs["gt"], obs["gt_ambiguous"]):
        keys = [frozenset(p) for p in zip(path, path[1:])]
        if amb or any(k in multi or k not in dens for k in keys):
            ck.count("interfaces_skipped_ambiguous_or_faceless")
            continue
        want = math.fsum(dens[k] for k in keys) / len(keys)
        dev = abs(got - want) / max(abs(want), 1e-300)
        worst = max(worst, dev)
        if dev > GT_TOL:
            ck.fail("a frame reports as each interface's reference tension the mean density of its mesh edges",
                    f"interface {path[:6]}…: reported {got} want {want}", case)
            break
    ck.dist["gt_worst_rel_dev"] = max(ck.dist.get("gt_worst_rel_dev", 0.0), worst)


# --------------------------------------------------------------------------- K: model vs implementation
def compare(ck, obs, resp, case):
    if "raises" in obs or "raises" in resp:
        if obs.get("raises") != resp.get("raises"):
            ck.disagree("exception", f"model {resp.get('raises', 'ok')} impl {obs.get('raises', 'ok')} {obs.get('msg', '')}", case)
        return
    if resp["idx"] != obs["idx"]:
        ck.disagree("calculate_first_last", f"model {resp['idx']} impl {obs['idx']}", case)
        return
    mv = [[r[0], float(unrat(r[1])), float(unrat(r[2])), r[3], r[4]] for r in resp["v"]]
    if mv != obs["v"]:
        d = next((a, b) for a, b in zip(mv + [None], obs["v"] + [None]) if a != b)
        ck.disagree("vertices", f"model {len(mv)} impl {len(obs['v'])} first difference {d}", case)
        return
    me = [[r[0], r[1], r[2], None if r[3] is None else float(unrat(r[3]))] for r in resp["e"]]
    if me != obs["e"]:
        d = next((a, b) for a, b in zip(me + [None], obs["e"] + [None]) if a != b)
        ck.disagree("edges", f"model {len(me)} impl {len(obs['e'])} first difference {d}", case)
        return
    mc = [[r[0], r[1], None if r[2] is None else float(unrat(r[2]))] for r in resp["c"]]
    if mc != obs["c"]:
        d = next((a, b) for a, b in zip(mc + [None], obs["c"] + [None]) if a != b)
        ck.disagree("cells", f"model {len(mc)} impl {len(obs['c'])} first difference {str(d)[:300]}", case)
        return
    if "gt" in obs:
        if [p for p, _ in obs["gt"]] != [p for p, _ in resp["gt"]]:
            ck.disagree("interfaces", "big_edges_list differs", case)
            return
        for (p, g), (_, m), amb in zip(obs["gt"], resp["gt"], obs["gt_ambiguous"]):
            if amb:
                continue
            if m is None or abs(float(unrat(m)) - g) > GT_TOL * max(abs(g), 1e-300):
                ck.disagree("Frame gt means", f"interface {p[:6]}: model {m} impl {g}", case)
                return


# --------------------------------------------------------------------------- driver of the check
def gen_cases(ck):
    cases = []
    n = 60 if ck.tier == "quick" else 400
    wraps = ["shipped", "single", "one", 1, 2, 3, 5, 7, 12, 25, 60]
    for i in range(n):
        poly = i % 4 == 3
        case = {"type": "tissue", "seed": int(ck.rng.integers(1 << 30)), "shape": "polygon" if poly else "voronoi",
                "idmode": i % 3, "wrap": wraps[int(ck.rng.integers(len(wraps)))],
                "p_flip": [0.5, 0.0, 1.0, 0.3][int(ck.rng.integers(4))], "p_dens": [1.0, 0.5, 0.0, 0.8][int(ck.rng.integers(4))],
                "p_orig": [0.0, 0.3, 1.0][int(ck.rng.integers(3))], "p_rev": [0.0, 0.5, 1.0][i % 3],
                "extra_v": int(ck.rng.integers(0, 6)) if i % 2 else 0, "extra_e": int(ck.rng.integers(0, 8)) if i % 2 else 0,
                "chords": int(ck.rng.integers(1, 5)) if i % 6 == 1 else 0,
                "scale": ([-7, -5, 11, -6, -4, 10][(i // 7) % 6] if i % 7 == 3 else int(ck.rng.integers(0, 9))) if i % 5 else [0, 1][i % 2],
                "tx": float(np.round(ck.rng.normal() * 10.0 ** int(ck.rng.integers(-3, 3)), 6)),
                "ty": float(np.round(ck.rng.normal() * 10.0 ** int(ck.rng.integers(-3, 3)), 6)),
                "nl": ["\n", "\r\n"][i % 2], "order": ["sorted", "sorted", "shuffled", "file"][int(ck.rng.integers(4))],
                "p_suffix": [0.0, 0.2][int(ck.rng.integers(2))], "body_ids": ["face", "own"][int(ck.rng.integers(2))]}
        if poly:
            case["n"] = [3, 4, 60][i // 4 % 3] if i % 8 == 3 else int(ck.rng.integers(3, 61))
            case["kmax"] = 0
        else:
            big = ck.tier == "thorough" and i % 10 == 0
            case["sites"] = int(ck.rng.integers(60, 120)) if big else int(ck.rng.integers(8, 32))
            case["kind"] = ["random", "jitter", "hex"][i % 3]
            case["subset"] = [None, 0.6, 0.3, 0.05][int(ck.rng.integers(4))]
            case["kmax"] = [0, 1, 3, 6][int(ck.rng.integers(4))]
        cases.append(case)
    # layouts that are *not* like the shipped ones: correspondence only
    for j, mal in enumerate(["no-blank-before-edges", "two-blank-before-edges", "no-blank-before-bodies", "no-read",
                             "face-not-closed", "blank-inside-faces"]):
        cases.append({"type": "tissue", "seed": int(ck.rng.integers(1 << 30)), "shape": "voronoi", "sites": 12, "kind": "random",
                      "subset": 0.4, "kmax": 1, "idmode": j % 3, "wrap": 4, "p_flip": 0.5, "p_dens": 0.7, "p_orig": 0.3,
                      "extra_v": 0, "extra_e": 0, "scale": 2, "nl": "\n", "malform": mal})
    # the big dumps cost ~8 s each in the interpreted model: one big and one small in the quick tier, all ten in the thorough tier
    if ck.tier == "quick":
        fixtures = [["tests/data/initial_furrow.dmp", "tests/data/last_furrow.dmp"][ck.seed % 2],
                    f"tests/data/furrow_gauss_velocity/stage{ck.seed % 8}.dmp"]
    else:
        fixtures = ["tests/data/initial_furrow.dmp", "tests/data/last_furrow.dmp"] + \
                   [f"tests/data/furrow_gauss_velocity/stage{k}.dmp" for k in range(8)]
    for f in fixtures:
        cases.append({"type": "fixture", "seed": 0, "path": f})
    return cases


def run(ck):
    ck.rule = ("dumps written by an independent serialiser from Voronoi tissues / sub-tissues (1..~60 cells, 0..6 interior points per "
               "ridge) and single star polygons of 3..60 edges: ids 1..n, increasing with gaps, or arbitrary; every mesh edge "
               "stored in either direction so that faces carry positive and negative references; faces wrapped as shipped (10 per "
               "line), on one line, one reference per line or at random chunk lengths up to 1,2,3,5,7,12,25,60, the closing line "
               "with or without references; edges with/without density and `original N`; vertex `fixed` suffixes; extra "
               "unattached vertices (|coordinate| 1e-9..1e9) and edges hanging on them; faceless edges between two vertices of faces; tissue scaled by 1..1e8 and shifted; LF "
               "and CRLF (the shipped files are CRLF); records sorted by id, in generation order or shuffled; body ids equal to "
               "or different from face ids, bodies in face order. Plus the shipped dumps and six malformed layouts "
               "(correspondence only). Non-trivial = at least one face spans several lines or some reference is negative; distinct "
               "= distinct generator parameters")
    ck.assumptions = ["Python's str.split/startswith/int/float/re.search and text-mode newline translation are the trusted tokeniser; "
                      "float(token) is taken as the exact decimal (tokens within 1e-9 + 1e-15|x| of a rounding tie are rejected)",
                      "ids are unique within a section and below 2**53 (pandas iterrows converts the id column to float64)",
                      "Cell.__post_init__'s circle fit (scipy leastsq) is an external kernel and not part of the comparison",
                      "interface means are compared at 1e-9 relative (np.mean of floats)",
                      "`list(set(a) & set(b))[0]` is compared only where the common mesh edge is unique"]
    if ck.replaying:
        cases = [ck.replaying["case"]]
    else:
        cases = ck.corpus_cases() + gen_cases(ck)
    tmp = tempfile.mkdtemp(prefix="verif_c14_")
    keep = []
    reqs, pending = [], []
    try:
        for n, case in enumerate(cases):
            path = os.path.join(tmp, f"case{n}.dmp")
            spec = exp = None
            if case["type"] == "fixture":
                shutil.copyfile(os.path.join(REPO, case["path"]), path)
            else:
                spec = literal_spec(case) if case["type"] == "literal" else tissue_spec(ck, case)
                if spec is None:
                    ck.count("rejected_no_tissue")
                    continue
                if case["seed"] % 3 == 0 and case["type"] != "literal":
                    # the path held another dump before (a shipped one, already parsed in this process): rewriting a file and parsing
                    # it again must give the new file's tissue
                    shutil.copyfile(os.path.join(REPO, "tests/data/initial_furrow.dmp"), path)
                    observe(path)
                    ck.count("path_rewritten_after_an_earlier_parse")
                with open(path, "w", newline="") as f:
                    f.write(serialise(spec, np.random.default_rng(case["seed"] + 1)))
            try:
                lines_json, raw = tokenise(path)
            except Unsupported:
                ck.count("rejected_unsupported_token")
                continue
            if case["type"] == "fixture" and fixture_near_tie(raw):
                ck.count("rejected_fixture_near_tie")
                continue
            obs, se = observe(path)
            keep.append(se)
            malformed = bool(case.get("malform"))
            if spec is not None and not malformed:
                exp = expectation(spec)
                ok = oracle(ck, spec, exp, obs, case)
            if se is not None:
                frame = observe_frame(se, obs)
                keep.append(frame)
                if "frame_raises" in obs:
                    ck.count("frame_raised_" + obs["frame_raises"])
                elif exp is not None:
                    oracle_gt(ck, spec, exp, obs, case)
                if spec is not None:
                    reqs.append({"op": "consistent", "mesh": mesh_json(se.vertices, se.edges, se.cells)})
                    pending.append(("consistent", case, None))
            reqs.append({"op": "se_parse", "lines": lines_json})
            pending.append(("parse", case, obs))
            # bookkeeping
            if spec is not None:
                multi = sum(1 for f in spec["faces"] if f[2])
                neg = sum(1 for f in spec["faces"] for r in f[1] if r < 0)
                ck.case(case, nontrivial=(multi > 0 or neg > 0) and not malformed,
                        sample={"case": case, "vertices": len(spec["vertices"]), "edges": len(spec["edges"]), "faces": len(spec["faces"]),
                                "first_face": [spec["faces"][0][0], spec["faces"][0][1][:8], spec["faces"][0][2]]} if len(ck.samples) < 3 else None)
                ck.count("dumps_generated"); ck.count("faces", len(spec["faces"])); ck.count("faces_multiline", multi)
                ck.count("negative_refs", neg); ck.count("positive_refs", sum(1 for f in spec["faces"] for r in f[1] if r > 0))
                ck.count("edges_with_density", sum(1 for e in spec["edges"] if e[3] is not None))
                ck.count("edges_bare", sum(1 for e in spec["edges"] if e[3] is None and e[4] is None))
                ck.count("edges_original_only", sum(1 for e in spec["edges"] if e[3] is None and e[4] is not None))
                ck.count("max_face_len", 0); ck.dist["max_face_len"] = max(ck.dist["max_face_len"], max(len(f[1]) for f in spec["faces"]))
                ck.dist["min_face_len"] = min(ck.dist.get("min_face_len", 10 ** 9), min(len(f[1]) for f in spec["faces"]))
                ck.count("nl_crlf" if spec["nl"] == "\r\n" else "nl_lf")
                ck.count("faceless_chords", case.get("chords", 0) if isinstance(case.get("chords", 0), int) else 0)
                if malformed:
                    ck.count("malformed_K_only")
                if exp is not None:
                    ck.count("orphan_vertices", len(spec["vertices"]) - len(exp["v"])); ck.count("faceless_edges", len(spec["edges"]) - len(exp["e"]))
            else:
                ck.case(case, nontrivial=True)
                ck.count("shipped_dumps")
        resps = ck.driver(reqs)
        for (kind, case, obs), resp in zip(pending, resps):
            if kind == "consistent":
                ck.count("parsed_mesh_consistent" if resp["ok"] else "parsed_mesh_inconsistent")
                if not resp["ok"]:
                    ck.notes.append(f"parsed mesh violates Mesh.Consistent clauses {resp['failing']} for {str(case)[:200]}")
                continue
            compare(ck, obs, resp, case)
            if "raises" in resp:
                ck.count("model_raises_" + resp["raises"])
            else:
                ck.count("model_orphans_removed", resp["pre"][0] - len(resp["v"]))
                if not resp["consistent"]:
                    ck.count("model_mesh_inconsistent")
        # rounding alone, on many literals (model vs Python's round on the float)
        xs = []
        for _ in range(300 if ck.tier == "quick" else 3000):
            n = [3, 4][int(ck.rng.integers(2))]
            tok = fmt(float(ck.rng.normal()) * 10.0 ** int(ck.rng.integers(-6, 9)), int(ck.rng.integers(1, 17)))
            if near_tie(tok, n):
                ck.count("rejected_near_tie")
                continue
            xs.append((tok, n))
        r = ck.driver([{"op": "se_round", "xs": [[rat(Fraction(t)), n] for t, n in xs]}])[0]["res"]
        for (tok, n), m in zip(xs, r):
            if Fraction(round(float(tok), n)) != Fraction(float(unrat(m))) or round(float(tok), n) != round_dec(tok, n):
                ck.disagree("round", f"round(float({tok!r}), {n}) = {round(float(tok), n)!r}, model {m}, decimal {round_dec(tok, n)!r}", {"tok": tok, "n": n})
        ck.count("round_literals", len(xs))
    finally:
        shutil.rmtree(tmp, ignore_errors=True)
