"""C12 — vertex tracking between frames is injective and follows small motions.

K: ForSys.mesh.mapping (every step) and get_point_id_by_map of the real code vs. the Lean model (`createMapping`,
   `getPointIdByMap`) on the coordinates the code sees (centre-of-mass shifts replayed), exactly.
S: range, injectivity, guesses honoured; when the premises of the property hold for a step (measured on that step) every
   junction is mapped to its true successor; forward-then-backward returns the starting vertex.
"""
import math
import numpy as np

import impl
import series as ser
import statics
from dump import rat

import forsys as fs

S0, CUTOFF, MAXDIFF = 0.005, 0.1, 0.10


def gen_cases(ck):
    cases = ck.corpus_cases()
    n = 60 if ck.tier == "quick" else 400
    for i in range(n):
        cases.append({"type": "series", "seed": int(ck.rng.integers(1 << 30)), "tissue": ["random", "jitter", "hex"][int(ck.rng.integers(3))],
                      "sites": int(ck.rng.integers(12, 30)), "subset": [None, 0.7][int(ck.rng.integers(2))], "min_ridge": 0.01,
                      "mobius": False, "kmin": 0, "kmax": 4, "angle": float(ck.rng.uniform(0, 6.28)),
                      "scale": float(10.0 ** ck.rng.uniform(-1, 2)), "shift": [float(ck.rng.normal() * 5), float(ck.rng.normal() * 5)],
                      "nframes": int(ck.rng.integers(2, 7)), "field": ["random", "affine", "flow"][int(ck.rng.integers(3))],
                      "bound_factor": float(ck.rng.choice([0.2, 0.45, 0.45, 1.6])), "renumber": True,
                      "cm": bool(ck.rng.integers(2)), "guess_frac": float(ck.rng.choice([0.0, 0.0, 0.3])),
                      "times": "equal"})
    for i in range(6 if ck.tier == "quick" else 40):
        # a user-supplied pairing whose target is the vertex with id 0 (and only that one, or together with others)
        cases.append({"type": "series", "seed": int(ck.rng.integers(1 << 30)), "tissue": ["random", "jitter", "hex"][i % 3],
                      "sites": int(ck.rng.integers(12, 26)), "subset": None, "min_ridge": 0.01, "mobius": False, "kmin": 0, "kmax": 3,
                      "angle": float(ck.rng.uniform(0, 6.28)), "scale": float(10.0 ** ck.rng.uniform(-1, 2)), "shift": [0.0, 0.0],
                      "nframes": int(ck.rng.integers(2, 5)), "field": "random", "bound_factor": 0.45, "renumber": "zero", "cm": bool(i % 2),
                      "guess_frac": [0.0, 0.3][(i // 2) % 2], "guess_zero": True, "times": "equal"})
    for i in range(6 if ck.tier == "quick" else 40):
        # large tissues (the junction spacing is a small fraction of the extent, so several search shells matter) moved by nearly
        # half the spacing: the successor and another free end point enter the search disc in the same shell
        cases.append({"type": "series", "seed": int(ck.rng.integers(1 << 30)), "tissue": ["hex", "jitter", "random"][i % 3],
                      "sites": int(ck.rng.integers(70, 120)), "subset": None, "min_ridge": 0.01, "mobius": False, "kmin": 0, "kmax": 2,
                      "angle": float(ck.rng.uniform(0, 6.28)), "scale": float(10.0 ** ck.rng.uniform(-1, 2)), "shift": [0.0, 0.0],
                      "nframes": int(ck.rng.integers(2, 5)), "field": ["drift", "random", "flow"][(i // 3) % 3], "bound_factor": 0.92,
                      "renumber": True, "cm": False, "guess_frac": 0.0, "times": "equal"})
    for i in range(8 if ck.tier == "quick" else 50):
        # a junction jumps next to a neighbour between two frames and the user pairs it by hand
        cases.append({"type": "series", "seed": int(ck.rng.integers(1 << 30)), "tissue": ["random", "jitter", "hex"][i % 3],
                      "sites": int(ck.rng.integers(12, 30)), "subset": [None, 0.7][i % 2], "min_ridge": 0.01, "mobius": False, "kmin": 0, "kmax": 3,
                      "angle": float(ck.rng.uniform(0, 6.28)), "scale": float(10.0 ** ck.rng.uniform(-1, 2)), "shift": [float(ck.rng.normal() * 5), float(ck.rng.normal() * 5)],
                      "nframes": int(ck.rng.integers(2, 5)), "field": ["random", "affine", "flow"][i % 3], "bound_factor": 0.45, "renumber": True,
                      "cm": bool((i // 2) % 2), "guess_frac": [0.0, 0.3][(i // 4) % 2], "guess_jump": True, "times": "equal"})
    for i in range(8 if ck.tier == "quick" else 50):
        # tall tissues with few, widely spaced junctions lying right of the diagonal (min x > max y), moved by more than 8 % of their
        # width but less than 8 % of their height: the property's bound refers to the larger of the two extents
        cases.append({"type": "series", "seed": int(ck.rng.integers(1 << 30)), "tissue": ["hex", "jitter"][i % 2], "sites": int(ck.rng.choice([16, 20])), "subset": None,
                      "min_ridge": 0.01, "mobius": False, "kmin": 0, "kmax": 2, "angle": 0.0, "stretch": float(ck.rng.uniform(2.5, 5.0)),
                      "scale": float(10.0 ** ck.rng.uniform(-1, 2)), "shift_in_extents": [float(ck.rng.uniform(6, 12)), 0.0],
                      "nframes": int(ck.rng.integers(2, 5)), "field": "random", "bound_factor": 0.95, "renumber": True, "cm": False,
                      "guess_frac": 0.0, "times": "equal"})
    for i in range(6 if ck.tier == "quick" else 40):
        # one interface far shorter than the first search shell (0.2 % of the extent against 0.5 %), all frames numbered alike except
        # that the two ends of that interface exchange their ids from frame to frame: proximity decides, never the id
        cases.append({"type": "series", "seed": int(ck.rng.integers(1 << 30)), "tissue": ["random", "jitter", "hex"][i % 3],
                      "sites": int(ck.rng.integers(12, 26)), "subset": None, "min_ridge": 0.01, "short_ridge": 0.002, "mobius": False,
                      "kmin": 0, "kmax": 3, "angle": float(ck.rng.uniform(0, 6.28)), "scale": float(10.0 ** ck.rng.uniform(-1, 2)),
                      "shift": [0.0, 0.0], "nframes": int(ck.rng.integers(2, 5)), "field": ["random", "drift"][i % 2], "bound_factor": 0.45,
                      "renumber": "swap_short", "cm": bool(i % 2), "guess_frac": 0.0, "times": "equal"})
    return cases


def near_threshold(pool0, pool1, found_free=True):
    """is some squared distance within 1e-9 (relative) of a search radius, or the box test within 1e-9 of its threshold?"""
    P0 = np.array([p[1:] for p in pool0]); P1 = np.array([p[1:] for p in pool1])
    if len(P0) == 0 or len(P1) == 0:
        return False
    allp = np.vstack([P0, P1])
    maxcoord = max(np.ptp(allp[:, 0]), np.ptp(allp[:, 1]))
    d2 = (P0[:, None, 0] - P1[None, :, 0]) ** 2 + (P0[:, None, 1] - P1[None, :, 1]) ** 2
    s = S0
    while s < CUTOFF:
        r2 = (s * maxcoord) ** 2
        if np.any(np.abs(d2 - r2) <= 1e-9 * r2):
            return True
        s += s
    # ties between candidates
    srt = np.sort(d2, axis=1)
    if srt.shape[1] > 1 and np.any(np.abs(srt[:, 1] - srt[:, 0]) <= 1e-9 * (srt[:, 1] + 1e-300)):
        return True
    sh0 = (np.ptp(P0[:, 0]), np.ptp(P0[:, 1])); sh1 = (np.ptp(P1[:, 0]), np.ptp(P1[:, 1]))
    disp = math.hypot(sh1[0] - sh0[0], sh1[1] - sh0[1])
    return abs(disp - MAXDIFF * maxcoord) <= 1e-9 * maxcoord


def run_case(ck, case, reqs, pending):
    np.seterr(all="raise")
    if "shift_in_extents" in case:
        case = dict(case, shift=[case["shift_in_extents"][0] * case["scale"], case["shift_in_extents"][1] * case["scale"]])
    s = ser.build_tracking_series(case)
    if s is None:
        ck.count("rejected_tissue"); return
    n = case["nframes"]
    rng = np.random.default_rng(case["seed"] + 3)
    jump = None
    if case.get("guess_jump"):
        # between two frames one junction jumps next to another one: its successor lies half way between that junction and the
        # junction's own successor (nearer to it than its own successor is); the user supplies the pairing of the jumped junction
        t_ = int(rng.integers(0, n - 1))
        both = sorted(j for j in s.vid[t_] if j in s.vid[t_ + 1])
        c0_, c1_ = s.coords0[t_], s.coords0[t_ + 1]
        mv = {j: math.hypot(c1_[s.vid[t_ + 1][j]][0] - c0_[s.vid[t_][j]][0], c1_[s.vid[t_ + 1][j]][1] - c0_[s.vid[t_][j]][1]) for j in both}
        if len(both) >= 3 and max(mv.values()) > 0:
            w = max(both, key=lambda j: (mv[j], j))
            wo, wn = c0_[s.vid[t_][w]], c1_[s.vid[t_ + 1][w]]
            v = min((j for j in both if j != w), key=lambda j: (math.hypot(c0_[s.vid[t_][j]][0] - wo[0], c0_[s.vid[t_][j]][1] - wo[1]), j))
            dx, dy = wn[0] - wo[0], wn[1] - wo[1]
            newp = (wo[0] + 0.5 * dx - 0.05 * dy, wo[1] + 0.5 * dy + 0.05 * dx)
            vt = s.frames_sc[t_ + 1].bm.vertices[s.vid[t_ + 1][v]]
            vt.x, vt.y = float(newp[0]), float(newp[1])
            s.coords0[t_ + 1][int(s.vid[t_ + 1][v])] = (float(newp[0]), float(newp[1]))
            jump = (t_, int(s.vid[t_][v]), int(s.vid[t_ + 1][v]))
            ck.count("a_junction_jumps_next_to_another_and_is_paired_by_the_user")
    # frames and pools are known before ForSys is built
    frames = {}
    for t, sc in enumerate(s.frames_sc):
        sc.frame = impl.make_frame(sc.bm, frame_id=t, time=s.times[t])
        frames[t] = sc.frame
    pool_ids = [ser.pools(frames[t]) for t in range(n)]
    # true successor tables on interface end points
    jun_of = [{vid: j for j, vid in s.vid[t].items()} for t in range(n)]
    succ = []
    for t in range(n - 1):
        succ.append({v: s.vid[t + 1].get(jun_of[t].get(v)) for v in pool_ids[t]})
    guess = {}
    for t in range(n):
        guess[t] = {}
        if t < n - 1 and case.get("guess_frac", 0) > 0:
            for v in pool_ids[t]:
                if rng.random() < case["guess_frac"] and succ[t][v] is not None:
                    guess[t][v] = succ[t][v]
        if t < n - 1 and case.get("guess_zero"):
            for v in pool_ids[t]:
                if succ[t][v] == 0:
                    guess[t][v] = 0
                    ck.count("guesses_with_target_id_0")
    if jump is not None and jump[1] in pool_ids[jump[0]] and jump[2] in pool_ids[jump[0] + 1]:
        guess[jump[0]][jump[1]] = jump[2]
    seen, final = ser.simulate_cm(s.coords0, n, case["cm"])
    use_guess = any(guess[t] for t in guess)
    f = impl.quiet(fs.ForSys, frames, cm=case["cm"], **({"initial_guess": {t_: dict(g_) for t_, g_ in guess.items()}} if use_guess else {}))     # a copy: the caller's pairings stay the reference
    mapping = f.mesh.mapping
    # sanity of the replayed centre-of-mass shifts
    for t in range(n):
        got = {int(k): (float(v.x), float(v.y)) for k, v in frames[t].vertices.items()}
        if got != final[t]:
            ck.disagree("centre-of-mass replay", f"frame {t}: coordinates after ForSys differ from the replayed shifts", case)
            return
    ck.count("cm_on" if case["cm"] else "cm_off"); ck.count("frames", n)
    rejected = False
    good_step = {}
    for t in range(n - 1):
        good_step[t] = mapping[t] is not None and all(mapping[t].get(v) == succ[t][v] and succ[t][v] is not None for v in pool_ids[t])
        c0, c1 = seen[t]
        p0 = [(v, c0[v][0], c0[v][1]) for v in pool_ids[t]]
        p1 = [(v, c1[v][0], c1[v][1]) for v in pool_ids[t + 1]]
        m = mapping[t]
        # ---------------- S
        if m is not None:
            vals = [v for v in m.values() if v is not None]
            if len(set(vals)) != len(vals):
                ck.fail("the correspondence never sends two vertices to the same target", f"step {t}: {len(vals) - len(set(vals))} collisions", case)
            ends1 = set(pool_ids[t + 1])
            if not set(vals) <= ends1 | set(guess[t].values()):
                ck.fail("interface end points are mapped to interface end points of the next frame", f"step {t}", case)
            if not set(pool_ids[t]) <= set(m.keys()):
                ck.fail("every interface end point of a frame is mapped", f"step {t}: {len(set(pool_ids[t]) - set(m.keys()))} missing", case)
            for k, v in guess[t].items():
                if m.get(k) != v:
                    ck.fail("user-supplied pairings are honoured", f"step {t}: {k} -> {m.get(k)} instead of {v}", case); break
        # premises of the small-motion clause, measured on this step
        P0 = {v: np.array(c0[v]) for v in pool_ids[t]}
        P1 = {v: np.array(c1[v]) for v in pool_ids[t + 1]}
        bij = all(succ[t][v] is not None and succ[t][v] in P1 for v in pool_ids[t]) and len(pool_ids[t]) == len(pool_ids[t + 1])
        if bij and len(P1) > 1:
            allp = np.array(list(P0.values()) + list(P1.values()))
            maxcoord = max(np.ptp(allp[:, 0]), np.ptp(allp[:, 1]))
            T = np.array(list(P1.values()))
            D = np.hypot(T[:, None, 0] - T[None, :, 0], T[:, None, 1] - T[None, :, 1]); D[np.diag_indices(len(T))] = np.inf
            spacing = D.min()
            move = max(np.linalg.norm(P1[succ[t][v]] - P0[v]) for v in pool_ids[t])
            A0 = np.array(list(P0.values()))
            sh0 = (np.ptp(A0[:, 0]), np.ptp(A0[:, 1])); sh1 = (np.ptp(T[:, 0]), np.ptp(T[:, 1]))
            boxchange = math.hypot(sh1[0] - sh0[0], sh1[1] - sh0[1])
            premises = move < 0.5 * spacing * (1 - 1e-6) and move < 0.08 * maxcoord * (1 - 1e-6) and boxchange < 0.10 * maxcoord * (1 - 1e-6)
            if premises:
                ck.count("steps_with_premises")
                if m is None:
                    ck.fail("tissues within the bounds are tracked", f"step {t}: DifferentTissueException", case)
                else:
                    wrong = [v for v in pool_ids[t] if m.get(v) != succ[t][v] and v not in guess[t]]
                    if wrong:
                        ck.fail("each junction is mapped to its true successor under the small-motion bounds",
                                f"step {t}: {len(wrong)} of {len(pool_ids[t])} wrong, e.g. {wrong[0]} -> {m.get(wrong[0])} (true {succ[t][wrong[0]]}); "
                                f"move {move:.4g} spacing {spacing:.4g} extent {maxcoord:.4g}", case)
                    # round trip
                    for v in pool_ids[t][:20]:
                        w = f.mesh.get_point_id_by_map(v, t, t + 1)
                        back = f.mesh.get_point_id_by_map(w, t + 1, t) if w is not None else None
                        if back != v:
                            ck.fail("forward then backward returns the starting vertex", f"step {t}: {v} -> {w} -> {back}", case); break
            else:
                ck.count("steps_outside_premises")
        else:
            ck.count("steps_not_bijective")
        # ---------------- K
        if near_threshold(p0, p1):
            ck.count("rejected_step_near_threshold"); rejected = True
            continue
        reqs.append({"op": "mapping", "pool0": [[v, rat(x), rat(y)] for v, x, y in p0], "pool1": [[v, rat(x), rat(y)] for v, x, y in p1],
                     "guess": [[int(k), int(v)] for k, v in guess[t].items()], "s0": rat(S0), "cutoff": rat(CUTOFF), "maxDiff": rat(MAXDIFF)})
        pending.append(("map", dict(case, step=t), None if m is None else {int(k): (None if v is None else int(v)) for k, v in m.items()}))
    # multi-step tracking queries through the model
    maps = [None if mapping[t] is None else [[int(k), None if v is None else int(v)] for k, v in mapping[t].items()] for t in range(n - 1)]
    tracks, want = [], []
    for _ in range(24):
        a, b = int(rng.integers(n)), int(rng.integers(n))
        if a == b or not pool_ids[a]:
            continue
        v = pool_ids[a][int(rng.integers(len(pool_ids[a])))]
        try:
            r = {"ok": f.mesh.get_point_id_by_map(v, a, b)}
            if r["ok"] is not None:
                r["ok"] = int(r["ok"])
        except KeyError:
            r = {"raises": "KeyError"}
        except AttributeError:
            r = {"raises": "AttributeError"}
        tracks.append([v, a, b]); want.append(r)
        # S: when every step in between follows the true successors, a query over several steps (in either direction) returns the
        # vertex that the junction is in the target frame
        lo, hi = min(a, b), max(a, b)
        if all(good_step.get(t) for t in range(lo, hi)):
            truth = s.vid[b].get(jun_of[a].get(v))
            if "ok" not in r or r["ok"] != truth:
                ck.fail("tracking over several steps (forwards and backwards) follows the per-step correspondence",
                        f"vertex {v} of frame {a} queried at frame {b}: got {r}, the junction is vertex {truth} there", case)
            ck.count("multi_step_queries_checked_" + ("forward" if a < b else "backward") + ("_2plus" if hi - lo >= 2 else "_1"))
    reqs.append({"op": "series", "frames": [], "maps": maps, "velocities": [], "tracks": tracks})
    pending.append(("tracks", case, want))
    ck.case(case, nontrivial=True, sample=({"case": case, "frames": n, "end_points": [len(p) for p in pool_ids],
                                          "first_map": dict(list(mapping[0].items())[:4]) if mapping[0] else None} if len(ck.samples) < 3 else None))
    return f, frames, s


def run(ck):
    ck.rule = ("series of 2..6 frames of Voronoi tissues / sub-tissues, every frame independently renumbered, junctions displaced by random, "
               "affine or flowing fields scaled to 0.2, 0.45 or 1.6 times the property's bound (so that both sides of the premise occur), cm on/off, "
               "partial true initial guesses. A step's small-motion clause is asserted only when its premises hold on that step (measured). "
               "Non-trivial = every generated series; distinct = parameters")
    ck.assumptions = ["the centre-of-mass shift is float arithmetic of the code, replayed by the harness and checked against the final coordinates",
                      "steps with a squared distance within 1e-9 of a search radius / of another candidate / of the box threshold are rejected for K"]
    cases = [ck.replaying["case"]] if ck.replaying else gen_cases(ck)
    reqs, pending, keep = [], [], []
    for case in cases:
        keep.append(ck.guard(case, run_case, ck, case, reqs, pending))
    resps = ck.driver(reqs)
    for (kind, case, want), resp in zip(pending, resps):
        if kind == "map":
            got = resp["mapping"]
            gm = None if got is None else {int(k): (None if v is None else int(v)) for k, v in got}
            if gm != want:
                if gm is None or want is None:
                    ck.disagree("mapping", f"model {'None' if gm is None else 'map'} impl {'None' if want is None else 'map'}", case)
                else:
                    diff = [k for k in set(gm) | set(want) if gm.get(k, 'absent') != want.get(k, 'absent')]
                    ck.disagree("mapping", f"{len(diff)} entries differ, e.g. {diff[0]}: model {gm.get(diff[0], 'absent')} impl {want.get(diff[0], 'absent')}", case)
        else:
            if resp["tracks"] != want:
                ck.disagree("get_point_id_by_map", f"model {resp['tracks'][:4]} impl {want[:4]}", case)
