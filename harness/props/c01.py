"""C01 — static inference recovers the tensions of any tissue in force balance.

S: Maxwell-reciprocal Voronoi tissues (tension = site distance) and their Moebius images, at random rotations / scales /
   translations, 0..16 interior points per interface (Moebius images: >=1, two points do not determine an arc), optionally
   resampled with generate_mesh(ne=2..12), solved with every non-negative back-end and both circle fits: every reported tension
   against true tension / mean true tension of the inferred interfaces, asserted when the augmented system is well posed
   (rows >= columns and sigma_min >= 1e-3 sigma_max) — the property's "whenever force balance determines the tensions".
K: the assembled matrix against the Lean model (C02's correspondence) and the exact-arithmetic optimality certificate of the
   solver output (C05's correspondence), on the very systems solved here; the balance of the ground truth (theorems
   maxwell_balance / conformal_balance) is re-evaluated numerically: ||A_true tau|| ~ 0.
"""
import math
import numpy as np

import impl
import physical
import statics
from dump import mesh_json, rat, unrat

SIG_D2 = "tension-error-from-mirrored-tangent"


def gen_cases(ck):
    cases = ck.corpus_cases()
    n = 30 if ck.tier == "quick" else 240
    for i in range(n):
        mob = bool(ck.rng.integers(4) != 0)
        kr = [(1, 16), (2, 6), (1, 3)][int(ck.rng.integers(3))] if mob else [(0, 16), (0, 0), (0, 3)][int(ck.rng.integers(3))]
        cases.append({"type": "tissue", "seed": int(ck.rng.integers(1 << 30)), "tissue": ["random", "jitter", "hex", "quad"][int(ck.rng.integers(4))],
                      "sites": int(ck.rng.integers(24, 56)), "subset": [None, None, None, 0.8][int(ck.rng.integers(3))], "min_ridge": 0.004,
                      "mobius": mob, "strength": float(ck.rng.uniform(0.3, 2.5)), "kmin": kr[0], "kmax": kr[1],
                      "param_mode": ["uniform", "random"][int(ck.rng.integers(2))], "angle": float(ck.rng.uniform(0, 2 * math.pi)),
                      "scale": float(10.0 ** ck.rng.uniform(-2, 2)), "shift": [float(ck.rng.normal() * 3), float(ck.rng.normal() * 3)],
                      "p_rev": float(ck.rng.choice([0.0, 0.5])), "shifts": True, "relabel": bool(ck.rng.integers(2)),
                      "fit": ["dlite", "taubinSVD"][int(ck.rng.integers(2))], "method": [None, None, "lsq", "lsq_linear"][int(ck.rng.integers(4))],
                      "ne": [None, None, int(ck.rng.integers(2, 13))][int(ck.rng.integers(3))]})
    for i in range(4 if ck.tier == "quick" else 20):
        # the algebraic circle fit far from the origin (1e4..1e6 tissue sizes; the iterative fit is not accurate there)
        cases.append({"type": "tissue", "seed": int(ck.rng.integers(1 << 30)), "tissue": ["random", "jitter", "hex", "quad"][i % 4],
                      "sites": int(ck.rng.integers(24, 50)), "subset": None, "min_ridge": 0.004, "mobius": True, "strength": float(ck.rng.uniform(0.8, 2.0)),
                      "kmin": 2, "kmax": 6, "param_mode": "uniform", "angle": float(ck.rng.uniform(0, 6.28)), "scale": 1.0,
                      "shift": [float(10.0 ** ck.rng.uniform(4, 6)), float(-10.0 ** ck.rng.uniform(4, 6))], "p_rev": 0.5, "shifts": True,
                      "relabel": False, "fit": "taubinSVD", "method": [None, "lsq_linear"][i % 2], "ne": None})
    for i in range(4 if ck.tier == "quick" else 20):
        # a curved interface whose first chord at a junction is exactly parallel to an axis
        cases.append({"type": "tissue", "seed": int(ck.rng.integers(1 << 30)), "tissue": ["random", "jitter"][i % 2], "sites": int(ck.rng.integers(24, 44)),
                      "subset": None, "min_ridge": 0.004, "mobius": True, "strength": float(ck.rng.uniform(1.0, 2.5)), "kmin": 1, "kmax": [1, 3, 8][i % 3],
                      "param_mode": "uniform", "angle": 0.0, "scale": float(10.0 ** ck.rng.uniform(-1, 1)), "shift": [0.0, 0.0], "p_rev": 0.5, "shifts": True,
                      "relabel": False, "fit": ["dlite", "taubinSVD"][i % 2], "method": None, "ne": None, "axis_chord": True})
    for i in range(4 if ck.tier == "quick" else 24):
        # an inner two-point interface exactly parallel to a coordinate axis (tangent with an exactly vanishing component)
        cases.append({"type": "tissue", "seed": int(ck.rng.integers(1 << 30)), "tissue": ["random", "jitter", "quad"][i % 3],
                      "sites": int(ck.rng.integers(24, 50)), "subset": None, "min_ridge": 0.004, "mobius": False, "strength": 1.0,
                      "kmin": 0, "kmax": [0, 2][i % 2], "param_mode": "uniform", "angle": 0.0, "scale": float(10.0 ** ck.rng.uniform(-1, 1)),
                      "shift": [0.0, 0.0], "p_rev": 0.5, "shifts": True, "relabel": False, "fit": ["dlite", "taubinSVD"][i % 2],
                      "method": [None, "lsq_linear"][(i // 2) % 2], "ne": None, "axis_ridge": True})
    for i in range(4 if ck.tier == "quick" else 24):
        # the frame was assembled and solved before with a finite angle limit that excludes interfaces; then with the default options
        mob = bool(i % 2)
        cases.append({"type": "tissue", "seed": int(ck.rng.integers(1 << 30)), "tissue": ["random", "jitter", "hex"][i % 3], "sites": int(ck.rng.integers(24, 50)),
                      "subset": None, "min_ridge": 0.004, "mobius": mob, "strength": float(ck.rng.uniform(0.5, 2.0)), "kmin": 1 if mob else 0, "kmax": 6,
                      "param_mode": "uniform", "angle": float(ck.rng.uniform(0, 2 * math.pi)), "scale": float(10.0 ** ck.rng.uniform(-1, 1)),
                      "shift": [0.0, 0.0], "p_rev": 0.5, "shifts": True, "relabel": bool(i % 2), "fit": ["dlite", "taubinSVD"][i % 2],
                      "method": [None, "lsq", "lsq_linear"][i % 3], "ne": None, "prior_limit": float(ck.rng.uniform(0.7, 0.85) * math.pi)})
    for i in range(4 if ck.tier == "quick" else 24):
        # straight interfaces with interior points, the algebraic fit, after an earlier analysis of a tiny tissue in the same process
        cases.append({"type": "tissue", "seed": int(ck.rng.integers(1 << 30)), "tissue": ["random", "jitter", "hex"][i % 3], "sites": int(ck.rng.integers(24, 44)),
                      "subset": None, "min_ridge": 0.004, "mobius": False, "strength": 1.0, "kmin": 1, "kmax": 4, "param_mode": "uniform",
                      "angle": float(ck.rng.uniform(0, 2 * math.pi)), "scale": float(10.0 ** ck.rng.uniform(-1, 1)), "shift": [0.0, 0.0], "p_rev": 0.5,
                      "shifts": True, "relabel": False, "fit": "taubinSVD", "method": [None, "lsq", "lsq_linear"][i % 3], "ne": None, "after_small_lsq": True})
    for i in range(6 if ck.tier == "quick" else 40):
        # two four-fold junctions joined by one interface, the interfaces through each of them exactly in line (two-point straight
        # interfaces; the angle between opposite tangents is pi up to rounding), default options
        cases.append({"type": "tissue", "seed": int(ck.rng.integers(1 << 30)), "tissue": "quad2", "sites": int(ck.rng.integers(24, 50)), "subset": None,
                      "min_ridge": 0.004, "mobius": False, "strength": 1.0, "kmin": 0, "kmax": 0, "param_mode": "uniform",
                      "angle": [0.0, float(ck.rng.uniform(0, 2 * math.pi))][i % 2], "scale": float(10.0 ** ck.rng.uniform(-1, 1)),
                      "shift": [0.0, 0.0] if i % 2 == 0 else [float(ck.rng.normal()), float(ck.rng.normal())], "p_rev": 0.5, "shifts": True,
                      "relabel": bool(i % 2), "fit": ["dlite", "taubinSVD"][i % 2], "method": [None, "lsq", "lsq_linear"][i % 3], "ne": None})
    for i in range(6 if ck.tier == "quick" else 40):
        # straight tissues whose inner interfaces are given by their two end points (also those that reach the outline), the outline
        # itself sampled with interior points: resampled with the default options
        cases.append({"type": "tissue", "seed": int(ck.rng.integers(1 << 30)), "tissue": ["random", "jitter", "hex"][i % 3],
                      "sites": int(ck.rng.integers(24, 50)), "subset": [None, 0.7][i % 2], "min_ridge": 0.004, "mobius": False, "strength": 1.0,
                      "kmin": 0, "kmax": [0, 1][(i // 2) % 2], "border_kmin": 3, "param_mode": "uniform", "angle": float(ck.rng.uniform(0, 2 * math.pi)),
                      "scale": float(10.0 ** ck.rng.uniform(-1, 1)), "shift": [0.0, 0.0], "p_rev": 0.5, "shifts": True, "relabel": bool(i % 2),
                      "fit": "dlite", "method": None, "ne": int(ck.rng.integers(3, 8))})
    for i in range(4 if ck.tier == "quick" else 24):
        # curved tissues in small length units (cells of 1e-3 .. 1e-2 coordinate units, as for coordinates in mm or m): nothing in the
        # inference may depend on an absolute length
        cases.append({"type": "tissue", "seed": int(ck.rng.integers(1 << 30)), "tissue": ["random", "jitter", "hex"][i % 3],
                      "sites": int(ck.rng.integers(24, 44)), "subset": None, "min_ridge": 0.004, "mobius": True, "strength": float(ck.rng.uniform(1.0, 2.5)),
                      "kmin": 2, "kmax": 6, "param_mode": "uniform", "angle": float(ck.rng.uniform(0, 2 * math.pi)),
                      "scale": float(10.0 ** ck.rng.uniform(-2.5, -1.5)), "shift": [0.0, 0.0], "p_rev": 0.5, "shifts": True, "relabel": bool(i % 2),
                      "fit": "taubinSVD", "method": [None, "lsq_linear"][i % 2], "ne": None})
    return cases


def run_case(ck, case, reqs, pending):
    if case.get("axis_chord"):
        from props.c02 import axis_chord
        sc = axis_chord(case)
    else:
        sc = statics.build_static_axis_ridge(case) if case.get("axis_ridge") else statics.build_static(case)
    if sc is None:
        ck.count("rejected_tissue"); return
    fit, method, ne = case.get("fit", "dlite"), case.get("method"), case.get("ne")
    if ne is not None and sc.mob is not None and case["kmin"] < 1:
        ne = None
    # resampling contracts two-point interfaces of the outline (by design, C11): with replace_short_edges left at its default the
    # tissue stays the same physical tissue only when there is nothing to contract — decided here from the generated mesh
    replace = False
    if ne is not None and case.get("border_kmin"):
        cov = impl.cells_of_vertex(sc.bm.cells)
        two_point = [ids for ids in sc.bm.ridge_points.values() if len(ids) == 2]
        replace = not any(len(cov.get(ids[0], ())) < 3 and len(cov.get(ids[1], ())) < 3 for ids in two_point)
        ck.count("resampled_with_default_replace_short_edges" if replace else "resampled_without_replace")
    earlier = case.get("after_small_lsq")
    if earlier:
        # the same process has analysed another tissue before (three cells around one junction, method 'lsq': more unknowns than
        # equations, the fitting library gives up and the code falls back to NNLS); what was computed before must not matter
        sc0 = statics.build_static({"type": "tissue", "seed": case["seed"] + 5, "tissue": "hex", "sites": 30, "subset": None, "around_junction": True,
                                    "min_ridge": 0.004, "mobius": False, "kmin": 0, "kmax": 0, "scale": 1.0})
        if sc0 is not None:
            try:
                physical.run_static(sc0, fit="dlite", method="lsq")
                ck.count("earlier_small_lsq_solve")
            except Exception as ex:
                ck.count("earlier_small_lsq_solve_raised_" + type(ex).__name__)
    try:
        ph = physical.run_static(sc, fit=fit, method=method, ne=ne, replace=replace, reset_err=not earlier,
                                 prior_limit=(case["prior_limit"] if case.get("prior_limit") else None))
    except Exception as ex:
        ck.fail("static inference completes on an equilibrium tissue", f"{type(ex).__name__}: {str(ex)[:160]}", case)
        ck.case(case); return
    ck.count("fit_" + fit); ck.count("method_" + str(method)); ck.count("resampled" if ne else "not_resampled")
    if ph.tension is None or ph.truth is None:
        ck.count("rejected_no_equations"); return
    A = ph.A
    n = A.shape[1]
    if len(ph.used) != len(ph.ridges) or n != len(ph.ridges):
        ck.fail("with the default options every internal interface is an unknown of the force balance and gets its tension from it",
                f"{len(ph.ridges)} internal interfaces, {len(ph.used)} in the system ({n} columns)", case)
        return
    # ---------------- the ground truth is in balance (numerical re-evaluation of maxwell_balance / conformal_balance)
    tau = np.array([ph.truth[rg] for rg in ph.ridges])
    # the force-balance system of the ground truth, built from the topology alone: two rows for every junction where at least
    # three of the inferred interfaces end (four-fold junctions included: the documented default keeps them), closed-form tangents
    juncs = sorted({j for rg in ph.ridges for j in rg})
    rows_of = {}
    for j in juncs:
        inc = [col for col, rg in enumerate(ph.ridges) if j in rg]
        if len(inc) >= 3:
            rows_of[j] = (2 * len(rows_of), inc)
    Atrue = np.zeros((2 * len(rows_of), n))
    for j, (r, inc) in rows_of.items():
        for col in inc:
            a, b = tuple(ph.ridges[col])
            other = b if a == j else a
            t = statics.true_direction(sc, j, other, len(ph.used[col]))
            Atrue[r, col], Atrue[r + 1, col] = t.real, t.imag
    imbalance = float(np.max(np.abs(Atrue @ tau))) if Atrue.size else 0.0
    if imbalance > 1e-9 * (1 + float(np.max(np.abs(tau)))):
        ck.disagree("generator: ground truth not in force balance", f"max |A_true tau| = {imbalance}", case)
        return
    # ---------------- S
    Mtrue = np.block([[Atrue, np.ones((Atrue.shape[0], 1))], [np.ones((1, n)), np.zeros((1, 1))]])
    svt = np.linalg.svd(Mtrue, compute_uv=False)
    determined = Mtrue.shape[0] >= Mtrue.shape[1] and svt[-1] >= 1e-3 * svt[0]
    if not determined:
        ck.count("skipped_not_uniquely_determined")
        ck.case(case, nontrivial=False)
        return ph
    if len(rows_of) != len(ph.rowmap):
        ck.count("cases_where_the_code_has_other_equations_than_the_ground_truth")
    x = np.array([ph.tension[rg] for rg in ph.ridges])
    err = float(np.max(np.abs(x - tau)))
    coef_tol = physical.coef_tolerance(sc, ph, fit)
    solver_tol = {None: 1e-8, "lsq": 1e-4, "lsq_linear": 1e-5}[method]
    smin = float(svt[-1])
    tol = (2 * coef_tol * math.sqrt(n) * float(np.max(tau)) + solver_tol) / smin
    if method == "lsq_linear":
        # this back-end solves the bordered normal equations (add_mean_one_before): its error is governed by their conditioning — the
        # same rule as in C03
        N_ = np.block([[Atrue.T @ Atrue, np.ones((n, 1))], [np.ones((1, n)), np.zeros((1, 1))]])
        s2_ = np.linalg.svd(N_, compute_uv=False)
        tol = max(tol, (2 * coef_tol * n * float(np.max(tau)) + 1e-6) / float(s2_[-1]))
        # scipy's trust-region solver stops when the relative change of the cost falls below its default 1e-10, i.e. at a relative
        # step of about 1e-5 of the solution's norm (measured: 1.6e-4 at sigma_min 0.077, |tau| 7.6)
        tol = max(tol, 1e-5 * float(np.linalg.norm(tau)) / smin)
    ck.dist["worst_error_over_tolerance"] = max(ck.dist.get("worst_error_over_tolerance", 0.0), (err / tol) if not ph.d2 else 0.0)
    if err > tol:
        sig = SIG_D2 if ph.d2 else None
        if sig is not None:
            # the known finding explains the error only if every coefficient that is NOT mirrored is the true tangent
            for (j, rg), (cx, cy) in ph.coefs.items():
                if (j, rg) in ph.d2 or rg is None:
                    continue
                col = ph.ridges.index(rg)
                a_, b_ = tuple(rg)
                t_ = statics.true_direction(sc, j, b_ if a_ == j else a_, len(ph.used[col]))
                if max(abs(cx - t_.real), abs(cy - t_.imag)) > 2 * coef_tol:
                    sig = None
                    break
        if sig is None and physical.unconverged_fits(ph.frame, ph.used, fit):
            sig = physical.SIG_FIT
        worst = int(np.argmax(np.abs(x - tau)))
        ck.fail("every inferred interface reports true tension / mean true tension",
                f"max error {err:.3g} (tolerance {tol:.3g}; sigma_min {smin:.3g}; {len(ph.d2)} mirrored coefficients); interface "
                f"{sorted(ph.ridges[worst])}: reported {x[worst]:.6g} true {tau[worst]:.6g}", case, signature=sig)
    if ph.d2:
        ck.count("cases_with_mirrored_tangent")
    # ---------------- K: matrix vs model, certificate of the solution
    cs = statics.centers(_with_frame(sc, ph), fit)
    reqs.append({"op": "fmatrix", "mesh": mesh_json(ph.frame.vertices, ph.frame.edges, ph.frame.cells),
                 "centers": [[rat(a), rat(b)] for a, b in cs], "cos": None, "ignoreFour": False})
    pending.append(("fm", case, ph))
    rec = getattr(ph.fm, "_verif", None)
    if rec is not None and rec["path"] in ("nnls-fallback", "inv"):
        scale = 1.0 + n
        eps = 1e-9 * scale * rec["mprime"].shape[0]
        reqs.append({"op": "kkt", "M": [[rat(v) for v in row] for row in rec["mprime"]], "b": [rat(v) for v in rec["b"]],
                     "z": [rat(v) for v in rec["xres_raw"]], "eps": rat(eps), "delta": rat(eps * (1 + float(np.sum(np.abs(rec["xres_raw"])))))})
        pending.append(("kkt", case, rec["path"]))
    ck.case(case, nontrivial=True, sample=({"case": case, "unknowns": n, "equations": int(A.shape[0]), "max_error": err, "tolerance": tol}
                                          if len(ck.samples) < 3 else None))
    ck.count("asserted")
    return ph


def _with_frame(sc, ph):
    sc.frame = ph.frame
    return sc


def run(ck):
    ck.rule = ("Voronoi tissues (random/jittered/hexagonal sites; whole or connected sub-tissue) with Maxwell tensions and their Moebius images "
               "(pole 1.2..6 tissue diameters away), random rotation/scale 1e-2..1e2/translation, 0..16 interior points (uniform or random), "
               "optional generate_mesh(ne=2..12), methods default/lsq/lsq_linear, both circle fits, random storage (orientation, start, ids). "
               "Non-trivial = the augmented system is well posed, so the assertion is made; distinct = parameters")
    ck.assumptions = ["tolerance = (2 * closed-form coefficient tolerance * sqrt(n) * max tau + solver tolerance) / sigma_min of the augmented matrix",
                      "systems with more unknowns than equations or sigma_min < 1e-3 sigma_max are counted as 'not uniquely determined' and not asserted",
                      "float rounding inside the implementation and the external solvers are outside the theorems (certified per run)"]
    cases = [ck.replaying["case"]] if ck.replaying else gen_cases(ck)
    reqs, pending, keep = [], [], []
    for case in cases:
        keep.append(ck.guard(case, run_case, ck, case, reqs, pending))
    resps = ck.driver(reqs)
    for (kind, case, obj), resp in zip(pending, resps):
        if kind == "fm":
            ph = obj
            if resp["used"] != ph.used:
                ck.disagree("unknowns", "model and implementation differ", case); continue
            kept = {int(r[0]) for r in resp["rows"] if r[1]}
            if kept != set(ph.rowmap):
                ck.disagree("kept junctions", "model and implementation differ", case); continue
            bad = False
            for vid, k, row in resp["rows"]:
                if not k or bad:
                    continue
                r = ph.rowmap[int(vid)]
                for col, ent in enumerate(row):
                    gx, gy = ph.A[r, col], ph.A[r + 1, col]
                    if ent is None:
                        if gx != 0 or gy != 0:
                            bad = True
                        continue
                    vx, vy = float(unrat(ent[0])), float(unrat(ent[1]))
                    nn = math.hypot(vx, vy)
                    if abs(vx / nn - gx) > 1e-9 or abs(vy / nn - gy) > 1e-9:
                        bad = True
            if bad:
                ck.disagree("matrix coefficients", "model and implementation differ", case)
        else:
            ok = resp["solves"] if obj == "inv" else resp["kkt"]
            if not resp["shaped"] or not ok:
                ck.disagree("optimality certificate", f"path {obj}: minW {float(unrat(resp['minW']))} z.w {float(unrat(resp['zw']))} "
                            f"maxRes {float(unrat(resp['maxAbsRes']))}", case)
