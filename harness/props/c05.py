"""C05 — reported tensions are the non-negative least-squares optimum with mean one.

K: with the hook on, every solve hands over (augmented matrix M', right-hand side b', raw solution z, path).  The Lean driver
   (i) rebuilds M', b' with the model's `addMeanOne` from the assembled matrix and compares exactly (default / lsq paths),
   (ii) evaluates the certificate in exact rational arithmetic on those floats: `solveCheck` (inversion path),
        `kktCheck` (NNLS fallback, lsq, lsq_linear) with the tolerances of the table below.  Soundness of the certificates:
        theorems kkt_gap / kkt_sound / kkt_strong / exact_solution_minimises / stationary_min (Props/C05.lean).
S: independent reference optimum (scipy nnls on an independently assembled augmented system), objective gap with the best
   non-negative multiplier, closeness to the reference when it is unique, sign/finiteness, mean one for consistent systems.
"""
import math
import numpy as np
import scipy.optimize as sco

import impl
import statics
from dump import rat, unrat

SIG_FIX = "method-fix_stress-raises"
SIG_INV = "inversion-path-negative-multiplier"
SIG_LSQLIN = "lsq_linear-singular-normal-equations"
# tolerances on the certificate (relative to the scale of the system), per path — part of the check's specification
EPS = {"inv": 1e-9, "nnls-fallback": 1e-9, "lsq": 1e-5, "lsq_linear": 1e-6}


def gen_cases(ck):
    cases = ck.corpus_cases()
    n = 40 if ck.tier == "quick" else 300
    for i in range(n):
        cases.append({"type": "tissue", "seed": int(ck.rng.integers(1 << 30)), "tissue": ["random", "jitter", "hex"][int(ck.rng.integers(3))],
                      "sites": int(ck.rng.integers(14, 34)), "subset": [None, 0.7, 0.5][int(ck.rng.integers(3))], "min_ridge": 0.005,
                      "mobius": bool(ck.rng.integers(2)), "kmin": 1, "kmax": 6, "angle": float(ck.rng.uniform(0, 6.28)),
                      "scale": float(10.0 ** ck.rng.uniform(-2, 2)), "noise": float(ck.rng.choice([0.0, 0.0, 0.01, 0.05])),
                      "rhs": ["static", "velocity"][int(ck.rng.integers(3) == 0)], "dt": float(10.0 ** ck.rng.uniform(-1, 1)),
                      "method": [None, None, "lsq", "lsq_linear", "fix_stress"][int(ck.rng.integers(5))],
                      "allow_negatives": bool(ck.rng.integers(2)), "fit": ["dlite", "taubinSVD"][int(ck.rng.integers(2))],
                      "angle_limit": [None, None, float(ck.rng.uniform(0.62, 0.9) * math.pi)][i % 3]})
    for i in range(10 if ck.tier == "quick" else 80):
        # square systems (one cell ringed by its neighbours: as many equations as unknowns) -> the exact-inversion path; out of
        # equilibrium, so that the exact solution has negative entries; the storage variant is chosen so that the negative
        # entries sit at chosen positions of the unknown vector (first / last / anywhere)
        cases.append({"type": "tissue", "seed": int(ck.rng.integers(1 << 30)), "tissue": ["random", "jitter"][i % 2], "sites": int(ck.rng.integers(40, 70)),
                      "flower": True, "min_ridge": 0.003, "mobius": False, "kmin": [0, 1][i % 2], "kmax": [0, 4][i % 2],
                      "angle": float(ck.rng.uniform(0, 6.28)), "scale": 1.0, "noise": float(ck.rng.choice([0.03, 0.06, 0.1])), "rhs": "static",
                      "method": None, "allow_negatives": bool(i % 5 == 4), "fit": "dlite", "storage_in_series": True, "shifts": True,
                      "shuffle_cells": True, "p_rev": 0.5, "negative_at": ["last", "first", "last", "any"][i % 4]})
    for i in range(6 if ck.tier == "quick" else 40):
        # the same square systems with a velocity right-hand side (the exact-inversion path with b != 0 in the equation rows)
        cases.append({"type": "tissue", "seed": int(ck.rng.integers(1 << 30)), "tissue": ["random", "jitter"][i % 2], "sites": int(ck.rng.integers(40, 70)),
                      "flower": True, "min_ridge": 0.003, "mobius": bool(i % 3 == 0), "kmin": 1, "kmax": 4,
                      "angle": float(ck.rng.uniform(0, 6.28)), "scale": float(10.0 ** ck.rng.uniform(-1, 1)), "noise": float(ck.rng.choice([0.0, 0.005])),
                      "rhs": "velocity", "dt": float(10.0 ** ck.rng.uniform(-1, 1)), "vel_amp": float(ck.rng.choice([1.0, 3.0])),
                      "method": None, "allow_negatives": bool(i % 2), "fit": "dlite", "negative_at": "any"})
    for i in range(3 if ck.tier == "quick" else 16):
        # square systems tuned so that the exact solution has one tension *just* below zero (between -4e-4 and -2e-5): a negative
        # tension however small must send the inversion path to its non-negative fallback when negatives are disallowed
        cases.append({"type": "tissue", "seed": int(ck.rng.integers(1 << 30)), "tissue": ["random", "jitter"][i % 2], "sites": int(ck.rng.integers(40, 70)),
                      "flower": True, "min_ridge": 0.003, "mobius": False, "kmin": 0, "kmax": 0,
                      "angle": float(ck.rng.uniform(0, 6.28)), "scale": 1.0, "noise": 0.03, "rhs": "static",
                      "method": None, "allow_negatives": False, "fit": "dlite", "negative_at": "tiny"})
    return cases


def exact_solution(case):
    sc = setup(case, build_only=True)
    if sc is None:
        return None
    A = np.array(sc.fm.matrix, dtype=float)
    if A.shape[0] != A.shape[1] or A.shape[0] == 0:
        return None
    n = A.shape[1]
    M = np.block([[A, np.ones((n, 1))], [np.ones((1, n)), np.zeros((1, 1))]])
    try:
        return np.linalg.solve(M, np.concatenate([np.zeros(n), [float(n)]]))
    except np.linalg.LinAlgError:
        return None


def place_negative(case):
    """out-of-equilibrium square systems with the negative entry of the exact solution at a chosen position of the unknown
    vector: the amplitude of the (fixed) junction displacement is raised until exactly one tension of the exact solution is
    negative, then the storage variant (cell order, cycle starts, orientations: the same physical tissue) is chosen for which
    that interface is the first / the last unknown"""
    want = case.get("negative_at")
    if want in (None, "any") or "variant" in case:
        return case
    if want == "tiny":
        lo = hi = None
        for noise in np.geomspace(1e-3, 0.3, 60):
            z = exact_solution(dict(case, noise=float(noise), variant=0))
            if z is None:
                return case
            if min(z[:-1]) < 0:
                hi = float(noise); break
            lo = float(noise)
        if lo is None or hi is None:
            return case
        for _ in range(50):
            mid = 0.5 * (lo + hi)
            z = exact_solution(dict(case, noise=mid, variant=0))
            if z is None:
                return case
            m = float(min(z[:-1]))
            if -4e-4 < m < -2e-5:
                return dict(case, noise=mid, variant=0)
            if m >= -2e-5:
                lo = mid
            else:
                hi = mid
        return case
    found = None
    for noise in np.geomspace(1e-3, 0.3, 240):
        z = exact_solution(dict(case, noise=float(noise), variant=0))
        if z is None:
            return case
        neg = [i for i in range(len(z) - 1) if z[i] < -1e-4]
        if len(neg) == 1:
            found = float(noise); break
        if len(neg) > 1:
            break
    if found is None:
        return case
    for v in range(80):
        c = dict(case, noise=found, variant=v)
        z = exact_solution(c)
        if z is None:
            continue
        n = len(z) - 1
        neg = [i for i in range(n) if z[i] < -1e-6]
        if (want == "last" and neg == [n - 1]) or (want == "first" and neg == [0]):
            return c
    return case


def setup(case, build_only=False):
    rng = np.random.default_rng(case["seed"] + 5)
    if case["rhs"] == "velocity":
        probe = statics.build_static(case)
        if probe is None:
            return None
        nj = len(probe.topo.J)
        amp = 0.01 * case.get("vel_amp", 1.0)
        d1 = (rng.normal(size=nj) + 1j * rng.normal(size=nj)) * amp
        d0 = (rng.normal(size=nj) + 1j * rng.normal(size=nj)) * case.get("noise", 0.0)
        series = statics.build_series(case, 2, disp=[d0, d0 + d1])
        f = statics.make_forsys(series, times=[0.0, case.get("dt", 1.0)])
        if f.mesh.mapping[0] is None:
            return None          # the generated frames are "too different" for the tracker: outside this property's inputs
        sc = series[0]
        sc.keep = series
    else:
        probe = statics.build_static(case)
        if probe is None:
            return None
        nj = len(probe.topo.J)
        d0 = (rng.normal(size=nj) + 1j * rng.normal(size=nj)) * case.get("noise", 0.0)
        series = statics.build_series(case, 1, disp=[d0])
        sc = series[0]
        sc.frame = impl.make_frame(sc.bm)
        import forsys as fs
        sc.forsys = fs.ForSys({0: sc.frame})
        sc.keep = series
    kwb = {}
    if case.get("angle_limit") is not None:
        kwb["angle_limit"] = case["angle_limit"]        # a restricted system: fewer unknowns than internal interfaces
    impl.quiet(sc.forsys.build_force_matrix, when=0, circle_fit_method=case.get("fit", "dlite"), **kwb)
    sc.fm = sc.forsys.force_matrices[0]
    return sc


def run_case(ck, case, reqs, pending):
    np.seterr(all="raise")      # the state `import forsys` establishes; lmfit/scipy may leave another one behind
    case = place_negative(case)
    if case.get("flower"):
        ck.count("flower_negative_placed_" + str(case.get("negative_at")) if "variant" in case else "flower_negative_not_placed")
    sc = setup(case)
    if sc is None:
        ck.count("rejected_tissue"); return
    fm = sc.fm
    A = np.array(fm.matrix, dtype=float)
    if A.shape[0] == 0 or A.shape[1] == 0:
        ck.count("rejected_no_equations"); return
    method, an = case.get("method"), case.get("allow_negatives", True)
    kw = {"allow_negatives": an}
    if an is False and case["seed"] % 3 == 0:
        # "negatives disallowed" given as another falsy value, as it comes out of a numpy comparison or a flag stored as 0
        kw["allow_negatives"] = [np.bool_(False), 0][(case["seed"] // 3) % 2]
        ck.count("allow_negatives_given_as_numpy_or_int_false")
    if method:
        kw["method"] = method
    if method == "lsq" and case["seed"] % 2 == 0:
        kw["use_std"] = False            # the documented default, spelled out by the caller
        ck.count("lsq_with_explicit_use_std_false")
    if case["rhs"] == "velocity":
        kw["b_matrix"] = "velocity"
    ck.count("method_" + str(method)); ck.count("rhs_" + case["rhs"]); ck.count("allow_negatives_" + str(an))
    ck.count("square_system" if A.shape[0] == A.shape[1] else "rectangular_system")
    if case.get("angle_limit") is not None:
        ck.count("angle_limited_systems")
        ck.count("angle_limited_systems_with_excluded_interfaces", int(A.shape[1] < len(sc.frame.internal_big_edges)))
    if method == "lsq_linear":
        # domain of lsq_linear: consistent systems only — decided before the call (the equations and the sum row must have an
        # exact non-negative solution without a multiplier)
        nn = A.shape[1]
        bb, _ = fm.set_velocity_matrix(sc.forsys.mesh, **{k: v for k, v in kw.items() if k != "method"})
        b00 = np.round(np.array(bb, dtype=float).flatten(), 3)
        z0, r0 = sco.nnls(np.vstack([A, np.ones((1, nn))]), np.concatenate([b00, [float(nn)]]), maxiter=50 * nn)
        if r0 * r0 > 1e-12 * (1.0 + float(nn)) ** 2:
            ck.count("lsq_linear_inconsistent_system_out_of_domain")
            return sc
    try:
        impl.quiet(sc.forsys.solve_stress, when=0, **kw)
    except Exception as ex:
        sig = SIG_FIX if method == "fix_stress" else None
        ck.fail("every selectable back-end returns the optimum", f"solve raises {type(ex).__name__}: {str(ex)[:120]}", case, signature=sig)
        ck.case(case)
        return
    rec = getattr(fm, "_verif", None)
    if rec is None:
        ck.disagree("hook", "ForceMatrix.solve left no hook record (FORSYS_VERIF=1)", case); return
    Mp, bp, z, path = rec["mprime"], rec["b"], rec["xres_raw"], rec["path"]
    ck.count("path_" + path)
    forces = sc.frame.forces
    x = np.array([forces[i] for i in range(len(forces))], dtype=float)
    n = A.shape[1]
    if case.get("angle_limit") is not None and len(x) > n:
        # interfaces excluded by the angle limit are reported as -1 at their own positions (C16); the others are the solution
        used_set = {tuple(int(q) for q in e) for e in fm.big_edges_to_use}
        keep = [k for k, be in enumerate(sc.frame.internal_big_edges) if tuple(int(q) for q in be.get_vertices_ids()) in used_set]
        x = x[keep]
    # ------------------------------------------------------------------ S
    if not np.all(np.isfinite(x)):
        ck.fail("all reported values are finite", f"{x}", case)
    if len(x) != n or np.max(np.abs(x - z[:n])) > 0:
        ck.fail("the reported tensions are the solver's solution without its multiplier", f"{len(x)} reported vs {n} unknowns", case)
    # independent assembly of the augmented problem: min ||A x + lam*1 - b0||^2 + (sum x - n)^2 over (x, lam) >= 0
    b0 = bp[:A.shape[0]] if path != "lsq_linear" else None
    if path == "lsq_linear":
        # its right-hand side is A^T b; recover b0 from the velocity matrix (static: zeros)
        b0 = np.round(np.array(fm.velocity_matrix, dtype=float).flatten() if case["rhs"] == "velocity" else np.zeros(A.shape[0]), 3)
    Mref = np.block([[A, np.ones((A.shape[0], 1))], [np.ones((1, n)), np.zeros((1, 1))]])
    bref = np.concatenate([b0, [float(n)]])
    zref, _ = sco.nnls(Mref, bref, maxiter=50 * Mref.shape[1])
    opt = float(np.sum((Mref @ zref - bref) ** 2))
    r = A @ x - b0
    lam = max(0.0, -float(np.mean(r)))
    obj = float(np.sum((r + lam) ** 2) + (np.sum(x) - n) ** 2)
    scale = (1.0 + float(np.max(np.abs(bref)))) ** 2
    tol_obj = {"inv": 1e-9, "nnls-fallback": 1e-9, "lsq": 1e-9, "lsq_linear": 1e-8}[path] * scale * Mref.shape[0]
    if path == "lsq" and opt > 100 * tol_obj:
        # clearly inconsistent system: Levenberg-Marquardt reaches the optimum to a relative 1e-6 of the objective (measured worst
        # 8.5e-7 over the thorough tier); an absolute tolerance would hide a different cost function
        tol_obj = 1e-5 * opt
    consistent = opt <= 1e-12 * scale
    lsq_singular = False
    if path == "lsq_linear":
        svn = np.linalg.svd(Mp, compute_uv=False)
        lsq_singular = A.shape[0] < A.shape[1] or svn[-1] < 1e-8 * svn[0]
    if path == "lsq_linear":
        # the property claims lsq_linear for consistent systems only: the force-balance equations together with the sum row
        # must have an exact non-negative solution *without* the multiplier (lsq_linear's bordered normal equations contain
        # no multiplier column on the equations; a zero residual reached only with lambda != 0 is not consistency)
        M0 = np.vstack([A, np.ones((1, n))])
        z0, r0 = sco.nnls(M0, bref, maxiter=50 * n)
        if r0 * r0 > 1e-12 * scale:
            ck.count("lsq_linear_inconsistent_system_out_of_domain")
            ck.case(case, nontrivial=False)
            return sc
    nonneg = bool(np.all(x >= 0))
    if path == "lsq_linear" and case["rhs"] == "velocity":
        # lsq_linear rounds A^T b (not b) to three decimals, so its system is not the augmented problem of the rounded
        # velocities; the property claims it for consistent systems only and up to that rounding: compare on its own system
        zr, _ = sco.nnls(Mp, bp, maxiter=50 * Mp.shape[1])
        o_ref, o_got = float(np.sum((Mp @ zr - bp) ** 2)), float(np.sum((Mp @ z - bp) ** 2))
        if o_got > o_ref + 1e-8 * scale * Mp.shape[0]:
            ck.fail("lsq_linear returns the non-negative optimum of its bordered normal equations", f"objective {o_got} reference {o_ref}", case,
                    signature=SIG_LSQLIN if lsq_singular else None)
        ck.count("lsq_linear_velocity_own_system")
    elif nonneg or path != "inv":
        ck.dist["worst_normalised_objective_gap_" + path] = max(ck.dist.get("worst_normalised_objective_gap_" + path, 0.0), (obj - opt) / (scale * Mref.shape[0]))
        ck.dist["worst_objective_gap_" + path] = max(ck.dist.get("worst_objective_gap_" + path, 0.0), obj - opt)
        ck.dist["worst_relative_objective_gap_" + path] = max(ck.dist.get("worst_relative_objective_gap_" + path, 0.0), (obj - opt) / (opt + 1e-12 * scale))
        if obj > opt + tol_obj:
            # finding KF3: the inversion path accepts a negative multiplier (only `xres[:-1]` is inspected)
            sig = SIG_INV if (path == "inv" and z[-1] < 0) else (SIG_LSQLIN if lsq_singular else None)
            ck.fail("reported tensions with some non-negative multiplier minimise the augmented squared residual over non-negative candidates",
                    f"path {path}: objective {obj} reference optimum {opt} (raw multiplier {z[-1]})", case, signature=sig)
    if path == "inv" and z[-1] < -1e-9 * math.sqrt(scale) and nonneg and obj > opt + tol_obj:
        pass
    if not (nonneg or path != "inv"):
        # inversion path with negatives allowed: exact solution of the square system (minimises over all candidates)
        res = float(np.max(np.abs(Mp @ z - bp)))
        # backward error of a float solve: relative to |M| |z| (a nearly singular square system has solutions of huge norm)
        back = 1e-13 * float(np.max(np.sum(np.abs(Mp), axis=1))) * float(np.max(np.abs(z))) * Mp.shape[0]
        if res > 1e-9 * math.sqrt(scale) + back:
            ck.fail("the inversion path returns the exact solution of the square augmented system", f"residual {res}", case)
        ck.count("inv_with_negative_entries")
    sv = np.linalg.svd(Mref, compute_uv=False)
    wellposed = Mref.shape[0] >= Mref.shape[1] and sv[-1] >= 1e-3 * sv[0]
    if wellposed and (nonneg or path != "inv") and not (path == "lsq_linear" and case["rhs"] == "velocity"):
        tolx = {"inv": 1e-7, "nnls-fallback": 1e-7, "lsq": 1e-3, "lsq_linear": 1e-4}[path] * math.sqrt(scale) / sv[-1]
        if np.max(np.abs(x - zref[:n])) > tolx:
            sig = SIG_INV if (path == "inv" and z[-1] < 0) else None
            ck.fail("reported tensions equal the unique minimiser within solver tolerance",
                    f"path {path}: max deviation {np.max(np.abs(x - zref[:n]))} (tolerance {tolx})", case, signature=sig)
        ck.count("unique_minimiser_checked")
    if not an and not nonneg:
        ck.fail("with negatives disallowed no reported tension is negative", f"min {x.min()}", case)
    if method in ("lsq", "lsq_linear") and not nonneg:
        ck.fail("bounded back-ends return non-negative tensions", f"min {x.min()}", case)
    if consistent:
        tolm = {"inv": 1e-8, "nnls-fallback": 1e-8, "lsq": 1e-5, "lsq_linear": 1e-6}[path]
        if abs(float(np.mean(x)) - 1.0) > tolm:
            ck.fail("for consistent systems the mean reported tension is one", f"mean {np.mean(x)}", case, signature=SIG_LSQLIN if lsq_singular else None)
        ck.count("consistent_systems")
    # ------------------------------------------------------------------ K
    eps = EPS[path] * math.sqrt(scale) * Mp.shape[0]
    if path == "inv":
        eps += 1e-13 * float(np.max(np.sum(np.abs(Mp), axis=1))) * float(np.max(np.abs(z))) * Mp.shape[0]      # backward error, as above
    if path == "lsq_linear":
        N = A.T @ A
        Mchk = np.block([[N, np.ones((n, 1))], [np.ones((1, n)), np.zeros((1, 1))]])
        if Mchk.shape != Mp.shape or np.max(np.abs(Mchk - Mp)) > 1e-12 * (1 + np.max(np.abs(N))):
            ck.disagree("bordered normal matrix", "add_mean_one_before differs from [[A^T A, 1], [1^T, 0]]", case)
    if path != "lsq_linear":
        reqs.append({"op": "add_mean_one", "A": [[rat(v) for v in row] for row in A], "b": [rat(v) for v in b0]})
        pending.append(("aug", case, Mp, bp, path))
    reqs.append({"op": "kkt", "M": [[rat(v) for v in row] for row in Mp], "b": [rat(v) for v in bp], "z": [rat(v) for v in z],
                 "eps": rat(eps), "delta": rat(eps * (1.0 + float(np.sum(np.abs(z)))))})
    pending.append(("kkt", case, path, nonneg, an))
    ck.case(case, nontrivial=True, sample=({"case": case, "system": list(Mp.shape), "path": path, "objective": obj, "reference": opt}
                                          if len(ck.samples) < 3 else None))
    return sc


def run(ck):
    ck.rule = ("equilibrium and noisy (junction positions perturbed) Voronoi/Moebius tissues and sub-tissues, static and velocity "
               "right-hand sides (two-frame series with random displacements), scales 1e-2..1e2, methods default/lsq/lsq_linear/"
               "fix_stress, allow_negatives on/off, both circle fits; square systems occur naturally (inversion path) and are counted. "
               "Non-trivial = a system with at least one equation; distinct = distinct parameters")
    ck.assumptions = ["numpy.linalg.inv / scipy nnls / scipy lsq_linear / lmfit are external kernels: their output is certified per run, not modelled",
                      "certificate tolerances relative to the system scale: 1e-9 (inv, nnls), 1e-5 (lsq: Levenberg-Marquardt stops on its own tolerance), 1e-6 (lsq_linear)",
                      "lsq_linear solves the bordered normal equations: its certificate refers to that system; equivalence with the augmented problem is claimed for consistent systems only (as the property does)"]
    cases = [ck.replaying["case"]] if ck.replaying else gen_cases(ck)
    reqs, pending, keep = [], [], []
    for case in cases:
        keep.append(ck.guard(case, run_case, ck, case, reqs, pending))
    resps = ck.driver(reqs)
    for p, resp in zip(pending, resps):
        if p[0] == "aug":
            _, case, Mp, bp, path = p
            Mm = [[float(unrat(v)) for v in row] for row in resp["M"]]
            bm = [float(unrat(v)) for v in resp["b"]]
            if np.array(Mm).shape != Mp.shape or np.any(np.array(Mm) != Mp):
                ck.disagree("augmented matrix", "add_mean_one differs from the model", case)
            if len(bm) != len(bp) or np.any(np.array(bm) != bp):
                ck.disagree("augmented right-hand side", f"model {bm[-3:]} impl {bp[-3:].tolist()}", case)
        else:
            _, case, path, nonneg, an = p
            if not resp["shaped"]:
                ck.disagree("certificate", "system not rectangular", case); continue
            ok = resp["solves"] if path == "inv" else resp["kkt"]
            if path == "inv" and not resp["solves"]:
                ok = False
            if not ok:
                ck.disagree("certificate", f"path {path}: exact-arithmetic certificate fails: minW {float(unrat(resp['minW']))} "
                            f"z.w {float(unrat(resp['zw']))} maxRes {float(unrat(resp['maxAbsRes']))} minZ {float(unrat(resp['minZ']))}", case)
