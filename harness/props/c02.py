"""C02 — force-balance equations use outward unit tangents at the right junctions.

K: ForceMatrix (matrix, map_vid_to_row, big_edges_to_use, deletes) of the real code vs. the Lean model `FMInput.build`
   fed with the same mesh dump and the circle centres the real fit returned: unknowns, kept junctions and the zero
   pattern exactly, coefficients at 1e-9 (model vector / sqrt(model squared norm)).
S: shape (one unknown per internal interface; one x/y row pair per junction of >=3 cells and >=3 internal interfaces,
   <4 with ignore_four), and every coefficient pair against the closed-form unit tangent (Moebius images: f'(z_j)(z_k - z_j);
   straight: the ridge direction; two-point interfaces: the chord), zeros elsewhere.
"""
import math
import numpy as np

import impl
import physical
import statics
from dump import mesh_json, rat, unrat

TOL_ARC = 1e-6
TOL_LINE = 2e-3
SIG_D2 = "tangent-sign-forcing-mirrors"


def gen_cases(ck):
    cases = ck.corpus_cases()
    n = 60 if ck.tier == "quick" else 400
    for i in range(n):
        tissue = ["random", "jitter", "hex", "quad"][int(ck.rng.integers(4))]
        near_axis = bool(ck.rng.integers(3) == 0)
        kr = [(1, 15), (0, 3), (3, 8), (0, 0)][int(ck.rng.integers(4))]
        cases.append({"type": "tissue", "seed": int(ck.rng.integers(1 << 30)), "tissue": tissue, "sites": int(ck.rng.integers(14, 34)),
                      "subset": [None, 0.7, 0.45][int(ck.rng.integers(3))], "mobius": bool(ck.rng.integers(4) != 0),
                      "strength": float(ck.rng.uniform(0.3, 2.0)), "kmin": kr[0], "kmax": kr[1],
                      "param_mode": ["uniform", "random"][int(ck.rng.integers(2))],
                      "angle": float(ck.rng.uniform(0, 2 * math.pi)), "near_axis": near_axis,
                      "scale": float(10.0 ** ck.rng.uniform(-2, 2)), "shift": [float(ck.rng.normal() * 3), float(ck.rng.normal() * 3)],
                      "p_rev": float(ck.rng.choice([0.0, 0.5])), "shifts": True, "relabel": bool(ck.rng.integers(2)),
                      "fit": ["dlite", "taubinSVD"][int(ck.rng.integers(2))], "ignore_four": [None, False, True][int(ck.rng.integers(3))]})
    for i in range(6 if ck.tier == "quick" else 30):
        # a junction where five or six cells meet, with the ignore-four option on / off / absent
        mob = bool(i % 2)
        cases.append({"type": "tissue", "seed": int(ck.rng.integers(1 << 30)), "tissue": "penta", "sites": int(ck.rng.integers(16, 34)), "subset": None, "min_ridge": 0.004,
                      "mobius": mob, "strength": float(ck.rng.uniform(0.3, 1.2)), "kmin": 1 if mob else 0, "kmax": [0, 3, 6][i % 3] if not mob else 4,
                      "param_mode": "uniform", "angle": float(ck.rng.uniform(0, 2 * math.pi)), "near_axis": False,
                      "scale": float(10.0 ** ck.rng.uniform(-1, 1)), "shift": [0.0, 0.0], "p_rev": 0.5, "shifts": True, "relabel": bool(i % 2),
                      "fit": ["dlite", "taubinSVD"][i % 2], "ignore_four": [True, True, False, None][i % 4]})
    for i in range(4 if ck.tier == "quick" else 20):
        # the algebraic fit far from the origin (1e4..1e6 tissue sizes): the option must reach the matrix rows
        cases.append({"type": "tissue", "seed": int(ck.rng.integers(1 << 30)), "tissue": ["random", "jitter"][i % 2], "sites": int(ck.rng.integers(14, 30)),
                      "subset": None, "mobius": True, "strength": float(ck.rng.uniform(0.8, 2.0)), "kmin": 2, "kmax": 6, "param_mode": "uniform",
                      "angle": float(ck.rng.uniform(0, 6.28)), "scale": 1.0, "shift": [float(10.0 ** ck.rng.uniform(4, 6)), float(-10.0 ** ck.rng.uniform(4, 6))],
                      "p_rev": 0.5, "shifts": True, "relabel": False, "fit": "taubinSVD", "ignore_four": None})
    for i in range(6 if ck.tier == "quick" else 40):
        cases.append({"type": "tissue", "seed": int(ck.rng.integers(1 << 30)), "tissue": ["random", "jitter"][i % 2], "sites": int(ck.rng.integers(14, 30)),
                      "subset": None, "mobius": True, "strength": float(ck.rng.uniform(1.0, 2.5)), "kmin": 1, "kmax": [1, 3, 8][i % 3],
                      "param_mode": "uniform", "angle": 0.0, "scale": float(10.0 ** ck.rng.uniform(-1, 1)), "shift": [0.0, 0.0],
                      "p_rev": 0.5, "shifts": True, "relabel": False, "fit": ["dlite", "taubinSVD"][i % 2], "ignore_four": None, "axis_chord": True})
    for i in range(10 if ck.tier == "quick" else 60):
        # ragged sub-tissues of square / brick lattices given by two-point interfaces (notches, re-entrant corners, rim junctions of
        # two and three cells), axis-parallel and rotated
        cases.append({"type": "lattice", "seed": int(ck.rng.integers(1 << 30)), "tissue": ["square", "square", "brick"][i % 3],
                      "nx": int(ck.rng.integers(3, 7)), "ny": int(ck.rng.integers(3, 6)), "subset": float(ck.rng.uniform(0.45, 0.85)),
                      "kmin": 0, "kmax": [0, 0, 1][i % 3], "angle": [0.0, float(ck.rng.uniform(0, 6.28))][i % 2], "scale": [1.0, 0.25][i % 2],
                      "shift": [0.0, 0.0], "fit": ["dlite", "taubinSVD"][i % 2], "ignore_four": [None, False, True][i % 3]})
    for i in range(6 if ck.tier == "quick" else 30):
        # a cell with exactly two neighbours: two interfaces between the same pair of junctions
        ku = int(ck.rng.integers(1, 7))
        kl = [0, 0, int(ck.rng.integers(1, 7))][i % 3]
        if kl == ku:
            kl += 1
        cases.append({"type": "lens", "seed": int(ck.rng.integers(1 << 30)), "k_upper": ku, "k_lower": kl, "h_upper": float(ck.rng.uniform(0.6, 1.9)),
                      "h_lower": float(ck.rng.uniform(0.4, 1.5)), "angle": float(ck.rng.uniform(0, 6.28)), "scale": float(10.0 ** ck.rng.uniform(-1, 1)),
                      "shift": [float(ck.rng.normal()), float(ck.rng.normal())], "shuffle_cells": bool(i % 2), "p_rev": [0.0, 0.5][i % 2], "shifts": True,
                      "fit": ["dlite", "taubinSVD"][i % 2], "ignore_four": None})
    shapes = {"notch": [(0, 2), (3, 2)] + [(i, 1) for i in range(4)] + [(i, 0) for i in range(4)],
              "cross_with_notch": [(0, 2), (3, 2), (0, 1), (1, 1), (2, 1), (3, 1), (1, 0), (2, 0)],
              "staircase": [(i, j) for i in range(4) for j in range(3) if j <= i],
              "ring": [(i, j) for i in range(3) for j in range(3) if (i, j) != (1, 1)]}
    for k, (name, cells) in enumerate(sorted(shapes.items())):
        for ig in (None, True):
            cases.append({"type": "lattice", "seed": int(ck.rng.integers(1 << 30)), "tissue": "square", "nx": 4, "ny": 3, "cells_ij": cells, "shape": name,
                          "kmin": 0, "kmax": 0, "angle": [0.0, 0.7][k % 2], "scale": [1.0, 3.0][k % 2], "shift": [0.0, 0.0],
                          "fit": ["dlite", "taubinSVD"][k % 2], "ignore_four": ig})
    lat = [(0, 0, 0.0, 1.0), (0, 0, math.pi / 2, 0.5), (2, 2, 0.0, 2.0), (1, 4, 0.0, 4.0)]
    k = 0
    for tissue in ("brick", "square"):
        for kmin, kmax, angle, scale in (lat if ck.tier == "thorough" else lat[:3]):
            for ig in (None, False, True):
                cases.append({"type": "lattice", "seed": int(ck.rng.integers(1 << 30)), "tissue": tissue,
                              "nx": int(ck.rng.integers(2, 5)), "ny": int(ck.rng.integers(2, 5)), "kmin": kmin, "kmax": kmax,
                              "angle": angle, "scale": scale, "shift": [0.0, 0.0], "fit": ["dlite", "taubinSVD"][k % 2], "ignore_four": ig})
                k += 1
    return cases


def adjust_near_axis(sc_case):
    """choose the rotation so that some tangent lies within a fraction of a degree of a coordinate axis"""
    c = dict(sc_case)
    probe = statics.build_static(dict(c, angle=0.0))
    if probe is None:
        return c
    rng = np.random.default_rng(c["seed"] + 17)
    ridges = [tuple(r) for r in probe.topo.ridges if len(probe.topo.ridges[r]) == 2]
    if not ridges:
        return c
    a, b = ridges[int(rng.integers(len(ridges)))]
    w = statics.true_direction(probe, a, b, 3)
    eps = float(rng.choice([-1, 1]) * 10.0 ** rng.uniform(-7, -3))
    c["angle"] = float(-math.atan2(w.imag, w.real) + eps + rng.integers(4) * math.pi / 2)
    return c


def axis_chord(case):
    """a curved interface whose first chord at a junction is EXACTLY parallel to a coordinate axis (the sign rule of the code then
    sees a zero component) while the circle tangent is not: the tissue is rotated so that the chord is axis-parallel up to
    rounding, then the first interior point is moved by that rounding error; of the four such poses the one is taken in which
    the tangent component along the zeroed axis is positive (in the others finding D2 applies)"""
    probe = statics.build_static(dict(case, angle=0.0))
    if probe is None:
        return None
    rng = np.random.default_rng(case["seed"] + 23)
    cand = [r for r, ids in probe.bm.ridge_points.items() if len(ids) >= 3 and len(probe.topo.ridges[r]) == 2]
    if not cand:
        return None
    cand.sort(key=lambda r: tuple(sorted(r)))
    r = cand[int(rng.integers(len(cand)))]
    a, b = sorted(r)
    if rng.integers(2):
        a, b = b, a
    def chord(sc):
        ids = sc.bm.ridge_points[r]
        ids = ids if ids[0] == sc.bm.vid_of_junction[a] else ids[::-1]
        p0, p1 = sc.bm.vertices[ids[0]], sc.bm.vertices[ids[1]]
        return p0, p1, len(ids)
    p0, p1, n = chord(probe)
    th = math.atan2(p1.y - p0.y, p1.x - p0.x)
    for k in range(4):
        c = dict(case, angle=float(-th + k * math.pi / 2))
        sc = statics.build_static(c)
        if sc is None:
            continue
        p0, p1, n = chord(sc)
        dx, dy = p1.x - p0.x, p1.y - p0.y
        t = statics.true_direction(sc, a, b, n)
        L = math.hypot(dx, dy)
        if abs(dy) < 1e-9 * L and t.imag > 1e-3:
            p1.y = p0.y
            return sc
        if abs(dx) < 1e-9 * L and t.real > 1e-3:
            p1.x = p0.x
            return sc
    return None


def run_case(ck, case, reqs, pending):
    if case.get("near_axis"):
        case = adjust_near_axis(case)
    if case["type"] == "lens":
        sc = statics.build_lens(case)
    else:
        sc = axis_chord(case) if case.get("axis_chord") else statics.build_static(case)
    if sc is None:
        ck.count("rejected_tissue")
        return
    fit, ig_opt = case.get("fit", "dlite"), case.get("ignore_four", False)
    ig = bool(ig_opt)           # None: the option is left out — the documented default keeps four-fold junctions
    try:
        statics.solve_setup(sc, fit=fit, ignore_four=ig_opt)
    except Exception as ex:
        ck.fail("the force-balance system can be assembled", f"build_force_matrix raises {type(ex).__name__}: {ex}", case)
        ck.case(case)
        return
    frame, fm, bm = sc.frame, sc.fm, sc.bm
    obs = impl.observe_frame(frame)
    earr = obs["earr"]
    cov = impl.cells_of_vertex(frame.cells)
    ncell = lambda v: len(cov.get(v, ()))
    internal = [i for i, p in enumerate(earr) if all(ncell(x) >= 2 for x in p) and (ncell(p[0]) >= 3 or ncell(p[-1]) >= 3)]
    used = [[int(x) for x in e] for e in fm.big_edges_to_use]
    M = np.array(fm.matrix, dtype=float)
    rowmap = {int(k): int(v) for k, v in fm.map_vid_to_row.items()}
    # ---------------- S: shape
    if used != [earr[i] for i in internal]:
        ck.fail("exactly one unknown per internal interface", f"{len(used)} unknowns, {len(internal)} internal interfaces", case)
    ends_at = {}
    for col, i in enumerate(internal):
        for v in {earr[i][0], earr[i][-1]}:
            ends_at.setdefault(v, []).append((col, i))
    want_rows = {v for v, lst in ends_at.items() if ncell(v) >= 3 and len(lst) >= 3 and (not ig or len(lst) < 4)}
    if set(rowmap) != want_rows:
        ck.fail("one x- and one y-equation per junction of >=3 cells and >=3 internal interfaces (ignore-four honoured), none elsewhere",
                f"missing {sorted(want_rows - set(rowmap))[:4]} extra {sorted(set(rowmap) - want_rows)[:4]}", case)
    if sorted(rowmap.values()) != list(range(0, 2 * len(rowmap), 2)) or M.shape != (2 * len(rowmap), len(used)):
        ck.fail("two rows per kept junction, one column per unknown", f"shape {M.shape}, rows {sorted(rowmap.values())[:6]}", case)
    # ---------------- S: coefficients against the closed-form tangent
    jun_of_vid = {vid: j for j, vid in bm.vid_of_junction.items()}
    cs = statics.centers(sc, fit)
    worst = 0.0
    straight = sc.mob is None
    if M.shape == (2 * len(rowmap), len(used)) and used == [earr[i] for i in internal]:
        for v, r in rowmap.items():
            expect = np.zeros((2, len(used)))
            flagged = set()
            for col, i in ends_at.get(v, []):
                ids = earr[i]
                other = ids[-1] if ids[0] == v else ids[0]
                ja, jb = jun_of_vid.get(v), jun_of_vid.get(other)
                if ja is None or jb is None:
                    continue
                t = statics.true_direction(sc, ja, jb, len(ids))
                expect[0, col], expect[1, col] = t.real, t.imag
                # finding D2: the per-component sign forcing mirrors the tangent when tangent and first chord
                # differ in a component sign
                nxt = ids[1] if ids[0] == v else ids[-2]
                ch = (frame.vertices[nxt].x - frame.vertices[v].x, frame.vertices[nxt].y - frame.vertices[v].y)
                if len(ids) > 2 and ((t.real > 0) != (ch[0] >= 0) or (t.imag > 0) != (ch[1] >= 0)):
                    flagged.add(col)
            got = M[r:r + 2, :]
            for col in range(len(used)):
                pts = len(used[col])
                is_line = straight or pts == 2
                if is_line:
                    tol = 1e-9 if pts == 2 else TOL_LINE
                else:
                    # the fit is an iterative external kernel (scipy leastsq, relative xtol 1.5e-8 on the centre): its accuracy
                    # degrades for nearly straight arcs (R/L large) and for tissues far from the origin (|coords|/L large);
                    # measured worst deviations: 5e-5 at R/L = 4e3, 2.5e-6 at |coords|/L = 3e3 (DESIGN.md §3)
                    P = np.array([[frame.vertices[i].x, frame.vertices[i].y] for i in used[col]])
                    L = float(np.linalg.norm(P[0] - P[-1]))
                    R = float(np.hypot(P[0, 0] - cs[earr.index(used[col])][0], P[0, 1] - cs[earr.index(used[col])][1]))
                    far = float(np.max(np.abs(P))) / L
                    tol = TOL_ARC * max(1.0, R / L / 10.0, far / 100.0 if fit == "dlite" else 0.0) + (0.0 if fit == "dlite" else 1e-13 * far)
                dev = float(np.max(np.abs(got[:, col] - expect[:, col])))
                worst = max(worst, dev if col not in flagged else 0.0)
                if dev > tol:
                    ck.fail("coefficient pair = unit tangent of the interface's circle/line at the junction, pointing along it; zero elsewhere",
                            f"junction {v}, unknown {col} ({pts} points): got {got[:, col].tolist()} want {expect[:, col].tolist()}",
                            case, signature=SIG_D2 if col in flagged else (physical.SIG_FIT if col in physical.unconverged_fits(frame, used, fit) else None))
                    if col in flagged:
                        ck.count("d2_mirrored_coefficients")
    ck.count("coeff_checked", len(rowmap) * len(used))
    ck.dist["worst_coeff_dev"] = max(ck.dist.get("worst_coeff_dev", 0.0), worst)
    # ---------------- S: the same system again after the frame has served a build with a finite angle limit
    try:
        kw = {} if ig_opt is None else {"metadata": {"ignore_four": ig_opt}}
        impl.quiet(sc.forsys.build_force_matrix, when=0, circle_fit_method=fit, angle_limit=0.7 * math.pi, **kw)
        impl.quiet(sc.forsys.build_force_matrix, when=0, circle_fit_method=fit, **kw)
        fm2 = sc.forsys.force_matrices[0]
        M2 = np.array(fm2.matrix, dtype=float)
        if [[int(x) for x in e] for e in fm2.big_edges_to_use] != used or M2.shape != M.shape or np.any(M2 != M) \
                or {int(a): int(b) for a, b in fm2.map_vid_to_row.items()} != rowmap:
            ck.fail("exactly one unknown per internal interface (every time the system is assembled on the frame)",
                    f"after a build with angle_limit=0.7 pi the default build gives {M2.shape} instead of {M.shape}", case)
        ck.count("reassembled_after_angle_limited_build")
    except Exception as ex:
        ck.fail("the force-balance system can be assembled again", f"{type(ex).__name__}: {str(ex)[:100]}", case)
    # ---------------- K
    reqs.append({"op": "fmatrix", "mesh": mesh_json(frame.vertices, frame.edges, frame.cells),
                 "centers": [[rat(x), rat(y)] for x, y in cs], "cos": None, "ignoreFour": ig})
    pending.append((case, earr, used, sorted(int(x) for x in fm.deletes), rowmap, M))
    ck.case(case, nontrivial=len(rowmap) > 0,
            sample=({"case": case, "unknowns": len(used), "junction_rows": len(rowmap), "interfaces": len(earr)} if len(ck.samples) < 3 else None))
    ck.count("cases_" + case["type"]); ck.count("fit_" + fit); ck.count("ignore_four_" + str(ig_opt))
    ck.count("unknowns", len(used)); ck.count("kept_junctions", len(rowmap))
    ck.count("two_point_internal", sum(1 for u in used if len(u) == 2))
    ck.count("mobius" if sc.mob is not None else "straight")
    return sc


def compare(ck, case, earr, used, deletes, rowmap, M, resp):
    if resp["earr"] != earr:
        ck.disagree("interfaces", "big_edges_list differs", case); return
    if resp["used"] != used:
        ck.disagree("big_edges_to_use", f"model {len(resp['used'])} impl {len(used)}", case); return
    if sorted(resp["deletes"]) != deletes:
        ck.disagree("deletes", f"model {resp['deletes']} impl {deletes}", case); return
    kept_model = {int(r[0]) for r in resp["rows"] if r[1]}
    if kept_model != set(rowmap):
        ck.disagree("kept junctions", f"model-only {sorted(kept_model - set(rowmap))[:4]} impl-only {sorted(set(rowmap) - kept_model)[:4]}", case); return
    for vid, kept, row in resp["rows"]:
        if not kept:
            continue
        r = rowmap[int(vid)]
        for col, ent in enumerate(row):
            gx, gy = M[r, col], M[r + 1, col]
            if ent is None:
                if gx != 0 or gy != 0:
                    ck.disagree("zero pattern", f"junction {vid} col {col}: impl {(gx, gy)} model zero", case); return
                continue
            vx, vy = unrat(ent[0]), unrat(ent[1])
            if (vx == 0) != (gx == 0) or (vy == 0) != (gy == 0):
                ck.disagree("zero pattern", f"junction {vid} col {col}: impl {(gx, gy)} model {(float(vx), float(vy))}", case); return
            n = math.sqrt(float(vx * vx + vy * vy))
            if abs(float(vx) / n - gx) > 1e-9 or abs(float(vy) / n - gy) > 1e-9:
                ck.disagree("coefficient", f"junction {vid} col {col}: impl {(gx, gy)} model {(float(vx) / n, float(vy) / n)}", case); return


def run(ck):
    ck.rule = ("Voronoi tissues (random/jittered/hexagonal) and connected sub-tissues, straight or Moebius-mapped (exact arcs), "
               "0..15 interior points per ridge (uniform or random spacing), random rotation — one third of the cases rotated so that "
               "a tangent lies within 1e-7..1e-3 rad of an axis —, scale 1e-2..1e2, random cycle shifts/orientations/ids, both "
               "circle-fit methods, ignore_four on/off; exact axis-aligned brick (T-junctions) and square (4-fold) lattices. "
               "Non-trivial = at least one junction row; distinct = distinct parameters")
    ck.assumptions = ["circle fit (scipy leastsq / circle_fit.taubinSVD) is an external kernel: the model takes its centre as input",
                      "tolerances: 1e-6 for arcs, 2e-3 for collinear points (the fit approximates a line by a far centre), 1e-9 for two-point interfaces",
                      "final normalisation v/||v|| uses IEEE sqrt (trusted)"]
    cases = [ck.replaying["case"]] if ck.replaying else gen_cases(ck)
    reqs, pending, keep = [], [], []
    for case in cases:
        keep.append(ck.guard(case, run_case, ck, case, reqs, pending))
    resps = ck.driver(reqs)
    for (case, earr, used, deletes, rowmap, M), resp in zip(pending, resps):
        compare(ck, case, earr, used, deletes, rowmap, M, resp)
