"""C11 — mesh resampling keeps junctions, topology and interface shape.

K: virtual_edges.generate_mesh of the real code vs. the Lean model `Mesh.generateMesh` on the same dump — the three
   dictionaries (ids, coordinates, ownEdges/ownCells lists, cycles), nEdgeArray and the error kind, exactly.
S: every clause of the property on (snapshot before, result): junctions of >=3 cells keep id and position, cells with a
   junction and cell-cell adjacencies survive, every reported interface is an ordered subsequence with both ends and
   <= ne+1 points (unchanged when short), two-point border interfaces contracted to their midpoint, cycles are cyclic
   subsequences, a second resampling changes nothing.
"""
import os
import numpy as np

import gen
import impl
from core import REPO
from dump import mesh_json, mesh_snapshot, canon_path, unrat

import forsys as fs
import forsys.virtual_edges as ve


def build_case(ck, case):
    rng = np.random.default_rng(case["seed"])
    if case["type"] == "fixture":
        path = os.path.join(REPO, case["path"])
        if path.endswith(".dmp"):
            se = impl.quiet(fs.surface_evolver.SurfaceEvolver, path)
            return se.vertices, se.edges, se.cells
        sk = impl.quiet(fs.skeleton.Skeleton, path)
        return impl.quiet(sk.create_lattice)
    topo = gen.voronoi_topo(rng, case["sites"], case["kind"])
    if topo is None or topo.ncells() < 2:
        return None
    sub = None
    if case.get("subset"):
        sub = gen.connected_subsets(topo, rng, max(2, int(round(topo.ncells() * case["subset"]))))
        if case.get("lone_cell"):
            # plus a cell that shares no vertex with the others: a cell without any junction (the code drops it with a warning)
            used_j = {j for c_ in sub for j in topo.cells[c_]}
            lone = sorted(c_ for c_ in range(topo.ncells()) if c_ not in sub and not (set(topo.cells[c_]) & used_j))
            if lone:
                sub = list(sub) + [lone[int(rng.integers(len(lone)))]]
    kmin, kmax = case.get("kmin", 0), case.get("kmax", 40)
    ks = {}
    def k_of(r):
        if r not in ks:
            ks[r] = int(rng.integers(kmin, kmax + 1))
        return ks[r]
    sim = gen.Similarity(angle=float(rng.uniform(0, 6.28)), scale=float(10.0 ** rng.integers(-1, 3)),
                         shift=complex(*(case.get("shift", (0.0, 0.0)))))
    mob = gen.Mobius.random(rng, topo) if case.get("mobius") else None
    rev = [c for c in range(topo.ncells()) if rng.random() < 0.3]
    bm = gen.build_mesh(topo, sub, rng=rng, param_mode="random", k_of_ridge=k_of, reverse_cells=rev, mobius=mob, sim=sim,
                        vmap=(lambda i: 3 * i + 1) if case.get("relabel") else None, center_method="mean")
    return bm.vertices, bm.edges, bm.cells


def is_cyclic_subseq(new, old):
    """new (list) is a subsequence of some rotation of old"""
    if not new:
        return True
    n = len(old)
    for s in range(n):
        if old[s] != new[0]:
            continue
        rot = old[s:] + old[:s]
        it = iter(rot)
        if all(any(x == y for y in it) for x in new):
            return True
    return False


def is_subseq(new, old):
    it = iter(old)
    return all(any(x == y for y in it) for x in new)


def cell_pairs(cells_snap):
    """cell-to-cell adjacency in the code's own sense (Cell.calculate_neighbors): two cells sharing a vertex"""
    by_v = {}
    for cid, cyc in cells_snap.items():
        for a in cyc:
            by_v.setdefault(a, set()).add(cid)
    adj = set()
    for cs in by_v.values():
        cs = sorted(cs)
        for i in range(len(cs)):
            for j in range(i + 1, len(cs)):
                adj.add(frozenset((cs[i], cs[j])))
    return adj


def chain_signature(bedges, before, ne):
    """finding D17: two two-point border interfaces that are candidates for merging share a vertex (a chain)"""
    ncell = {k: len(v[3]) for k, v in before["v"].items()}
    cand = [e for e in bedges if len(e) <= ne and len(e) == 2 and ncell[e[0]] < 3 and ncell[e[1]] < 3]
    seen = {}
    for e in cand:
        for v in e:
            seen[v] = seen.get(v, 0) + 1
    return any(n > 1 for n in seen.values()), len(cand)


def run_one(ck, case, reqs, pending):
    built = build_case(ck, case)
    if built is None:
        ck.count("rejected")
        return
    v, e, c = built
    ne, replace = case["ne"], case["replace"]
    before = mesh_snapshot(v, e, c)
    bedges = [[int(x) for x in p] for p in ve.create_edges_new(v, c)]
    dump_before = mesh_json(v, e, c)
    ncell = {k: len(val[3]) for k, val in before["v"].items()}
    chain, ncand = chain_signature(bedges, before, ne)
    err = None
    try:
        v2, e2, c2, narr = impl.quiet(ve.generate_mesh, v, e, c, ne=ne, replace_short_edges=replace)
    except Exception as ex:
        err = type(ex).__name__
    ck.count("ne_%d" % ne); ck.count("replace_on" if replace else "replace_off")
    ck.count("merge_candidates", ncand if replace else 0)
    if err is not None:
        sig = "merge-chain-of-two-point-border-interfaces" if (replace and chain) else None
        ck.fail("generate_mesh completes", f"raises {err}", case, signature=sig)
        ck.count("raised_" + err)
        reqs.append({"op": "genmesh", "mesh": dump_before, "ne": ne, "replace": replace})
        pending.append((case, None, err, None))
        ck.case(case, sample=None)
        return
    after = mesh_snapshot(v2, e2, c2)
    narr = [[int(x) for x in p] for p in narr]
    if len({canon_path(p) for p in narr}) != len(narr):
        # two different interfaces joining the same two junctions collapse onto one vertex list (ne too small for the
        # mesh to stay a polygonal complex): outside the property's domain, counted
        ck.count("rejected_parallel_interfaces_collapse")
        return
    merged = replace and ncand > 0
    # ---- S: the property on (before, after)
    # interfaces
    if len(narr) != len(bedges):
        ck.fail("one resampled interface per original interface", f"{len(narr)} vs {len(bedges)}", case)
    for old, new in zip(bedges, narr):
        if not is_subseq(new, old) or new[0] != old[0] or new[-1] != old[-1]:
            ck.fail("each interface is replaced by an ordered subsequence retaining both ends", f"{old} -> {new}", case); break
        if len(new) > ne + 1:
            ck.fail("at most ne+1 points per interface", f"{len(new)} points, ne={ne}", case); break
        if len(old) <= ne and new != old:
            ck.fail("interfaces already that short are unchanged", f"{old} -> {new}", case); break
        if len(old) > ne and len(new) != ne + 1:
            ck.fail("longer interfaces get ne+1 points", f"{len(old)} -> {len(new)}, ne={ne}", case); break
    # junctions of >=3 cells keep id and exact position
    for vid, val in before["v"].items():
        if ncell[vid] >= 3:
            if vid not in after["v"] or after["v"][vid][0] != val[0] or after["v"][vid][1] != val[1]:
                ck.fail("junctions shared by three or more cells keep their exact position", f"vertex {vid}", case); break
    # cells with a junction kept; adjacency kept
    junction_ids = {p[0] for p in bedges} | {p[-1] for p in bedges}
    for cid, cyc in before["c"].items():
        if any(x in junction_ids for x in cyc) and cid not in after["c"]:
            ck.fail("every cell that has a junction is kept", f"cell {cid}", case); break
    if not cell_pairs(before["c"]) <= cell_pairs(after["c"]):
        ck.fail("every cell-to-cell adjacency is kept", f"lost {list(cell_pairs(before['c']) - cell_pairs(after['c']))[:3]}", case)
    # cycles: cyclic subsequences (merged vertices are mapped back to their originals)
    # merged vertices get `get_unused_id`, which may re-use the id of a vertex deleted by an earlier merge:
    # a vertex is "new" when its id is new or its coordinates are not the original ones
    new_ids = [k for k in after["v"] if k not in before["v"] or after["v"][k][:2] != before["v"][k][:2]]
    if new_ids and not merged:
        ck.fail("no new vertex appears without merging", f"{new_ids[:3]}", case)
    if not new_ids:
        for cid, cyc in after["c"].items():
            if not is_cyclic_subseq(cyc, before["c"][cid]):
                ck.fail("every cell's vertex cycle is a cyclic subsequence of its original cycle", f"cell {cid}: {before['c'][cid]} -> {cyc}", case); break
    else:
        # two-point border interfaces contracted to their midpoint
        kept_pairs = [p for p in narr if len(p) == 2 and ncell[p[0]] < 3 and ncell[p[1]] < 3]
        if not chain:
            mids = {(0.5 * (before["v"][a][0] + before["v"][b][0]), 0.5 * (before["v"][a][1] + before["v"][b][1])): (a, b) for a, b in kept_pairs}
            for k in new_ids:
                x, y = after["v"][k][0], after["v"][k][1]
                hit = [m for m in mids if abs(m[0] - x) <= 1e-12 * (1 + abs(x)) and abs(m[1] - y) <= 1e-12 * (1 + abs(y))]
                if not hit:
                    ck.fail("a two-point border interface is contracted to its midpoint", f"new vertex {k} at {(x, y)} is no midpoint", case); break
            for a, b in kept_pairs:
                if (a in after["v"] and a not in new_ids) or (b in after["v"] and b not in new_ids):
                    ck.fail("a two-point border interface is contracted to its midpoint", f"end {a} or {b} survives", case); break
            if len(new_ids) != len(kept_pairs):
                ck.fail("a two-point border interface is contracted to its midpoint", f"{len(kept_pairs)} such interfaces, {len(new_ids)} new vertices", case)
            ck.count("midpoint_checked", len(new_ids))
    # ---- idempotence
    snap1 = mesh_snapshot(v2, e2, c2)
    chain2, ncand2 = chain_signature([[int(x) for x in p] for p in ve.create_edges_new(v2, c2)], snap1, ne)
    try:
        v3, e3, c3, narr3 = impl.quiet(ve.generate_mesh, v2, e2, c2, ne=ne, replace_short_edges=replace)
        snap2 = mesh_snapshot(v3, e3, c3)
        same = ({k: val[:2] for k, val in snap1["v"].items()} == {k: val[:2] for k, val in snap2["v"].items()}
                and snap1["c"] == snap2["c"]
                and sorted(canon_path(p) for p in snap1["e"].values()) == sorted(canon_path(p) for p in snap2["e"].values()))
        if same:
            # ... nor the edges a vertex is attached to: what each vertex lists (resolved to end points; ids are renumbered by every
            # pass) and how many entries it lists
            def attached(snap):
                return {k: (len(val[2]), sorted(canon_path(snap["e"][q]) for q in val[2] if q in snap["e"])) for k, val in snap["v"].items()}
            a1, a2 = attached(snap1), attached(snap2)
            if a1 != a2:
                bad_ = [k for k in a1 if a1[k] != a2.get(k)][:3]
                ck.fail("resampling an already resampled mesh changes nothing", f"the mesh edges listed by vertices {bad_} differ after the second pass: "
                        f"{[a1[k] for k in bad_][:2]} vs {[a2.get(k) for k in bad_][:2]}", case,
                        signature="merge-chain-of-two-point-border-interfaces" if (replace and chain) else None)
        if not same:
            sig = "second-pass-merges-new-two-point-border-interfaces" if (replace and ncand2 > 0) else None
            only_duplicate_edges = ({k: val[:2] for k, val in snap1["v"].items()} == {k: val[:2] for k, val in snap2["v"].items()}
                                    and snap1["c"] == snap2["c"]
                                    and {canon_path(p) for p in snap1["e"].values()} == {canon_path(p) for p in snap2["e"].values()})
            if sig is None and replace and chain and only_duplicate_edges:
                # the first pass itself merged a chain (finding D17): it may leave two mesh edges joining the same pair, which the
                # second pass rebuilds as one
                sig = "merge-chain-of-two-point-border-interfaces"
            ck.fail("resampling an already resampled mesh changes nothing", "second pass differs", case, signature=sig)
        v2, e2, c2 = v3, e3, c3
    except Exception as ex:
        sig = "merge-chain-of-two-point-border-interfaces" if (replace and ncand2 > 0) else None
        ck.fail("resampling an already resampled mesh changes nothing", f"second pass raises {type(ex).__name__}", case, signature=sig)
    # ---- K
    reqs.append({"op": "genmesh", "mesh": dump_before, "ne": ne, "replace": replace})
    pending.append((case, after, None, narr))
    ck.case(case, nontrivial=any(len(o) > ne for o in bedges),
            sample=({"case": case, "interfaces": len(bedges), "longest": max((len(o) for o in bedges), default=0),
                     "first": [bedges[0], narr[0]] if bedges else None} if len(ck.samples) < 3 else None))
    ck.count("interfaces", len(bedges)); ck.count("resampled_interfaces", sum(1 for o in bedges if len(o) > ne))
    return v2, e2, c2


def compare(ck, case, after, err, narr, resp):
    merr = resp["error"]
    if err is not None:
        want = {"KeyError": "SegmentationArtifactException"}.get(merr, merr)
        if merr is None or (want != err and not (merr == "IndexError" and err in ("IndexError", "ValueError"))):
            ck.disagree("error kind", f"model {merr} impl raises {err}", case)
        return
    if merr is not None:
        ck.disagree("error kind", f"model {merr} impl completes", case)
        return
    if resp["nEdgeArray"] != narr:
        ck.disagree("nEdgeArray", "differs", case); return
    mv = {int(r[0]): (int(r[1]), float(unrat(r[2])), float(unrat(r[3])), r[4], r[5]) for r in resp["mesh"]["v"]}
    iv = {k: (k, val[0], val[1], val[2], val[3]) for k, val in after["v"].items()}
    if list(mv.keys()) != list(iv.keys()):
        ck.disagree("vertex keys/order", f"model {list(mv)[:8]} impl {list(iv)[:8]}", case); return
    for k in mv:
        # coordinates of merged vertices are a float mean in the code and an exact mean in the model: 1e-12 relative
        a, b = mv[k], iv[k]
        same = a[0] == b[0] and a[3] == b[3] and a[4] == b[4] and \
            abs(a[1] - b[1]) <= 1e-12 * (abs(b[1]) + 1e-300) and abs(a[2] - b[2]) <= 1e-12 * (abs(b[2]) + 1e-300)
        if not same:
            ck.disagree("vertex", f"{k}: model {mv[k]} impl {iv[k]}", case); return
    me = {int(r[0]): (int(r[2]), int(r[3])) for r in resp["mesh"]["e"]}
    if me != after["e"] or list(me.keys()) != list(after["e"].keys()):
        ck.disagree("mesh edges", "differ", case); return
    mc = {int(r[0]): r[2] for r in resp["mesh"]["c"]}
    if mc != after["c"] or list(mc.keys()) != list(after["c"].keys()):
        bad = [k for k in mc if mc.get(k) != after["c"].get(k)]
        ck.disagree("cells", f"differ at {bad[:3]}", case); return


def run(ck):
    ck.rule = ("Voronoi tissues and connected sub-tissues with 0..40 random interior points per ridge (some through a Moebius map), "
               "rotated/scaled/shifted to negative coordinates, the shipped Surface Evolver dumps and skeleton; ne in 1..12, "
               "replace_short_edges on/off. Non-trivial = at least one interface longer than ne; distinct = distinct parameters")
    ck.assumptions = ["int(len(e)/ne*i) in float arithmetic equals floor(len*i/ne) (self-test below)",
                      "CPython finalises a SmallEdge as soon as the edges dict is cleared (no other references are held)"]
    # self-test of the one place where float arithmetic feeds an index
    bad = 0
    for n in range(1, 800 if ck.tier == "quick" else 3000):
        for ne in range(1, 13):
            for i in range(ne):
                if int(n / ne * i) != (n * i) // ne:
                    bad += 1
    if bad:
        ck.disagree("index rule", f"int(len/ne*i) differs from floor(len*i/ne) in {bad} cases", {"type": "index-selftest"})
    ck.count("index_rule_cases_checked", (799 if ck.tier == "quick" else 2999) * 78)
    if ck.replaying:
        cases = [ck.replaying["case"]]
    else:
        cases = ck.corpus_cases()
        n = 24 if ck.tier == "quick" else 160
        for i in range(n):
            kr = [(1, 40), (0, 2), (3, 12), (1, 6), (0, 0)][int(ck.rng.integers(5))]
            cases.append({"type": "voronoi", "seed": int(ck.rng.integers(1 << 30)), "sites": int(ck.rng.integers(10, 30)),
                          "kind": ["random", "jitter", "hex"][int(ck.rng.integers(3))],
                          "subset": [None, 0.6, 0.3][int(ck.rng.integers(3))],
                          "kmin": kr[0], "kmax": kr[1], "ne": int(ck.rng.integers(1, 13)),
                          "replace": bool(ck.rng.integers(2)), "mobius": bool(ck.rng.integers(5) == 0),
                          "relabel": bool(ck.rng.integers(2)),
                          "shift": [(0.0, 0.0), (-500.0, -300.0)][int(ck.rng.integers(2))]})
        for i in range(4 if ck.tier == "quick" else 24):
            cases.append({"type": "voronoi", "seed": int(ck.rng.integers(1 << 30)), "sites": int(ck.rng.integers(20, 34)), "kind": ["random", "jitter", "hex"][i % 3],
                          "subset": 0.3, "lone_cell": True, "kmin": [0, 2][i % 2], "kmax": 8, "ne": int(ck.rng.integers(2, 9)), "replace": bool(i % 2),
                          "mobius": False, "relabel": bool(i % 2), "shift": (0.0, 0.0)})
        for ne in ([6] if ck.tier == "quick" else [2, 4, 6, 9]):
            cases.append({"type": "fixture", "seed": 0, "path": "tests/data/test_nonzero.tif", "ne": ne, "replace": True})
            cases.append({"type": "fixture", "seed": 0, "path": "tests/data/initial_furrow.dmp", "ne": ne, "replace": True})
    reqs, pending = [], []
    keep = []
    for case in cases:
        keep.append(ck.guard(case, run_one, ck, case, reqs, pending))
    resps = ck.driver(reqs)
    for (case, after, err, narr), resp in zip(pending, resps):
        compare(ck, case, after, err, narr, resp)
