"""C07 — results do not depend on labels, storage order or cell orientation.

One physical tissue is stored in several ways (variants): vertex / edge / cell ids renumbered (non-contiguous, not starting at 0),
every cell's vertex list started at another vertex, any subset of cells stored in the opposite rotational sense, cells inserted
in another construction order.  For all variants:
S: the set of internal interfaces (as physical ridges), the equations (coefficient pairs keyed by physical junction and
   interface), the tensions per physical interface and the pressures per physical cell agree with the reference storage.
K: per variant, Frame construction against the Lean model (the interface lists exactly, as in C08) — so that the theorems
   cellPaths_rotate / cellPaths_reverse / cellPaths_map / dedup_invariant are tied to what the code builds.
"""
import math
import numpy as np

import impl
import physical
import statics
from dump import mesh_json, canon_path


def gen_cases(ck):
    cases = ck.corpus_cases()
    n = 10 if ck.tier == "quick" else 70
    for i in range(n):
        mob = bool(ck.rng.integers(3) != 0)
        cases.append({"type": "tissue", "seed": int(ck.rng.integers(1 << 30)), "tissue": ["random", "jitter", "hex"][int(ck.rng.integers(3))],
                      "sites": int(ck.rng.integers(18, 44)), "subset": [None, None, 0.7][int(ck.rng.integers(3))], "min_ridge": 0.005,
                      "mobius": mob, "strength": float(ck.rng.uniform(0.4, 2.0)), "kmin": 1 if mob else 0, "kmax": int(ck.rng.choice([3, 9])),
                      "param_mode": "random", "angle": float(ck.rng.uniform(0, 6.28)), "scale": float(10.0 ** ck.rng.uniform(-1, 1)),
                      "fit": ["dlite", "taubinSVD"][int(ck.rng.integers(2))], "nvariants": 3 if ck.tier == "quick" else 5,
                      "angle_limit": float(ck.rng.uniform(0.7, 0.95) * math.pi)})
    for i in range(4 if ck.tier == "quick" else 24):
        # a cell with all its neighbours plus one cell hanging by a single interface (it touches no internal interface): stored last
        # in the reference storage, first in every second variant
        mob = bool(i % 2)
        cases.append({"type": "tissue", "seed": int(ck.rng.integers(1 << 30)), "tissue": ["random", "jitter", "hex"][i % 3], "sites": int(ck.rng.integers(30, 50)),
                      "subset": None, "flower": True, "flower_plus": True, "hang_first": True, "min_ridge": 0.005, "mobius": mob,
                      "strength": float(ck.rng.uniform(0.4, 1.5)), "kmin": 2 if mob else 0, "kmax": 5, "param_mode": "random",
                      "angle": float(ck.rng.uniform(0, 6.28)), "scale": float(10.0 ** ck.rng.uniform(-1, 1)), "fit": ["dlite", "taubinSVD"][i % 2],
                      "nvariants": 4 if ck.tier == "quick" else 6})
    for i in range(4 if ck.tier == "quick" else 24):
        # tissues with junctions where four cells meet (which of the four interfaces a junction lists first depends on the storage)
        mob = bool(i % 2)
        cases.append({"type": "tissue", "seed": int(ck.rng.integers(1 << 30)), "tissue": ["quad", "quad2"][(i // 2) % 2], "sites": int(ck.rng.integers(18, 40)),
                      "subset": None, "min_ridge": 0.005, "mobius": mob, "strength": float(ck.rng.uniform(0.4, 1.5)), "kmin": 1 if mob else 0,
                      "kmax": int(ck.rng.choice([0, 3])) if not mob else 3, "param_mode": "random", "angle": float(ck.rng.uniform(0, 6.28)),
                      "scale": float(10.0 ** ck.rng.uniform(-1, 1)), "fit": ["dlite", "taubinSVD"][i % 2], "nvariants": 4 if ck.tier == "quick" else 6,
                      "angle_limit": float(ck.rng.uniform(0.7, 0.95) * math.pi)})
    return cases


def variant(case, k):
    c = dict(case)
    if k == 0:
        c.update({"p_rev": 0.0, "shifts": False, "relabel": False, "shuffle_cells": False, "variant": 0})
    else:
        c.update({"p_rev": [0.5, 1.0, 0.3, 0.7][k % 4], "shifts": True, "relabel": bool(k % 2), "shuffle_cells": bool((k // 2) % 2 == 0), "variant": k})
    return c


def run_case(ck, case, reqs, pending):
    fit = case.get("fit", "dlite")
    ref = None
    for k in range(case["nvariants"]):
        c = variant(case, k)
        sc = statics.build_static(c)
        if sc is None:
            ck.count("rejected_tissue"); return
        try:
            ph = physical.run_static(sc, fit=fit, pressure=True)
        except ValueError as ex:
            # finding D27 (C08): a two-point interface on the rim of the tissue whose two ends are junctions of three or more cells
            # (only with four-fold junctions) is classified internal although it borders one cell; the pressure step then raises
            if "own_cells=1" not in str(ex):
                raise
            sc2 = statics.build_static(c)
            ph2 = physical.run_static(sc2, fit=fit, pressure=False, solve=False)
            rim = []
            for be in ph2.frame.internal_big_edges:
                ids = [int(x) for x in be.get_vertices_ids()]
                if len(ids) == 2 and len(be.own_cells) == 1:
                    along = [cid for cid, cl in ph2.frame.cells.items()
                             if any({int(a.id), int(b.id)} == set(ids) for a, b in zip(cl.vertices, cl.vertices[1:] + cl.vertices[:1]))]
                    if len(along) == 1:
                        rim.append(ids)
            ck.fail("the implementation completes on an input inside the property's domain", f"variant {k}: {type(ex).__name__}: {str(ex)[:80]}; "
                    f"two-point rim interfaces classified internal: {rim[:3]}", c, signature="two-point-rim-interface-between-multi-cell-junctions" if rim else None)
            ck.case(case, nontrivial=False)
            return
        if ph.tension is None:
            ck.count("rejected_no_equations"); return
        tabdev = max((abs(ph.pressure_table.get(cc, float("nan")) - v) for cc, v in ph.pressure.items()), default=0.0)
        if set(ph.pressure_table) != set(ph.pressure) or not tabdev <= 1e-12 * (1.0 + max((abs(v) for v in ph.pressure.values()), default=0.0)):
            ck.fail("the same pressure for every physical cell", f"variant {k}: the pressure table lists another value for a cell than the cell carries "
                    f"(max deviation {tabdev:.3g})", c)
            ck.case(case); return
        ifaces = sorted(tuple(sorted(r)) for r in ph.ridges)
        res = {"ifaces": ifaces, "coefs": ph.coefs, "tension": ph.tension, "pressure": ph.pressure, "wellposed": ph.wellposed,
               "sigma": ph.sigma, "removed": ph.removed_cells, "coef_tol": physical.coef_tolerance(sc, ph, fit)}
        # |tension x turning| of the pressure equation of every physical interface (its sign convention goes with the cell order)
        res["turning"] = {}
        for be in ph.frame.internal_big_edges:
            rg = ph.ridge_of([int(x) for x in be.get_vertices_ids()])
            if rg is not None:
                res["turning"][rg] = abs(float(impl.quiet(be.calculate_total_curvature, normalized=False)))
        # the unknowns that remain under a finite angle limit (which junctions are flagged must not depend on the storage either)
        lim = case.get("angle_limit")
        if lim is not None:
            used_lim = []
            for dl in (-1e-6, 0.0, 1e-6):
                impl.quiet(ph.forsys.build_force_matrix, when=0, circle_fit_method=fit, angle_limit=lim + dl)
                used_lim.append(sorted(tuple(sorted(ph.ridge_of([int(x) for x in e]) or ())) for e in ph.forsys.force_matrices[0].big_edges_to_use))
            res["used_lim"] = used_lim[1]
            res["lim_stable"] = used_lim[0] == used_lim[1] == used_lim[2]
        # K: interface lists of this storage against the model
        reqs.append({"op": "frame", "mesh": mesh_json(ph.frame.vertices, ph.frame.edges, ph.frame.cells)})
        pending.append((dict(c), impl.observe_frame(ph.frame)))
        if k == 0:
            ref = res
            continue
        tag = f"variant {k} (p_rev={c['p_rev']}, shifts={c['shifts']}, relabel={c['relabel']}, shuffle_cells={c['shuffle_cells']})"
        if res["ifaces"] != ref["ifaces"]:
            ck.fail("the same set of internal interfaces", f"{tag}: {len(res['ifaces'])} vs {len(ref['ifaces'])}", c); continue
        if lim is not None and res["lim_stable"] and ref["lim_stable"] and res["used_lim"] != ref["used_lim"]:
            ck.fail("the same unknowns remain under a finite angle limit", f"{tag}: {len(res['used_lim'])} vs {len(ref['used_lim'])} at limit {lim:.4f}", c); continue
        if lim is not None:
            ck.count("angle_limited_unknowns_compared" if (res["lim_stable"] and ref["lim_stable"]) else "angle_limit_within_1e-6_of_a_junction_angle")
        dturn = max((abs(res["turning"][r] - ref["turning"][r]) / (1e-9 + abs(ref["turning"][r])) for r in ref["turning"] if r in res["turning"]), default=0.0)
        if set(res["turning"]) != set(ref["turning"]) or dturn > 1e-7:
            ck.fail("the same pressure equations (turning of every physical interface, up to the sign convention)", f"{tag}: relative deviation {dturn:.3g}", c); continue
        if set(res["coefs"]) != set(ref["coefs"]):
            ck.fail("the same equations (junctions with an equation, interfaces in it)", f"{tag}: keys differ", c); continue
        dev = max((max(abs(a - b) for a, b in zip(res["coefs"][key], ref["coefs"][key])) for key in ref["coefs"]), default=0.0)
        # the circle fit is an iterative / ill-conditioned external kernel: on exactly collinear points its centre depends on the
        # order of the points at the level of the closed-form tolerance (2e-3 for lines, 1e-6-scaled for arcs, 1e-9 for two points)
        ctol = 2 * max(res["coef_tol"], ref["coef_tol"])
        if dev > ctol:
            ck.fail("the same equations (coefficient pairs per physical junction and interface)", f"{tag}: max deviation {dev:.3g}", c); continue
        if ref["wellposed"]:
            nun = len(ref["tension"])
            tol = (1e-8 + 2 * ctol * math.sqrt(nun) * max(abs(v) for v in ref["tension"].values())) / ref["sigma"][0]
            dt = max(abs(res["tension"][r] - ref["tension"][r]) for r in ref["tension"])
            if dt > tol:
                ck.fail("the same tension for every physical interface", f"{tag}: max deviation {dt:.3g} (tolerance {tol:.3g})", c); continue
            scale = max(abs(v) for v in ref["pressure"].values()) + 1e-3
            dp = max(abs(res["pressure"][cc] - ref["pressure"][cc]) for cc in ref["pressure"])
            if res["removed"] != ref["removed"] or dp > (1e-7 + 20 * tol) * scale:
                ck.fail("the same pressure for every physical cell", f"{tag}: max deviation {dp:.3g}", c); continue
            ck.count("variants_compared_fully")
        else:
            ck.count("variants_compared_equations_only")
    ck.case(case, nontrivial=True, sample=({"case": case, "interfaces": len(ref["ifaces"]), "equation_coefficients": len(ref["coefs"])} if len(ck.samples) < 3 else None))
    return ref


def run(ck):
    ck.rule = ("Voronoi / Moebius tissues and sub-tissues; per tissue a reference storage and 2 (quick) or 4 (thorough) variants combining: per-cell "
               "reversal (30 %..100 % of the cells), random cyclic shifts of every cycle, affine renumbering of vertex / edge / cell ids with "
               "gaps and offsets, shuffled construction order of the cells. Non-trivial = every tissue; distinct = parameters")
    ck.assumptions = ["tensions and pressures are compared on well-posed systems only (tolerance 1e-8/sigma_min); equations and interface sets always",
                      "cells are inserted into the dictionary in construction order, as every parser does"]
    cases = [ck.replaying["case"]] if ck.replaying else gen_cases(ck)
    reqs, pending, keep = [], [], []
    for case in cases:
        keep.append(ck.guard(case, run_case, ck, case, reqs, pending))
    resps = ck.driver(reqs)
    for (c, obs), resp in zip(pending, resps):
        for key in ("earr", "internalIdx", "extFlags"):
            if resp[key] != obs[key]:
                ck.disagree("frame construction: " + key, "model and implementation differ", c); break
