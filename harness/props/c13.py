"""C13 — velocities are finite differences of tracked vertices over real elapsed time.

K: TimeSeries.calculate_velocity for every vertex of every frame and the right-hand side of set_velocity_matrix vs. the Lean
   model (`calculateVelocity` on the real mapping dictionaries, `placeVelocities`): velocities at 1e-12 relative (the code
   divides in floating point), placement exactly.
S: independent finite differences from the known successor table and the time stamps (forward, backward at the last frame,
   zero for untracked vertices), row placement through map_vid_to_row, normalisation by the mean junction speed, and
   ForSys.get_system_velocity_per_frame.
"""
import math
import numpy as np

import impl
import series as ser
from dump import rat, unrat

import forsys as fs


def gen_cases(ck):
    cases = ck.corpus_cases()
    n = 14 if ck.tier == "quick" else 100
    for i in range(n):
        cases.append({"type": "series", "seed": int(ck.rng.integers(1 << 30)), "tissue": ["random", "jitter", "hex"][int(ck.rng.integers(3))],
                      "sites": int(ck.rng.integers(12, 28)), "subset": [None, 0.7][int(ck.rng.integers(2))], "min_ridge": 0.01,
                      "mobius": bool(ck.rng.integers(3) == 0), "kmin": 1, "kmax": 4, "angle": float(ck.rng.uniform(0, 6.28)),
                      "scale": float(10.0 ** ck.rng.uniform(-1, 2)), "shift": [float(ck.rng.normal() * 5), float(ck.rng.normal() * 5)],
                      "nframes": int(ck.rng.integers(2, 7)), "field": ["random", "affine", "flow"][int(ck.rng.integers(3))],
                      "bound_factor": 0.4, "renumber": [True, "dense"][i % 2], "cm": False, "times": ["equal", "unequal", "unequal", "from_zero", "through_zero"][int(ck.rng.integers(5))],
                      "b_matrix": ["velocity", "velocity", None][int(ck.rng.integers(3))], "adimensional": bool(ck.rng.integers(2)),
                      "vnorm": float(ck.rng.choice([1.0, 1.0, 0.1, 7.5, 0.0, -2.0])), "drop_vertex": bool(ck.rng.integers(3) == 0)})
    return cases


def run_case(ck, case, reqs, pending):
    np.seterr(all="raise")
    s = ser.build_tracking_series(case)
    if s is None:
        ck.count("rejected_tissue"); return
    n = case["nframes"]
    ck.count("time_stamps_" + str(case.get("times")))
    if 0.0 in s.times and case.get("times") != "equal":
        ck.count("time_stamp_exactly_zero_with_unequal_steps")
    rng = np.random.default_rng(case["seed"] + 4)
    frames = {}
    for t, sc in enumerate(s.frames_sc):
        sc.frame = impl.make_frame(sc.bm, frame_id=t, time=s.times[t])
        frames[t] = sc.frame
    f = impl.quiet(fs.ForSys, frames, cm=False)
    mapping = f.mesh.mapping
    if any(mapping[t] is None for t in range(n - 1)):
        ck.count("rejected_different_tissue"); return
    jun_of = [{vid: j for j, vid in s.vid[t].items()} for t in range(n)]
    # a vertex that disappears: remove its entry from the map (as if it had not been tracked)
    dropped = {}
    if case.get("drop_vertex"):
        t = int(rng.integers(n - 1))
        keys = [k for k, v in mapping[t].items() if v is not None]
        if keys:
            k = keys[int(rng.integers(len(keys)))]
            mapping[t][k] = None
            dropped[t] = k
            ck.count("dropped_vertices")
    pools = [ser.pools(frames[t]) for t in range(n)]
    # ---------------- velocities of all interface end points and a few interior vertices
    vq, got, want = [], [], []
    for t in range(n):
        ids = list(pools[t]) + [int(k) for k in list(frames[t].vertices.keys())[:3]]
        for v in ids:
            val = f.mesh.calculate_velocity(v, t)
            vq.append([int(v), t]); got.append((float(val[0]), float(val[1])))
            # S: independent finite difference
            t2 = t - 1 if t == n - 1 else t + 1
            j = jun_of[t].get(v)
            w = s.vid[t2].get(j) if j is not None else None
            tracked = w is not None
            if t == n - 1:
                # predecessor must map to v
                tracked = tracked and mapping[t2].get(w) == v
            else:
                tracked = tracked and mapping[t].get(v) == w
            p0 = frames[t].vertices[v]
            if tracked:
                p1 = frames[t2].vertices[w]
                dt = s.times[t2] - s.times[t]
                exp = ((p1.x - p0.x) / dt, (p1.y - p0.y) / dt)
            elif (t < n - 1 and mapping[t].get(v) is None) or (t == n - 1 and v not in mapping[t2].values()):
                exp = (0.0, 0.0)
                # the generated motions are inside the tracking bounds (0.4 of them) and every frame is numbered independently: an
                # interface end point whose physical partner exists must have been tracked (unless the harness removed its entry)
                if w is not None and v in pools[t] and w in pools[t2] and dropped.get(min(t, t2)) not in (v, w):
                    ck.fail("velocity = (tracked partner's position - own position) / (difference of the time stamps), for independent numbering of each frame",
                            f"frame {t} vertex {v}: its partner {w} in frame {t2} exists and moved within the tracking bounds, but it is not tracked "
                            f"(velocity {tuple(val)})", case)
            else:
                exp = None   # tracked to something else than the physical successor: C12's business
            want.append(exp)
            if exp is not None:
                tol = 1e-12 * (abs(exp[0]) + abs(exp[1]) + 1e-200) + 1e-200
                if abs(val[0] - exp[0]) > tol or abs(val[1] - exp[1]) > tol:
                    ck.fail("velocity = (tracked partner's position - own position) / (difference of the time stamps); zero when untracked",
                            f"frame {t} vertex {v}: got {tuple(val)} want {exp}", case)
    ck.count("velocities_checked", len(vq)); ck.count("untracked_zero", sum(1 for w in want if w == (0.0, 0.0)))
    fr_json = [{"time": rat(s.times[t]), "verts": [[int(k), rat(v.x), rat(v.y)] for k, v in frames[t].vertices.items()]} for t in range(n)]
    maps = [[[int(k), None if v is None else int(v)] for k, v in mapping[t].items()] for t in range(n - 1)]
    reqs.append({"op": "series", "frames": fr_json, "maps": maps, "velocities": vq, "tracks": []})
    pending.append(("vel", case, got))
    # ---------------- right-hand side of the dynamic system
    t = int(rng.integers(n))
    impl.quiet(f.build_force_matrix, when=t)
    fm = f.force_matrices[t]
    rowmap = {int(k): int(v) for k, v in fm.map_vid_to_row.items()}
    nrows = fm.matrix.shape[0]
    vel = {v: f.mesh.calculate_velocity(v, t) for v in rowmap}
    at_rest = bool(rowmap) and all(float(np.hypot(*vel[v])) == 0.0 for v in rowmap)
    # every option combination on the same frame: the case's own first, then the grid (b_matrix x adimensional x normalisation,
    # including 0, negative and the option left out)
    combos = [(case["b_matrix"], case["adimensional"], case["vnorm"])]
    combos += [(bm, ad, vn) for bm in ("velocity", None) for ad in (False, True) for vn in (None, 0.0, 0.25, -2.0, 1)]
    for bm_opt, adim, vnorm in combos:
        kw = {"adimensional_velocity": adim}
        if vnorm is not None:
            kw["velocity_normalization"] = vnorm
        if bm_opt:
            kw["b_matrix"] = bm_opt
        if adim and bm_opt == "velocity" and at_rest:
            # every used junction is at rest: the mean speed is zero and the adimensional right-hand side is 0/0 — outside the property
            ck.count("rejected_zero_mean_speed")
            continue
        b, avg = fm.set_velocity_matrix(f.mesh, **kw)
        b = np.array(b, dtype=float).flatten()
        raw = np.zeros(nrows)
        if bm_opt == "velocity":
            for v, r in rowmap.items():
                raw[r], raw[r + 1] = vel[v][0], vel[v][1]
            mean_speed = float(np.mean([math.hypot(*vel[v]) for v in rowmap])) if rowmap else 1.0
        else:
            mean_speed = 1.0
        exp_avg = mean_speed if (adim and bm_opt == "velocity" and rowmap) else 1
        tagc = f"options b_matrix={bm_opt} adimensional={adim} velocity_normalization={vnorm}"
        if abs(avg - exp_avg) > 1e-12 * abs(exp_avg):
            ck.fail("with adimensional velocities the divisor is the mean junction speed of the frame", f"{tagc}: got {avg} want {exp_avg}", case)
            break
        exp_b = raw / exp_avg * (1 if vnorm is None else vnorm)
        if len(b) != nrows or (nrows > 0 and np.max(np.abs(b - exp_b)) > 1e-12 * (np.max(np.abs(exp_b)) + 1e-200)):
            ck.fail("each used junction's velocity components are the right-hand sides of its own x- and y-equation (all zero in static mode)",
                    f"{tagc}: max deviation {np.max(np.abs(b - exp_b)) if len(b) == nrows else 'shape'}", case)
            break
        ck.count("rhs_option_combinations")
    ck.count("rhs_" + str(case["b_matrix"])); ck.count("adimensional_" + str(case["adimensional"]))
    if case["b_matrix"] == "velocity":
        impl.quiet(fm.set_velocity_matrix, f.mesh, b_matrix="velocity")
        raw = np.zeros(nrows)
        for v, r in rowmap.items():
            raw[r], raw[r + 1] = vel[v][0], vel[v][1]
        reqs.append({"op": "place_velocities", "nrows": nrows, "rows": [[r, [rat(vel[v][0]), rat(vel[v][1])]] for v, r in rowmap.items()]})
        pending.append(("place", case, [float(x) for x in np.array(fm.velocity_matrix_dimensional).flatten()], raw))
    # system velocity per frame
    zero_frames = []
    rm_default = {}
    for tt in range(n):
        impl.quiet(f.build_force_matrix, when=tt, angle_limit=np.inf)
        rm = f.force_matrices[tt].map_vid_to_row
        rm_default[tt] = {int(k): int(v_) for k, v_ in rm.items()}
        if rm and all(float(np.hypot(*f.mesh.calculate_velocity(v, tt))) == 0.0 for v in rm):
            zero_frames.append(tt)
    if zero_frames:
        # a frame whose used junctions are all at rest has mean speed zero: its adimensional velocity is 0/0 (outside the property)
        ck.count("rejected_system_velocity_zero_mean_speed")
        ck.case(case, nontrivial=True)
        return f, frames, s
    # the frames have served a build with a finite angle limit before the system velocity is asked for (with its default: no limit)
    for tt in range(n):
        impl.quiet(f.build_force_matrix, when=tt, angle_limit=0.75 * math.pi)
    sysv = impl.quiet(f.get_system_velocity_per_frame)
    for tt in range(n):
        rm = rm_default[tt]
        if rm:
            e = float(np.mean([math.hypot(*f.mesh.calculate_velocity(v, tt)) for v in rm]))
            if abs(sysv[tt] - e) > 1e-12 * abs(e):
                ck.fail("the frame's system velocity is the mean junction speed", f"frame {tt}: {sysv[tt]} vs {e}", case); break
    ck.case(case, nontrivial=True, sample=({"case": case, "first_velocities": got[:3]} if len(ck.samples) < 3 else None))
    return f, frames, s


def run(ck):
    ck.rule = ("series of 2..6 independently renumbered frames with equal or arbitrary increasing time stamps, displacement fields inside the "
               "tracking bounds, optionally a vertex made to disappear (its map entry set to None); velocities of every interface end point "
               "(and some interior vertices, which are untracked) at every frame; one frame's right-hand side with b_matrix in {None, velocity}, "
               "adimensional on/off, several velocity_normalization values. Non-trivial = every series; distinct = parameters")
    ck.assumptions = ["float division in calculate_velocity is compared at 1e-12 relative with the exact rational quotient",
                      "np.linalg.norm / np.mean for the mean speed are trusted IEEE steps"]
    cases = [ck.replaying["case"]] if ck.replaying else gen_cases(ck)
    reqs, pending, keep = [], [], []
    for case in cases:
        keep.append(ck.guard(case, run_case, ck, case, reqs, pending))
    resps = ck.driver(reqs)
    for (kind, case, a, *rest), resp in zip(pending, resps):
        if kind == "vel":
            for g, r in zip(a, resp["velocities"]):
                if "ok" not in r:
                    ck.disagree("calculate_velocity", f"model {r} impl {g}", case); break
                mx, my = float(unrat(r["ok"][0])), float(unrat(r["ok"][1]))
                tol = 1e-12 * (abs(mx) + abs(my)) + 1e-200
                if abs(mx - g[0]) > tol or abs(my - g[1]) > tol:
                    ck.disagree("calculate_velocity", f"model {(mx, my)} impl {g}", case); break
        else:
            raw = rest[0]
            mb = [float(unrat(x)) for x in resp["b"]]
            if mb != [float(x) for x in raw]:
                ck.disagree("row placement", "model placement differs from the independent placement", case)
            # the code's dimensional right-hand side is the placement rounded to 4 decimals
            if len(a) == len(mb) and len(mb) > 0 and np.max(np.abs(np.array(a) - np.round(np.array(mb), 4))) > 1e-12:
                ck.disagree("velocity_matrix_dimensional", "differs from round(placement, 4)", case)
