"""C03 — dynamic inference recovers tensions from junction velocities.

A series is built *around the frame under test* X so that the premise holds exactly there: the successor frame is
X + dt * sum_k tau_k t_k(X) at every used junction (t_k = closed-form unit tangent), the predecessor X - dt * (...) when the
last frame is tested; tau is an arbitrary positive vector with mean one over the inferred interfaces; every frame is renumbered
independently, time steps are unequal.
S: reported tensions vs tau within (rounding of the velocity term + closed-form coefficient tolerance) / sigma_min, asserted on
   well-posed systems, for default / lsq / lsq_linear back-ends.
K: exact-arithmetic optimality certificate of the solver output on the system with the rounded velocity right-hand side.
Theorems: exact_rhs_solves / exact_rhs_unique (uniqueness), nnls_nonexpansive + rounding_bound (the tolerance).
"""
import math
import numpy as np

import impl
import physical
import statics
from dump import rat, unrat

import forsys as fs

SIG_D2 = "tension-error-from-mirrored-tangent"


def gen_cases(ck):
    cases = ck.corpus_cases()
    n = 24 if ck.tier == "quick" else 200
    for i in range(n):
        mob = bool(ck.rng.integers(3) != 0)
        cases.append({"type": "series", "seed": int(ck.rng.integers(1 << 30)), "tissue": ["random", "jitter", "hex"][int(ck.rng.integers(3))],
                      "sites": int(ck.rng.integers(24, 50)), "subset": None, "min_ridge": 0.005, "mobius": mob,
                      "strength": float(ck.rng.uniform(0.3, 2.0)), "kmin": 1 if mob else 0, "kmax": int(ck.rng.choice([3, 8])),
                      "angle": float(ck.rng.uniform(0, 6.28)), "scale": float(10.0 ** ck.rng.uniform(-1, 1.5)),
                      "shift": [float(ck.rng.normal() * 3), float(ck.rng.normal() * 3)],
                      "where": ["first", "middle", "last"][int(ck.rng.integers(3))], "nframes": int(ck.rng.integers(2, 6)),
                      "method": [None, None, "lsq", "lsq_linear"][int(ck.rng.integers(4))], "fit": ["dlite", "taubinSVD"][int(ck.rng.integers(2))],
                      "tau_spread": float(ck.rng.choice([0.2, 0.6]))})
        # every third series: one used junction of the tested frame carries the vertex id 0 (other frames number it differently);
        # every third: a closest pair of junctions is turned nearly vertical and the two move sideways in opposite directions by
        # 0.9 of the tracking bound (less than half the smallest spacing), all other junctions slower
        cases[-1]["zero_id"] = bool(i % 3 == 0)
        cases[-1]["static_first"] = bool(i % 2 == 1)
        if i % 3 == 1:
            cases[-1].update({"steep": True, "tau_spread": 0.2, "bound_factor": 0.9})
    return cases


def steep_setup(ck, case, sc, ph, fit):
    """turn the tissue so that its closest pair of junctions A, B (joined by a used interface, both three-fold with equations) is 0.1 rad
    off the vertical; returns (sc, ph, A, B, column of AB) or None"""
    def closest(ph):
        ends = sorted({int(e[0]) for e in ph.earr} | {int(e[-1]) for e in ph.earr})
        P = np.array([[ph.frame.vertices[k].x, ph.frame.vertices[k].y] for k in ends])
        D = np.hypot(P[:, None, 0] - P[None, :, 0], P[:, None, 1] - P[None, :, 1]); D[np.diag_indices(len(P))] = np.inf
        a, b = np.unravel_index(int(np.argmin(D)), D.shape)
        return ends[a], ends[b]
    ca, cb = closest(ph)
    dmin = math.hypot(ph.frame.vertices[ca].x - ph.frame.vertices[cb].x, ph.frame.vertices[ca].y - ph.frame.vertices[cb].y)
    deg = lambda v: sum(1 for ids in ph.used if v in (ids[0], ids[-1]))
    cands = []
    for k, ids in enumerate(ph.used):
        a, b = int(ids[0]), int(ids[-1])
        L = math.hypot(ph.frame.vertices[a].x - ph.frame.vertices[b].x, ph.frame.vertices[a].y - ph.frame.vertices[b].y)
        if a in ph.rowmap and b in ph.rowmap and deg(a) == 3 and deg(b) == 3 and L <= 1.6 * dmin:
            cands.append((L, k, a, b))
    if not cands:
        return None
    _, k0, a, b = min(cands)
    col = [k0]
    for sign in (1.0, -1.0):
        va, vb = ph.frame.vertices[a], ph.frame.vertices[b]
        phi = math.atan2(vb.y - va.y, vb.x - va.x)
        c2 = dict(case, angle=case["angle"] + sign * (math.pi / 2 - 0.1 - phi))
        sc2 = statics.build_static(c2)
        if sc2 is None:
            return None
        ph2 = physical.run_static(sc2, fit=fit, solve=False)
        if [list(u) for u in ph2.used] != [list(u) for u in ph.used]:
            return None
        va, vb = ph2.frame.vertices[a], ph2.frame.vertices[b]
        L = math.hypot(vb.x - va.x, vb.y - va.y)
        if abs(abs(vb.x - va.x) - L * math.sin(0.1)) < 1e-6 * L:
            case["angle"] = c2["angle"]
            return sc2, ph2, a, b, col[0]
    return None


def steep_tensions(sc, ph, tau, a, b, col):
    """tensions of the interfaces at A and B chosen so that A moves along +x and B along -x (or the reverse) with speed V, tension of AB = 1"""
    def tangent(v, c):
        ids = ph.used[c]
        other = ids[-1] if ids[0] == v else ids[0]
        return statics.true_direction(sc, ph.jun[v], ph.jun[other], len(ids))
    for V in (1.2, 0.9, 0.6, 0.4):
        for s in (1.0, -1.0):
            t2 = tau.copy(); t2[col] = 1.0
            ok = True
            for v, sg in ((a, s), (b, -s)):
                others = [c for c, ids in enumerate(ph.used) if v in (ids[0], ids[-1]) and c != col]
                T = np.array([[tangent(v, c).real for c in others], [tangent(v, c).imag for c in others]])
                rhs = np.array([V * sg, 0.0]) - np.array([tangent(v, col).real, tangent(v, col).imag])
                try:
                    x = np.linalg.solve(T, rhs)
                except Exception:
                    ok = False; break
                if x.min() < 0.15:
                    ok = False; break
                t2[others] = x
            if ok:
                return t2
    return None


def d2_explains(sc, ph, coef_tol):
    """the known finding D2 explains an error only if every coefficient that is not mirrored is the true tangent"""
    for (j, rg), (cx, cy) in ph.coefs.items():
        if (j, rg) in ph.d2 or rg is None:
            continue
        col = ph.ridges.index(rg)
        a_, b_ = tuple(rg)
        t_ = statics.true_direction(sc, j, b_ if a_ == j else a_, len(ph.used[col]))
        if max(abs(cx - t_.real), abs(cy - t_.imag)) > 2 * coef_tol:
            return False
    return True


def run_case(ck, case, reqs, pending):
    np.seterr(all="raise")
    rng = np.random.default_rng(case["seed"] + 41)
    sc = statics.build_static(case)
    if sc is None:
        ck.count("rejected_tissue"); return
    fit, method = case.get("fit", "dlite"), case.get("method")
    ph = physical.run_static(sc, fit=fit, solve=False)
    if not ph.A.size or not ph.rowmap:
        ck.count("rejected_no_equations"); return
    n = ph.A.shape[1]
    tau = np.exp(rng.normal(size=n) * case["tau_spread"])
    if case.get("steep"):
        st = steep_setup(ck, case, sc, ph, fit)
        t2 = steep_tensions(st[0], st[1], tau, *st[2:]) if st else None
        if t2 is None:
            ck.count("steep_unavailable")
        else:
            sc, ph, tau = st[0], st[1], t2
            ck.count("steep_pair_moves_sideways")
    tau = tau / tau.mean()
    # velocities of the used junctions from closed-form tangents
    vel = {}
    for vv in ph.rowmap:
        j = ph.jun[vv]
        tot = 0j
        for col, ids in enumerate(ph.used):
            if vv in (ids[0], ids[-1]):
                other = ids[-1] if ids[0] == vv else ids[0]
                tot += tau[col] * statics.true_direction(sc, j, ph.jun[other], len(ids))
        vel[vv] = tot
    vmax = max(abs(v) for v in vel.values())
    if vmax == 0:
        ck.count("rejected_zero_velocity"); return
    # tracking bounds on the interface end points of X
    ends = sorted({int(e[0]) for e in ph.earr} | {int(e[-1]) for e in ph.earr})
    P = np.array([[ph.frame.vertices[k].x, ph.frame.vertices[k].y] for k in ends])
    D = np.hypot(P[:, None, 0] - P[None, :, 0], P[:, None, 1] - P[None, :, 1]); D[np.diag_indices(len(P))] = np.inf
    bound = case.get("bound_factor", 0.25) * min(0.5 * D.min(), 0.08 * max(np.ptp(P[:, 0]), np.ptp(P[:, 1])))
    nfr = max(case["nframes"], 3 if case["where"] == "middle" else 2)
    where = case["where"]
    t_test = 0 if where == "first" else (nfr - 1 if where == "last" else int(rng.integers(1, nfr - 1)))
    times = np.cumsum(rng.uniform(0.3, 2.5, size=nfr))
    t_other = t_test - 1 if where == "last" else t_test + 1                  # the frame the finite difference at t_test uses
    times = times * (bound / vmax) / float(abs(times[t_other] - times[t_test]))   # the tested step moves the fastest junction by exactly the bound
    # the origin of the clock is arbitrary: in half of the cases the tested frame or its partner carries the time stamp exactly 0
    # (earlier frames then have negative stamps); only differences of stamps may matter
    origin = int(case["seed"]) % 4
    if origin == 1:
        times = times - times[t_test]; ck.count("tested_frame_at_time_zero")
    elif origin == 2:
        times = times - times[t_other]; ck.count("partner_frame_at_time_zero")
    frames_bm = []
    base = sc.bm
    for t in range(nfr):
        dtt = times[t] - times[t_test]
        if t == t_test:
            pos = {}
        elif (where != "last" and t == t_test + 1) or (where == "last" and t == t_test - 1):
            pos = {vv: (ph.frame.vertices[vv].x + dtt * vel[vv].real, ph.frame.vertices[vv].y + dtt * vel[vv].imag) for vv in vel}
        else:
            # other frames: small unrelated drift (they must only be trackable)
            pos = {vv: (ph.frame.vertices[vv].x + 0.2 * bound * rng.normal() / 3, ph.frame.vertices[vv].y + 0.2 * bound * rng.normal() / 3) for vv in vel}
        perm = np.random.default_rng(case["seed"] + 500 + t).permutation(5000)
        if case.get("zero_id") and t == t_test:
            v0 = sorted(vel)[int(rng.integers(len(vel)))]
            k0 = int(np.where(perm == 0)[0][0])
            perm[k0], perm[v0] = perm[v0], 0
        frames_bm.append(statics.clone_displaced(base, pos, vmap=(lambda i, perm=perm: int(perm[i]))))
    frames = {t: impl.make_frame(frames_bm[t], frame_id=t, time=float(times[t])) for t in range(nfr)}
    f = impl.quiet(fs.ForSys, frames, cm=False)
    impl.quiet(f.build_force_matrix, when=t_test, circle_fit_method=fit)
    kw = {"b_matrix": "velocity"}
    if method:
        kw["method"] = method
    if case.get("static_first"):
        # the same assembled system was solved before in static mode (what was solved before must not matter)
        try:
            impl.quiet(f.solve_stress, when=t_test, **({"method": method} if method else {}))
            ck.count("static_solve_before_the_velocity_solve")
        except Exception:
            ck.count("static_solve_before_raised")
    impl.quiet(f.solve_stress, when=t_test, **kw)
    fm = f.force_matrices[t_test]
    fr = frames[t_test]
    ck.count("where_" + where); ck.count("method_" + str(method)); ck.count("frames", nfr)
    # map reported tensions to the physical interfaces of X
    idm = frames_bm[t_test].idmap
    inv = {v: k for k, v in idm.items()}
    used_now = [[inv[int(x)] for x in e] for e in fm.big_edges_to_use]
    if sorted(map(tuple, used_now)) != sorted(map(tuple, ph.used)):
        ck.disagree("generator: frame under test differs from its template", "interfaces differ", case); return
    order = [used_now.index(u) for u in ph.used]
    forces = fr.forces
    x = np.array([forces[k] for k in range(len(forces))])[order]
    A = np.array(fm.matrix, dtype=float)
    M = np.block([[A, np.ones((A.shape[0], 1))], [np.ones((1, n)), np.zeros((1, 1))]])
    sv = np.linalg.svd(M, compute_uv=False)
    wellposed = M.shape[0] >= M.shape[1] and sv[-1] >= 1e-3 * sv[0]
    if not wellposed:
        ck.count("skipped_not_uniquely_determined"); ck.case(case, nontrivial=False); return f
    rows = A.shape[0]
    coef_tol = physical.coef_tolerance(sc, ph, fit)
    if method == "lsq_linear":
        N = np.block([[A.T @ A, np.ones((n, 1))], [np.ones((1, n)), np.zeros((1, 1))]])
        s2 = np.linalg.svd(N, compute_uv=False)
        tol = (5e-4 * math.sqrt(n) * 2 + 2 * coef_tol * n * float(tau.max()) + 1e-6) / s2[-1]
    else:
        tol = (5e-4 * math.sqrt(rows) * 2 + 2 * coef_tol * math.sqrt(n) * float(tau.max()) + (1e-4 if method == "lsq" else 1e-8)) / sv[-1]
    err = float(np.max(np.abs(x - tau)))
    ck.dist["worst_error_over_tolerance"] = max(ck.dist.get("worst_error_over_tolerance", 0.0), err / tol if not ph.d2 else 0.0)
    if err > tol:
        ck.fail("velocity-based inference at the frame returns the tensions that generated the motion, within the tolerance implied by the rounding",
                f"{where} frame of {nfr}: max error {err:.3g} (tolerance {tol:.3g}, sigma_min {sv[-1]:.3g}, {len(ph.d2)} mirrored coefficients)", case,
                signature=SIG_D2 if (ph.d2 and d2_explains(sc, ph, coef_tol)) else None)
    rec = getattr(fm, "_verif", None)
    if rec is not None and rec["path"] in ("nnls-fallback", "inv"):
        eps = 1e-9 * (1.0 + float(np.max(np.abs(rec["b"])))) * rec["mprime"].shape[0]
        reqs.append({"op": "kkt", "M": [[rat(v) for v in row] for row in rec["mprime"]], "b": [rat(v) for v in rec["b"]],
                     "z": [rat(v) for v in rec["xres_raw"]], "eps": rat(eps), "delta": rat(eps * (1 + float(np.sum(np.abs(rec["xres_raw"])))))})
        pending.append((case, rec["path"]))
    ck.case(case, nontrivial=True, sample=({"case": case, "unknowns": n, "tested_frame": t_test, "max_error": err, "tolerance": tol} if len(ck.samples) < 3 else None))
    ck.count("asserted")
    return f, frames, frames_bm


def run(ck):
    ck.rule = ("arc/line tissues as in C01 with arbitrary log-normal positive tensions of mean one; 2..5-frame series built around the tested "
               "frame (first / middle / last = backward difference) with unequal time steps, every frame independently renumbered; methods "
               "default/lsq/lsq_linear, both circle fits. Non-trivial = well-posed system (assertion made); distinct = parameters")
    ck.assumptions = ["tolerance = (2*5e-4*sqrt(rows) + 2*coefficient tolerance*sqrt(n)*max tau + solver tolerance)/sigma_min (for lsq_linear: of the bordered normal matrix)",
                      "displacements are kept at a quarter of the tracking bounds so that C12's premises hold"]
    cases = [ck.replaying["case"]] if ck.replaying else gen_cases(ck)
    reqs, pending, keep = [], [], []
    for case in cases:
        keep.append(ck.guard(case, run_case, ck, case, reqs, pending))
    resps = ck.driver(reqs)
    for (case, path), resp in zip(pending, resps):
        ok = resp["solves"] if path == "inv" else resp["kkt"]
        if not resp["shaped"] or not ok:
            ck.disagree("optimality certificate", f"path {path}: minW {float(unrat(resp['minW']))} z.w {float(unrat(resp['zw']))}", case)
